import ArroyProofs.ForestBridge
import ArroyProofs.Properties.Unconditional
import ArroyProofs.Properties.C02
import ArroyProofs.Properties.C03
import ArroyProofs.Properties.C04
import ArroyProofs.Properties.C05
import ArroyProofs.Properties.C05Build
import ArroyProofs.Properties.C08
import ArroyProofs.Properties.C09
import ArroyProofs.Properties.C11
import ArroyProofs.Properties.C12
import ArroyProofs.Properties.C01Examples
/-! # End-to-end statements over reachable states

The reader theorems (C02, C03, C04) assume `ForestOK` / `ForestWith` / `DescSorted` / `RoutedT`; the
builder theorems (C01, C04-build) establish `Forest` / `IndexInv` / `Routed` after every history
`((add | append | del | clear | prepare)* build)+` (`prepare` = `Writer::prepare_changing_distance`). Here the two are composed (through `ArroyProofs/ForestBridge.lean`),
so that no intermediate predicate is left as a hypothesis: the statements are about
`C01.run ops` followed by a successful `Build.build`, `Reader.open` and the query functions only.

Standing hypotheses of every theorem: the operations of the history are well-formed (`Op.wf`: index
< 65536, item id < 2^32, builds with capacity ≥ 1 and `n_trees ≠ Some(0)`); the last build returns `.ok`.
Everything else (vector values, oracle streams, options, `available_memory`, fuel, cancellation
schedule, the other indexes of the store) is arbitrary. -/
namespace Arroy
open Generated Reader

/-! ## C01: the state after a successful build, as the reader sees it -/
namespace C01

/-- **C01 → reader**: after any history, a successful build of index `c` leaves a state on which
    `Reader::open` succeeds with the stored item ids, the declared dimension and some roots; the trees
    read at these roots (`Check.trees`) form a valid reader-side forest (`ForestWith`, all 8 clauses);
    every stored bucket is sorted; the item keys did not change; the index invariant holds. -/
theorem C01_reader_reachable (ops : List Op) (hops : ∀ op ∈ ops, op.wf)
    (c : Cfg) (o : BuildOpts) (fuel : Nat) (env st' : BState) (hwf : (Op.build c o fuel env).wf)
    (h : Build.build c o fuel { env with store := run ops } = .ok ((), st')) :
    ∃ roots,
      Reader.open c st'.store = .ok ⟨roots, c.dims, (run ops).keysOf c.index modeItem⟩ ∧
      ForestWith c st'.store ⟨roots, c.dims, (run ops).keysOf c.index modeItem⟩ (Check.trees c st'.store) ∧
      DescSorted c st'.store ∧
      st'.store.keysOf c.index modeItem = (run ops).keysOf c.index modeItem ∧
      IndexInv c st'.store := by
  obtain ⟨hrun, roots, ts, hm, hf, _, hnm⟩ := C01_forest ops hops c o fuel env st' hwf h
  have hops' : ∀ op ∈ ops ++ [Op.build c o fuel env], op.wf := by
    intro op hop
    rcases List.mem_append.1 hop with hop | hop
    · exact hops op hop
    · rw [List.mem_singleton.1 hop]; exact hwf
  have hinv : IndexInv c st'.store := hrun ▸ C01_invariant _ hops' c hwf.1
  exact ⟨roots, open_of_inv hinv hwf.1 hm hnm, forestWith_trees_of_inv hinv hm hnm,
    (forestWith_of_inv hinv hm hnm hf).2, items_eq_keysOf_of_inv hinv hwf.1 hm hnm, hinv⟩

/-- the same with `ForestOK` -/
theorem C01_forestOK_reachable (ops : List Op) (hops : ∀ op ∈ ops, op.wf)
    (c : Cfg) (o : BuildOpts) (fuel : Nat) (env st' : BState) (hwf : (Op.build c o fuel env).wf)
    (h : Build.build c o fuel { env with store := run ops } = .ok ((), st')) :
    ∃ roots,
      Reader.open c st'.store = .ok ⟨roots, c.dims, (run ops).keysOf c.index modeItem⟩ ∧
      ForestOK c st'.store ⟨roots, c.dims, (run ops).keysOf c.index modeItem⟩ ∧
      DescSorted c st'.store := by
  obtain ⟨roots, h1, h2, h3, _⟩ := C01_reader_reachable ops hops c o fuel env st' hwf h
  exact ⟨roots, h1, ⟨_, h2⟩, h3⟩

end C01

/-! ## C02: unlimited-budget search is exact on every reachable built state -/
namespace C02
open C01

/-- **C02, end to end**: after any history and a successful build, the reader opens, and a query with
    `search_k = usize::MAX` (any oversampling ≠ 0, no filter; fewer than 2^64 trees × items) returns
    exactly the `count` nearest stored items of the index, nearest first, with their distances
    (`exactOver`: all stored items scored by the true distance, sorted by `(score, id)`, truncated). -/
theorem C02_exact_reachable (ops : List Op) (hops : ∀ op ∈ ops, op.wf)
    (c : Cfg) (o : BuildOpts) (fuel : Nat) (env st' : BState) (hwf : (Op.build c o fuel env).wf)
    (h : Build.build c o fuel { env with store := run ops } = .ok ((), st')) :
    ∃ roots,
      Reader.open c st'.store = .ok ⟨roots, c.dims, (run ops).keysOf c.index modeItem⟩ ∧
      ∀ (qh qv : List Nat) (q : QueryOpts), q.candidates = none → q.searchK = some usizeMax →
        q.oversampling ≠ some 0 → roots.length * ((run ops).keysOf c.index modeItem).length ≤ usizeMax →
        nnsByLeaf c st'.store ⟨roots, c.dims, (run ops).keysOf c.index modeItem⟩ qh qv q =
          .ok (exactOver c st'.store c.dims qh qv q.count ((run ops).keysOf c.index modeItem)) := by
  obtain ⟨roots, h1, h2, _⟩ := C01_forestOK_reachable ops hops c o fuel env st' hwf h
  exact ⟨roots, h1, fun qh qv q hq hk ho hsz => C02_exact_usizeMax h2 qh qv q hq hk ho hsz⟩

/-- the same for any budget of at least trees × items (e.g. `count = usize::MAX` with the budget unset) -/
theorem C02_exact_budget_reachable (ops : List Op) (hops : ∀ op ∈ ops, op.wf)
    (c : Cfg) (o : BuildOpts) (fuel : Nat) (env st' : BState) (hwf : (Op.build c o fuel env).wf)
    (h : Build.build c o fuel { env with store := run ops } = .ok ((), st')) :
    ∃ roots,
      Reader.open c st'.store = .ok ⟨roots, c.dims, (run ops).keysOf c.index modeItem⟩ ∧
      ∀ (qh qv : List Nat) (q : QueryOpts), q.candidates = none →
        roots.length * ((run ops).keysOf c.index modeItem).length ≤ budget c.metric roots.length q →
        nnsByLeaf c st'.store ⟨roots, c.dims, (run ops).keysOf c.index modeItem⟩ qh qv q =
          .ok (exactOver c st'.store c.dims qh qv q.count ((run ops).keysOf c.index modeItem)) := by
  obtain ⟨roots, h1, h2, _⟩ := C01_forestOK_reachable ops hops c o fuel env st' hwf h
  exact ⟨roots, h1, fun qh qv q hq hb => C02_exact h2 qh qv q hq hb⟩

/-- **C02, end to end, against the oracle**: the answer is the head of `Check.bruteForce`, the brute-force
    scan of the stored leaves of the index in the state after the build -/
theorem C02_bruteforce_reachable (ops : List Op) (hops : ∀ op ∈ ops, op.wf)
    (c : Cfg) (o : BuildOpts) (fuel : Nat) (env st' : BState) (hwf : (Op.build c o fuel env).wf)
    (h : Build.build c o fuel { env with store := run ops } = .ok ((), st')) :
    ∃ roots,
      Reader.open c st'.store = .ok ⟨roots, c.dims, (run ops).keysOf c.index modeItem⟩ ∧
      ∀ (qh qv : List Nat) (q : QueryOpts), q.candidates = none → q.searchK = some usizeMax →
        q.oversampling ≠ some 0 → roots.length * ((run ops).keysOf c.index modeItem).length ≤ usizeMax →
        nnsByLeaf c st'.store ⟨roots, c.dims, (run ops).keysOf c.index modeItem⟩ qh qv q =
          .ok (((Check.bruteForce c st'.store qh qv none).take q.count).map
            fun (d, id) => (id, c.metric.normalizedDistance d c.dims)) := by
  obtain ⟨roots, h1, h2, _, h4, h5⟩ := C01_reader_reachable ops hops c o fuel env st' hwf h
  refine ⟨roots, h1, fun qh qv q hq hk ho hsz => ?_⟩
  exact C02_exact_bruteforce ⟨_, h2⟩ qh qv q hq (by rw [budget_unlimited _ _ q hk ho]; exact hsz)
    h5.1.2.1 hwf.1 h4

/-- **C02, end to end, through `QueryBuilder::by_vector` and `by_item`** -/
theorem C02_by_vector_reachable (ops : List Op) (hops : ∀ op ∈ ops, op.wf)
    (c : Cfg) (o : BuildOpts) (fuel : Nat) (env st' : BState) (hwf : (Op.build c o fuel env).wf)
    (h : Build.build c o fuel { env with store := run ops } = .ok ((), st')) :
    ∃ roots,
      Reader.open c st'.store = .ok ⟨roots, c.dims, (run ops).keysOf c.index modeItem⟩ ∧
      ∀ (vec : List Nat) (q : QueryOpts), vec.length = c.dims → q.candidates = none →
        q.searchK = some usizeMax → q.oversampling ≠ some 0 →
        roots.length * ((run ops).keysOf c.index modeItem).length ≤ usizeMax →
        byVector c st'.store ⟨roots, c.dims, (run ops).keysOf c.index modeItem⟩ vec q =
          .ok (exactOver c st'.store c.dims (c.metric.newHeader c.host (c.metric.fromSlice vec))
            (c.metric.fromSlice vec) q.count ((run ops).keysOf c.index modeItem)) := by
  obtain ⟨roots, h1, h2, _⟩ := C01_forestOK_reachable ops hops c o fuel env st' hwf h
  exact ⟨roots, h1, fun vec q hd hq hk ho hsz =>
    C02_by_vector h2 vec q hd hq (by rw [budget_unlimited _ _ q hk ho]; exact hsz)⟩

end C02

/-! ## C03: every query on a reachable built state succeeds, with a well-formed answer -/
namespace C03
open C01

/-- **C03, end to end (totality + well-formedness)**: after any history and a successful build, every
    query (any count, budget, oversampling, filter — sorted or not) returns `.ok`; the answer has at most
    `count` entries, pairwise distinct ids, each a stored item of the index inside the filter carrying its
    normalised true score, nearest first (ties by id). -/
theorem C03_total_reachable (ops : List Op) (hops : ∀ op ∈ ops, op.wf)
    (c : Cfg) (o : BuildOpts) (fuel : Nat) (env st' : BState) (hwf : (Op.build c o fuel env).wf)
    (h : Build.build c o fuel { env with store := run ops } = .ok ((), st')) :
    ∃ roots,
      Reader.open c st'.store = .ok ⟨roots, c.dims, (run ops).keysOf c.index modeItem⟩ ∧
      ∀ (qh qv : List Nat) (q : QueryOpts), ∃ ans,
        nnsByLeaf c st'.store ⟨roots, c.dims, (run ops).keysOf c.index modeItem⟩ qh qv q = .ok ans ∧
        (∀ p ∈ ans, p.1 ∈ (run ops).keysOf c.index modeItem) ∧
        ans.length ≤ q.count ∧
        (ans.map (·.1)).Nodup ∧
        (∀ p ∈ ans, IsLeaf c st'.store p.1 ∧ inCandidates q p.1 = true ∧
          p.2 = c.metric.normalizedDistance (scoreOf c st'.store qh qv p.1) c.dims) ∧
        (ans.map fun p => (scoreOf c st'.store qh qv p.1, p.1)).Pairwise (fun a b => scoreLe a b = true) := by
  obtain ⟨roots, h1, h2, _⟩ := C01_forestOK_reachable ops hops c o fuel env st' hwf h
  refine ⟨roots, h1, fun qh qv q => ?_⟩
  obtain ⟨ans, ha, hm⟩ := C03_total h2 qh qv q
  exact ⟨ans, ha, hm, C03_wellformed c st'.store _ qh qv q ans ha⟩

/-- **C03, end to end (filter + unlimited budget)**: with a sorted filter `cs` and `search_k = usize::MAX`
    the answer is the exact answer over the stored items that are in `cs` (the `DescSorted` hypothesis of
    `C03_filter_exact` holds on every reachable built state) -/
theorem C03_filter_exact_reachable (ops : List Op) (hops : ∀ op ∈ ops, op.wf)
    (c : Cfg) (o : BuildOpts) (fuel : Nat) (env st' : BState) (hwf : (Op.build c o fuel env).wf)
    (h : Build.build c o fuel { env with store := run ops } = .ok ((), st')) :
    ∃ roots,
      Reader.open c st'.store = .ok ⟨roots, c.dims, (run ops).keysOf c.index modeItem⟩ ∧
      ∀ (qh qv : List Nat) (q : QueryOpts) (cs : List Nat), q.candidates = some cs → IdSet.Sorted cs →
        q.searchK = some usizeMax → q.oversampling ≠ some 0 →
        roots.length * ((run ops).keysOf c.index modeItem).length ≤ usizeMax →
        nnsByLeaf c st'.store ⟨roots, c.dims, (run ops).keysOf c.index modeItem⟩ qh qv q =
          .ok (exactOver c st'.store c.dims qh qv q.count
            (((run ops).keysOf c.index modeItem).filter fun x => cs.contains x)) := by
  obtain ⟨roots, h1, h2, h3⟩ := C01_forestOK_reachable ops hops c o fuel env st' hwf h
  exact ⟨roots, h1, fun qh qv q cs hq hcs hk ho hsz =>
    C03_filter_exact_usizeMax h2 h3 qh qv q cs hq hcs hk ho hsz⟩

/-- **C03, end to end (budget monotonicity)** needs no composition: `C03_monotone` has no hypothesis on
    the store; on a reachable built state both queries moreover succeed (`C03_total_reachable`). -/
theorem C03_monotone_reachable (ops : List Op) (hops : ∀ op ∈ ops, op.wf)
    (c : Cfg) (o : BuildOpts) (fuel : Nat) (env st' : BState) (hwf : (Op.build c o fuel env).wf)
    (h : Build.build c o fuel { env with store := run ops } = .ok ((), st')) :
    ∃ roots,
      Reader.open c st'.store = .ok ⟨roots, c.dims, (run ops).keysOf c.index modeItem⟩ ∧
      ∀ (qh qv : List Nat) (q₁ q₂ : QueryOpts), q₁.count = q₂.count → q₁.candidates = q₂.candidates →
        budget c.metric roots.length q₁ ≤ budget c.metric roots.length q₂ →
        ∃ ans₁ ans₂,
          nnsByLeaf c st'.store ⟨roots, c.dims, (run ops).keysOf c.index modeItem⟩ qh qv q₁ = .ok ans₁ ∧
          nnsByLeaf c st'.store ⟨roots, c.dims, (run ops).keysOf c.index modeItem⟩ qh qv q₂ = .ok ans₂ ∧
          ans₁.length ≤ ans₂.length ∧
          ∀ (j : Nat) (a₁ a₂ : Nat × Nat), ans₁[j]? = some a₁ → ans₂[j]? = some a₂ →
            scoreLe (scoreOf c st'.store qh qv a₂.1, a₂.1) (scoreOf c st'.store qh qv a₁.1, a₁.1) = true := by
  obtain ⟨roots, h1, h2, _⟩ := C01_forestOK_reachable ops hops c o fuel env st' hwf h
  refine ⟨roots, h1, fun qh qv q₁ q₂ hc hcand hb => ?_⟩
  obtain ⟨ans₂, ha₂, _⟩ := C03_total h2 qh qv q₂
  obtain ⟨ans₁, ha₁, hl, hr⟩ := C03_monotone c st'.store _ qh qv q₁ q₂ hc hcand hb ans₂ ha₂
  exact ⟨ans₁, ans₂, ha₁, ha₂, hl, hr⟩

end C03

/-! ## C04: self-lookup on every reachable built state -/
namespace C04
open C01

/-- the margin is symmetric: always for the quantised metrics (`C12_hamming_symm`), and for the f32
    metrics between vectors of the same length (`C11_symm_dot`; the SIMD kernels dispatch on the
    length of the first argument, so this hypothesis cannot be dropped) -/
theorem margin_symm_of_length (m : Metric) (host : Host) (u v : List Nat)
    (hl : m.isBq = false → u.length = v.length) : m.margin host u v = m.margin host v u := by
  unfold Metric.margin
  cases hb : m.isBq with
  | true =>
    simp only [if_true]
    unfold BQ.dot
    rw [C12.C12_hamming_symm u v, Nat.min_comm]
  | false =>
    simp only [Bool.false_eq_true, if_false]
    exact C11.C11_symm_dot host u v (hl hb)

/-- **C04, end to end, given the vector lengths**: after a history in which index `c` was always built
    with the same configuration (`sameCfg`) and a successful build, for every stored item `x` that some
    tree separates by non-degenerate planes with decisive margins only (`Check.hasGoodTree`), `by_item(x)`
    with any budget ≥ 1 (e.g. `search_k = 1`), no filter and `count ≥ #items` returns `x`.

    `hlen` (f32 metrics only): every split normal of the trees has as many words as `x`'s vector. The
    stored vector has `c.dims` words when the items were added with dimension `c.dims`
    (`C04_stored_length_reachable` below); the normals are produced by the oracle stream
    (`BState.normals`, standing for `D::create_split`'s random choices) whose length the model does NOT
    constrain — so `hlen` is a hypothesis on the oracle (the real `create_split` returns a vector of the
    dimension of the leaves). For the quantised metrics the margin is symmetric for all lengths and
    `hlen` is vacuous (`C04_selfLookup_reachable_bq`). -/
theorem C04_selfLookup_reachable_given_lengths (ops : List Op) (hops : ∀ op ∈ ops, op.wf)
    (c : Cfg) (hQ : ∀ op ∈ ops, sameCfg c op)
    (o : BuildOpts) (fuel : Nat) (env st' : BState) (hwf : (Op.build c o fuel env).wf)
    (h : Build.build c o fuel { env with store := run ops } = .ok ((), st'))
    (x : Nat) (hd v : List Nat) (hx : Store.get st'.store (c.itemKey x) = some (.leaf hd v))
    (hgood : Check.hasGoodTree c st'.store x = true)
    (hlen : c.metric.isBq = false → ∀ t ∈ Check.trees c st'.store, ∀ n ∈ t.normals, n.length = v.length) :
    ∃ roots,
      Reader.open c st'.store = .ok ⟨roots, c.dims, (run ops).keysOf c.index modeItem⟩ ∧
      ∀ q : QueryOpts, q.candidates = none → 1 ≤ budget c.metric roots.length q →
        ((run ops).keysOf c.index modeItem).length ≤ q.count →
        ∃ ans, byItem c st'.store ⟨roots, c.dims, (run ops).keysOf c.index modeItem⟩ x q = .ok (some ans) ∧
          x ∈ ans.map (·.1) := by
  obtain ⟨roots, h1, h2, _⟩ := C01_reader_reachable ops hops c o fuel env st' hwf h
  have hr := (C04_routed_all_histories c ops hops hQ o fuel env st' hwf h).1
  obtain ⟨t₀, ht₀, hg⟩ := List.any_eq_true.1 hgood
  refine ⟨roots, h1, fun q hq hb hc => ?_⟩
  exact C04_selfLookup_by_item h2 o hr x hd v hx
    (fun t ht n hn => margin_symm_of_length _ _ _ _ (fun hb => (hlen hb t ht n hn).symm))
    t₀ ht₀ hg q hq hb hc

/-- **C04, end to end, quantised metrics**: no hypothesis on lengths -/
theorem C04_selfLookup_reachable_bq (ops : List Op) (hops : ∀ op ∈ ops, op.wf)
    (c : Cfg) (hbq : c.metric.isBq = true) (hQ : ∀ op ∈ ops, sameCfg c op)
    (o : BuildOpts) (fuel : Nat) (env st' : BState) (hwf : (Op.build c o fuel env).wf)
    (h : Build.build c o fuel { env with store := run ops } = .ok ((), st'))
    (x : Nat) (hx : (Store.get st'.store (c.itemKey x)).isSome = true)
    (hgood : Check.hasGoodTree c st'.store x = true) :
    ∃ roots,
      Reader.open c st'.store = .ok ⟨roots, c.dims, (run ops).keysOf c.index modeItem⟩ ∧
      ∀ q : QueryOpts, q.candidates = none → 1 ≤ budget c.metric roots.length q →
        ((run ops).keysOf c.index modeItem).length ≤ q.count →
        ∃ ans, byItem c st'.store ⟨roots, c.dims, (run ops).keysOf c.index modeItem⟩ x q = .ok (some ans) ∧
          x ∈ ans.map (·.1) := by
  obtain ⟨_, _, _, _, _, hinv⟩ := C01_reader_reachable ops hops c o fuel env st' hwf h
  obtain ⟨hd, v, hg⟩ := hinv.1.2.2.1.leaf_of_isSome hx
  exact C04_selfLookup_reachable_given_lengths ops hops c hQ o fuel env st' hwf h x hd v hg hgood
    (fun hb => by rw [hbq] at hb; cases hb)

/-! ### the stored vectors of an f32 index have `c.dims` words -/

/-- every item of index `c` is added with the dimension of `c` and an f32 metric, and every metric change of
    the index is made at the dimension of `c`, towards an f32 metric -/
def itemsCfg (c : Cfg) : Op → Prop
  | .add c' _ _ => c'.index = c.index → c'.dims = c.dims ∧ c'.metric.isBq = false
  | .append c' _ _ => c'.index = c.index → c'.dims = c.dims ∧ c'.metric.isBq = false
  | .prepare c' m' => c'.index = c.index → c'.dims = c.dims ∧ m'.isBq = false
  | _ => True

/-- every stored leaf of index `c` has `c.dims` vector words -/
def VecLen (c : Cfg) (s : Store) : Prop :=
  ∀ id hd v, Store.get s (c.itemKey id) = some (.leaf hd v) → v.length = c.dims

theorem vecLen_add {c c' : Cfg} {s s' : Store} {id : Nat} {vec : List Nat}
    (hc : c'.index = c.index → c'.dims = c.dims ∧ c'.metric.isBq = false)
    (h : Writer.addItem c' s id vec = .ok s') (hP : VecLen c s) : VecLen c s' := by
  intro id0 hd v hg
  rw [Writer.get_addItem h, if_neg (Cfg.itemKey_ne_updatedKey c' c id id0)] at hg
  by_cases he : c.itemKey id0 = c'.itemKey id
  · rw [if_pos he] at hg
    obtain ⟨hdims, hbq⟩ := hc ((Cfg.itemKey_eq_iff c' c id id0).1 he).1.symm
    simp only [Cfg.mkLeaf, Metric.fromSlice, hbq, Bool.false_eq_true, if_false, Option.some.injEq,
      Val.leaf.injEq] at hg
    rw [← hg.2, (Writer.addItem_ok h).1, hdims]
  · rw [if_neg he] at hg
    exact hP id0 hd v hg

/-- a metric change towards an f32 metric at the dimension of the index re-encodes every vector at that
    dimension (from a quantised metric: the first `dims` of the `64 * dims` unpacked signs) -/
theorem vecLen_prepare {c c' : Cfg} {m' : Metric} {s s' : Store}
    (hc : c'.index = c.index → c'.dims = c.dims ∧ m'.isBq = false) (hi' : c'.index < 65536)
    (hinv : IndexInv c' s) (h : Writer.prepareChangingDistance c' m' s = .ok s') (hP : VecLen c s) :
    VecLen c s' := by
  by_cases hne : m' = c'.metric
  · subst hne
    rw [C18.C18_same] at h
    cases h; exact hP
  · obtain ⟨s'', h', _, hsome, hleaf, ho, _⟩ :=
      C18.C18_change c' m' s hne hinv.1.2.1 hinv.1.1 hi' hinv.1.2.2.1
    rw [h] at h'
    cases h'
    intro id0 hd v hg
    by_cases he : c'.index = c.index
    · obtain ⟨hdims, hbq⟩ := hc he
      have hk : c.itemKey id0 = c'.itemKey id0 := by simp [Cfg.itemKey, he]
      rw [hk] at hg
      have hx : (Store.get s (c'.itemKey id0)).isSome = true := by rw [← hsome, hg]; rfl
      obtain ⟨hd0, v0, hg0⟩ := hinv.1.2.2.1.leaf_of_isSome hx
      have hl0 : v0.length = c.dims := hP id0 hd0 v0 (by rw [hk]; exact hg0)
      rw [hleaf id0 hd0 v0 hg0] at hg
      simp only [Cfg.mkLeaf, Metric.fromSlice, hbq, Bool.false_eq_true, if_false, Option.some.injEq,
        Val.leaf.injEq] at hg
      rw [← hg.2, List.length_take, hdims]
      unfold Metric.toVec
      split
      · rw [Writer.bqUnpack_length, hl0]
        have : quantizedWordBits = 64 := rfl
        rw [this]; omega
      · rw [hl0]; omega
    · rw [ho _ (Or.inl (fun e => he e.symm))] at hg
      exact hP id0 hd v hg

theorem vecLen_step (s : Store) (op : Op) (hop : op.wf) (c : Cfg) (hi : c.index < 65536)
    (hq : itemsCfg c op) (hinv : ∀ c : Cfg, c.index < 65536 → IndexInv c s) (hP : VecLen c s) :
    VecLen c (step s op) := by
  cases op with
  | add c' id vec =>
    simp only [step]
    cases h : Writer.addItem c' s id vec with
    | ok s' => exact vecLen_add hq h hP
    | error e => exact hP
  | append c' id vec =>
    simp only [step]
    cases h : Writer.appendItem c' s id vec with
    | ok s' => exact vecLen_add hq (Writer.appendItem_ok_eq_addItem (hinv c hi).1.1 h) hP
    | error e => exact hP
  | del c' id =>
    intro id0 hd v hg
    simp only [step] at hg
    rw [Writer.get_delItem] at hg
    split at hg
    · cases hg
    · split at hg
      · cases hg
      · exact hP id0 hd v hg
  | clear c' =>
    intro id0 hd v hg
    simp only [step] at hg
    by_cases he : c.index = c'.index
    · rw [Writer.get_clear_same c' s _ he] at hg; cases hg
    · rw [get_clear_other' c' s (hinv c hi).1.2.1 hop _ he] at hg
      exact hP id0 hd v hg
  | build c' o fuel env =>
    simp only [step]
    cases h : Build.build c' o fuel { env with store := s } with
    | error e => exact hP
    | ok r =>
      obtain ⟨u, st'⟩ := r
      intro id0 hd v hg
      simp only at hg
      by_cases hk : (c.itemKey id0).wf
      · rcases C05.C05_build_item_keys c' hop.1 o fuel { env with store := s } st' (hinv c hi).1.1 h
          (c.itemKey id0) hk rfl with e | ⟨h0, h', v', e1, e2⟩
        · exact hP id0 hd v (by rw [e]; exact hg)
        · rw [hg] at e2
          cases e2
          exact hP id0 h0 v e1
      · have hw' : Store.WF st'.store := by
          have := C01_inv_step freshSupply s (.build c' o fuel env) hop hinv c hi
          simp only [step, h] at this
          exact this.1.2.1
        rw [Store.get_none_of_not_wf hw' hk] at hg
        cases hg
  | prepare c' m' =>
    simp only [step]
    cases h : Writer.prepareChangingDistance c' m' s with
    | ok s' => exact vecLen_prepare hq hop (hinv c' hop) h hP
    | error e => exact hP

/-- **the length invariant over histories**: if every item of index `c` is added with dimension
    `c.dims` and an f32 metric, every stored leaf of the index has exactly `c.dims` vector words, in
    every reachable state (builds — of any index, with any oracle — never change a vector). -/
theorem C04_stored_length_reachable (c : Cfg) (hi : c.index < 65536) (ops : List Op)
    (hops : ∀ op ∈ ops, op.wf) (hq : ∀ op ∈ ops, itemsCfg c op) : VecLen c (run ops) := by
  unfold run
  suffices ∀ s : Store, (∀ c : Cfg, c.index < 65536 → IndexInv c s) → VecLen c s →
      VecLen c (ops.foldl step s) from
    this [] (fun c _ => C01_inv_empty c) (by intro id hd v hg; simp [Store.get] at hg)
  induction ops with
  | nil => intro s _ h; exact h
  | cons op ops ih =>
    intro s hinv hP
    simp only [List.foldl_cons]
    have hop := hops op (by simp)
    exact ih (fun op' h' => hops op' (List.mem_cons_of_mem _ h')) (fun op' h' => hq op' (List.mem_cons_of_mem _ h'))
      _ (C01_inv_step freshSupply s op hop hinv) (vecLen_step s op hop c hi (hq op (by simp)) hinv hP)

/-- **C04, end to end, f32 metrics, given the length of the oracle's normals only**: the items of the
    index were added with dimension `c.dims`; `hnormals` says that the split normals the oracle supplied
    (they are the only source of the normals of the trees) have `c.dims` words. -/
theorem C04_selfLookup_reachable_given_normal_lengths (ops : List Op) (hops : ∀ op ∈ ops, op.wf)
    (c : Cfg) (hQ : ∀ op ∈ ops, sameCfg c op) (hq : ∀ op ∈ ops, itemsCfg c op)
    (o : BuildOpts) (fuel : Nat) (env st' : BState) (hwf : (Op.build c o fuel env).wf)
    (h : Build.build c o fuel { env with store := run ops } = .ok ((), st'))
    (x : Nat) (hx : (Store.get st'.store (c.itemKey x)).isSome = true)
    (hgood : Check.hasGoodTree c st'.store x = true)
    (hnormals : ∀ t ∈ Check.trees c st'.store, ∀ n ∈ t.normals, n.length = c.dims) :
    ∃ roots,
      Reader.open c st'.store = .ok ⟨roots, c.dims, (run ops).keysOf c.index modeItem⟩ ∧
      ∀ q : QueryOpts, q.candidates = none → 1 ≤ budget c.metric roots.length q →
        ((run ops).keysOf c.index modeItem).length ≤ q.count →
        ∃ ans, byItem c st'.store ⟨roots, c.dims, (run ops).keysOf c.index modeItem⟩ x q = .ok (some ans) ∧
          x ∈ ans.map (·.1) := by
  obtain ⟨hrun, _⟩ := C01_forest ops hops c o fuel env st' hwf h
  obtain ⟨_, _, _, _, _, hinv⟩ := C01_reader_reachable ops hops c o fuel env st' hwf h
  obtain ⟨hd, v, hg⟩ := hinv.1.2.2.1.leaf_of_isSome hx
  have hlen : VecLen c st'.store := by
    rw [← hrun]
    apply C04_stored_length_reachable c hwf.1
    · intro op hop
      rcases List.mem_append.1 hop with hop | hop
      · exact hops op hop
      · rw [List.mem_singleton.1 hop]; exact hwf
    · intro op hop
      rcases List.mem_append.1 hop with hop | hop
      · exact hq op hop
      · rw [List.mem_singleton.1 hop]; trivial
  exact C04_selfLookup_reachable_given_lengths ops hops c hQ o fuel env st' hwf h x hd v hg hgood
    (fun _ t ht n hn => by rw [hnormals t ht n hn, hlen x hd v hg])

end C04

/-! ## C05: quantised read-back, unconditional -/
namespace C05

/-- **C05, quantised metrics**: reading back an item just written gives the sign pattern (`±1.0`) of what
    was written, at the declared dimension — `C05_bq_readback_given_roundtrip` with its round-trip
    hypothesis discharged by `C12_roundtrip` (every dimension, every component value) -/
theorem C05_bq_readback (c : Cfg) (s s' : Store) (id : Nat) (vec : List Nat)
    (hm : c.metric.isBq = true) (h : Writer.addItem c s id vec = .ok s') :
    Writer.itemVector c s' id = some (vec.map sign) :=
  C05_bq_readback_given_roundtrip (fun xs => C12.C12_roundtrip xs) c s s' id vec hm h

/-- the same through `append_item` -/
theorem C05_bq_readback_append (c : Cfg) (s s' : Store) (hs : Store.Sorted s) (id : Nat) (vec : List Nat)
    (hm : c.metric.isBq = true) (h : Writer.appendItem c s id vec = .ok s') :
    Writer.itemVector c s' id = some (vec.map sign) :=
  C05_bq_readback c s s' id vec hm (Writer.appendItem_ok_eq_addItem hs h)

/-- non-vacuity: BQ-Euclidean, dimension 3, the vector (1.0, -2.0, -0.0) reads back as (1.0, -1.0, -1.0) -/
example : ∃ s', Writer.addItem ⟨0, .bqEuclidean, 3, {}⟩ [] 7 [1065353216, 3221225472, 2147483648] = .ok s' ∧
    Writer.itemVector ⟨0, .bqEuclidean, 3, {}⟩ s' 7 = some [F32.one, F32.negOne, F32.negOne] := by
  refine ⟨_, rfl, ?_⟩
  rw [C05_bq_readback ⟨0, .bqEuclidean, 3, {}⟩ [] _ 7 [1065353216, 3221225472, 2147483648] rfl rfl]
  decide

end C05

/-! ## C08 / C09: every committed version, reader snapshot and recovered state is a reachable state

The environment model (`ArroyModel/Env.lean`) runs arbitrary `Store → Store` functions in its write
transactions. Here the writing thread runs arroy operations (`C01.step`), grouped in transactions that
are committed, aborted or cut by a crash, interleaved with readers opening and closing and with
crashes between transactions. Every version that is ever committed — hence every snapshot a reader
observes and the state found after a crash — is `C01.run h` for the concatenation `h` of the committed
transactions so far; if every committed transaction ends with a successful build of index `c`, it
satisfies the conclusions of C01/C02/C03. -/
namespace C01

/-- `v` is the state right after a successful build of index `c` at the end of a well-formed history -/
def BuiltState (c : Cfg) (v : Store) : Prop :=
  ∃ (ops : List Op) (o : BuildOpts) (fuel : Nat) (env st' : BState),
    (∀ op ∈ ops, op.wf) ∧ (Op.build c o fuel env).wf ∧
    Build.build c o fuel { env with store := run ops } = .ok ((), st') ∧ v = st'.store

/-- what C01 says of such a state, in terms of the state alone -/
theorem BuiltState.reader {c : Cfg} {v : Store} (hb : BuiltState c v) :
    ∃ roots,
      Reader.open c v = .ok ⟨roots, c.dims, v.keysOf c.index modeItem⟩ ∧
      ForestWith c v ⟨roots, c.dims, v.keysOf c.index modeItem⟩ (Check.trees c v) ∧
      DescSorted c v ∧ IndexInv c v ∧ Check.forestValid c v = [] := by
  obtain ⟨ops, o, fuel, env, st', hops, hwf, h, rfl⟩ := hb
  obtain ⟨roots, h1, h2, h3, h4, h5⟩ := C01_reader_reachable ops hops c o fuel env st' hwf h
  have hchk := C01_checker_accepts ops hops c o fuel env st' hwf h
  rw [(C01_forest ops hops c o fuel env st' hwf h).1] at hchk
  rw [h4]
  exact ⟨roots, h1, h2, h3, h5, hchk⟩

/-- C02 and C03 on such a state -/
theorem BuiltState.queries {c : Cfg} {v : Store} (hb : BuiltState c v) :
    ∃ roots,
      Reader.open c v = .ok ⟨roots, c.dims, v.keysOf c.index modeItem⟩ ∧
      (∀ (qh qv : List Nat) (q : QueryOpts), ∃ ans,
        nnsByLeaf c v ⟨roots, c.dims, v.keysOf c.index modeItem⟩ qh qv q = .ok ans ∧
        ∀ p ∈ ans, p.1 ∈ v.keysOf c.index modeItem) ∧
      (∀ (qh qv : List Nat) (q : QueryOpts), q.candidates = none → q.searchK = some usizeMax →
        q.oversampling ≠ some 0 → roots.length * (v.keysOf c.index modeItem).length ≤ usizeMax →
        nnsByLeaf c v ⟨roots, c.dims, v.keysOf c.index modeItem⟩ qh qv q =
          .ok (exactOver c v c.dims qh qv q.count (v.keysOf c.index modeItem))) := by
  obtain ⟨roots, h1, h2, _⟩ := hb.reader
  exact ⟨roots, h1, fun qh qv q => C03.C03_total ⟨_, h2⟩ qh qv q,
    fun qh qv q hq hk ho hsz => C02.C02_exact_usizeMax ⟨_, h2⟩ qh qv q hq hk ho hsz⟩

theorem run_append (h ops : List Op) : run (h ++ ops) = ops.foldl step (run h) := by
  simp only [run, List.foldl_append]

end C01

namespace C08
open C01

/-- one operation of the writing thread, as an event of the environment -/
def wr (op : Op) : Env.Event := .write (fun s => step s op)

/-- what happens in the environment, at the granularity of transactions -/
inductive Item where
  /-- a write transaction that commits -/
  | commitTx (ops : List Op)
  /-- a write transaction that is aborted (e.g. after a failed or cancelled build) -/
  | abortTx (ops : List Op)
  /-- a write transaction cut by a crash of the process -/
  | crashTx (ops : List Op)
  | openR (rid : Nat)
  | closeR (rid : Nat)
  /-- a crash while no write transaction is open -/
  | crash

def Item.events : Item → List Env.Event
  | .commitTx ops => .beginW :: ops.map wr ++ [.commit]
  | .abortTx ops => .beginW :: ops.map wr ++ [.abort]
  | .crashTx ops => .beginW :: ops.map wr ++ [.crash]
  | .openR rid => [.openR rid]
  | .closeR rid => [.closeR rid]
  | .crash => [.crash]

/-- the operations attempted by an item -/
def Item.ops : Item → List Op
  | .commitTx ops => ops
  | .abortTx ops => ops
  | .crashTx ops => ops
  | _ => []

/-- the operations an item commits -/
def Item.committed : Item → List Op
  | .commitTx ops => ops
  | _ => []

def events (sched : List Item) : List Env.Event := sched.flatMap Item.events
def committedOps (sched : List Item) : List Op := sched.flatMap Item.committed

theorem run_append' (e : Env) (a b : List Env.Event) : e.run (a ++ b) = (e.run a).run b := by
  simp only [Env.run, List.foldl_append]

theorem run_writes (ops : List Op) : ∀ (e : Env) (s : Store), e.writer = some s →
    (e.run (ops.map wr)).writer = some (ops.foldl step s) ∧
    (e.run (ops.map wr)).history = e.history ∧ (e.run (ops.map wr)).readers = e.readers := by
  induction ops with
  | nil => intro e s h; exact ⟨h, rfl, rfl⟩
  | cons op ops ih =>
    intro e s h
    simp only [List.map_cons, Env.run, List.foldl_cons]
    exact ih (e.step (wr op)) (step s op) (by simp [wr, Env.step, h])

/-- a transaction up to (excluding) its last event -/
theorem run_tx (e : Env) (hw : e.writer = none) (ops : List Op) (last : Env.Event) :
    ∃ e2 : Env, e.run (.beginW :: ops.map wr ++ [last]) = e2.step last ∧
      e2.writer = some (ops.foldl step e.committed) ∧ e2.history = e.history ∧ e2.readers = e.readers := by
  refine ⟨(e.step .beginW).run (ops.map wr), ?_, ?_⟩
  · simp only [Env.run, List.cons_append, List.foldl_cons, List.foldl_append, List.foldl_nil]
  · have hb : (e.step .beginW).writer = some e.committed := by simp [Env.step, hw]
    obtain ⟨h1, h2, h3⟩ := run_writes ops (e.step .beginW) e.committed hb
    refine ⟨h1, ?_, ?_⟩
    · rw [h2]; simp [Env.step, hw]
    · rw [h3]; simp [Env.step, hw]

/-- **`committed_is_run`**: from an environment whose committed version is `C01.run h`, running
    `begin; ops; commit` makes the committed version `C01.run (h ++ ops)`: one more reachable state -/
theorem committed_is_run (e : Env) (hw : e.writer = none) (h ops : List Op) (hc : e.committed = run h) :
    (e.run (Item.commitTx ops).events).committed = run (h ++ ops) ∧
    (e.run (Item.commitTx ops).events).history = run (h ++ ops) :: e.history ∧
    (e.run (Item.commitTx ops).events).writer = none ∧
    (e.run (Item.commitTx ops).events).readers = e.readers := by
  obtain ⟨e2, he, h1, h2, h3⟩ := run_tx e hw ops .commit
  simp only [Item.events]
  rw [he, run_append, ← hc]
  simp [Env.step, h1, h2, h3, Env.committed]

theorem pinned_run (e : Env) (evs : List Env.Event) (hne : e.history ≠ []) (hp : ReadersPinned e) :
    (e.run evs).history ≠ [] ∧ ReadersPinned (e.run evs) := by
  induction evs generalizing e with
  | nil => exact ⟨hne, hp⟩
  | cons ev evs ih =>
    simp only [Env.run, List.foldl_cons]
    exact ih _ (history_ne_nil_step e ev hne) (pinned_step e ev hne hp)

/-- the invariant of the environment between two items: no open writer, the committed version is the run
    of the committed operations `h`, every remembered version satisfies `P`, readers are pinned -/
structure TxInv (P : Store → Prop) (h : List Op) (e : Env) : Prop where
  writer : e.writer = none
  committed : e.committed = run h
  wf : ∀ op ∈ h, op.wf
  ne : e.history ≠ []
  pinned : ReadersPinned e
  versions : ∀ v ∈ e.history, P v

theorem TxInv.init {P : Store → Prop} (h0 : P []) : TxInv P [] ({} : Env) where
  writer := rfl
  committed := rfl
  wf := by intro op hop; cases hop
  ne := by simp
  pinned := by intro r hr; cases hr
  versions := by intro v hv; simp at hv; subst hv; exact h0

theorem TxInv.item {P : Store → Prop} {h : List Op} {e : Env} (hinv : TxInv P h e) (it : Item)
    (hwf : ∀ op ∈ it.ops, op.wf) (hP : ∀ ops, it = .commitTx ops → P (run (h ++ ops))) :
    TxInv P (h ++ it.committed) (e.run it.events) := by
  obtain ⟨hne', hp'⟩ := pinned_run e it.events hinv.ne hinv.pinned
  cases it with
  | commitTx ops =>
    obtain ⟨h1, h2, h3, h4⟩ := committed_is_run e hinv.writer h ops hinv.committed
    refine ⟨h3, h1, ?_, hne', hp', ?_⟩
    · intro op hop
      rcases List.mem_append.1 hop with hop | hop
      · exact hinv.wf op hop
      · exact hwf op hop
    · intro v hv
      rw [h2] at hv
      rcases List.mem_cons.1 hv with rfl | hv
      · exact hP ops rfl
      · exact hinv.versions v hv
  | abortTx ops =>
    obtain ⟨e2, he, h1, h2, h3⟩ := run_tx e hinv.writer ops .abort
    simp only [Item.events, Item.committed, List.append_nil] at hne' hp' ⊢
    rw [he] at hne' hp' ⊢
    exact ⟨rfl, by simp [Env.step, Env.committed, h2, ← hinv.committed], hinv.wf, hne', hp',
      fun v hv => hinv.versions v (by simpa [Env.step, h2] using hv)⟩
  | crashTx ops =>
    obtain ⟨e2, he, h1, h2, h3⟩ := run_tx e hinv.writer ops .crash
    simp only [Item.events, Item.committed, List.append_nil] at hne' hp' ⊢
    rw [he] at hne' hp' ⊢
    exact ⟨rfl, by simp [Env.step, Env.committed, h2, ← hinv.committed], hinv.wf, hne', hp',
      fun v hv => hinv.versions v (by simpa [Env.step, h2] using hv)⟩
  | openR rid =>
    simp only [Item.events, Item.committed, List.append_nil] at hne' hp' ⊢
    exact ⟨hinv.writer, hinv.committed, hinv.wf, hne', hp', hinv.versions⟩
  | closeR rid =>
    simp only [Item.events, Item.committed, List.append_nil] at hne' hp' ⊢
    exact ⟨hinv.writer, hinv.committed, hinv.wf, hne', hp', hinv.versions⟩
  | crash =>
    simp only [Item.events, Item.committed, List.append_nil] at hne' hp' ⊢
    exact ⟨rfl, hinv.committed, hinv.wf, hne', hp', hinv.versions⟩

theorem events_cons (it : Item) (rest : List Item) : events (it :: rest) = it.events ++ events rest := by
  simp [events]

theorem committedOps_cons (it : Item) (rest : List Item) :
    committedOps (it :: rest) = it.committed ++ committedOps rest := by
  simp [committedOps]

/-- a reader's snapshot is one of the remembered versions -/
theorem view_mem {e : Env} (hp : ReadersPinned e) {rid : Nat} {v : Store} (hv : e.view rid = some v) :
    v ∈ e.history := by
  simp only [Env.view] at hv
  cases hf : e.readers.find? (·.1 = rid) with
  | none => simp [hf] at hv
  | some r =>
    simp only [hf, Option.map_some, Option.some.injEq] at hv
    subst hv
    exact hp r (List.mem_of_find?_eq_some hf)

/-- **C08 over arroy transactions**: whatever the schedule of committed, aborted and crashed write
    transactions, readers and crashes, every version ever committed — in particular the current one and
    every snapshot a reader observes — is `C01.run h` for a well-formed history `h` (the committed
    operations, in order; aborted and crashed transactions leave no trace): the theorems about
    reachable states (`C01_invariant`, …) apply to it. -/
theorem C08_versions_reachable (sched : List Item) (hwf : ∀ it ∈ sched, ∀ op ∈ it.ops, op.wf) :
    (({} : Env).run (events sched)).writer = none ∧
    (({} : Env).run (events sched)).committed = run (committedOps sched) ∧
    (∀ op ∈ committedOps sched, op.wf) ∧
    (∀ v ∈ (({} : Env).run (events sched)).history, ∃ h, (∀ op ∈ h, op.wf) ∧ v = run h) ∧
    (∀ rid v, (({} : Env).run (events sched)).view rid = some v → ∃ h, (∀ op ∈ h, op.wf) ∧ v = run h) := by
  suffices ∀ (h : List Op) (e : Env), TxInv (fun v => ∃ h, (∀ op ∈ h, op.wf) ∧ v = run h) h e →
      TxInv (fun v => ∃ h, (∀ op ∈ h, op.wf) ∧ v = run h) (h ++ committedOps sched) (e.run (events sched)) by
    have := this [] {} (TxInv.init ⟨[], (by intro op hop; cases hop), rfl⟩)
    rw [List.nil_append] at this
    exact ⟨this.writer, this.committed, this.wf, this.versions,
      fun rid v hv => this.versions v (view_mem this.pinned hv)⟩
  induction sched with
  | nil => intro h e hinv; simpa [events, committedOps, Env.run] using hinv
  | cons it rest ih =>
    intro h e hinv
    rw [events_cons, committedOps_cons, run_append', ← List.append_assoc]
    have hit := hwf it (by simp)
    apply ih (fun it' h' => hwf it' (List.mem_cons_of_mem _ h'))
    apply hinv.item it hit
    intro ops hops
    subst hops
    refine ⟨h ++ ops, ?_, rfl⟩
    intro op hop
    rcases List.mem_append.1 hop with hop | hop
    · exact hinv.wf op hop
    · exact hit op hop

/-- the invariant of every index holds in every committed version and every reader snapshot -/
theorem C08_invariant_reachable (sched : List Item) (hwf : ∀ it ∈ sched, ∀ op ∈ it.ops, op.wf)
    (c : Cfg) (hi : c.index < 65536) :
    (∀ v ∈ (({} : Env).run (events sched)).history, IndexInv c v) ∧
    (∀ rid v, (({} : Env).run (events sched)).view rid = some v → IndexInv c v) := by
  obtain ⟨_, _, _, h1, h2⟩ := C08_versions_reachable sched hwf
  constructor
  · intro v hv
    obtain ⟨h, hh, rfl⟩ := h1 v hv
    exact C01_invariant h hh c hi
  · intro rid v hv
    obtain ⟨h, hh, rfl⟩ := h2 rid v hv
    exact C01_invariant h hh c hi

/-- the transaction `ops`, started from the store `s`, ends with a build of index `c` that succeeds -/
def EndsBuilt (c : Cfg) (s : Store) (ops : List Op) : Prop :=
  ∃ (pre : List Op) (o : BuildOpts) (fuel : Nat) (env st' : BState), ops = pre ++ [.build c o fuel env] ∧
    Build.build c o fuel { env with store := pre.foldl step s } = .ok ((), st')

/-- every committed transaction of the schedule ends with a successful build of index `c`
    (`h`: the operations committed before) -/
def GoodSched (c : Cfg) : List Op → List Item → Prop
  | _, [] => True
  | h, .commitTx ops :: rest => EndsBuilt c (run h) ops ∧ GoodSched c (h ++ ops) rest
  | h, .abortTx _ :: rest => GoodSched c h rest
  | h, .crashTx _ :: rest => GoodSched c h rest
  | h, .openR _ :: rest => GoodSched c h rest
  | h, .closeR _ :: rest => GoodSched c h rest
  | h, .crash :: rest => GoodSched c h rest

theorem builtState_of_endsBuilt {c : Cfg} {h ops : List Op} (hh : ∀ op ∈ h, op.wf) (hops : ∀ op ∈ ops, op.wf)
    (he : EndsBuilt c (run h) ops) : BuiltState c (run (h ++ ops)) := by
  obtain ⟨pre, o, fuel, env, st', rfl, hb⟩ := he
  rw [← run_append] at hb
  have hpre : ∀ op ∈ h ++ pre, op.wf := by
    intro op hop
    rcases List.mem_append.1 hop with hop | hop
    · exact hh op hop
    · exact hops op (List.mem_append_left _ hop)
  have hwf : (Op.build c o fuel env).wf := hops _ (by simp)
  refine ⟨h ++ pre, o, fuel, env, st', hpre, hwf, hb, ?_⟩
  rw [← List.append_assoc]
  exact (C01_forest (h ++ pre) hpre c o fuel env st' hwf hb).1

theorem GoodSched.tail {c : Cfg} {h : List Op} {it : Item} {rest : List Item} (hg : GoodSched c h (it :: rest)) :
    GoodSched c (h ++ it.committed) rest := by
  cases it <;> simp only [GoodSched, Item.committed, List.append_nil] at hg ⊢
  · exact hg.2
  all_goals exact hg

/-- **C08, built indexes**: if every committed transaction ends with a successful build of index `c`, then
    every committed version other than the initial empty one, every snapshot a reader observes, and the
    current committed version are states right after a successful build at the end of a well-formed
    history (`BuiltState`): `Reader::open` succeeds on them, the forest is valid, every query succeeds
    and unlimited-budget search is exact (`BuiltState.reader`, `BuiltState.queries`). A reader never
    observes a half-built index, whatever the writer is doing. -/
theorem C08_built_reachable (c : Cfg) (sched : List Item) (hwf : ∀ it ∈ sched, ∀ op ∈ it.ops, op.wf)
    (hgood : GoodSched c [] sched) :
    (({} : Env).run (events sched)).committed = run (committedOps sched) ∧
    (committedOps sched = [] ∨ BuiltState c (({} : Env).run (events sched)).committed) ∧
    (∀ v ∈ (({} : Env).run (events sched)).history, v = [] ∨ BuiltState c v) ∧
    (∀ rid v, (({} : Env).run (events sched)).view rid = some v → v = [] ∨ BuiltState c v) := by
  suffices ∀ (h : List Op) (e : Env), TxInv (fun v => v = [] ∨ BuiltState c v) h e →
      (h = [] ∨ BuiltState c (run h)) → GoodSched c h sched →
      TxInv (fun v => v = [] ∨ BuiltState c v) (h ++ committedOps sched) (e.run (events sched)) ∧
      (h ++ committedOps sched = [] ∨ BuiltState c (run (h ++ committedOps sched))) by
    obtain ⟨h1, h2⟩ := this [] {} (TxInv.init (Or.inl rfl)) (Or.inl rfl) hgood
    rw [List.nil_append] at h1 h2
    refine ⟨h1.committed, ?_, h1.versions, fun rid v hv => h1.versions v (view_mem h1.pinned hv)⟩
    rw [h1.committed]; exact h2
  clear hgood
  induction sched with
  | nil => intro h e hinv hb _; simpa [events, committedOps, Env.run] using ⟨hinv, hb⟩
  | cons it rest ih =>
    intro h e hinv hb hg
    rw [events_cons, committedOps_cons, run_append', ← List.append_assoc]
    have hit := hwf it (by simp)
    have hnew : h ++ it.committed = [] ∨ BuiltState c (run (h ++ it.committed)) := by
      cases it with
      | commitTx ops => exact Or.inr (builtState_of_endsBuilt hinv.wf hit hg.1)
      | _ => simpa [Item.committed] using hb
    refine ih (fun it' h' => hwf it' (List.mem_cons_of_mem _ h')) (h ++ it.committed) (e.run it.events) ?_ hnew
      hg.tail
    apply hinv.item it hit
    intro ops hops
    subst hops
    exact Or.inr (builtState_of_endsBuilt hinv.wf hit hg.1)

end C08

namespace C09
open C01 C08

/-- **C09 over arroy transactions**: a crash at the end of any schedule — which may itself contain
    transactions cut by a crash (`crashTx`) and crashes between transactions — leaves no writer and no
    reader, and the committed version is the run of the committed operations; if every committed
    transaction ended with a successful build of `c`, it is the empty store (nothing was ever committed)
    or a state right after a successful build (`BuiltState`: valid forest, readable, exact search), and
    the next write transaction starts from it. -/
theorem C09_recovered_reachable (c : Cfg) (sched : List Item) (hwf : ∀ it ∈ sched, ∀ op ∈ it.ops, op.wf)
    (hgood : GoodSched c [] sched) :
    ((({} : Env).run (events sched)).step .crash).writer = none ∧
    ((({} : Env).run (events sched)).step .crash).readers = [] ∧
    ((({} : Env).run (events sched)).step .crash).committed = run (committedOps sched) ∧
    (committedOps sched = [] ∨ BuiltState c ((({} : Env).run (events sched)).step .crash).committed) ∧
    (((({} : Env).run (events sched)).step .crash).step .beginW).writer = some (run (committedOps sched)) := by
  obtain ⟨h1, h2, _, _⟩ := C08_built_reachable c sched hwf hgood
  obtain ⟨k1, _, _, _⟩ := C09_crash {} (events sched)
  have k2 := C09_restart {} (events sched)
  rw [k1]
  exact ⟨rfl, rfl, h1, h2, by rw [k2, h1]⟩

/-- without any assumption on what the transactions do: the recovered state is a reachable state -/
theorem C09_recovered_is_run (sched : List Item) (hwf : ∀ it ∈ sched, ∀ op ∈ it.ops, op.wf) :
    ((({} : Env).run (events sched)).step .crash).committed = run (committedOps sched) ∧
    (∀ op ∈ committedOps sched, op.wf) ∧
    ∀ c : Cfg, c.index < 65536 → IndexInv c ((({} : Env).run (events sched)).step .crash).committed := by
  obtain ⟨_, h1, h2, _, _⟩ := C08_versions_reachable sched hwf
  obtain ⟨k1, _, _, _⟩ := C09_crash {} (events sched)
  rw [k1, h1]
  exact ⟨rfl, h2, fun c hi => C01_invariant _ h2 c hi⟩

end C09

/-! ## C14 / C20: no hypothesis on memory, batches or vector values -/
namespace C14
open C01

/-- **C14**: the forest theorem holds for every `available_memory` and every stream of batch lengths
    (the model's stand-in for what `available_memory` and the page cache decide: how many items each
    round of `insert_items_in_current_trees` / `incremental_index_large_descendants` takes): whenever the
    build returns `.ok`, the result is a valid forest over exactly the stored items, the reader opens
    on it and every query succeeds. Immediate from `C01_forest`, which quantifies over the options and
    the oracle streams. -/
theorem C14_any_memory_forest (ops : List Op) (hops : ∀ op ∈ ops, op.wf)
    (c : Cfg) (o : BuildOpts) (mem : Option Nat) (batches : List Nat) (fuel : Nat) (env st' : BState)
    (hwf : (Op.build c o fuel env).wf)
    (h : Build.build c { o with availableMemory := mem } fuel { env with store := run ops, batches := batches } =
      .ok ((), st')) :
    (∃ roots ts,
      Store.get st'.store c.metaKey =
        some (.metadata c.metric.nameBytes c.dims ((run ops).keysOf c.index modeItem) roots) ∧
      Forest c st'.store roots ((run ops).keysOf c.index modeItem) ts ∧
      ((run ops).keysOf c.index modeItem ≠ [] → roots ≠ []) ∧
      (∀ id, Store.get st'.store (c.updatedKey id) = none)) ∧
    ∃ roots,
      Reader.open c st'.store = .ok ⟨roots, c.dims, (run ops).keysOf c.index modeItem⟩ ∧
      ForestOK c st'.store ⟨roots, c.dims, (run ops).keysOf c.index modeItem⟩ ∧
      DescSorted c st'.store := by
  have hwf' : (Op.build c { o with availableMemory := mem } fuel { env with batches := batches }).wf := hwf
  exact ⟨(C01_forest ops hops c _ fuel { env with batches := batches } st' hwf' h).2,
    C01_forestOK_reachable ops hops c _ fuel { env with batches := batches } st' hwf' h⟩

end C14

namespace C20
open C01

/-- **C20**: the forest and reader theorems have no hypothesis on the vector values. In particular with
    all items carrying the SAME arbitrary vector `v` (all zero, NaN components, anything of the right
    length or not — a vector of the wrong length is rejected by `add_item` and the item is simply not
    stored): whenever the build returns `.ok`, the forest is valid over exactly the stored items, the
    reader opens and every query succeeds, returning only stored items. -/
theorem C20_degenerate_forest (c : Cfg) (ids : List Nat) (hids : ∀ id ∈ ids, id < 4294967296) (v : List Nat)
    (o : BuildOpts) (fuel : Nat) (env st' : BState) (hwf : (Op.build c o fuel env).wf)
    (h : Build.build c o fuel { env with store := run (ids.map fun id => Op.add c id v) } = .ok ((), st')) :
    (∃ roots ts,
      Forest c st'.store roots ((run (ids.map fun id => Op.add c id v)).keysOf c.index modeItem) ts ∧
      ((run (ids.map fun id => Op.add c id v)).keysOf c.index modeItem ≠ [] → roots ≠ [])) ∧
    ∃ roots,
      Reader.open c st'.store =
        .ok ⟨roots, c.dims, (run (ids.map fun id => Op.add c id v)).keysOf c.index modeItem⟩ ∧
      ∀ (qh qv : List Nat) (q : QueryOpts), ∃ ans,
        nnsByLeaf c st'.store ⟨roots, c.dims, (run (ids.map fun id => Op.add c id v)).keysOf c.index modeItem⟩
          qh qv q = .ok ans ∧
        ∀ p ∈ ans, p.1 ∈ (run (ids.map fun id => Op.add c id v)).keysOf c.index modeItem := by
  have hops : ∀ op ∈ ids.map (fun id => Op.add c id v), op.wf := by
    intro op hop
    obtain ⟨id, hid, rfl⟩ := List.mem_map.1 hop
    exact ⟨hwf.1, hids id hid⟩
  obtain ⟨_, roots, ts, _, hf, hne, _⟩ := C01_forest _ hops c o fuel env st' hwf h
  obtain ⟨roots', h1, h2, _⟩ := C01_forestOK_reachable _ hops c o fuel env st' hwf h
  exact ⟨⟨roots, ts, hf, hne⟩, roots', h1, fun qh qv q => C03.C03_total h2 qh qv q⟩

end C20

/-! ## non-vacuity: the concrete two-round history of `C01Examples.lean` -/
namespace Reach.Ex
open C01 C01.Ex C08

/-- `C02_exact_reachable` applied: after `ops2` (five adds, a build, an add, a delete) the second build
    succeeds, the reader opens on items 1..5 with one root, and a `search_k = usize::MAX` query returns the
    exact answer — all hypotheses discharged, including trees × items ≤ `usize::MAX` -/
example : ∃ st' roots, Build.build cEx oEx 5 { env2 with store := run ops2 } = .ok ((), st') ∧
    Reader.open cEx st'.store = .ok ⟨roots, 2, [1, 2, 3, 4, 5]⟩ ∧
    ∀ (qh qv : List Nat) (count : Nat),
      nnsByLeaf cEx st'.store ⟨roots, 2, [1, 2, 3, 4, 5]⟩ qh qv { count := count, searchK := some usizeMax } =
        .ok (exactOver cEx st'.store 2 qh qv count [1, 2, 3, 4, 5]) := by
  obtain ⟨st', h⟩ := build2_result
  obtain ⟨roots, h1, h2⟩ := C02.C02_exact_reachable ops2 ops2_wf cEx oEx 5 env2 st' build2_wf h
  obtain ⟨roots', h1', hF, _⟩ := C01_reader_reachable ops2 ops2_wf cEx oEx 5 env2 st' build2_wf h
  have hr : roots' = roots := by rw [h1] at h1'; cases h1'; rfl
  subst hr
  have hlen : roots'.length = 1 := by
    have := refs_length hF.refs
    rw [← (C01_forest ops2 ops2_wf cEx oEx 5 env2 st' build2_wf h).1, after2_ok] at this
    exact this.symm
  rw [show (run ops2).keysOf cEx.index modeItem = [1, 2, 3, 4, 5] from before2.1] at h1 h2
  refine ⟨st', roots', h, h1, fun qh qv count => ?_⟩
  exact h2 qh qv _ rfl rfl (by simp) (by rw [hlen]; decide)

/-- `C03_total_reachable` / `C04_selfLookup_reachable_given_lengths`: the hypotheses on the history hold
    (`ops2_same`), and item 5 — added after the first build, routed by the second — has a good tree -/
theorem ops2_items : ∀ op ∈ ops2, C04.itemsCfg cEx op := by
  intro op hop
  simp only [ops2, ops1, List.mem_append, List.mem_cons, List.not_mem_nil, or_false] at hop
  rcases hop with (rfl | rfl | rfl | rfl | rfl | rfl) | (rfl | rfl) <;>
    first | trivial | (intro _; exact ⟨rfl, rfl⟩)

theorem after2_good : Check.hasGoodTree cEx (run (ops2 ++ [.build cEx oEx 5 env2])) 5 = true ∧
    (Store.get (run (ops2 ++ [.build cEx oEx 5 env2])) (cEx.itemKey 5)).isSome = true ∧
    ∀ t ∈ Check.trees cEx (run (ops2 ++ [.build cEx oEx 5 env2])), ∀ n ∈ t.normals, n.length = cEx.dims := by
  decide +kernel

example : ∃ st' roots, Build.build cEx oEx 5 { env2 with store := run ops2 } = .ok ((), st') ∧
    Reader.open cEx st'.store = .ok ⟨roots, 2, [1, 2, 3, 4, 5]⟩ ∧
    ∃ ans, byItem cEx st'.store ⟨roots, 2, [1, 2, 3, 4, 5]⟩ 5 { count := 5, searchK := some 1 } = .ok (some ans) ∧
      5 ∈ ans.map (·.1) := by
  obtain ⟨st', h⟩ := build2_result
  have hrun := (C01_forest ops2 ops2_wf cEx oEx 5 env2 st' build2_wf h).1
  obtain ⟨hg, hx, hn⟩ := after2_good
  rw [hrun] at hg hx hn
  obtain ⟨roots, h1, h2⟩ := C04.C04_selfLookup_reachable_given_normal_lengths ops2 ops2_wf cEx ops2_same ops2_items
    oEx 5 env2 st' build2_wf h 5 hx hg hn
  rw [show (run ops2).keysOf cEx.index modeItem = [1, 2, 3, 4, 5] from before2.1] at h1 h2
  refine ⟨st', roots, h, h1, h2 _ rfl ?_ (by decide)⟩
  -- budget = search_k × oversampling = 1 × 1
  simp only [budget, satMul, Option.getD_some, Option.getD_none]
  decide

/-- `C08_built_reachable` / `C09_recovered_reachable`: a schedule with two committed transactions (each ending
    with a successful build), an aborted one, one cut by a crash, two readers and a final crash -/
def sched : List Item :=
  [.openR 1, .commitTx ops1, .openR 2, .abortTx [.clear cEx], .crashTx [.del cEx 3],
   .commitTx [.add cEx 5 [f25, f2], .del cEx 0, .build cEx oEx 5 env2], .closeR 1, .crash]

theorem build1_ok : isOk (Build.build cEx oEx 5
    { env1 with store := List.foldl step (run []) [.add cEx 0 [fm2, 0], .add cEx 1 [fm1, 0], .add cEx 2 [f1, fm1],
      .add cEx 3 [f2, f1], .add cEx 4 [f3, f1]] }) = true := by decide +kernel

theorem sched_wf : ∀ it ∈ sched, ∀ op ∈ it.ops, op.wf := by decide

theorem sched_good : GoodSched cEx [] sched := by
  refine ⟨?_, ?_, trivial⟩
  · have h := build1_ok
    cases hb : Build.build cEx oEx 5
        { env1 with store := List.foldl step (run []) [.add cEx 0 [fm2, 0], .add cEx 1 [fm1, 0], .add cEx 2 [f1, fm1],
          .add cEx 3 [f2, f1], .add cEx 4 [f3, f1]] } with
    | error e => rw [hb] at h; cases h
    | ok r => exact ⟨_, oEx, 5, env1, r.2, rfl, hb⟩
  · obtain ⟨st', h⟩ := build2_result
    refine ⟨[.add cEx 5 [f25, f2], .del cEx 0], oEx, 5, env2, st', rfl, ?_⟩
    rw [← run_append]
    exact h

/-- the state recovered after the final crash is a `BuiltState`: the reader opens on it -/
example : ∃ roots, Reader.open cEx (((({} : Env).run (events sched)).step .crash).committed) =
    .ok ⟨roots, 2, (((({} : Env).run (events sched)).step .crash).committed).keysOf 0 modeItem⟩ := by
  obtain ⟨_, _, _, h4, _⟩ := C09.C09_recovered_reachable cEx sched sched_wf sched_good
  rcases h4 with h4 | h4
  · exact absurd h4 (by simp [sched, committedOps, Item.committed, ops1])
  · obtain ⟨roots, h1, _⟩ := h4.reader
    exact ⟨roots, h1⟩

/-- `C14_any_memory_forest`: its hypotheses hold with `available_memory = Some(1024)` and the batch stream
    `[1, 3]` on the second build of the history -/
theorem build2_mem_ok : isOk (Build.build cEx { oEx with availableMemory := some 1024 } 5
    { env2 with store := run ops2, batches := [1, 3] }) = true := by decide +kernel

example : ∃ (st' : BState) (roots : List Nat), Reader.open cEx st'.store = .ok ⟨roots, 2, [1, 2, 3, 4, 5]⟩ ∧
    ForestOK cEx st'.store ⟨roots, 2, [1, 2, 3, 4, 5]⟩ := by
  have hok := build2_mem_ok
  cases hb : Build.build cEx { oEx with availableMemory := some 1024 } 5
      { env2 with store := run ops2, batches := [1, 3] } with
  | error e => rw [hb] at hok; cases hok
  | ok r =>
    obtain ⟨u, st'⟩ := r
    obtain ⟨_, roots, h1, h2, _⟩ := C14.C14_any_memory_forest ops2 ops2_wf cEx oEx (some 1024) [1, 3] 5 env2 st'
      build2_wf hb
    rw [show (run ops2).keysOf cEx.index modeItem = [1, 2, 3, 4, 5] from before2.1] at h1 h2
    exact ⟨st', roots, h1, h2⟩

/-- `C20_degenerate_forest`: five items all carrying the zero vector, zero normals from the oracle; the
    build succeeds (the items are spread by the random sides) -/
def envD : BState :=
  { store := [], normals := [[0, 0], [0, 0], [0, 0], [0, 0]],
    rands := [true, false, true, false, true, false, true, false, true, false, true, false], batches := [5] }

theorem buildD_ok : isOk (Build.build cEx oEx 5
    { envD with store := run ([0, 1, 2, 3, 4].map fun id => Op.add cEx id [0, 0]) }) = true ∧
    (run ([0, 1, 2, 3, 4].map fun id => Op.add cEx id [0, 0])).keysOf cEx.index modeItem = [0, 1, 2, 3, 4] := by
  decide +kernel

example : ∃ st' roots, Build.build cEx oEx 5
      { envD with store := run ([0, 1, 2, 3, 4].map fun id => Op.add cEx id [0, 0]) } = .ok ((), st') ∧
    Reader.open cEx st'.store = .ok ⟨roots, 2, [0, 1, 2, 3, 4]⟩ ∧ roots ≠ [] := by
  have hok := buildD_ok
  cases hb : Build.build cEx oEx 5
      { envD with store := run ([0, 1, 2, 3, 4].map fun id => Op.add cEx id [0, 0]) } with
  | error e => rw [hb] at hok; cases hok.1
  | ok r =>
    obtain ⟨u, st'⟩ := r
    obtain ⟨⟨roots0, ts, hf, hne⟩, roots, h1, _⟩ := C20.C20_degenerate_forest cEx [0, 1, 2, 3, 4] (by decide) [0, 0]
      oEx 5 envD st' (by decide) hb
    obtain ⟨roots', h1', hF, _⟩ := C01_reader_reachable _
      (by intro op hop; obtain ⟨id, hid, rfl⟩ := List.mem_map.1 hop; clear hop; exact ⟨by decide, by revert id; decide⟩) cEx oEx 5 envD st'
      (by decide) hb
    rw [hok.2] at h1 h1' hF
    have hr : roots' = roots := by rw [h1] at h1'; cases h1'; rfl
    subst hr
    exact ⟨st', roots', rfl, h1, hF.roots_ne (by simp)⟩

end Reach.Ex

end Arroy
