import ArroyProofs.Properties.C11Oracle
/-! # C11 — the run-time predicate `Driver.definitionOracle .cosine` never rejects the reported cosine
distance that `C11_round_f32_cosine` allows (continuation of `C11Oracle.lean`) -/
namespace Arroy.C11
open Arroy Kernel SF SFR KernelRound ReportedReal Driver

/-! ## 5. `definitionOracle .cosine` accepts the reported cosine distance -/

/-- real-number core of the cosine test: with `G = 2^300·‖a‖‖b‖`, `N ≤ G < N + 1`, `|d| ≤ 2θ`,
`θ = 1.05·(K+4)·u` -/
theorem cos_core {Q G Nr ρ d : ℝ} {n K : Nat} (hQ : 0 < Q) (hG0 : 0 ≤ G) (hN1 : Nr ≤ G) (hN2 : G < Nr + 1)
    (hρ0 : 0 ≤ ρ) (hρ1 : ρ ≤ 1) (hd : |d| ≤ 2 * (21 / 20 * ((K : ℝ) + 4) * u))
    (hK : K ≤ n + 1) (hn : n + 8 ≤ 2 ^ 22) :
    Q * |(1 - 2 * ρ) * (Nr - G) + G * d| * (2 : ℝ) ^ (22 : ℕ)
      ≤ Q * (Nr * ((n : ℝ) + 8) + (2 : ℝ) ^ (30 : ℕ)) := by
  have hKr : (K : ℝ) ≤ (n : ℝ) + 1 := by exact_mod_cast hK
  have hnr : (n : ℝ) + 8 ≤ (2 : ℝ) ^ (22 : ℕ) := by exact_mod_cast hn
  have hn0 : (0 : ℝ) ≤ (n : ℝ) := Nat.cast_nonneg n
  have hK0 : (0 : ℝ) ≤ (K : ℝ) := Nat.cast_nonneg K
  have h1 : |(1 - 2 * ρ) * (Nr - G)| ≤ 1 := by
    rw [abs_mul]
    have a1 : |1 - 2 * ρ| ≤ 1 := abs_le.2 ⟨by linarith, by linarith⟩
    have a2 : |Nr - G| ≤ 1 := abs_le.2 ⟨by linarith, by linarith⟩
    calc |1 - 2 * ρ| * |Nr - G| ≤ 1 * 1 := mul_le_mul a1 a2 (abs_nonneg _) (by norm_num)
      _ = 1 := by norm_num
  have h2 : |G * d| ≤ G * (2 * (21 / 20 * ((K : ℝ) + 4) * u)) := by
    rw [abs_mul, abs_of_nonneg hG0]
    exact mul_le_mul_of_nonneg_left hd hG0
  have h3 : |(1 - 2 * ρ) * (Nr - G) + G * d| ≤ 1 + G * (2 * (21 / 20 * ((K : ℝ) + 4) * u)) :=
    le_trans (abs_add_le _ _) (by linarith)
  have h4 : (1 + G * (2 * (21 / 20 * ((K : ℝ) + 4) * u))) * (2 : ℝ) ^ (22 : ℕ)
      ≤ Nr * ((n : ℝ) + 8) + (2 : ℝ) ^ (30 : ℕ) := by
    have e : G * (2 * (21 / 20 * ((K : ℝ) + 4) * u)) * (2 : ℝ) ^ (22 : ℕ) = G * (21 / 40 * ((K : ℝ) + 4)) := by
      rw [u_eq']; norm_num; ring
    have h5 : G * (21 / 40 * ((K : ℝ) + 4)) ≤ G * ((n : ℝ) + 8) :=
      mul_le_mul_of_nonneg_left (by linarith) hG0
    have h6 : (G - 1) * ((n : ℝ) + 8) ≤ Nr * ((n : ℝ) + 8) :=
      mul_le_mul_of_nonneg_right (by linarith) (by linarith)
    have h7 : (2 : ℝ) ^ (22 : ℕ) + (2 : ℝ) ^ (22 : ℕ) ≤ (2 : ℝ) ^ (30 : ℕ) := by norm_num
    rw [add_mul, one_mul, e]
    nlinarith
  calc Q * |(1 - 2 * ρ) * (Nr - G) + G * d| * (2 : ℝ) ^ (22 : ℕ)
      = Q * (|(1 - 2 * ρ) * (Nr - G) + G * d| * (2 : ℝ) ^ (22 : ℕ)) := by ring
    _ ≤ Q * ((1 + G * (2 * (21 / 20 * ((K : ℝ) + 4) * u))) * (2 : ℝ) ^ (22 : ℕ)) :=
        mul_le_mul_of_nonneg_left (mul_le_mul_of_nonneg_right h3 (by positivity)) hQ.le
    _ ≤ Q * (Nr * ((n : ℝ) + 8) + (2 : ℝ) ^ (30 : ℕ)) := mul_le_mul_of_nonneg_left h4 hQ.le

theorem cos_tol_gen (q : Nat) (hq : 0 < q) (A B P R : Int) (n K : Nat) (sa sb p ρ : ℝ)
    (hA : (A : ℝ) = (q : ℝ) * (q : ℝ) * sa) (hB : (B : ℝ) = (q : ℝ) * (q : ℝ) * sb)
    (hP : (P : ℝ) = (q : ℝ) * (q : ℝ) * p) (hR : (R : ℝ) = (q : ℝ) * ρ)
    (hsa : 0 ≤ sa) (hsb : 0 ≤ sb) (hg : 0 < √sa * √sb) (hρ0 : 0 ≤ ρ) (hρ1 : ρ ≤ 1)
    (hb : |ρ - (1 - p / (√sa * √sb)) / 2| ≤ 21 / 20 * ((K : ℝ) + 4) * u)
    (hK : K ≤ n + 1) (hn : n + 8 ≤ 2 ^ 22) :
    (((q : Int) - 2 * R) * (((A * B).toNat.sqrt : Nat) : Int) - P * (q : Int)).natAbs * 2 ^ 22
      ≤ ((((A * B).toNat.sqrt : Nat) : Int) * (q : Int) * ((n : Int) + 8)).natAbs + q * 2 ^ 30 := by
  have hQ : (0 : ℝ) < (q : ℝ) := by exact_mod_cast hq
  -- the integer square root
  have hA0 : 0 ≤ A := by
    have : (0 : ℝ) ≤ (A : ℝ) := by rw [hA]; exact mul_nonneg (mul_nonneg hQ.le hQ.le) hsa
    exact_mod_cast this
  have hB0 : 0 ≤ B := by
    have : (0 : ℝ) ≤ (B : ℝ) := by rw [hB]; exact mul_nonneg (mul_nonneg hQ.le hQ.le) hsb
    exact_mod_cast this
  have hM : (((A * B).toNat : Nat) : Int) = A * B := Int.toNat_of_nonneg (Int.mul_nonneg hA0 hB0)
  have hMr : (((A * B).toNat : Nat) : ℝ) = (A : ℝ) * (B : ℝ) := by
    have : ((((A * B).toNat : Nat) : Int) : ℝ) = ((A * B : Int) : ℝ) := by rw [hM]
    rw [Int.cast_natCast, Int.cast_mul] at this
    exact this
  have s1 := Nat.sqrt_le (A * B).toNat
  have s2 := Nat.lt_succ_sqrt (A * B).toNat
  generalize (A * B).toNat.sqrt = N at s1 s2 ⊢
  have s1r : (N : ℝ) * (N : ℝ) ≤ (A : ℝ) * (B : ℝ) := by rw [← hMr]; exact_mod_cast s1
  have s2r : (A : ℝ) * (B : ℝ) < ((N : ℝ) + 1) * ((N : ℝ) + 1) := by rw [← hMr]; exact_mod_cast s2
  have hN0 : (0 : ℝ) ≤ (N : ℝ) := Nat.cast_nonneg N
  have hgg : (√sa * √sb) * (√sa * √sb) = sa * sb := by
    calc √sa * √sb * (√sa * √sb) = (√sa * √sa) * (√sb * √sb) := by ring
      _ = sa * sb := by rw [Real.mul_self_sqrt hsa, Real.mul_self_sqrt hsb]
  generalize √sa * √sb = g at hg hb hgg
  generalize hQdef : (q : ℝ) = Q at hA hB hP hR hQ
  have hG0 : 0 ≤ Q * Q * g := mul_nonneg (mul_nonneg hQ.le hQ.le) hg.le
  have hAB : (A : ℝ) * (B : ℝ) = (Q * Q * g) * (Q * Q * g) := by
    rw [hA, hB]
    calc Q * Q * sa * (Q * Q * sb) = Q * Q * (Q * Q) * (sa * sb) := by ring
      _ = Q * Q * (Q * Q) * (g * g) := by rw [hgg]
      _ = _ := by ring
  have hN1 : (N : ℝ) ≤ Q * Q * g := by
    by_contra hc
    have hc' := not_le.mp hc
    have := mul_lt_mul'' hc' hc' hG0 hG0
    linarith
  have hN2 : Q * Q * g < (N : ℝ) + 1 := by
    by_contra hc
    have hc' := not_lt.mp hc
    have := mul_le_mul hc' hc' (by linarith) hG0
    linarith
  -- the error term
  have hd : |(1 - 2 * ρ) - p / g| ≤ 2 * (21 / 20 * ((K : ℝ) + 4) * u) := by
    have e : (1 - 2 * ρ) - p / g = -2 * (ρ - (1 - p / g) / 2) := by ring
    rw [e, abs_mul, abs_of_neg (by norm_num : (-2 : ℝ) < 0)]
    linarith
  have hcore := cos_core (Q := Q) (G := Q * Q * g) (Nr := (N : ℝ)) (ρ := ρ) (d := (1 - 2 * ρ) - p / g)
    (n := n) (K := K) hQ hG0 hN1 hN2 hρ0 hρ1 hd hK hn
  have hid : (1 - 2 * ρ) * ((N : ℝ) - Q * Q * g) + Q * Q * g * ((1 - 2 * ρ) - p / g)
      = (1 - 2 * ρ) * (N : ℝ) - Q * Q * p := by
    have hg0 : g ≠ 0 := ne_of_gt hg
    field_simp
    ring
  rw [hid] at hcore
  -- back to the integers
  apply (Nat.cast_le (α := ℝ)).1
  rw [Nat.cast_mul, Nat.cast_add, Nat.cast_mul, Nat.cast_natAbs, Nat.cast_natAbs]
  simp only [Int.cast_mul, Int.cast_abs, Int.cast_sub, Int.cast_add, Int.cast_natCast, Int.cast_ofNat,
    Nat.cast_pow, Nat.cast_ofNat]
  rw [hQdef, hR, hP]
  have e1 : (Q - 2 * (Q * ρ)) * (N : ℝ) - Q * Q * p * Q = Q * ((1 - 2 * ρ) * (N : ℝ) - Q * Q * p) := by ring
  have hn0 : (0 : ℝ) ≤ (n : ℝ) := Nat.cast_nonneg n
  rw [e1, abs_mul, abs_of_pos hQ, abs_of_nonneg (mul_nonneg (mul_nonneg hN0 hQ.le) (by linarith))]
  calc Q * |(1 - 2 * ρ) * (N : ℝ) - Q * Q * p| * (2 : ℝ) ^ (22 : ℕ)
      ≤ Q * ((N : ℝ) * ((n : ℝ) + 8) + (2 : ℝ) ^ (30 : ℕ)) := hcore
    _ = (N : ℝ) * Q * ((n : ℝ) + 8) + Q * (2 : ℝ) ^ (30 : ℕ) := by ring

/-- the tolerance test of `definitionOracle .cosine` (last branch), for `q = 2^150` -/
theorem cos_tol (A B P R : Int) (n K : Nat) (sa sb p ρ : ℝ)
    (hA : (A : ℝ) = (2 : ℝ) ^ (300 : ℕ) * sa) (hB : (B : ℝ) = (2 : ℝ) ^ (300 : ℕ) * sb)
    (hP : (P : ℝ) = (2 : ℝ) ^ (300 : ℕ) * p) (hR : (R : ℝ) = (2 : ℝ) ^ (150 : ℕ) * ρ)
    (hsa : 0 ≤ sa) (hsb : 0 ≤ sb) (hg : 0 < √sa * √sb) (hρ0 : 0 ≤ ρ) (hρ1 : ρ ≤ 1)
    (hb : |ρ - (1 - p / (√sa * √sb)) / 2| ≤ 21 / 20 * ((K : ℝ) + 4) * u)
    (hK : K ≤ n + 1) (hn : n + 8 ≤ 2 ^ 22) :
    (((2 : Int) ^ 150 - 2 * R) * (((A * B).toNat.sqrt : Nat) : Int) - P * (2 : Int) ^ 150).natAbs * 2 ^ 22
      ≤ ((((A * B).toNat.sqrt : Nat) : Int) * (2 : Int) ^ 150 * ((n : Int) + 8)).natAbs + 2 ^ 180 := by
  have hc : (((2 ^ 150 : ℕ) : ℕ) : ℝ) = (2 : ℝ) ^ (150 : ℕ) := by rw [Nat.cast_pow, Nat.cast_ofNat]
  have hQQ : (2 : ℝ) ^ (300 : ℕ) = (2 : ℝ) ^ (150 : ℕ) * (2 : ℝ) ^ (150 : ℕ) := by rw [← pow_add]
  have key := cos_tol_gen (2 ^ 150) (Nat.pow_pos (by decide)) A B P R n K sa sb p ρ
    (by rw [hc, ← hQQ]; exact hA) (by rw [hc, ← hQQ]; exact hB) (by rw [hc, ← hQQ]; exact hP)
    (by rw [hc]; exact hR) hsa hsb hg hρ0 hρ1 hb hK hn
  rw [Nat.cast_pow, Nat.cast_ofNat, ← Nat.pow_add] at key
  exact key

theorem map_real₁ (F : Int × Int → ℝ) (G : Nat → ℝ) (hFG : ∀ a v, exactOf a = some v → F v = G a) :
    ∀ (x : List Nat) (ea : List (Int × Int)), List.Forall₂ (fun a v => exactOf a = some v) x ea →
    ea.map F = x.map G := by
  intro x ea hx
  induction hx with
  | nil => simp
  | @cons a v t et hav _ ih => simp only [List.map_cons]; rw [ih, hFG a v hav]

/-- the `A` (and `B`) of `definitionOracle .cosine` is `2^300·Σ aᵢ²` -/
theorem oracle_A_real (x : List Nat) (ea : List (Int × Int)) (hx : x.mapM exactOf = some ea) :
    (Int.cast (List.foldl (fun (acc : Int) (x : Int) => acc + x * x) 0 (List.map scaled150 ea)) : ℝ)
      = (2 : ℝ) ^ (300 : ℕ) * (x.map (fun a => toReal a * toReal a)).sum := by
  rw [foldl_add_sum _ (fun x : Int => x * x) (fun _ _ => rfl), Int.zero_add, cast_list_sum, List.map_map,
    List.map_map, ← sum_map_mul_left, List.map_map]
  congr 1
  apply map_real₁ _ _ _ x ea (mapM_exactOf_forall₂ x ea hx)
  intro a v hav
  show (Int.cast (scaled150 v * scaled150 v) : ℝ) = (2 : ℝ) ^ (300 : ℕ) * (toReal a * toReal a)
  rw [Int.cast_mul, scaled150_toReal hav,
    show (2 : ℝ) ^ (300 : ℕ) = (2 : ℝ) ^ (150 : ℕ) * (2 : ℝ) ^ (150 : ℕ) by rw [← pow_add]]
  generalize (2 : ℝ) ^ (150 : ℕ) = Q
  ring

/-- the `P` of `definitionOracle .cosine` is the first component of `exactSum … false` -/
theorem oracle_P_eq (ea eb : List (Int × Int)) :
    List.foldl (fun (acc : Int) (x : Int × Int) => acc + x.1 * x.2) 0
        ((List.map scaled150 ea).zip (List.map scaled150 eb))
      = (exactSum (List.zip ea eb) false).1 := by
  rw [exactSum_eq, foldl_add_sum _ (fun x : Int × Int => x.1 * x.2) (fun _ _ => rfl),
    List.zip_map, List.map_map, Int.zero_add]
  rfl

theorem isNaN_false_of_finite {x : Nat} (hf : Finite x) : F32.isNaN x = false := by
  cases hn : F32.isNaN x with
  | false => rfl
  | true =>
    have hu := F32M.unpack_of_isNaN hn
    obtain ⟨n, m, e, hu'⟩ := (finite_iff x).1 hf
    rw [hu] at hu'; cases hu'

/-- **`definitionOracle .cosine` never rejects the reported cosine distance**, under the hypotheses of
`C11_round_f32_cosine` (the formula branch) and `n + 8 ≤ 2^22`: with `G = 2^300·‖a‖‖b‖`, `N = ⌊G⌋`,
`|C·N − P·2^150|·2^22 ≤ 2^172·(1 + 2θG)`, `θ = 1.05·(K+4)·u`, and `2^173·θ ≤ 2^150·(n+8)`,
`2^172 + 2^150·(n+8) ≤ 2^180`: the floor of the integer square root is absorbed by the additive `2^180`.
The range test `0 ≤ R ≤ 2^150` holds by `C11_cosine_range_real`. -/
theorem C11_definitionOracle_accepts_cosine (h : Host) (p q : List Nat) (hl : p.length = q.length)
    (hK : dotDepth h p.length ≤ 65536)
    (hpp : (dotProductG f32Chk h (chkIn p) (chkIn p)).2 = true)
    (hqq : (dotProductG f32Chk h (chkIn q) (chkIn q)).2 = true)
    (hpq : (dotProductG f32Chk h (chkIn p) (chkIn q)).2 = true)
    (hmul : f32Checks.mul (F32.sqrt (dotProduct h p p)) (F32.sqrt (dotProduct h q q)) = true)
    (hgt : F32.gt (F32.mul (F32.sqrt (dotProduct h p p)) (F32.sqrt (dotProduct h q q))) F32.epsilon = true)
    (hdiv : divRange (dotProduct h p q)
      (F32.mul (F32.sqrt (dotProduct h p p)) (F32.sqrt (dotProduct h q q))) = true)
    (hn : p.length + 8 ≤ 2 ^ 22) :
    definitionOracle .cosine p q
        (Metric.builtDistance .cosine h (Metric.newHeader .cosine h p) p (Metric.newHeader .cosine h q) q)
      = some none ∨
    definitionOracle .cosine p q
        (Metric.builtDistance .cosine h (Metric.newHeader .cosine h p) p (Metric.newHeader .cosine h q) q)
      = none := by
  obtain ⟨hg, hfin, hb, hKle⟩ := C11_round_f32_cosine h p q hl hK hpp hqq hpq hmul hgt hdiv
  obtain ⟨-, hρ0, hρ1⟩ := C11_cosine_range_real h (Metric.newHeader .cosine h p) p (Metric.newHeader .cosine h q) q
    (isNaN_false_of_finite hfin)
  generalize Metric.builtDistance .cosine h (Metric.newHeader .cosine h p) p (Metric.newHeader .cosine h q) q
    = rep at hfin hb hρ0 hρ1 ⊢
  unfold definitionOracle
  rw [show Metric.isBq .cosine = false from rfl]
  simp only [Bool.false_eq_true, if_false]
  split
  · rename_i ea eb r hx hy hr
    have hAr := oracle_A_real p ea hx
    have hBr := oracle_A_real q eb hy
    have hPr := (exactSum_spec false p q ea eb hx hy).1
    rw [termReal_false, ← oracle_P_eq] at hPr
    have hRr := scaled150_toReal hr
    have hsa : 0 ≤ (p.map (fun a => toReal a * toReal a)).sum :=
      List.sum_nonneg (by intro z hz; obtain ⟨w, _, rfl⟩ := List.mem_map.mp hz; exact mul_self_nonneg _)
    have hsb : 0 ≤ (q.map (fun b => toReal b * toReal b)).sum :=
      List.sum_nonneg (by intro z hz; obtain ⟨w, _, rfl⟩ := List.mem_map.mp hz; exact mul_self_nonneg _)
    have htol := cos_tol _ _ _ _ p.length (dotDepth h p.length) _ _ _ _ hAr hBr hPr hRr hsa hsb hg hρ0 hρ1 hb
      hKle hn
    have hP300 : (0 : ℝ) < (2 : ℝ) ^ (300 : ℕ) := by positivity
    have hA0 : List.foldl (fun (acc : Int) (x : Int) => acc + x * x) 0 (List.map scaled150 ea) ≠ 0 := by
      intro h0
      rw [h0, Int.cast_zero] at hAr
      have : (p.map (fun a => toReal a * toReal a)).sum = 0 := by
        rcases mul_eq_zero.mp hAr.symm with h' | h'
        · exact absurd h' hP300.ne'
        · exact h'
      rw [this, Real.sqrt_zero, zero_mul] at hg
      exact lt_irrefl _ hg
    have hB0 : List.foldl (fun (acc : Int) (x : Int) => acc + x * x) 0 (List.map scaled150 eb) ≠ 0 := by
      intro h0
      rw [h0, Int.cast_zero] at hBr
      have : (q.map (fun a => toReal a * toReal a)).sum = 0 := by
        rcases mul_eq_zero.mp hBr.symm with h' | h'
        · exact absurd h' hP300.ne'
        · exact h'
      rw [this, Real.sqrt_zero, mul_zero] at hg
      exact lt_irrefl _ hg
    have hR0 : ¬ (scaled150 r < 0 ∨ scaled150 r > (2 : Int) ^ 150) := by
      have hQ : (0 : ℝ) < (2 : ℝ) ^ (150 : ℕ) := by positivity
      have a1 : (0 : ℝ) ≤ (scaled150 r : ℝ) := by rw [hRr]; exact mul_nonneg hQ.le hρ0
      have a2 : (scaled150 r : ℝ) ≤ (((2 : Int) ^ 150 : Int) : ℝ) := by
        rw [hRr, Int.cast_pow, Int.cast_ofNat]
        calc (2 : ℝ) ^ (150 : ℕ) * toReal rep ≤ (2 : ℝ) ^ (150 : ℕ) * 1 := mul_le_mul_of_nonneg_left hρ1 hQ.le
          _ = _ := mul_one _
      have b1 : (0 : Int) ≤ scaled150 r := Int.cast_nonneg_iff.mp a1
      have b2 : scaled150 r ≤ (2 : Int) ^ 150 := Int.cast_le.mp a2
      rintro (hc | hc)
      · exact absurd b1 (not_le.mpr hc)
      · exact absurd b2 (not_le.mpr hc)
    rw [if_neg (by rintro (hc | hc); exact hA0 hc; exact hB0 hc)]
    split
    · right; rfl
    · split
      · left; rfl
      · -- `split` has already discharged the range test with `hR0` and the tolerance test with `htol`
        left; rfl
  · right; rfl

/-- the same under the single Boolean flag `cosineChk` -/
theorem C11_definitionOracle_accepts_cosine_chk (h : Host) (p q : List Nat) (hc : cosineChk h p q = true)
    (hn : p.length + 8 ≤ 2 ^ 22) :
    definitionOracle .cosine p q
        (Metric.builtDistance .cosine h (Metric.newHeader .cosine h p) p (Metric.newHeader .cosine h q) q)
      = some none ∨
    definitionOracle .cosine p q
        (Metric.builtDistance .cosine h (Metric.newHeader .cosine h p) p (Metric.newHeader .cosine h q) q)
      = none := by
  unfold cosineChk at hc
  simp only [Bool.and_eq_true, decide_eq_true_eq] at hc
  obtain ⟨⟨⟨⟨⟨⟨⟨hl, hK⟩, hpp⟩, hqq⟩, hpq⟩, hmul⟩, hgt⟩, hdiv⟩ := hc
  exact C11_definitionOracle_accepts_cosine h p q hl hK hpp hqq hpq hmul hgt hdiv hn

/-- **Zero norm**: if all components of `p` (or of `q`) are `±0`, the reported value is `+0.0`
(`C11_cosine_zero_norm`) and the oracle's rule "a norm vanishes: the distance must be 0" accepts it
(when the other vector has a non-finite component the oracle does not judge). -/
theorem C11_definitionOracle_accepts_cosine_zero (h : Host) (p q : List Nat)
    (hz : (∀ x ∈ p, x = F32.zero ∨ x = F32.negZero) ∨ (∀ x ∈ q, x = F32.zero ∨ x = F32.negZero)) :
    definitionOracle .cosine p q
        (Metric.builtDistance .cosine h (Metric.newHeader .cosine h p) p (Metric.newHeader .cosine h q) q)
      = some none ∨
    definitionOracle .cosine p q
        (Metric.builtDistance .cosine h (Metric.newHeader .cosine h p) p (Metric.newHeader .cosine h q) q)
      = none := by
  rw [(C11_cosine_zero_norm h p q 0 hz).1]
  have hzero : ∀ (x : List Nat) (ea : List (Int × Int)), x.mapM exactOf = some ea →
      (∀ a ∈ x, a = F32.zero ∨ a = F32.negZero) →
      List.foldl (fun (acc : Int) (x : Int) => acc + x * x) 0 (List.map scaled150 ea) = 0 := by
    intro x ea hx hall
    have hr := oracle_A_real x ea hx
    have h0 : (x.map (fun a => toReal a * toReal a)).sum = 0 := by
      apply List.sum_eq_zero
      intro z hz'
      obtain ⟨a, ha, rfl⟩ := List.mem_map.mp hz'
      have : toReal a = 0 := by
        rcases hall a ha with e | e
        · rw [e]; exact toReal_zero
        · rw [e, toReal_of_unpack unpack_negZero]; simp
      rw [this, mul_zero]
    rw [h0, mul_zero] at hr
    exact_mod_cast hr
  unfold definitionOracle
  rw [show Metric.isBq .cosine = false from rfl]
  simp only [Bool.false_eq_true, if_false]
  split
  · rename_i ea eb r hx hy hr
    have hAB : List.foldl (fun (acc : Int) (x : Int) => acc + x * x) 0 (List.map scaled150 ea) = 0 ∨
        List.foldl (fun (acc : Int) (x : Int) => acc + x * x) 0 (List.map scaled150 eb) = 0 := by
      rcases hz with hp | hq
      · exact Or.inl (hzero p ea hx hp)
      · exact Or.inr (hzero q eb hy hq)
    rw [if_pos hAB, if_pos (show F32.zero = 0 ∨ F32.zero = 2147483648 from Or.inl rfl)]
    left; rfl
  · right; rfl

/-! ### the tiny-norm branch: the code answers `0` when the computed norm product is not above `EPSILON` -/

/-- an upper bound on the integer square root `N = ⌊√(A·B)⌋` from a bound on `q²·‖a‖‖b‖` -/
theorem isqrt_le_of_real (q t : Nat) (A B : Int) (sa sb : ℝ)
    (hA : (A : ℝ) = (q : ℝ) * (q : ℝ) * sa) (hB : (B : ℝ) = (q : ℝ) * (q : ℝ) * sb)
    (hsa : 0 ≤ sa) (hsb : 0 ≤ sb) (ht : (q : ℝ) * (q : ℝ) * (√sa * √sb) ≤ (t : ℝ)) :
    (A * B).toNat.sqrt ≤ t := by
  have hQ : (0 : ℝ) ≤ (q : ℝ) := Nat.cast_nonneg q
  have hA0 : 0 ≤ A := by
    have : (0 : ℝ) ≤ (A : ℝ) := by rw [hA]; exact mul_nonneg (mul_nonneg hQ hQ) hsa
    exact_mod_cast this
  have hB0 : 0 ≤ B := by
    have : (0 : ℝ) ≤ (B : ℝ) := by rw [hB]; exact mul_nonneg (mul_nonneg hQ hQ) hsb
    exact_mod_cast this
  have hM : (((A * B).toNat : Nat) : Int) = A * B := Int.toNat_of_nonneg (Int.mul_nonneg hA0 hB0)
  have hMr : (((A * B).toNat : Nat) : ℝ) = (A : ℝ) * (B : ℝ) := by
    have : ((((A * B).toNat : Nat) : Int) : ℝ) = ((A * B : Int) : ℝ) := by rw [hM]
    rw [Int.cast_natCast, Int.cast_mul] at this
    exact this
  have s1 := Nat.sqrt_le (A * B).toNat
  generalize (A * B).toNat.sqrt = N at s1 ⊢
  have s1r : (N : ℝ) * (N : ℝ) ≤ (A : ℝ) * (B : ℝ) := by rw [← hMr]; exact_mod_cast s1
  have hgg : (√sa * √sb) * (√sa * √sb) = sa * sb := by
    calc √sa * √sb * (√sa * √sb) = (√sa * √sa) * (√sb * √sb) := by ring
      _ = sa * sb := by rw [Real.mul_self_sqrt hsa, Real.mul_self_sqrt hsb]
  have hg0 : 0 ≤ √sa * √sb := mul_nonneg (Real.sqrt_nonneg _) (Real.sqrt_nonneg _)
  generalize √sa * √sb = g at ht hgg hg0
  generalize (q : ℝ) = Q at hA hB hQ ht
  have hG0 : 0 ≤ Q * Q * g := mul_nonneg (mul_nonneg hQ hQ) hg0
  have hAB : (A : ℝ) * (B : ℝ) = (Q * Q * g) * (Q * Q * g) := by
    rw [hA, hB]
    calc Q * Q * sa * (Q * Q * sb) = Q * Q * (Q * Q) * (sa * sb) := by ring
      _ = Q * Q * (Q * Q) * (g * g) := by rw [hgg]
      _ = _ := by ring
  have h2 : (Q * Q * g) * (Q * Q * g) ≤ (t : ℝ) * (t : ℝ) := mul_le_mul ht ht hG0 (le_trans hG0 ht)
  apply (Nat.cast_le (α := ℝ)).1
  by_contra hc
  have hc' := not_le.mp hc
  have ht0 : (0 : ℝ) ≤ (t : ℝ) := Nat.cast_nonneg t
  have := mul_lt_mul'' hc' hc' ht0 ht0
  linarith

/-- **The tiny-norm rule**: when the computed product of the norms is NOT above `f32::EPSILON` the code
reports `+0.0`; under the flags of the two squared norms and of their product, the exact product of the
norms is then at most `2^-22` (`(1 − 1.02·a − 3u)·‖a‖‖b‖ ≤ fl(‖a‖·‖b‖) ≤ 2^-23`), so the oracle's
`tinyNorms` (`N ≤ 2^278`, i.e. `‖a‖‖b‖ ≤ 2^-22`: twice `EPSILON`) is set and the answer `0` is accepted. -/
theorem C11_definitionOracle_accepts_cosine_tiny (h : Host) (p q : List Nat) (hl : p.length = q.length)
    (hK : dotDepth h p.length ≤ 65536)
    (hpp : (dotProductG f32Chk h (chkIn p) (chkIn p)).2 = true)
    (hqq : (dotProductG f32Chk h (chkIn q) (chkIn q)).2 = true)
    (hmul : f32Checks.mul (F32.sqrt (dotProduct h p p)) (F32.sqrt (dotProduct h q q)) = true)
    (hng : F32.gt (F32.mul (F32.sqrt (dotProduct h p p)) (F32.sqrt (dotProduct h q q))) F32.epsilon = false) :
    definitionOracle .cosine p q
        (Metric.builtDistance .cosine h (Metric.newHeader .cosine h p) p (Metric.newHeader .cosine h q) q)
      = some none ∨
    definitionOracle .cosine p q
        (Metric.builtDistance .cosine h (Metric.newHeader .cosine h p) p (Metric.newHeader .cosine h q) q)
      = none := by
  have hrep : Metric.builtDistance .cosine h (Metric.newHeader .cosine h p) p (Metric.newHeader .cosine h q) q
      = F32.zero := by
    have e := C11_cosine_reported_eq h p q 0
    rw [if_neg (by rw [hng]; exact Bool.false_ne_true)] at e
    exact e
  rw [hrep]
  -- the exact product of the norms is at most `2^-22`
  have bpp := dotProduct_round h p p rfl hpp
  have bqq := dotProduct_round h q q rfl hqq
  rw [(self_terms p).1, (self_terms p).2] at bpp
  rw [(self_terms q).1, (self_terms q).2, ← hl] at bqq
  have hsa : 0 ≤ (p.map (fun a => toReal a * toReal a)).sum :=
    List.sum_nonneg (by intro z hz; obtain ⟨w, _, rfl⟩ := List.mem_map.mp hz; exact mul_self_nonneg _)
  have hsb : 0 ≤ (q.map (fun b => toReal b * toReal b)).sum :=
    List.sum_nonneg (by intro z hz; obtain ⟨w, _, rfl⟩ := List.mem_map.mp hz; exact mul_self_nonneg _)
  obtain ⟨fpn, fqn, hNmul⟩ := chk_mul_sound _ _ hmul
  obtain ⟨fpp, pp0⟩ := finite_of_sqrt fpn
  obtain ⟨fqq, qq0⟩ := finite_of_sqrt fqn
  obtain ⟨-, δ1, h1, epn⟩ := sqrt_std _ fpp _ (Real.sqrt_nonneg _) (Real.mul_self_sqrt pp0) (sqrt_normalOrZero fpp pp0)
  obtain ⟨-, δ2, h2, eqn⟩ := sqrt_std _ fqq _ (Real.sqrt_nonneg _) (Real.mul_self_sqrt qq0) (sqrt_normalOrZero fqq qq0)
  obtain ⟨fpnqn, δ3, h3, epq⟩ := mul_std _ _ fpn fqn hNmul
  have hu0 := u_nonneg
  have hue := u_eq
  have hKr : (dotDepth h p.length : ℝ) ≤ 65536 := by exact_mod_cast hK
  have hKu : (dotDepth h p.length : ℝ) * u ≤ 1 / 256 := by rw [hue]; linarith
  have hKu0 : 0 ≤ (dotDepth h p.length : ℝ) * u := by positivity
  have ha : (1 + u) ^ (dotDepth h p.length) - 1 ≤ 256 / 255 * ((dotDepth h p.length : ℝ) * u) :=
    pow_sub_one_le hu0 _ (by linarith) (by linarith)
  have ha0 : 0 ≤ (1 + u) ^ (dotDepth h p.length) - 1 := by
    have := one_le_pow₀ (n := dotDepth h p.length) (show (1 : ℝ) ≤ 1 + u by linarith)
    linarith
  have ha1 : (1 + u) ^ (dotDepth h p.length) - 1 ≤ 1 / 100 := by linarith
  obtain ⟨lo', -⟩ := norm_product_bounds hsa hsb ha0 ha1 hu0 (by rw [hue]; norm_num) bpp bqq h1 h2 h3 epn eqn epq
  have heps : toReal (F32.mul (F32.sqrt (dotProduct h p p)) (F32.sqrt (dotProduct h q q))) ≤ 1 / (2 : ℝ) ^ (23 : ℕ) := by
    have hnl : ¬ F32.lt F32.epsilon (F32.mul (F32.sqrt (dotProduct h p p)) (F32.sqrt (dotProduct h q q))) = true := by
      intro hc
      have : F32.gt (F32.mul (F32.sqrt (dotProduct h p p)) (F32.sqrt (dotProduct h q q))) F32.epsilon = true := hc
      rw [hng] at this; exact Bool.false_ne_true this
    have := not_lt.mp (fun hc => hnl ((lt_iff_toReal _ _ (finite_of_unpack unpack_epsilon) fpnqn).2 hc))
    have he : toReal F32.epsilon = 1 / (2 : ℝ) ^ (23 : ℕ) := by
      rw [toReal_of_unpack unpack_epsilon]
      simp only [sgn, Bool.false_eq_true, if_false, one_mul]
      rw [show (-46 : ℤ) = -(46 : ℕ) by norm_num, zpow_neg, zpow_natCast]
      norm_num
    rw [he] at this
    exact this
  have hgle : √((p.map (fun a => toReal a * toReal a)).sum) * √((q.map (fun b => toReal b * toReal b)).sum)
      ≤ 1 / (2 : ℝ) ^ (22 : ℕ) := by
    have hg0 : 0 ≤ √((p.map (fun a => toReal a * toReal a)).sum) * √((q.map (fun b => toReal b * toReal b)).sum) :=
      mul_nonneg (Real.sqrt_nonneg _) (Real.sqrt_nonneg _)
    generalize √((p.map (fun a => toReal a * toReal a)).sum) * √((q.map (fun b => toReal b * toReal b)).sum) = g
      at lo' hg0
    have hc : (1 : ℝ) / 2 ≤ 1 - 51 / 50 * ((1 + u) ^ (dotDepth h p.length) - 1) - 3 * u := by
      rw [hue] at *; norm_num; linarith
    have := mul_le_mul_of_nonneg_right hc hg0
    have e : (1 : ℝ) / (2 : ℝ) ^ (22 : ℕ) = 2 * (1 / (2 : ℝ) ^ (23 : ℕ)) := by norm_num
    rw [e]; linarith
  unfold definitionOracle
  rw [show Metric.isBq .cosine = false from rfl]
  simp only [Bool.false_eq_true, if_false]
  have hz : F32.zero = 0 ∨ F32.zero = 2147483648 := Or.inl rfl
  split
  · rename_i ea eb r hx hy hr
    have hAr := oracle_A_real p ea hx
    have hBr := oracle_A_real q eb hy
    have hc : (((2 ^ 150 : ℕ) : ℕ) : ℝ) = (2 : ℝ) ^ (150 : ℕ) := by rw [Nat.cast_pow, Nat.cast_ofNat]
    have hQQ : (2 : ℝ) ^ (300 : ℕ) = (2 : ℝ) ^ (150 : ℕ) * (2 : ℝ) ^ (150 : ℕ) := by rw [← pow_add]
    have hN := isqrt_le_of_real (2 ^ 150) (2 ^ 278) _ _ _ _
      (by rw [hc, ← hQQ]; exact hAr) (by rw [hc, ← hQQ]; exact hBr) hsa hsb
      (by
        rw [hc, ← hQQ, Nat.cast_pow, Nat.cast_ofNat,
          show (2 : ℝ) ^ (300 : ℕ) = (2 : ℝ) ^ (278 : ℕ) * (2 : ℝ) ^ (22 : ℕ) by rw [← pow_add]]
        have h22 : (0 : ℝ) < (2 : ℝ) ^ (22 : ℕ) := by positivity
        have h278 : (0 : ℝ) < (2 : ℝ) ^ (278 : ℕ) := by positivity
        calc (2 : ℝ) ^ (278 : ℕ) * (2 : ℝ) ^ (22 : ℕ) * _
            ≤ (2 : ℝ) ^ (278 : ℕ) * (2 : ℝ) ^ (22 : ℕ) * (1 / (2 : ℝ) ^ (22 : ℕ)) :=
              mul_le_mul_of_nonneg_left hgle (mul_pos h278 h22).le
          _ = (2 : ℝ) ^ (278 : ℕ) := by rw [mul_assoc, mul_one_div_cancel h22.ne', mul_one])
    have hNi : (((List.foldl (fun (acc : Int) (x : Int) => acc + x * x) 0 (List.map scaled150 ea) *
        List.foldl (fun (acc : Int) (x : Int) => acc + x * x) 0 (List.map scaled150 eb)).toNat.sqrt : Nat) : Int)
        ≤ (2 : Int) ^ 278 := by
      have := Int.ofNat_le.mpr hN
      rwa [Nat.cast_pow, Nat.cast_ofNat] at this
    have htiny : (decide ((((List.foldl (fun (acc : Int) (x : Int) => acc + x * x) 0 (List.map scaled150 ea) *
        List.foldl (fun (acc : Int) (x : Int) => acc + x * x) 0 (List.map scaled150 eb)).toNat.sqrt : Nat) : Int)
        ≤ (2 : Int) ^ 278) && decide (F32.zero = 0 ∨ F32.zero = 2147483648)) = true := by
      rw [Bool.and_eq_true]
      exact ⟨decide_eq_true hNi, decide_eq_true hz⟩
    clear hN hAr hBr
    generalize List.foldl (fun (acc : Int) (x : Int) => acc + x * x) 0 (List.map scaled150 ea) = A at hNi htiny ⊢
    generalize List.foldl (fun (acc : Int) (x : Int) => acc + x * x) 0 (List.map scaled150 eb) = B at hNi htiny ⊢
    by_cases hAB : A = 0 ∨ B = 0
    · rw [if_pos hAB, if_pos hz]; left; rfl
    · rw [if_neg hAB]
      by_cases hrg : A < (2 : Int) ^ 260 ∨ B < (2 : Int) ^ 260 ∨ A > (2 : Int) ^ 340 ∨ B > (2 : Int) ^ 340
      · rw [if_pos hrg]; right; rfl
      · rw [if_neg hrg, if_pos htiny]; left; rfl
  · right; rfl

/-! ## non-vacuity -/

section examples

/-- cosine: the flag holds on the AVX and SSE paths; the oracle's verdict computed directly is `some none`
(judged and accepted), and the theorem applies -/
example : cosineChk {} exX exY = true ∧ cosineChk { avx := false } exX exY = true ∧
    definitionOracle .cosine exX exY
      (Metric.builtDistance .cosine {} (Metric.newHeader .cosine {} exX) exX (Metric.newHeader .cosine {} exY) exY)
      = some none ∧
    definitionOracle .cosine exX exY
      (Metric.builtDistance .cosine { avx := false } (Metric.newHeader .cosine { avx := false } exX) exX
        (Metric.newHeader .cosine { avx := false } exY) exY) = some none := by decide +kernel

example :
    definitionOracle .cosine exX exY
      (Metric.builtDistance .cosine {} (Metric.newHeader .cosine {} exX) exX (Metric.newHeader .cosine {} exY) exY)
      = some none ∨
    definitionOracle .cosine exX exY
      (Metric.builtDistance .cosine {} (Metric.newHeader .cosine {} exX) exX (Metric.newHeader .cosine {} exY) exY)
      = none :=
  C11_definitionOracle_accepts_cosine_chk {} exX exY (by decide +kernel) (by decide)

/-- zero norm: `⟨+0, -0⟩` against `⟨1, 2⟩` is reported as `+0.0`, and accepted -/
example : definitionOracle .cosine [F32.zero, F32.negZero] [F32.one, F32.two]
      (Metric.builtDistance .cosine {} (Metric.newHeader .cosine {} [F32.zero, F32.negZero]) [F32.zero, F32.negZero]
        (Metric.newHeader .cosine {} [F32.one, F32.two]) [F32.one, F32.two]) = some none := by decide +kernel

/-- the cosine rule rejects a value 5000 units in the last place away (and still accepts 64) -/
example : (match definitionOracle .cosine exX exY
      (Metric.builtDistance .cosine {} (Metric.newHeader .cosine {} exX) exX (Metric.newHeader .cosine {} exY) exY + 5000)
      with | some (some _) => true | _ => false) = true := by decide +kernel

/-- tiny norms: `p = q = ⟨2^-13⟩`, norm product `2^-26 ≤ EPSILON`: the flags of
`C11_definitionOracle_accepts_cosine_tiny` hold, `+0.0` is reported, the oracle judges it (`A = 2^274`) and
accepts -/
example : (dotProductG f32Chk {} (chkIn [0x39000000]) (chkIn [0x39000000])).2 = true ∧
    f32Checks.mul (F32.sqrt (dotProduct {} [0x39000000] [0x39000000]))
      (F32.sqrt (dotProduct {} [0x39000000] [0x39000000])) = true ∧
    F32.gt (F32.mul (F32.sqrt (dotProduct {} [0x39000000] [0x39000000]))
      (F32.sqrt (dotProduct {} [0x39000000] [0x39000000]))) F32.epsilon = false ∧
    definitionOracle .cosine [0x39000000] [0x39000000]
      (Metric.builtDistance .cosine {} (Metric.newHeader .cosine {} [0x39000000]) [0x39000000]
        (Metric.newHeader .cosine {} [0x39000000]) [0x39000000]) = some none := by decide +kernel

end examples

end Arroy.C11
