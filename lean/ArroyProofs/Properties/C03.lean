import ArroyProofs.Exact
import ArroyProofs.Monotone
import ArroyProofs.ForestExample
import ArroyProofs.WellFormedCheck
/-! C03 — any-budget, filtered search results are well-formed and budget-monotone. -/
namespace Arroy.C03
open Arroy Reader

/-- **C03 (well-formedness, no hypothesis at all)**: whatever the store, the budget, the oversampling and the
filter, a successful `nns_by_leaf` returns at most `count` results, with pairwise distinct ids, each
stored as a leaf (now, in this store), inside the filter, carrying the normalised true score, and the
results are ordered nearest first on the true scores (ties by id). -/
theorem C03_wellformed (c : Cfg) (s : Store) (rd : ReaderState) (qh qv : List Nat) (q : QueryOpts)
    (ans : List (Nat × Nat)) (h : nnsByLeaf c s rd qh qv q = .ok ans) :
    ans.length ≤ q.count ∧
    (ans.map (·.1)).Nodup ∧
    (∀ p ∈ ans, IsLeaf c s p.1 ∧ inCandidates q p.1 = true ∧
      p.2 = c.metric.normalizedDistance (scoreOf c s qh qv p.1) rd.dims) ∧
    (ans.map fun p => (scoreOf c s qh qv p.1, p.1)).Pairwise (fun a b => scoreLe a b = true) := by
  rcases nnsByLeaf_ok_inv c s rd qh qv q ans h with ⟨_, rfl⟩ | ⟨nns, _, ht, hl, rfl⟩
  · simp
  · refine ⟨?_, exactOver_nodup _ _ _ _ _ _ _ (IdSet.ofList_nodup nns), ?_, exactOver_sorted ..⟩
    · rw [exactOver_length]; exact Nat.min_le_left _ _
    · intro p hp
      have hm := exactOver_mem _ _ _ _ _ _ _ p hp
      refine ⟨hl _ hm.1, ?_, hm.2⟩
      have := traverse_inCandidates c s qv q _ _ _ [] nns ht (by intro x hx; cases hx)
      exact this _ ((IdSet.mem_ofListR nns _).1 hm.1)

/-- the executable predicate `Check.wellFormed`, which the harness runs on the implementation's answers,
reports no violation on any successful answer of the model -/
theorem C03_wellformed_check (c : Cfg) (s : Store) (rd : ReaderState) (qh qv : List Nat) (q : QueryOpts)
    (ans : List (Nat × Nat)) (h : nnsByLeaf c s rd qh qv q = .ok ans) :
    Check.wellFormed c s rd.dims qh qv q ans = [] := by
  obtain ⟨h1, h2, h3, h4⟩ := C03_wellformed c s rd qh qv q ans h
  exact wellFormed_nil c s rd.dims qh qv q ans h1 h2 h3 h4

/-- **C03 (totality on a valid forest)**: on a valid forest a query never fails, for any count, budget,
oversampling and filter (sorted or not), and every result is an item of the index. -/
theorem C03_total {c : Cfg} {s : Store} {rd : ReaderState} (F : ForestOK c s rd) (qh qv : List Nat)
    (q : QueryOpts) :
    ∃ ans, nnsByLeaf c s rd qh qv q = .ok ans ∧ ∀ p ∈ ans, p.1 ∈ rd.items := by
  obtain ⟨ts, F⟩ := F
  by_cases hne : rd.items = []
  · exact ⟨[], by unfold nnsByLeaf; simp [hne], by simp⟩
  · obtain ⟨nns, hn, hm⟩ := traverse_total F qv q (budget c.metric rd.roots.length q)
    have hl : ∀ id ∈ IdSet.ofList nns, IsLeaf c s id := fun id hid =>
      F.stored id (hm id ((IdSet.mem_ofListR nns id).1 hid)).1
    refine ⟨_, nnsByLeaf_of_traverse c s rd qh qv q nns hne hn hl, ?_⟩
    intro p hp
    have := (exactOver_mem _ _ _ _ _ _ _ p hp).1
    exact (hm _ ((IdSet.mem_ofListR nns _).1 this)).1

/-- **C03 (filter + unlimited budget = exact search restricted to the filter)**: on a valid forest whose
buckets are sorted id sets, with a sorted filter `cs` and a budget of at least trees × items, the answer is
the exact answer over the items that are in `cs`. -/
theorem C03_filter_exact {c : Cfg} {s : Store} {rd : ReaderState} (F : ForestOK c s rd) (hd : DescSorted c s)
    (qh qv : List Nat) (q : QueryOpts) (cs : List Nat) (hq : q.candidates = some cs) (hcs : IdSet.Sorted cs)
    (hb : rd.roots.length * rd.items.length ≤ budget c.metric rd.roots.length q) :
    nnsByLeaf c s rd qh qv q =
      .ok (exactOver c s rd.dims qh qv q.count (rd.items.filter fun x => cs.contains x)) := by
  have := nnsByLeaf_exact F qh qv q (Or.inr ⟨hd, fun cs' h => by rw [hq] at h; cases h; exact hcs⟩) hb
  rw [this]
  congr 3
  funext x
  simp [inCandidates, hq]

/-- with `search_k = usize::MAX` -/
theorem C03_filter_exact_usizeMax {c : Cfg} {s : Store} {rd : ReaderState} (F : ForestOK c s rd)
    (hd : DescSorted c s) (qh qv : List Nat) (q : QueryOpts) (cs : List Nat) (hq : q.candidates = some cs)
    (hcs : IdSet.Sorted cs) (hk : q.searchK = some usizeMax) (ho : q.oversampling ≠ some 0)
    (hsz : rd.roots.length * rd.items.length ≤ usizeMax) :
    nnsByLeaf c s rd qh qv q =
      .ok (exactOver c s rd.dims qh qv q.count (rd.items.filter fun x => cs.contains x)) :=
  C03_filter_exact F hd qh qv q cs hq hcs (by rw [budget_unlimited _ _ q hk ho]; exact hsz)

/-- **C03 (default budget)**: leaving `search_k` and the oversampling unset asks for
`count × trees × default oversampling`, each product saturating at `usize::MAX`; nothing overflows,
for any `count`; the default oversampling is 1 for the f32 metrics and 3 for the quantised ones. -/
theorem C03_default_budget (m : Metric) (n : Nat) (q : QueryOpts) (hk : q.searchK = none)
    (ho : q.oversampling = none) :
    budget m n q = min (min (q.count * n) usizeMax * m.oversampling) usizeMax ∧
    budget m n q ≤ usizeMax ∧
    m.oversampling = (if m.isBq then 3 else 1) := by
  refine ⟨?_, ?_, ?_⟩
  · simp [budget, satMul, hk, ho]
  · unfold budget satMul; exact Nat.min_le_right _ _
  · cases m <;> decide

/-- the budget never exceeds `usize::MAX`, whatever the options -/
theorem C03_budget_le (m : Metric) (n : Nat) (q : QueryOpts) : budget m n q ≤ usizeMax := by
  unfold budget satMul; exact Nat.min_le_right _ _

/-- below saturation the default budget is literally `count × trees × oversampling` -/
theorem C03_default_budget_small (m : Metric) (n : Nat) (q : QueryOpts) (hk : q.searchK = none)
    (ho : q.oversampling = none) (hs : q.count * n * m.oversampling ≤ usizeMax) :
    budget m n q = q.count * n * m.oversampling := by
  have h1 : 1 ≤ m.oversampling := by cases m <;> decide
  have h2 : q.count * n ≤ q.count * n * m.oversampling := Nat.le_mul_of_pos_right _ h1
  have h3 : q.count * n ≤ usizeMax := Nat.le_trans h2 hs
  simp only [budget, satMul, hk, ho, Option.getD_none]
  have : (q.count * n).min usizeMax = q.count * n := Nat.min_eq_left h3
  rw [this]
  exact Nat.min_eq_left hs

/-- **C03 (by_item, unknown id)**: no result rather than an error -/
theorem C03_by_item_absent (c : Cfg) (s : Store) (rd : ReaderState) (id : Nat) (q : QueryOpts)
    (h : s.get (c.itemKey id) = none) : byItem c s rd id q = .ok none := by
  simp [byItem, Writer.itemLeaf, h]

/-- **C03 (by_item, stored id)**: the query by the stored leaf -/
theorem C03_by_item_present (c : Cfg) (s : Store) (rd : ReaderState) (id : Nat) (q : QueryOpts) (h v : List Nat)
    (hs : s.get (c.itemKey id) = some (.leaf h v)) :
    byItem c s rd id q = (nnsByLeaf c s rd h v q).map some := by
  simp only [byItem, Writer.itemLeaf, hs]
  cases nnsByLeaf c s rd h v q <;> rfl

/-- **C03 (by_item = by_vector of the item's vector)**, f32 metrics: when the stored header is the one
`new_header` computes from the stored vector (as written by `Cfg.mkLeaf`; for the dot-product metric a
build may have rewritten it, see `C03_by_item_eq_by_vector_headerless`) -/
theorem C03_by_item_eq_by_vector (c : Cfg) (s : Store) (rd : ReaderState) (id : Nat) (q : QueryOpts)
    (h v : List Nat) (hs : s.get (c.itemKey id) = some (.leaf h v)) (hbq : c.metric.isBq = false)
    (hh : h = c.metric.newHeader c.host v) (hl : v.length = rd.dims) (hd : c.dims = rd.dims) :
    Writer.itemVector c s id = some v ∧
    byItem c s rd id q = (byVector c s rd v q).map some := by
  constructor
  · simp [Writer.itemVector, Writer.itemLeaf, hs, Metric.toVec, hbq, hd, ← hl]
  · rw [C03_by_item_present c s rd id q h v hs]
    simp only [byVector, hl, ne_eq, not_true_eq_false, if_false, Metric.fromSlice, hbq, Bool.false_eq_true, ← hh]

/-- **C03 (by_item = by_vector)** for Euclidean, Manhattan and dot-product: no hypothesis on the stored header -/
theorem C03_by_item_eq_by_vector_headerless (c : Cfg) (s : Store) (rd : ReaderState) (id : Nat) (q : QueryOpts)
    (h v : List Nat) (hs : s.get (c.itemKey id) = some (.leaf h v)) (hbq : c.metric.isBq = false)
    (hm : headerless c.metric = true) (hl : v.length = rd.dims) (hd : c.dims = rd.dims) :
    Writer.itemVector c s id = some v ∧
    byItem c s rd id q = (byVector c s rd v q).map some := by
  constructor
  · simp [Writer.itemVector, Writer.itemLeaf, hs, Metric.toVec, hbq, hd, ← hl]
  · rw [C03_by_item_present c s rd id q h v hs]
    simp only [byVector, hl, ne_eq, not_true_eq_false, if_false, Metric.fromSlice, hbq, Bool.false_eq_true]
    rw [nnsByLeaf_headerless c s rd hm h]

/-- **C03 (prefix)**: the sequence of pops does not depend on the budget: same state, same fuel, budgets
`k₁ ≤ k₂`; if the traversal for `k₂` succeeds so does the one for `k₁`, and its candidate list is a prefix. -/
theorem C03_prefix (c : Cfg) (s : Store) (qv : List Nat) (q : QueryOpts) (k₁ k₂ : Nat) (hk : k₁ ≤ k₂)
    (fuel : Nat) (queue : List (Nat × NodeId)) (nns out₂ : List Nat)
    (h : traverse c s qv q k₂ fuel queue nns = .ok out₂) :
    ∃ out₁, traverse c s qv q k₁ fuel queue nns = .ok out₁ ∧ out₁ <+: out₂ :=
  traverse_prefix c s qv q k₁ k₂ hk fuel queue nns out₂ h

/-- **C03 (budget monotonicity)**, no hypothesis on the store: two queries on the same index with the same
query leaf, count and filter, the first with the smaller budget (`budget` is `search_k × oversampling`,
saturating). If the second succeeds, so does the first; the first answer is no longer than the second;
and at every rank the second answer's item is at least as near (on the true scores, ties by id) as the first's. -/
theorem C03_monotone (c : Cfg) (s : Store) (rd : ReaderState) (qh qv : List Nat) (q₁ q₂ : QueryOpts)
    (hcount : q₁.count = q₂.count) (hcand : q₁.candidates = q₂.candidates)
    (hbud : budget c.metric rd.roots.length q₁ ≤ budget c.metric rd.roots.length q₂)
    (ans₂ : List (Nat × Nat)) (h₂ : nnsByLeaf c s rd qh qv q₂ = .ok ans₂) :
    ∃ ans₁, nnsByLeaf c s rd qh qv q₁ = .ok ans₁ ∧
      ans₁.length ≤ ans₂.length ∧
      ∀ (j : Nat) (a₁ a₂ : Nat × Nat), ans₁[j]? = some a₁ → ans₂[j]? = some a₂ →
        scoreLe (scoreOf c s qh qv a₂.1, a₂.1) (scoreOf c s qh qv a₁.1, a₁.1) = true := by
  rcases nnsByLeaf_ok_inv c s rd qh qv q₂ ans₂ h₂ with ⟨he, rfl⟩ | ⟨nns₂, hne, ht₂, hl₂, rfl⟩
  · refine ⟨[], by unfold nnsByLeaf; simp [he], Nat.le_refl _, ?_⟩
    intro j a₁ a₂ h; simp at h
  · obtain ⟨nns₁, ht₁, hpre⟩ := traverse_prefix c s qv q₂ _ _ hbud _ _ _ _ ht₂
    rw [← traverse_congr_q c s qv q₁ q₂ hcand] at ht₁
    have hsub : ∀ x ∈ IdSet.ofList nns₁, x ∈ IdSet.ofList nns₂ := by
      intro x hx
      rw [IdSet.mem_ofListR] at hx ⊢
      exact hpre.subset hx
    have hl₁ : ∀ id ∈ IdSet.ofList nns₁, IsLeaf c s id := fun id hid => hl₂ id (hsub id hid)
    refine ⟨_, nnsByLeaf_of_traverse c s rd qh qv q₁ nns₁ hne ht₁ hl₁, ?_⟩
    rw [hcount]
    exact exactOver_mono c s rd.dims qh qv q₂.count _ _ (IdSet.ofList_nodup nns₁) (IdSet.ofList_nodup nns₂) hsub

/-! ### non-vacuity (the index of `ArroyProofs/ForestExample.lean`: a split node, a bucket, an item child) -/

section Examples
open ForestExample

/-- `C03_wellformed` / `C03_monotone`: a successful answer exists for any options (here: budget 1, a filter) -/
example : ∃ ans, nnsByLeaf ForestExample.c ForestExample.s ForestExample.rd [F32.zero] [F32.zero, F32.zero]
    { count := 2, searchK := some 1, candidates := some [2, 1] } = .ok ans :=
  let ⟨ans, h, _⟩ := C03_total forestOK _ _ _; ⟨ans, h⟩

/-- `C03_filter_exact`: hypotheses hold for the filter `{1, 2}` -/
example :
    nnsByLeaf ForestExample.c ForestExample.s ForestExample.rd [F32.zero] [F32.zero, F32.zero]
        { count := 5, searchK := some usizeMax, candidates := some [1, 2] } =
      .ok (exactOver ForestExample.c ForestExample.s 2 [F32.zero] [F32.zero, F32.zero] 5 [1, 2]) :=
  C03_filter_exact_usizeMax forestOK descSorted _ _ _ [1, 2] rfl (by decide) rfl (by decide) (by decide)

/-- `C03_monotone`: budgets 1 and `usize::MAX` -/
example : budget ForestExample.c.metric ForestExample.rd.roots.length { count := 2, searchK := some 1 } ≤
    budget ForestExample.c.metric ForestExample.rd.roots.length { count := 2, searchK := some usizeMax } := by
  decide

/-- `C03_default_budget`: 10 × 2 trees × 1, 10 × 2 × 3, and no overflow for `count = 2^63` (finding D) -/
example : budget .euclidean 2 { count := 10 } = 20 := by decide
example : budget .bqCosine 2 { count := 10 } = 60 := by decide
example : budget .euclidean 2 { count := 2 ^ 63 } = usizeMax := by decide
example : budget .bqEuclidean 2 { count := usizeMax } = usizeMax := by decide

/-- `C03_by_item_absent` / `_present` / `_eq_by_vector`: ids 7 (absent) and 1 (stored with a `new_header` header) -/
example : ForestExample.s.get (ForestExample.c.itemKey 7) = none := by decide
example : ForestExample.s.get (ForestExample.c.itemKey 1) = some (.leaf [F32.zero] [F32.one, F32.zero]) := by decide
example : [F32.zero] = ForestExample.c.metric.newHeader ForestExample.c.host [F32.one, F32.zero] := by decide
example (q : QueryOpts) :
    byItem ForestExample.c ForestExample.s ForestExample.rd 1 q =
      (byVector ForestExample.c ForestExample.s ForestExample.rd [F32.one, F32.zero] q).map some :=
  (C03_by_item_eq_by_vector _ _ _ 1 q [F32.zero] [F32.one, F32.zero] (by decide) (by decide) (by decide) rfl rfl).2

/-- `C03_prefix`: the traversal for the larger budget succeeds on the example -/
example : ∃ out₂, traverse ForestExample.c ForestExample.s [F32.zero, F32.zero] { count := 2 } usizeMax
    (2 * ForestExample.s.length + ForestExample.rd.roots.length + 2)
    (ForestExample.rd.roots.map fun r => (F32.inf, NodeId.mkTree r)) [] = .ok out₂ :=
  let ⟨o, h, _⟩ := traverse_total forestWith _ _ _; ⟨o, h⟩

end Examples

end Arroy.C03
