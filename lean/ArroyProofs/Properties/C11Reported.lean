import ArroyProofs.Properties.C11
import ArroyProofs.Properties.C11Real
import ArroyProofs.ReportedReal
import ArroyProofs.ReportedFloat
/-! # C11 — rounding-error bounds for the REPORTED Euclidean and cosine distances

`C11Real.lean` bounds the dot product, the SQUARED Euclidean distance and the Manhattan distance.  Here:

* `C11_round_f32_reported_euclidean` : the value the reader reports for Euclidean,
  `normalizedDistance .euclidean (builtDistance .euclidean …) = F32.sqrt (euclideanDistance h x y)`, is within
  `((1+u)^K' − 1)·√(Σ(aᵢ−bᵢ)²)` of `√(Σ(aᵢ−bᵢ)²)`, `K' = K + 1` in general and `K' = ⌈K/2⌉ + 2` for
  `K ≤ 4095` (`⌈K/2⌉ + 1` on the upper side, always), `K = euclidDepth h n ≤ n + 3` — under the run-time
  flag of `C11_round_f32_euclidean_distance` alone.  The square root needs no side condition: the flag
  implies a finite non-negative squared distance, and the root of a finite non-negative binary32 value is
  zero or in `[2^-75, 2^64)`.
* `C11_round_f32_cosine` : the reported cosine distance is within `1.05·(K + 4)·u` (absolute) of
  `(1 − Σaᵢbᵢ/(√Σaᵢ²·√Σbᵢ²))/2`, `K = dotDepth h n ≤ n + 1`, under decidable flags.
* `C11_cosine_zero_norm` : all components of `p` (or of `q`) `±0` ⟹ the reported value is `+0.0`, bit for bit.
* `C11_cosine_range_real` : `0 ≤ toReal reported ≤ 1` whenever the reported value is not NaN. -/
namespace Arroy.C11
open Arroy Kernel SF SFR KernelRound ReportedReal

/-! ## Euclidean -/

/-- **The reported Euclidean distance** `sqrt(fl(Σ(aᵢ−bᵢ)²))`.  Hypotheses: equal lengths, and no operation
of the instrumented run of the squared distance fails its check (exactly the hypotheses of
`C11_round_f32_euclidean_distance`).  Nothing else is needed for the square root: the flag implies that the
squared distance is finite, it is non-negative, and the square root of a finite non-negative binary32
value is zero or in the normal range.  The reported value is finite, and with `S = Σ(aᵢ−bᵢ)²` (real
numbers), `K = euclidDepth h n` (`≤ n + 3`):

* `|reported − √S| ≤ ((1+u)^(K+1) − 1)·√S` (no condition on `K`);
* `reported − √S ≤ ((1+u)^((K+1)/2 + 1) − 1)·√S` (upper side, no condition on `K`);
* for `K ≤ 4095`: `|reported − √S| ≤ ((1+u)^((K+1)/2 + 2) − 1)·√S`. -/
theorem C11_round_f32_reported_euclidean (h : Host) (hdrp hdrq x y : List Nat) (dims : Nat)
    (hl : x.length = y.length)
    (hrun : (euclideanDistanceG f32Chk h (chkIn x) (chkIn y)).2 = true) :
    Metric.normalizedDistance .euclidean (Metric.builtDistance .euclidean h hdrp x hdrq y) dims
      = F32.sqrt (euclideanDistance h x y) ∧
    Finite (F32.sqrt (euclideanDistance h x y)) ∧
    |toReal (F32.sqrt (euclideanDistance h x y))
        - √((List.zipWith (fun a b => (toReal a - toReal b) * (toReal a - toReal b)) x y).sum)|
      ≤ ((1 + u) ^ (euclidDepth h x.length + 1) - 1)
        * √((List.zipWith (fun a b => (toReal a - toReal b) * (toReal a - toReal b)) x y).sum) ∧
    toReal (F32.sqrt (euclideanDistance h x y))
        - √((List.zipWith (fun a b => (toReal a - toReal b) * (toReal a - toReal b)) x y).sum)
      ≤ ((1 + u) ^ ((euclidDepth h x.length + 1) / 2 + 1) - 1)
        * √((List.zipWith (fun a b => (toReal a - toReal b) * (toReal a - toReal b)) x y).sum) ∧
    (euclidDepth h x.length ≤ 4095 →
      |toReal (F32.sqrt (euclideanDistance h x y))
          - √((List.zipWith (fun a b => (toReal a - toReal b) * (toReal a - toReal b)) x y).sum)|
        ≤ ((1 + u) ^ ((euclidDepth h x.length + 1) / 2 + 2) - 1)
          * √((List.zipWith (fun a b => (toReal a - toReal b) * (toReal a - toReal b)) x y).sum)) ∧
    euclidDepth h x.length ≤ x.length + 3 := by
  have hrep : Metric.normalizedDistance .euclidean (Metric.builtDistance .euclidean h hdrp x hdrq y) dims
      = F32.sqrt (euclideanDistance h x y) := rfl
  refine ⟨hrep, ?_⟩
  obtain ⟨fd, d0⟩ := euclideanDistance_finite h x y hrun
  have hb := euclideanDistance_round h x y hl hrun
  rw [sq_terms_abs] at hb
  have hS := sq_terms_sum_nonneg x y
  have hKle := euclidDepth_le h x.length
  obtain ⟨fr, δ, hδ, hr⟩ := sqrt_std _ fd _ (Real.sqrt_nonneg _) (Real.mul_self_sqrt d0) (sqrt_normalOrZero fd d0)
  refine ⟨fr, ?_⟩
  generalize (List.zipWith (fun a b => (toReal a - toReal b) * (toReal a - toReal b)) x y).sum = S at *
  generalize euclidDepth h x.length = K at *
  generalize toReal (euclideanDistance h x y) = f at *
  generalize toReal (F32.sqrt (euclideanDistance h x y)) = r at *
  have hu0 := u_nonneg
  have hu1 : u ≤ 1 := by rw [u_eq]; norm_num
  have h1u : (1 : ℝ) ≤ 1 + u := by linarith
  have ha0 : 0 ≤ (1 + u) ^ K - 1 := by
    have := one_le_pow₀ (n := K) h1u
    linarith
  refine ⟨?_, ?_, ?_, ?_⟩
  · have := sqrt_round hS ha0 hu0 hu1 hb hδ hr
    have e : (1 + ((1 + u) ^ K - 1)) * (1 + u) - 1 = (1 + u) ^ (K + 1) - 1 := by rw [pow_succ]; ring
    rw [e] at this; exact this
  · have hW1 : (1 : ℝ) ≤ (1 + u) ^ ((K + 1) / 2) := one_le_pow₀ h1u
    have hWa : 1 + ((1 + u) ^ K - 1) ≤ (1 + u) ^ ((K + 1) / 2) * (1 + u) ^ ((K + 1) / 2) := by
      rw [← pow_add]
      have : K ≤ (K + 1) / 2 + (K + 1) / 2 := by omega
      have := pow_le_pow_right₀ h1u this
      linarith
    have := (sqrt_round_half hS hu0 hu1 hW1 hWa hb hδ hr).1
    rw [pow_succ]; exact this
  · intro hK
    have hW1 : (1 : ℝ) ≤ (1 + u) ^ ((K + 1) / 2) := one_le_pow₀ h1u
    have hWa : 1 + ((1 + u) ^ K - 1) ≤ (1 + u) ^ ((K + 1) / 2) * (1 + u) ^ ((K + 1) / 2) := by
      rw [← pow_add]
      have : K ≤ (K + 1) / 2 + (K + 1) / 2 := by omega
      have := pow_le_pow_right₀ h1u this
      linarith
    have hm : (K + 1) / 2 ≤ 2048 := by omega
    have hmr : (((K + 1) / 2 : ℕ) : ℝ) ≤ 2048 := by exact_mod_cast hm
    have hmu : (((K + 1) / 2 : ℕ) : ℝ) * u ≤ 1 / 8192 := by
      rw [u_eq]; linarith
    have hm0 : (0 : ℝ) ≤ (((K + 1) / 2 : ℕ) : ℝ) * u := by positivity
    have hx : (1 + u) ^ ((K + 1) / 2) - 1 ≤ 4096 / 4095 * ((((K + 1) / 2 : ℕ) : ℝ) * u) :=
      pow_sub_one_le hu0 _ (by linarith) (by linarith)
    have hx' : (1 + u) ^ ((K + 1) / 2) - 1 ≤ 1 / 8190 := by linarith
    have hx0 : 0 ≤ (1 + u) ^ ((K + 1) / 2) - 1 := by linarith
    have hxx : 2 * (((1 + u) ^ ((K + 1) / 2) - 1) * ((1 + u) ^ ((K + 1) / 2) - 1)) ≤ u := by
      have : ((1 + u) ^ ((K + 1) / 2) - 1) * ((1 + u) ^ ((K + 1) / 2) - 1) ≤ 1 / 8190 * (1 / 8190) :=
        mul_le_mul hx' hx' hx0 (by norm_num)
      have hu := u_eq
      linarith
    have := (sqrt_round_half hS hu0 hu1 hW1 hWa hb hδ hr).2 (by linarith) hxx
    rw [pow_succ, pow_succ, mul_assoc]; exact this
  · exact hKle

/-! ## cosine -/

/-- the value reported for the cosine metric between two stored items (headers as the writer computes
them: `norm = sqrt(dot(v, v))`); `normalizedDistance .cosine` is the identity -/
theorem C11_cosine_reported_eq (h : Host) (p q : List Nat) (dims : Nat) :
    Metric.normalizedDistance .cosine (Metric.builtDistance .cosine h (Metric.newHeader .cosine h p) p
      (Metric.newHeader .cosine h q) q) dims
    = (if F32.gt (F32.mul (F32.sqrt (dotProduct h p p)) (F32.sqrt (dotProduct h q q))) F32.epsilon = true then
        F32.div (F32.sub F32.one (F32.clamp (F32.div (dotProduct h p q)
          (F32.mul (F32.sqrt (dotProduct h p p)) (F32.sqrt (dotProduct h q q)))) F32.negOne F32.one)) F32.two
      else F32.zero) := rfl

/-- **The reported cosine distance.**  `p`, `q` of equal length `n`, `K = dotDepth h n ≤ n + 1` at most
`65536`.  Decidable flags: no operation of the instrumented runs of the three dot products `p·p`, `q·q`,
`p·q` fails its check; the product of the two norms `sqrt(fl(p·p))·sqrt(fl(q·q))` passes the check of the
multiplication (finite operands, exact product zero or in the normal range) and is above `f32::EPSILON`
(so the formula branch is taken); the quotient `fl(p·q) / fl(‖p‖‖q‖)` is in the normal range or zero
(`divRange`).  Then, in real numbers, `√Σaᵢ²·√Σbᵢ² > 0`, the reported value is finite, and

`|reported − (1 − Σaᵢbᵢ / (√Σaᵢ²·√Σbᵢ²)) / 2| ≤ 1.05·(K + 4)·u`   (`u = 2^-24`, absolute error; first-order
term: `K·u` from the three dot products, `4·u` from `sqrt`, `sqrt`, `·`, `/`, `1 − ·`, `/2`). -/
theorem C11_round_f32_cosine (h : Host) (p q : List Nat) (hl : p.length = q.length)
    (hK : dotDepth h p.length ≤ 65536)
    (hpp : (dotProductG f32Chk h (chkIn p) (chkIn p)).2 = true)
    (hqq : (dotProductG f32Chk h (chkIn q) (chkIn q)).2 = true)
    (hpq : (dotProductG f32Chk h (chkIn p) (chkIn q)).2 = true)
    (hmul : f32Checks.mul (F32.sqrt (dotProduct h p p)) (F32.sqrt (dotProduct h q q)) = true)
    (hgt : F32.gt (F32.mul (F32.sqrt (dotProduct h p p)) (F32.sqrt (dotProduct h q q))) F32.epsilon = true)
    (hdiv : divRange (dotProduct h p q)
      (F32.mul (F32.sqrt (dotProduct h p p)) (F32.sqrt (dotProduct h q q))) = true) :
    0 < √((p.map (fun a => toReal a * toReal a)).sum) * √((q.map (fun b => toReal b * toReal b)).sum) ∧
    Finite (Metric.builtDistance .cosine h (Metric.newHeader .cosine h p) p (Metric.newHeader .cosine h q) q) ∧
    |toReal (Metric.builtDistance .cosine h (Metric.newHeader .cosine h p) p (Metric.newHeader .cosine h q) q)
        - (1 - (List.zipWith (fun a b => toReal a * toReal b) p q).sum
              / (√((p.map (fun a => toReal a * toReal a)).sum) * √((q.map (fun b => toReal b * toReal b)).sum))) / 2|
      ≤ 21 / 20 * ((dotDepth h p.length : ℝ) + 4) * u ∧
    dotDepth h p.length ≤ p.length + 1 := by
  have hrep := C11_cosine_reported_eq h p q 0
  rw [if_pos hgt] at hrep
  have hrep' : Metric.builtDistance .cosine h (Metric.newHeader .cosine h p) p (Metric.newHeader .cosine h q) q
      = F32.div (F32.sub F32.one (F32.clamp (F32.div (dotProduct h p q)
          (F32.mul (F32.sqrt (dotProduct h p p)) (F32.sqrt (dotProduct h q q)))) F32.negOne F32.one)) F32.two := hrep
  rw [hrep']
  have hKle := dotDepth_le h p.length
  -- the three dot products
  have bpp := dotProduct_round h p p rfl hpp
  have bqq := dotProduct_round h q q rfl hqq
  have bpq := dotProduct_round h p q hl hpq
  rw [(self_terms p).1, (self_terms p).2] at bpp
  rw [(self_terms q).1, (self_terms q).2, ← hl] at bqq
  have hCS := cauchy_schwarz_f32 p q
  have hDT := abs_sum_le (List.zipWith (fun a b => toReal a * toReal b) p q)
  have hA : 0 ≤ (p.map (fun a => toReal a * toReal a)).sum :=
    List.sum_nonneg (by intro z hz; obtain ⟨w, _, rfl⟩ := List.mem_map.mp hz; exact mul_self_nonneg _)
  have hB : 0 ≤ (q.map (fun b => toReal b * toReal b)).sum :=
    List.sum_nonneg (by intro z hz; obtain ⟨w, _, rfl⟩ := List.mem_map.mp hz; exact mul_self_nonneg _)
  -- the norms
  obtain ⟨fpn, fqn, hNmul⟩ := chk_mul_sound _ _ hmul
  obtain ⟨fpp, pp0⟩ := finite_of_sqrt fpn
  obtain ⟨fqq, qq0⟩ := finite_of_sqrt fqn
  obtain ⟨-, δ1, h1, epn⟩ := sqrt_std _ fpp _ (Real.sqrt_nonneg _) (Real.mul_self_sqrt pp0) (sqrt_normalOrZero fpp pp0)
  obtain ⟨-, δ2, h2, eqn⟩ := sqrt_std _ fqq _ (Real.sqrt_nonneg _) (Real.mul_self_sqrt qq0) (sqrt_normalOrZero fqq qq0)
  obtain ⟨fpnqn, δ3, h3, epq⟩ := mul_std _ _ fpn fqn hNmul
  have hpos : 0 < toReal (F32.mul (F32.sqrt (dotProduct h p p)) (F32.sqrt (dotProduct h q q))) := by
    have hlt : F32.lt F32.epsilon (F32.mul (F32.sqrt (dotProduct h p p)) (F32.sqrt (dotProduct h q q))) = true := hgt
    have := (lt_iff_toReal _ _ (finite_of_unpack unpack_epsilon) fpnqn).1 hlt
    have he : 0 ≤ toReal F32.epsilon := by
      rw [toReal_of_unpack unpack_epsilon]
      simp only [sgn, Bool.false_eq_true, if_false, one_mul]
      positivity
    linarith
  -- the quotient, the clamp, `1 − ·`, `/ 2`
  obtain ⟨fpq, -, hne, hNdiv⟩ := divRange_sound hdiv
  obtain ⟨fct, δ4, h4, ect⟩ := div_std _ _ fpq fpnqn hne hNdiv
  obtain ⟨fc', ec'⟩ := clamp_real fct
  obtain ⟨f1, r1⟩ := toReal_one
  obtain ⟨f2, r2⟩ := toReal_two
  obtain ⟨m1, m2⟩ := clamp_mem (toReal (F32.div (dotProduct h p q)
    (F32.mul (F32.sqrt (dotProduct h p p)) (F32.sqrt (dotProduct h q q)))))
  rw [← ec'] at m1 m2
  have hgap := one_sub_range fc' m2
  have hu0 := u_nonneg
  have hue := u_eq
  have hNsub : NormalOrZero (toReal F32.one - toReal (F32.clamp (F32.div (dotProduct h p q)
      (F32.mul (F32.sqrt (dotProduct h p p)) (F32.sqrt (dotProduct h q q)))) F32.negOne F32.one)) := by
    rw [r1]
    rcases hgap with hz | hg
    · left; exact hz
    · right
      apply normalRange_of_bounds <;> rw [abs_of_nonneg (by linarith)] <;> linarith
  obtain ⟨fs, δ5, h5, es⟩ := sub_std _ _ f1 fc' hNsub
  rw [r1] at es
  obtain ⟨d5l, d5u⟩ := abs_le.mp h5
  have hNhalf : NormalOrZero (toReal (F32.sub F32.one (F32.clamp (F32.div (dotProduct h p q)
      (F32.mul (F32.sqrt (dotProduct h p p)) (F32.sqrt (dotProduct h q q)))) F32.negOne F32.one)) / toReal F32.two) := by
    rw [es, r2]
    rcases hgap with hz | hg
    · left; rw [hz]; simp
    · right
      have hd : (1 : ℝ) / 2 ≤ 1 + δ5 := by rw [hue] at d5l; linarith
      have hd' : 1 + δ5 ≤ 2 := by rw [hue] at d5u; linarith
      have k1 : (1 : ℝ) / 16777216 * (1 / 2) ≤ (1 - toReal (F32.clamp (F32.div (dotProduct h p q)
          (F32.mul (F32.sqrt (dotProduct h p p)) (F32.sqrt (dotProduct h q q)))) F32.negOne F32.one)) * (1 + δ5) :=
        mul_le_mul hg hd (by norm_num) (by linarith)
      have k2 : (1 - toReal (F32.clamp (F32.div (dotProduct h p q)
          (F32.mul (F32.sqrt (dotProduct h p p)) (F32.sqrt (dotProduct h q q)))) F32.negOne F32.one)) * (1 + δ5) ≤ 2 * 2 :=
        mul_le_mul (by linarith) hd' (by linarith) (by norm_num)
      apply normalRange_of_bounds <;> rw [abs_of_nonneg (by linarith)] <;> linarith
  obtain ⟨fr, δ6, h6, er⟩ := div_std _ _ fs f2 (by rw [r2]; norm_num) hNhalf
  rw [r2] at er
  -- the size of `a = (1+u)^K − 1`
  have hKr : (dotDepth h p.length : ℝ) ≤ 65536 := by exact_mod_cast hK
  have hKu : (dotDepth h p.length : ℝ) * u ≤ 1 / 256 := by rw [hue]; linarith
  have hKu0 : 0 ≤ (dotDepth h p.length : ℝ) * u := by positivity
  have ha : (1 + u) ^ (dotDepth h p.length) - 1 ≤ 256 / 255 * ((dotDepth h p.length : ℝ) * u) :=
    pow_sub_one_le hu0 _ (by linarith) (by linarith)
  have ha0 : 0 ≤ (1 + u) ^ (dotDepth h p.length) - 1 := by
    have := one_le_pow₀ (n := dotDepth h p.length) (show (1 : ℝ) ≤ 1 + u by linarith)
    linarith
  have core := cosine_core hA hB ha0 (by linarith) hu0 (by rw [hue]; norm_num) hDT hCS bpp bqq bpq
    h1 h2 h3 h4 h5 h6 epn eqn epq hpos ect ec' es er
  exact ⟨core.1, fr, by linarith [core.2], hKle⟩

/-- `C11_round_f32_cosine` under the single Boolean flag, with the bound in terms of the dimension:
`|reported − (1 − cos)/2| ≤ 1.05·(n + 5)·u`. -/
theorem C11_round_f32_cosine_chk (h : Host) (p q : List Nat) (hc : cosineChk h p q = true) :
    0 < √((p.map (fun a => toReal a * toReal a)).sum) * √((q.map (fun b => toReal b * toReal b)).sum) ∧
    Finite (Metric.builtDistance .cosine h (Metric.newHeader .cosine h p) p (Metric.newHeader .cosine h q) q) ∧
    |toReal (Metric.builtDistance .cosine h (Metric.newHeader .cosine h p) p (Metric.newHeader .cosine h q) q)
        - (1 - (List.zipWith (fun a b => toReal a * toReal b) p q).sum
              / (√((p.map (fun a => toReal a * toReal a)).sum) * √((q.map (fun b => toReal b * toReal b)).sum))) / 2|
      ≤ 21 / 20 * ((p.length : ℝ) + 5) * u := by
  unfold cosineChk at hc
  simp only [Bool.and_eq_true, decide_eq_true_eq] at hc
  obtain ⟨⟨⟨⟨⟨⟨⟨hl, hK⟩, hpp⟩, hqq⟩, hpq⟩, hmul⟩, hgt⟩, hdiv⟩ := hc
  obtain ⟨c1, cf, c2, c3⟩ := C11_round_f32_cosine h p q hl hK hpp hqq hpq hmul hgt hdiv
  refine ⟨c1, cf, le_trans c2 ?_⟩
  have : (dotDepth h p.length : ℝ) ≤ (p.length : ℝ) + 1 := by exact_mod_cast c3
  have hu0 := u_nonneg
  have : 21 / 20 * ((dotDepth h p.length : ℝ) + 4) ≤ 21 / 20 * ((p.length : ℝ) + 5) := by linarith
  exact mul_le_mul_of_nonneg_right this hu0

/-- **Zero norm.**  If every component of `p`, or every component of `q`, is `+0.0` or `-0.0`, the reported
cosine distance is exactly `+0.0` (bits `0`): the computed norm is `±0`, its product with the other norm
is `±0` or NaN, which is not above `f32::EPSILON`.  (Any lengths, any other vector — NaN and infinite
components included.) -/
theorem C11_cosine_zero_norm (h : Host) (p q : List Nat) (dims : Nat)
    (hz : (∀ x ∈ p, x = F32.zero ∨ x = F32.negZero) ∨ (∀ x ∈ q, x = F32.zero ∨ x = F32.negZero)) :
    Metric.builtDistance .cosine h (Metric.newHeader .cosine h p) p (Metric.newHeader .cosine h q) q = F32.zero ∧
    Metric.normalizedDistance .cosine (Metric.builtDistance .cosine h (Metric.newHeader .cosine h p) p
      (Metric.newHeader .cosine h q) q) dims = F32.zero := by
  have hg : ¬ F32.gt (F32.mul (F32.sqrt (dotProduct h p p)) (F32.sqrt (dotProduct h q q))) F32.epsilon = true := by
    rcases hz with hp | hq
    · rw [gt_mul_zero_left (isz_sqrt (dotProduct_isz h p p hp hp))]; simp
    · rw [gt_mul_zero_right (isz_sqrt (dotProduct_isz h q q hq hq))]; simp
  have e := C11_cosine_reported_eq h p q dims
  rw [if_neg hg] at e
  exact ⟨e, e⟩

/-- **Range, in real numbers**: whenever the cosine distance between two stored leaves (any headers) is
not NaN it is finite and `0 ≤ value ≤ 1`. -/
theorem C11_cosine_range_real (h : Host) (ph pv qh qv : List Nat)
    (hn : F32.isNaN (Metric.builtDistance .cosine h ph pv qh qv) = false) :
    Finite (Metric.builtDistance .cosine h ph pv qh qv) ∧
    0 ≤ toReal (Metric.builtDistance .cosine h ph pv qh qv) ∧
    toReal (Metric.builtDistance .cosine h ph pv qh qv) ≤ 1 := by
  have key : F32.le F32.zero (Metric.builtDistance .cosine h ph pv qh qv) = true ∧
      F32.le (Metric.builtDistance .cosine h ph pv qh qv) F32.one = true := by
    by_cases hq : F32.isNaN (F32.div (dotProduct h pv qv)
        (F32.mul (Metric.hdrNorm .cosine ph) (Metric.hdrNorm .cosine qh))) = true
    · by_cases hg : F32.gt (F32.mul (Metric.hdrNorm .cosine ph) (Metric.hdrNorm .cosine qh)) F32.epsilon = true
      · rw [C11_cosine_nan h ph pv qh qv hg hq] at hn
        exact absurd hn (by decide)
      · have e : Metric.builtDistance .cosine h ph pv qh qv = F32.zero := by
          simp only [Metric.builtDistance]
          rw [if_neg hg]
        rw [e]; decide
    · exact C11_cosine_range h ph pv qh qv (by simpa using hq)
  have hf := finite_of_le_le key.1 key.2
  have a := le_toReal key.1 finite_zero hf
  have b := le_toReal key.2 hf toReal_one.1
  rw [show toReal F32.zero = 0 from toReal_zero] at a
  rw [toReal_one.2] at b
  exact ⟨hf, a, b⟩

/-! ## non-vacuity -/
section examples

/-- `⟨1+2^-23, 2⟩`, `⟨3, 0.3f⟩` (scalar path): the flag of the squared distance holds, the reported value
is `0x4027fe0c ≈ 2.62488` (exact: `√6.89…`) -/
example : (euclideanDistanceG f32Chk {} (chkIn [0x3f800001, 0x40000000]) (chkIn [0x40400000, 0x3e99999a])).2 = true := by
  decide +kernel
example : Metric.normalizedDistance .euclidean
    (Metric.builtDistance .euclidean {} [] [0x3f800001, 0x40000000] [] [0x40400000, 0x3e99999a]) 2 = 0x4027fe0c := by
  decide +kernel

example :
    |toReal (F32.sqrt (euclideanDistance {} [0x3f800001, 0x40000000] [0x40400000, 0x3e99999a]))
        - √((List.zipWith (fun a b => (toReal a - toReal b) * (toReal a - toReal b))
            [0x3f800001, 0x40000000] [0x40400000, 0x3e99999a]).sum)|
      ≤ ((1 + u) ^ ((5 + 1) / 2 + 2) - 1)
        * √((List.zipWith (fun a b => (toReal a - toReal b) * (toReal a - toReal b))
            [0x3f800001, 0x40000000] [0x40400000, 0x3e99999a]).sum) :=
  (C11_round_f32_reported_euclidean {} [] [] [0x3f800001, 0x40000000] [0x40400000, 0x3e99999a] 2 rfl
    (by decide +kernel)).2.2.2.2.1 (by decide)

/-- the 37-component vectors of `C11Real.lean` (AVX path, depth `15`, so `K' = 10`; and the SSE path) -/
example : Finite (F32.sqrt (euclideanDistance {} exX exY)) ∧ euclidDepth {} 37 = 15 ∧
    (euclideanDistanceG f32Chk {} (chkIn exX) (chkIn exY)).2 = true ∧
    Finite (F32.sqrt (euclideanDistance { avx := false } exX exY)) ∧
    (euclideanDistanceG f32Chk { avx := false } (chkIn exX) (chkIn exY)).2 = true := by decide +kernel

/-- cosine: `⟨1+2^-23, 2, -1⟩`, `⟨1+2^-23, 3, 7⟩` (scalar path; the dot product cancels to `+0`) -/
example : cosineChk {} [0x3f800001, 0x40000000, 0xbf800000] [0x3f800001, 0x40400000, 0x40e00000] = true := by
  decide +kernel

/-- … and `C11_round_f32_cosine` itself with its hypotheses spelled out (`K = dotDepth {} 3 = 4`) -/
example :
    |toReal (Metric.builtDistance .cosine {} (Metric.newHeader .cosine {} [0x3f800001, 0x40000000, 0xbf800000])
          [0x3f800001, 0x40000000, 0xbf800000] (Metric.newHeader .cosine {} [0x3f800001, 0x40400000, 0x40e00000])
          [0x3f800001, 0x40400000, 0x40e00000])
        - (1 - (List.zipWith (fun a b => toReal a * toReal b) [0x3f800001, 0x40000000, 0xbf800000]
                  [0x3f800001, 0x40400000, 0x40e00000]).sum
              / (√(([0x3f800001, 0x40000000, 0xbf800000].map (fun a => toReal a * toReal a)).sum)
                  * √(([0x3f800001, 0x40400000, 0x40e00000].map (fun b => toReal b * toReal b)).sum))) / 2|
      ≤ 21 / 20 * ((dotDepth {} [0x3f800001, 0x40000000, 0xbf800000].length : ℝ) + 4) * u :=
  (C11_round_f32_cosine {} [0x3f800001, 0x40000000, 0xbf800000] [0x3f800001, 0x40400000, 0x40e00000] rfl
    (by decide) (by decide +kernel) (by decide +kernel) (by decide +kernel) (by decide +kernel)
    (by decide +kernel) (by decide +kernel)).2.2.1

/-- cosine of the 37-component vectors: all flags hold on the AVX, SSE and (for a 15-component prefix)
scalar paths; the reported values differ by one unit in the last place between AVX and SSE -/
example : cosineChk {} exX exY = true ∧ cosineChk { avx := false } exX exY = true ∧
    cosineChk {} (exX.take 15) (exY.take 15) = true := by decide +kernel

example :
    |toReal (Metric.builtDistance .cosine {} (Metric.newHeader .cosine {} exX) exX (Metric.newHeader .cosine {} exY) exY)
        - (1 - (List.zipWith (fun a b => toReal a * toReal b) exX exY).sum
              / (√((exX.map (fun a => toReal a * toReal a)).sum) * √((exY.map (fun b => toReal b * toReal b)).sum))) / 2|
      ≤ 21 / 20 * ((exX.length : ℝ) + 5) * u :=
  (C11_round_f32_cosine_chk {} exX exY (by decide +kernel)).2.2

/-- orthogonal unit vectors: reported `0.5` exactly; the flags hold -/
example : cosineChk {} [F32.one, F32.zero] [F32.zero, F32.one] = true ∧
    Metric.builtDistance .cosine {} (Metric.newHeader .cosine {} [F32.one, F32.zero]) [F32.one, F32.zero]
      (Metric.newHeader .cosine {} [F32.zero, F32.one]) [F32.zero, F32.one] = 0x3f000000 := by decide +kernel

/-- the flags are lowered: by a zero vector (norm product not above `EPSILON`), by an overflow in `p·p`
(`2^127·2^127`), by a quotient that underflows (`p = ⟨1.4·2^63, 2^-63⟩`, `q = ⟨0, 1⟩`: the three dot
products and the norm product are fine, `p·q / (‖p‖‖q‖) = 2^-126/1.4` is subnormal — only `divRange` fails) -/
example : cosineChk {} [F32.zero, F32.negZero] [F32.one, F32.two] = false := by decide +kernel
example : cosineChk {} [0x7f000000] [F32.one] = false := by decide +kernel
example : cosineChk {} [0x5f333333, 0x20000000] [F32.zero, F32.one] = false ∧
    divRange (dotProduct {} [0x5f333333, 0x20000000] [F32.zero, F32.one])
      (F32.mul (F32.sqrt (dotProduct {} [0x5f333333, 0x20000000] [0x5f333333, 0x20000000]))
        (F32.sqrt (dotProduct {} [F32.zero, F32.one] [F32.zero, F32.one]))) = false ∧
    F32.div (dotProduct {} [0x5f333333, 0x20000000] [F32.zero, F32.one])
      (F32.mul (F32.sqrt (dotProduct {} [0x5f333333, 0x20000000] [0x5f333333, 0x20000000]))
        (F32.sqrt (dotProduct {} [F32.zero, F32.one] [F32.zero, F32.one]))) = 0x005b6db7 := by decide +kernel

/-- `C11_cosine_zero_norm`: `p = ⟨+0, -0, +0⟩` against a vector with an infinite and a NaN component -/
example : Metric.builtDistance .cosine {} (Metric.newHeader .cosine {} [F32.zero, F32.negZero, F32.zero])
      [F32.zero, F32.negZero, F32.zero] (Metric.newHeader .cosine {} [F32.inf, 0x7fc00000, F32.one])
      [F32.inf, 0x7fc00000, F32.one] = F32.zero :=
  (C11_cosine_zero_norm {} _ _ 3 (Or.inl (by decide))).1

/-- the hypothesis of `C11_cosine_range_real` holds on a concrete pair -/
example : F32.isNaN (Metric.builtDistance .cosine {} (Metric.newHeader .cosine {} [F32.one, F32.two])
    [F32.one, F32.two] (Metric.newHeader .cosine {} [F32.two, F32.one]) [F32.two, F32.one]) = false := by
  decide +kernel

/-- … and its hypothesis cannot be dropped: an infinite component makes the reported value NaN
(`inf / inf`); a NaN component, by contrast, makes the norm NaN, `NaN > EPSILON` is false, and `+0.0` is
reported -/
example : F32.isNaN (Metric.builtDistance .cosine {} (Metric.newHeader .cosine {} [F32.inf])
    [F32.inf] (Metric.newHeader .cosine {} [F32.one]) [F32.one]) = true := by
  decide +kernel
example : Metric.builtDistance .cosine {} (Metric.newHeader .cosine {} [0x7fc00000, F32.one])
    [0x7fc00000, F32.one] (Metric.newHeader .cosine {} [F32.two, F32.one]) [F32.two, F32.one] = F32.zero := by
  decide +kernel

end examples

end Arroy.C11
