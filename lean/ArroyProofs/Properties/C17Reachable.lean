import ArroyProofs.UpgradeReach
/-! # C17 over reachable states — the upgraded database is a valid, searchable index

`C17_up_down_eq` is about every `WellFormedDB`; the C01/C02 theorems are about the stores `C01.run ops` of
well-formed histories. Here the two are composed:

* `C17_reachable_entries`: what every reachable store holds under the keys the index invariant does not describe
  (updated marks, keys of the metadata kind), and that there is no other kind of key;
* `C17_reachable_wellFormed(_iff)`: a reachable store is a `WellFormedDB` exactly when all its metadata records
  carry the cosine name — in particular when every build of the history was made by a cosine writer;
* `C17_upgrade_reachable`: the old layout of the store reached by a history ending in a successful cosine build,
  run through `cosine_from_0_4_to_0_5` and `from_0_5_to_0_6`, is a database that opens, holds a valid forest
  (`Forest`, `ForestWith`, `Check.forestValid = []`, `IndexInv`), answers unlimited-budget queries exactly,
  treats every other index as the original does, and has a version record exactly where there is metadata.

(Helper lemmas: `ArroyProofs/UpgradeReach.lean`.) -/
namespace Arroy.C17
open Arroy Generated Store Upgrade C01 Reader

/-! ## 1. reachable stores are well-formed current-layout databases -/

/-- the build was made by a cosine writer (builds are the only operations that write a metadata record; the
    metric of the writers that add, delete, clear or change the distance is irrelevant) -/
def cosineBuild : Op → Prop
  | .build c _ _ _ => c.metric = .cosine
  | _ => True

instance (op : Op) : Decidable (cosineBuild op) := by
  cases op <;> unfold cosineBuild <;> infer_instance

/-- **the entries of a reachable store**: every key has one of the four kinds; an updated mark holds the unit
    value; a key of the metadata kind is the metadata record (id 0, a metadata value) or the version record
    (id 1, a version value). (Item keys hold leaves and tree keys hold the nodes of a forest: `C01_invariant`.) -/
theorem C17_reachable_entries (ops : List Op) (hops : ∀ op ∈ ops, op.wf) (k : Key) (v : Val)
    (hg : Store.get (run ops) k = some v) :
    k.mode = modeItem ∨ k.mode = modeTree ∨ (k.mode = modeUpdated ∧ v = .unit) ∨
    (k = Key.mkMetadata k.index ∧ ∃ nm d i r, v = .metadata nm d i r) ∨
    (k = Key.mkVersion k.index ∧ ∃ a b c, v = .version a b c) := by
  have := miscG_run (fun _ => True) ops hops (fun op _ => by cases op <;> trivial) k v hg
  rcases this with h | h | h | ⟨h, nm, d, i, r, hv, _⟩ | h
  · exact Or.inl h
  · exact Or.inr (Or.inl h)
  · exact Or.inr (Or.inr (Or.inl h))
  · exact Or.inr (Or.inr (Or.inr (Or.inl ⟨h, nm, d, i, r, hv⟩)))
  · exact Or.inr (Or.inr (Or.inr (Or.inr h)))

/-- **a reachable store is a well-formed cosine database iff its metadata records are named `cosine`** -/
theorem C17_reachable_wellFormed_iff (ops : List Op) (hops : ∀ op ∈ ops, op.wf) :
    WellFormedDB (run ops) ↔
      ∀ i nm d it r, Store.get (run ops) (Key.mkMetadata i) = some (.metadata nm d it r) → nm = cosineName := by
  constructor
  · intro hw i nm d it r hg
    rcases entryOk_meta (hw.get hg) rfl with ⟨_, d', i', r', e⟩ | ⟨e, _⟩
    · cases e; rfl
    · exact absurd e (show ¬ metadataKeyItem = versionKeyItem by decide)
  · intro hnm
    apply wellFormed_of_inv _ (C01_invariant ops hops)
    intro k v hg
    rcases C17_reachable_entries ops hops k v hg with h | h | h | ⟨h, nm, d, i, r, hv⟩ | h
    · exact Or.inl h
    · exact Or.inr (Or.inl h)
    · exact Or.inr (Or.inr (Or.inl h))
    · refine Or.inr (Or.inr (Or.inr (Or.inl ⟨h, nm, d, i, r, hv, ?_⟩)))
      rw [h, hv] at hg
      exact hnm _ _ _ _ _ hg
    · exact Or.inr (Or.inr (Or.inr (Or.inr h)))

/-- **every store reached by a well-formed history whose builds are all made by cosine writers is a
    `WellFormedDB`**: `C17_up_down_eq` and the other C17 theorems apply to it -/
theorem C17_reachable_wellFormed (ops : List Op) (hops : ∀ op ∈ ops, op.wf)
    (hcos : ∀ op ∈ ops, cosineBuild op) : WellFormedDB (run ops) := by
  apply wellFormed_of_inv _ (C01_invariant ops hops)
  apply miscG_run _ ops hops
  intro op hop
  have := hcos op hop
  cases op with
  | build c o fuel env =>
    show c.metric.nameBytes = cosineName
    have hc : c.metric = .cosine := this
    rw [hc]; rfl
  | _ => trivial

/-! ## 2. the upgraded database of a reachable built cosine index -/

theorem exactOver_congr (c : Cfg) {s s' : Store}
    (h : ∀ id, Store.get s' (c.itemKey id) = Store.get s (c.itemKey id)) (dims : Nat) (qh qv : List Nat)
    (count : Nat) (ids : List Nat) : exactOver c s' dims qh qv count ids = exactOver c s dims qh qv count ids := by
  have : ∀ id, scoreOf c s' qh qv id = scoreOf c s qh qv id := fun id => by simp only [scoreOf, h]
  simp only [exactOver, sortedScored, scored, this]

/-- **the upgrade path on a reachable built cosine index.**
    `s`: the store after a well-formed history with cosine builds, ending in a successful build of the cosine
    index `c`; `down oldName s`: its v0.4 layout (any old metric name); `s05`: what `cosine_from_0_4_to_0_5` makes
    of it; `s06`: `s05` stamped in place by `from_0_5_to_0_6`. Then
    1. the first step succeeds and `s05` is `s` without its version records (literally);
    2. `s06` agrees with `s` under every key that is not a version record, is sorted and well-formed;
    3. `Reader::open` succeeds on `s06` with exactly the stored item ids (those of `s06`, of `s`, of the state
       before the build);
    4. `s06` holds a valid forest over them: `Forest`, the reader-side `ForestWith` on the trees the checker reads,
       sorted buckets, `Check.forestValid = []`, and the index invariant;
    5. an unlimited-budget query on `s06` is exact, and its answer is the exact answer on `s`;
    6. every index (any configuration `c'`) opens / needs a build in `s06` exactly as in `s`: one with pending marks
       needs a build and is refused with `NeedBuild`, one without marks and with a metadata record opens with what
       the record says, one without metadata is refused with `MissingMetadata`;
    7. `s06` has a version record — the crate version — exactly for the indexes with a metadata record. -/
theorem C17_upgrade_reachable (ops : List Op) (hops : ∀ op ∈ ops, op.wf) (hcos : ∀ op ∈ ops, cosineBuild op)
    (c : Cfg) (hc : c.metric = .cosine) (o : BuildOpts) (fuel : Nat) (env st' : BState)
    (hwf : (Op.build c o fuel env).wf)
    (h : Build.build c o fuel { env with store := run ops } = .ok ((), st'))
    (oldName : Bytes) (s : Store) (hs : s = run (ops ++ [.build c o fuel env])) :
    ∃ s05 s06 roots,
      -- 1
      up04to05 (down oldName s) = .ok s05 ∧
      s05 = s.filter (fun kv => !(kv.1.mode == versionKeyMode && kv.1.item == versionKeyItem)) ∧
      s06 = stamp05to06 s05 s05 ∧
      -- 2
      (∀ k : Key, ¬ (k.mode = versionKeyMode ∧ k.item = versionKeyItem) → Store.get s06 k = Store.get s k) ∧
      Store.Sorted s06 ∧ Store.WF s06 ∧
      -- 3
      Reader.open c s06 = .ok ⟨roots, c.dims, (run ops).keysOf c.index modeItem⟩ ∧
      s06.keysOf c.index modeItem = (run ops).keysOf c.index modeItem ∧
      s.keysOf c.index modeItem = (run ops).keysOf c.index modeItem ∧
      -- 4
      (∃ ts, Forest c s06 roots ((run ops).keysOf c.index modeItem) ts) ∧
      ForestWith c s06 ⟨roots, c.dims, (run ops).keysOf c.index modeItem⟩ (Check.trees c s06) ∧
      DescSorted c s06 ∧ Check.forestValid c s06 = [] ∧ IndexInv c s06 ∧
      -- 5
      (∀ (qh qv : List Nat) (q : QueryOpts), q.candidates = none → q.searchK = some usizeMax →
        q.oversampling ≠ some 0 → roots.length * ((run ops).keysOf c.index modeItem).length ≤ usizeMax →
        nnsByLeaf c s06 ⟨roots, c.dims, (run ops).keysOf c.index modeItem⟩ qh qv q =
          .ok (exactOver c s06 c.dims qh qv q.count ((run ops).keysOf c.index modeItem)) ∧
        exactOver c s06 c.dims qh qv q.count ((run ops).keysOf c.index modeItem) =
          exactOver c s c.dims qh qv q.count ((run ops).keysOf c.index modeItem)) ∧
      -- 6
      (∀ c' : Cfg, c'.index < 65536 →
        Reader.open c' s06 = Reader.open c' s ∧ Writer.needBuild c' s06 = Writer.needBuild c' s ∧
        (C06.HasMark c' s → Writer.needBuild c' s06 = true ∧
          (c'.metric = .cosine → (Store.get s c'.metaKey).isSome = true →
            Reader.open c' s06 = .error (.needBuild c'.index))) ∧
        (¬ C06.HasMark c' s → ∀ nm dims items roots',
          Store.get s c'.metaKey = some (.metadata nm dims items roots') → c'.metric = .cosine →
          Writer.needBuild c' s06 = false ∧ Reader.open c' s06 = .ok ⟨roots', dims, items⟩) ∧
        (Store.get s c'.metaKey = none →
          Writer.needBuild c' s06 = true ∧ Reader.open c' s06 = .error (.missingMetadata c'.index))) ∧
      -- 7
      (∀ i, Store.get s06 (Key.mkVersion i) =
        if (Store.get s (Key.mkMetadata i)).isSome = true
        then some (.version crateVersion.1 crateVersion.2.1 crateVersion.2.2) else none) := by
  -- the history including the last build
  have hops' : ∀ op ∈ ops ++ [Op.build c o fuel env], op.wf := by
    intro op hop
    rcases List.mem_append.1 hop with hop | hop
    · exact hops op hop
    · rw [List.mem_singleton.1 hop]; exact hwf
  have hcos' : ∀ op ∈ ops ++ [Op.build c o fuel env], cosineBuild op := by
    intro op hop
    rcases List.mem_append.1 hop with hop | hop
    · exact hcos op hop
    · rw [List.mem_singleton.1 hop]; exact hc
  have hi : c.index < 65536 := hwf.1
  have hwfdb : WellFormedDB s := hs ▸ C17_reachable_wellFormed _ hops' hcos'
  have hinvAll : ∀ c' : Cfg, c'.index < 65536 → IndexInv c' s := fun c' hi' => hs ▸ C01_invariant _ hops' c' hi'
  have hss : Store.Sorted s := hwfdb.sorted
  have hsw : Store.WF s := hwfdb.wf
  -- what C01 says of `s`
  obtain ⟨hrun, roots, ts, hmeta, hforest, hne, hnomarks⟩ := C01_forest ops hops c o fuel env st' hwf h
  rw [← hrun, ← hs] at hmeta hforest hnomarks
  -- the upgraded database
  have hag : AgreeNV s (stamped s) := stamped_agree s
  have hs6 : Store.Sorted (stamped s) := stamped_sorted hss
  have hw6 : Store.WF (stamped s) := stamped_wf hsw
  have hinv6 : IndexInv c (stamped s) := hag.indexInv hs6 hw6 (hinvAll c hi)
  have hmeta6 : Store.get (stamped s) c.metaKey =
      some (.metadata c.metric.nameBytes c.dims ((run ops).keysOf c.index modeItem) roots) := by
    rw [hag _ (fun e => absurd (show metadataKeyItem = versionKeyItem from e.2) (by decide))]; exact hmeta
  have hitem6 : ∀ id, Store.get (stamped s) (c.itemKey id) = Store.get s (c.itemKey id) :=
    fun id => hag _ (fun e => absurd (show modeItem = versionKeyMode from e.1) (by decide))
  have hnomarks6 : ∀ id, Store.get (stamped s) (c.updatedKey id) = none := by
    intro id
    rw [hag _ (fun e => absurd (show modeUpdated = versionKeyMode from e.1) (by decide))]; exact hnomarks id
  have hkeys6 : (stamped s).keysOf c.index modeItem = (run ops).keysOf c.index modeItem :=
    items_eq_keysOf_of_inv hinv6 hi hmeta6 hnomarks6
  have hfw6 := forestWith_trees_of_inv hinv6 hmeta6 hnomarks6
  have hforest6 : Forest c (stamped s) roots ((run ops).keysOf c.index modeItem) ts :=
    hforest.frame (fun i => hag _ (fun e => absurd (show modeTree = versionKeyMode from e.1) (by decide)))
  refine ⟨noVer s, stamped s, roots, C17_up_down_eq oldName s hwfdb, rfl, rfl, hag, hs6, hw6,
    open_of_inv hinv6 hi hmeta6 hnomarks6, hkeys6, items_eq_keysOf_of_inv (hinvAll c hi) hi hmeta hnomarks,
    ⟨ts, hforest6⟩, hfw6, hforest6.descSorted, ?_, hinv6, ?_, ?_, stamped_version s⟩
  · exact C01_checker_sound c (stamped s) _ _ _ roots ts hi hs6 hw6 hmeta6 hforest6 hkeys6.symm
  · intro qh qv q hq hk ho hsz
    exact ⟨C02.C02_exact_usizeMax ⟨_, hfw6⟩ qh qv q hq hk ho hsz, exactOver_congr c hitem6 _ _ _ _ _⟩
  · intro c' hi'
    obtain ⟨e1, e2⟩ := hag.open_eq hss hs6 hsw hw6 c' hi'
    refine ⟨e1, e2, ?_, ?_, ?_⟩
    · intro hmark
      refine ⟨by rw [e2]; exact (C06.C06_needBuild_char c' s hsw hi').2 (Or.inl hmark), ?_⟩
      intro hc' hsome
      rw [e1]
      cases hg : Store.get s c'.metaKey with
      | none => rw [hg] at hsome; cases hsome
      | some v =>
        rcases entryOk_meta (hwfdb.get hg) rfl with ⟨_, d, it, r, rfl⟩ | ⟨e, _⟩
        · have hn : cosineName = c'.metric.nameBytes := by rw [hc']; rfl
          exact (((C06.C06_open_char c' s hsw hi').2 _ d it r hg).2 hn).1.2 hmark
        · exact absurd e (show ¬ metadataKeyItem = versionKeyItem by decide)
    · intro hnomark nm dims items roots' hg hc'
      have hn : nm = c'.metric.nameBytes := by
        rcases entryOk_meta (hwfdb.get hg) rfl with ⟨_, d, it, r, e⟩ | ⟨e, _⟩
        · cases e; rw [hc']; rfl
        · exact absurd e (show ¬ metadataKeyItem = versionKeyItem by decide)
      have hopen := (((C06.C06_open_char c' s hsw hi').2 _ dims items roots' hg).2 hn).2.1 hnomark
      subst hn
      exact ⟨by rw [e2]; exact (C06.C06_needBuild_vs_open c' s hsw hi' dims items roots' hg).2 hopen,
        by rw [e1]; exact hopen⟩
    · intro hnone
      exact ⟨by rw [e2]; exact (C06.C06_needBuild_char c' s hsw hi').2 (Or.inr hnone),
        by rw [e1]; exact (C06.C06_open_char c' s hsw hi').1.2 hnone⟩

/-! ## 3. non-vacuity: a concrete two-index cosine history

Index 0 (cosine, dimension 2, `n_trees = 1`, `split_after = 2`): five items, a build (two splits), one item added,
one deleted, a second build on the main path (re-split of an overflowing bucket, under a cancellation schedule).
Index 3 (cosine): one item, a build through the single-bucket shortcut (which writes a version record), then one
more item — so index 3 has metadata, a version record and a pending mark. -/
namespace Ex
open C01.Ex

def cC : Cfg := { index := 0, metric := .cosine, dims := 2 }
def cD : Cfg := { index := 3, metric := .cosine, dims := 2 }
def opsC : List Op :=
  [.add cC 0 [fm2, 0], .add cC 1 [fm1, 0], .add cC 2 [f1, fm1], .add cC 3 [f2, f1], .add cC 4 [f3, f1],
   .build cC oEx 5 env1,
   .add cD 7 [f1, f2], .build cD oLeaf 0 { store := [] },
   .add cC 5 [f25, f2], .del cC 0, .add cD 8 [f2, f2]]
/-- the store after the last build of index 0 -/
def sC : Store := run (opsC ++ [.build cC oEx 5 env2])

theorem opsC_wf : ∀ op ∈ opsC, op.wf := by decide
theorem opsC_cos : ∀ op ∈ opsC, cosineBuild op := by decide
theorem lastC_wf : (Op.build cC oEx 5 env2).wf := by decide
theorem lastC_ok : isOk (Build.build cC oEx 5 { env2 with store := run opsC }) = true := by decide +kernel

/-- the reached store: both indexes have metadata, index 3 a version record and the mark of item 8 -/
theorem sC_eq : sC =
  [ (⟨0, 0, 0⟩, .metadata cosineName 2 [1, 2, 3, 4, 5] [0]),
    (⟨0, 2, 0⟩, .split ⟨2, 1⟩ ⟨2, 3⟩ [f1, 0]),
    (⟨0, 2, 1⟩, .desc [1]),
    (⟨0, 2, 2⟩, .split ⟨3, 5⟩ ⟨2, 4⟩ [f1, fm15]),
    (⟨0, 2, 3⟩, .split ⟨3, 2⟩ ⟨2, 2⟩ [0, f1]),
    (⟨0, 2, 4⟩, .desc [3, 4]),
    (⟨0, 3, 1⟩, .leaf [1065353216] [fm1, 0]),
    (⟨0, 3, 2⟩, .leaf [1068827891] [f1, fm1]),
    (⟨0, 3, 3⟩, .leaf [1074731965] [f2, f1]),
    (⟨0, 3, 4⟩, .leaf [1078616770] [f3, f1]),
    (⟨0, 3, 5⟩, .leaf [1078781541] [f25, f2]),
    (⟨3, 0, 0⟩, .metadata cosineName 2 [7] [0]),
    (⟨3, 0, 1⟩, .version 0 6 1),
    (⟨3, 1, 8⟩, .unit),
    (⟨3, 2, 0⟩, .desc [7]),
    (⟨3, 3, 7⟩, .leaf [1074731965] [f1, f2]),
    (⟨3, 3, 8⟩, .leaf [1077216499] [f2, f2]) ] := by decide +kernel

/-- `C17_reachable_wellFormed` on it, and the checker agrees -/
example : WellFormedDB sC := C17_reachable_wellFormed _
  (by decide : ∀ op ∈ opsC ++ [.build cC oEx 5 env2], op.wf)
  (by decide : ∀ op ∈ opsC ++ [.build cC oEx 5 env2], cosineBuild op)
example : WellFormedDB sC := by decide +kernel

/-- the old layout: kinds renumbered, one bitmap `[8]` for index 3, the old metric name, no version record -/
example : down [111, 108, 100] sC =
  [ (⟨0, 0, 1⟩, .leaf [1065353216] [fm1, 0]),
    (⟨0, 0, 2⟩, .leaf [1068827891] [f1, fm1]),
    (⟨0, 0, 3⟩, .leaf [1074731965] [f2, f1]),
    (⟨0, 0, 4⟩, .leaf [1078616770] [f3, f1]),
    (⟨0, 0, 5⟩, .leaf [1078781541] [f25, f2]),
    (⟨0, 1, 0⟩, .split ⟨1, 1⟩ ⟨1, 3⟩ [f1, 0]),
    (⟨0, 1, 1⟩, .desc [1]),
    (⟨0, 1, 2⟩, .split ⟨0, 5⟩ ⟨1, 4⟩ [f1, fm15]),
    (⟨0, 1, 3⟩, .split ⟨0, 2⟩ ⟨1, 2⟩ [0, f1]),
    (⟨0, 1, 4⟩, .desc [3, 4]),
    (⟨0, 2, 0⟩, .metadata [111, 108, 100] 2 [1, 2, 3, 4, 5] [0]),
    (⟨3, 0, 7⟩, .leaf [1074731965] [f1, f2]),
    (⟨3, 0, 8⟩, .leaf [1077216499] [f2, f2]),
    (⟨3, 1, 0⟩, .desc [7]),
    (⟨3, 2, 0⟩, .metadata [111, 108, 100] 2 [7] [0]),
    (⟨3, 2, 1⟩, .desc [8]) ] := by decide +kernel

/-- the two upgrade steps, computed: `s05` is `sC` without the version record of index 3; the stamp gives both
    indexes a version record, i.e. `s06` is `sC` plus a version record for index 0 -/
example : up04to05 (down [111, 108, 100] sC) = .ok (sC.erase ⟨3, 0, 1⟩) := by decide +kernel
example : noVer sC = sC.erase ⟨3, 0, 1⟩ := by decide +kernel
example : stamped sC = sC.put ⟨0, 0, 1⟩ (.version 0 6 1) := by decide +kernel

/-- … on which index 0 opens with the five stored items and index 3 demands a build -/
example : Reader.open cC (stamped sC) = .ok ⟨[0], 2, [1, 2, 3, 4, 5]⟩ ∧
    Reader.open cD (stamped sC) = .error (.needBuild 3) ∧ Writer.needBuild cD (stamped sC) = true ∧
    Writer.needBuild cC (stamped sC) = false := by decide +kernel

/-- … and whose trees are those of the state before the downgrade -/
example : Check.trees cC (stamped sC) =
    [.node 0 [f1, 0] (.bucket 1 [1]) (.node 3 [0, f1] (.leaf 2) (.node 2 [f1, fm15] (.leaf 5) (.bucket 4 [3, 4])))] := by
  decide +kernel

-- from here on the concrete history is only used through the facts above
attribute [local irreducible] run

/-- **`C17_upgrade_reachable` applies to it**: its hypotheses are satisfiable on an incremental cosine build next to
    an index with pending marks; the conclusions instantiate to the concrete facts above -/
example : ∃ s05 s06 roots,
    up04to05 (down [111, 108, 100] sC) = .ok s05 ∧ s06 = stamp05to06 s05 s05 ∧
    Reader.open cC s06 = .ok ⟨roots, 2, (run opsC).keysOf 0 modeItem⟩ ∧
    Check.forestValid cC s06 = [] ∧ IndexInv cC s06 ∧
    Reader.open cD s06 = .error (.needBuild 3) ∧
    Store.get s06 (Key.mkVersion 0) = some (.version 0 6 1) ∧ Store.get s06 (Key.mkVersion 3) = some (.version 0 6 1) ∧
    Store.get s06 (Key.mkVersion 1) = none := by
  have hok := lastC_ok
  cases hb : Build.build cC oEx 5 { env2 with store := run opsC } with
  | error e => rw [hb] at hok; cases hok
  | ok r =>
    obtain ⟨u, st'⟩ := r
    obtain ⟨s05, s06, roots, h1, _, h3, _, _, _, h7, _, _, _, _, _, h12, h13, _, h15, h16⟩ :=
      C17_upgrade_reachable opsC opsC_wf opsC_cos cC rfl oEx 5 env2 st' lastC_wf hb [111, 108, 100] sC rfl
    have hmark : C06.HasMark cD sC := ⟨8, by rw [sC_eq]; decide⟩
    have hmeta : (Store.get sC cD.metaKey).isSome = true := by rw [sC_eq]; decide
    refine ⟨s05, s06, roots, h1, h3, h7, h12, h13, ((h15 cD (by decide)).2.2.1 hmark).2 rfl hmeta, ?_, ?_, ?_⟩
    · rw [h16 0, sC_eq]; decide
    · rw [h16 3, sC_eq]; decide
    · rw [h16 1, sC_eq]; decide

/-! ### the side condition of `C17_reachable_wellFormed` cannot be dropped

The Euclidean history of `C01Examples.lean` reaches a store that is not a `WellFormedDB` (its metadata says
`euclidean`), and on which `up ∘ down` is **not** the identity: `cosine_from_0_4_to_0_5` renames the metric. -/
example : (∀ op ∈ ops1, op.wf) ∧ ¬ (∀ op ∈ ops1, cosineBuild op) := by decide

example : ¬ WellFormedDB (C01.run ops1) ∧
    up04to05 (down [111, 108, 100] (C01.run ops1)) ≠ .ok (noVer (C01.run ops1)) ∧
    (∃ s', up04to05 (down [111, 108, 100] (C01.run ops1)) = .ok s' ∧
      Reader.open cEx s' = .error (.unmatchingDistance cosineName Metric.euclidean.nameBytes)) := by
  refine ⟨by decide +kernel, by decide +kernel, ?_⟩
  have key : (up04to05 (down [111, 108, 100] (C01.run ops1))).toOption.map (Reader.open cEx) =
      some (.error (.unmatchingDistance cosineName Metric.euclidean.nameBytes)) := by decide +kernel
  cases hu : up04to05 (down [111, 108, 100] (C01.run ops1)) with
  | error e => rw [hu] at key; cases key
  | ok s' =>
    rw [hu] at key
    exact ⟨s', rfl, Option.some.inj key⟩

end Ex

end Arroy.C17
