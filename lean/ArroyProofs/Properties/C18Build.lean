import ArroyProofs.Properties.Reachable
import ArroyProofs.Properties.C18
import ArroyProofs.Properties.C03Bq
/-! # C18, end to end: the metric change inside the history grammar

`C01.Op` has the constructor `prepare c m'` (`Writer::prepare_changing_distance` on the index opened as `c`,
towards the metric `m'`; a failed call is a no-op like every failed operation), so every history theorem
(`C01_invariant`, `C01_forest`, `C01_reader_reachable`, `C02_exact_reachable`, `C03_*_reachable`, C08/C09 …)
quantifies over histories that contain metric changes. Here they are instantiated with
`ops ++ [.prepare c m'] ++ more ++ [.build { c with metric := m' } …]`:

* `C18_prepare_succeeds_reachable`: in every reachable state the call returns `.ok` (the `unreachable!` of the
  real code — a non-leaf under an item key — is never hit);
* `C18_needs_build_after_change`: right after a change to another metric the index demands a build and no
  reader opens, whatever the index held (also when it was empty or never built);
* `C18_build_after_change_reachable`: after the change, any further well-formed operations (on any index) and a
  successful build under the new metric, the reader of the new metric opens with exactly the stored item ids,
  the forest is valid, unlimited-budget search is exact under the new metric, every query succeeds, the old
  metric is refused with `unmatchingDistance`, and the change itself kept the item ids of the index and every
  key of every other index. -/
namespace Arroy.C18
open Arroy Generated Reader C01

/-- a successful metric change is a step of the grammar -/
theorem run_prepare (ops : List Op) (c : Cfg) (m' : Metric) (s1 : Store)
    (hp : Writer.prepareChangingDistance c m' (run ops) = .ok s1) : run (ops ++ [.prepare c m']) = s1 := by
  rw [run_append]
  simp only [List.foldl_cons, List.foldl_nil, step, hp]

theorem run_prepare_more (ops : List Op) (c : Cfg) (m' : Metric) (s1 : Store)
    (hp : Writer.prepareChangingDistance c m' (run ops) = .ok s1) (more : List Op) :
    run (ops ++ [.prepare c m'] ++ more) = more.foldl step s1 := by
  rw [run_append, run_prepare ops c m' s1 hp]

theorem wf_prepare_more {ops more : List Op} {c : Cfg} {m' : Metric} (hops : ∀ op ∈ ops, op.wf)
    (hi : c.index < 65536) (hmore : ∀ op ∈ more, op.wf) : ∀ op ∈ ops ++ [.prepare c m'] ++ more, op.wf := by
  intro op hop
  rcases List.mem_append.1 hop with hop | hop
  · rcases List.mem_append.1 hop with hop | hop
    · exact hops op hop
    · rw [List.mem_singleton.1 hop]; exact hi
  · exact hmore op hop

/-- **the call never fails on a reachable state**: after any history, `prepare_changing_distance` on any index,
    towards any metric, returns `.ok`, and its result is the next state of the grammar -/
theorem C18_prepare_succeeds_reachable (ops : List Op) (hops : ∀ op ∈ ops, op.wf) (c : Cfg) (hi : c.index < 65536)
    (m' : Metric) :
    ∃ s1, Writer.prepareChangingDistance c m' (run ops) = .ok s1 ∧ run (ops ++ [.prepare c m']) = s1 := by
  have hinv := C01_invariant ops hops c hi
  by_cases hne : m' = c.metric
  · subst hne
    exact ⟨run ops, C18_same c _, run_prepare ops c _ _ (C18_same c _)⟩
  · obtain ⟨s1, hp, _⟩ := C18_change c m' (run ops) hne hinv.1.2.1 hinv.1.1 hi hinv.1.2.2.1
    exact ⟨s1, hp, run_prepare ops c m' s1 hp⟩

/-- what the change keeps: the item ids of the index, and every key of every other index -/
theorem C18_change_keeps_reachable (ops : List Op) (hops : ∀ op ∈ ops, op.wf) (c : Cfg) (hi : c.index < 65536)
    (m' : Metric) (s1 : Store) (hp : Writer.prepareChangingDistance c m' (run ops) = .ok s1) :
    s1.keysOf c.index modeItem = (run ops).keysOf c.index modeItem ∧
    s1.keysOf c.index modeUpdated = (run ops).keysOf c.index modeUpdated ∧
    (∀ k : Key, k.index ≠ c.index → Store.get s1 k = Store.get (run ops) k) ∧
    (∀ c2 : Cfg, c2.index < 65536 → IndexInv c2 s1) := by
  have hinv := C01_invariant ops hops c hi
  have hs1 : run (ops ++ [.prepare c m']) = s1 := run_prepare ops c m' s1 hp
  have hinv1 : ∀ c2 : Cfg, c2.index < 65536 → IndexInv c2 s1 := fun c2 h2 =>
    hs1 ▸ C01_invariant (ops ++ [.prepare c m']) (by
      intro op hop
      rcases List.mem_append.1 hop with hop | hop
      · exact hops op hop
      · rw [List.mem_singleton.1 hop]; exact hi) c2 h2
  refine ⟨?_, ?_, fun k hk => prepare_other hinv.1.2.1 hinv.1.1 hi hinv.1.2.2.1 hp k hk, hinv1⟩
  · by_cases hne : m' = c.metric
    · subst hne
      rw [C18_same] at hp; cases hp; rfl
    · obtain ⟨s', hp', _, hsome, _⟩ := C18_change c m' (run ops) hne hinv.1.2.1 hinv.1.1 hi hinv.1.2.2.1
      rw [hp] at hp'; cases hp'
      exact keysOf_congr hinv.1.1 hinv.1.2.1 (hinv1 c hi).1.1 (hinv1 c hi).1.2.1 _ _ hi (by decide)
        (fun id => hsome id)
  · by_cases hne : m' = c.metric
    · subst hne
      rw [C18_same] at hp; cases hp; rfl
    · obtain ⟨s', hp', _, _, _, ho, _⟩ := C18_change c m' (run ops) hne hinv.1.2.1 hinv.1.1 hi hinv.1.2.2.1
      rw [hp] at hp'; cases hp'
      exact keysOf_congr hinv.1.1 hinv.1.2.1 (hinv1 c hi).1.1 (hinv1 c hi).1.2.1 _ _ hi (by decide)
        (fun id => by rw [ho ⟨c.index, modeUpdated, id⟩ (Or.inr (Or.inl rfl))])

/-- **C18, right after the change**: in every reachable state, `prepare_changing_distance` towards another
    metric succeeds; its result is a reachable state with the same item ids in which — for every way of opening
    the index (`c2`: any metric, old or new, any dimension) — `need_build` is true and `Reader::open` fails with
    `MissingMetadata`. No hypothesis on what the index held: the model makes the index demand a build also when
    it was empty, or never built. -/
theorem C18_needs_build_after_change (ops : List Op) (hops : ∀ op ∈ ops, op.wf) (c : Cfg) (hi : c.index < 65536)
    (m' : Metric) (hne : m' ≠ c.metric) :
    ∃ s1, Writer.prepareChangingDistance c m' (run ops) = .ok s1 ∧ run (ops ++ [.prepare c m']) = s1 ∧
      s1.keysOf c.index modeItem = (run ops).keysOf c.index modeItem ∧
      (∀ c2 : Cfg, c2.index = c.index →
        Writer.needBuild c2 s1 = true ∧ Reader.open c2 s1 = .error (.missingMetadata c2.index)) ∧
      Unbuilt c s1 := by
  have hinv := C01_invariant ops hops c hi
  obtain ⟨s1, hp, ⟨ht, hm, hnb⟩, _⟩ := C18_change c m' (run ops) hne hinv.1.2.1 hinv.1.1 hi hinv.1.2.2.1
  exact ⟨s1, hp, run_prepare ops c m' s1 hp, (C18_change_keeps_reachable ops hops c hi m' s1 hp).1, hnb, hm, ht⟩

/-- **C18, end to end**: after any history `ops` (item operations, builds, metric changes, on any indexes), a
    metric change of the index opened as `c` towards `m' ≠ c.metric`, any further well-formed operations `more`
    (on any index) and a successful build under the new metric (any options, oracle streams, fuel, cancellation
    schedule):

    * the change kept the item ids of the index and every key of every other index;
    * the states are states of the grammar;
    * `Reader::open` under the new metric succeeds with exactly the stored item ids and the declared dimension;
    * the trees read at the roots form a valid reader-side forest (`ForestWith`, hence `ForestOK`), every bucket is
      sorted, the executable checker accepts the state, the index invariant holds;
    * every query under the new metric succeeds and returns stored items only;
    * a `search_k = usize::MAX` query is exact under the new metric (`exactOver`);
    * `Reader::open` under the old metric fails with `UnmatchingDistance`. -/
theorem C18_build_after_change_reachable (ops : List Op) (hops : ∀ op ∈ ops, op.wf)
    (c : Cfg) (m' : Metric) (hne : m' ≠ c.metric) (s1 : Store)
    (hp : Writer.prepareChangingDistance c m' (run ops) = .ok s1)
    (more : List Op) (hmore : ∀ op ∈ more, op.wf)
    (o : BuildOpts) (fuel : Nat) (env st' : BState)
    (hwf : (Op.build { c with metric := m' } o fuel env).wf)
    (hb : Build.build { c with metric := m' } o fuel { env with store := more.foldl step s1 } = .ok ((), st')) :
    s1.keysOf c.index modeItem = (run ops).keysOf c.index modeItem ∧
    (∀ k : Key, k.index ≠ c.index → Store.get s1 k = Store.get (run ops) k) ∧
    run (ops ++ [.prepare c m'] ++ more) = more.foldl step s1 ∧
    run (ops ++ [.prepare c m'] ++ more ++ [.build { c with metric := m' } o fuel env]) = st'.store ∧
    ∃ roots,
      Reader.open { c with metric := m' } st'.store =
        .ok ⟨roots, c.dims, (more.foldl step s1).keysOf c.index modeItem⟩ ∧
      ForestWith { c with metric := m' } st'.store ⟨roots, c.dims, (more.foldl step s1).keysOf c.index modeItem⟩
        (Check.trees { c with metric := m' } st'.store) ∧
      ForestOK { c with metric := m' } st'.store ⟨roots, c.dims, (more.foldl step s1).keysOf c.index modeItem⟩ ∧
      DescSorted { c with metric := m' } st'.store ∧
      Check.forestValid { c with metric := m' } st'.store = [] ∧
      IndexInv c st'.store ∧
      st'.store.keysOf c.index modeItem = (more.foldl step s1).keysOf c.index modeItem ∧
      ((more.foldl step s1).keysOf c.index modeItem ≠ [] → roots ≠ []) ∧
      (∀ (qh qv : List Nat) (q : QueryOpts), ∃ ans,
        nnsByLeaf { c with metric := m' } st'.store ⟨roots, c.dims, (more.foldl step s1).keysOf c.index modeItem⟩
          qh qv q = .ok ans ∧
        ∀ p ∈ ans, p.1 ∈ (more.foldl step s1).keysOf c.index modeItem) ∧
      (∀ (qh qv : List Nat) (q : QueryOpts), q.candidates = none → q.searchK = some usizeMax →
        q.oversampling ≠ some 0 →
        roots.length * ((more.foldl step s1).keysOf c.index modeItem).length ≤ usizeMax →
        nnsByLeaf { c with metric := m' } st'.store ⟨roots, c.dims, (more.foldl step s1).keysOf c.index modeItem⟩
          qh qv q =
          .ok (exactOver { c with metric := m' } st'.store c.dims qh qv q.count
            ((more.foldl step s1).keysOf c.index modeItem))) ∧
      Reader.open c st'.store = .error (.unmatchingDistance m'.nameBytes c.metric.nameBytes) := by
  have hi : c.index < 65536 := hwf.1
  have hH := wf_prepare_more (c := c) (m' := m') hops hi hmore
  have hrun := run_prepare_more ops c m' s1 hp more
  obtain ⟨hk1, _, hk2, _⟩ := C18_change_keeps_reachable ops hops c hi m' s1 hp
  rw [← hrun] at hb
  obtain ⟨hrunb, roots0, ts0, _, _, hroots, _⟩ :=
    C01_forest (ops ++ [.prepare c m'] ++ more) hH { c with metric := m' } o fuel env st' hwf hb
  obtain ⟨roots, h1, h2, h3, h4, h5⟩ :=
    C01_reader_reachable (ops ++ [.prepare c m'] ++ more) hH { c with metric := m' } o fuel env st' hwf hb
  have hchk := C01_checker_accepts (ops ++ [.prepare c m'] ++ more) hH { c with metric := m' } o fuel env st' hwf hb
  rw [hrunb] at hchk
  have hroots' : (run (ops ++ [.prepare c m'] ++ more)).keysOf c.index modeItem ≠ [] → roots ≠ [] :=
    fun hne' => h2.roots_ne hne'
  have hold := C18_old_metric_refused_after_build c m' o fuel _ st' hne hb
  rw [hrun] at h1 h2 h4 hroots'
  refine ⟨hk1, hk2, hrun, hrunb, roots, h1, h2, ⟨_, h2⟩, h3, hchk, (IndexInv.congr_index (c := { c with metric := m' }) (c' := c) rfl h5), h4, hroots',
    fun qh qv q => C03.C03_total ⟨_, h2⟩ qh qv q,
    fun qh qv q hq hk ho hsz => C02.C02_exact_usizeMax ⟨_, h2⟩ qh qv q hq hk ho hsz, hold⟩

/-- the case without operations between the change and the build: the reader of the new metric opens with
    exactly the item ids stored before the change -/
theorem C18_build_right_after_change_reachable (ops : List Op) (hops : ∀ op ∈ ops, op.wf)
    (c : Cfg) (m' : Metric) (hne : m' ≠ c.metric) (s1 : Store)
    (hp : Writer.prepareChangingDistance c m' (run ops) = .ok s1)
    (o : BuildOpts) (fuel : Nat) (env st' : BState)
    (hwf : (Op.build { c with metric := m' } o fuel env).wf)
    (hb : Build.build { c with metric := m' } o fuel { env with store := s1 } = .ok ((), st')) :
    ∃ roots,
      Reader.open { c with metric := m' } st'.store = .ok ⟨roots, c.dims, (run ops).keysOf c.index modeItem⟩ ∧
      ForestOK { c with metric := m' } st'.store ⟨roots, c.dims, (run ops).keysOf c.index modeItem⟩ ∧
      (∀ (qh qv : List Nat) (q : QueryOpts), q.candidates = none → q.searchK = some usizeMax →
        q.oversampling ≠ some 0 → roots.length * ((run ops).keysOf c.index modeItem).length ≤ usizeMax →
        nnsByLeaf { c with metric := m' } st'.store ⟨roots, c.dims, (run ops).keysOf c.index modeItem⟩ qh qv q =
          .ok (exactOver { c with metric := m' } st'.store c.dims qh qv q.count
            ((run ops).keysOf c.index modeItem))) ∧
      Reader.open c st'.store = .error (.unmatchingDistance m'.nameBytes c.metric.nameBytes) := by
  obtain ⟨hk, _, _, _, roots, h1, _, h2, _, _, _, _, _, _, h3, h4⟩ :=
    C18_build_after_change_reachable ops hops c m' hne s1 hp [] (by intro _ h; cases h) o fuel env st' hwf hb
  simp only [List.foldl_nil] at h1 h2 h3
  rw [hk] at h1 h2 h3
  exact ⟨roots, h1, h2, h3, h4⟩

/-! ## the index keeps demanding a build until it is built -/

/-- the operation is not a build of index `c` -/
def notBuildOf (c : Cfg) : Op → Prop
  | .build c' _ _ _ => c'.index ≠ c.index
  | _ => True

/-- **C18, until the next build**: after the change, whatever well-formed operations follow (item operations,
    clears, further metric changes on this index; anything on the other indexes) — as long as none of them is a
    build of the index, `need_build` stays true and `Reader::open` fails with `MissingMetadata`, for every way of
    opening the index -/
theorem C18_needs_build_until_built (ops : List Op) (hops : ∀ op ∈ ops, op.wf) (c : Cfg) (hi : c.index < 65536)
    (m' : Metric) (hne : m' ≠ c.metric) (s1 : Store)
    (hp : Writer.prepareChangingDistance c m' (run ops) = .ok s1)
    (more : List Op) (hmore : ∀ op ∈ more, op.wf) (hnb : ∀ op ∈ more, notBuildOf c op) :
    ∀ c2 : Cfg, c2.index = c.index →
      Writer.needBuild c2 (more.foldl step s1) = true ∧
      Reader.open c2 (more.foldl step s1) = .error (.missingMetadata c2.index) := by
  obtain ⟨s1', hp', _, _, _, hu⟩ := C18_needs_build_after_change ops hops c hi m' hne
  rw [hp] at hp'; cases hp'
  have hinv1 := (C18_change_keeps_reachable ops hops c hi m' s1 hp).2.2.2
  have hm : Store.get (more.foldl step s1) c.metaKey = none := by
    apply C01_history_induction_from freshSupply c hi (fun s => Store.get s c.metaKey = none) (notBuildOf c)
      _ _ _ _ more hmore hnb s1 hinv1 hu.1
    · intro s s' _ _ m hP
      rw [m.meta_eq]; exact hP
    · intro s c' _ he _
      exact Writer.get_clear_same c' s _ he.symm
    · intro s c' o fuel env st' _ _ _ _ _ _ he _ hq _ _ _ _
      exact absurd he hq
    · intro s c' m'' s' _ _ _ _ _ _ hu' _
      exact hu'.1
  intro c2 h2
  have hm2 : Store.get (more.foldl step s1) c2.metaKey = none := by
    have : c2.metaKey = c.metaKey := by unfold Cfg.metaKey; rw [h2]
    rw [this]; exact hm
  refine ⟨Writer.needBuild_of_noMeta hm2, ?_⟩
  unfold Reader.open; rw [hm2]

/-! ## routing, self-lookup and `by_item = by_vector` after the change

The history theorems C04 (routing) and C03 (`by_item = by_vector`) have a side condition on the whole history:
every build of the index is made with the final configuration (`C04.sameCfg`), resp. every item is written under
it (`C01.madeBy`). A history that changes the metric cannot satisfy them for the operations before the change.
The change resets what these conditions protect — it deletes the forest, and it re-encodes every leaf for the new
configuration — so only the operations SINCE the change have to satisfy them. -/

/-- **C04 after the change**: the history before the change is arbitrary; if every build of the index since
    the change uses the new configuration, the forest of the final build is routed -/
theorem C18_routed_after_change_reachable (ops : List Op) (hops : ∀ op ∈ ops, op.wf)
    (c : Cfg) (m' : Metric) (hne : m' ≠ c.metric) (s1 : Store)
    (hp : Writer.prepareChangingDistance c m' (run ops) = .ok s1)
    (more : List Op) (hmore : ∀ op ∈ more, op.wf) (hQ : ∀ op ∈ more, C04.sameCfg { c with metric := m' } op)
    (o : BuildOpts) (fuel : Nat) (env st' : BState)
    (hwf : (Op.build { c with metric := m' } o fuel env).wf)
    (hb : Build.build { c with metric := m' } o fuel { env with store := more.foldl step s1 } = .ok ((), st')) :
    C04.Routed { c with metric := m' } o st'.store ∧ Check.routed { c with metric := m' } st'.store = [] := by
  have hi : c.index < 65536 := hwf.1
  obtain ⟨s1', hp', _, _, _, hu⟩ := C18_needs_build_after_change ops hops c hi m' hne
  rw [hp] at hp'; cases hp'
  have hinv1 := (C18_change_keeps_reachable ops hops c hi m' s1 hp).2.2.2
  exact C04.C04_history_from freshSupply { c with metric := m' } more hmore hQ o fuel env st' hwf s1 hinv1
    (C04.RoutedUnmarked_of_noMeta (c := { c with metric := m' }) hu.1) hb

/-- **C04, self-lookup after the change** (as `C04_selfLookup_reachable_given_lengths`, the history before the
    change being arbitrary): a stored item that some tree separates by non-degenerate planes with decisive
    margins is found by `by_item` with any budget ≥ 1 -/
theorem C18_selfLookup_after_change_reachable (ops : List Op) (hops : ∀ op ∈ ops, op.wf)
    (c : Cfg) (m' : Metric) (hne : m' ≠ c.metric) (s1 : Store)
    (hp : Writer.prepareChangingDistance c m' (run ops) = .ok s1)
    (more : List Op) (hmore : ∀ op ∈ more, op.wf) (hQ : ∀ op ∈ more, C04.sameCfg { c with metric := m' } op)
    (o : BuildOpts) (fuel : Nat) (env st' : BState)
    (hwf : (Op.build { c with metric := m' } o fuel env).wf)
    (hb : Build.build { c with metric := m' } o fuel { env with store := more.foldl step s1 } = .ok ((), st'))
    (x : Nat) (hd v : List Nat)
    (hx : Store.get st'.store (({ c with metric := m' } : Cfg).itemKey x) = some (.leaf hd v))
    (hgood : Check.hasGoodTree { c with metric := m' } st'.store x = true)
    (hlen : m'.isBq = false → ∀ t ∈ Check.trees { c with metric := m' } st'.store, ∀ n ∈ t.normals,
      n.length = v.length) :
    ∃ roots,
      Reader.open { c with metric := m' } st'.store =
        .ok ⟨roots, c.dims, (more.foldl step s1).keysOf c.index modeItem⟩ ∧
      ∀ q : QueryOpts, q.candidates = none → 1 ≤ budget m' roots.length q →
        ((more.foldl step s1).keysOf c.index modeItem).length ≤ q.count →
        ∃ ans, byItem { c with metric := m' } st'.store
            ⟨roots, c.dims, (more.foldl step s1).keysOf c.index modeItem⟩ x q = .ok (some ans) ∧
          x ∈ ans.map (·.1) := by
  obtain ⟨_, _, _, _, roots, h1, h2, _⟩ :=
    C18_build_after_change_reachable ops hops c m' hne s1 hp more hmore o fuel env st' hwf hb
  have hr := (C18_routed_after_change_reachable ops hops c m' hne s1 hp more hmore hQ o fuel env st' hwf hb).1
  obtain ⟨t₀, ht₀, hg⟩ := List.any_eq_true.1 hgood
  refine ⟨roots, h1, fun q hq hbud hc => ?_⟩
  exact C04.C04_selfLookup_by_item h2 o hr x hd v hx
    (fun t ht n hn => C04.margin_symm_of_length _ _ _ _ (fun hbq => (hlen hbq t ht n hn).symm))
    t₀ ht₀ hg q hq hbud hc

/-- **the leaves after the change are `mkLeaf` values of the new configuration**: if the items were written
    under `c` before the change and under `{ c with metric := m' }` after it -/
theorem C18_leaves_made_after_change_reachable (ops : List Op) (hops : ∀ op ∈ ops, op.wf)
    (c : Cfg) (hi : c.index < 65536) (m' : Metric) (s1 : Store) (hq : ∀ op ∈ ops, madeBy c op)
    (hp : Writer.prepareChangingDistance c m' (run ops) = .ok s1)
    (more : List Op) (hmore : ∀ op ∈ more, op.wf) (hq' : ∀ op ∈ more, madeBy { c with metric := m' } op) :
    LeavesMade { c with metric := m' } (more.foldl step s1) := by
  have hinv := C01_invariant ops hops c hi
  have hinv1 := (C18_change_keeps_reachable ops hops c hi m' s1 hp).2.2.2
  exact leavesMade_foldl { c with metric := m' } hi more hmore hq' s1 hinv1
    (leavesMade_prepare hi hinv hp (leavesMade_run c hi ops hops hq))

/-- **C03 (`by_item = by_vector`) after the change, every pair of metrics**: the items were written under `c`
    before the change and under the new configuration after it; after a successful build under the new metric,
    `by_item(id)` is `None` for an id that is not stored and `by_vector(item_vector(id))` otherwise -/
theorem C18_by_item_eq_by_vector_after_change_reachable (ops : List Op) (hops : ∀ op ∈ ops, op.wf)
    (c : Cfg) (m' : Metric) (hne : m' ≠ c.metric) (s1 : Store) (hq : ∀ op ∈ ops, madeBy c op)
    (hp : Writer.prepareChangingDistance c m' (run ops) = .ok s1)
    (more : List Op) (hmore : ∀ op ∈ more, op.wf) (hq' : ∀ op ∈ more, madeBy { c with metric := m' } op)
    (o : BuildOpts) (fuel : Nat) (env st' : BState)
    (hwf : (Op.build { c with metric := m' } o fuel env).wf)
    (hb : Build.build { c with metric := m' } o fuel { env with store := more.foldl step s1 } = .ok ((), st')) :
    ∃ roots,
      Reader.open { c with metric := m' } st'.store =
        .ok ⟨roots, c.dims, (more.foldl step s1).keysOf c.index modeItem⟩ ∧
      ∀ (id : Nat) (q : QueryOpts),
        byItem { c with metric := m' } st'.store ⟨roots, c.dims, (more.foldl step s1).keysOf c.index modeItem⟩ id q =
          match Writer.itemVector { c with metric := m' } st'.store id with
          | none => .ok none
          | some vec =>
            (byVector { c with metric := m' } st'.store
              ⟨roots, c.dims, (more.foldl step s1).keysOf c.index modeItem⟩ vec q).map some := by
  have hi : c.index < 65536 := hwf.1
  obtain ⟨_, _, hrun, hrunb, roots, h1, _⟩ :=
    C18_build_after_change_reachable ops hops c m' hne s1 hp more hmore o fuel env st' hwf hb
  have hP : LeavesMade { c with metric := m' } st'.store := by
    have := C18_leaves_made_after_change_reachable ops hops c hi m' s1 hq hp
      (more ++ [.build { c with metric := m' } o fuel env])
      (by
        intro op hop
        rcases List.mem_append.1 hop with hop | hop
        · exact hmore op hop
        · rw [List.mem_singleton.1 hop]; exact hwf)
      (by
        intro op hop
        rcases List.mem_append.1 hop with hop | hop
        · exact hq' op hop
        · rw [List.mem_singleton.1 hop]; exact fun _ e => e)
    rw [← run_prepare_more ops c m' s1 hp, ← List.append_assoc, hrunb] at this
    exact this
  exact ⟨roots, h1, fun id q => C03.C03_by_item_eq_by_vector_made _ st'.store _ hP rfl id q⟩

/-! ## non-vacuity

The two-round Euclidean history of `C01Examples.lean` on index 0 (five items built, then item 5 added and
item 0 deleted: a forest of four nodes and two pending marks), an item of index 3 in the same database; the
metric of index 0 is changed to Manhattan; an item is added under the new metric; the index is built. -/
namespace Ex
open C01.Ex

def cOther : Cfg := { index := 3, metric := .euclidean, dims := 2 }
def cNew : Cfg := { cEx with metric := .manhattan }
def opsP : List Op := ops2 ++ [.add cOther 9 [f1, f1]]
def moreP : List Op := [.add cNew 6 [fm2, fm2]]
def envN : BState :=
  { store := [], normals := [[f1, 0], [0, f1], [f1, fm15], [f1, 0], [0, f1]], rands := [], batches := [6, 6, 6] }
def envR : BState := { envN with batches := [5] }

theorem opsP_wf : ∀ op ∈ opsP, op.wf := by decide
theorem moreP_wf : ∀ op ∈ moreP, op.wf := by decide
theorem buildN_wf : (Op.build { cEx with metric := .manhattan } oEx 5 envN).wf := by decide
theorem metric_ne : Metric.manhattan ≠ cEx.metric := by decide

/-- before the change: items 1..5, four tree nodes, metadata, two marks; index 3 holds item 9 -/
theorem beforeP : (run opsP).keysOf 0 modeItem = [1, 2, 3, 4, 5] ∧ (run opsP).keysOf 0 modeTree = [0, 1, 2, 3] ∧
    (run opsP).keysOf 0 modeUpdated = [0, 5] ∧ (Store.get (run opsP) cEx.metaKey).isSome = true ∧
    (run opsP).keysOf 3 modeItem = [9] := by decide +kernel

/-- after the change: the same items, no tree node, no metadata, the marks and index 3 untouched -/
theorem afterP : (run (opsP ++ [.prepare cEx .manhattan])).keysOf 0 modeItem = [1, 2, 3, 4, 5] ∧
    (run (opsP ++ [.prepare cEx .manhattan])).keysOf 0 modeTree = [] ∧
    (run (opsP ++ [.prepare cEx .manhattan])).keysOf 0 modeUpdated = [0, 5] ∧
    Store.get (run (opsP ++ [.prepare cEx .manhattan])) cEx.metaKey = none ∧
    (run (opsP ++ [.prepare cEx .manhattan])).keysOf 3 modeItem = [9] := by decide +kernel

theorem buildN_ok : isOk (Build.build { cEx with metric := .manhattan } oEx 5
      { envN with store := run (opsP ++ [.prepare cEx .manhattan] ++ moreP) }) = true ∧
    (run (opsP ++ [.prepare cEx .manhattan] ++ moreP)).keysOf 0 modeItem = [1, 2, 3, 4, 5, 6] := by
  decide +kernel

theorem buildR_ok : isOk (Build.build { cEx with metric := .manhattan } oEx 5
      { envR with store := run (opsP ++ [.prepare cEx .manhattan]) }) = true := by
  decide +kernel

/-- `C18_needs_build_after_change` applies: the changed index (items 1..5) demands a build under both metrics -/
example : ∃ s1, Writer.prepareChangingDistance cEx .manhattan (run opsP) = .ok s1 ∧
    s1.keysOf 0 modeItem = [1, 2, 3, 4, 5] ∧
    Writer.needBuild cEx s1 = true ∧ Writer.needBuild cNew s1 = true ∧
    Reader.open cEx s1 = .error (.missingMetadata 0) ∧ Reader.open cNew s1 = .error (.missingMetadata 0) := by
  obtain ⟨s1, hp, _, hk, hnb, _⟩ := C18_needs_build_after_change opsP opsP_wf cEx (by decide) .manhattan metric_ne
  rw [show (run opsP).keysOf cEx.index modeItem = [1, 2, 3, 4, 5] from beforeP.1] at hk
  exact ⟨s1, hp, hk, (hnb cEx rfl).1, (hnb cNew rfl).1, (hnb cEx rfl).2, (hnb cNew rfl).2⟩

/-- `C18_build_after_change_reachable` applies — all hypotheses discharged: the change succeeds, item 6 is added
    under the new metric, the build succeeds; the Manhattan reader opens on items 1..6, an unlimited query is
    exact, the Euclidean reader is refused, and index 3 was not touched by the change -/
example : ∃ s1 st' roots, Writer.prepareChangingDistance cEx .manhattan (run opsP) = .ok s1 ∧
    Build.build cNew oEx 5 { envN with store := moreP.foldl step s1 } = .ok ((), st') ∧
    Reader.open cNew st'.store = .ok ⟨roots, 2, [1, 2, 3, 4, 5, 6]⟩ ∧
    ForestOK cNew st'.store ⟨roots, 2, [1, 2, 3, 4, 5, 6]⟩ ∧ roots ≠ [] ∧
    (∀ (qh qv : List Nat) (count : Nat), roots.length * 6 ≤ usizeMax →
      nnsByLeaf cNew st'.store ⟨roots, 2, [1, 2, 3, 4, 5, 6]⟩ qh qv { count := count, searchK := some usizeMax } =
        .ok (exactOver cNew st'.store 2 qh qv count [1, 2, 3, 4, 5, 6])) ∧
    Reader.open cEx st'.store =
      .error (.unmatchingDistance Metric.manhattan.nameBytes Metric.euclidean.nameBytes) ∧
    Store.get s1 (cOther.itemKey 9) = Store.get (run opsP) (cOther.itemKey 9) := by
  obtain ⟨s1, hp, _⟩ := C18_prepare_succeeds_reachable opsP opsP_wf cEx (by decide) .manhattan
  have hrun := run_prepare_more opsP cEx .manhattan s1 hp moreP
  have hok := buildN_ok
  rw [hrun] at hok
  cases hb : Build.build { cEx with metric := .manhattan } oEx 5 { envN with store := moreP.foldl step s1 } with
  | error e => rw [hb] at hok; cases hok.1
  | ok r =>
    obtain ⟨u, st'⟩ := r
    obtain ⟨_, hoth, _, _, roots, h1, _, h2, _, _, _, _, hr, _, h3, h4⟩ :=
      C18_build_after_change_reachable opsP opsP_wf cEx .manhattan metric_ne s1 hp moreP moreP_wf oEx 5 envN st'
        buildN_wf hb
    rw [show (moreP.foldl step s1).keysOf cEx.index modeItem = [1, 2, 3, 4, 5, 6] from hok.2] at h1 h2 h3 hr
    exact ⟨s1, st', roots, hp, hb, h1, h2, hr (by simp),
      fun qh qv count hsz => h3 qh qv _ rfl rfl (by simp) hsz, h4, hoth _ (by decide)⟩

/-- `C18_build_right_after_change_reachable` applies: build directly after the change -/
example : ∃ s1 st' roots, Writer.prepareChangingDistance cEx .manhattan (run opsP) = .ok s1 ∧
    Build.build cNew oEx 5 { envR with store := s1 } = .ok ((), st') ∧
    Reader.open cNew st'.store = .ok ⟨roots, 2, [1, 2, 3, 4, 5]⟩ ∧
    Reader.open cEx st'.store =
      .error (.unmatchingDistance Metric.manhattan.nameBytes Metric.euclidean.nameBytes) := by
  obtain ⟨s1, hp, hs1⟩ := C18_prepare_succeeds_reachable opsP opsP_wf cEx (by decide) .manhattan
  have hok := buildR_ok
  rw [hs1] at hok
  cases hb : Build.build { cEx with metric := .manhattan } oEx 5 { envR with store := s1 } with
  | error e => rw [hb] at hok; cases hok
  | ok r =>
    obtain ⟨u, st'⟩ := r
    obtain ⟨roots, h1, _, _, h4⟩ :=
      C18_build_right_after_change_reachable opsP opsP_wf cEx .manhattan metric_ne s1 hp oEx 5 envR st'
        (by decide) hb
    rw [show (run opsP).keysOf cEx.index modeItem = [1, 2, 3, 4, 5] from beforeP.1] at h1
    exact ⟨s1, st', roots, hp, hb, h1, h4⟩

/-- the history before the change builds index 0 under the Euclidean configuration: it violates `sameCfg cNew`,
    so `C04_routed_all_histories` does not apply to the whole history — `C18_routed_after_change_reachable` does -/
example : ¬ ∀ op ∈ opsP, C04.sameCfg cNew op := by
  intro h
  have := h (.build cEx oEx 5 env1) (by simp [opsP, ops2, ops1]) rfl
  exact absurd (congrArg Cfg.metric this) (by decide)

theorem moreP_same : ∀ op ∈ moreP, C04.sameCfg { cEx with metric := .manhattan } op := by
  intro op hop
  simp only [moreP, List.mem_cons, List.not_mem_nil, or_false] at hop
  subst hop; trivial

theorem moreP_notBuild : ∀ op ∈ moreP, notBuildOf cEx op := by
  intro op hop
  simp only [moreP, List.mem_cons, List.not_mem_nil, or_false] at hop
  subst hop; trivial

theorem opsP_made : ∀ op ∈ opsP, madeBy cEx op := by
  intro op hop
  simp only [opsP, ops2, ops1, List.mem_append, List.mem_cons, List.not_mem_nil, or_false] at hop
  rcases hop with ((rfl | rfl | rfl | rfl | rfl | rfl) | (rfl | rfl)) | rfl <;>
    first | trivial | (intro _; rfl) | (intro h; exact absurd h (by decide)) | (intro _ h; exact absurd h (by decide))

theorem moreP_made : ∀ op ∈ moreP, madeBy { cEx with metric := .manhattan } op := by
  intro op hop
  simp only [moreP, List.mem_cons, List.not_mem_nil, or_false] at hop
  subst hop; intro _; rfl

/-- the state after the final build: item 5 (stored under the Euclidean metric, re-encoded by the change) has a
    good tree, its vector and every normal have 2 words -/
theorem afterN_good :
    Check.hasGoodTree cNew (run (opsP ++ [.prepare cEx .manhattan] ++ moreP ++ [.build cNew oEx 5 envN])) 5 = true ∧
    Store.get (run (opsP ++ [.prepare cEx .manhattan] ++ moreP ++ [.build cNew oEx 5 envN])) (cNew.itemKey 5) =
      some (.leaf [0] [f25, f2]) ∧
    ∀ t ∈ Check.trees cNew (run (opsP ++ [.prepare cEx .manhattan] ++ moreP ++ [.build cNew oEx 5 envN])),
      ∀ n ∈ t.normals, n.length = 2 := by
  decide +kernel

/-- `C18_needs_build_until_built` applies: after the change and the addition of item 6 the index still demands a
    build -/
example : ∃ s1, Writer.prepareChangingDistance cEx .manhattan (run opsP) = .ok s1 ∧
    Writer.needBuild cNew (moreP.foldl step s1) = true ∧
    Reader.open cNew (moreP.foldl step s1) = .error (.missingMetadata 0) := by
  obtain ⟨s1, hp, _⟩ := C18_prepare_succeeds_reachable opsP opsP_wf cEx (by decide) .manhattan
  have := C18_needs_build_until_built opsP opsP_wf cEx (by decide) .manhattan metric_ne s1 hp moreP moreP_wf
    moreP_notBuild cNew rfl
  exact ⟨s1, hp, this.1, this.2⟩

/-- `C18_routed_after_change_reachable`, `C18_selfLookup_after_change_reachable` and
    `C18_by_item_eq_by_vector_after_change_reachable` apply: the final forest is routed under the new metric,
    `by_item(5)` with `search_k = 1` finds item 5, and `by_item` agrees with `by_vector` -/
example : ∃ s1 st' roots, Writer.prepareChangingDistance cEx .manhattan (run opsP) = .ok s1 ∧
    Build.build cNew oEx 5 { envN with store := moreP.foldl step s1 } = .ok ((), st') ∧
    Check.routed cNew st'.store = [] ∧
    Reader.open cNew st'.store = .ok ⟨roots, 2, [1, 2, 3, 4, 5, 6]⟩ ∧
    (∃ ans, byItem cNew st'.store ⟨roots, 2, [1, 2, 3, 4, 5, 6]⟩ 5 { count := 6, searchK := some 1 } = .ok (some ans) ∧
      5 ∈ ans.map (·.1)) ∧
    (∀ (id : Nat) (q : QueryOpts), byItem cNew st'.store ⟨roots, 2, [1, 2, 3, 4, 5, 6]⟩ id q =
      match Writer.itemVector cNew st'.store id with
      | none => .ok none
      | some vec => (byVector cNew st'.store ⟨roots, 2, [1, 2, 3, 4, 5, 6]⟩ vec q).map some) := by
  obtain ⟨s1, hp, _⟩ := C18_prepare_succeeds_reachable opsP opsP_wf cEx (by decide) .manhattan
  have hrun := run_prepare_more opsP cEx .manhattan s1 hp moreP
  have hok := buildN_ok
  rw [hrun] at hok
  cases hb : Build.build { cEx with metric := .manhattan } oEx 5 { envN with store := moreP.foldl step s1 } with
  | error e => rw [hb] at hok; cases hok.1
  | ok r =>
    obtain ⟨u, st'⟩ := r
    have hrunb := (C18_build_after_change_reachable opsP opsP_wf cEx .manhattan metric_ne s1 hp moreP moreP_wf oEx 5
      envN st' buildN_wf hb).2.2.2.1
    obtain ⟨hg, hx, hn⟩ := afterN_good
    rw [show run (opsP ++ [.prepare cEx .manhattan] ++ moreP ++ [.build cNew oEx 5 envN]) = st'.store from hrunb]
      at hg hx hn
    have hrt := (C18_routed_after_change_reachable opsP opsP_wf cEx .manhattan metric_ne s1 hp moreP moreP_wf
      moreP_same oEx 5 envN st' buildN_wf hb).2
    obtain ⟨roots, h1, h2⟩ := C18_selfLookup_after_change_reachable opsP opsP_wf cEx .manhattan metric_ne s1 hp
      moreP moreP_wf moreP_same oEx 5 envN st' buildN_wf hb 5 [0] [f25, f2] hx hg (fun _ => hn)
    obtain ⟨roots', h1', h3⟩ := C18_by_item_eq_by_vector_after_change_reachable opsP opsP_wf cEx .manhattan metric_ne
      s1 opsP_made hp moreP moreP_wf moreP_made oEx 5 envN st' buildN_wf hb
    have hr : roots' = roots := by rw [h1] at h1'; cases h1'; rfl
    subst hr
    rw [show (moreP.foldl step s1).keysOf cEx.index modeItem = [1, 2, 3, 4, 5, 6] from hok.2] at h1 h2 h3
    refine ⟨s1, st', roots', hp, hb, hrt, h1, h2 _ rfl ?_ (by decide), h3⟩
    -- budget = search_k × oversampling = 1 × 1
    simp only [budget, satMul, Option.getD_some, Option.getD_none]
    decide

/-- the generalised `C04_stored_length_reachable` (its side condition `itemsCfg` now covers metric changes: same
    dimension, towards an f32 metric) applies to the history with the change: every stored leaf has 2 words -/
example : C04.VecLen cNew (run (opsP ++ [.prepare cEx .manhattan] ++ moreP)) := by
  apply C04.C04_stored_length_reachable cNew (by decide) _ (wf_prepare_more opsP_wf (by decide) moreP_wf)
  intro op hop
  simp only [opsP, ops2, ops1, moreP, List.mem_append, List.mem_cons, List.not_mem_nil, or_false] at hop
  rcases hop with ((((rfl | rfl | rfl | rfl | rfl | rfl) | (rfl | rfl)) | rfl) | rfl) | rfl <;>
    first | trivial | (intro _; exact ⟨rfl, rfl⟩)

end Ex

end Arroy.C18
