import ArroyProofs.Properties.C06
import ArroyProofs.Properties.C06Build
import ArroyProofs.Properties.Unconditional
import ArroyProofs.Properties.C01Examples
import ArroyProofs.ForestBridge
/-! # C06 over histories — staleness as a function of what happened

`C06.lean` / `C06Build.lean` characterise `Reader.open` and `Writer.needBuild` by the STORE. Here they
are characterised by the HISTORY (`C01.Op`, `C01.run`): `status i ops` is the abstract staleness state of
index `i` after the history `ops`, computed by recursion over the history from the operations that were
EFFECTIVE on index `i` (`effective`): an accepted `add` / `append`, a `del` of a present id, a `clear`,
an accepted `prepare` towards another metric than the one of its `Cfg`, a successful `build`.
Rejected calls, absent deletes, failed builds, `prepare` to the same metric and every operation of
another index are not effective: they leave the status as it is.

No side condition on the `Cfg`s of the history is needed (`sameDims` is not needed): builds and writes
of one index may carry different metrics and dimensions; what counts is whether the model accepts
the call, and the status records the metric and the dimension of the last successful build. -/
namespace Arroy.C06
open Arroy Generated C01

/-- the abstract staleness state of one index -/
inductive Status where
  /-- no metadata: never built, cleared, or re-encoded for another metric since the last build -/
  | neverBuilt
  /-- last successful build: under metric `m`, dimension `dims`, over the items `items`;
      `dirty`: an effective item operation happened since -/
  | built (m : Metric) (dims : Nat) (items : List Nat) (dirty : Bool)
  deriving DecidableEq, Repr

/-- an effective item operation: a built index becomes dirty, a never-built one stays never-built -/
def Status.touch : Status → Status
  | .neverBuilt => .neverBuilt
  | .built m d items _ => .built m d items true

def okB {α : Type} : Except Err α → Bool
  | .ok _ => true
  | .error _ => false

def _root_.Arroy.C01.Op.cfg : Op → Cfg
  | .add c _ _ => c
  | .append c _ _ => c
  | .del c _ => c
  | .clear c => c
  | .build c _ _ _ => c
  | .prepare c _ => c

/-- the model accepts the operation in store `s` and it is not one of the calls that change nothing -/
def accepted (s : Store) : Op → Bool
  | .add c id vec => okB (Writer.addItem c s id vec)
  | .append c id vec => okB (Writer.appendItem c s id vec)
  | .del c id => (Writer.delItem c s id).2
  | .clear _ => true
  | .build c o fuel env => okB (Build.build c o fuel { env with store := s })
  | .prepare c m' => m' != c.metric && okB (Writer.prepareChangingDistance c m' s)

/-- `op`, executed in store `s`, is effective on index `i` -/
def effective (i : Nat) (s : Store) (op : Op) : Bool := op.cfg.index == i && accepted s op

/-- the status of the index after an operation that is effective on it -/
def Status.after (s : Store) (st : Status) : Op → Status
  | .add _ _ _ => st.touch
  | .append _ _ _ => st.touch
  | .del _ _ => st.touch
  | .clear _ => .neverBuilt
  | .build c _ _ _ => .built c.metric c.dims (s.keysOf c.index modeItem) false
  | .prepare _ _ => .neverBuilt

def statusStep (i : Nat) (s : Store) (st : Status) (op : Op) : Status :=
  if effective i s op then st.after s op else st

/-- the status after the history `ops` started in store `s` with status `st` -/
def statusFrom (i : Nat) : Store → Status → List Op → Status
  | _, st, [] => st
  | s, st, op :: ops => statusFrom i (step s op) (statusStep i s st op) ops

/-- **the staleness state of index `i` after the history `ops`** (from the empty store) -/
def status (i : Nat) (ops : List Op) : Status := statusFrom i [] .neverBuilt ops

theorem statusFrom_append (i : Nat) (ops : List Op) (op : Op) : ∀ (s : Store) (st : Status),
    statusFrom i s st (ops ++ [op]) = statusStep i (ops.foldl step s) (statusFrom i s st ops) op := by
  induction ops with
  | nil => intro s st; rfl
  | cons a ops ih => intro s st; exact ih _ _

/-- the recursion seen from the end of the history -/
theorem status_snoc (i : Nat) (ops : List Op) (op : Op) :
    status i (ops ++ [op]) = statusStep i (run ops) (status i ops) op :=
  statusFrom_append i ops op [] .neverBuilt

theorem run_snoc (ops : List Op) (op : Op) : run (ops ++ [op]) = step (run ops) op := by
  simp only [run, List.foldl_append, List.foldl_cons, List.foldl_nil]

/-! ## what the status says about the store -/

/-- the store fits the status: the metadata record is the one of the last successful build (or absent),
    and an updated mark exists iff the status is dirty -/
def Agrees (c : Cfg) (s : Store) : Status → Prop
  | .neverBuilt => Store.get s c.metaKey = none
  | .built m d items dirty =>
    (∃ roots, Store.get s c.metaKey = some (.metadata m.nameBytes d items roots)) ∧ (dirty = true ↔ HasMark c s)

/-- `Agrees` only looks at the keys of the index -/
theorem Agrees.congr {c : Cfg} {s s' : Store} {st : Status} (h : Agrees c s st)
    (hk : ∀ k : Key, k.index = c.index → Store.get s' k = Store.get s k) : Agrees c s' st := by
  have hm : HasMark c s' ↔ HasMark c s := by
    constructor
    · intro ⟨id, h⟩; exact ⟨id, by rw [← hk _ rfl]; exact h⟩
    · intro ⟨id, h⟩; exact ⟨id, by rw [hk _ rfl]; exact h⟩
  cases st with
  | neverBuilt => show Store.get s' c.metaKey = none; rw [hk _ rfl]; exact h
  | built m d items dirty =>
    obtain ⟨⟨roots, hg⟩, hd⟩ := h
    exact ⟨⟨roots, by rw [hk _ rfl]; exact hg⟩, hd.trans hm.symm⟩

/-- an effective item operation: same metadata, a mark -/
theorem Agrees.touch {c : Cfg} {s s' : Store} {st : Status} (h : Agrees c s st)
    (hmeta : Store.get s' c.metaKey = Store.get s c.metaKey) (hmark : HasMark c s') : Agrees c s' st.touch := by
  cases st with
  | neverBuilt => show Store.get s' c.metaKey = none; rw [hmeta]; exact h
  | built m d items dirty =>
    obtain ⟨⟨roots, hg⟩, _⟩ := h
    exact ⟨⟨roots, by rw [hmeta]; exact hg⟩, ⟨fun _ => hmark, fun _ => rfl⟩⟩

theorem hasMark_index {c c' : Cfg} {s : Store} (he : c'.index = c.index) (h : HasMark c' s) : HasMark c s := by
  obtain ⟨id, hid⟩ := h
  refine ⟨id, ?_⟩
  have : c.updatedKey id = c'.updatedKey id := by simp [Cfg.updatedKey, he]
  rw [this]; exact hid

theorem metaKey_index {c c' : Cfg} (he : c'.index = c.index) : c.metaKey = c'.metaKey := by
  simp [Cfg.metaKey, he]

/-! ## one step -/

/-- an operation of another index does not touch the keys of index `c` -/
theorem step_other (s : Store) (op : Op) (hop : op.wf)
    (hinv : ∀ c : Cfg, c.index < 65536 → IndexInv c s) (c : Cfg) (hne : op.cfg.index ≠ c.index) :
    ∀ k : Key, k.index = c.index → Store.get (step s op) k = Store.get s k := by
  intro k hk
  have hki : ∀ c' : Cfg, c'.index ≠ c.index → ∀ id, k ≠ c'.itemKey id ∧ k ≠ c'.updatedKey id := by
    intro c' hc' id
    constructor
    · intro e; rw [e] at hk; exact hc' hk
    · intro e; rw [e] at hk; exact hc' hk
  cases op with
  | add c' id vec =>
    simp only [step]
    cases h : Writer.addItem c' s id vec with
    | error e => rfl
    | ok s' =>
      show Store.get s' k = Store.get s k
      rw [Writer.get_addItem h, if_neg (hki c' hne id).2, if_neg (hki c' hne id).1]
  | append c' id vec =>
    simp only [step]
    cases h : Writer.appendItem c' s id vec with
    | error e => rfl
    | ok s' =>
      show Store.get s' k = Store.get s k
      have hs : Store.Sorted s := (hinv c' hop.1).1.1
      rw [Writer.get_addItem (Writer.appendItem_ok_eq_addItem hs h), if_neg (hki c' hne id).2,
        if_neg (hki c' hne id).1]
  | del c' id =>
    show Store.get (Writer.delItem c' s id).1 k = Store.get s k
    rw [Writer.get_delItem, if_neg (fun e => (hki c' hne id).2 e.1), if_neg (hki c' hne id).1]
  | clear c' =>
    exact get_clear_other' c' s (hinv c' hop).1.2.1 hop k (by rw [hk]; exact Ne.symm hne)
  | build c' o fuel env =>
    simp only [step]
    cases h : Build.build c' o fuel { env with store := s } with
    | error e => rfl
    | ok r =>
      obtain ⟨u, st'⟩ := r
      have hinv' := hinv c' hop.1
      obtain ⟨roots0, items0, ts0, old⟩ := Old.of_inv hinv'.1 hop.1
      obtain ⟨roots', ts', b⟩ := C01_build_out c' o fuel { env with store := s } st' roots0 items0 ts0 hop.1 hop.2.1
        freshSupply hinv'.1.1 hinv'.1.2.1 old h
      exact b.other k (by rw [hk]; exact Ne.symm hne)
  | prepare c' m' =>
    simp only [step]
    cases h : Writer.prepareChangingDistance c' m' s with
    | error e => rfl
    | ok s' =>
      have hinv' := hinv c' hop
      exact prepare_other hinv'.1.2.1 hinv'.1.1 hop hinv'.1.2.2.1 h k (by rw [hk]; exact Ne.symm hne)

/-- an operation that is not accepted leaves the store as it is -/
theorem step_not_accepted (s : Store) (op : Op) (h : accepted s op = false) : step s op = s := by
  cases op with
  | add c' id vec =>
    simp only [step]
    cases h' : Writer.addItem c' s id vec with
    | error e => rfl
    | ok s' => simp [accepted, h', okB] at h
  | append c' id vec =>
    simp only [step]
    cases h' : Writer.appendItem c' s id vec with
    | error e => rfl
    | ok s' => simp [accepted, h', okB] at h
  | del c' id =>
    have h1 : (Writer.delItem c' s id).2 = false := h
    show (Writer.delItem c' s id).1 = s
    rw [(C19.C19_del_absent c' s id ((C19.C19_del_false_iff c' s id).1 h1)).1]
  | clear c' => cases h
  | build c' o fuel env =>
    simp only [step]
    cases h' : Build.build c' o fuel { env with store := s } with
    | error e => rfl
    | ok r => simp [accepted, h', okB] at h
  | prepare c' m' =>
    simp only [step]
    cases h' : Writer.prepareChangingDistance c' m' s with
    | error e => rfl
    | ok s' =>
      by_cases hm : m' = c'.metric
      · subst hm
        rw [C18.C18_same] at h'
        cases h'; rfl
      · simp [accepted, h', okB, hm] at h

theorem effective_false_iff (i : Nat) (s : Store) (op : Op) :
    effective i s op = false ↔ op.cfg.index ≠ i ∨ accepted s op = false := by
  unfold effective
  cases accepted s op <;> simp

/-- **an operation that is not effective on index `c.index`** does not touch the keys of the index -/
theorem step_not_effective (s : Store) (op : Op) (hop : op.wf)
    (hinv : ∀ c : Cfg, c.index < 65536 → IndexInv c s) (c : Cfg) (h : effective c.index s op = false) :
    ∀ k : Key, k.index = c.index → Store.get (step s op) k = Store.get s k := by
  rcases (effective_false_iff _ _ _).1 h with hne | hna
  · exact step_other s op hop hinv c hne
  · intro k _; rw [step_not_accepted s op hna]

/-- the invariant `Agrees` is preserved by every step -/
theorem agrees_step (s : Store) (op : Op) (hop : op.wf)
    (hinv : ∀ c : Cfg, c.index < 65536 → IndexInv c s) (c : Cfg) (st : Status)
    (ha : Agrees c s st) : Agrees c (step s op) (statusStep c.index s st op) := by
  unfold statusStep
  cases he : effective c.index s op with
  | false =>
    rw [if_neg (by simp)]
    exact ha.congr (step_not_effective s op hop hinv c he)
  | true =>
    rw [if_pos rfl]
    simp only [effective, Bool.and_eq_true, beq_iff_eq] at he
    obtain ⟨hidx, hacc⟩ := he
    cases op with
    | add c' id vec =>
      replace hidx : c'.index = c.index := hidx
      simp only [step]
      cases h : Writer.addItem c' s id vec with
      | error e => simp [accepted, h, okB] at hacc
      | ok s' => exact ha.touch (meta_add h) (hasMark_index hidx (hasMark_add h))
    | append c' id vec =>
      replace hidx : c'.index = c.index := hidx
      simp only [step]
      cases h : Writer.appendItem c' s id vec with
      | error e => simp [accepted, h, okB] at hacc
      | ok s' =>
        have h' := Writer.appendItem_ok_eq_addItem (hinv c' hop.1).1.1 h
        exact ha.touch (meta_add h') (hasMark_index hidx (hasMark_add h'))
    | del c' id =>
      replace hidx : c'.index = c.index := hidx
      have h1 : (Writer.delItem c' s id).2 = true := hacc
      have m := C06_marks_del c' s id h1
      rw [Writer.delItem_snd] at h1
      have hk : HasMark c' (Writer.delItem c' s id).1 :=
        ⟨id, by rw [Writer.get_delItem, if_pos ⟨rfl, h1⟩]; rfl⟩
      refine ha.touch ?_ (hasMark_index hidx hk)
      show Store.get (Writer.delItem c' s id).1 c.metaKey = Store.get s c.metaKey
      rw [metaKey_index hidx]; exact m.2.2.1
    | clear c' =>
      replace hidx : c'.index = c.index := hidx
      exact Writer.get_clear_same c' s _ hidx.symm
    | build c' o fuel env =>
      replace hidx : c'.index = c.index := hidx
      simp only [step]
      cases h : Build.build c' o fuel { env with store := s } with
      | error e => simp [accepted, h, okB] at hacc
      | ok r =>
        obtain ⟨u, st'⟩ := r
        have hinv' := hinv c' hop.1
        obtain ⟨roots0, items0, ts0, old⟩ := Old.of_inv hinv'.1 hop.1
        obtain ⟨roots', ts', b⟩ := C01_build_out c' o fuel { env with store := s } st' roots0 items0 ts0 hop.1
          hop.2.1 freshSupply hinv'.1.1 hinv'.1.2.1 old h
        refine ⟨⟨roots', ?_⟩, ⟨fun h => Bool.noConfusion h, fun hk => ?_⟩⟩
        · show Store.get st'.store c.metaKey = _
          rw [metaKey_index hidx]; exact b.metadata
        · obtain ⟨id, hid⟩ := hk
          have : c.updatedKey id = c'.updatedKey id := by simp [Cfg.updatedKey, hidx]
          rw [this, b.no_marks id] at hid
          cases hid
    | prepare c' m' =>
      replace hidx : c'.index = c.index := hidx
      simp only [step]
      cases h : Writer.prepareChangingDistance c' m' s with
      | error e => simp [accepted, h, okB] at hacc
      | ok s' =>
        have hne : m' ≠ c'.metric := by
          intro e; simp [accepted, e] at hacc
        have hinv' := hinv c' hop
        exact (prepare_unbuilt (c := c) hne hinv'.1.2.1 hinv'.1.1 hop hinv'.1.2.2.1 hidx.symm h).1.1

theorem agrees_foldl (ops : List Op) (hops : ∀ op ∈ ops, op.wf) (c : Cfg) :
    ∀ (s : Store) (st : Status), (∀ c : Cfg, c.index < 65536 → IndexInv c s) → Agrees c s st →
      Agrees c (ops.foldl step s) (statusFrom c.index s st ops) := by
  induction ops with
  | nil => intro s st _ h; exact h
  | cons op ops ih =>
    intro s st hinv ha
    have hop := hops op (by simp)
    exact ih (fun op' h' => hops op' (List.mem_cons_of_mem _ h')) _ _
      (C01_inv_step freshSupply s op hop hinv) (agrees_step s op hop hinv c st ha)

/-- **the status describes the store**: after every well-formed history the metadata record of the
    index is the one written by the last successful build (absent if the status is never-built), and an
    updated mark exists iff the status is dirty -/
theorem C06_status_agrees (ops : List Op) (hops : ∀ op ∈ ops, op.wf) (c : Cfg) :
    Agrees c (run ops) (status c.index ops) :=
  agrees_foldl ops hops c [] .neverBuilt (fun c _ => C01_inv_empty c) rfl

/-! ## `Reader.open` and `Writer.needBuild` as functions of the history -/

/-- what `Reader.open c` must answer in a given status (the roots of an opened reader are not part of
    the status) -/
def OpenIs (c : Cfg) (r : Except Err ReaderState) : Status → Prop
  | .neverBuilt => r = .error (.missingMetadata c.index)
  | .built m d items dirty =>
    if m ≠ c.metric then r = .error (.unmatchingDistance m.nameBytes c.metric.nameBytes)
    else if dirty = true then r = .error (.needBuild c.index)
    else ∃ roots, r = .ok ⟨roots, d, items⟩

/-- what `Writer.needBuild` must answer in a given status -/
def Status.stale : Status → Bool
  | .neverBuilt => true
  | .built _ _ _ dirty => dirty

/-- **C06 over histories, functional form**: the result of `Reader.open c` and of `Writer.needBuild c`
    after a well-formed history is determined by the status of the index: never built → `MissingMetadata`;
    built under another metric → `UnmatchingDistance` (whether dirty or not); built under `c.metric` and
    dirty → `NeedBuild`; built under `c.metric` and clean → the reader opens, with the dimension and the
    item list of that build. `need_build` is true iff never built or dirty (whatever the metric). -/
theorem C06_history_open (ops : List Op) (hops : ∀ op ∈ ops, op.wf) (c : Cfg) (hi : c.index < 65536) :
    OpenIs c (Reader.open c (run ops)) (status c.index ops) ∧
    Writer.needBuild c (run ops) = (status c.index ops).stale := by
  have ha := C06_status_agrees ops hops c
  have hw : Store.WF (run ops) := (C01.C01_invariant ops hops c hi).1.2.1
  have hoc := C06_open_char c (run ops) hw hi
  have hnb := C06_needBuild_char c (run ops) hw hi
  cases hst : status c.index ops with
  | neverBuilt =>
    rw [hst] at ha
    have ha' : Store.get (run ops) c.metaKey = none := ha
    refine ⟨hoc.1.2 ha', ?_⟩
    exact hnb.2 (Or.inr ha')
  | built m d items dirty =>
    rw [hst] at ha
    obtain ⟨⟨roots, hg⟩, hd⟩ := ha
    have h2 := hoc.2 _ _ _ _ hg
    constructor
    · show (if m ≠ c.metric then _ else if dirty = true then _ else _)
      by_cases hm : m = c.metric
      · subst hm
        rw [if_neg (by simp)]
        cases dirty with
        | true => rw [if_pos rfl]; exact (h2.2 rfl).1.2 (hd.1 rfl)
        | false =>
          rw [if_neg (by simp)]
          exact ⟨roots, (h2.2 rfl).2.1 (fun hk => by cases hd.2 hk)⟩
      · rw [if_pos hm]
        exact h2.1.2 (fun e => hm (C06_names_inj _ _ e))
    · show Writer.needBuild c (run ops) = dirty
      cases dirty with
      | true => exact hnb.2 (Or.inl (hd.1 rfl))
      | false =>
        cases hb : Writer.needBuild c (run ops) with
        | false => rfl
        | true =>
          rcases hnb.1 hb with hk | hn
          · cases hd.2 hk
          · rw [hg] at hn; cases hn

/-- **C06 over histories**: for every well-formed history `ops` and every `c` (a `u16` index),
    `Reader.open c (run ops)` fails with
    * `MissingMetadata` iff the index was never built (or cleared / re-encoded for another metric since);
    * `UnmatchingDistance stored c.metric` iff it was last built under a metric `m ≠ c.metric`
      (and then `stored` is the name of `m`; dirty or not);
    * `NeedBuild` iff it was last built under `c.metric` and an effective item operation happened since;
    and succeeds iff it was last built under `c.metric` and is clean — then with the dimension and the
    item list of that build. `Writer.needBuild c (run ops)` is true iff never built or dirty. -/
theorem C06_history (ops : List Op) (hops : ∀ op ∈ ops, op.wf) (c : Cfg) (hi : c.index < 65536) :
    (Reader.open c (run ops) = .error (.missingMetadata c.index) ↔ status c.index ops = .neverBuilt) ∧
    (∀ name, Reader.open c (run ops) = .error (.unmatchingDistance name c.metric.nameBytes) ↔
      ∃ m d items dirty, status c.index ops = .built m d items dirty ∧ m ≠ c.metric ∧ name = m.nameBytes) ∧
    (Reader.open c (run ops) = .error (.needBuild c.index) ↔
      ∃ d items, status c.index ops = .built c.metric d items true) ∧
    (∀ d items, (∃ roots, Reader.open c (run ops) = .ok ⟨roots, d, items⟩) ↔
      status c.index ops = .built c.metric d items false) ∧
    (∀ e, Reader.open c (run ops) = .error e →
      e = .missingMetadata c.index ∨ (∃ name, e = .unmatchingDistance name c.metric.nameBytes) ∨
      e = .needBuild c.index) ∧
    (Writer.needBuild c (run ops) = true ↔
      status c.index ops = .neverBuilt ∨ ∃ m d items, status c.index ops = .built m d items true) := by
  obtain ⟨ho, hn⟩ := C06_history_open ops hops c hi
  rw [hn]
  cases hst : status c.index ops with
  | neverBuilt =>
    rw [hst] at ho
    have ho' : Reader.open c (run ops) = .error (.missingMetadata c.index) := ho
    rw [ho']
    refine ⟨by simp, fun name => by simp, by simp, fun d' items' => by simp, fun e h => ?_, by simp [Status.stale]⟩
    cases h; exact Or.inl rfl
  | built m d items dirty =>
    rw [hst] at ho
    have ho' : (if m ≠ c.metric then Reader.open c (run ops) = .error (.unmatchingDistance m.nameBytes c.metric.nameBytes)
        else if dirty = true then Reader.open c (run ops) = .error (.needBuild c.index)
        else ∃ roots, Reader.open c (run ops) = .ok ⟨roots, d, items⟩) := ho
    by_cases hm : m = c.metric
    · subst hm
      rw [if_neg (by simp)] at ho'
      cases dirty with
      | true =>
        rw [if_pos rfl] at ho'
        rw [ho']
        refine ⟨by simp, fun name => by simp, ?_, fun d' items' => by simp, fun e h => ?_, by simp [Status.stale]⟩
        · exact ⟨fun _ => ⟨d, items, rfl⟩, fun _ => rfl⟩
        · cases h; exact Or.inr (Or.inr rfl)
      | false =>
        rw [if_neg (by simp)] at ho'
        obtain ⟨roots, ho'⟩ := ho'
        rw [ho']
        refine ⟨by simp, fun name => by simp, by simp, fun d' items' => ?_, fun e h => (by cases h), by simp [Status.stale]⟩
        constructor
        · rintro ⟨roots', h⟩; cases h; rfl
        · intro h; cases h; exact ⟨roots, rfl⟩
    · rw [if_pos hm] at ho'
      rw [ho']
      refine ⟨by simp, fun name => ?_, ?_, fun d' items' => ?_, fun e h => ?_, ?_⟩
      · constructor
        · intro h; cases h; exact ⟨m, d, items, dirty, rfl, hm, rfl⟩
        · rintro ⟨m', d', items', dirty', h, _, rfl⟩
          cases h; rfl
      · constructor
        · intro h; cases h
        · rintro ⟨d', items', h⟩; cases h; exact absurd rfl hm
      · constructor
        · rintro ⟨roots', h⟩; cases h
        · intro h; cases h; exact absurd rfl hm
      · cases h; exact Or.inr (Or.inl ⟨_, rfl⟩)
      · cases dirty <;> simp [Status.stale]

/-! ## corollaries -/

/-- `Reader.open` and `Writer.needBuild` only look at the keys of their index (both stores well-formed) -/
theorem open_congr_get {c : Cfg} {s s' : Store} (hw : Store.WF s) (hw' : Store.WF s') (hi : c.index < 65536)
    (hk : ∀ k : Key, k.index = c.index → Store.get s' k = Store.get s k) :
    Reader.open c s' = Reader.open c s ∧ Writer.needBuild c s' = Writer.needBuild c s := by
  have he : (s'.prefixIter c.index (some modeUpdated)).isEmpty = (s.prefixIter c.index (some modeUpdated)).isEmpty := by
    rw [Bool.eq_iff_iff, Writer.marks_isEmpty_iff hw' hi, Writer.marks_isEmpty_iff hw hi]
    constructor
    · intro h id; rw [← hk _ rfl]; exact h id
    · intro h id; rw [hk _ rfl]; exact h id
  have hm : Store.get s' c.metaKey = Store.get s c.metaKey := hk _ rfl
  constructor
  · unfold Reader.open; rw [hm, he]
  · unfold Writer.needBuild; rw [hm, he]

/-- **immediately after a successful build the reader opens**: if the last operation of a well-formed
    history is a successful build under `c`, the index is clean, `Reader.open c` succeeds with the dimension
    of `c` and exactly the items stored when the build started, and `need_build` answers false
    (also for an index built while empty: `items = []`) -/
theorem C06_opens_right_after_build (ops : List Op) (hops : ∀ op ∈ ops, op.wf)
    (c : Cfg) (o : BuildOpts) (fuel : Nat) (env st' : BState) (hwf : (Op.build c o fuel env).wf)
    (h : Build.build c o fuel { env with store := run ops } = .ok ((), st')) :
    status c.index (ops ++ [.build c o fuel env]) =
      .built c.metric c.dims ((run ops).keysOf c.index modeItem) false ∧
    (∃ roots, Reader.open c (run (ops ++ [.build c o fuel env])) =
      .ok ⟨roots, c.dims, (run ops).keysOf c.index modeItem⟩) ∧
    Writer.needBuild c (run (ops ++ [.build c o fuel env])) = false := by
  have hst : status c.index (ops ++ [.build c o fuel env]) =
      .built c.metric c.dims ((run ops).keysOf c.index modeItem) false := by
    rw [status_snoc]
    have he : effective c.index (run ops) (.build c o fuel env) = true := by
      simp [effective, accepted, Op.cfg, h, okB]
    unfold statusStep
    rw [if_pos he]; rfl
  have hops' : ∀ op ∈ ops ++ [Op.build c o fuel env], op.wf := by
    intro op hop
    rcases List.mem_append.1 hop with h' | h'
    · exact hops op h'
    · rw [List.mem_singleton] at h'; subst h'; exact hwf
  obtain ⟨ho, hn⟩ := C06_history_open _ hops' c hwf.1
  rw [hst] at ho hn
  refine ⟨hst, ?_, hn⟩
  have ho' : (if c.metric ≠ c.metric then _ else if false = true then _ else
      ∃ roots, Reader.open c (run (ops ++ [.build c o fuel env])) =
        .ok ⟨roots, c.dims, (run ops).keysOf c.index modeItem⟩) := ho
  rw [if_neg (by simp), if_neg (by simp)] at ho'
  exact ho'

/-- **operations that change nothing do not make an index stale (nor fresh)**: appending to a well-formed
    history an operation that is not effective on index `c.index` — a rejected `add` / `append`, a `del` of an
    absent id, a failed build, a `prepare` to the metric of its `Cfg`, or ANY operation of another index —
    changes neither the status of the index, nor the result of `Reader.open c`, nor `Writer.needBuild c` -/
theorem C06_noop_history (ops : List Op) (hops : ∀ op ∈ ops, op.wf) (op : Op) (hop : op.wf)
    (c : Cfg) (hi : c.index < 65536) (hne : effective c.index (run ops) op = false) :
    status c.index (ops ++ [op]) = status c.index ops ∧
    Reader.open c (run (ops ++ [op])) = Reader.open c (run ops) ∧
    Writer.needBuild c (run (ops ++ [op])) = Writer.needBuild c (run ops) := by
  have hops' : ∀ op' ∈ ops ++ [op], op'.wf := by
    intro op' h
    rcases List.mem_append.1 h with h' | h'
    · exact hops op' h'
    · rw [List.mem_singleton] at h'; subst h'; exact hop
  have hinv : ∀ c : Cfg, c.index < 65536 → IndexInv c (run ops) := C01.C01_invariant ops hops
  have hw : Store.WF (run ops) := (hinv c hi).1.2.1
  have hw' : Store.WF (run (ops ++ [op])) := (C01.C01_invariant _ hops' c hi).1.2.1
  have hk := step_not_effective (run ops) op hop hinv c hne
  rw [← run_snoc] at hk
  refine ⟨?_, open_congr_get hw hw' hi hk⟩
  rw [status_snoc]; unfold statusStep; rw [if_neg (by simp [hne])]

/-- an operation that the model does not accept (or that is a `prepare` to the same metric) leaves the whole
    store, hence every index, as it was -/
theorem C06_noop_history_all (ops : List Op) (op : Op) (h : accepted (run ops) op = false) :
    run (ops ++ [op]) = run ops ∧ ∀ i, status i (ops ++ [op]) = status i ops := by
  refine ⟨by rw [run_snoc, step_not_accepted _ _ h], fun i => ?_⟩
  rw [status_snoc]; unfold statusStep
  rw [if_neg (by simp [(effective_false_iff i (run ops) op).2 (Or.inr h)])]

/-- after a well-formed history `prepare_changing_distance` is never rejected: it is effective exactly when
    it goes to another metric than the one of its `Cfg` -/
theorem C06_prepare_accepted (ops : List Op) (hops : ∀ op ∈ ops, op.wf) (c : Cfg) (hi : c.index < 65536)
    (m' : Metric) : accepted (run ops) (.prepare c m') = (m' != c.metric) := by
  by_cases hm : m' = c.metric
  · simp [accepted, hm]
  · have hinv := C01.C01_invariant ops hops c hi
    obtain ⟨s', h, _⟩ := C18.C18_change c m' (run ops) hm hinv.1.2.1 hinv.1.1 hi hinv.1.2.2.1
    simp [accepted, h, okB]

/-- the effective item operations make a built index dirty and keep the build's metric, dimension and item
    list; a never-built index stays never-built -/
theorem C06_dirty_after_write (ops : List Op) (op : Op) (c : Cfg) (he : effective c.index (run ops) op = true)
    (hitem : (∃ id vec, op = .add c id vec) ∨ (∃ id vec, op = .append c id vec) ∨ ∃ id, op = .del c id) :
    status c.index (ops ++ [op]) = (status c.index ops).touch := by
  rw [status_snoc]; unfold statusStep; rw [if_pos he]
  rcases hitem with ⟨id, vec, rfl⟩ | ⟨id, vec, rfl⟩ | ⟨id, rfl⟩ <;> rfl

/-- `clear`, and `prepare` towards another metric, leave the index never-built -/
theorem C06_neverBuilt_after (ops : List Op) (hops : ∀ op ∈ ops, op.wf) (c : Cfg) (hi : c.index < 65536) :
    status c.index (ops ++ [.clear c]) = .neverBuilt ∧
    ∀ m', m' ≠ c.metric → status c.index (ops ++ [.prepare c m']) = .neverBuilt := by
  constructor
  · rw [status_snoc]; simp [statusStep, effective, accepted, Op.cfg, Status.after]
  · intro m' hm
    have he : effective c.index (run ops) (.prepare c m') = true := by
      unfold effective
      rw [C06_prepare_accepted ops hops c hi m']
      simp [Op.cfg, hm]
    rw [status_snoc]; unfold statusStep; rw [if_pos he]; rfl

/-- a clean index serves exactly what is stored: if the status is clean, the item list of the last build
    (the one an opened reader gets) is the list of the item ids stored now -/
theorem C06_clean_items (ops : List Op) (hops : ∀ op ∈ ops, op.wf) (c : Cfg) (hi : c.index < 65536)
    (m : Metric) (d : Nat) (items : List Nat) (hst : status c.index ops = .built m d items false) :
    (run ops).keysOf c.index modeItem = items := by
  have ha := C06_status_agrees ops hops c
  rw [hst] at ha
  obtain ⟨⟨roots, hg⟩, hd⟩ := ha
  refine items_eq_keysOf_of_inv (C01.C01_invariant ops hops c hi) hi hg (fun id => ?_)
  cases hx : Store.get (run ops) (c.updatedKey id) with
  | none => rfl
  | some v => exact Bool.noConfusion (hd.2 ⟨id, by rw [hx]; rfl⟩)

/-! ## non-vacuity: a concrete history (index 0 of `C01Examples`, Euclidean, dimension 2; index 1 beside it)

Every status below is computed by the kernel from the definition (`decide +kernel`): the builds really run. -/
namespace Ex
open C01.Ex

def e0 : BState := { store := [] }
def cCosine : Cfg := { cEx with metric := .cosine }
def c3 : Cfg := { cEx with dims := 3 }
def c1 : Cfg := { index := 1, metric := .euclidean, dims := 2 }

/-- five items added, then built -/
def hBuilt : List Op := ops1
/-- … then a delete of an absent id and an `add` rejected for its length -/
def hNoop : List Op := hBuilt ++ [.del cEx 9, .add cEx 7 [f1]]
/-- … then item 1 overwritten -/
def hOver : List Op := hNoop ++ [.add cEx 1 [f1, f1]]
/-- … then a build that is cancelled at its first poll -/
def hFailed : List Op := hOver ++ [.build cEx oLeaf 0 { store := [], cancelAt := some 1 }]
/-- … then a build that succeeds -/
def hRebuilt : List Op := hFailed ++ [.build cEx oLeaf 0 e0]
/-- … then an item of index 1 is written, after which an `append` to index 0 is rejected (its key is not
    the greatest of the store any more) -/
def hOther : List Op := hRebuilt ++ [.add c1 0 [f1, f1], .append cEx 7 [f1, f1]]
/-- … then the metric of index 0 is changed -/
def hChanged : List Op := hOther ++ [.prepare cEx .cosine]
/-- a present item deleted and added again with the very same vector -/
def hDelAdd : List Op := hBuilt ++ [.del cEx 2, .add cEx 2 [f1, fm1]]
/-- an index built while empty -/
def hEmpty : List Op := [.build cEx oLeaf 0 e0]
/-- builds under a `Cfg` whose metric / dimension differ from the one of the writes: the model accepts them -/
def hCosBuild : List Op := hBuilt ++ [.build cCosine oLeaf 0 e0]
def hDimBuild : List Op := hBuilt ++ [.build c3 oLeaf 0 e0]

theorem hChanged_wf : ∀ op ∈ hChanged, op.wf := by decide
theorem hOver_wf : ∀ op ∈ hOver, op.wf := fun op h => hChanged_wf op (by
  simp only [hChanged, hOther, hRebuilt, hFailed, List.mem_append] at h ⊢; exact Or.inl (Or.inl (Or.inl (Or.inl h))))
theorem hRebuilt_wf : ∀ op ∈ hRebuilt, op.wf := fun op h => hChanged_wf op (by
  simp only [hChanged, hOther, List.mem_append] at h ⊢; exact Or.inl (Or.inl h))

/-- the statuses along the history: clean after the build; still clean after the absent delete and the
    rejected add; dirty after the overwrite; still dirty after the failed build; clean after the rebuild
    (item list of that build); unchanged by the write to index 1 and the rejected append; never-built after
    the metric change -/
theorem statuses :
    status 0 hBuilt = .built .euclidean 2 [0, 1, 2, 3, 4] false ∧
    status 0 hNoop = .built .euclidean 2 [0, 1, 2, 3, 4] false ∧
    status 0 hOver = .built .euclidean 2 [0, 1, 2, 3, 4] true ∧
    status 0 hFailed = .built .euclidean 2 [0, 1, 2, 3, 4] true ∧
    status 0 hRebuilt = .built .euclidean 2 [0, 1, 2, 3, 4] false ∧
    status 0 hOther = .built .euclidean 2 [0, 1, 2, 3, 4] false ∧
    status 1 hOther = .neverBuilt ∧
    status 0 hChanged = .neverBuilt := by decide +kernel

/-- the corner cases: delete + add of the same id and vector is dirty; an index built while empty is clean
    with no items; a build under another metric / dimension than the writes is recorded as such -/
theorem statuses_corner :
    status 0 hDelAdd = .built .euclidean 2 [0, 1, 2, 3, 4] true ∧
    status 0 hEmpty = .built .euclidean 2 [] false ∧
    status 0 hCosBuild = .built .cosine 2 [0, 1, 2, 3, 4] false ∧
    status 0 hDimBuild = .built .euclidean 3 [0, 1, 2, 3, 4] false := by decide +kernel

/-- which operations were (not) effective -/
example :
    effective 0 (run hBuilt) (.del cEx 9) = false ∧ effective 0 (run hBuilt) (.del cEx 2) = true ∧
    accepted (run hBuilt) (.add cEx 7 [f1]) = false ∧
    accepted (run hOver) (.build cEx oLeaf 0 { store := [], cancelAt := some 1 }) = false ∧
    accepted (run hFailed) (.build cEx oLeaf 0 e0) = true ∧
    accepted (run (hRebuilt ++ [.add c1 0 [f1, f1]])) (.append cEx 7 [f1, f1]) = false ∧
    accepted (run hRebuilt) (.append cEx 7 [f1, f1]) = true ∧
    effective 0 (run hRebuilt) (.add c1 0 [f1, f1]) = false ∧
    effective 1 (run hRebuilt) (.add c1 0 [f1, f1]) = true ∧
    accepted (run hOther) (.prepare cEx .euclidean) = false ∧
    accepted (run hOther) (.prepare cEx .cosine) = true := by decide +kernel

attribute [local irreducible] run status

/-- `C06_history` on these histories: dirty → `NeedBuild`, and `need_build` is true -/
example : Reader.open cEx (run hOver) = .error (.needBuild 0) ∧ Writer.needBuild cEx (run hOver) = true := by
  have h := C06_history hOver hOver_wf cEx (by decide)
  exact ⟨h.2.2.1.2 ⟨_, _, statuses.2.2.1⟩, h.2.2.2.2.2.2 (Or.inr ⟨_, _, _, statuses.2.2.1⟩)⟩

/-- rebuilt → the reader opens with the items of the rebuild, which are the stored ones; `need_build` false -/
example : (∃ roots, Reader.open cEx (run hRebuilt) = .ok ⟨roots, 2, [0, 1, 2, 3, 4]⟩) ∧
    Writer.needBuild cEx (run hRebuilt) = false ∧ (run hRebuilt).keysOf 0 modeItem = [0, 1, 2, 3, 4] := by
  have h := C06_history_open hRebuilt hRebuilt_wf cEx (by decide)
  have hs : status cEx.index hRebuilt = .built .euclidean 2 [0, 1, 2, 3, 4] false := statuses.2.2.2.2.1
  refine ⟨((C06_history hRebuilt hRebuilt_wf cEx (by decide)).2.2.2.1 2 [0, 1, 2, 3, 4]).2 hs, ?_,
    C06_clean_items hRebuilt hRebuilt_wf cEx (by decide) _ _ _ hs⟩
  rw [h.2, hs]; rfl

/-- opened under the wrong metric: `UnmatchingDistance`, although the index is clean -/
example : Reader.open cCosine (run hRebuilt) =
    .error (.unmatchingDistance Metric.euclidean.nameBytes Metric.cosine.nameBytes) :=
  ((C06_history hRebuilt hRebuilt_wf cCosine (by decide)).2.1 _).2
    ⟨_, _, _, _, statuses.2.2.2.2.1, by decide, rfl⟩

/-- after the metric change: `MissingMetadata`, for the old and for the new metric -/
example : Reader.open cEx (run hChanged) = .error (.missingMetadata 0) ∧
    Reader.open cCosine (run hChanged) = .error (.missingMetadata 0) ∧ Writer.needBuild cCosine (run hChanged) = true :=
  ⟨(C06_history hChanged hChanged_wf cEx (by decide)).1.2 statuses.2.2.2.2.2.2.2,
   (C06_history hChanged hChanged_wf cCosine (by decide)).1.2 statuses.2.2.2.2.2.2.2,
   (C06_history hChanged hChanged_wf cCosine (by decide)).2.2.2.2.2.2 (Or.inl statuses.2.2.2.2.2.2.2)⟩

/-- `C06_noop_history`: the absent delete after the build changes nothing -/
example : Reader.open cEx (run (hBuilt ++ [.del cEx 9])) = Reader.open cEx (run hBuilt) :=
  (C06_noop_history hBuilt (fun op h => hOver_wf op (by
      simp only [hOver, hNoop, List.mem_append] at h ⊢; exact Or.inl (Or.inl h))) (.del cEx 9) (by decide) cEx
    (by decide) (by decide +kernel)).2.1

theorem rebuild_ok : okB (Build.build cEx oLeaf 0 { e0 with store := run hFailed }) = true := by decide +kernel

/-- `C06_opens_right_after_build`: its hypotheses hold for the rebuild (after a dirty state and a failed build) -/
example : ∃ roots, Reader.open cEx (run (hFailed ++ [.build cEx oLeaf 0 e0])) =
    .ok ⟨roots, 2, (run hFailed).keysOf 0 modeItem⟩ := by
  have hok := rebuild_ok
  cases hb : Build.build cEx oLeaf 0 { e0 with store := run hFailed } with
  | error e => rw [hb] at hok; cases hok
  | ok r =>
    obtain ⟨u, st'⟩ := r
    exact (C06_opens_right_after_build hFailed (fun op h => hRebuilt_wf op (by
      simp only [hRebuilt, List.mem_append] at h ⊢; exact Or.inl h)) cEx oLeaf 0 e0 st' (by decide) hb).2.1

end Ex

end Arroy.C06
