import ArroyProofs.Properties.C01
import ArroyProofs.ForestUnique
/-! # C01 — the executable checker `Check.forestValid` accepts every valid forest

`Check.forestValid` is what the harness runs on the dumps of the real crate; this file proves that it
reports nothing on a store satisfying the `Forest` predicate of the theorems (soundness of the
theorems' conclusion w.r.t. the tested predicate), in particular after every successful build. -/
namespace Arroy.C01
open Arroy Generated Transp IdSet

theorem nodup_true {l : List Nat} (h : l.Nodup) : Check.nodup l = true := by
  simp [Check.nodup, length_ofList h]

theorem bad_nil (c : Cfg) (s : Store) (roots : List Nat) (ts : List T)
    (hre : roots.map (fun r => reify c s (s.length + 1) (NodeId.mkTree r)) = ts.map some)
    (g : Nat × Option T → Option String) (hg : ∀ p, p.2.isNone = false → g p = none) :
    List.filterMap g (List.map (fun r => (r, reify c s (s.length + 1) (NodeId.mkTree r))) roots) = [] := by
  rw [List.filterMap_eq_nil_iff]
  intro p hp
  obtain ⟨r, hr, rfl⟩ := List.mem_map.1 hp
  apply hg
  have : reify c s (s.length + 1) (NodeId.mkTree r) ∈ ts.map some := by
    rw [← hre]; exact List.mem_map_of_mem (f := fun r => reify c s (s.length + 1) (NodeId.mkTree r)) hr
  obtain ⟨t, _, ht⟩ := List.mem_map.1 this
  simp only
  rw [← ht]; rfl

/-- a built index whose metadata lists the stored items and whose roots carry a valid forest -/
theorem C01_checker_sound (c : Cfg) (s : Store) (name : Bytes) (dims : Nat) (items roots : List Nat) (ts : List T)
    (hi : c.index < 65536) (hs : Store.Sorted s) (hw : Store.WF s)
    (hm : Store.get s c.metaKey = some (.metadata name dims items roots))
    (f : Forest c s roots items ts) (hitems : items = s.keysOf c.index modeItem) :
    Check.forestValid c s = [] := by
  have hre := f.reify_eq
  have hts : List.filterMap (fun x : Nat × Option T => x.snd)
      (List.map (fun r => (r, reify c s (s.length + 1) (NodeId.mkTree r))) roots) = ts := by
    apply filterMap_map_some
    rw [List.map_map]
    exact hre
  have hsi : Sorted (s.keysOf c.index modeItem) := Store.keysOf_sorted hs hw _ _ hi (by decide)
  have h1 : Check.nodup (List.flatMap T.ids ts) = true := nodup_true f.ids_nodup
  have h2 : (ofList (List.flatMap T.ids ts) == s.keysOf c.index modeTree) = true := by
    have : ofList (List.flatMap T.ids ts) = s.keysOf c.index modeTree := by
      apply sorted_ext (sorted_ofList _) (Store.keysOf_sorted hs hw _ _ hi (by decide))
      intro id
      rw [mem_ofList, Store.mem_keysOf_iff hw _ _ _ hi (by decide), ← f.cover id]
      rfl
    rw [this]; exact beq_self_eq_true _
  have h3 : (items == s.keysOf c.index modeItem) = true := by rw [hitems]; exact beq_self_eq_true _
  have h5 : Check.nodup roots = true := nodup_true f.roots_nodup
  unfold Check.forestValid
  simp only [hm]
  rw [bad_nil c s roots ts hre _ (by intro p hp; simp only [hp, Bool.false_eq_true, ↓reduceIte])]
  simp only [List.isEmpty_nil, Bool.not_true, Bool.false_eq_true, ↓reduceIte, hts, h1, h2, h3, h5,
    List.append_nil, List.nil_append]
  rw [List.flatMap_eq_nil_iff]
  intro x hx
  have hx2 : x.2 ∈ ts := (List.of_mem_zip hx).2
  have e1 : Check.nodup x.2.items = true := nodup_true (f.items_nodup _ hx2)
  have e2 : (ofList x.2.items == s.keysOf c.index modeItem) = true := by
    have : ofList x.2.items = s.keysOf c.index modeItem := by
      apply sorted_ext (sorted_ofList _) hsi
      intro y
      rw [mem_ofList, f.reach _ hx2 y, hitems]
    rw [this]; exact beq_self_eq_true _
  simp only [e1, e2, ↓reduceIte, List.append_nil]

/-- an index that was never built: no metadata, no tree node -/
theorem C01_checker_sound_unbuilt (c : Cfg) (s : Store) (hi : c.index < 65536) (hw : Store.WF s)
    (h : Unbuilt c s) : Check.forestValid c s = [] := by
  unfold Check.forestValid
  simp only [h.1]
  have : s.keysOf c.index modeTree = [] := by
    cases hk : s.keysOf c.index modeTree with
    | nil => rfl
    | cons id rest =>
      have hmem : id ∈ s.keysOf c.index modeTree := by rw [hk]; simp
      rw [Store.mem_keysOf_iff hw _ _ _ hi (by decide)] at hmem
      have := h.2 id
      simp only [Cfg.treeKey, Key.mkTree] at this
      rw [this] at hmem
      simp at hmem
  simp [this]

/-- **the checker's verdict after a successful build**: `Check.forestValid` reports nothing -/
theorem C01_checker_build (c : Cfg) (o : BuildOpts) (fuel : Nat) (st st' : BState)
    (hi : c.index < 65536) (hcap : 1 ≤ Build.cap c o) (hfresh : FreshSupply)
    (hinv : IndexInvW c st.store) (h : Build.build c o fuel st = .ok ((), st')) :
    Check.forestValid c st'.store = [] := by
  obtain ⟨roots0, items0, ts0, old⟩ := Old.of_inv hinv hi
  obtain ⟨roots', ts', b⟩ := C01_build_out c o fuel st st' roots0 items0 ts0 hi hcap hfresh hinv.1 hinv.2.1 old h
  have hinv' := b.invW hinv.1 hinv.2.1 hinv.2.2.1 hi
  refine C01_checker_sound c st'.store _ _ _ roots' ts' hi hinv'.1 hinv'.2.1 b.metadata b.forest ?_
  -- the stored items are those before the build
  apply sorted_ext (Store.keysOf_sorted hinv.1 hinv.2.1 _ _ hi (by decide))
    (Store.keysOf_sorted hinv'.1 hinv'.2.1 _ _ hi (by decide))
  intro id
  rw [Store.mem_keysOf_iff hinv.2.1 _ _ _ hi (by decide), Store.mem_keysOf_iff hinv'.2.1 _ _ _ hi (by decide)]
  have := b.present id
  simp only [Cfg.itemKey, Key.mkItem] at this
  rw [this]

/-- and in every state a history reaches right after a successful build -/
theorem C01_checker_history (hfresh : FreshSupply) (ops : List Op) (hops : ∀ op ∈ ops, op.wf)
    (c : Cfg) (o : BuildOpts) (fuel : Nat) (env st' : BState) (hwf : (Op.build c o fuel env).wf)
    (h : Build.build c o fuel { env with store := run ops } = .ok ((), st')) :
    Check.forestValid c (run (ops ++ [.build c o fuel env])) = [] := by
  rw [(C01_history hfresh ops hops c o fuel env st' hwf h).1]
  exact C01_checker_build c o fuel _ st' hwf.1 hwf.2.1 hfresh (C01_history_inv hfresh ops hops c hwf.1).1 h

end Arroy.C01
