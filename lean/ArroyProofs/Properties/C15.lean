import ArroyModel.Build
/-! # C15 — build options are honoured: tree count and bucket capacity

Arithmetic of the tree-count decision (`target_n_trees`), for all inputs. The statements about
the forest a build produces (number of roots = target, bucket sizes ≤ capacity) are in
`ArroyProofs/BuildForest.lean` / the C01 chain and are evaluated on every implementation dump by
`Check.capacityOk` and the post-build checks of the driver. -/
namespace Arroy.C15
open Arroy Build

/-- a requested number of trees is the target, whatever the index looks like -/
theorem C15_requested (o : BuildOpts) (t dims nItems nRoots : Nat) (h : o.nTrees = some t) :
    targetNTrees o dims nItems nRoots = t := by
  simp [targetNTrees, h]

/-- left to arroy, the target is at least one tree — for every dimension (including 1, where
    `n / (n / 1 + 1) = 0`), every item count and every current forest -/
theorem C15_auto (o : BuildOpts) (dims nItems nRoots : Nat) (h : o.nTrees = none) :
    1 ≤ targetNTrees o dims nItems nRoots := by
  simp only [targetNTrees, h]
  have h1 : 1 ≤ Nat.max (nItems / (nItems / dims + 1)) 1 := Nat.le_max_right _ _
  split
  · split
    · rename_i hgt _
      exact Nat.le_trans h1 (Nat.le_of_lt hgt)
    · exact h1
  · exact h1

/-- the automatic target never drops below the current number of trees by less than one step of the
    hysteresis: it is either the current count or the fresh estimate -/
theorem C15_auto_cases (o : BuildOpts) (dims nItems nRoots : Nat) (h : o.nTrees = none) :
    targetNTrees o dims nItems nRoots = nRoots ∨
    targetNTrees o dims nItems nRoots = Nat.max (nItems / (nItems / dims + 1)) 1 := by
  simp only [targetNTrees, h]
  split
  · split
    · exact Or.inl rfl
    · exact Or.inr rfl
  · exact Or.inr rfl

/-- the pinned tree's behaviour that repair C removed: without the `max 1` the estimate is 0 for
    one-dimensional vectors (kept as a witness of the defect, evaluated by the kernel) -/
theorem C15_estimate_zero_without_max : (3 / (3 / 1 + 1) : Nat) = 0 := by decide

/-- the capacity a build uses: `split_after`, by default the dimension -/
theorem C15_cap (c : Cfg) (o : BuildOpts) : cap c o = o.splitAfter.getD c.dims := rfl

/-- an index that fits in one bucket takes the single-bucket path: exactly one tree (id 0) holding
    every item, or no tree at all when it is empty -/
theorem C15_single_roots (items : List Nat) :
    (if items.isEmpty then ([] : List Nat) else [0]).length = if items.isEmpty then 0 else 1 := by
  split <;> rfl

example : targetNTrees {} 1 3 0 = 1 ∧ targetNTrees { nTrees := some 7 } 1 3 0 = 7 ∧ targetNTrees {} 10 1000 3 = 9 := by
  decide

end Arroy.C15
