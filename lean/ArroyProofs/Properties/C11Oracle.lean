import ArroyModel.Driver
import ArroyProofs.Properties.C11Reported2
/-! # C11 — the run-time tolerance predicate never rejects a value the rounding theorems allow

The trace driver (`ArroyModel/Driver.lean`) judges the kernels and the reported distances of the real crate
with integer arithmetic: `Driver.exactOf`, `Driver.exactSum`, `Driver.withinTolerance`,
`Driver.definitionOracle`.  Here these definitions (the driver's own, imported, not copies) are tied to
the real-number semantics `SFR.toReal` and to the rounding theorems of `C11Real.lean` / `C11Reported*.lean`.

* `C11_exactOf_toReal`, `C11_exactOf_bounds`, `C11_exactOf_isSome`, `exactSum_eq`, `exactSum_spec` : the exact
  data the predicate works on are `2^300·Σ tᵢ` and `2^300·Σ|tᵢ|` of the real-number terms.
* `C11_E_le_tolerance` : `(1+u)^K − 1 ≤ (n+2)·2^-23` for `K ≤ n + 3 ≤ 2^22`.
* `C11_withinTolerance_margin`, `C11_withinTolerance_of_bound_K`, `C11_withinTolerance_of_bound` : a value
  within `((1+u)^K − 1)·Σ|tᵢ|` of the exact sum is accepted; the floor of `/ 2^23` never matters (the left
  side is an integer) and the additive slack `(n+2)·2^151` is not used at all.
* `C11_oracle_accepts_dot`, `C11_oracle_accepts_euclid`, `C11_oracle_accepts_manhattan_sum` : the kernel
  check of the driver accepts the model's own kernels under the flags of the C11 theorems.
* `C11_definitionOracle_accepts_dot / _euclidean / _manhattan` (here) and `_cosine`, `_cosine_chk`,
  `_cosine_zero`, `_cosine_tiny` (`C11OracleCosine.lean`) : `definitionOracle m` answers `some none` or
  `none` (not judged), never `some (some msg)`, on the value the reader reports.

Not covered: the quantised metrics (`m.isBq`, property C12). -/
namespace Arroy.C11
open Arroy Kernel SF SFR KernelRound ReportedReal Driver

/-! ## 1. `exactOf`, `scaled150`, `exactSum` in real numbers -/

/-- **`exactOf` is exact**: the pair `(m, e)` it returns denotes the real value of the bit pattern. -/
theorem C11_exactOf_toReal {x : Nat} {m e : Int} (h : exactOf x = some (m, e)) :
    toReal x = (m : ℝ) * (2 : ℝ) ^ e := by
  unfold exactOf at h
  split at h
  · rename_i neg m' e' hu
    cases h
    rw [toReal_of_unpack hu, sgn_int]
    push_cast
    ring
  · cases h

/-- `exactOf` answers exactly on the finite patterns; mantissa below `2^24`, exponent in `[-149, 104]` -/
theorem C11_exactOf_bounds {x : Nat} {m e : Int} (h : exactOf x = some (m, e)) :
    Finite x ∧ m.natAbs < 2 ^ 24 ∧ -149 ≤ e ∧ e ≤ 104 := by
  unfold exactOf at h
  split at h
  · rename_i neg m' e' hu
    cases h
    obtain ⟨b1, b2, b3⟩ := unpack_fin_bounds hu
    refine ⟨finite_of_unpack hu, ?_, b2, b3⟩
    cases neg <;> simpa using b1
  · cases h

theorem C11_exactOf_isSome (x : Nat) : (exactOf x).isSome = true ↔ Finite x := by
  rw [finite_iff]
  unfold exactOf
  constructor
  · intro h
    split at h
    · rename_i neg m e hu; exact ⟨neg, m, e, hu⟩
    · cases h
  · rintro ⟨n, m, e, hu⟩
    rw [hu]; rfl

/-- the real value of an exact pair -/
noncomputable def pairReal (v : Int × Int) : ℝ := (v.1 : ℝ) * (2 : ℝ) ^ v.2

theorem scaled150_real (v : Int × Int) (hv : -150 ≤ v.2) :
    (scaled150 v : ℝ) = (2 : ℝ) ^ (150 : ℕ) * pairReal v := by
  unfold scaled150 pairReal
  push_cast
  have : (2 : ℝ) ^ ((v.2 + 150).toNat) = (2 : ℝ) ^ (150 : ℕ) * (2 : ℝ) ^ v.2 := by
    rw [← zpow_natCast, ← zpow_natCast, ← zpow_add₀ two_ne_zero]
    congr 1
    omega
  rw [this]; ring

/-- the integer term `exactSum` adds for one pair of operands -/
def termInt (euclid : Bool) (p : (Int × Int) × (Int × Int)) : Int :=
  if euclid then (scaled150 p.1 - scaled150 p.2) * (scaled150 p.1 - scaled150 p.2)
  else scaled150 p.1 * scaled150 p.2

theorem exactSum_foldl (euclid : Bool) (terms : List ((Int × Int) × (Int × Int))) (acc : Int × Int) :
    terms.foldl (fun (acc : Int × Int) (p : (Int × Int) × (Int × Int)) =>
        (acc.1 + termInt euclid p, acc.2 + ((termInt euclid p).natAbs : Int))) acc
      = (acc.1 + (terms.map (termInt euclid)).sum,
         acc.2 + (terms.map (fun p => ((termInt euclid p).natAbs : Int))).sum) := by
  induction terms generalizing acc with
  | nil => simp
  | cons p t ih =>
    rw [List.foldl_cons, ih]
    simp only [List.map_cons, List.sum_cons]
    ext <;> simp only <;> ring

/-- **`exactSum` is a pair of plain integer sums** (the accumulator of the fold unrolled) -/
theorem exactSum_eq (terms : List ((Int × Int) × (Int × Int))) (euclid : Bool) :
    exactSum terms euclid
      = ((terms.map (termInt euclid)).sum, (terms.map (fun p => ((termInt euclid p).natAbs : Int))).sum) := by
  have h := exactSum_foldl euclid terms (0, 0)
  simp only [Int.zero_add] at h
  rw [← h]
  rfl

theorem termInt_real (euclid : Bool) (p : (Int × Int) × (Int × Int)) (h1 : -150 ≤ p.1.2) (h2 : -150 ≤ p.2.2) :
    (termInt euclid p : ℝ) = (2 : ℝ) ^ (300 : ℕ) *
      (if euclid then (pairReal p.1 - pairReal p.2) * (pairReal p.1 - pairReal p.2)
       else pairReal p.1 * pairReal p.2) := by
  have e : (2 : ℝ) ^ (300 : ℕ) = (2 : ℝ) ^ (150 : ℕ) * (2 : ℝ) ^ (150 : ℕ) := by rw [← pow_add]
  unfold termInt
  cases euclid
  · simp only [Bool.false_eq_true, if_false]
    push_cast
    rw [scaled150_real _ h1, scaled150_real _ h2, e]; ring
  · simp only [if_true]
    push_cast
    rw [scaled150_real _ h1, scaled150_real _ h2, e]; ring

/-- the real-number term of the two kernels on bit patterns -/
noncomputable def termReal (euclid : Bool) (a b : Nat) : ℝ :=
  if euclid then (toReal a - toReal b) * (toReal a - toReal b) else toReal a * toReal b

theorem termReal_false : termReal false = fun a b => toReal a * toReal b := by
  funext a b; simp [termReal]
theorem termReal_true : termReal true = fun a b => (toReal a - toReal b) * (toReal a - toReal b) := by
  funext a b; simp [termReal]

/-- `mapM exactOf` succeeds exactly when every component is finite, and then lists the exact pairs -/
theorem mapM_exactOf_forall₂ : ∀ (x : List Nat) (ea : List (Int × Int)), x.mapM exactOf = some ea →
    List.Forall₂ (fun a v => exactOf a = some v) x ea := by
  intro x
  induction x with
  | nil =>
    intro ea h
    simp at h
    subst h
    exact List.Forall₂.nil
  | cons a t ih =>
    intro ea h
    rw [List.mapM_cons] at h
    cases ha : exactOf a with
    | none => rw [ha] at h; simp at h
    | some v =>
      rw [ha] at h
      cases ht : t.mapM exactOf with
      | none => rw [ht] at h; simp at h
      | some et =>
        rw [ht] at h
        simp at h
        subst h
        exact List.Forall₂.cons ha (ih et ht)

theorem mapM_exactOf_of_finite : ∀ (x : List Nat), (∀ a ∈ x, Finite a) → ∃ ea, x.mapM exactOf = some ea := by
  intro x
  induction x with
  | nil => intro _; exact ⟨[], by simp⟩
  | cons a t ih =>
    intro h
    obtain ⟨et, ht⟩ := ih (fun b hb => h b (List.mem_cons_of_mem _ hb))
    have ha := (C11_exactOf_isSome a).2 (h a List.mem_cons_self)
    obtain ⟨v, hv⟩ := Option.isSome_iff_exists.1 ha
    exact ⟨v :: et, by rw [List.mapM_cons, hv, ht]; rfl⟩

theorem terms_real (euclid : Bool) : ∀ (x : List Nat) (ea : List (Int × Int)) (y : List Nat) (eb : List (Int × Int)),
    List.Forall₂ (fun a v => exactOf a = some v) x ea →
    List.Forall₂ (fun a v => exactOf a = some v) y eb →
    (List.zip ea eb).map (fun p => (termInt euclid p : ℝ))
      = (List.zipWith (termReal euclid) x y).map (fun t => (2 : ℝ) ^ (300 : ℕ) * t) := by
  intro x ea y eb hx
  induction hx generalizing y eb with
  | nil => intro _; simp
  | @cons a v t et hav _ ih =>
    intro hy
    cases hy with
    | nil => simp
    | @cons b w s es hbw hs =>
      simp only [List.zip_cons_cons, List.map_cons, List.zipWith_cons_cons]
      rw [ih s es hs]
      congr 1
      obtain ⟨ma, ea'⟩ := v
      obtain ⟨mb, eb'⟩ := w
      have ba := (C11_exactOf_bounds hav).2.2.1
      have bb := (C11_exactOf_bounds hbw).2.2.1
      rw [termInt_real euclid _ (by show -150 ≤ ea'; omega) (by show -150 ≤ eb'; omega)]
      unfold termReal pairReal
      rw [C11_exactOf_toReal hav, C11_exactOf_toReal hbw]

theorem cast_list_sum (l : List Int) : (Int.cast l.sum : ℝ) = (l.map (fun z : Int => (Int.cast z : ℝ))).sum := by
  induction l with
  | nil => simp
  | cons a t ih => simp [ih]

theorem sum_map_mul_left (c : ℝ) (l : List ℝ) : (l.map (fun t => c * t)).sum = c * l.sum := by
  induction l with
  | nil => simp
  | cons a t ih => simp [ih, mul_add]

/-- **`exactSum` is exact**: for vectors of finite bit patterns (`mapM exactOf` succeeds on both), the first
component is `2^300 · Σ tᵢ` and the second `2^300 · Σ |tᵢ|`, with `tᵢ = toReal aᵢ · toReal bᵢ`
(`euclid = false`) or `tᵢ = (toReal aᵢ − toReal bᵢ)²` (`euclid = true`) — the sums over
`List.zipWith … x y` exactly as in the statements of `C11_round_f32_dot_product` /
`C11_round_f32_euclidean_distance`. -/
theorem exactSum_spec (euclid : Bool) (x y : List Nat) (ea eb : List (Int × Int))
    (hx : x.mapM exactOf = some ea) (hy : y.mapM exactOf = some eb) :
    ((exactSum (List.zip ea eb) euclid).1 : ℝ)
      = (2 : ℝ) ^ (300 : ℕ) * (List.zipWith (termReal euclid) x y).sum ∧
    ((exactSum (List.zip ea eb) euclid).2 : ℝ)
      = (2 : ℝ) ^ (300 : ℕ) * ((List.zipWith (termReal euclid) x y).map (fun z => |z|)).sum := by
  have ht := terms_real euclid x ea y eb (mapM_exactOf_forall₂ x ea hx) (mapM_exactOf_forall₂ y eb hy)
  rw [exactSum_eq]
  constructor
  · show (Int.cast (List.map (termInt euclid) (List.zip ea eb)).sum : ℝ) = _
    rw [cast_list_sum, List.map_map]
    rw [show ((fun z : Int => (z : ℝ)) ∘ termInt euclid) = (fun p => (termInt euclid p : ℝ)) from rfl, ht,
      sum_map_mul_left]
  · show (Int.cast (List.map (fun p => ((termInt euclid p).natAbs : Int)) (List.zip ea eb)).sum : ℝ) = _
    rw [cast_list_sum, List.map_map]
    have e : ((fun z : Int => (z : ℝ)) ∘ fun p => ((termInt euclid p).natAbs : Int))
        = (fun z : ℝ => |z|) ∘ (fun p => (termInt euclid p : ℝ)) := by
      funext p
      show (((termInt euclid p).natAbs : Int) : ℝ) = |(termInt euclid p : ℝ)|
      rw [Int.natCast_natAbs, Int.cast_abs]
    rw [e, ← List.map_map, ht, List.map_map, ← sum_map_mul_left, List.map_map]
    congr 1
    apply List.map_congr_left
    intro t _
    show |(2 : ℝ) ^ (300 : ℕ) * t| = (2 : ℝ) ^ (300 : ℕ) * |t|
    rw [abs_mul, abs_of_pos (by positivity : (0 : ℝ) < (2 : ℝ) ^ (300 : ℕ))]

/-! ## 2. `withinTolerance` accepts whatever the rounding theorems allow -/

theorem u_eq' : u = 1 / (2 : ℝ) ^ (24 : ℕ) := by
  unfold u
  rw [zpow_neg, one_div]
  rfl

/-- **Bernoulli-type bound behind the tolerance**: for `K ≤ n + 3 ≤ 2^22` (so for `K = n + 1`, the dot
product and Manhattan sum, and for `K = n + 3`, the squared Euclidean distance),
`(1+u)^K − 1 ≤ (4/3)·(n+3)·u ≤ (n+2)·2^-23`. -/
theorem C11_E_le_tolerance (n K : Nat) (hK : K ≤ n + 3) (hn : n + 3 ≤ 2 ^ 22) :
    (1 + u) ^ K - 1 ≤ ((n : ℝ) + 2) / (2 : ℝ) ^ (23 : ℕ) := by
  have hu0 := u_nonneg
  have h1u : (1 : ℝ) ≤ 1 + u := by linarith
  have hmono : (1 + u) ^ K ≤ (1 + u) ^ (n + 3) := pow_le_pow_right₀ h1u hK
  have hnr : ((n + 3 : ℕ) : ℝ) ≤ (2 : ℝ) ^ (22 : ℕ) := by exact_mod_cast hn
  have hn0 : (0 : ℝ) ≤ (n : ℝ) := Nat.cast_nonneg n
  have hku : ((n + 3 : ℕ) : ℝ) * u ≤ 1 / 4 := by
    rw [u_eq']
    rw [mul_one_div, div_le_iff₀ (by positivity)]
    norm_num at hnr ⊢
    linarith
  have hb := pow_sub_one_le (c := 4 / 3) hu0 (n + 3) (by linarith) (by linarith)
  have e : (4 / 3 : ℝ) * (((n + 3 : ℕ) : ℝ) * u) ≤ ((n : ℝ) + 2) / (2 : ℝ) ^ (23 : ℕ) := by
    rw [u_eq']
    push_cast
    rw [le_div_iff₀ (by positivity)]
    have : (4 / 3 : ℝ) * (((n : ℝ) + 3) * (1 / (2 : ℝ) ^ (24 : ℕ))) * (2 : ℝ) ^ (23 : ℕ)
        = (2 / 3 : ℝ) * ((n : ℝ) + 3) := by
      norm_num; ring
    rw [this]; linarith
  linarith

/-- the value `got` that `withinTolerance` compares: `toReal impl · 2^300` -/
theorem got_real {impl : Nat} {m e : Int} (h : exactOf impl = some (m, e)) :
    ((m * (2 : Int) ^ ((e + 300).toNat) : Int) : ℝ) = (2 : ℝ) ^ (300 : ℕ) * toReal impl := by
  have b := (C11_exactOf_bounds h).2.2.1
  rw [C11_exactOf_toReal h]
  simp only [Int.cast_mul, Int.cast_pow, Int.cast_ofNat]
  have : (2 : ℝ) ^ ((e + 300).toNat) = (2 : ℝ) ^ (300 : ℕ) * (2 : ℝ) ^ e := by
    rw [← zpow_natCast, ← zpow_natCast, ← zpow_add₀ two_ne_zero]
    congr 1
    omega
  rw [this]
  generalize (2 : ℝ) ^ (300 : ℕ) = P
  ring

/-- **The floor in `/ 2^23` costs nothing, and the additive slack `(n+2)·2^151` is never needed**: the left
side `|got − exact|` is an integer, so from the real inequality it is already below the FLOORED relative
part of the tolerance.  Hypotheses: `exact = 2^300·S`, `absSum = 2^300·A` as real numbers, `0 ≤ A`,
`|toReal impl − S| ≤ ((1+u)^K − 1)·A`, `K ≤ n + 3 ≤ 2^22`. -/
theorem C11_withinTolerance_margin (n K : Nat) (exact absSum : Int) (S A : ℝ) (impl : Nat) (m e : Int)
    (himpl : exactOf impl = some (m, e))
    (hS : (exact : ℝ) = (2 : ℝ) ^ (300 : ℕ) * S) (hA : (absSum : ℝ) = (2 : ℝ) ^ (300 : ℕ) * A) (hA0 : 0 ≤ A)
    (hK : K ≤ n + 3) (hn : n + 3 ≤ 2 ^ 22)
    (hb : |toReal impl - S| ≤ ((1 + u) ^ K - 1) * A) :
    ((m * (2 : Int) ^ ((e + 300).toNat) - exact).natAbs : Int) ≤ (absSum * ((n : Int) + 2)) / (2 : Int) ^ 23 := by
  have hE := C11_E_le_tolerance n K hK hn
  have hP : (0 : ℝ) < (2 : ℝ) ^ (300 : ℕ) := by positivity
  have hQ : (0 : ℝ) < (2 : ℝ) ^ (23 : ℕ) := by positivity
  rw [Int.le_ediv_iff_mul_le (by positivity)]
  have hgoal : ((((m * (2 : Int) ^ ((e + 300).toNat) - exact).natAbs : Int) * (2 : Int) ^ 23 : Int) : ℝ)
      ≤ ((absSum * ((n : Int) + 2) : Int) : ℝ) := by
    rw [Int.natCast_natAbs]
    have hg := got_real himpl
    simp only [Int.cast_mul, Int.cast_pow, Int.cast_abs, Int.cast_sub, Int.cast_add, Int.cast_natCast,
      Int.cast_ofNat] at hg ⊢
    rw [hg, hS, hA, ← mul_sub, abs_mul, abs_of_pos hP]
    have h1 : |toReal impl - S| ≤ (((n : ℝ) + 2) / (2 : ℝ) ^ (23 : ℕ)) * A :=
      le_trans hb (mul_le_mul_of_nonneg_right hE hA0)
    have h2 : |toReal impl - S| * (2 : ℝ) ^ (23 : ℕ) ≤ ((n : ℝ) + 2) * A := by
      have := mul_le_mul_of_nonneg_right h1 hQ.le
      rwa [mul_assoc, mul_comm A, ← mul_assoc, div_mul_cancel₀ _ hQ.ne'] at this
    have h3 := mul_le_mul_of_nonneg_left h2 hP.le
    generalize (2 : ℝ) ^ (300 : ℕ) = P at h3 ⊢
    calc P * |toReal impl - S| * (2 : ℝ) ^ (23 : ℕ)
        = P * (|toReal impl - S| * (2 : ℝ) ^ (23 : ℕ)) := by ring
      _ ≤ P * (((n : ℝ) + 2) * A) := h3
      _ = P * A * ((n : ℝ) + 2) := by ring
  exact_mod_cast hgoal

/-- **`withinTolerance` never rejects a value within the bound of the C11 rounding theorems.**
`S`, `A` the exact sum and the sum of the absolute values of the terms (real numbers), `exact`, `absSum`
their integer images scaled by `2^300` (what `exactSum` computes, `exactSum_spec`); if
`|toReal impl − S| ≤ ((1+u)^K − 1)·A` with `K ≤ n + 3` and `n + 3 ≤ 2^22 = 4194304`, the predicate
answers `true`.  (`K = n + 1`: `C11_withinTolerance_of_bound`.)  The statement needs no lower bound on `A`:
the floor of `/ 2^23` is harmless for every size of the sum (`C11_withinTolerance_margin`), and a
non-finite `impl` is accepted by definition. -/
theorem C11_withinTolerance_of_bound_K (n K : Nat) (exact absSum : Int) (S A : ℝ) (impl : Nat)
    (hS : (exact : ℝ) = (2 : ℝ) ^ (300 : ℕ) * S) (hA : (absSum : ℝ) = (2 : ℝ) ^ (300 : ℕ) * A) (hA0 : 0 ≤ A)
    (hK : K ≤ n + 3) (hn : n + 3 ≤ 2 ^ 22)
    (hb : |toReal impl - S| ≤ ((1 + u) ^ K - 1) * A) :
    withinTolerance n exact absSum impl = true := by
  unfold withinTolerance
  cases himpl : exactOf impl with
  | none => rfl
  | some v =>
    obtain ⟨m, e⟩ := v
    have hm := C11_withinTolerance_margin n K exact absSum S A impl m e himpl hS hA hA0 hK hn hb
    have habs : 0 ≤ absSum := by
      have : (0 : ℝ) ≤ (absSum : ℝ) := by rw [hA]; positivity
      exact_mod_cast this
    have hq : 0 ≤ (absSum * ((n : Int) + 2)) / (2 : Int) ^ 23 :=
      Int.ediv_nonneg (Int.mul_nonneg habs (by omega)) (by positivity)
    have hs : (0 : Int) ≤ ((n : Int) + 2) * (2 : Int) ^ 151 := Int.mul_nonneg (by omega) (by positivity)
    simp only [decide_eq_true_eq]
    omega

/-- the form asked for: `K = n + 1` (scalar dot product / Manhattan sum of `n` terms) -/
theorem C11_withinTolerance_of_bound (n : Nat) (exact absSum : Int) (S A : ℝ) (impl : Nat)
    (hS : (exact : ℝ) = (2 : ℝ) ^ (300 : ℕ) * S) (hA : (absSum : ℝ) = (2 : ℝ) ^ (300 : ℕ) * A) (hA0 : 0 ≤ A)
    (hn : n + 3 ≤ 2 ^ 22)
    (hb : |toReal impl - S| ≤ ((1 + u) ^ (n + 1) - 1) * A) :
    withinTolerance n exact absSum impl = true :=
  C11_withinTolerance_of_bound_K n (n + 1) exact absSum S A impl hS hA hA0 (by omega) hn hb

/-! ## 3. the predicate accepts the model's own kernels -/

/-- **The driver's kernel check accepts the model's `dotProduct`.**  Under the hypotheses of
`C11_round_f32_dot_product` (equal lengths, run-time flag) and `n + 3 ≤ 2^22`, for the exact operands the
driver extracts (`mapM exactOf`, defined as soon as all components are finite —
`mapM_exactOf_of_finite`), `withinTolerance n exact absSum (dotProduct h x y)` with
`(exact, absSum) = exactSum (zip ea eb) false` is `true` — the very expression evaluated by the driver. -/
theorem C11_oracle_accepts_dot (h : Host) (x y : List Nat) (hl : x.length = y.length)
    (hrun : (dotProductG f32Chk h (chkIn x) (chkIn y)).2 = true) (hn : x.length + 3 ≤ 2 ^ 22)
    (ea eb : List (Int × Int)) (hx : x.mapM exactOf = some ea) (hy : y.mapM exactOf = some eb) :
    withinTolerance x.length (exactSum (List.zip ea eb) false).1 (exactSum (List.zip ea eb) false).2
      (dotProduct h x y) = true := by
  obtain ⟨hb, hK⟩ := C11_round_f32_dot_product h x y hl hrun
  obtain ⟨h1, h2⟩ := exactSum_spec false x y ea eb hx hy
  rw [termReal_false] at h1 h2
  exact C11_withinTolerance_of_bound_K x.length (dotDepth h x.length) _ _ _ _ _ h1 h2 (sum_abs_nonneg _)
    (by omega) hn hb

/-- **… and the model's squared Euclidean distance** (`K = euclidDepth h n ≤ n + 3`, against the
predicate's `n + 2`: `(1+u)^(n+3) − 1 ≤ (4/3)(n+3)u ≤ 2(n+2)u` for `n + 3 ≤ 2^22`). -/
theorem C11_oracle_accepts_euclid (h : Host) (x y : List Nat) (hl : x.length = y.length)
    (hrun : (euclideanDistanceG f32Chk h (chkIn x) (chkIn y)).2 = true) (hn : x.length + 3 ≤ 2 ^ 22)
    (ea eb : List (Int × Int)) (hx : x.mapM exactOf = some ea) (hy : y.mapM exactOf = some eb) :
    withinTolerance x.length (exactSum (List.zip ea eb) true).1 (exactSum (List.zip ea eb) true).2
      (euclideanDistance h x y) = true := by
  obtain ⟨hb, hK⟩ := C11_round_f32_euclidean_distance h x y hl hrun
  obtain ⟨h1, h2⟩ := exactSum_spec true x y ea eb hx hy
  rw [termReal_true] at h1 h2
  exact C11_withinTolerance_of_bound_K x.length (euclidDepth h x.length) _ _ _ _ _ h1 h2 (sum_abs_nonneg _)
    hK hn hb

/-- **… and the Manhattan sum judged by `withinTolerance`** in the generic form: the predicate applied to
any exact data `2^300·Σ|aᵢ−bᵢ|` accepts `manhattanDistance x y` (`K = n + 1`). -/
theorem C11_oracle_accepts_manhattan_sum (x y : List Nat) (hl : x.length = y.length)
    (hrun : (manhattanWith f32Chk (fun c => (F32.abs c.1, c.2)) (chkIn x) (chkIn y)).2 = true)
    (hn : x.length + 3 ≤ 2 ^ 22) (exact : Int)
    (hS : (exact : ℝ) = (2 : ℝ) ^ (300 : ℕ) * (List.zipWith (fun a b => |toReal a - toReal b|) x y).sum) :
    withinTolerance x.length exact exact (manhattanDistance x y) = true := by
  have hb := C11_round_f32_manhattan_distance x y hl hrun
  have hS' := hS
  rw [← abs_terms_abs] at hS'
  exact C11_withinTolerance_of_bound x.length exact exact _ _ _ hS hS' (sum_abs_nonneg _) hn hb

/-- **`definitionOracle .dot` never rejects the reported dot product** (`C11_reported_dot_eq`: the reported
value is `dotProduct h x y` itself): the answer is `some none` (accepted) or `none` (not judged: a
non-finite component, or `Σ|aᵢbᵢ| > 2^120`), never `some (some msg)`. -/
theorem C11_definitionOracle_accepts_dot (h : Host) (x y : List Nat) (hl : x.length = y.length)
    (hrun : (dotProductG f32Chk h (chkIn x) (chkIn y)).2 = true) (hn : x.length + 3 ≤ 2 ^ 22) :
    definitionOracle .dot x y (dotProduct h x y) = some none ∨
    definitionOracle .dot x y (dotProduct h x y) = none := by
  unfold definitionOracle
  rw [show Metric.isBq .dot = false from rfl]
  simp only [Bool.false_eq_true, if_false]
  split
  · rename_i ea eb r hx hy hr
    split
    · right; rfl
    · left
      rw [C11_oracle_accepts_dot h x y hl hrun hn ea eb hx hy]
      rfl
  · right; rfl

/-! ## 4. `definitionOracle .euclidean` / `.manhattan` accept the reported distances -/

theorem foldl_add_sum {α : Type} (f : Int → α → Int) (g : α → Int) (hf : ∀ acc p, f acc p = acc + g p) :
    ∀ (l : List α) (a : Int), l.foldl f a = a + (l.map g).sum := by
  intro l
  induction l with
  | nil => intro a; simp
  | cons p t ih =>
    intro a
    rw [List.foldl_cons, ih, hf]
    simp only [List.map_cons, List.sum_cons]
    ring

/-- the `E` of `definitionOracle .euclidean` is the first component of `exactSum … true` -/
theorem oracle_E_eq (ea eb : List (Int × Int)) :
    List.foldl (fun (acc : Int) (x : Int × Int) => acc + (x.1 - x.2) * (x.1 - x.2)) 0
        ((List.map scaled150 ea).zip (List.map scaled150 eb))
      = (exactSum (List.zip ea eb) true).1 := by
  rw [exactSum_eq, foldl_add_sum _ (fun x : Int × Int => (x.1 - x.2) * (x.1 - x.2)) (fun _ _ => rfl),
    List.zip_map, List.map_map, Int.zero_add]
  rfl

/-- the `M` of `definitionOracle .manhattan` -/
theorem oracle_M_eq (ea eb : List (Int × Int)) :
    List.foldl (fun (acc : Int) (x : Int × Int) => acc + ((x.1 - x.2).natAbs : Int)) 0
        ((List.map scaled150 ea).zip (List.map scaled150 eb))
      = ((List.zip ea eb).map (fun p => ((scaled150 p.1 - scaled150 p.2).natAbs : Int))).sum := by
  rw [foldl_add_sum _ (fun x : Int × Int => ((x.1 - x.2).natAbs : Int)) (fun _ _ => rfl),
    List.zip_map, List.map_map, Int.zero_add]
  rfl

/-- integer form of a tolerance test: the left side is an integer, so the floor of `/ 2^c` and the
additive slack `s ≥ 0` cannot hurt -/
theorem natAbs_le_tol (D T s : Int) (c : Nat) (hT : 0 ≤ T) (hs : 0 ≤ s)
    (h : ((D.natAbs : Int) : ℝ) * (2 : ℝ) ^ c ≤ (T : ℝ)) : D.natAbs ≤ (T / (2 : Int) ^ c + s).natAbs := by
  have h1 : (D.natAbs : Int) ≤ T / (2 : Int) ^ c := by
    rw [Int.le_ediv_iff_mul_le (by positivity)]
    have : (((D.natAbs : Int) * (2 : Int) ^ c : Int) : ℝ) ≤ (T : ℝ) := by
      simp only [Int.cast_mul, Int.cast_pow, Int.cast_ofNat]
      exact h
    exact_mod_cast this
  have h2 : 0 ≤ T / (2 : Int) ^ c := Int.ediv_nonneg hT (by positivity)
  omega

/-- `|r − s| ≤ ε·s` gives `|r² − s²| ≤ ((1+ε)² − 1)·s²` -/
theorem sq_err {r s ε : ℝ} (hs : 0 ≤ s) (hε : 0 ≤ ε) (h : |r - s| ≤ ε * s) :
    |r * r - s * s| ≤ ((1 + ε) * (1 + ε) - 1) * (s * s) := by
  have e : r * r - s * s = (r - s) * (r + s) := by ring
  have h2 : |r + s| ≤ (2 + ε) * s := by
    have : r + s = (r - s) + 2 * s := by ring
    rw [this]
    calc |r - s + 2 * s| ≤ |r - s| + |2 * s| := abs_add_le _ _
      _ ≤ ε * s + 2 * s := by rw [abs_of_nonneg (by linarith : 0 ≤ 2 * s)]; linarith
      _ = (2 + ε) * s := by ring
  rw [e, abs_mul]
  calc |r - s| * |r + s| ≤ (ε * s) * ((2 + ε) * s) :=
        mul_le_mul h h2 (abs_nonneg _) (mul_nonneg hε hs)
    _ = ((1 + ε) * (1 + ε) - 1) * (s * s) := by ring

/-- `(1+u)^(2K) − 1 ≤ 2·(2n+8)·u = (n+8)·2^-22` for `K ≤ n + 4 ≤ 2^22` -/
theorem C11_E_le_tolerance_sq (n K : Nat) (hK : K ≤ n + 4) (hn : n + 4 ≤ 2 ^ 22) :
    (1 + u) ^ K * (1 + u) ^ K - 1 ≤ ((n : ℝ) + 8) / (2 : ℝ) ^ (22 : ℕ) := by
  have hu0 := u_nonneg
  have h1u : (1 : ℝ) ≤ 1 + u := by linarith
  rw [← pow_add]
  have hmono : (1 + u) ^ (K + K) ≤ (1 + u) ^ (2 * n + 8) := pow_le_pow_right₀ h1u (by omega)
  have hnr : ((n + 4 : ℕ) : ℝ) ≤ (2 : ℝ) ^ (22 : ℕ) := by exact_mod_cast hn
  have hn0 : (0 : ℝ) ≤ (n : ℝ) := Nat.cast_nonneg n
  have hku : ((2 * n + 8 : ℕ) : ℝ) * u ≤ 1 / 2 := by
    rw [u_eq', mul_one_div, div_le_iff₀ (by positivity)]
    push_cast at hnr ⊢
    norm_num at hnr ⊢
    linarith
  have hb := pow_sub_one_le (c := 2) hu0 (2 * n + 8) (by linarith) (by linarith)
  have e : (2 : ℝ) * (((2 * n + 8 : ℕ) : ℝ) * u) ≤ ((n : ℝ) + 8) / (2 : ℝ) ^ (22 : ℕ) := by
    rw [u_eq']
    push_cast
    rw [le_div_iff₀ (by positivity)]
    have : (2 : ℝ) * ((2 * (n : ℝ) + 8) * (1 / (2 : ℝ) ^ (24 : ℕ))) * (2 : ℝ) ^ (22 : ℕ)
        = (n : ℝ) + 4 := by
      norm_num; ring
    rw [this]; linarith
  linarith

theorem scaled150_toReal {rep : Nat} {r : Int × Int} (hr : exactOf rep = some r) :
    (scaled150 r : ℝ) = (2 : ℝ) ^ (150 : ℕ) * toReal rep := by
  obtain ⟨m, e⟩ := r
  have b := (C11_exactOf_bounds hr).2.2.1
  rw [scaled150_real _ (by show -150 ≤ e; omega), C11_exactOf_toReal hr]
  rfl

/-- the tolerance test of `definitionOracle .euclidean`, on the data the oracle computes -/
theorem euclid_tol_ok (h : Host) (x y : List Nat) (hl : x.length = y.length)
    (hrun : (euclideanDistanceG f32Chk h (chkIn x) (chkIn y)).2 = true) (hn : x.length + 4 ≤ 2 ^ 22)
    (ea eb : List (Int × Int)) (r : Int × Int)
    (hx : x.mapM exactOf = some ea) (hy : y.mapM exactOf = some eb)
    (hr : exactOf (F32.sqrt (euclideanDistance h x y)) = some r) :
    (scaled150 r * scaled150 r - (exactSum (List.zip ea eb) true).1).natAbs
      ≤ ((exactSum (List.zip ea eb) true).1 * ((x.length : Int) + 8) / (2 : Int) ^ 22
          + ((x.length : Int) + 8) * (2 : Int) ^ 152).natAbs := by
  obtain ⟨-, -, hb, -, -, hK⟩ := C11_round_f32_reported_euclidean h [] [] x y 0 hl hrun
  obtain ⟨h1, -⟩ := exactSum_spec true x y ea eb hx hy
  rw [termReal_true] at h1
  have hS := sq_terms_sum_nonneg x y
  have hR := scaled150_toReal hr
  generalize (exactSum (List.zip ea eb) true).1 = E at h1 ⊢
  generalize (List.zipWith (fun a b => (toReal a - toReal b) * (toReal a - toReal b)) x y).sum = S at h1 hS hb
  generalize toReal (F32.sqrt (euclideanDistance h x y)) = ρ at hb hR
  generalize scaled150 r = R at hR ⊢
  generalize euclidDepth h x.length = K at hb hK
  have hP : (0 : ℝ) < (2 : ℝ) ^ (300 : ℕ) := by positivity
  have hE0 : 0 ≤ E := by
    have : (0 : ℝ) ≤ (E : ℝ) := by rw [h1]; exact mul_nonneg hP.le hS
    exact_mod_cast this
  have hu0 := u_nonneg
  have hε : 0 ≤ (1 + u) ^ (K + 1) - 1 := by
    have := one_le_pow₀ (n := K + 1) (by linarith : (1 : ℝ) ≤ 1 + u)
    linarith
  have hsq := sq_err (Real.sqrt_nonneg S) hε hb
  rw [Real.mul_self_sqrt hS] at hsq
  have hT := C11_E_le_tolerance_sq x.length (K + 1) (by omega) hn
  have e1 : (1 + ((1 + u) ^ (K + 1) - 1)) * (1 + ((1 + u) ^ (K + 1) - 1)) - 1
      = (1 + u) ^ (K + 1) * (1 + u) ^ (K + 1) - 1 := by ring
  rw [e1] at hsq
  have hfin : |ρ * ρ - S| ≤ (((x.length : ℝ) + 8) / (2 : ℝ) ^ (22 : ℕ)) * S :=
    le_trans hsq (mul_le_mul_of_nonneg_right hT hS)
  apply natAbs_le_tol _ _ _ 22 (Int.mul_nonneg hE0 (by omega)) (Int.mul_nonneg (by omega) (by positivity))
  rw [Int.natCast_natAbs]
  simp only [Int.cast_mul, Int.cast_abs, Int.cast_sub, Int.cast_add, Int.cast_natCast, Int.cast_ofNat]
  rw [hR, h1]
  have e2 : (2 : ℝ) ^ (150 : ℕ) * ρ * ((2 : ℝ) ^ (150 : ℕ) * ρ) - (2 : ℝ) ^ (300 : ℕ) * S
      = (2 : ℝ) ^ (300 : ℕ) * (ρ * ρ - S) := by
    rw [show (2 : ℝ) ^ (300 : ℕ) = (2 : ℝ) ^ (150 : ℕ) * (2 : ℝ) ^ (150 : ℕ) by rw [← pow_add]]
    generalize (2 : ℝ) ^ (150 : ℕ) = Q
    ring
  rw [e2, abs_mul, abs_of_pos hP]
  have hQ : (0 : ℝ) < (2 : ℝ) ^ (22 : ℕ) := by positivity
  have h2 : |ρ * ρ - S| * (2 : ℝ) ^ (22 : ℕ) ≤ ((x.length : ℝ) + 8) * S := by
    have := mul_le_mul_of_nonneg_right hfin hQ.le
    rwa [mul_assoc, mul_comm S, ← mul_assoc, div_mul_cancel₀ _ hQ.ne'] at this
  have h3 := mul_le_mul_of_nonneg_left h2 hP.le
  generalize (2 : ℝ) ^ (300 : ℕ) = P at h3 ⊢
  calc P * |ρ * ρ - S| * (2 : ℝ) ^ (22 : ℕ) = P * (|ρ * ρ - S| * (2 : ℝ) ^ (22 : ℕ)) := by ring
    _ ≤ P * (((x.length : ℝ) + 8) * S) := h3
    _ = P * S * ((x.length : ℝ) + 8) := by ring

/-- **`definitionOracle .euclidean` never rejects the reported Euclidean distance**
`F32.sqrt (euclideanDistance h x y)` (`C11_round_f32_reported_euclidean`: that is what the reader reports),
under the flag of `C11_round_f32_euclidean_distance` and `n + 4 ≤ 2^22`.  From `|R − √E| ≤ ε·√E`,
`ε = (1+u)^(K+1) − 1`, `K ≤ n + 3`: `|R² − E| ≤ ((1+ε)² − 1)·E = ((1+u)^(2K+2) − 1)·E ≤ 2·(2n+8)·u·E
= E·(n+8)/2^22`; the additive `(n+8)·2^152` is not needed, nor does the floor matter. -/
theorem C11_definitionOracle_accepts_euclidean (h : Host) (x y : List Nat) (hl : x.length = y.length)
    (hrun : (euclideanDistanceG f32Chk h (chkIn x) (chkIn y)).2 = true) (hn : x.length + 4 ≤ 2 ^ 22) :
    definitionOracle .euclidean x y (F32.sqrt (euclideanDistance h x y)) = some none ∨
    definitionOracle .euclidean x y (F32.sqrt (euclideanDistance h x y)) = none := by
  unfold definitionOracle
  rw [show Metric.isBq .euclidean = false from rfl]
  simp only [Bool.false_eq_true, if_false]
  split
  · rename_i ea eb r hx hy hr
    split
    · right; rfl
    · left
      have key := euclid_tol_ok h x y hl hrun hn ea eb r hx hy hr
      rw [← oracle_E_eq] at key
      exact if_pos key
  · right; rfl

theorem zip_map_real (F : (Int × Int) × (Int × Int) → ℝ) (G : Nat → Nat → ℝ)
    (hFG : ∀ a v b w, exactOf a = some v → exactOf b = some w → F (v, w) = G a b) :
    ∀ (x : List Nat) (ea : List (Int × Int)) (y : List Nat) (eb : List (Int × Int)),
    List.Forall₂ (fun a v => exactOf a = some v) x ea →
    List.Forall₂ (fun a v => exactOf a = some v) y eb →
    (List.zip ea eb).map F = List.zipWith G x y := by
  intro x ea y eb hx
  induction hx generalizing y eb with
  | nil => intro _; simp
  | @cons a v t et hav _ ih =>
    intro hy
    cases hy with
    | nil => simp
    | @cons b w s es hbw hs =>
      simp only [List.zip_cons_cons, List.map_cons, List.zipWith_cons_cons]
      rw [ih s es hs, hFG a v b w hav hbw]

/-- the `M` of `definitionOracle .manhattan` is `2^150 · Σ|aᵢ − bᵢ|` -/
theorem oracle_M_real (x y : List Nat) (ea eb : List (Int × Int))
    (hx : x.mapM exactOf = some ea) (hy : y.mapM exactOf = some eb) :
    (Int.cast ((List.zip ea eb).map (fun p => ((scaled150 p.1 - scaled150 p.2).natAbs : Int))).sum : ℝ)
      = (2 : ℝ) ^ (150 : ℕ) * (List.zipWith (fun a b => |toReal a - toReal b|) x y).sum := by
  rw [cast_list_sum, List.map_map, ← sum_map_mul_left, List.map_zipWith]
  congr 1
  apply zip_map_real _ _ _ x ea y eb (mapM_exactOf_forall₂ x ea hx) (mapM_exactOf_forall₂ y eb hy)
  intro a v b w hav hbw
  show (Int.cast ((scaled150 v - scaled150 w).natAbs : Int) : ℝ) = _
  rw [Int.natCast_natAbs, Int.cast_abs, Int.cast_sub, scaled150_toReal hav, scaled150_toReal hbw, ← mul_sub,
    abs_mul, abs_of_pos (by positivity : (0 : ℝ) < (2 : ℝ) ^ (150 : ℕ))]

/-- the tolerance test of `definitionOracle .manhattan`, on the data the oracle computes -/
theorem manhattan_tol_ok (x y : List Nat) (hl : x.length = y.length)
    (hrun : (manhattanWith f32Chk (fun c => (F32.abs c.1, c.2)) (chkIn x) (chkIn y)).2 = true)
    (hn : x.length + 3 ≤ 2 ^ 22) (ea eb : List (Int × Int)) (r : Int × Int)
    (hx : x.mapM exactOf = some ea) (hy : y.mapM exactOf = some eb)
    (hr : exactOf (manhattanDistance x y) = some r) (M : Int)
    (hM : M = ((List.zip ea eb).map (fun p => ((scaled150 p.1 - scaled150 p.2).natAbs : Int))).sum) :
    (scaled150 r - M).natAbs ≤ (M * ((x.length : Int) + 4) / (2 : Int) ^ 23 + ((x.length : Int) + 4) * 4).natAbs := by
  have hb := C11_round_f32_manhattan_distance x y hl hrun
  rw [abs_terms_abs] at hb
  have h1 : (M : ℝ) = (2 : ℝ) ^ (150 : ℕ) * (List.zipWith (fun a b => |toReal a - toReal b|) x y).sum := by
    rw [hM]; exact oracle_M_real x y ea eb hx hy
  have hS : 0 ≤ (List.zipWith (fun a b => |toReal a - toReal b|) x y).sum := by
    rw [← abs_terms_abs]; exact sum_abs_nonneg _
  have hR := scaled150_toReal hr
  clear hM
  generalize (List.zipWith (fun a b => |toReal a - toReal b|) x y).sum = S at h1 hS hb
  generalize toReal (manhattanDistance x y) = ρ at hb hR
  generalize scaled150 r = R at hR ⊢
  have hP : (0 : ℝ) < (2 : ℝ) ^ (150 : ℕ) := by positivity
  have hM0 : 0 ≤ M := by
    have : (0 : ℝ) ≤ (M : ℝ) := by rw [h1]; exact mul_nonneg hP.le hS
    exact_mod_cast this
  have hT := C11_E_le_tolerance x.length (x.length + 1) (by omega) hn
  have hfin : |ρ - S| ≤ (((x.length : ℝ) + 2) / (2 : ℝ) ^ (23 : ℕ)) * S :=
    le_trans hb (mul_le_mul_of_nonneg_right hT hS)
  apply natAbs_le_tol _ _ _ 23 (Int.mul_nonneg hM0 (by omega)) (by omega)
  rw [Int.natCast_natAbs]
  simp only [Int.cast_mul, Int.cast_abs, Int.cast_sub, Int.cast_add, Int.cast_natCast, Int.cast_ofNat]
  rw [hR, h1, ← mul_sub, abs_mul, abs_of_pos hP]
  have hQ : (0 : ℝ) < (2 : ℝ) ^ (23 : ℕ) := by positivity
  have h2 : |ρ - S| * (2 : ℝ) ^ (23 : ℕ) ≤ ((x.length : ℝ) + 2) * S := by
    have := mul_le_mul_of_nonneg_right hfin hQ.le
    rwa [mul_assoc, mul_comm S, ← mul_assoc, div_mul_cancel₀ _ hQ.ne'] at this
  have h3 := mul_le_mul_of_nonneg_left h2 hP.le
  have h4 : (0 : ℝ) ≤ (2 : ℝ) ^ (150 : ℕ) * S * 2 := mul_nonneg (mul_nonneg hP.le hS) (by norm_num)
  generalize (2 : ℝ) ^ (150 : ℕ) = P at h3 h4 ⊢
  calc P * |ρ - S| * (2 : ℝ) ^ (23 : ℕ) = P * (|ρ - S| * (2 : ℝ) ^ (23 : ℕ)) := by ring
    _ ≤ P * (((x.length : ℝ) + 2) * S) := h3
    _ ≤ P * S * ((x.length : ℝ) + 4) := by linarith

/-- **`definitionOracle .manhattan` never rejects the reported Manhattan distance**
(`C11_reported_manhattan_eq`: the reader reports `manhattanDistance x y`), under the flag of
`C11_round_f32_manhattan_distance`: `(1+u)^(n+1) − 1 ≤ (n+2)·2^-23 ≤ (n+4)·2^-23`. -/
theorem C11_definitionOracle_accepts_manhattan (x y : List Nat) (hl : x.length = y.length)
    (hrun : (manhattanWith f32Chk (fun c => (F32.abs c.1, c.2)) (chkIn x) (chkIn y)).2 = true)
    (hn : x.length + 3 ≤ 2 ^ 22) :
    definitionOracle .manhattan x y (manhattanDistance x y) = some none ∨
    definitionOracle .manhattan x y (manhattanDistance x y) = none := by
  unfold definitionOracle
  rw [show Metric.isBq .manhattan = false from rfl]
  simp only [Bool.false_eq_true, if_false]
  split
  · rename_i ea eb r hx hy hr
    split
    · right; rfl
    · left
      exact if_pos (manhattan_tol_ok x y hl hrun hn ea eb r hx hy hr _ (oracle_M_eq ea eb))
  · right; rfl

/-! ## non-vacuity

`exX`, `exY` (`C11Real.lean`): 37 components, none of the products representable.  The Boolean sides are
evaluated by the kernel (`decide +kernel`); the theorems above are then applied to the same data. -/

section examples

/-- `exactOf` on `1 + 2^-23`, on `-7`, on `+inf` and on a NaN -/
example : exactOf 0x3f800001 = some (8388609, -23) ∧ exactOf 0xc0e00000 = some (-14680064, -21) ∧
    exactOf 0x7f800000 = none ∧ exactOf 0x7fc00000 = none := by decide +kernel

example : toReal 0xc0e00000 = ((-14680064 : Int) : ℝ) * (2 : ℝ) ^ (-21 : Int) :=
  C11_exactOf_toReal (by decide +kernel)

/-- `exactSum` of `(1 + 2^-23, -7)·(-7, 3)`: `-7·(1 + 2^-23) − 21` and `7·(1 + 2^-23) + 21`, times `2^300` -/
example : exactSum (List.zip [(8388609, -23), (-14680064, -21)] [(-14680064, -21), (12582912, -22)]) false
    = (-(58720263 * 2 ^ 277 + 21 * 2 ^ 300), 58720263 * 2 ^ 277 + 21 * 2 ^ 300) := by decide +kernel

/-- the hypotheses of `exactSum_spec` / `C11_oracle_accepts_dot` hold for `exX`, `exY` -/
example : (∀ a ∈ exX, Finite a) ∧ (∀ b ∈ exY, Finite b) ∧ exX.length = exY.length ∧ exX.length + 4 ≤ 2 ^ 22 ∧
    (dotProductG f32Chk {} (chkIn exX) (chkIn exY)).2 = true := by decide +kernel

/-- `exactSum_spec` applied -/
example : ∃ ea eb, exX.mapM exactOf = some ea ∧ exY.mapM exactOf = some eb ∧
    ((exactSum (List.zip ea eb) false).1 : ℝ)
      = (2 : ℝ) ^ (300 : ℕ) * (List.zipWith (fun a b => toReal a * toReal b) exX exY).sum := by
  obtain ⟨ea, hx⟩ := mapM_exactOf_of_finite exX (by decide +kernel)
  obtain ⟨eb, hy⟩ := mapM_exactOf_of_finite exY (by decide +kernel)
  have := (exactSum_spec false exX exY ea eb hx hy).1
  rw [termReal_false] at this
  exact ⟨ea, eb, hx, hy, this⟩

/-- `C11_oracle_accepts_dot` / `_euclid` applied (AVX path and SSE path) -/
example : ∃ ea eb, exX.mapM exactOf = some ea ∧ exY.mapM exactOf = some eb ∧
    withinTolerance 37 (exactSum (List.zip ea eb) false).1 (exactSum (List.zip ea eb) false).2
      (dotProduct {} exX exY) = true ∧
    withinTolerance 37 (exactSum (List.zip ea eb) false).1 (exactSum (List.zip ea eb) false).2
      (dotProduct { avx := false } exX exY) = true ∧
    withinTolerance 37 (exactSum (List.zip ea eb) true).1 (exactSum (List.zip ea eb) true).2
      (euclideanDistance {} exX exY) = true := by
  obtain ⟨ea, hx⟩ := mapM_exactOf_of_finite exX (by decide +kernel)
  obtain ⟨eb, hy⟩ := mapM_exactOf_of_finite exY (by decide +kernel)
  exact ⟨ea, eb, hx, hy,
    C11_oracle_accepts_dot {} exX exY (by decide) (by decide +kernel) (by decide) ea eb hx hy,
    C11_oracle_accepts_dot { avx := false } exX exY (by decide) (by decide +kernel) (by decide) ea eb hx hy,
    C11_oracle_accepts_euclid {} exX exY (by decide) (by decide +kernel) (by decide) ea eb hx hy⟩

/-- the same verdicts computed directly: the oracle JUDGES these inputs (`some none`, not `none`) -/
example : definitionOracle .dot exX exY (dotProduct {} exX exY) = some none ∧
    definitionOracle .euclidean exX exY (F32.sqrt (euclideanDistance {} exX exY)) = some none ∧
    definitionOracle .euclidean exX exY (F32.sqrt (euclideanDistance { avx := false } exX exY)) = some none ∧
    definitionOracle .manhattan exX exY (manhattanDistance exX exY) = some none := by decide +kernel

/-- the three oracle theorems applied to the same data -/
example :
    (definitionOracle .dot exX exY (dotProduct {} exX exY) = some none ∨
      definitionOracle .dot exX exY (dotProduct {} exX exY) = none) ∧
    (definitionOracle .euclidean exX exY (F32.sqrt (euclideanDistance {} exX exY)) = some none ∨
      definitionOracle .euclidean exX exY (F32.sqrt (euclideanDistance {} exX exY)) = none) ∧
    (definitionOracle .manhattan exX exY (manhattanDistance exX exY) = some none ∨
      definitionOracle .manhattan exX exY (manhattanDistance exX exY) = none) :=
  ⟨C11_definitionOracle_accepts_dot {} exX exY (by decide) (by decide +kernel) (by decide),
   C11_definitionOracle_accepts_euclidean {} exX exY (by decide) (by decide +kernel) (by decide),
   C11_definitionOracle_accepts_manhattan exX exY (by decide) (by decide +kernel) (by decide)⟩

/-- the predicate is not trivially `true`: the computed value is accepted with room to spare (64 units in
the last place still pass: the tolerance is at least twice the bound of the theorems), a result 1000 units
in the last place away is rejected -/
example : (definitionOracle .dot exX exY (dotProduct {} exX exY + 64) == some none) = true ∧
    (match definitionOracle .dot exX exY (dotProduct {} exX exY + 1000) with
      | some (some _) => true | _ => false) = true := by decide +kernel

/-- tiny sums: all products zero, `absSum = 0`, the relative part of the tolerance is `0` — accepted
(the flag allows exact zeros) -/
example : (dotProductG f32Chk {} (chkIn [0, 0x80000000, 0]) (chkIn [0x3f800001, 0x40000000, 0])).2 = true ∧
    exactSum (List.zip [(0, -149), (0, -149), (0, -149)] [(8388609, -23), (8388608, -22), (0, -149)]) false = (0, 0) ∧
    withinTolerance 3 0 0 (dotProduct {} [0, 0x80000000, 0] [0x3f800001, 0x40000000, 0]) = true := by
  decide +kernel

/-- the smallest non-zero case the flag allows: one product `2^-63·2^-63 = 2^-126`; `absSum = 2^174`,
the floored relative part `2^174·3/2^23` is exact, the computed value is exact -/
example : (dotProductG f32Chk {} (chkIn [0x20000000]) (chkIn [0x20000000])).2 = true ∧
    exactSum (List.zip [(8388608, -86)] [(8388608, -86)]) false = (2 ^ 174, 2 ^ 174) ∧
    withinTolerance 1 (2 ^ 174) (2 ^ 174) (dotProduct {} [0x20000000] [0x20000000]) = true := by
  decide +kernel

end examples

end Arroy.C11
