import ArroyProofs.InPlaceBuild
import ArroyProofs.Properties.C10
import ArroyProofs.Properties.C01Examples
/-! # C10 (in place) — polling inside the recursive routines is the same as charging them afterwards

`ArroyModel/Build.lean` runs `delete_items_in_file`, `insert_items_in_file` and `make_tree_in_file`
as pure functions (`delT`, `insertT`, `makeT`) and charges their polls afterwards (`pollN r.polls`).
`ArroyModel/InPlace.lean` has the same routines with `opt.cancelled()?` polled exactly where the
Rust code polls (`delM`, `insertM`, `makeM`), the stages that call them and the whole build
(`InPlace.buildM`).  Here: the two presentations have the same runs.

* tree level (`ArroyProofs/InPlaceEq.lean`): `delM_eq`, `insertM_ok`/`insertM_err`, `makeM_ok`/`makeM_err`;
* `C10_inplace_delete` : the deletion stage is literally the same computation;
* `C10_inplace_insert`, `C10_inplace_make`, `C10_inplace_build` : `SameRuns` — same successes (value and
  state), same `cancelled k`; the only difference: when the pure routine fails with a non-cancellation
  error `e` (id space exhausted, oracle exhausted, panic), `Build.lean` reports `e` at once, the
  in-place code first makes the polls that precede `e` in the Rust code, so that under a schedule a
  cancellation may pre-empt `e`.  Without a schedule the runs are equal;
* `C10_inplace_build_eq` : if the fault-free build succeeds (and `RootsPresent`), the runs under any
  schedule are equal; hence every C10 theorem holds for `buildM` (`C10_inplace_cancel_iff`). -/
namespace Arroy.C10
open Generated Transp BuildM InPlace

/-- The runs of `m` (polls charged afterwards) and `m'` (polls in place) from `st`:
1. one succeeds iff the other does, with the same value and final state;
2. if `m` fails with `e`, `m'` fails with `e`, or with a cancellation — only if `e` is not itself a
   cancellation and there is a schedule;
3. conversely for a failure of `m'`;
4. without a schedule the two runs are equal. -/
def SameRuns (m m' : BuildM α) (st : BState) : Prop :=
  (∀ x, m st = .ok x ↔ m' st = .ok x) ∧
  (∀ e, m st = .error e → ∃ e', m' st = .error e' ∧
    (e' = e ∨ ((∃ k, e' = .cancelled k) ∧ (∀ k, e ≠ .cancelled k) ∧ st.cancelAt ≠ none))) ∧
  (∀ e', m' st = .error e' → ∃ e, m st = .error e ∧
    (e' = e ∨ ((∃ k, e' = .cancelled k) ∧ (∀ k, e ≠ .cancelled k) ∧ st.cancelAt ≠ none))) ∧
  (st.cancelAt = none → m' st = m st)

theorem sameRuns_of_sim {m m' : BuildM α} (h : Sim m m') (st : BState) : SameRuns m m' st :=
  ⟨h.ok_iff st, h.err st, h.err' st, h.eq_of_none st⟩

/-- `SameRuns` preserves a reported cancellation, call number included, in both directions when the
    other side's failure is known to be a cancellation -/
theorem SameRuns.cancelled {m m' : BuildM α} {st : BState} (h : SameRuns m m' st) (k : Nat)
    (hm : m st = .error (.cancelled k)) : m' st = .error (.cancelled k) := by
  obtain ⟨e', h1, h2⟩ := h.2.1 _ hm
  rcases h2 with h2 | ⟨_, h2, _⟩
  · rw [h1, h2]
  · exact absurd rfl (h2 k)

/-! ## the stages -/

/-- `delete_items_in_file` on one tree: literal equality of the runs from every state -/
theorem C10_inplace_delete_tree (cap : Nat) (D : List Nat) (t : T) (st : BState) :
    delM cap D t st =
      (BuildM.bind' (BuildM.pollN (delT cap D t).polls) (fun _ => BuildM.pure' (delT cap D t))) st :=
  delM_eq cap D t st

/-- `insert_items_in_file` on one tree, success: the in-place run is `insertT` charged afterwards
    (the random bits are an explicit argument and a field of the result on both sides) -/
theorem C10_inplace_insert_tree_ok (cx : TreeCtx) (t : T) (ins : List Nat) (g : IdGen) (rs : List Bool)
    (r : InsRes) (h : insertT cx t ins g rs = .ok r) (st : BState) :
    insertM cx t ins g rs st = (BuildM.pollN r.polls >>= fun _ => pure r) st :=
  insertM_ok cx t ins g rs r h st

/-- ... failure: the same error, or a cancellation that pre-empts it (only under a schedule) -/
theorem C10_inplace_insert_tree_err (cx : TreeCtx) (t : T) (ins : List Nat) (g : IdGen) (rs : List Bool)
    (e : Err) (h : insertT cx t ins g rs = .error e) (st : BState) :
    ∃ e', insertM cx t ins g rs st = .error e' ∧ (e' = e ∨ ∃ k, e' = .cancelled k) ∧
      (st.cancelAt = none → e' = e) :=
  insertM_err cx t ins g rs e h st

/-- `make_tree_in_file`, success (normals and random bits explicit on both sides) -/
theorem C10_inplace_make_tree_ok (cx : TreeCtx) (fuel : Nat) (items : List Nat) (g : IdGen)
    (normals : List (List Nat)) (rs : List Bool) (r : MakeRes)
    (h : makeT cx fuel items g normals rs = .ok r) (st : BState) :
    makeM cx fuel items g normals rs st = (BuildM.pollN r.polls >>= fun _ => pure r) st :=
  makeM_ok cx fuel items g normals rs r h st

/-- ... failure -/
theorem C10_inplace_make_tree_err (cx : TreeCtx) (fuel : Nat) (items : List Nat) (g : IdGen)
    (normals : List (List Nat)) (rs : List Bool) (e : Err)
    (h : makeT cx fuel items g normals rs = .error e) (st : BState) :
    ∃ e', makeM cx fuel items g normals rs st = .error e' ∧ (e' = e ∨ ∃ k, e' = .cancelled k) ∧
      (st.cancelAt = none → e' = e) :=
  makeM_err cx fuel items g normals rs e h st

/-- the deletion stage (`delete_items_from_trees`): the in-place version is the same computation -/
theorem C10_inplace_delete (c : Cfg) (o : BuildOpts) (D : List Nat) (s : Store) (roots : List Nat) (st : BState) :
    deleteLoopM c o D s roots st = Build.deleteLoop c o D s roots st ∧
    deleteItemsFromTreesM c o roots D st = Build.deleteItemsFromTrees c o roots D st := by
  rw [deleteLoopM_eq, deleteItemsFromTreesM_eq]
  exact ⟨rfl, rfl⟩

/-- the insertion stage: one batch over the roots (`insert_items_in_tree`), and the batch loop
    (`insert_items_in_current_trees`) -/
theorem C10_inplace_insert (c : Cfg) (o : BuildOpts) (snap : Store) (batch roots : List Nat) (g : IdGen)
    (fuel : Nat) (toInsert : List Nat) (st : BState) :
    SameRuns (Build.insertRoots c o snap batch roots g) (insertRootsM c o snap batch roots g) st ∧
    SameRuns (Build.insertItemsInCurrentTrees c o roots fuel toInsert g)
      (insertItemsInCurrentTreesM c o roots fuel toInsert g) st :=
  ⟨sameRuns_of_sim (insertRoots_sim c o snap batch roots g) st,
   sameRuns_of_sim (insertItemsInCurrentTrees_sim c o roots fuel toInsert g) st⟩

/-- the re-split stage (`incremental_index_large_descendants`, which calls `make_tree_in_file`
    and `insert_items_in_current_trees`) -/
theorem C10_inplace_make (c : Cfg) (o : BuildOpts) (fuel : Nat) (large : List Nat) (g : IdGen) (st : BState) :
    SameRuns (Build.incrementalIndexLargeDescendants c o fuel large g)
      (incrementalIndexLargeDescendantsM c o fuel large g) st :=
  sameRuns_of_sim (incrementalIndexLargeDescendants_sim c o fuel large g) st

/-! ## the whole build -/

theorem C10_inplace_build (c : Cfg) (o : BuildOpts) (fuel : Nat) (st : BState) :
    SameRuns (Build.build c o fuel) (buildM c o fuel) st :=
  sameRuns_of_sim (build_sim c o fuel) st

/-- (i) + (ii): the same successes, with the same final state -/
theorem C10_inplace_build_ok (c : Cfg) (o : BuildOpts) (fuel : Nat) (st : BState) (x : Unit × BState) :
    Build.build c o fuel st = .ok x ↔ buildM c o fuel st = .ok x :=
  (C10_inplace_build c o fuel st).1 x

/-- (iii), unconditional, from `Build.build`: its error is the in-place error, unless a cancellation
    pre-empts it in place -/
theorem C10_inplace_build_err (c : Cfg) (o : BuildOpts) (fuel : Nat) (st : BState) (e : Err)
    (h : Build.build c o fuel st = .error e) :
    ∃ e', buildM c o fuel st = .error e' ∧
      (e' = e ∨ ((∃ k, e' = .cancelled k) ∧ (∀ k, e ≠ .cancelled k) ∧ st.cancelAt ≠ none)) :=
  (C10_inplace_build c o fuel st).2.1 e h

/-- (iii), unconditional, from `buildM` -/
theorem C10_inplace_build_err' (c : Cfg) (o : BuildOpts) (fuel : Nat) (st : BState) (e' : Err)
    (h : buildM c o fuel st = .error e') :
    ∃ e, Build.build c o fuel st = .error e ∧
      (e' = e ∨ ((∃ k, e' = .cancelled k) ∧ (∀ k, e ≠ .cancelled k) ∧ st.cancelAt ≠ none)) :=
  (C10_inplace_build c o fuel st).2.2.1 e' h

/-- a cancellation reported by `Build.build` is reported in place at the same call -/
theorem C10_inplace_build_cancelled (c : Cfg) (o : BuildOpts) (fuel : Nat) (st : BState) (k : Nat)
    (h : Build.build c o fuel st = .error (.cancelled k)) : buildM c o fuel st = .error (.cancelled k) :=
  (C10_inplace_build c o fuel st).cancelled k h

/-- without a schedule the two builds are the same run -/
theorem C10_inplace_build_none (c : Cfg) (o : BuildOpts) (fuel : Nat) (st : BState) (hc : st.cancelAt = none) :
    buildM c o fuel st = Build.build c o fuel st :=
  (C10_inplace_build c o fuel st).2.2.2 hc

theorem C10_inplace_build_erase (c : Cfg) (o : BuildOpts) (fuel : Nat) (st : BState) :
    buildM c o fuel (erase st) = Build.build c o fuel (erase st) :=
  C10_inplace_build_none c o fuel (erase st) rfl

/-- (iii), full strength: if the fault-free build succeeds, the two builds are the same run under
    every schedule (same result, same `cancelled k`).  `RootsPresent` is the hypothesis of C10. -/
theorem C10_inplace_build_eq (c : Cfg) (o : BuildOpts) (fuel : Nat) (st st' : BState)
    (H : RootsPresent c st.store) (hff : Build.build c o fuel (erase st) = .ok ((), st')) :
    buildM c o fuel st = Build.build c o fuel st := by
  cases hb : Build.build c o fuel st with
  | ok r => exact (C10_inplace_build_ok c o fuel st r).1 hb
  | error e =>
    obtain ⟨e', h1, h2⟩ := C10_inplace_build_err c o fuel st e hb
    rcases h2 with h2 | ⟨_, hnc, _⟩
    · rw [h1, h2]
    · rcases C10_transparent_err c o fuel st e H hb with ⟨k, hk⟩ | h3
      · exact absurd hk (hnc k)
      · rw [hff] at h3; cases h3

theorem C10_inplace_build_cancelled_iff (c : Cfg) (o : BuildOpts) (fuel : Nat) (st st' : BState) (k : Nat)
    (H : RootsPresent c st.store) (hff : Build.build c o fuel (erase st) = .ok ((), st')) :
    Build.build c o fuel st = .error (.cancelled k) ↔ buildM c o fuel st = .error (.cancelled k) := by
  rw [C10_inplace_build_eq c o fuel st st' H hff]

/-- `C10_cancel_iff` for the in-place build: with `P` the number of polls of the successful fault-free
    in-place build, the in-place build under `cancelAt = some n` fails with `cancelled` iff `n < P` -/
theorem C10_inplace_cancel_iff (c : Cfg) (o : BuildOpts) (fuel n : Nat) (st st' : BState)
    (H : RootsPresent c st.store) (hc : st.cancelAt = some n) (hs : st.polls ≤ n)
    (hff : buildM c o fuel (erase st) = .ok ((), st')) :
    (∃ k, buildM c o fuel st = .error (.cancelled k)) ↔ n < st'.polls := by
  rw [C10_inplace_build_erase] at hff
  rw [C10_inplace_build_eq c o fuel st st' H hff]
  exact C10_cancel_iff c o fuel n st st' H hc hs hff

/-- `C10_cancel_late` for the in-place build -/
theorem C10_inplace_cancel_late (c : Cfg) (o : BuildOpts) (fuel n : Nat) (st st' : BState)
    (H : RootsPresent c st.store) (hc : st.cancelAt = some n) (hs : st.polls ≤ n)
    (hff : buildM c o fuel (erase st) = .ok ((), st')) (hn : st'.polls ≤ n) :
    buildM c o fuel st = .ok ((), { st' with cancelAt := some n }) := by
  rw [C10_inplace_build_erase] at hff
  rw [C10_inplace_build_eq c o fuel st st' H hff]
  exact C10_cancel_late c o fuel n st st' H hc hs hff hn

/-! ## non-vacuity -/
namespace InPlaceEx

def errAt : Except Err (α × BState) → Option Nat
  | .error (.cancelled k) => some k
  | _ => none

def pollsOf : Except Err (α × BState) → Option Nat
  | .ok (_, st) => some st.polls
  | .error _ => none

def isDbFull : Except Err (α × BState) → Bool
  | .error .dbFull => true
  | _ => false

def isOracle : Except Err (α × BState) → Bool
  | .error (.oracle _) => true
  | _ => false

/-- a small tree: two split nodes, an item child, two buckets -/
def t0 : T := .node 0 [1] (.bucket 1 [1, 2]) (.node 2 [1] (.leaf 3) (.bucket 3 [4, 5]))
def st2 : BState := { store := [], cancelAt := some 2 }
def st9 : BState := { store := [], cancelAt := some 9 }

/-- `delete_items_in_file`: 4 calls (the item child is not a call); firing at call 2 is reported by the
    third poll — the one at the start of the call on node 2 — on both sides -/
example : (delT 1 [2] t0).polls = 4 := by decide +kernel
example : errAt (delM 1 [2] t0 st2) = some 3 ∧
    errAt (bind' (pollN (delT 1 [2] t0).polls) (fun _ => pure' (delT 1 [2] t0)) st2) = some 3 := by decide +kernel
example : pollsOf (delM 1 [2] t0 st9) = some 4 := by decide +kernel

/-- sides by parity (odd = right), capacity 2 -/
def cx0 : TreeCtx := { cap := 2, side := fun _ x => some (some (x % 2 == 1)), isZero := fun n => n.all (· == 0) }
def g0 : IdGen := IdGen.new [0, 1, 2, 3]

/-- `insert_items_in_file`: 5 calls (the item child is a call) -/
example : ((insertT cx0 t0 [6, 7] g0 []).toOption.map (·.polls)) = some 5 := by decide +kernel
example : errAt (insertM cx0 t0 [6, 7] g0 [] st2) = some 3 := by decide +kernel
example : pollsOf (insertM cx0 t0 [6, 7] g0 [] st9) = some 5 := by decide +kernel

/-- the id space is exhausted: `insertT` fails with `dbFull`; in place the poll at the start of the
    call on the item comes first: under a schedule the cancellation pre-empts the error
    (`insertM_err`, second disjunct), without one the error is the same -/
def gFull : IdGen := { available := [], sel := 0, look := false, current := 0, used := IdGen.u32Max + 1 }
example : (match insertT cx0 (.leaf 3) [7] gFull [] with | .error .dbFull => true | _ => false) = true := by decide +kernel
example : errAt (insertM cx0 (.leaf 3) [7] gFull [] { store := [], cancelAt := some 0 }) = some 1 := by decide +kernel
example : isDbFull (insertM cx0 (.leaf 3) [7] gFull [] { store := [] }) = true := by decide +kernel

/-- `make_tree_in_file` on 4 items: call, one attempt, two calls = 4 polls -/
example : ((makeT cx0 3 [1, 2, 3, 4] g0 [[1]] []).toOption.map (·.polls)) = some 4 := by decide +kernel
example : errAt (makeM cx0 3 [1, 2, 3, 4] g0 [[1]] [] st2) = some 3 := by decide +kernel
example : pollsOf (makeM cx0 3 [1, 2, 3, 4] g0 [[1]] [] st9) = some 4 := by decide +kernel

/-! The second build of the C01 example history (one deletion, one insertion, one re-split, 33 polls):
the hypotheses of `C10_inplace_build_eq` hold, and the in-place build reports the cancellation at
the same call. -/
open C01.Ex in
example : RootsPresent cEx (C01.run ops2) := by decide +kernel
open C01.Ex in
example : pollsOf (buildM cEx oEx 5 { env2 with store := C01.run ops2, cancelAt := none }) = some 33 ∧
    pollsOf (Build.build cEx oEx 5 { env2 with store := C01.run ops2, cancelAt := none }) = some 33 := by
  decide +kernel
open C01.Ex in
example : errAt (buildM cEx oEx 5 { env2 with store := C01.run ops2, cancelAt := some 2 }) = some 3 ∧
    errAt (buildM cEx oEx 5 { env2 with store := C01.run ops2, cancelAt := some 20 }) = some 21 ∧
    errAt (Build.build cEx oEx 5 { env2 with store := C01.run ops2, cancelAt := some 20 }) = some 21 ∧
    errAt (buildM cEx oEx 5 { env2 with store := C01.run ops2, cancelAt := some 30 }) = some 31 := by
  decide +kernel

/-- the pre-empted error is real (second disjunct of `C10_inplace_build_err`): with the recorded
    normals missing, `Build.build` reports the oracle error before charging the polls of the split
    loop; in place the poll of the attempt comes first and, firing at call 27, is what is reported -/
example : open C01.Ex in
    isOracle (Build.build cEx oEx 5 { env2 with store := C01.run ops2, normals := [], cancelAt := some 27 }) = true ∧
    errAt (buildM cEx oEx 5 { env2 with store := C01.run ops2, normals := [], cancelAt := some 27 }) = some 28 ∧
    isOracle (buildM cEx oEx 5 { env2 with store := C01.run ops2, normals := [], cancelAt := none }) = true := by
  decide +kernel

end InPlaceEx
end Arroy.C10
