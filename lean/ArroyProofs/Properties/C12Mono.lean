import ArroyProofs.Properties.C12
import ArroyProofs.F32MonoDiv
import ArroyProofs.F32RealOrder
/-! C12 (continued) — binary-quantised cosine orders neighbours by the number of differing signs at
**every** dimension (`C12_monotone_cosine_partial` was bounded to 5 words): each step of
`(1 − (D − 2h)/D) / 2` is monotone because binary32 rounding is (`ArroyProofs/F32Mono*.lean`). -/
namespace Arroy.C12
open Arroy Generated

/-- **BQ-cosine is monotone in the number of differing signs, at every dimension** (`D = 64 w < 2^62`):
`h ↦ D − 2h` is antitone, `i ↦ i as f32`, `· / (D as f32)` and `· / 2.0` are monotone and `1.0 − ·` is
antitone. (The bound `h2 ≤ 64 w` of the statement is not needed by the proof.) -/
theorem C12_monotone_cosine (w h1 h2 : Nat) (hw : 0 < w) (hb : 64 * w < 2 ^ 62) (h : h1 ≤ h2)
    (_hh : h2 ≤ 64 * w) : F32.le (cosineOf w w h1) (cosineOf w w h2) = true := by
  rw [C12_cosine_closed w h1 hw hb, C12_cosine_closed w h2 hw hb]
  apply F32M.div_two_mono
  apply F32M.sub_antitone F32.one (by decide)
  apply F32M.div_ofNat_mono (64 * w) (by omega) (by omega)
  apply F32M.ofInt_mono
  omega

/-- the same on vectors: the neighbour with fewer differing signs is at least as near, built and
end-to-end, for every dimension below `2^61` -/
theorem C12_orders_neighbours_cosine (host : Host) (q xs ys : List Nat)
    (hx : q.length = xs.length) (hy : q.length = ys.length) (h0 : 0 < q.length) (hd : q.length < 2 ^ 61)
    (h : diffSigns q xs ≤ diffSigns q ys) :
    F32.le (built .bqCosine host (BQ.pack q) (BQ.pack xs))
        (built .bqCosine host (BQ.pack q) (BQ.pack ys)) = true
    ∧ F32.le (dist .bqCosine host q xs) (dist .bqCosine host q ys) = true := by
  obtain ⟨-, -, a3⟩ := C12_built host q xs hx
  obtain ⟨-, -, b3⟩ := C12_built host q ys hy
  obtain ⟨-, -, c3⟩ := C12_normalized host q xs hx
  obtain ⟨-, -, d3⟩ := C12_normalized host q ys hy
  have hle : diffSigns q ys ≤ 64 * ((q.length + 63) / 64) := by
    have := BQL.diffSigns_le q ys
    rw [diffSigns_eq]; omega
  have key := C12_monotone_cosine ((q.length + 63) / 64) _ _ (by omega) (by omega) h hle
  rw [a3, b3, c3, d3]
  exact ⟨key, key⟩

/-- end-to-end (normalised) BQ-Euclidean and BQ-Manhattan distances `4h/d`, `2h/d` order neighbours by
`h` as well, for every dimension `0 < d < 2^127` (the division by the dimension is monotone) -/
theorem C12_orders_neighbours_dist (host : Host) (q xs ys : List Nat)
    (hx : q.length = xs.length) (hy : q.length = ys.length) (h0 : 0 < q.length) (hd : q.length < 2 ^ 127)
    (h : diffSigns q xs ≤ diffSigns q ys) :
    F32.le (dist .bqEuclidean host q xs) (dist .bqEuclidean host q ys) = true
    ∧ F32.le (dist .bqManhattan host q xs) (dist .bqManhattan host q ys) = true := by
  obtain ⟨c1, c2, -⟩ := C12_normalized host q xs hx
  obtain ⟨d1, d2, -⟩ := C12_normalized host q ys hy
  obtain ⟨m1, m2⟩ := C12_monotone _ _ h
  rw [c1, c2, d1, d2]
  exact ⟨F32M.div_ofNat_mono _ h0 hd m1, F32M.div_ofNat_mono _ h0 hd m2⟩

/-- **strictly** monotone up to dimension `2^21 = 2 097 152` (`D = 64 w ≤ 2^21`): fewer differing signs
means a strictly smaller BQ-cosine distance. Two different `h` move the exact value `h/D` by at least
`1/D ≥ 8·2^-24`, more than the three roundings (relative error `2^-24` each, standard model of binary32
arithmetic in `ℝ`) can undo. For large dimensions strictness fails (see the example below: `D = 2^36`). -/
theorem C12_strict_monotone_cosine (w h1 h2 : Nat) (hw : 0 < w) (hb : 64 * w ≤ 2 ^ 21) (h : h1 < h2)
    (hh : h2 ≤ 64 * w) : F32.lt (cosineOf w w h1) (cosineOf w w h2) = true := by
  have hb' : 64 * w < 2 ^ 62 := by omega
  rcases Nat.eq_zero_or_pos h1 with h0 | h0
  · subst h0
    have e0 : cosineOf w w 0 = 0 := BQL.cosineOf_self_zero w hb'
    rw [e0, C12_cosine_closed w h2 hw hb']
    exact SFR.cosine_pos (64 * w) h2 (by omega) hb (by omega) hh
  · rw [C12_cosine_closed w h1 hw hb', C12_cosine_closed w h2 hw hb']
    exact SFR.cosine_strict (64 * w) h1 h2 (by omega) hb h0 h hh

/-- the same on vectors of dimension up to `2^21`: strictly fewer differing signs, strictly nearer -/
theorem C12_orders_neighbours_cosine_strict (host : Host) (q xs ys : List Nat)
    (hx : q.length = xs.length) (hy : q.length = ys.length) (h0 : 0 < q.length) (hd : q.length ≤ 2 ^ 21)
    (h : diffSigns q xs < diffSigns q ys) :
    F32.lt (built .bqCosine host (BQ.pack q) (BQ.pack xs))
        (built .bqCosine host (BQ.pack q) (BQ.pack ys)) = true
    ∧ F32.lt (dist .bqCosine host q xs) (dist .bqCosine host q ys) = true := by
  obtain ⟨-, -, a3⟩ := C12_built host q xs hx
  obtain ⟨-, -, b3⟩ := C12_built host q ys hy
  obtain ⟨-, -, c3⟩ := C12_normalized host q xs hx
  obtain ⟨-, -, d3⟩ := C12_normalized host q ys hy
  have hle : diffSigns q ys ≤ 64 * ((q.length + 63) / 64) := by
    have := BQL.diffSigns_le q ys
    rw [diffSigns_eq]; omega
  have key := C12_strict_monotone_cosine ((q.length + 63) / 64) _ _ (by omega) (by omega) h hle
  rw [a3, b3, c3, d3]
  exact ⟨key, key⟩

/-! ## non-vacuity -/

-- beyond the 5 words of `C12_monotone_cosine_partial`: 7 words (dimension 448), and `2^50` words
example : F32.le (cosineOf 7 7 3) (cosineOf 7 7 200) = true :=
  C12_monotone_cosine 7 3 200 (by decide) (by decide) (by decide) (by decide)
example : F32.le (cosineOf (2 ^ 50) (2 ^ 50) (2 ^ 40)) (cosineOf (2 ^ 50) (2 ^ 50) (2 ^ 40 + 1)) = true :=
  C12_monotone_cosine (2 ^ 50) (2 ^ 40) (2 ^ 40 + 1) (by decide) (by decide) (by omega) (by decide)
-- the statement is not strict for large dimensions: two different `h` with the same distance
example : cosineOf (2 ^ 30) (2 ^ 30) 1 = cosineOf (2 ^ 30) (2 ^ 30) 2 := by decide +kernel
-- strict, beyond 5 words: 1000 words (dimension 64 000)
example : F32.lt (cosineOf 1000 1000 17) (cosineOf 1000 1000 18) = true :=
  C12_strict_monotone_cosine 1000 17 18 (by decide) (by decide) (by decide) (by decide)
example (host : Host) : F32.lt (dist .bqCosine host exA exA') (dist .bqCosine host exA exB) = true :=
  (C12_orders_neighbours_cosine_strict host exA exA' exB (by decide) (by decide) (by decide) (by decide)
    (by decide +kernel)).2
-- on vectors (`exA`, `exA'`, `exB` of `C12.lean`: 0 and 3 differing signs)
example (host : Host) :
    F32.le (dist .bqCosine host exA exA') (dist .bqCosine host exA exB) = true :=
  (C12_orders_neighbours_cosine host exA exA' exB (by decide) (by decide) (by decide) (by decide)
    (by decide +kernel)).2
example (host : Host) :
    F32.le (dist .bqEuclidean host exA exA') (dist .bqEuclidean host exA exB) = true :=
  (C12_orders_neighbours_dist host exA exA' exB (by decide) (by decide) (by decide) (by decide)
    (by decide +kernel)).1

end Arroy.C12
