import ArroyProofs.Properties.C03
import ArroyProofs.Properties.C04
import ArroyProofs.Properties.C04Build
import ArroyProofs.Properties.C15Build
import ArroyProofs.BruteForce
import ArroyProofs.ForestUnique
import ArroyProofs.ForestBridge
import ArroyProofs.StoreFold
import ArroyProofs.Properties.C01Checker
/-! # Soundness of the executable predicates evaluated on the implementation's data

`ArroyModel/Check.lean` defines the predicates that the trace driver evaluates on the database dumps and
the query answers of the real crate. A non-empty list of messages is reported as a property failure.
This file proves, for each predicate, what an EMPTY list means (soundness), and — where it is cheap — the
converse, so that every statement is an exact characterisation of what is checked.

Places where a predicate checks LESS than the property theorem of the same number states (each with a
concrete accepted witness or an explicit extra hypothesis in the theorems below):
* `Check.wellFormed` vs `C03_wellformed`: `Store.contains` instead of `IsLeaf`
  (`CHK_wellFormed_nonleaf_accepted`); reported distance compared modulo NaN canonicalisation
  (`CHK_wellFormed_nan_accepted`). Everything else is checked exactly (`CHK_wellFormed_iff`).
* `Check.forestValid` vs `Forest` / `C01_forest`: buckets being sorted id lists (`Forest.wf`) is not checked;
  "a root when there is an item" is not checked (`CHK_forestValid_noroots_accepted`); item keys holding leaves,
  the metadata's distance name and dimension, and the absence of marks are not looked at. Only the accepting
  direction was proved before (`C01_checker_sound` is `Forest → forestValid = []`); the soundness direction is
  `CHK_forestValid_sound` / `CHK_forestValid_forest` / `CHK_forestValid_sound_unbuilt`.
* `Check.trees` drops the roots that do not reify, so `Check.capacityOk`, `Check.routed`, `Check.hasGoodTree`
  are vacuous for them and on stores without metadata (`CHK_trees_spec`, `CHK_trees_nometa`; examples on
  `sNoBucket`); `Check.forestValid = []` excludes the first case (`CHK_forestValid_roots_reify`).
* `Check.capacityOk`, `Check.routed` (`C04.C04_checker`), `Check.hasGoodTree`, `Check.bruteForce` are exact. -/
namespace Arroy.Checkers
open Arroy Generated Reader

/-! ## `Check.nodup` -/

/-- `Check.nodup` decides `List.Nodup` -/
theorem CHK_nodup_iff (l : List Nat) : Check.nodup l = true ↔ l.Nodup := by
  refine ⟨?_, check_nodup_of_nodup l⟩
  intro h
  simp only [Check.nodup, beq_iff_eq] at h
  unfold IdSet.ofList at h
  have hsub := IdSet.dedup_sublist (l.mergeSort (fun a b => decide (a ≤ b)))
  have hlen : (IdSet.dedup (l.mergeSort fun a b => decide (a ≤ b))).length =
      (l.mergeSort fun a b => decide (a ≤ b)).length := by rw [h, List.length_mergeSort]
  have heq := hsub.eq_of_length hlen
  have hs : IdSet.Sorted (l.mergeSort fun a b => decide (a ≤ b)) := by
    rw [← heq]; exact IdSet.sorted_dedup (IdSet.mergeSort_pairwise l)
  exact (List.mergeSort_perm l _).nodup_iff.1 hs.nodup

/-! ## `Check.wellFormed` (C03) -/

theorem ite_nil_iff {p : Prop} [Decidable p] (m : String) : (if p then ([] : List String) else [m]) = [] ↔ p := by
  by_cases h : p
  · rw [if_pos h]; exact ⟨fun _ => h, fun _ => rfl⟩
  · rw [if_neg h]; exact ⟨fun e => (by cases e), fun hp => absurd hp h⟩

/-- what `Check.wellFormed` checks, clause by clause -/
def WellFormedChecked (c : Cfg) (s : Store) (dims : Nat) (qh qv : List Nat) (q : QueryOpts)
    (ans : List (Nat × Nat)) : Prop :=
  ans.length ≤ q.count ∧
  (ans.map (·.1)).Nodup ∧
  (∀ p ∈ ans, (Store.get s (c.itemKey p.1)).isSome = true ∧ inCandidates q p.1 = true ∧
    Check.canonF p.2 = Check.canonF (c.metric.normalizedDistance (scoreOf c s qh qv p.1) dims)) ∧
  (ans.map fun p => (scoreOf c s qh qv p.1, p.1)).Pairwise (fun a b => scoreLe a b = true)

theorem ordered_nil_iff (f : Nat → Nat) : ∀ (l : List (Nat × Nat)),
    Check.wellFormed.ordered (l.map fun p => (p.1, p.2, f p.1)) = [] ↔
    (l.map fun p => (f p.1, p.1)).Pairwise (fun a b => scoreLe a b = true)
  | [] => by simp [Check.wellFormed.ordered]
  | [p] => by simp [Check.wellFormed.ordered]
  | p₁ :: p₂ :: rest => by
    have ih := ordered_nil_iff f (p₂ :: rest)
    simp only [List.map_cons] at ih ⊢
    simp only [Check.wellFormed.ordered, List.append_eq_nil_iff]
    rw [ih]
    constructor
    · rintro ⟨h12, hp⟩
      have h12' : scoreLe (f p₁.1, p₁.1) (f p₂.1, p₂.1) = true := by
        by_cases hle : scoreLe (f p₁.1, p₁.1) (f p₂.1, p₂.1) = true
        · exact hle
        · rw [if_neg hle] at h12; cases h12
      refine List.pairwise_cons.2 ⟨?_, hp⟩
      intro b hb
      rcases List.mem_cons.1 hb with rfl | hb
      · exact h12'
      · exact scoreLe_trans _ _ _ h12' ((List.pairwise_cons.1 hp).1 b hb)
    · intro h
      have h12 := (List.pairwise_cons.1 h).1 _ List.mem_cons_self
      exact ⟨by rw [if_pos h12], (List.pairwise_cons.1 h).2⟩

/-- **`Check.wellFormed` is exactly `WellFormedChecked`**: the answer has at most `count` results, the ids are
pairwise distinct, every id has an entry under its item key and is inside the candidate filter, the
reported distance is `normalizedDistance` of the true score up to the NaN canonicalisation `Check.canonF`,
and the results are ordered nearest first (`scoreLe`: score under `OrderedFloat`, ties by id) on the true
scores.

Compared with `C03.C03_wellformed` two clauses are WEAKER:
* `C03_wellformed` says every result `IsLeaf` (its item key holds a `.leaf`); the predicate only checks
  `Store.contains` (some value is stored under the item key), and scores a non-leaf entry as `0`
  (`scoreOf`); `CHK_wellFormed_sound_leaves` recovers `IsLeaf` when the item keys of the dump hold leaves;
  `CHK_wellFormed_nonleaf_accepted` is a concrete accepted answer naming a non-leaf entry;
* `C03_wellformed` says `p.2 = normalizedDistance …` on the bits; the predicate compares modulo `canonF`
  (all NaNs are identified); `CHK_wellFormed_sound_leaves` recovers the equality of bits for every
  non-NaN reported distance; `CHK_wellFormed_nan_accepted` is a concrete accepted answer with another NaN. -/
theorem CHK_wellFormed_iff (c : Cfg) (s : Store) (dims : Nat) (qh qv : List Nat) (q : QueryOpts)
    (ans : List (Nat × Nat)) :
    Check.wellFormed c s dims qh qv q ans = [] ↔ WellFormedChecked c s dims qh qv q ans := by
  unfold Check.wellFormed WellFormedChecked
  simp only []
  generalize hL : (List.map _ ans : List (Nat × Nat × Nat)) = L
  have hsc : L = ans.map fun p => (p.1, p.2, scoreOf c s qh qv p.1) := by
    rw [← hL]
    apply List.map_congr_left
    rintro ⟨id, d⟩ _
    simp only [scoreOf]
    split <;> simp_all
  rw [hsc]
  simp only [List.append_eq_nil_iff, ordered_nil_iff (scoreOf c s qh qv) ans]
  rw [ite_nil_iff, ite_nil_iff, CHK_nodup_iff]
  rw [List.filterMap_eq_nil_iff, List.filterMap_eq_nil_iff]
  constructor
  · rintro ⟨⟨⟨⟨h1, h2⟩, h3⟩, h4⟩, h5⟩
    refine ⟨h1, h2, ?_, h5⟩
    intro p hp
    have h3' := h3 p.1 (List.mem_map_of_mem hp)
    have h4' := h4 (p.1, p.2, scoreOf c s qh qv p.1) (List.mem_map.2 ⟨p, hp, rfl⟩)
    have hsc2 : (Store.get s (c.itemKey p.1)).isSome = true ∧ inCandidates q p.1 = true := by
      by_cases ha : (!(s.contains (c.itemKey p.1))) = true
      · rw [if_pos ha] at h3'; cases h3'
      · rw [if_neg ha] at h3'
        by_cases hb : (!(inCandidates q p.1)) = true
        · rw [if_pos hb] at h3'; cases h3'
        · constructor
          · cases hh : s.contains (c.itemKey p.1)
            · rw [hh] at ha; exact absurd rfl ha
            · exact hh
          · cases hh : inCandidates q p.1
            · rw [hh] at hb; exact absurd rfl hb
            · rfl
    refine ⟨hsc2.1, hsc2.2, ?_⟩
    by_cases he : (Check.canonF (c.metric.normalizedDistance (scoreOf c s qh qv p.1) dims) == Check.canonF p.2) = true
    · exact (beq_iff_eq.1 he).symm
    · rw [if_neg he] at h4'; cases h4'
  · rintro ⟨h1, h2, h3, h5⟩
    refine ⟨⟨⟨⟨h1, h2⟩, ?_⟩, ?_⟩, h5⟩
    · intro id hid
      obtain ⟨p, hp, rfl⟩ := List.mem_map.1 hid
      obtain ⟨hs, hc, _⟩ := h3 p hp
      simp [Store.contains, hs, hc]
    · intro x hx
      obtain ⟨p, hp, rfl⟩ := List.mem_map.1 hx
      obtain ⟨_, _, hd⟩ := h3 p hp
      simp [hd]

/-- **soundness of `Check.wellFormed`** -/
theorem CHK_wellFormed_sound (c : Cfg) (s : Store) (dims : Nat) (qh qv : List Nat) (q : QueryOpts)
    (ans : List (Nat × Nat)) (h : Check.wellFormed c s dims qh qv q ans = []) :
    ans.length ≤ q.count ∧
    (ans.map (·.1)).Nodup ∧
    (∀ p ∈ ans, (Store.get s (c.itemKey p.1)).isSome = true ∧ inCandidates q p.1 = true ∧
      Check.canonF p.2 = Check.canonF (c.metric.normalizedDistance (scoreOf c s qh qv p.1) dims)) ∧
    (ans.map fun p => (scoreOf c s qh qv p.1, p.1)).Pairwise (fun a b => scoreLe a b = true) :=
  (CHK_wellFormed_iff c s dims qh qv q ans).1 h

theorem canonF_eq_of_notNaN {a b : Nat} (h : Check.canonF a = Check.canonF b) (ha : F32.isNaN a = false) : a = b := by
  unfold Check.canonF at h
  rw [if_neg (by rw [ha]; exact Bool.false_ne_true)] at h
  by_cases hb : F32.isNaN b = true
  · rw [if_pos hb] at h
    subst h
    exact absurd ha (by decide)
  · rw [if_neg hb] at h; exact h

/-- the clauses of `C03_wellformed` themselves, when the item keys of the index hold leaves
(`C05.ItemsAreLeaves`, an invariant of every reachable store) and for the non-NaN reported distances -/
theorem CHK_wellFormed_sound_leaves (c : Cfg) (s : Store) (dims : Nat) (qh qv : List Nat) (q : QueryOpts)
    (ans : List (Nat × Nat)) (hl : C05.ItemsAreLeaves c s)
    (h : Check.wellFormed c s dims qh qv q ans = []) :
    ans.length ≤ q.count ∧
    (ans.map (·.1)).Nodup ∧
    (∀ p ∈ ans, IsLeaf c s p.1 ∧ inCandidates q p.1 = true ∧
      (F32.isNaN p.2 = false → p.2 = c.metric.normalizedDistance (scoreOf c s qh qv p.1) dims) ∧
      (F32.isNaN p.2 = true → F32.isNaN (c.metric.normalizedDistance (scoreOf c s qh qv p.1) dims) = true)) ∧
    (ans.map fun p => (scoreOf c s qh qv p.1, p.1)).Pairwise (fun a b => scoreLe a b = true) := by
  obtain ⟨h1, h2, h3, h4⟩ := CHK_wellFormed_sound c s dims qh qv q ans h
  refine ⟨h1, h2, ?_, h4⟩
  intro p hp
  obtain ⟨hs, hc, hd⟩ := h3 p hp
  refine ⟨C05.ItemsAreLeaves.leaf_of_isSome hl hs, hc, fun hn => canonF_eq_of_notNaN hd hn, ?_⟩
  intro hn
  cases hn' : F32.isNaN (c.metric.normalizedDistance (scoreOf c s qh qv p.1) dims)
  · have := canonF_eq_of_notNaN hd.symm hn'
    rw [this] at hn'; rw [hn] at hn'; cases hn'
  · rfl

/-- and conversely: an answer with the clauses of `C03_wellformed` is accepted (`Reader.wellFormed_nil`) -/
theorem CHK_wellFormed_accepts (c : Cfg) (s : Store) (dims : Nat) (qh qv : List Nat) (q : QueryOpts)
    (ans : List (Nat × Nat)) (h1 : ans.length ≤ q.count) (h2 : (ans.map (·.1)).Nodup)
    (h3 : ∀ p ∈ ans, IsLeaf c s p.1 ∧ inCandidates q p.1 = true ∧
      p.2 = c.metric.normalizedDistance (scoreOf c s qh qv p.1) dims)
    (h4 : (ans.map fun p => (scoreOf c s qh qv p.1, p.1)).Pairwise (fun a b => scoreLe a b = true)) :
    Check.wellFormed c s dims qh qv q ans = [] :=
  wellFormed_nil c s dims qh qv q ans h1 h2 h3 h4

/-! ## `Check.trees` -/

/-- **`Check.trees` on a store with a metadata record** are the reifications of the metadata roots, in the
order of the roots: (1) the definition; (2) every tree read is held by the store, cell by cell (`Holds`),
and is rooted at a metadata root; (3) conversely a tree without a repeated node id that the store holds at a
metadata root is read; (4) when every root reifies, there is exactly one tree per root, in order.

NOTE (checks less): a root whose reification fails (missing / malformed / cyclic node) is silently DROPPED by
`Check.trees`, hence `Check.capacityOk`, `Check.routed` and `Check.hasGoodTree` say nothing about it; only
`Check.forestValid` reports it (`CHK_forestValid_roots_reify`). -/
theorem CHK_trees_spec (c : Cfg) (s : Store) (name : Bytes) (dims : Nat) (items roots : List Nat)
    (hm : Store.get s c.metaKey = some (.metadata name dims items roots)) :
    Check.trees c s = roots.filterMap (fun r => reify c s (s.length + 1) (NodeId.mkTree r)) ∧
    (∀ t ∈ Check.trees c s, Holds c s t ∧ ∃ r ∈ roots, t.ref = NodeId.mkTree r) ∧
    (∀ r ∈ roots, ∀ t, Holds c s t → t.ref = NodeId.mkTree r → t.ids.Nodup → t ∈ Check.trees c s) ∧
    ((∀ r ∈ roots, (reify c s (s.length + 1) (NodeId.mkTree r)).isSome = true) →
      (Check.trees c s).map T.ref = roots.map NodeId.mkTree) := by
  have h0 : Check.trees c s = roots.filterMap (fun r => reify c s (s.length + 1) (NodeId.mkTree r)) := by
    simp only [Check.trees, hm]
  refine ⟨h0, ?_, ?_, ?_⟩
  · intro t ht
    rw [h0] at ht
    obtain ⟨r, hr, hre⟩ := List.mem_filterMap.1 ht
    obtain ⟨hh, href⟩ := holds_of_reify c s _ _ t hre
    exact ⟨hh, r, hr, href⟩
  · intro r hr t hh href hnd
    rw [h0]
    refine List.mem_filterMap.2 ⟨r, hr, ?_⟩
    rw [← href]
    exact reify_of_holds_nodup c s t hh hnd
  · intro hall
    rw [h0]
    clear h0 hm
    induction roots with
    | nil => rfl
    | cons r rest ih =>
      have hr := hall r List.mem_cons_self
      cases hre : reify c s (s.length + 1) (NodeId.mkTree r) with
      | none => rw [hre] at hr; cases hr
      | some t =>
        simp only [List.filterMap_cons, hre, List.map_cons]
        rw [ih (fun r' hr' => hall r' (List.mem_cons_of_mem _ hr'))]
        rw [(holds_of_reify c s _ _ t hre).2]

/-- without a (decodable) metadata record `Check.trees` is empty: the tree-level predicates
(`capacityOk`, `routed`, `hasGoodTree`) are then vacuous -/
theorem CHK_trees_nometa (c : Cfg) (s : Store)
    (hm : ∀ name dims items roots, Store.get s c.metaKey ≠ some (.metadata name dims items roots)) :
    Check.trees c s = [] := by
  unfold Check.trees
  split
  · rename_i name dims items roots h; exact absurd h (hm name dims items roots)
  · rfl

/-- `Check.forestValid = []` on a store with metadata implies that every metadata root reifies, so that
(`CHK_trees_spec`, clause 4) `Check.trees` has exactly one tree per root -/
theorem CHK_forestValid_roots_reify (c : Cfg) (s : Store) (name : Bytes) (dims : Nat) (items roots : List Nat)
    (hm : Store.get s c.metaKey = some (.metadata name dims items roots))
    (h : Check.forestValid c s = []) :
    (∀ r ∈ roots, (reify c s (s.length + 1) (NodeId.mkTree r)).isSome = true) ∧
    (Check.trees c s).map T.ref = roots.map NodeId.mkTree := by
  have hall : ∀ r ∈ roots, (reify c s (s.length + 1) (NodeId.mkTree r)).isSome = true := by
    intro r hr
    unfold Check.forestValid at h
    simp only [hm] at h
    split at h
    · rename_i hbad
      rw [h] at hbad; simp at hbad
    · rename_i hbad
      simp only [Bool.not_eq_true, Bool.not_eq_false', List.isEmpty_iff] at hbad
      rw [List.filterMap_eq_nil_iff] at hbad
      have := hbad (r, reify c s (s.length + 1) (NodeId.mkTree r)) (List.mem_map.2 ⟨r, hr, rfl⟩)
      cases hre : reify c s (s.length + 1) (NodeId.mkTree r) with
      | none => simp [hre] at this
      | some t => rfl
  exact ⟨hall, (CHK_trees_spec c s name dims items roots hm).2.2.2 hall⟩

/-! ## `Check.forestValid` (C01): the soundness direction

`C01.C01_checker_sound` (despite its name), `C01_checker_sound_unbuilt` and `C01_checker_accepts` all prove
the ACCEPTING direction (`Forest … → Check.forestValid c s = []`). The converse is proved here. -/

theorem mem_zip_filterMap {α β : Type} (g : α → Option β) : ∀ (l : List α),
    (∀ a ∈ l, (g a).isSome = true) → ∀ t ∈ l.filterMap g, ∃ r, (r, t) ∈ List.zip l (l.filterMap g)
  | [], _, t, ht => by cases ht
  | a :: l, h, t, ht => by
    have ha := h a List.mem_cons_self
    cases hg : g a with
    | none => rw [hg] at ha; cases ha
    | some b =>
      simp only [List.filterMap_cons, hg, List.zip_cons_cons, List.mem_cons] at ht ⊢
      rcases ht with rfl | ht
      · exact ⟨a, Or.inl rfl⟩
      · obtain ⟨r, hr⟩ := mem_zip_filterMap g l (fun a' ha' => h a' (List.mem_cons_of_mem _ ha')) t ht
        exact ⟨r, Or.inr hr⟩

theorem wf_of_buckets_sorted : ∀ (t : T), (∀ p ∈ t.buckets, IdSet.Sorted p.2) → WF t
  | .leaf _, _ => trivial
  | .bucket id its, h => h (id, its) (by simp [T.buckets])
  | .node _ _ l r, h =>
    ⟨wf_of_buckets_sorted l (fun p hp => h p (by simp [T.buckets, hp])),
     wf_of_buckets_sorted r (fun p hp => h p (by simp [T.buckets, hp]))⟩

/-- **soundness of `Check.forestValid` on a built index**: on a dump with well-formed keys and a metadata
record, an empty verdict implies every clause of the forest predicate `Forest c s roots items (Check.trees c s)`
of the C01 theorems EXCEPT `Forest.wf` (the id list of every bucket is strictly increasing), plus
`items = stored item ids` and `roots.Nodup`:
one tree per metadata root, in order; each held by the store cell by cell; no tree node shared or reached
twice; the tree keys of the index are exactly the nodes reachable from the roots; every tree reaches every
metadata item exactly once and nothing else.

NOT checked (checks less than `Forest`): that the buckets are sorted id lists (`WF`); it holds of every dump
decoded from roaring bitmaps, and is the hypothesis `DescSorted` of `CHK_forestValid_forest`. -/
theorem CHK_forestValid_sound (c : Cfg) (s : Store) (name : Bytes) (dims : Nat) (items roots : List Nat)
    (hw : Store.WF s) (hi : c.index < 65536)
    (hm : Store.get s c.metaKey = some (.metadata name dims items roots))
    (h : Check.forestValid c s = []) :
    (Check.trees c s).map T.ref = roots.map NodeId.mkTree ∧
    (∀ t ∈ Check.trees c s, Holds c s t) ∧
    ((Check.trees c s).flatMap T.ids).Nodup ∧
    (∀ id, (Store.get s (c.treeKey id)).isSome = true ↔ id ∈ (Check.trees c s).flatMap T.ids) ∧
    (∀ t ∈ Check.trees c s, t.items.Nodup) ∧
    (∀ t ∈ Check.trees c s, ∀ x, x ∈ t.items ↔ x ∈ items) ∧
    items = s.keysOf c.index modeItem ∧
    roots.Nodup := by
  obtain ⟨hall, hrefs⟩ := CHK_forestValid_roots_reify c s name dims items roots hm h
  have hspec := CHK_trees_spec c s name dims items roots hm
  have hts : List.filterMap (fun x : Nat × Option T => x.2)
      (List.map (fun r => (r, reify c s (s.length + 1) (NodeId.mkTree r))) roots) = Check.trees c s := by
    rw [hspec.1, List.filterMap_map]; rfl
  unfold Check.forestValid at h
  simp only [hm] at h
  split at h
  · rename_i hbad
    rw [h] at hbad; simp at hbad
  · rw [hts] at h
    simp only [List.append_eq_nil_iff, ite_nil_iff, List.flatMap_eq_nil_iff, CHK_nodup_iff, beq_iff_eq] at h
    obtain ⟨⟨⟨⟨h1, h2⟩, h3⟩, h4⟩, h5⟩ := h
    have h4' : ∀ t ∈ Check.trees c s, t.items.Nodup ∧ IdSet.ofList t.items = s.keysOf c.index modeItem := by
      intro t ht
      rw [hspec.1] at ht
      obtain ⟨r, hr⟩ := mem_zip_filterMap _ roots hall t ht
      rw [← hspec.1] at hr
      exact h4 (r, t) hr
    refine ⟨hrefs, fun t ht => (hspec.2.1 t ht).1, h1, ?_, fun t ht => (h4' t ht).1, ?_, h3, h5⟩
    · intro id
      rw [← IdSet.mem_ofList (l := List.flatMap T.ids (Check.trees c s)), h2,
        Store.mem_keysOf_iff hw _ _ _ hi (by decide)]
      rfl
    · intro t ht x
      rw [← IdSet.mem_ofList (l := t.items), (h4' t ht).2, h3]

/-- with sorted buckets (`DescSorted`: every `.desc` stored under a tree key is a strictly increasing list, as
a decoded roaring bitmap always is): the full predicate `Forest` of the C01 theorems, for the trees
`Check.trees c s`, and the items are the stored ones -/
theorem CHK_forestValid_forest (c : Cfg) (s : Store) (name : Bytes) (dims : Nat) (items roots : List Nat)
    (hw : Store.WF s) (hi : c.index < 65536) (hd : DescSorted c s)
    (hm : Store.get s c.metaKey = some (.metadata name dims items roots))
    (h : Check.forestValid c s = []) :
    Forest c s roots items (Check.trees c s) ∧ items = s.keysOf c.index modeItem := by
  obtain ⟨h1, h2, h3, h4, h5, h6, h7, _⟩ := CHK_forestValid_sound c s name dims items roots hw hi hm h
  refine ⟨⟨h1, h2, h3, h4, ?_, h5, h6⟩, h7⟩
  intro t ht
  apply wf_of_buckets_sorted
  intro p hp
  obtain ⟨id, its⟩ := p
  have hc := (T.desc_mem_cells_iff t id its).2 hp
  exact hd id its (h2 t ht _ hc)

/-- the reader-side forest predicate `ForestWith` (hypothesis of the C02 / C03 / C04 reader theorems) for the
reader state `⟨roots, dims, items⟩` of the metadata, from the checker's verdict and what it does NOT check:
sorted buckets (`DescSorted`), item keys holding leaves (`C05.ItemsAreLeaves`), and a root when there is an
item (`hne`, the clause `RootsNonempty` of `IndexInv`; `CHK_forestValid_noroots_accepted` is an accepted dump
without it) -/
theorem CHK_forestValid_forestWith (c : Cfg) (s : Store) (name : Bytes) (dims : Nat) (items roots : List Nat)
    (hs : Store.Sorted s) (hw : Store.WF s) (hi : c.index < 65536) (hd : DescSorted c s)
    (hl : C05.ItemsAreLeaves c s) (hne : items ≠ [] → roots ≠ [])
    (hm : Store.get s c.metaKey = some (.metadata name dims items roots))
    (h : Check.forestValid c s = []) :
    ForestWith c s ⟨roots, dims, items⟩ (Check.trees c s) := by
  obtain ⟨f, hitems⟩ := CHK_forestValid_forest c s name dims items roots hw hi hd hm h
  refine f.toForestWith dims ?_ ?_ hne
  · rw [hitems]; exact Store.keysOf_sorted hs hw _ _ hi (by decide)
  · intro x hx
    rw [hitems, Store.mem_keysOf_iff hw _ _ _ hi (by decide)] at hx
    exact C05.ItemsAreLeaves.leaf_of_isSome hl hx

/-- **soundness of `Check.forestValid` on an index without metadata**: an empty verdict means that no tree
node is stored (`Unbuilt`); and a metadata key holding anything but a metadata record is always reported -/
theorem CHK_forestValid_sound_unbuilt (c : Cfg) (s : Store) (hw : Store.WF s) (hi : c.index < 65536)
    (hm : ∀ name dims items roots, Store.get s c.metaKey ≠ some (.metadata name dims items roots))
    (h : Check.forestValid c s = []) : Unbuilt c s := by
  unfold Check.forestValid at h
  split at h
  · rename_i hnone
    refine ⟨hnone, ?_⟩
    intro id
    have hk : s.keysOf c.index modeTree = [] := by
      by_cases he : (s.keysOf c.index modeTree).isEmpty = true
      · exact List.isEmpty_iff.1 he
      · simp only [he] at h; simp at h
    cases hg : Store.get s (c.treeKey id) with
    | none => rfl
    | some v =>
      have : id ∈ s.keysOf c.index modeTree := by
        rw [Store.mem_keysOf_iff hw _ _ _ hi (by decide)]
        show (Store.get s (c.treeKey id)).isSome = true
        rw [hg]; rfl
      rw [hk] at this; cases this
  · rename_i n d i r hmeta; exact absurd hmeta (hm n d i r)
  · cases h

/-! ## `Check.capacityOk` (C15) -/

/-- **`Check.capacityOk` accepts exactly** the stores in which every bucket of every tree read at the metadata
roots holds at most `cap` items (`C15.capacityOk_nil_iff`) -/
theorem CHK_capacityOk_iff (c : Cfg) (s : Store) (cap : Nat) :
    Check.capacityOk c s cap = [] ↔ ∀ t ∈ Check.trees c s, ∀ bk ∈ t.buckets, bk.2.length ≤ cap :=
  C15.capacityOk_nil_iff c s cap

/-- **soundness of `Check.capacityOk`**, on the trees and on the store: every bucket of every tree of
`Check.trees c s` holds at most `cap` items; and every descendants node (`.desc`) stored under a node id of
one of these trees holds at most `cap` items.

This is the conclusion of `C15.C15_capacity` (same statement on `Check.trees`). It is vacuous for roots that
do not reify and on stores without metadata (`CHK_trees_spec`, `CHK_trees_nometa`): "every bucket OF THE
INDEX" needs `Check.forestValid = []` in addition (`CHK_capacityOk_sound_store`). -/
theorem CHK_capacityOk_sound (c : Cfg) (s : Store) (cap : Nat) (h : Check.capacityOk c s cap = []) :
    (∀ t ∈ Check.trees c s, ∀ bk ∈ t.buckets, bk.2.length ≤ cap) ∧
    (∀ t ∈ Check.trees c s, ∀ id ∈ t.ids, ∀ ids, Store.get s (c.treeKey id) = some (.desc ids) →
      ids.length ≤ cap) := by
  have h1 := (CHK_capacityOk_iff c s cap).1 h
  refine ⟨h1, ?_⟩
  intro t ht id hid ids hg
  have hh : Holds c s t := by
    unfold Check.trees at ht
    split at ht
    · obtain ⟨r, _, hre⟩ := List.mem_filterMap.1 ht
      exact (holds_of_reify c s _ _ t hre).1
    · cases ht
  exact h1 t ht (id, ids) ((T.desc_mem_cells_iff t id ids).1 (hh.cell_of_get hid hg))

/-! ## `Check.goodPath` / `Check.hasGoodTree` (C04, self-lookup) -/

/-- tree `t` separates item `x` by non-degenerate planes with decisive margins only: the path that follows, at
every split node, the side `D::side` computes for `x`'s stored vector (`Build.sideOf`: `some (some true)` =
positive margin = right) only meets non-zero normals and decisive (non-zero, non-NaN) margins, and ends in the
item `x` itself or in a bucket that lists `x` -/
inductive Separates (c : Cfg) (s : Store) (x : Nat) : T → Prop
  | leaf : Separates c s x (.leaf x)
  | bucket {id : Nat} {its : List Nat} : x ∈ its → Separates c s x (.bucket id its)
  | right {id : Nat} {n : List Nat} {l r : T} : c.metric.isZero n = false →
      Build.sideOf c s n x = some (some true) → Separates c s x r → Separates c s x (.node id n l r)
  | left {id : Nat} {n : List Nat} {l r : T} : c.metric.isZero n = false →
      Build.sideOf c s n x = some (some false) → Separates c s x l → Separates c s x (.node id n l r)

/-- `Check.goodPath` decides `Separates` -/
theorem CHK_goodPath_iff (c : Cfg) (s : Store) (x : Nat) (t : T) :
    Check.goodPath c s x t = true ↔ Separates c s x t := by
  induction t with
  | leaf i =>
    simp only [Check.goodPath, beq_iff_eq]
    constructor
    · rintro rfl; exact .leaf
    · intro h; cases h; rfl
  | bucket id its =>
    simp only [Check.goodPath, List.contains_iff_mem]
    constructor
    · intro h; exact .bucket h
    · intro h; cases h; assumption
  | node id n l r ihl ihr =>
    simp only [Check.goodPath, Check.decisive]
    constructor
    · intro h
      cases hz : c.metric.isZero n
      · rw [hz] at h
        simp only [Bool.false_eq_true, if_false] at h
        cases hs : Build.sideOf c s n x with
        | none => rw [hs] at h; cases h
        | some o =>
          cases o with
          | none => rw [hs] at h; cases h
          | some b =>
            rw [hs] at h
            cases b
            · exact .left hz hs (ihl.1 h)
            · exact .right hz hs (ihr.1 h)
      · rw [hz] at h; simp at h
    · intro h
      cases h with
      | right hz hs hr => rw [hz, hs]; exact ihr.2 hr
      | left hz hs hl => rw [hz, hs]; exact ihl.2 hl

/-- the same path, in terms of the margins of `x`'s stored vector `v` against the normals (argument order of
`D::side`: `margin(v, normal)`): strictly positive → right, strictly negative → left -/
inductive SeparatesV (c : Cfg) (v : List Nat) (x : Nat) : T → Prop
  | leaf : SeparatesV c v x (.leaf x)
  | bucket {id : Nat} {its : List Nat} : x ∈ its → SeparatesV c v x (.bucket id its)
  | right {id : Nat} {n : List Nat} {l r : T} : c.metric.isZero n = false →
      F32.lt F32.zero (c.metric.margin c.host v n) = true → SeparatesV c v x r → SeparatesV c v x (.node id n l r)
  | left {id : Nat} {n : List Nat} {l r : T} : c.metric.isZero n = false →
      F32.lt (c.metric.margin c.host v n) F32.zero = true → SeparatesV c v x l → SeparatesV c v x (.node id n l r)

theorem separates_iff_V (c : Cfg) (s : Store) (x : Nat) (h v : List Nat)
    (hx : Store.get s (c.itemKey x) = some (.leaf h v)) (t : T) :
    Separates c s x t ↔ SeparatesV c v x t := by
  induction t with
  | leaf i =>
    constructor
    · intro h; cases h; exact .leaf
    · intro h; cases h; exact .leaf
  | bucket id its =>
    constructor
    · intro h; cases h; exact .bucket (by assumption)
    · intro h; cases h; exact .bucket (by assumption)
  | node id n l r ihl ihr =>
    have hside := sideOf_stored c s n x h v hx
    constructor
    · intro hh
      cases hh with
      | right hz hs hr =>
        rw [hside] at hs
        by_cases hp : F32.lt F32.zero (c.metric.margin c.host v n) = true
        · exact .right hz hp (ihr.1 hr)
        · rw [if_neg hp] at hs
          by_cases hn : F32.lt (c.metric.margin c.host v n) F32.zero = true
          · rw [if_pos hn] at hs; cases hs
          · rw [if_neg hn] at hs; cases hs
      | left hz hs hl =>
        rw [hside] at hs
        by_cases hp : F32.lt F32.zero (c.metric.margin c.host v n) = true
        · rw [if_pos hp] at hs; cases hs
        · rw [if_neg hp] at hs
          by_cases hn : F32.lt (c.metric.margin c.host v n) F32.zero = true
          · exact .left hz hn (ihl.1 hl)
          · rw [if_neg hn] at hs; cases hs
    · intro hh
      cases hh with
      | right hz hp hr =>
        refine .right hz ?_ (ihr.2 hr)
        rw [hside, if_pos hp]
      | left hz hn hl =>
        refine .left hz ?_ (ihl.2 hl)
        have hp : ¬ F32.lt F32.zero (c.metric.margin c.host v n) = true := by
          rw [F32.lt_asymm hn]; exact Bool.false_ne_true
        rw [hside, if_neg hp, if_pos hn]

/-- **`Check.hasGoodTree` accepts exactly** the items that some tree of `Check.trees c s` separates:
(1) literally the hypothesis `t₀ ∈ ts`, `Check.goodPath c s x t₀ = true` of `C04.C04_selfLookup` (for
`ts = Check.trees c s`); (2) as the predicate `Separates`; (3) for a stored item, in terms of the margins of its
own vector. -/
theorem CHK_hasGoodTree_spec (c : Cfg) (s : Store) (x : Nat) :
    (Check.hasGoodTree c s x = true ↔ ∃ t₀ ∈ Check.trees c s, Check.goodPath c s x t₀ = true) ∧
    (Check.hasGoodTree c s x = true ↔ ∃ t₀ ∈ Check.trees c s, Separates c s x t₀) ∧
    (∀ h v, Store.get s (c.itemKey x) = some (.leaf h v) →
      (Check.hasGoodTree c s x = true ↔ ∃ t₀ ∈ Check.trees c s, SeparatesV c v x t₀)) := by
  have h1 : Check.hasGoodTree c s x = true ↔ ∃ t₀ ∈ Check.trees c s, Check.goodPath c s x t₀ = true := by
    unfold Check.hasGoodTree; exact List.any_eq_true
  refine ⟨h1, ?_, ?_⟩
  · rw [h1]
    constructor
    · rintro ⟨t, ht, hg⟩; exact ⟨t, ht, (CHK_goodPath_iff c s x t).1 hg⟩
    · rintro ⟨t, ht, hg⟩; exact ⟨t, ht, (CHK_goodPath_iff c s x t).2 hg⟩
  · intro h v hx
    rw [h1]
    constructor
    · rintro ⟨t, ht, hg⟩; exact ⟨t, ht, (separates_iff_V c s x h v hx t).1 ((CHK_goodPath_iff c s x t).1 hg)⟩
    · rintro ⟨t, ht, hg⟩; exact ⟨t, ht, (CHK_goodPath_iff c s x t).2 ((separates_iff_V c s x h v hx t).2 hg)⟩

/-- **what the driver's self-lookup predicate rests on** (`C04.C04_selfLookup_by_item` with the executable
predicates as hypotheses): on a dump whose trees `Check.trees c s` form a valid reader-side forest, on which
`Check.routed` reports nothing and `Check.hasGoodTree c s x` holds, `by_item(x)` with a budget ≥ 1, no
filter and `count ≥ #items` returns `x` — provided the margin is symmetric between `x`'s vector and the
normals of the trees. -/
theorem CHK_hasGoodTree_selfLookup {c : Cfg} {s : Store} {rd : ReaderState}
    (F : ForestWith c s rd (Check.trees c s)) (hrouted : Check.routed c s = [])
    (x : Nat) (h v : List Nat) (hx : Store.get s (c.itemKey x) = some (.leaf h v))
    (hsymm : ∀ t ∈ Check.trees c s, ∀ n ∈ t.normals, c.metric.margin c.host v n = c.metric.margin c.host n v)
    (hgood : Check.hasGoodTree c s x = true)
    (q : QueryOpts) (hq : q.candidates = none) (hb : 1 ≤ budget c.metric rd.roots.length q)
    (hcount : rd.items.length ≤ q.count) :
    ∃ ans, byItem c s rd x q = .ok (some ans) ∧ x ∈ ans.map (·.1) := by
  obtain ⟨t₀, ht₀, hg⟩ := (CHK_hasGoodTree_spec c s x).1.1 hgood
  exact C04.C04_selfLookup_by_item F {} ((C04.C04_checker c {} s).1 hrouted) x h v hx hsymm t₀ ht₀ hg q hq hb hcount

/-! ## `Check.bruteForce` (C02 / C03, the exact-search oracle) -/

/-- the ids `Check.bruteForce` ranks: the item keys of index `c`, in key order, that hold a leaf and pass the
filter (when there is one) -/
def leafIds (c : Cfg) (s : Store) (filter : Option (List Nat)) : List Nat :=
  (s.keysOf c.index modeItem).filter fun id =>
    (match Store.get s (c.itemKey id) with | some (.leaf _ _) => true | _ => false) &&
    (match filter with | some f => f.contains id | none => true)

theorem filterMap_eq_filter_map {α β : Type} (l : List α) (g : α → Option β) (p : α → Bool) (f : α → β)
    (h : ∀ a ∈ l, g a = if p a = true then some (f a) else none) : l.filterMap g = (l.filter p).map f := by
  induction l with
  | nil => rfl
  | cons a l ih =>
    have ha := h a List.mem_cons_self
    have ih' := ih (fun b hb => h b (List.mem_cons_of_mem _ hb))
    by_cases hp : p a = true
    · rw [if_pos hp] at ha
      simp only [List.filterMap_cons, ha, List.filter_cons, hp, if_true, List.map_cons, ih']
    · rw [if_neg hp] at ha
      simp only [List.filterMap_cons, ha, List.filter_cons, hp, ih']
      rfl

theorem mem_leafIds {c : Cfg} {s : Store} (hw : Store.WF s) (hi : c.index < 65536) (filter : Option (List Nat))
    (id : Nat) : id ∈ leafIds c s filter ↔ IsLeaf c s id ∧ ∀ f, filter = some f → id ∈ f := by
  unfold leafIds
  rw [List.mem_filter, Store.mem_keysOf_iff hw _ _ _ hi (by decide), Bool.and_eq_true]
  have hk : (⟨c.index, modeItem, id⟩ : Key) = c.itemKey id := rfl
  rw [hk]
  constructor
  · rintro ⟨_, hl, hf⟩
    constructor
    · split at hl
      · rename_i h v hg; exact ⟨h, v, hg⟩
      · cases hl
    · intro f hfe; subst hfe; simpa using hf
  · rintro ⟨⟨h, v, hg⟩, hf⟩
    refine ⟨by rw [hg]; rfl, by rw [hg], ?_⟩
    cases filter with
    | none => rfl
    | some f => simpa using hf f rfl

theorem leafIds_nodup {c : Cfg} {s : Store} (hs : Store.Sorted s) (hw : Store.WF s) (hi : c.index < 65536)
    (filter : Option (List Nat)) : (leafIds c s filter).Nodup :=
  (Store.keysOf_sorted hs hw _ _ hi (by decide)).nodup.sublist List.filter_sublist

/-- **`Check.bruteForce` is the `scoreLe`-sorted list of the scored leaf ids** of the index (inside the filter),
on a dump whose keys are well-formed and strictly increasing (as every decoded LMDB dump is) -/
theorem CHK_bruteForce_eq (c : Cfg) (s : Store) (qh qv : List Nat) (filter : Option (List Nat))
    (hs : Store.Sorted s) (hw : Store.WF s) (hi : c.index < 65536) :
    Check.bruteForce c s qh qv filter = sortedScored c s qh qv (leafIds c s filter) := by
  have hg := prefixIter_item_get c s _ hw hi rfl (Store.keysOf_sorted hs hw _ _ hi (by decide)).nodup
  unfold Check.bruteForce sortedScored
  simp only []
  congr 1
  unfold scored leafIds Store.keysOf
  rw [List.filter_map, List.map_map, List.map_filterMap]
  apply filterMap_eq_filter_map
  rintro ⟨k, val⟩ hkv
  obtain ⟨_, h2⟩ := hg _ hkv
  simp only [Function.comp] at h2 ⊢
  simp only [scoreOf, h2]
  cases val with
  | leaf h v =>
    cases filter with
    | none => simp
    | some f => simp
  | _ => simp

/-- **specification of `Check.bruteForce`**, on a dump whose keys are well-formed and strictly increasing:
its ids are exactly the ids stored as a leaf under an item key of index `c` (and inside the filter when one
is given), each exactly once, each paired with its `builtDistance` score against the query leaf, in
ascending order of `(score under OrderedFloat, id)` (`Reader.scoreLe`); and it is the ONLY list with these
four properties. -/
theorem CHK_bruteForce_spec (c : Cfg) (s : Store) (qh qv : List Nat) (filter : Option (List Nat))
    (hs : Store.Sorted s) (hw : Store.WF s) (hi : c.index < 65536) :
    (∀ id, id ∈ (Check.bruteForce c s qh qv filter).map (·.2) ↔
      (IsLeaf c s id ∧ ∀ f, filter = some f → id ∈ f)) ∧
    ((Check.bruteForce c s qh qv filter).map (·.2)).Nodup ∧
    (∀ p ∈ Check.bruteForce c s qh qv filter, p.1 = scoreOf c s qh qv p.2) ∧
    (Check.bruteForce c s qh qv filter).Pairwise (fun a b => scoreLe a b = true) := by
  rw [CHK_bruteForce_eq c s qh qv filter hs hw hi]
  have hperm := sortedScored_ids_perm c s qh qv (leafIds c s filter)
  refine ⟨?_, ?_, ?_, sortedScored_pairwise c s qh qv _⟩
  · intro id
    rw [hperm.mem_iff]
    exact mem_leafIds hw hi filter id
  · exact hperm.nodup_iff.2 (leafIds_nodup hs hw hi filter)
  · intro p hp
    exact (sortedScored_score c s qh qv _ p hp).1

/-- uniqueness: a list with the four properties of `CHK_bruteForce_spec` is `Check.bruteForce` -/
theorem CHK_bruteForce_unique (c : Cfg) (s : Store) (qh qv : List Nat) (filter : Option (List Nat))
    (hs : Store.Sorted s) (hw : Store.WF s) (hi : c.index < 65536) (l : List (Nat × Nat))
    (h1 : ∀ id, id ∈ l.map (·.2) ↔ (IsLeaf c s id ∧ ∀ f, filter = some f → id ∈ f))
    (h2 : (l.map (·.2)).Nodup)
    (h3 : ∀ p ∈ l, p.1 = scoreOf c s qh qv p.2)
    (h4 : l.Pairwise (fun a b => scoreLe a b = true)) :
    l = Check.bruteForce c s qh qv filter := by
  rw [CHK_bruteForce_eq c s qh qv filter hs hw hi]
  apply sortedScored_unique c s qh qv _ l _ h4
  have hl : l = (l.map (·.2)).map (fun id => (scoreOf c s qh qv id, id)) := by
    rw [List.map_map]
    conv => lhs; rw [← List.map_id l]
    apply List.map_congr_left
    intro p hp
    simp only [id, Function.comp]
    rw [← h3 p hp]
  rw [hl]
  unfold scored
  apply List.Perm.map
  rw [List.perm_ext_iff_of_nodup h2 (leafIds_nodup hs hw hi filter)]
  intro id
  rw [h1 id, mem_leafIds hw hi filter id]

/-- the oracle the driver compares an unlimited-budget answer with is the exact answer of the theorems
(`exactOver`, what `C02_exact` / `C03_filter_exact` state) over the leaf ids inside the filter -/
theorem CHK_bruteForce_exactOver (c : Cfg) (s : Store) (dims : Nat) (qh qv : List Nat) (filter : Option (List Nat))
    (count : Nat) (hs : Store.Sorted s) (hw : Store.WF s) (hi : c.index < 65536) :
    ((Check.bruteForce c s qh qv filter).take count).map
        (fun (d, id) => (id, c.metric.normalizedDistance d dims)) =
      exactOver c s dims qh qv count (leafIds c s filter) := by
  rw [CHK_bruteForce_eq c s qh qv filter hs hw hi]
  rfl

/-! ## non-vacuity: positive and negative examples -/
section Examples
/-- the index of `ForestExample` (`c`: index 0, Euclidean, 2 dimensions) with a metadata record: items
(0,0), (1,0), (0,2); one tree: split node 0 with normal (0,1), bucket 1 = {0, 1} on the left, item 2 on the
right -/
def sB : Store :=
  [(⟨0, 0, 0⟩, .metadata [] 2 [0, 1, 2] [0]),
   (⟨0, 2, 0⟩, .split ⟨2, 1⟩ ⟨3, 2⟩ [0, 0x3f800000]), (⟨0, 2, 1⟩, .desc [0, 1]),
   (⟨0, 3, 0⟩, .leaf [0] [0, 0]), (⟨0, 3, 1⟩, .leaf [0] [0x3f800000, 0]), (⟨0, 3, 2⟩, .leaf [0] [0, 0x40000000])]

/-- corrupted: the bucket node 1 is missing (the root does not reify) -/
def sNoBucket : Store := Store.erase sB (ForestExample.c.treeKey 1)
/-- corrupted: item 1 holds a descendants node instead of a leaf -/
def sNonLeaf : Store := Store.put sB (ForestExample.c.itemKey 1) (.desc [7])
/-- corrupted: item 1 is listed by both children of the root -/
def sTwice : Store := Store.put sB (ForestExample.c.treeKey 0) (.split ⟨2, 1⟩ ⟨3, 1⟩ [0, 0x3f800000])

abbrev cB : Cfg := ForestExample.c
abbrev q0 : List Nat := [F32.zero, F32.zero]
abbrev h0 : List Nat := [F32.zero]

example : sB = Store.put ForestExample.s ForestExample.c.metaKey (.metadata [] 2 [0, 1, 2] [0]) := by
  rw [ForestExample.s_eq]; decide

/-! hypotheses on the dump -/
theorem sB_sorted : Store.Sorted sB := by decide
theorem sB_wf : Store.WF sB := by unfold Store.WF; decide
theorem sB_leaves : C05.ItemsAreLeaves cB sB := by unfold C05.ItemsAreLeaves; decide
theorem sB_meta : Store.get sB cB.metaKey = some (.metadata [] 2 [0, 1, 2] [0]) := by decide

/-! `Check.trees` -/
theorem sB_trees : Check.trees cB sB = [ForestExample.tree] := by decide +kernel
example : Check.trees cB sNoBucket = [] := by decide +kernel

/-! `Check.capacityOk` -/
example : Check.capacityOk cB sB 2 = [] := List.isEmpty_iff.1 (by decide +kernel)
example : (Check.capacityOk cB sB 1).isEmpty = false := by decide +kernel
example : Check.capacityOk cB sNoBucket 0 = [] := List.isEmpty_iff.1 (by decide +kernel)

/-! `Check.hasGoodTree` -/
example : Check.hasGoodTree cB sB 2 = true := by decide +kernel
example : Check.hasGoodTree cB sB 0 = false := by decide +kernel
example : Check.hasGoodTree cB sNoBucket 2 = false := by decide +kernel

/-! `Check.forestValid` -/
example : (Check.forestValid cB sNoBucket).isEmpty = false := by decide +kernel

/-! wellFormed -/
example : WellFormedChecked cB sB 2 h0 q0 { count := 3 } [(0, 0), (1, F32.one), (2, F32.two)] := by
  unfold WellFormedChecked; decide +kernel
example : (Check.wellFormed cB sB 2 h0 q0 { count := 2 } [(0, 0), (1, F32.one), (2, F32.two)]).isEmpty = false := by
  decide +kernel

/-- the forest of `sB` -/
theorem sB_forest : Forest cB sB [0] [0, 1, 2] [ForestExample.tree] where
  refs := by decide
  holds := by
    intro t ht
    simp only [List.mem_singleton] at ht
    subst ht
    intro cell hc
    simp only [ForestExample.tree, T.cells, T.ref, List.mem_cons, List.append_nil, List.not_mem_nil, or_false] at hc
    rcases hc with rfl | rfl <;> decide
  ids_nodup := by decide
  cover := by
    intro id
    have := Store.mem_keysOf_iff sB_wf 0 modeTree id (by decide) (by decide)
    rw [show Store.keysOf sB 0 modeTree = [0, 1] by decide] at this
    exact this.symm
  wf := by decide
  items_nodup := by decide
  reach := by
    intro t ht x
    simp only [List.mem_singleton] at ht
    subst ht
    exact Iff.rfl

theorem sB_forestValid : Check.forestValid cB sB = [] :=
  C01.C01_checker_sound cB sB [] 2 [0, 1, 2] [0] [ForestExample.tree] (by decide) sB_sorted sB_wf sB_meta sB_forest
    (by decide)

theorem sB_descSorted : DescSorted cB sB := sB_forest.descSorted

example : Forest cB sB [0] [0, 1, 2] (Check.trees cB sB) ∧ [0, 1, 2] = sB.keysOf cB.index modeItem :=
  CHK_forestValid_forest cB sB [] 2 [0, 1, 2] [0] sB_wf (by decide) sB_descSorted sB_meta sB_forestValid

theorem sTwice_trees : Check.trees cB sTwice = [.node 0 [0, 0x3f800000] (.bucket 1 [0, 1]) (.leaf 1)] := by
  decide +kernel

example : Check.forestValid cB sTwice ≠ [] := by
  intro h
  have := (CHK_forestValid_sound cB sTwice [] 2 [0, 1, 2] [0] (by unfold Store.WF; decide) (by decide) (by decide) h).2.2.2.2.1
  rw [sTwice_trees] at this
  exact absurd (this _ List.mem_cons_self) (by decide)

/-- a metadata record listing item 0 and NO root, no tree node -/
def sNoRoots : Store := [(⟨0, 0, 0⟩, .metadata [] 2 [0] []), (⟨0, 3, 0⟩, .leaf [0] [0, 0])]

/-- FINDING (checks less than `C01_forest`, clause "at least one tree if there is an item"): `Check.forestValid`
accepts a built index that lists items but has no root -/
theorem CHK_forestValid_noroots_accepted : Check.forestValid cB sNoRoots = [] := by
  have hw : Store.WF sNoRoots := by unfold Store.WF; decide
  refine C01.C01_checker_sound cB sNoRoots [] 2 [0] [] [] (by decide) (by decide) hw (by decide)
    (Forest.nil ?_ [0]) (by decide)
  intro id
  have := Store.mem_keysOf_iff hw 0 modeTree id (by decide) (by decide)
  rw [show Store.keysOf sNoRoots 0 modeTree = [] by decide] at this
  cases hg : Store.get sNoRoots (cB.treeKey id) with
  | none => rfl
  | some v =>
    have h2 : (Store.get sNoRoots ⟨0, modeTree, id⟩).isSome = true := by
      show (Store.get sNoRoots (cB.treeKey id)).isSome = true
      rw [hg]; rfl
    exact absurd (this.2 h2) (by simp)


/-! `Check.bruteForce` -/
example : Check.bruteForce cB sB h0 q0 none = [(0, 0), (F32.one, 1), (0x40800000, 2)] := by
  rw [CHK_bruteForce_eq cB sB h0 q0 none sB_sorted sB_wf (by decide)]
  symm
  apply sortedScored_unique
  · rw [show leafIds cB sB none = [0, 1, 2] by decide +kernel]
    decide +kernel
  · decide +kernel


example : Check.bruteForce cB sB h0 q0 (some [2, 1]) = [(F32.one, 1), (0x40800000, 2)] := by
  rw [CHK_bruteForce_eq cB sB h0 q0 _ sB_sorted sB_wf (by decide)]
  symm
  apply sortedScored_unique
  · rw [show leafIds cB sB (some [2, 1]) = [1, 2] by decide +kernel]
    decide +kernel
  · decide +kernel

/-- on the corrupted store the non-leaf entry is not ranked -/
example : Check.bruteForce cB sNonLeaf h0 q0 none = [(0, 0), (0x40800000, 2)] := by
  rw [CHK_bruteForce_eq cB sNonLeaf h0 q0 none (by decide) (by unfold Store.WF; decide) (by decide)]
  symm
  apply sortedScored_unique
  · rw [show leafIds cB sNonLeaf none = [0, 2] by decide +kernel]
    decide +kernel
  · decide +kernel

/-! `Check.wellFormed`: an accepted answer, and one rejected answer per clause -/
theorem sB_answer : Check.wellFormed cB sB 2 h0 q0 { count := 3 } [(0, 0), (1, F32.one), (2, F32.two)] = [] :=
  (CHK_wellFormed_iff ..).2 (by unfold WellFormedChecked; decide +kernel)

/-- the conclusions of `CHK_wellFormed_sound_leaves` on it -/
example : ∀ p ∈ [(0, 0), (1, F32.one), (2, F32.two)], IsLeaf cB sB p.1 ∧
    p.2 = cB.metric.normalizedDistance (scoreOf cB sB h0 q0 p.1) 2 := by
  have hn : ∀ p ∈ [(0, 0), (1, F32.one), (2, F32.two)], F32.isNaN p.2 = false := by decide +kernel
  intro p hp
  obtain ⟨hl, _, hd, _⟩ := (CHK_wellFormed_sound_leaves cB sB 2 h0 q0 _ _ sB_leaves sB_answer).2.2.1 p hp
  exact ⟨hl, hd (hn p hp)⟩

/-- too many results (evaluated by the kernel: the message list is not empty) -/
example : (Check.wellFormed cB sB 2 h0 q0 { count := 2 } [(0, 0), (1, F32.one), (2, F32.two)]).isEmpty = false := by
  decide +kernel
/-- a duplicate id -/
example : Check.wellFormed cB sB 2 h0 q0 { count := 3 } [(0, 0), (0, 0)] ≠ [] :=
  fun h => absurd ((CHK_wellFormed_iff ..).1 h) (by unfold WellFormedChecked; decide +kernel)
/-- an id that is not stored -/
example : Check.wellFormed cB sB 2 h0 q0 { count := 3 } [(7, 0)] ≠ [] :=
  fun h => absurd ((CHK_wellFormed_iff ..).1 h) (by unfold WellFormedChecked; decide +kernel)
/-- an id outside the filter -/
example : Check.wellFormed cB sB 2 h0 q0 { count := 3, candidates := some [1] } [(0, 0)] ≠ [] :=
  fun h => absurd ((CHK_wellFormed_iff ..).1 h) (by unfold WellFormedChecked; decide +kernel)
/-- a wrong reported distance -/
example : Check.wellFormed cB sB 2 h0 q0 { count := 3 } [(1, F32.two)] ≠ [] :=
  fun h => absurd ((CHK_wellFormed_iff ..).1 h) (by unfold WellFormedChecked; decide +kernel)
/-- not nearest first -/
example : Check.wellFormed cB sB 2 h0 q0 { count := 3 } [(1, F32.one), (0, 0)] ≠ [] :=
  fun h => absurd ((CHK_wellFormed_iff ..).1 h) (by unfold WellFormedChecked; decide +kernel)

/-- FINDING (checks less than `C03_wellformed`, clause `IsLeaf`): an answer naming an id whose item key holds
a non-leaf value is accepted (its score counts as 0) -/
theorem CHK_wellFormed_nonleaf_accepted :
    Check.wellFormed cB sNonLeaf 2 h0 q0 { count := 3 } [(1, 0)] = [] ∧ ¬ IsLeaf cB sNonLeaf 1 := by
  refine ⟨(CHK_wellFormed_iff ..).2 (by unfold WellFormedChecked; decide +kernel), ?_⟩
  rintro ⟨h, v, hg⟩
  have : Store.get sNonLeaf (cB.itemKey 1) = some (.desc [7]) := by decide
  rw [this] at hg; cases hg

/-- an item whose stored vector has a NaN component -/
def sNaN : Store := [(⟨0, 3, 0⟩, .leaf [0] [0x7fc00001, 0])]

/-- FINDING (checks less than `C03_wellformed`, clause on the reported distance): the distance is compared
modulo `Check.canonF`, so a reported NaN with any sign / payload is accepted where the model computes the
NaN `0x7fc00000` -/
theorem CHK_wellFormed_nan_accepted :
    Check.wellFormed cB sNaN 2 h0 q0 { count := 1 } [(0, 0xffc00001)] = [] ∧
    cB.metric.normalizedDistance (scoreOf cB sNaN h0 q0 0) 2 = 0x7fc00000 :=
  ⟨(CHK_wellFormed_iff ..).2 (by unfold WellFormedChecked; decide +kernel), by decide +kernel⟩

/-! `CHK_hasGoodTree_selfLookup` applies to `sB` and item 2 -/
example : ∃ ans, byItem cB sB ⟨[0], 2, [0, 1, 2]⟩ 2 { count := 3, searchK := some 1 } = .ok (some ans) ∧
    2 ∈ ans.map (·.1) := by
  have F : ForestWith cB sB ⟨[0], 2, [0, 1, 2]⟩ (Check.trees cB sB) := by
    rw [sB_trees]
    exact sB_forest.toForestWith 2 (by decide)
      (fun x hx => C05.ItemsAreLeaves.leaf_of_isSome sB_leaves (by revert x; decide)) (by decide)
  refine CHK_hasGoodTree_selfLookup F (List.isEmpty_iff.1 (by decide +kernel)) 2 [F32.zero] [F32.zero, F32.two]
    (by decide) ?_ (by decide +kernel) _ rfl (by decide) (by decide)
  rw [sB_trees]
  intro t ht
  simp only [List.mem_singleton] at ht
  subst ht
  decide +kernel

end Examples

end Arroy.Checkers
