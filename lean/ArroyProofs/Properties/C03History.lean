import ArroyProofs.Properties.C02History
import ArroyProofs.Properties.C03Sorted
/-! # C03 over histories — ANY budget, ANY filter, stated against what happened

`C03.lean` states the properties of an any-budget, filtered query against the store (`scoreOf`, `IsLeaf`,
`exactOver` over stored ids), `Reachable.lean` over the state `run ops` of the history grammar leaves.
`C02History.lean` expresses the unlimited-budget, unfiltered answer through the abstract item map of the
history (`C05.spec c.index ops`, id ↦ vector as read back). Here the two are composed: every clause of C03 is
stated with the abstract map only — no store, no leaf, no tree on the right-hand sides.

Hypotheses `(H)`, those of `C02_history`: a well-formed history `ops`, a successful `Build.build c …` on
`run ops`, the index written at the dimension `c.dims` under the metric it has at that point (`C05.Typed`,
`C05.metricOf`) and as `C02.Written` asks (Cosine items from the host `c.host`; no dot-product build on a
non-dot-product index).

* `C03_history_wellformed` — every query (any count, budget, oversampling, filter — sorted or not) succeeds;
  at most `count` results, ids distinct, each a key of the map and inside the filter, each carrying
  `normalized_distance (specScore …)` of the vector the map holds for it, sorted by `(specScore, id)`, and
  the reported distances nearest first;
* `C03_history_filter_exact` — unlimited budget + sorted filter `f` = `C02.specAnswer` of `restrict map f`;
* `C03_history_monotone` — a larger budget never shortens the answer nor makes any rank worse (on `specScore`);
* `C03_history_by_item` — `by_item id` is `by_vector` of the map's vector for `id`, `None` for an id that is
  not in the map, for every option set. -/
namespace Arroy
namespace C03
open Arroy Generated Reader

/-! ## the map restricted to a filter -/

/-- the entries of the abstract item map whose id is in the filter `f` -/
def restrict (m : C05.IMap) (f : List Nat) : C05.IMap := m.filter fun p => f.contains p.1

theorem restrict_ids (m : C05.IMap) (f : List Nat) :
    (restrict m f).map (·.1) = (m.map (·.1)).filter fun x => f.contains x := by
  unfold restrict
  rw [List.filter_map]
  rfl

theorem restrict_sublist (m : C05.IMap) (f : List Nat) : (restrict m f).Sublist m := List.filter_sublist

theorem asc_restrict {m : C05.IMap} (h : C05.Asc m) (f : List Nat) : C05.Asc (restrict m f) := by
  unfold C05.Asc at *
  exact h.sublist ((restrict_sublist m f).map _)

theorem mem_restrict {m : C05.IMap} {f : List Nat} {p : Nat × List Nat} :
    p ∈ restrict m f ↔ p ∈ m ∧ p.1 ∈ f := by
  unfold restrict
  rw [List.mem_filter, List.contains_iff_mem]

/-- looking an id up in the restricted map: the entry of the map if the id is in the filter, nothing otherwise -/
theorem lookup_restrict {m : C05.IMap} (ha : C05.Asc m) (f : List Nat) (id : Nat) :
    List.lookup id (restrict m f) = if id ∈ f then List.lookup id m else none := by
  cases hl : List.lookup id (restrict m f) with
  | some v =>
    have hmem := mem_restrict.1 (C02.mem_of_lookup hl)
    rw [if_pos hmem.2, C02.lookup_of_mem_asc ha hmem.1]
  | none =>
    by_cases hf : id ∈ f
    · rw [if_pos hf]
      cases hl' : List.lookup id m with
      | none => rfl
      | some v =>
        have := C02.lookup_of_mem_asc (asc_restrict ha f) (mem_restrict.2 ⟨C02.mem_of_lookup hl', hf⟩)
        rw [hl] at this; cases this
    · rw [if_neg hf]

theorem restrict_all (m : C05.IMap) (f : List Nat) (h : ∀ p ∈ m, p.1 ∈ f) : restrict m f = m := by
  unfold restrict
  exact List.filter_eq_self.2 fun p hp => List.contains_iff_mem.2 (h p hp)

/-! ## the bridge of `C02History.lean`, for a part of the map -/

/-- scoring the ids of a PART `m'` of the represented map `m` against the store = scoring the entries of `m'` -/
theorem scored_spec_sub {c : Cfg} {s : Store} {m m' : C05.IMap} (hr : C05.Rep c s m) (hP : LeavesMade c s)
    (hsub : ∀ p ∈ m', p ∈ m) (qh qv : List Nat) :
    scored c s qh qv (m'.map (·.1)) = C02.specScored c m' qh qv := by
  unfold scored C02.specScored
  rw [List.map_map]
  apply List.map_congr_left
  intro p hp
  show (scoreOf c s qh qv p.1, p.1) = _
  rw [C02.scoreOf_spec hr hP (C02.lookup_of_mem_asc hr.2 (show (p.1, p.2) ∈ m from hsub p hp))]

/-- **the bridge, restricted**: the exact answer over the stored ids that are in the filter is `specAnswer` of
    the restricted map -/
theorem exactOver_spec_restrict {c : Cfg} {s : Store} {m : C05.IMap} (hr : C05.Rep c s m) (hP : LeavesMade c s)
    (f : List Nat) (qh qv : List Nat) (count : Nat) :
    exactOver c s c.dims qh qv count ((m.map (·.1)).filter fun x => f.contains x) =
      C02.specAnswer c (restrict m f) qh qv count := by
  rw [← restrict_ids]
  unfold exactOver sortedScored C02.specAnswer
  rw [scored_spec_sub hr hP (fun p hp => (restrict_sublist m f).subset hp)]

/-- the score of an id of the map, as `scoreIn` computes it from the map, is its true score in the store -/
theorem scoreIn_eq_scoreOf {c : Cfg} {s : Store} {m : C05.IMap} (hr : C05.Rep c s m) (hP : LeavesMade c s)
    (qh qv : List Nat) {id : Nat} (hid : id ∈ m.map (·.1)) :
    C02.scoreIn c m qh qv id = scoreOf c s qh qv id := by
  have hs := (C05.mem_map_fst_iff_lookup m id).1 hid
  unfold C02.scoreIn
  cases hl : List.lookup id m with
  | none => rw [hl] at hs; cases hs
  | some v => exact (C02.scoreOf_spec hr hP hl qh qv).symm

/-- the vectors of the represented map have the declared dimension -/
theorem length_of_lookup {c : Cfg} {s : Store} {m : C05.IMap} (hr : C05.Rep c s m) (hP : LeavesMade c s)
    {id : Nat} {v : List Nat} (hl : List.lookup id m = some v) : v.length = c.dims := by
  have hv := hr.1 id
  rw [hl] at hv
  unfold Writer.itemVector Writer.itemLeaf at hv
  cases hg : Store.get s (c.itemKey id) with
  | none => rw [hg] at hv; cases hv
  | some val =>
    rw [hg] at hv
    cases val with
    | leaf hd w =>
      simp only [Option.map_some, Option.some.injEq] at hv
      obtain ⟨xs, hxl, hxw, _⟩ := hP id hd w hg
      have hlen := C01.toVec_fromSlice_length c.metric xs
      rw [← hv, hxw, List.length_take]
      omega
    | _ => cases hv

/-! ## the budget grows with `search_k` -/

theorem satMul_mono {a b a' b' : Nat} (ha : a ≤ a') (hb : b ≤ b') : satMul a b ≤ satMul a' b' := by
  unfold satMul
  have := Nat.mul_le_mul ha hb
  show min (a * b) usizeMax ≤ min (a' * b') usizeMax
  omega

/-- same count, oversampling and filter, `search_k` raised from `k₁` to `k₂`: the budget does not shrink -/
theorem budget_mono_searchK (m : Metric) (n : Nat) (q : QueryOpts) (k₁ k₂ : Nat) (hk : k₁ ≤ k₂) :
    budget m n { q with searchK := some k₁ } ≤ budget m n { q with searchK := some k₂ } := by
  unfold budget
  exact satMul_mono hk (Nat.le_refl _)

/-! ## the built state at the end of a typed, written history -/

/-- `C02.history_core` with the sortedness of the stored buckets (what the filtered traversal needs) -/
theorem history_core (ops : List C01.Op) (hops : ∀ op ∈ ops, op.wf)
    (c : Cfg) (o : BuildOpts) (fuel : Nat) (env st' : BState) (hwf : (C01.Op.build c o fuel env).wf)
    (h : Build.build c o fuel { env with store := C01.run ops } = .ok ((), st'))
    (m0 : Metric) (ht : C05.Typed c.index c.dims m0 ops) (hm : c.metric = C05.metricOf c.index m0 ops)
    (hw : C02.Written c.index c.host m0 ops) :
    C05.Rep c st'.store (C05.spec c.index ops) ∧ LeavesMade c st'.store ∧ DescSorted c st'.store ∧
    ∃ roots, Reader.open c st'.store = .ok ⟨roots, c.dims, (C05.spec c.index ops).map (·.1)⟩ ∧
      ForestOK c st'.store ⟨roots, c.dims, (C05.spec c.index ops).map (·.1)⟩ := by
  obtain ⟨hrep, hmade, roots, h1, h2⟩ := C02.history_core ops hops c o fuel env st' hwf h m0 ht hm hw
  obtain ⟨_, _, _, h3⟩ := C01.C01_forestOK_reachable ops hops c o fuel env st' hwf h
  exact ⟨hrep, hmade, h3, roots, h1, h2⟩

/-! ## C03 over histories -/

/-- **C03 over histories (totality + well-formedness)**: under `(H)`, `Reader::open` succeeds with the ids of the
    specification map and EVERY query — any query leaf `(qh, qv)`, any `count`, any budget (`search_k`,
    oversampling, set or not), any candidate filter (sorted or not) — returns `.ok ans` where
    * `ans` has at most `count` entries;
    * its ids are pairwise distinct;
    * every id is a key of `C05.spec c.index ops` (stored now, as the history says: added and not since deleted
      or cleared), is inside the filter, and carries `normalized_distance (specScore c qh qv v)` for the vector
      `v` the map holds for it — the true distance to the vector as (last) written;
    * `ans` is sorted nearest first by `(specScore, id)` under `OrderedFloat` (`scoreLe`);
    * the REPORTED distances are nearest first (`C03_reported_sorted`: NaNs last, `≤` before them, `≥` for the
      dot product) — for the two quantised metrics that divide by the dimension, when `0 < dims < 2^127`. -/
theorem C03_history_wellformed (ops : List C01.Op) (hops : ∀ op ∈ ops, op.wf)
    (c : Cfg) (o : BuildOpts) (fuel : Nat) (env st' : BState) (hwf : (C01.Op.build c o fuel env).wf)
    (h : Build.build c o fuel { env with store := C01.run ops } = .ok ((), st'))
    (m0 : Metric) (ht : C05.Typed c.index c.dims m0 ops) (hm : c.metric = C05.metricOf c.index m0 ops)
    (hw : C02.Written c.index c.host m0 ops) :
    ∃ roots,
      Reader.open c st'.store = .ok ⟨roots, c.dims, (C05.spec c.index ops).map (·.1)⟩ ∧
      ∀ (qh qv : List Nat) (q : QueryOpts), ∃ ans,
        nnsByLeaf c st'.store ⟨roots, c.dims, (C05.spec c.index ops).map (·.1)⟩ qh qv q = .ok ans ∧
        ans.length ≤ q.count ∧
        (ans.map (·.1)).Nodup ∧
        (∀ p ∈ ans, ∃ v, List.lookup p.1 (C05.spec c.index ops) = some v ∧ inCandidates q p.1 = true ∧
          p.2 = c.metric.normalizedDistance (C02.specScore c qh qv v) c.dims) ∧
        (ans.map fun p => (C02.scoreIn c (C05.spec c.index ops) qh qv p.1, p.1)).Pairwise
          (fun a b => scoreLe a b = true) ∧
        (((c.metric = .bqEuclidean ∨ c.metric = .bqManhattan) → 0 < c.dims ∧ c.dims < 2 ^ 127) →
          (ans.map (·.2)).Pairwise (fun r1 r2 =>
            (F32.isNaN r1 = true → F32.isNaN r2 = true) ∧
            (F32.isNaN r2 = false → nearer c.metric r1 r2 = true))) := by
  obtain ⟨hrep, hmade, _, roots, h1, h2⟩ := history_core ops hops c o fuel env st' hwf h m0 ht hm hw
  refine ⟨roots, h1, fun qh qv q => ?_⟩
  obtain ⟨ans, ha, hmem⟩ := C03_total h2 qh qv q
  obtain ⟨w1, w2, w3, w4⟩ := C03_wellformed c st'.store _ qh qv q ans ha
  refine ⟨ans, ha, w1, w2, fun p hp => ?_, ?_, fun hd => C03_reported_sorted c st'.store _ qh qv q ans ha hd⟩
  · have hs := (C05.mem_map_fst_iff_lookup _ _).1 (hmem p hp)
    cases hl : List.lookup p.1 (C05.spec c.index ops) with
    | none => rw [hl] at hs; cases hs
    | some v =>
      refine ⟨v, rfl, (w3 p hp).2.1, ?_⟩
      rw [(w3 p hp).2.2, C02.scoreOf_spec hrep hmade hl]
  · have : (ans.map fun p => (C02.scoreIn c (C05.spec c.index ops) qh qv p.1, p.1)) =
        ans.map fun p => (scoreOf c st'.store qh qv p.1, p.1) := by
      apply List.map_congr_left
      intro p hp
      rw [scoreIn_eq_scoreOf hrep hmade qh qv (hmem p hp)]
    rw [this]
    exact w4

/-- **C03 over histories (filter + sufficient budget = exact search restricted to the filter)**: under `(H)`, with
    a sorted filter `f` and a budget of at least trees × items, the answer is `C02.specAnswer` of the
    specification map RESTRICTED to the ids in `f` — the entries of the restricted map scored by
    `built_distance` against the query, sorted by `(OrderedFloat score, id)`, truncated to `count`, reported
    through `normalized_distance`. -/
theorem C03_history_filter_exact_budget (ops : List C01.Op) (hops : ∀ op ∈ ops, op.wf)
    (c : Cfg) (o : BuildOpts) (fuel : Nat) (env st' : BState) (hwf : (C01.Op.build c o fuel env).wf)
    (h : Build.build c o fuel { env with store := C01.run ops } = .ok ((), st'))
    (m0 : Metric) (ht : C05.Typed c.index c.dims m0 ops) (hm : c.metric = C05.metricOf c.index m0 ops)
    (hw : C02.Written c.index c.host m0 ops) :
    ∃ roots,
      Reader.open c st'.store = .ok ⟨roots, c.dims, (C05.spec c.index ops).map (·.1)⟩ ∧
      ∀ (qh qv : List Nat) (q : QueryOpts) (f : List Nat), q.candidates = some f → IdSet.Sorted f →
        roots.length * (C05.spec c.index ops).length ≤ budget c.metric roots.length q →
        nnsByLeaf c st'.store ⟨roots, c.dims, (C05.spec c.index ops).map (·.1)⟩ qh qv q =
          .ok (C02.specAnswer c (restrict (C05.spec c.index ops) f) qh qv q.count) := by
  obtain ⟨hrep, hmade, hdesc, roots, h1, h2⟩ := history_core ops hops c o fuel env st' hwf h m0 ht hm hw
  refine ⟨roots, h1, fun qh qv q f hq hf hb => ?_⟩
  rw [C03_filter_exact h2 hdesc qh qv q f hq hf (by simpa using hb)]
  exact congrArg Except.ok (exactOver_spec_restrict hrep hmade f qh qv q.count)

/-- **C03 over histories (filter + unlimited budget = exact search restricted to the filter)**: the same with
    `search_k = usize::MAX` (oversampling ≠ 0, trees × items ≤ `usize::MAX`) -/
theorem C03_history_filter_exact (ops : List C01.Op) (hops : ∀ op ∈ ops, op.wf)
    (c : Cfg) (o : BuildOpts) (fuel : Nat) (env st' : BState) (hwf : (C01.Op.build c o fuel env).wf)
    (h : Build.build c o fuel { env with store := C01.run ops } = .ok ((), st'))
    (m0 : Metric) (ht : C05.Typed c.index c.dims m0 ops) (hm : c.metric = C05.metricOf c.index m0 ops)
    (hw : C02.Written c.index c.host m0 ops) :
    ∃ roots,
      Reader.open c st'.store = .ok ⟨roots, c.dims, (C05.spec c.index ops).map (·.1)⟩ ∧
      ∀ (qh qv : List Nat) (q : QueryOpts) (f : List Nat), q.candidates = some f → IdSet.Sorted f →
        q.searchK = some usizeMax → q.oversampling ≠ some 0 →
        roots.length * (C05.spec c.index ops).length ≤ usizeMax →
        nnsByLeaf c st'.store ⟨roots, c.dims, (C05.spec c.index ops).map (·.1)⟩ qh qv q =
          .ok (C02.specAnswer c (restrict (C05.spec c.index ops) f) qh qv q.count) := by
  obtain ⟨roots, h1, h2⟩ := C03_history_filter_exact_budget ops hops c o fuel env st' hwf h m0 ht hm hw
  exact ⟨roots, h1, fun qh qv q f hq hf hk ho hsz =>
    h2 qh qv q f hq hf (by rw [budget_unlimited _ _ q hk ho]; exact hsz)⟩

/-- **what the filtered exact answer is, clause by clause**: under `(H)`, unlimited budget, sorted filter `f`:
    * `min count (number of entries of the map whose id is in f)` results;
    * each id once;
    * only ids of the map that are in `f`, each with the distance of the map's vector;
    * sorted nearest first;
    * no entry of the map inside the filter that is not returned is nearer than one that is;
    * every id of the map inside `f` is returned once `count` reaches their number. -/
theorem C03_history_filter_answer_spec (ops : List C01.Op) (hops : ∀ op ∈ ops, op.wf)
    (c : Cfg) (o : BuildOpts) (fuel : Nat) (env st' : BState) (hwf : (C01.Op.build c o fuel env).wf)
    (h : Build.build c o fuel { env with store := C01.run ops } = .ok ((), st'))
    (m0 : Metric) (ht : C05.Typed c.index c.dims m0 ops) (hm : c.metric = C05.metricOf c.index m0 ops)
    (hw : C02.Written c.index c.host m0 ops) :
    ∃ roots,
      Reader.open c st'.store = .ok ⟨roots, c.dims, (C05.spec c.index ops).map (·.1)⟩ ∧
      ∀ (qh qv : List Nat) (q : QueryOpts) (f : List Nat), q.candidates = some f → IdSet.Sorted f →
        q.searchK = some usizeMax → q.oversampling ≠ some 0 →
        roots.length * (C05.spec c.index ops).length ≤ usizeMax →
        ∃ ans, nnsByLeaf c st'.store ⟨roots, c.dims, (C05.spec c.index ops).map (·.1)⟩ qh qv q = .ok ans ∧
          ans.length = min q.count (restrict (C05.spec c.index ops) f).length ∧
          (ans.map (·.1)).Nodup ∧
          (∀ p ∈ ans, p.1 ∈ f ∧ ∃ v, List.lookup p.1 (C05.spec c.index ops) = some v ∧
            p.2 = c.metric.normalizedDistance (C02.specScore c qh qv v) c.dims) ∧
          (ans.map fun p => (C02.scoreIn c (C05.spec c.index ops) qh qv p.1, p.1)).Pairwise
            (fun a b => scoreLe a b = true) ∧
          (∀ p ∈ ans, ∀ y vy, List.lookup y (C05.spec c.index ops) = some vy → y ∈ f → y ∉ ans.map (·.1) →
            scoreLe (C02.scoreIn c (C05.spec c.index ops) qh qv p.1, p.1) (C02.specScore c qh qv vy, y) = true) ∧
          ((restrict (C05.spec c.index ops) f).length ≤ q.count →
            ∀ y, y ∈ ans.map (·.1) ↔ y ∈ f ∧ y ∈ (C05.spec c.index ops).map (·.1)) := by
  obtain ⟨roots, h1, h2⟩ := C03_history_filter_exact ops hops c o fuel env st' hwf h m0 ht hm hw
  have ha : C05.Asc (C05.spec c.index ops) := (C05.C05_history_presence ops hops c hwf.1).2.2.2.2.2.2
  refine ⟨roots, h1, fun qh qv q f hq hf hk ho hsz => ⟨_, h2 qh qv q f hq hf hk ho hsz, ?_⟩⟩
  have har := asc_restrict ha f
  -- `scoreIn` of the restricted map = `scoreIn` of the map, on the ids of the answer
  have hin : ∀ p ∈ C02.specAnswer c (restrict (C05.spec c.index ops) f) qh qv q.count,
      p.1 ∈ f ∧ ∃ v, List.lookup p.1 (C05.spec c.index ops) = some v ∧
        p.2 = c.metric.normalizedDistance (C02.specScore c qh qv v) c.dims := by
    intro p hp
    obtain ⟨v, hv, hd⟩ := C02.specAnswer_mem c _ qh qv q.count p hp
    obtain ⟨hv1, hv2⟩ := mem_restrict.1 hv
    exact ⟨hv2, v, C02.lookup_of_mem_asc ha hv1, hd⟩
  have hsc : ∀ p ∈ C02.specAnswer c (restrict (C05.spec c.index ops) f) qh qv q.count,
      C02.scoreIn c (C05.spec c.index ops) qh qv p.1 =
        C02.scoreIn c (restrict (C05.spec c.index ops) f) qh qv p.1 := by
    intro p hp
    unfold C02.scoreIn
    rw [lookup_restrict ha, if_pos (hin p hp).1]
  refine ⟨C02.specAnswer_length _ _ _ _ _, C02.specAnswer_nodup c har _ _ _, hin, ?_, ?_, ?_⟩
  · have : ((C02.specAnswer c (restrict (C05.spec c.index ops) f) qh qv q.count).map
          fun p => (C02.scoreIn c (C05.spec c.index ops) qh qv p.1, p.1)) =
        (C02.specAnswer c (restrict (C05.spec c.index ops) f) qh qv q.count).map
          fun p => (C02.scoreIn c (restrict (C05.spec c.index ops) f) qh qv p.1, p.1) := by
      apply List.map_congr_left
      intro p hp
      rw [hsc p hp]
    rw [this]
    exact C02.specAnswer_sorted c har _ _ _
  · intro p hp y vy hy hyf hny
    rw [hsc p hp]
    exact C02.specAnswer_best c har qh qv q.count p hp y vy (mem_restrict.2 ⟨C02.mem_of_lookup hy, hyf⟩) hny
  · intro hc y
    rw [(C02.specAnswer_all c _ qh qv q.count hc).mem_iff, restrict_ids, List.mem_filter,
      List.contains_iff_mem]
    exact And.comm

/-- **C03 over histories (budget monotonicity)**: under `(H)`, two queries with the same query leaf, count and
    filter, the first with the smaller budget (`budget` = `search_k` — or `count × trees` — times the
    oversampling, saturating). Both succeed; the answer for the larger budget is no shorter; and at every rank
    `j` its item is at least as near as the first answer's — both items being entries of the specification
    map, compared on `(specScore of the map's vector, id)` under `OrderedFloat`. -/
theorem C03_history_monotone (ops : List C01.Op) (hops : ∀ op ∈ ops, op.wf)
    (c : Cfg) (o : BuildOpts) (fuel : Nat) (env st' : BState) (hwf : (C01.Op.build c o fuel env).wf)
    (h : Build.build c o fuel { env with store := C01.run ops } = .ok ((), st'))
    (m0 : Metric) (ht : C05.Typed c.index c.dims m0 ops) (hm : c.metric = C05.metricOf c.index m0 ops)
    (hw : C02.Written c.index c.host m0 ops) :
    ∃ roots,
      Reader.open c st'.store = .ok ⟨roots, c.dims, (C05.spec c.index ops).map (·.1)⟩ ∧
      ∀ (qh qv : List Nat) (q₁ q₂ : QueryOpts), q₁.count = q₂.count → q₁.candidates = q₂.candidates →
        budget c.metric roots.length q₁ ≤ budget c.metric roots.length q₂ →
        ∃ ans₁ ans₂,
          nnsByLeaf c st'.store ⟨roots, c.dims, (C05.spec c.index ops).map (·.1)⟩ qh qv q₁ = .ok ans₁ ∧
          nnsByLeaf c st'.store ⟨roots, c.dims, (C05.spec c.index ops).map (·.1)⟩ qh qv q₂ = .ok ans₂ ∧
          ans₁.length ≤ ans₂.length ∧
          ∀ (j : Nat) (a₁ a₂ : Nat × Nat), ans₁[j]? = some a₁ → ans₂[j]? = some a₂ →
            ∃ v₁ v₂, List.lookup a₁.1 (C05.spec c.index ops) = some v₁ ∧
              List.lookup a₂.1 (C05.spec c.index ops) = some v₂ ∧
              scoreLe (C02.specScore c qh qv v₂, a₂.1) (C02.specScore c qh qv v₁, a₁.1) = true := by
  obtain ⟨hrep, hmade, _, roots, h1, h2⟩ := history_core ops hops c o fuel env st' hwf h m0 ht hm hw
  refine ⟨roots, h1, fun qh qv q₁ q₂ hc hcand hb => ?_⟩
  obtain ⟨ans₂, ha₂, hm₂⟩ := C03_total h2 qh qv q₂
  obtain ⟨ans₁', ha₁', hm₁⟩ := C03_total h2 qh qv q₁
  obtain ⟨ans₁, ha₁, hl, hr⟩ := C03_monotone c st'.store _ qh qv q₁ q₂ hc hcand hb ans₂ ha₂
  have he : ans₁' = ans₁ := Except.ok.inj (ha₁'.symm.trans ha₁)
  subst he
  refine ⟨ans₁', ans₂, ha₁, ha₂, hl, fun j a₁ a₂ e₁ e₂ => ?_⟩
  have i₁ := hm₁ a₁ (List.mem_of_getElem? e₁)
  have i₂ := hm₂ a₂ (List.mem_of_getElem? e₂)
  have s₁ := (C05.mem_map_fst_iff_lookup _ _).1 i₁
  have s₂ := (C05.mem_map_fst_iff_lookup _ _).1 i₂
  cases l₁ : List.lookup a₁.1 (C05.spec c.index ops) with
  | none => rw [l₁] at s₁; cases s₁
  | some v₁ =>
    cases l₂ : List.lookup a₂.1 (C05.spec c.index ops) with
    | none => rw [l₂] at s₂; cases s₂
    | some v₂ =>
      refine ⟨v₁, v₂, rfl, rfl, ?_⟩
      rw [← C02.scoreOf_spec hrep hmade l₁, ← C02.scoreOf_spec hrep hmade l₂]
      exact hr j a₁ a₂ e₁ e₂

/-- **C03 over histories (budget monotonicity in `search_k`)**: the same query with `search_k` raised from `k₁` to
    `k₂ ≥ k₁`, everything else (count, oversampling, filter, query) unchanged -/
theorem C03_history_monotone_searchK (ops : List C01.Op) (hops : ∀ op ∈ ops, op.wf)
    (c : Cfg) (o : BuildOpts) (fuel : Nat) (env st' : BState) (hwf : (C01.Op.build c o fuel env).wf)
    (h : Build.build c o fuel { env with store := C01.run ops } = .ok ((), st'))
    (m0 : Metric) (ht : C05.Typed c.index c.dims m0 ops) (hm : c.metric = C05.metricOf c.index m0 ops)
    (hw : C02.Written c.index c.host m0 ops) :
    ∃ roots,
      Reader.open c st'.store = .ok ⟨roots, c.dims, (C05.spec c.index ops).map (·.1)⟩ ∧
      ∀ (qh qv : List Nat) (q : QueryOpts) (k₁ k₂ : Nat), k₁ ≤ k₂ →
        ∃ ans₁ ans₂,
          nnsByLeaf c st'.store ⟨roots, c.dims, (C05.spec c.index ops).map (·.1)⟩ qh qv
            { q with searchK := some k₁ } = .ok ans₁ ∧
          nnsByLeaf c st'.store ⟨roots, c.dims, (C05.spec c.index ops).map (·.1)⟩ qh qv
            { q with searchK := some k₂ } = .ok ans₂ ∧
          ans₁.length ≤ ans₂.length ∧
          ∀ (j : Nat) (a₁ a₂ : Nat × Nat), ans₁[j]? = some a₁ → ans₂[j]? = some a₂ →
            ∃ v₁ v₂, List.lookup a₁.1 (C05.spec c.index ops) = some v₁ ∧
              List.lookup a₂.1 (C05.spec c.index ops) = some v₂ ∧
              scoreLe (C02.specScore c qh qv v₂, a₂.1) (C02.specScore c qh qv v₁, a₁.1) = true := by
  obtain ⟨roots, h1, h2⟩ := C03_history_monotone ops hops c o fuel env st' hwf h m0 ht hm hw
  exact ⟨roots, h1, fun qh qv q k₁ k₂ hk =>
    h2 qh qv _ _ rfl rfl (budget_mono_searchK c.metric roots.length q k₁ k₂ hk)⟩

/-- **C03 over histories (`by_item`)**: under `(H)`, for EVERY option set `q` (any count, budget, oversampling,
    filter):
    * an id that is not in the specification map — never written, deleted, cleared, unknown alike — gives
      `Ok(None)`: no result rather than an error;
    * an id of the map, holding the vector `v` (the one last written, as read back): `v` has the declared
      dimension, `by_vector v` succeeds, and `by_item id` is `Some` of that same answer — the query leaf of
      `by_vector` being, as in the model and the crate, the words `from_slice v` under the header `new_header`
      of them (for the dot product, whose builds rewrite the stored headers, `built_distance` reads none). -/
theorem C03_history_by_item (ops : List C01.Op) (hops : ∀ op ∈ ops, op.wf)
    (c : Cfg) (o : BuildOpts) (fuel : Nat) (env st' : BState) (hwf : (C01.Op.build c o fuel env).wf)
    (h : Build.build c o fuel { env with store := C01.run ops } = .ok ((), st'))
    (m0 : Metric) (ht : C05.Typed c.index c.dims m0 ops) (hm : c.metric = C05.metricOf c.index m0 ops)
    (hw : C02.Written c.index c.host m0 ops) :
    ∃ roots,
      Reader.open c st'.store = .ok ⟨roots, c.dims, (C05.spec c.index ops).map (·.1)⟩ ∧
      ∀ (id : Nat) (q : QueryOpts),
        (List.lookup id (C05.spec c.index ops) = none →
          byItem c st'.store ⟨roots, c.dims, (C05.spec c.index ops).map (·.1)⟩ id q = .ok none) ∧
        (∀ v, List.lookup id (C05.spec c.index ops) = some v →
          v.length = c.dims ∧
          ∃ ans, byVector c st'.store ⟨roots, c.dims, (C05.spec c.index ops).map (·.1)⟩ v q = .ok ans ∧
            byItem c st'.store ⟨roots, c.dims, (C05.spec c.index ops).map (·.1)⟩ id q = .ok (some ans)) := by
  obtain ⟨hrep, hmade, _, roots, h1, h2⟩ := history_core ops hops c o fuel env st' hwf h m0 ht hm hw
  refine ⟨roots, h1, fun id q => ⟨fun hl => ?_, fun v hl => ?_⟩⟩
  · have hv := hrep.1 id
    rw [hl] at hv
    unfold Writer.itemVector at hv
    unfold byItem
    cases hi : Writer.itemLeaf c st'.store id with
    | none => rfl
    | some x => rw [hi] at hv; cases hv
  · have hlen := length_of_lookup hrep hmade hl
    obtain ⟨hd, hg, hhd⟩ := C02.leaf_of_lookup hrep hmade hl
    obtain ⟨ans, ha, _⟩ := C03_total h2 (c.metric.newHeader c.host (c.metric.fromSlice v))
      (c.metric.fromSlice v) q
    have hbv : byVector c st'.store ⟨roots, c.dims, (C05.spec c.index ops).map (·.1)⟩ v q = .ok ans := by
      unfold byVector
      simp only [hlen, ne_eq, not_true_eq_false, if_false]
      exact ha
    refine ⟨hlen, ans, hbv, ?_⟩
    have hi : Writer.itemLeaf c st'.store id = some (hd, c.metric.fromSlice v) := by
      unfold Writer.itemLeaf; rw [hg]
    unfold byItem
    simp only [hi]
    by_cases hdot : c.metric = .dot
    · rw [nnsByLeaf_headerless c _ _ (by rw [hdot]; decide) hd
        (c.metric.newHeader c.host (c.metric.fromSlice v)), ha]
    · rw [hhd hdot, ha]

/-- **`by_item` of an item = `by_vector` of the vector LAST WRITTEN for it**: whatever the history did to `id`
    before, after an `add_item c id v` of the declared dimension and a successful build, for every option set
    `by_vector v` succeeds and `by_item id` is `Some` of the same answer (for a quantised metric the map holds the
    sign pattern of `v`, which packs to the same words) -/
theorem C03_history_by_item_last_written (ops : List C01.Op) (hops : ∀ op ∈ ops, op.wf)
    (c : Cfg) (o : BuildOpts) (fuel : Nat) (env st' : BState) (hwf : (C01.Op.build c o fuel env).wf)
    (id : Nat) (hid : id < 4294967296) (v : List Nat) (hv : v.length = c.dims)
    (h : Build.build c o fuel { env with store := C01.run (ops ++ [.add c id v]) } = .ok ((), st'))
    (m0 : Metric) (ht : C05.Typed c.index c.dims m0 ops) (hm : c.metric = C05.metricOf c.index m0 ops)
    (hw : C02.Written c.index c.host m0 ops) :
    ∃ roots,
      Reader.open c st'.store = .ok ⟨roots, c.dims, (C05.spec c.index (ops ++ [.add c id v])).map (·.1)⟩ ∧
      ∀ q : QueryOpts, ∃ ans,
        byVector c st'.store ⟨roots, c.dims, (C05.spec c.index (ops ++ [.add c id v])).map (·.1)⟩ v q = .ok ans ∧
        byItem c st'.store ⟨roots, c.dims, (C05.spec c.index (ops ++ [.add c id v])).map (·.1)⟩ id q =
          .ok (some ans) := by
  obtain ⟨hs, ht', hm'⟩ := C05.add_snoc ops c id v hv m0 ht hm
  have hops' := C05.wf_snoc hops (show (C01.Op.add c id v).wf from ⟨hwf.1, hid⟩)
  have hw' : C02.Written c.index c.host m0 (ops ++ [.add c id v]) :=
    (C02.written_append _ _ _ _ _).2 ⟨hw, fun _ _ _ => rfl⟩
  obtain ⟨roots, h1, h2⟩ := C03_history_by_item _ hops' c o fuel env st' hwf h m0 ht' hm' hw'
  have hl : List.lookup id (C05.spec c.index (ops ++ [.add c id v])) = some (C05.readback c.metric c.dims v) := by
    rw [hs, C05.lookup_mset, if_pos rfl]
  refine ⟨roots, h1, fun q => ?_⟩
  obtain ⟨hlen, ans, hbv, hbi⟩ := (h2 id q).2 _ hl
  refine ⟨ans, ?_, hbi⟩
  have e : c.metric.fromSlice (C05.readback c.metric c.dims v) = c.metric.fromSlice v := by
    rw [← hv]; exact C02.fromSlice_readback _ _
  rw [← hbv]
  unfold byVector
  simp only [hv, hlen, ne_eq, not_true_eq_false, if_false]
  rw [e]

/-! ## non-vacuity — on the concrete histories of `C02History.lean`

(B) the two-round history `C01.Ex.ops2` (five adds, a build, an add, a delete) followed by its second build: five
    stored vectors, one tree with three buckets — a budget of 1 does NOT reach every item, the answers below are
    not the exact ones;
(C) the Cosine history `C02.Ex.hC` with an overwrite and a delete;
(E) the dot-product history `C02.Ex.hP`, whose builds rewrite the stored headers.
Every closed fact is computed by the kernel (`decide +kernel`): the builds and the queries really run. -/
namespace Ex
open C01.Ex C05.Ex C02.Ex

/-- the map of (B) -/
def mB : C05.IMap := [(1, [fm1, 0]), (2, [f1, fm1]), (3, [f2, f1]), (4, [f3, f1]), (5, [f25, f2])]

/-- the state the second build of (B) leaves: the metadata, one tree (three splits, the buckets `{1}` and
    `{3, 4}`, the item children 2 and 5), the five leaves -/
def sB : Store :=
  [(⟨0, 0, 0⟩, .metadata [101, 117, 99, 108, 105, 100, 101, 97, 110] 2 [1, 2, 3, 4, 5] [0]),
   (⟨0, 2, 0⟩, .split ⟨2, 1⟩ ⟨2, 3⟩ [f1, 0]),
   (⟨0, 2, 1⟩, .desc [1]),
   (⟨0, 2, 2⟩, .split ⟨3, 5⟩ ⟨2, 4⟩ [f1, fm15]),
   (⟨0, 2, 3⟩, .split ⟨3, 2⟩ ⟨2, 2⟩ [0, f1]),
   (⟨0, 2, 4⟩, .desc [3, 4]),
   (⟨0, 3, 1⟩, .leaf [0] [fm1, 0]),
   (⟨0, 3, 2⟩, .leaf [0] [f1, fm1]),
   (⟨0, 3, 3⟩, .leaf [0] [f2, f1]),
   (⟨0, 3, 4⟩, .leaf [0] [f3, f1]),
   (⟨0, 3, 5⟩, .leaf [0] [f25, f2])]

theorem B_store : C01.run (ops2 ++ [.build cEx oEx 5 env2]) = sB := by decide +kernel

/-- how the examples compute an any-budget answer (`List.mergeSort`, used by `IdSet.ofList` and by the final sort,
    does not reduce in the kernel): from the candidate list of the traversal, the sorted id set of its members
    and an explicitly given sorted arrangement of their scores -/
theorem nns_concrete (c : Cfg) (s : Store) (rd : ReaderState) (qh qv : List Nat) (q : QueryOpts)
    (nns ids : List Nat) (l r : List (Nat × Nat)) (hne : rd.items ≠ [])
    (ht : traverse c s qv q (budget c.metric rd.roots.length q) (2 * s.length + rd.roots.length + 2)
      (rd.roots.map fun r => (F32.inf, NodeId.mkTree r)) [] = .ok nns)
    (hids : ids.Pairwise (· < ·)) (h1 : ∀ x ∈ nns, x ∈ ids) (h2 : ∀ x ∈ ids, x ∈ nns)
    (hl : ∀ id ∈ ids, (Writer.itemLeaf c s id).isSome = true)
    (hp : l.Perm (scored c s qh qv ids)) (hs : l.Pairwise (fun a b => scoreLe a b = true))
    (hr : ((l.take q.count).map fun ((d, id) : Nat × Nat) => (id, c.metric.normalizedDistance d rd.dims)) = r) :
    nnsByLeaf c s rd qh qv q = .ok r := by
  have hof : IdSet.ofList nns = ids := IdSet.ofList_eq_of_mem hids (fun x => ⟨h1 x, h2 x⟩)
  have hleaf : ∀ id ∈ IdSet.ofList nns, IsLeaf c s id := by
    intro id hid
    rw [hof] at hid
    have := hl id hid
    unfold Writer.itemLeaf at this
    unfold IsLeaf
    cases hg : Store.get s (c.itemKey id) with
    | none => rw [hg] at this; cases this
    | some val =>
      rw [hg] at this
      cases val with
      | leaf hd v => exact ⟨hd, v, rfl⟩
      | _ => cases this
  rw [nnsByLeaf_of_traverse c s rd qh qv q nns hne ht hleaf, hof, ← hr]
  unfold exactOver
  rw [← sortedScored_unique c s qh qv ids l hp hs]

/-- what the model answers on the state the second build of (B) leaves, query (2.0, 1.0), `count = 3`:
    budget 1 → two results only (items 3, 4: one bucket), budget 3 → three; budget 1 and the UNSORTED filter
    `{5, 2, 9}` → item 5 only -/
theorem B_answers :
    nnsByLeaf cEx sB ⟨[0], 2, [1, 2, 3, 4, 5]⟩ [0] [f2, f1] { count := 3, searchK := some 1 } =
      .ok [(3, 0), (4, f1)] ∧
    nnsByLeaf cEx sB ⟨[0], 2, [1, 2, 3, 4, 5]⟩ [0] [f2, f1] { count := 3, searchK := some 3 } =
      .ok [(3, 0), (4, f1), (5, 1066343357)] ∧
    nnsByLeaf cEx sB ⟨[0], 2, [1, 2, 3, 4, 5]⟩ [0] [f2, f1]
      { count := 3, searchK := some 1, candidates := some [5, 2, 9] } = .ok [(5, 1066343357)] := by
  refine ⟨?_, ?_, ?_⟩
  · exact nns_concrete cEx sB _ _ _ _ [3, 4] [3, 4] [(0, 3), (1065353216, 4)] _ (by decide)
      (by decide +kernel) (by decide) (by decide) (by decide) (by decide +kernel) (by decide +kernel)
      (by decide +kernel) (by decide +kernel)
  · exact nns_concrete cEx sB _ _ _ _ [3, 4, 5] [3, 4, 5] [(0, 3), (1065353216, 4), (1067450368, 5)] _ (by decide)
      (by decide +kernel) (by decide) (by decide) (by decide) (by decide +kernel) (by decide +kernel)
      (by decide +kernel) (by decide +kernel)
  · exact nns_concrete cEx sB _ _ _ _ [5] [5] [(1067450368, 5)] _ (by decide)
      (by decide +kernel) (by decide) (by decide) (by decide) (by decide +kernel) (by decide +kernel)
      (by decide +kernel) (by decide +kernel)

/-- `C03_history_wellformed` on (B): every query on the built state succeeds, with a well-formed answer made of
    ids of the map `{1, …, 5}` — item 0, deleted after the first build, never — whatever the options -/
example : ∃ st', Build.build cEx oEx 5 { env2 with store := C01.run ops2 } = .ok ((), st') ∧
    Reader.open cEx st'.store = .ok ⟨[0], 2, [1, 2, 3, 4, 5]⟩ ∧
    ∀ (qh qv : List Nat) (q : QueryOpts), ∃ ans,
      nnsByLeaf cEx st'.store ⟨[0], 2, [1, 2, 3, 4, 5]⟩ qh qv q = .ok ans ∧
      ans.length ≤ q.count ∧ (ans.map (·.1)).Nodup ∧
      (∀ p ∈ ans, ∃ v, List.lookup p.1 mB = some v ∧ inCandidates q p.1 = true ∧
        p.2 = cEx.metric.normalizedDistance (C02.specScore cEx qh qv v) cEx.dims) ∧
      0 ∉ ans.map (·.1) ∧
      (ans.map fun p => (C02.scoreIn cEx mB qh qv p.1, p.1)).Pairwise (fun a b => scoreLe a b = true) ∧
      (ans.map (·.2)).Pairwise (fun r1 r2 =>
        (F32.isNaN r1 = true → F32.isNaN r2 = true) ∧ (F32.isNaN r2 = false → nearer cEx.metric r1 r2 = true)) := by
  obtain ⟨st', hb⟩ := build2_result
  have hrun := (C05.C05_history_reader_ids ops2 ops2_wf cEx oEx 5 env2 st' build2_wf hb).1
  obtain ⟨roots, h1, h2⟩ := C03_history_wellformed ops2 ops2_wf cEx oEx 5 env2 st' build2_wf hb .euclidean
    B_side.1 B_side.2.1 B_side.2.2.1
  have hspec : C05.spec cEx.index ops2 = mB := B_side.2.2.2
  rw [hspec] at h1 h2
  have hr : roots = [0] := by
    have := B_open; rw [hrun, h1] at this; cases this; rfl
  subst hr
  refine ⟨st', hb, h1, fun qh qv q => ?_⟩
  obtain ⟨ans, ha, w1, w2, w3, w4, w5⟩ := h2 qh qv q
  refine ⟨ans, ha, w1, w2, w3, fun h0 => ?_, w4, w5 (by decide)⟩
  obtain ⟨p, hp, hp0⟩ := List.mem_map.1 h0
  obtain ⟨v, hv, _⟩ := w3 p hp
  rw [hp0] at hv
  have h0' : List.lookup 0 mB = none := by decide
  rw [h0'] at hv
  cases hv

/-- … and the theorem is about answers that are NOT exact: with a budget of 1 the query (2.0, 1.0), `count = 3`, is
    answered by two of the five items (exact search gives three: `C02History.lean` (B)); with the unsorted filter
    `{5, 2, 9}` by item 5 alone (exact search restricted to the filter gives 5 and 2: below) -/
example : ∃ st', Build.build cEx oEx 5 { env2 with store := C01.run ops2 } = .ok ((), st') ∧
    nnsByLeaf cEx st'.store ⟨[0], 2, [1, 2, 3, 4, 5]⟩ [0] [f2, f1] { count := 3, searchK := some 1 } =
      .ok [(3, 0), (4, f1)] ∧
    nnsByLeaf cEx st'.store ⟨[0], 2, [1, 2, 3, 4, 5]⟩ [0] [f2, f1]
      { count := 3, searchK := some 1, candidates := some [5, 2, 9] } = .ok [(5, 1066343357)] := by
  obtain ⟨st', hb⟩ := build2_result
  have hrun := (C05.C05_history_reader_ids ops2 ops2_wf cEx oEx 5 env2 st' build2_wf hb).1
  rw [B_store] at hrun
  refine ⟨st', hb, ?_, ?_⟩ <;> rw [← hrun]
  · exact B_answers.1
  · exact B_answers.2.2

theorem B_restrict : restrict mB [2, 5, 9] = [(2, [f1, fm1]), (5, [f25, f2])] ∧
    IdSet.Sorted [2, 5, 9] ∧ C05.Asc [(2, [f1, fm1]), (5, [f25, f2])] ∧
    ([(1067450368, 5), (1084227584, 2)] : List (Nat × Nat)).Perm
      (C02.specScored cEx [(2, [f1, fm1]), (5, [f25, f2])] [0] [f2, f1]) ∧
    ([(1067450368, 5), (1084227584, 2)] : List (Nat × Nat)).Pairwise (fun a b => scoreLe a b = true) ∧
    ([(1067450368, 5), (1084227584, 2)].map fun ((d, id) : Nat × Nat) =>
      (id, cEx.metric.normalizedDistance d cEx.dims)) = [(5, 1066343357), (2, 1074731965)] := by
  decide +kernel

/-- `C03_history_filter_exact` on (B): unlimited budget and the sorted filter `{2, 5, 9}` (9 is not stored): the
    answer to the query (2.0, 1.0) is item 5 at √1.25 then item 2 at √5, for every `count` — items 3 and 4,
    nearer but outside the filter, are not returned -/
example : ∃ st', Build.build cEx oEx 5 { env2 with store := C01.run ops2 } = .ok ((), st') ∧
    ∀ count, nnsByLeaf cEx st'.store ⟨[0], 2, [1, 2, 3, 4, 5]⟩ [0] [f2, f1]
        { count := count, searchK := some usizeMax, candidates := some [2, 5, 9] } =
      .ok (([(5, 1066343357), (2, 1074731965)] : List (Nat × Nat)).take count) := by
  obtain ⟨st', hb⟩ := build2_result
  have hrun := (C05.C05_history_reader_ids ops2 ops2_wf cEx oEx 5 env2 st' build2_wf hb).1
  obtain ⟨roots, h1, h2⟩ := C03_history_filter_exact ops2 ops2_wf cEx oEx 5 env2 st' build2_wf hb .euclidean
    B_side.1 B_side.2.1 B_side.2.2.1
  have hspec : C05.spec cEx.index ops2 = mB := B_side.2.2.2
  rw [hspec] at h1 h2
  have hr : roots = [0] := by
    have := B_open; rw [hrun, h1] at this; cases this; rfl
  subst hr
  refine ⟨st', hb, fun count => ?_⟩
  refine (h2 [0] [f2, f1] { count := count, searchK := some usizeMax, candidates := some [2, 5, 9] } [2, 5, 9]
    rfl B_restrict.2.1 rfl (by simp) (by decide)).trans ?_
  rw [B_restrict.1]
  exact congrArg Except.ok (answer_of cEx B_restrict.2.2.1 _ _ _ _ _ B_restrict.2.2.2.1 B_restrict.2.2.2.2.1
    B_restrict.2.2.2.2.2)

/-- `C03_history_filter_answer_spec` on (B): whatever the query, filter `{2, 5, 9}`, `count = 4`: two results, the
    ids 2 and 5 -/
example : ∃ st', Build.build cEx oEx 5 { env2 with store := C01.run ops2 } = .ok ((), st') ∧
    ∀ qh qv, ∃ ans, nnsByLeaf cEx st'.store ⟨[0], 2, [1, 2, 3, 4, 5]⟩ qh qv
        { count := 4, searchK := some usizeMax, candidates := some [2, 5, 9] } = .ok ans ∧
      ans.length = 2 ∧ (ans.map (·.1)).Nodup ∧ ∀ y, y ∈ ans.map (·.1) ↔ y = 2 ∨ y = 5 := by
  obtain ⟨st', hb⟩ := build2_result
  have hrun := (C05.C05_history_reader_ids ops2 ops2_wf cEx oEx 5 env2 st' build2_wf hb).1
  obtain ⟨roots, h1, h2⟩ := C03_history_filter_answer_spec ops2 ops2_wf cEx oEx 5 env2 st' build2_wf hb
    .euclidean B_side.1 B_side.2.1 B_side.2.2.1
  have hspec : C05.spec cEx.index ops2 = mB := B_side.2.2.2
  rw [hspec] at h1 h2
  have hr : roots = [0] := by
    have := B_open; rw [hrun, h1] at this; cases this; rfl
  subst hr
  refine ⟨st', hb, fun qh qv => ?_⟩
  obtain ⟨ans, ha, hl, hnd, _, _, _, hall⟩ := h2 qh qv
    { count := 4, searchK := some usizeMax, candidates := some [2, 5, 9] } [2, 5, 9] rfl B_restrict.2.1 rfl
    (by simp) (by decide)
  have hre : restrict mB [2, 5, 9] = [(2, [f1, fm1]), (5, [f25, f2])] := B_restrict.1
  rw [hre] at hl hall
  refine ⟨ans, ha, hl, hnd, fun y => ?_⟩
  have hm : y ∈ mB.map (·.1) ↔ y = 1 ∨ y = 2 ∨ y = 3 ∨ y = 4 ∨ y = 5 := by simp [mB]
  rw [hall (by decide) y, hm]
  simp only [List.mem_cons, List.not_mem_nil, or_false]
  omega

/-- `C03_history_monotone` / `C03_history_monotone_searchK` on (B): `search_k` 1 and 3, query (2.0, 1.0),
    `count = 3`: the second answer is STRICTLY longer (2 results, then 3), and rank-wise no worse -/
example : ∃ st', Build.build cEx oEx 5 { env2 with store := C01.run ops2 } = .ok ((), st') ∧
    ∃ ans₁ ans₂,
      nnsByLeaf cEx st'.store ⟨[0], 2, [1, 2, 3, 4, 5]⟩ [0] [f2, f1] { count := 3, searchK := some 1 } = .ok ans₁ ∧
      nnsByLeaf cEx st'.store ⟨[0], 2, [1, 2, 3, 4, 5]⟩ [0] [f2, f1] { count := 3, searchK := some 3 } = .ok ans₂ ∧
      ans₁.length = 2 ∧ ans₂.length = 3 ∧
      ∀ (j : Nat) (a₁ a₂ : Nat × Nat), ans₁[j]? = some a₁ → ans₂[j]? = some a₂ →
        ∃ v₁ v₂, List.lookup a₁.1 mB = some v₁ ∧ List.lookup a₂.1 mB = some v₂ ∧
          scoreLe (C02.specScore cEx [0] [f2, f1] v₂, a₂.1) (C02.specScore cEx [0] [f2, f1] v₁, a₁.1) = true := by
  obtain ⟨st', hb⟩ := build2_result
  have hrun := (C05.C05_history_reader_ids ops2 ops2_wf cEx oEx 5 env2 st' build2_wf hb).1
  obtain ⟨roots, h1, h2⟩ := C03_history_monotone_searchK ops2 ops2_wf cEx oEx 5 env2 st' build2_wf hb .euclidean
    B_side.1 B_side.2.1 B_side.2.2.1
  have hspec : C05.spec cEx.index ops2 = mB := B_side.2.2.2
  rw [hspec] at h1 h2
  have hr : roots = [0] := by
    have := B_open; rw [hrun, h1] at this; cases this; rfl
  subst hr
  obtain ⟨ans₁, ans₂, ha₁, ha₂, _, hrank⟩ := h2 [0] [f2, f1] { count := 3 } 1 3 (by decide)
  have e₁ := B_answers.1
  have e₂ := B_answers.2.1
  rw [← B_store, hrun] at e₁ e₂
  have l₁ : ans₁ = [(3, 0), (4, f1)] := Except.ok.inj (ha₁.symm.trans e₁)
  have l₂ : ans₂ = [(3, 0), (4, f1), (5, 1066343357)] := Except.ok.inj (ha₂.symm.trans e₂)
  exact ⟨st', hb, ans₁, ans₂, ha₁, ha₂, by rw [l₁]; rfl, by rw [l₂]; rfl, hrank⟩

/-- the budgets of the two queries above: 1 and 3 (`search_k` × the default oversampling 1 of an f32 metric) -/
example : budget cEx.metric 1 { count := 3, searchK := some 1 } = 1 ∧
    budget cEx.metric 1 { count := 3, searchK := some 3 } = 3 := by decide

/-- `C03_history_by_item` on (C) (Cosine, the metric that reads headers): a budget of 1, `count = 1`, the filter
    `{1}`: the deleted item 2 and the never-written item 77 give `None`; item 3, which reads (-1.0, 0.0), is
    answered as `by_vector (-1.0, 0.0)` -/
example : ∃ st', Build.build cC oLeaf 0 { e0 with store := C01.run (hC ++ [.add cC 1 [f1, f1]]) } = .ok ((), st') ∧
    byItem cC st'.store ⟨[0], 2, [1, 3]⟩ 2 { count := 1, searchK := some 1, candidates := some [1] } = .ok none ∧
    byItem cC st'.store ⟨[0], 2, [1, 3]⟩ 77 { count := 1, searchK := some 1, candidates := some [1] } = .ok none ∧
    ∃ ans, byVector cC st'.store ⟨[0], 2, [1, 3]⟩ [fm1, 0]
        { count := 1, searchK := some 1, candidates := some [1] } = .ok ans ∧
      byItem cC st'.store ⟨[0], 2, [1, 3]⟩ 3 { count := 1, searchK := some 1, candidates := some [1] } =
        .ok (some ans) := by
  have hok := C_side.2.2.2.2.1
  cases hb : Build.build cC oLeaf 0 { e0 with store := C01.run (hC ++ [.add cC 1 [f1, f1]]) } with
  | error e => rw [hb] at hok; cases hok
  | ok r =>
    obtain ⟨u, st'⟩ := r
    have hwf : ∀ op ∈ hC ++ [.add cC 1 [f1, f1]], op.wf := by decide
    have hrun := (C05.C05_history_reader_ids _ hwf cC oLeaf 0 e0 st' (by decide) hb).1
    have hside : C05.Typed cC.index cC.dims .cosine (hC ++ [.add cC 1 [f1, f1]]) ∧
        cC.metric = C05.metricOf cC.index .cosine (hC ++ [.add cC 1 [f1, f1]]) ∧
        C02.Written cC.index cC.host .cosine (hC ++ [.add cC 1 [f1, f1]]) := by decide +kernel
    obtain ⟨roots, h1, h2⟩ := C03_history_by_item _ hwf cC oLeaf 0 e0 st' (by decide) hb .cosine
      hside.1 hside.2.1 hside.2.2
    rw [C_side.2.2.2.1] at h1 h2
    have hr : roots = [0] := by
      have := C_side.2.2.2.2.2; rw [hrun, h1] at this; cases this; rfl
    subst hr
    refine ⟨st', rfl, (h2 2 _).1 (by decide), (h2 77 _).1 (by decide), ?_⟩
    obtain ⟨_, ans, hv, hi⟩ := (h2 3 { count := 1, searchK := some 1, candidates := some [1] }).2 [fm1, 0] (by decide)
    exact ⟨ans, hv, hi⟩

/-- `C03_history_by_item_last_written` on (C): item 1, first written as (1.0, 0.0), then OVERWRITTEN with
    (1.0, 1.0): `by_item 1` is `by_vector (1.0, 1.0)`, for every option set -/
example : ∃ st', Build.build cC oLeaf 0 { e0 with store := C01.run (hC ++ [.add cC 1 [f1, f1]]) } = .ok ((), st') ∧
    ∀ q : QueryOpts, ∃ ans, byVector cC st'.store ⟨[0], 2, [1, 3]⟩ [f1, f1] q = .ok ans ∧
      byItem cC st'.store ⟨[0], 2, [1, 3]⟩ 1 q = .ok (some ans) := by
  have hok := C_side.2.2.2.2.1
  cases hb : Build.build cC oLeaf 0 { e0 with store := C01.run (hC ++ [.add cC 1 [f1, f1]]) } with
  | error e => rw [hb] at hok; cases hok
  | ok r =>
    obtain ⟨u, st'⟩ := r
    have hwf : ∀ op ∈ hC ++ [.add cC 1 [f1, f1]], op.wf := by decide
    have hrun := (C05.C05_history_reader_ids _ hwf cC oLeaf 0 e0 st' (by decide) hb).1
    obtain ⟨roots, h1, h2⟩ := C03_history_by_item_last_written hC hC_wf cC oLeaf 0 e0 st' (by decide) 1 (by decide)
      [f1, f1] rfl hb .cosine C_side.1 C_side.2.1 C_side.2.2.1
    rw [C_side.2.2.2.1] at h1 h2
    have hr : roots = [0] := by
      have := C_side.2.2.2.2.2; rw [hrun, h1] at this; cases this; rfl
    subst hr
    exact ⟨st', rfl, h2⟩

/-- `C03_history_by_item` on (E) (dot product): the stored header of item 1 was rewritten by the builds — it is
    not `new_header` of its words (`C02.Ex.E_side`) — and yet `by_item 1` is `by_vector (1.0, 2.0)`, for every
    option set -/
example : ∃ st', Build.build cP oLeaf 0 { e0 with store := C01.run hP } = .ok ((), st') ∧
    ∀ q : QueryOpts, ∃ ans, byVector cP st'.store ⟨[0], 2, [1, 2, 3]⟩ [f1, f2] q = .ok ans ∧
      byItem cP st'.store ⟨[0], 2, [1, 2, 3]⟩ 1 q = .ok (some ans) := by
  obtain ⟨hwf, ht, hm, hw, hs, hok, hopen, _⟩ := E_side
  cases hb : Build.build cP oLeaf 0 { e0 with store := C01.run hP } with
  | error e => rw [hb] at hok; cases hok
  | ok r =>
    obtain ⟨u, st'⟩ := r
    have hrun := (C05.C05_history_reader_ids hP hwf cP oLeaf 0 e0 st' (by decide) hb).1
    obtain ⟨roots, h1, h2⟩ := C03_history_by_item hP hwf cP oLeaf 0 e0 st' (by decide) hb .dot ht hm hw
    rw [hs] at h1 h2
    have hr : roots = [0] := by
      have := hopen; rw [hrun, h1] at this; cases this; rfl
    subst hr
    refine ⟨st', rfl, fun q => ?_⟩
    obtain ⟨_, ans, hv, hi⟩ := (h2 1 q).2 [f1, f2] (by decide)
    exact ⟨ans, hv, hi⟩

end Ex

end C03
end Arroy
