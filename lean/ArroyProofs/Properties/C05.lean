import ArroyProofs.WriterLaws
/-! # C05 — the item store returns exactly what was last written

Refinement of the item-level operations of `Writer` to the abstract specification
`index → ItemId → Option (stored words)`. (The parts of C05 that involve `Build.build` — metadata item
set, DotProduct header rewrite — are not in this file.) -/
namespace Arroy.C05
open Arroy Generated

/-- the abstraction: the vector words of the leaf stored under the item key -/
def absItems (c : Cfg) (s : Store) (id : Nat) : Option (List Nat) :=
  match Store.get s (c.itemKey id) with
  | some (.leaf _ v) => some v
  | _ => none

def isLeaf : Val → Bool
  | .leaf _ _ => true
  | _ => false

/-- invariant: every entry under an item key of the index holds a leaf -/
def ItemsAreLeaves (c : Cfg) (s : Store) : Prop :=
  ∀ kv ∈ s, kv.1.index = c.index → kv.1.mode = modeItem → isLeaf kv.2 = true

/-- what `item_vector` / `iter` show of stored words -/
def view (c : Cfg) (v : List Nat) : List Nat := (c.metric.toVec v).take c.dims

/-- sign of an `f32` bit pattern as `±1.0` (what a quantised vector keeps of a component) -/
def sign (x : Nat) : Nat := if F32.signPositive x then F32.one else F32.negOne

/-! ## helper facts -/

theorem absItems_of_get_leaf {c : Cfg} {s : Store} {id : Nat} {h v : List Nat}
    (hg : Store.get s (c.itemKey id) = some (.leaf h v)) : absItems c s id = some v := by
  unfold absItems; rw [hg]

theorem absItems_of_get_none {c : Cfg} {s : Store} {id : Nat}
    (hg : Store.get s (c.itemKey id) = none) : absItems c s id = none := by
  unfold absItems; rw [hg]

theorem absItems_congr {c : Cfg} {s s' : Store} {id : Nat}
    (hg : Store.get s' (c.itemKey id) = Store.get s (c.itemKey id)) : absItems c s' id = absItems c s id := by
  unfold absItems; rw [hg]

theorem isLeaf_iff (v : Val) : isLeaf v = true ↔ ∃ h w, v = .leaf h w := by
  cases v <;> simp [isLeaf]

theorem get_item_leaf {c : Cfg} {s : Store} (hl : ItemsAreLeaves c s) {id : Nat} {v : Val}
    (hg : Store.get s (c.itemKey id) = some v) : ∃ h w, v = .leaf h w :=
  (isLeaf_iff v).1 (hl _ (Store.mem_of_get hg) rfl rfl)

theorem absItems_isSome_iff {c : Cfg} {s : Store} (hl : ItemsAreLeaves c s) (id : Nat) :
    (absItems c s id).isSome = (Store.get s (c.itemKey id)).isSome := by
  cases hg : Store.get s (c.itemKey id) with
  | none => rw [absItems_of_get_none hg]; rfl
  | some v =>
    obtain ⟨h, w, rfl⟩ := get_item_leaf hl hg
    rw [absItems_of_get_leaf hg]; rfl

theorem itemsAreLeaves_nil (c : Cfg) : ItemsAreLeaves c [] := by intro kv h; cases h

/-! ## the operations against the specification -/

/-- `add_item`, all indexes at once -/
theorem C05_add_all (c c' : Cfg) (s s' : Store) (id : Nat) (vec : List Nat)
    (h : Writer.addItem c s id vec = .ok s') (id' : Nat) :
    absItems c' s' id' =
      if c'.index = c.index ∧ id' = id then some (c.metric.fromSlice vec) else absItems c' s id' := by
  unfold absItems
  rw [Writer.get_addItem h, if_neg (Cfg.itemKey_ne_updatedKey c c' id id')]
  by_cases hk : c'.index = c.index ∧ id' = id
  · rw [if_pos ((Cfg.itemKey_eq_iff c c' id id').2 hk), if_pos hk]; rfl
  · rw [if_neg (fun e => hk ((Cfg.itemKey_eq_iff c c' id id').1 e)), if_neg hk]

/-- **add**: the abstraction after `add_item` is the spec's update `id ↦ words`, the rest unchanged -/
theorem C05_add (c : Cfg) (s s' : Store) (id : Nat) (vec : List Nat)
    (h : Writer.addItem c s id vec = .ok s') (id' : Nat) :
    absItems c s' id' = if id' = id then some (c.metric.fromSlice vec) else absItems c s id' := by
  rw [C05_add_all c c s s' id vec h id']; simp

/-- `add_item` does not touch the items of another index -/
theorem C05_add_frame (c c' : Cfg) (s s' : Store) (id : Nat) (vec : List Nat)
    (h : Writer.addItem c s id vec = .ok s') (hne : c'.index ≠ c.index) (id' : Nat) :
    absItems c' s' id' = absItems c' s id' := by
  rw [C05_add_all c c' s s' id vec h id']; simp [hne]

/-- `add_item` succeeds exactly on vectors of the declared dimension -/
theorem C05_add_ok_iff (c : Cfg) (s : Store) (id : Nat) (vec : List Nat) :
    (∃ s', Writer.addItem c s id vec = .ok s') ↔ vec.length = c.dims := Writer.addItem_ok_iff c s id vec

/-- **append**, when it succeeds, is the same update -/
theorem C05_append (c : Cfg) (s s' : Store) (hs : Store.Sorted s) (id : Nat) (vec : List Nat)
    (h : Writer.appendItem c s id vec = .ok s') (id' : Nat) :
    absItems c s' id' = if id' = id then some (c.metric.fromSlice vec) else absItems c s id' :=
  C05_add c s s' id vec (Writer.appendItem_ok_eq_addItem hs h) id'

theorem C05_append_frame (c c' : Cfg) (s s' : Store) (hs : Store.Sorted s) (id : Nat) (vec : List Nat)
    (h : Writer.appendItem c s id vec = .ok s') (hne : c'.index ≠ c.index) (id' : Nat) :
    absItems c' s' id' = absItems c' s id' :=
  C05_add_frame c c' s s' id vec (Writer.appendItem_ok_eq_addItem hs h) hne id'

theorem C05_del_all (c c' : Cfg) (s : Store) (id id' : Nat) :
    absItems c' (Writer.delItem c s id).1 id' =
      if c'.index = c.index ∧ id' = id then none else absItems c' s id' := by
  unfold absItems
  rw [Writer.get_delItem, if_neg (fun h => Cfg.itemKey_ne_updatedKey c c' id id' h.1)]
  by_cases hk : c'.index = c.index ∧ id' = id
  · rw [if_pos ((Cfg.itemKey_eq_iff c c' id id').2 hk), if_pos hk]
  · rw [if_neg (fun e => hk ((Cfg.itemKey_eq_iff c c' id id').1 e)), if_neg hk]

/-- **del**: `id ↦ none`, the rest unchanged, and the returned flag says whether the item existed -/
theorem C05_del (c : Cfg) (s : Store) (hl : ItemsAreLeaves c s) (id : Nat) :
    (∀ id', absItems c (Writer.delItem c s id).1 id' = if id' = id then none else absItems c s id') ∧
    (Writer.delItem c s id).2 = (absItems c s id).isSome := by
  refine ⟨fun id' => ?_, ?_⟩
  · rw [C05_del_all]; simp
  · rw [Writer.delItem_snd, absItems_isSome_iff hl]

theorem C05_del_frame (c c' : Cfg) (s : Store) (id : Nat) (hne : c'.index ≠ c.index) (id' : Nat) :
    absItems c' (Writer.delItem c s id).1 id' = absItems c' s id' := by
  rw [C05_del_all]; simp [hne]

/-- **clear**: no item of that index is left -/
theorem C05_clear (c : Cfg) (s : Store) (id : Nat) : absItems c (Writer.clear c s) id = none :=
  absItems_of_get_none (Writer.get_clear_same c s _ rfl)

/-- `clear` leaves the items of the other indexes alone -/
theorem C05_clear_frame (c c' : Cfg) (s : Store) (hi : c.index < 65536) (hi' : c'.index < 65536)
    (hne : c'.index ≠ c.index) (id : Nat) (hid : id < 4294967296) :
    absItems c' (Writer.clear c s) id = absItems c' s id :=
  absItems_congr (Writer.get_clear_other c s _ (c'.itemKey_wf id hi' hid) hi hne)

/-! ## the invariant is preserved by every operation (of any index) -/

theorem C05_inv_add (c c' : Cfg) (s s' : Store) (id : Nat) (vec : List Nat)
    (h : Writer.addItem c s id vec = .ok s') (hl : ItemsAreLeaves c' s) : ItemsAreLeaves c' s' := by
  intro kv hkv hidx hmode
  rcases Writer.mem_addItem h hkv with e | e | hkv
  · subst e
    have : modeUpdated = modeItem := hmode
    exact absurd this (by decide)
  · subst e; rfl
  · exact hl kv hkv hidx hmode

theorem C05_inv_append (c c' : Cfg) (s s' : Store) (hs : Store.Sorted s) (id : Nat) (vec : List Nat)
    (h : Writer.appendItem c s id vec = .ok s') (hl : ItemsAreLeaves c' s) : ItemsAreLeaves c' s' :=
  C05_inv_add c c' s s' id vec (Writer.appendItem_ok_eq_addItem hs h) hl

theorem C05_inv_del (c c' : Cfg) (s : Store) (id : Nat) (hl : ItemsAreLeaves c' s) :
    ItemsAreLeaves c' (Writer.delItem c s id).1 := by
  intro kv hkv hidx hmode
  rcases Writer.mem_delItem hkv with e | hkv
  · subst e
    have : modeUpdated = modeItem := hmode
    exact absurd this (by decide)
  · exact hl kv hkv hidx hmode

theorem C05_inv_clear (c c' : Cfg) (s : Store) (hl : ItemsAreLeaves c' s) :
    ItemsAreLeaves c' (Writer.clear c s) :=
  fun kv hkv => hl kv (Writer.mem_clear hkv)

/-! ## reads -/

/-- **contains** -/
theorem C05_contains (c : Cfg) (s : Store) (hl : ItemsAreLeaves c s) (id : Nat) :
    Writer.containsItem c s id = (absItems c s id).isSome := by
  unfold Writer.containsItem Store.contains
  rw [absItems_isSome_iff hl]

/-- **item_vector**: the stored words, viewed as `f32`s and cut at the declared dimension -/
theorem C05_vector (c : Cfg) (s : Store) (id : Nat) :
    Writer.itemVector c s id = (absItems c s id).map (fun v => (c.metric.toVec v).take c.dims) := by
  unfold Writer.itemVector Writer.itemLeaf absItems
  cases hg : Store.get s (c.itemKey id) with
  | none => rfl
  | some v => cases v <;> rfl

/-- for the `f32` metrics, the vector read after `add_item` is the written one, bit for bit -/
theorem C05_readback_f32 (c : Cfg) (s s' : Store) (id : Nat) (vec : List Nat)
    (hm : c.metric.isBq = false) (h : Writer.addItem c s id vec = .ok s') :
    Writer.itemVector c s' id = some vec := by
  have hlen : vec.length = c.dims := (Writer.addItem_ok h).1
  rw [C05_vector, C05_add c s s' id vec h id, if_pos rfl]
  simp [Metric.fromSlice, Metric.toVec, hm, ← hlen]

/-- the same through `append_item` -/
theorem C05_readback_f32_append (c : Cfg) (s s' : Store) (hs : Store.Sorted s) (id : Nat) (vec : List Nat)
    (hm : c.metric.isBq = false) (h : Writer.appendItem c s id vec = .ok s') :
    Writer.itemVector c s' id = some vec :=
  C05_readback_f32 c s s' id vec hm (Writer.appendItem_ok_eq_addItem hs h)

/-- for the quantised metrics: the sign pattern of what was written, at the declared dimension
    (given the pack/unpack round trip proved elsewhere) -/
theorem C05_bq_readback_given_roundtrip
    (hrt : ∀ xs : List Nat, (BQ.unpack (BQ.pack xs)).take xs.length = xs.map sign)
    (c : Cfg) (s s' : Store) (id : Nat) (vec : List Nat)
    (hm : c.metric.isBq = true) (h : Writer.addItem c s id vec = .ok s') :
    Writer.itemVector c s' id = some (vec.map sign) := by
  have hlen : vec.length = c.dims := (Writer.addItem_ok h).1
  rw [C05_vector, C05_add c s s' id vec h id, if_pos rfl]
  simp only [Metric.fromSlice, Metric.toVec, hm, if_true, Option.map_some, ← hlen, hrt]

/-- reading an item other than the one just written gives what it gave before -/
theorem C05_read_other (c : Cfg) (s s' : Store) (id id' : Nat) (vec : List Nat)
    (h : Writer.addItem c s id vec = .ok s') (hne : id' ≠ id) :
    Writer.itemVector c s' id' = Writer.itemVector c s id' ∧
    Writer.containsItem c s' id' = Writer.containsItem c s id' := by
  have hg : Store.get s' (c.itemKey id') = Store.get s (c.itemKey id') := by
    rw [Writer.get_addItem h, if_neg (Cfg.itemKey_ne_updatedKey c c id id'),
      if_neg (fun e => hne ((Cfg.itemKey_eq_iff c c id id').1 e).2)]
  constructor
  · rw [C05_vector, C05_vector, absItems_congr hg]
  · unfold Writer.containsItem Store.contains; rw [hg]

/-! ## iteration -/

/-- what `iter` shows of one entry -/
def entryView (c : Cfg) (kv : Key × Val) : Nat × List Nat :=
  (kv.1.item, match kv.2 with | .leaf _ v => view c v | _ => [])

theorem iterFrom_of_leaves (c : Cfg) (l : Store) (h : ∀ kv ∈ l, isLeaf kv.2 = true) :
    Writer.iterFrom c l = l.map (entryView c) := by
  induction l with
  | nil => rfl
  | cons kv rest ih =>
    obtain ⟨k, v⟩ := kv
    obtain ⟨hd, w, rfl⟩ := (isLeaf_iff v).1 (h (k, v) (List.mem_cons_self ..))
    simp only [Writer.iterFrom, List.map_cons, entryView, view]
    rw [ih (fun kv hkv => h kv (List.mem_cons_of_mem _ hkv))]

theorem iter_eq_map (c : Cfg) (s : Store) (hw : Store.WF s) (hl : ItemsAreLeaves c s) (hi : c.index < 65536) :
    Writer.iter c s = (s.prefixIter c.index (some modeItem)).map (entryView c) := by
  unfold Writer.iter
  apply iterFrom_of_leaves
  intro kv hkv
  have ⟨h1, h2, h3⟩ := (Store.mem_prefixIter_iff hw c.index modeItem hi (by decide) kv).1 hkv
  exact hl kv h1 h2 h3

/-- the ids `iter` yields are the item keys of the index, in store order -/
theorem C05_iter_ids (c : Cfg) (s : Store) (hw : Store.WF s) (hl : ItemsAreLeaves c s) (hi : c.index < 65536) :
    (Writer.iter c s).map (·.1) = Store.keysOf s c.index modeItem := by
  rw [iter_eq_map c s hw hl hi, List.map_map]
  rfl

theorem itemVector_of_mem (c : Cfg) (s : Store) (hs : Store.Sorted s) (hw : Store.WF s)
    (hl : ItemsAreLeaves c s) (hi : c.index < 65536) (kv : Key × Val)
    (hkv : kv ∈ s.prefixIter c.index (some modeItem)) :
    Writer.itemVector c s kv.1.item = some (entryView c kv).2 := by
  have ⟨h1, h2, h3⟩ := (Store.mem_prefixIter_iff hw c.index modeItem hi (by decide) kv).1 hkv
  obtain ⟨k, v⟩ := kv
  obtain ⟨hd, w, rfl⟩ := (isLeaf_iff v).1 (hl _ h1 h2 h3)
  have hk : k = c.itemKey k.item := Key.eq_of_fields h2 h3 rfl
  have hg : Store.get s (c.itemKey k.item) = some (.leaf hd w) := by
    rw [← hk]; exact (Store.get_eq_some_iff hs k _).2 h1
  rw [C05_vector, absItems_of_get_leaf hg]
  rfl

/-- **iter** yields exactly the stored items: strictly ascending ids (so each once), and `(id, v)` is
    yielded iff `item_vector id = v` -/
theorem C05_iter (c : Cfg) (s : Store) (hs : Store.Sorted s) (hw : Store.WF s) (hl : ItemsAreLeaves c s)
    (hi : c.index < 65536) :
    IdSet.Sorted ((Writer.iter c s).map (·.1)) ∧
    (∀ id v, (id, v) ∈ Writer.iter c s ↔ Writer.itemVector c s id = some v) := by
  refine ⟨?_, fun id v => ?_⟩
  · rw [C05_iter_ids c s hw hl hi]
    exact Store.keysOf_sorted hs hw c.index modeItem hi (by decide)
  · rw [iter_eq_map c s hw hl hi, List.mem_map]
    constructor
    · intro ⟨kv, hkv, he⟩
      have := itemVector_of_mem c s hs hw hl hi kv hkv
      rw [he] at this
      have hid : kv.1.item = id := congrArg Prod.fst he
      rw [← hid]; exact this
    · intro h
      rw [C05_vector] at h
      cases hg : Store.get s (c.itemKey id) with
      | none => rw [absItems_of_get_none hg] at h; cases h
      | some val =>
        obtain ⟨hd, w, rfl⟩ := get_item_leaf hl hg
        rw [absItems_of_get_leaf hg] at h
        simp only [Option.map_some, Option.some.injEq] at h
        refine ⟨(c.itemKey id, .leaf hd w), ?_, ?_⟩
        · exact Store.mem_prefixIter_of_mem (Store.mem_of_get hg)
        · simp only [entryView, view, h]; rfl

theorem map_eq_filterMap_of {α β} {l : List α} {f : α → β} {g : α → Option β}
    (h : ∀ x ∈ l, g x = some (f x)) : l.map f = l.filterMap g := by
  induction l with
  | nil => rfl
  | cons a r ih =>
    rw [List.map_cons, List.filterMap_cons, h a (List.mem_cons_self ..),
      ih (fun x hx => h x (List.mem_cons_of_mem _ hx))]

/-- `iter` as a list, exactly: the item ids of the index in ascending order, each with `item_vector`'s value -/
theorem C05_iter_list (c : Cfg) (s : Store) (hs : Store.Sorted s) (hw : Store.WF s) (hl : ItemsAreLeaves c s)
    (hi : c.index < 65536) :
    Writer.iter c s =
      (Store.keysOf s c.index modeItem).filterMap (fun id => (Writer.itemVector c s id).map (fun v => (id, v))) := by
  rw [iter_eq_map c s hw hl hi]
  unfold Store.keysOf
  rw [List.filterMap_map]
  apply map_eq_filterMap_of
  intro kv hkv
  simp only [Function.comp_apply, itemVector_of_mem c s hs hw hl hi kv hkv, Option.map_some]
  rfl

/-- **is_empty** iff the index holds no item -/
theorem C05_isEmpty (c : Cfg) (s : Store) (hw : Store.WF s) (hl : ItemsAreLeaves c s) (hi : c.index < 65536) :
    Writer.isEmpty c s = true ↔ ∀ id, absItems c s id = none := by
  unfold Writer.isEmpty
  rw [iter_eq_map c s hw hl hi, List.isEmpty_iff, List.map_eq_nil_iff,
    Store.prefixIter_eq_nil_iff hw c.index modeItem hi (by decide)]
  constructor
  · intro h id; exact absItems_of_get_none (h id)
  · intro h id
    have h1 := absItems_isSome_iff hl id
    rw [h id] at h1
    cases hg : Store.get s (c.itemKey id) with
    | none => exact hg
    | some v => rw [hg] at h1; cases h1

/-! ## history level: any sequence of item operations, over several indexes -/

/-- an item-level call -/
inductive Op where
  | add (c : Cfg) (id : Nat) (vec : List Nat)
  | append (c : Cfg) (id : Nat) (vec : List Nat)
  | del (c : Cfg) (id : Nat)
  | clear (c : Cfg)

/-- index and id fit their on-disk widths -/
def Op.wf : Op → Prop
  | .add c id _ => c.index < 65536 ∧ id < 4294967296
  | .append c id _ => c.index < 65536 ∧ id < 4294967296
  | .del c id => c.index < 65536 ∧ id < 4294967296
  | .clear c => c.index < 65536

/-- the model: the store after the call (a rejected call leaves it as it was) and the observable outcome
    (accepted? / was the item present?) -/
def step (s : Store) : Op → Store × Bool
  | .add c id vec => match Writer.addItem c s id vec with
    | .ok s' => (s', true)
    | .error _ => (s, false)
  | .append c id vec => match Writer.appendItem c s id vec with
    | .ok s' => (s', true)
    | .error _ => (s, false)
  | .del c id => Writer.delItem c s id
  | .clear c => (Writer.clear c s, true)

/-- the specification state: per index, per id, the stored words -/
abbrev Spec := Nat → Nat → Option (List Nat)

def Spec.set (m : Spec) (i id : Nat) (v : Option (List Nat)) : Spec :=
  fun i' id' => if i' = i ∧ id' = id then v else m i' id'

/-- the specification: a plain map update, and the outcome it predicts. Whether LMDB accepts an append
    depends on every key of the database (C19), so that one bit (`appendFits`) is an input here. -/
def specStep (m : Spec) (op : Op) (appendFits : Bool) : Spec × Bool :=
  match op with
  | .add c id vec =>
    if vec.length = c.dims then (m.set c.index id (some (c.metric.fromSlice vec)), true) else (m, false)
  | .append c id vec =>
    if vec.length = c.dims ∧ appendFits = true then (m.set c.index id (some (c.metric.fromSlice vec)), true)
    else (m, false)
  | .del c id => (m.set c.index id none, (m c.index id).isSome)
  | .clear c => (fun i id => if i = c.index then none else m i id, true)

/-- the refinement relation (with the invariants it needs) -/
structure Refines (s : Store) (m : Spec) : Prop where
  sorted : Store.Sorted s
  wf : Store.WF s
  leaves : ∀ c, ItemsAreLeaves c s
  abs : ∀ c id, c.index < 65536 → id < 4294967296 → absItems c s id = m c.index id

theorem refines_empty : Refines [] (fun _ _ => none) :=
  ⟨Store.sorted_nil, Store.wf_nil, fun c => itemsAreLeaves_nil c, fun _ _ _ _ => rfl⟩

theorem step_add_refines {s : Store} {m : Spec} (r : Refines s m) (c : Cfg) (id : Nat) (vec : List Nat)
    (hi : c.index < 65536) (hid : id < 4294967296) (b : Bool) :
    Refines (step s (.add c id vec)).1 (specStep m (.add c id vec) b).1 ∧
    (specStep m (.add c id vec) b).2 = (step s (.add c id vec)).2 := by
  by_cases hl : vec.length = c.dims
  · have h := Writer.addItem_of_len s id hl
    simp only [step, specStep, h, hl, if_true]
    refine ⟨⟨Writer.addItem_sorted h r.sorted, Writer.addItem_wf h r.wf hi hid,
      fun c' => C05_inv_add c c' s _ id vec h (r.leaves c'), ?_⟩, trivial⟩
    intro c' id' hi' hid'
    rw [C05_add_all c c' s _ id vec h id', r.abs c' id' hi' hid']
    rfl
  · simp only [step, specStep, Writer.addItem_err s id hl, hl, if_false]
    exact ⟨r, trivial⟩

theorem step_append_refines {s : Store} {m : Spec} (r : Refines s m) (c : Cfg) (id : Nat) (vec : List Nat)
    (hi : c.index < 65536) (hid : id < 4294967296) :
    Refines (step s (.append c id vec)).1 (specStep m (.append c id vec) (step s (.append c id vec)).2).1 ∧
    (specStep m (.append c id vec) (step s (.append c id vec)).2).2 = (step s (.append c id vec)).2 := by
  cases hap : Writer.appendItem c s id vec with
  | error e =>
    simp only [step, specStep, hap]
    simp only [Bool.false_eq_true, and_false, if_false]
    exact ⟨r, trivial⟩
  | ok s' =>
    have h := Writer.appendItem_ok_eq_addItem r.sorted hap
    have hl := (Writer.addItem_ok h).1
    simp only [step, specStep, hap, hl, and_self, if_true]
    refine ⟨⟨Writer.addItem_sorted h r.sorted, Writer.addItem_wf h r.wf hi hid,
      fun c' => C05_inv_add c c' s _ id vec h (r.leaves c'), ?_⟩, trivial⟩
    intro c' id' hi' hid'
    rw [C05_add_all c c' s _ id vec h id', r.abs c' id' hi' hid']
    rfl

theorem step_del_refines {s : Store} {m : Spec} (r : Refines s m) (c : Cfg) (id : Nat)
    (hi : c.index < 65536) (hid : id < 4294967296) (b : Bool) :
    Refines (step s (.del c id)).1 (specStep m (.del c id) b).1 ∧
    (specStep m (.del c id) b).2 = (step s (.del c id)).2 := by
  simp only [step, specStep]
  refine ⟨⟨Writer.delItem_sorted id r.sorted, Writer.delItem_wf id r.wf hi hid,
    fun c' => C05_inv_del c c' s id (r.leaves c'), ?_⟩, ?_⟩
  · intro c' id' hi' hid'
    rw [C05_del_all, r.abs c' id' hi' hid']
    rfl
  · rw [(C05_del c s (r.leaves c) id).2, r.abs c id hi hid]

theorem step_clear_refines {s : Store} {m : Spec} (r : Refines s m) (c : Cfg) (hi : c.index < 65536) (b : Bool) :
    Refines (step s (.clear c)).1 (specStep m (.clear c) b).1 ∧
    (specStep m (.clear c) b).2 = (step s (.clear c)).2 := by
  simp only [step, specStep]
  refine ⟨⟨Writer.clear_sorted r.sorted, Writer.clear_wf r.wf,
    fun c' => C05_inv_clear c c' s (r.leaves c'), ?_⟩, trivial⟩
  intro c' id' hi' hid'
  by_cases he : c'.index = c.index
  · rw [if_pos he]
    exact absItems_of_get_none (Writer.get_clear_same c s _ he)
  · rw [if_neg he, C05_clear_frame c c' s hi hi' he id' hid', r.abs c' id' hi' hid']

/-- one step: the refinement relation is kept and the model's observable outcome is the one the spec predicts -/
theorem C05_step_refines {s : Store} {m : Spec} (r : Refines s m) (op : Op) (hop : op.wf) :
    Refines (step s op).1 (specStep m op (step s op).2).1 ∧ (specStep m op (step s op).2).2 = (step s op).2 := by
  cases op with
  | add c id vec => exact step_add_refines r c id vec hop.1 hop.2 _
  | append c id vec => exact step_append_refines r c id vec hop.1 hop.2
  | del c id => exact step_del_refines r c id hop.1 hop.2 _
  | clear c => exact step_clear_refines r c hop _

/-- model and specification run side by side -/
def runStep (st : Store × Spec) (op : Op) : Store × Spec :=
  ((step st.1 op).1, (specStep st.2 op (step st.1 op).2).1)

def run (ops : List Op) : Store × Spec := ops.foldl runStep ([], fun _ _ => none)

theorem foldl_refines (ops : List Op) (hops : ∀ op ∈ ops, op.wf) (st : Store × Spec) (r : Refines st.1 st.2) :
    Refines (ops.foldl runStep st).1 (ops.foldl runStep st).2 := by
  induction ops generalizing st with
  | nil => exact r
  | cons op rest ih =>
    simp only [List.foldl_cons]
    apply ih (fun o ho => hops o (List.mem_cons_of_mem _ ho))
    exact (C05_step_refines r op (hops op (List.mem_cons_self ..))).1

/-- what a client reads from a store that refines a specification state -/
theorem C05_reads {s : Store} {m : Spec} (r : Refines s m) (c : Cfg) (hi : c.index < 65536) :
    (∀ id, id < 4294967296 → Writer.containsItem c s id = (m c.index id).isSome) ∧
    (∀ id, id < 4294967296 → Writer.itemVector c s id = (m c.index id).map (view c)) ∧
    IdSet.Sorted ((Writer.iter c s).map (·.1)) ∧
    (∀ id v, id < 4294967296 → ((id, v) ∈ Writer.iter c s ↔ (m c.index id).map (view c) = some v)) ∧
    (∀ p ∈ Writer.iter c s, p.1 < 4294967296) ∧
    (Writer.isEmpty c s = true ↔ ∀ id, id < 4294967296 → m c.index id = none) := by
  have hit := C05_iter c s r.sorted r.wf (r.leaves c) hi
  have hbound : ∀ p ∈ Writer.iter c s, p.1 < 4294967296 := by
    intro p hp
    rw [iter_eq_map c s r.wf (r.leaves c) hi, List.mem_map] at hp
    obtain ⟨kv, hkv, rfl⟩ := hp
    exact (r.wf kv (List.mem_filter.1 hkv).1).2.2
  refine ⟨fun id hid => ?_, fun id hid => ?_, hit.1, fun id v hid => ?_, hbound, ?_⟩
  · rw [C05_contains c s (r.leaves c), r.abs c id hi hid]
  · rw [C05_vector, r.abs c id hi hid]; rfl
  · rw [hit.2 id v, C05_vector, r.abs c id hi hid]; rfl
  · rw [C05_isEmpty c s r.wf (r.leaves c) hi]
    constructor
    · intro h id hid; rw [← r.abs c id hi hid]; exact h id
    · intro h id
      by_cases hid : id < 4294967296
      · rw [r.abs c id hi hid]; exact h id hid
      · cases hg : Store.get s (c.itemKey id) with
        | none => exact absItems_of_get_none hg
        | some v => exact absurd (r.wf _ (Store.mem_of_get hg)).2.2 hid

/-- **refinement**: after any history of item operations (several indexes, rejected calls included) started
    from the empty database, the store refines the specification map obtained by folding the same
    operations; hence every read (`contains_item`, `item_vector`, `iter`, `is_empty`) is the one the
    specification gives. -/
theorem C05_refines (ops : List Op) (hops : ∀ op ∈ ops, op.wf) :
    Refines (run ops).1 (run ops).2 :=
  foldl_refines ops hops _ refines_empty

theorem C05_refines_reads (ops : List Op) (hops : ∀ op ∈ ops, op.wf) (c : Cfg) (hi : c.index < 65536) :
    (∀ id, id < 4294967296 → Writer.containsItem c (run ops).1 id = ((run ops).2 c.index id).isSome) ∧
    (∀ id, id < 4294967296 → Writer.itemVector c (run ops).1 id = ((run ops).2 c.index id).map (view c)) ∧
    IdSet.Sorted ((Writer.iter c (run ops).1).map (·.1)) ∧
    (∀ id v, id < 4294967296 →
      ((id, v) ∈ Writer.iter c (run ops).1 ↔ ((run ops).2 c.index id).map (view c) = some v)) ∧
    (∀ p ∈ Writer.iter c (run ops).1, p.1 < 4294967296) ∧
    (Writer.isEmpty c (run ops).1 = true ↔ ∀ id, id < 4294967296 → (run ops).2 c.index id = none) :=
  C05_reads (C05_refines ops hops) c hi

/-- the outcome of every call of a history (accepted? / was present?) is the one the specification predicts -/
theorem C05_refines_outcome (ops : List Op) (op : Op) (hops : ∀ o ∈ ops, o.wf) (hop : op.wf) :
    (specStep (run ops).2 op (step (run ops).1 op).2).2 = (step (run ops).1 op).2 :=
  (C05_step_refines (C05_refines ops hops) op hop).2

/-! ## non-vacuity -/

def c0 : Cfg := { index := 7, metric := .euclidean, dims := 2 }
def c1 : Cfg := { index := 9, metric := .bqCosine, dims := 3 }
def ops0 : List Op :=
  [.add c0 5 [1, 2], .add c1 4 [3, 4, 5], .add c0 1 [9, 9], .append c0 6 [7, 7], .del c0 5, .add c0 3 [1],
   .append c1 4294967295 [0, 0, 0], .del c1 8, .clear c1]

example : ∀ op ∈ ops0, op.wf := by
  intro op h
  simp only [ops0, List.mem_cons, List.not_mem_nil, or_false] at h
  rcases h with h | h | h | h | h | h | h | h | h <;> subst h <;> simp [Op.wf, c0, c1]

/-- a non-trivial state satisfying all the hypotheses used above (`Sorted`, `WF`, `ItemsAreLeaves`) -/
example : Refines (run ops0).1 (run ops0).2 ∧ (run ops0).1 ≠ [] ∧ Writer.containsItem c0 (run ops0).1 1 = true :=
  ⟨C05_refines ops0 (by
    intro op h
    simp only [ops0, List.mem_cons, List.not_mem_nil, or_false] at h
    rcases h with h | h | h | h | h | h | h | h | h <;> subst h <;> simp [Op.wf, c0, c1]), by decide, by decide⟩

example : ∃ s', Writer.addItem c0 [] 5 [1, 2] = .ok s' ∧ c0.metric.isBq = false := ⟨_, rfl, rfl⟩
example : ∃ s', Writer.addItem c1 [] 5 [1, 2, 3] = .ok s' ∧ c1.metric.isBq = true := ⟨_, rfl, rfl⟩

end Arroy.C05
