import ArroyProofs.Properties.C07History
/-! # C07 — read-locality of `Build.build`: `BuildLocal`, and the history projection with builds

The frame of the build (`C07_dump_build`) says that a build of index `j` WRITES no key of another index; this
file proves that it READS none, which is the hypothesis `BuildLocal` left open in `C07History.lean`.

Two-run (relational) form.  `SRel j s s'`: both stores sorted with u16 indexes, same content of index `j`.
`Rel j st st'`: `SRel` of the stores, every other field of the build state equal.  `Loc j V m m'`: from
`Rel`-related states the computations `m` and `m'` both fail, or both succeed with `V`-related results and
`Rel`-related states (the two errors need not be equal: a failed build is followed by an abort).

* generic combinators `Loc.bind/pure/fail/ite/forEach/poll/pollN/nextBatch/getStore/modifyStore/...`;
* store level: `C07_readlocal_get`, `_prefixIter`, `_keysOf` (reads), `SRel.put/.erase/.deleteRange/.filter/
  .foldl_put` (writes), `C07_readlocal_preprocessDot`, `C07_readlocal_treeCtx`, `C07_readlocal_reify` (same fuel);
* fuel irrelevance of `reify` (`reify_fuel_irrel`, `C07_readlocal_reify_len`): a tree held by a store is no
  deeper than the number of entries of its index plus one (`holds_depth_le_restrict`, a pigeonhole on the ids
  of a root-to-leaf path: no held tree contains its own root id below the root, `holds_root_notin`), with NO
  hypothesis on the store — so the fuel `s.length + 1` taken from the whole store can be replaced by the
  length of the projection;
* fuel irrelevance of `delete_tree` (`dt_bound`, `dt_fuel_irrel`, `C07_readlocal_deleteTree`): a successful
  `delete_tree` needs at most (number of entries it erases) + 1 units of fuel, on every sorted store (no forest
  invariant).  Ingredients: a successful run on a sub-store replays on the whole store with no more fuel
  (`dt_sub`), an erased key was visited by a successful nested run on a sub-store (`dt_visit`), hence a run
  that erases its own root key before its last step succeeds with strictly less fuel (strong induction);
* every helper of `Build.build` is covered: `preProcessItems`, `itemIndices`, `resetUpdated`, `writeMetadata`,
  `singleLeaf`, `usedTreeNode`, `writeBack`, `newTrees`, `reifyRoot`, `deleteLoop`, `deleteItemsFromTrees`,
  `insertRoots`, `insertItemsInCurrentTrees`, `incrementalIndexLargeDescendants`, `deleteExtraTrees`
  (`C07_readlocal_*`), then `Build.build` (`C07_readlocal_build_full`);
* property theorems: `C07_buildLocal` (`BuildLocal c.index (.build c o fuel env)` under `c.index < 65536` only)
  and `C07_history_projection` (= `C07_history_projection_of_buildLocal` with the build hypothesis discharged). -/
namespace Arroy.C07
open Arroy Generated C01 BuildM Build

/-! ## the relation between the two stores / states -/

def IdxOk (s : Store) : Prop := ∀ kv ∈ s, kv.1.index < 65536
def SOk (s : Store) : Prop := Store.Sorted s ∧ IdxOk s

theorem SOk.of_reach {s : Store} (h : Reach s) : SOk s :=
  ⟨h.sorted, fun kv hkv => (h.wf kv hkv).1⟩

/-- both stores sorted with u16 indexes, same content of index `j` -/
def SRel (j : Nat) (s s' : Store) : Prop := SOk s ∧ SOk s' ∧ restrictTo j s = restrictTo j s'

def Rel (j : Nat) (st st' : BState) : Prop :=
  SRel j st.store st'.store ∧ st.polls = st'.polls ∧ st.cancelAt = st'.cancelAt ∧
  st.normals = st'.normals ∧ st.rands = st'.rands ∧ st.batches = st'.batches

def RelRes {α : Type} (j : Nat) (V : α → α → Prop) :
    Except Err (α × BState) → Except Err (α × BState) → Prop
  | .ok r, .ok r' => V r.1 r'.1 ∧ Rel j r.2 r'.2
  | .error _, .error _ => True
  | _, _ => False

def Loc {α : Type} (j : Nat) (V : α → α → Prop) (m m' : BuildM α) : Prop :=
  ∀ st st', Rel j st st' → RelRes j V (m st) (m' st')

section generic
variable {α β : Type} {j : Nat}

theorem Loc.bind' {V : α → α → Prop} {W : β → β → Prop} {m m' : BuildM α} {f f' : α → BuildM β}
    (hm : Loc j V m m') (hf : ∀ a a', V a a' → Loc j W (f a) (f' a')) :
    Loc j W (BuildM.bind' m f) (BuildM.bind' m' f') := by
  intro st st' h
  have h1 := hm st st' h
  unfold BuildM.bind'
  revert h1
  cases m st with
  | error x =>
    cases m' st' with
    | error y => intro _; trivial
    | ok r => intro h1; exact h1.elim
  | ok r =>
    cases m' st' with
    | error y => intro h1; exact h1.elim
    | ok r' =>
      intro h1
      obtain ⟨a, st1⟩ := r
      obtain ⟨a', st1'⟩ := r'
      exact hf a a' h1.1 st1 st1' h1.2

theorem Loc.bind {V : α → α → Prop} {W : β → β → Prop} {m m' : BuildM α} {f f' : α → BuildM β}
    (hm : Loc j V m m') (hf : ∀ a a', V a a' → Loc j W (f a) (f' a')) :
    Loc j W (m >>= f) (m' >>= f') := Loc.bind' hm hf

/-- bind with equal results -/
theorem Loc.bindEq {W : β → β → Prop} {m m' : BuildM α} {f f' : α → BuildM β}
    (hm : Loc j Eq m m') (hf : ∀ a, Loc j W (f a) (f' a)) :
    Loc j W (m >>= f) (m' >>= f') := Loc.bind' hm (fun a _ e => e ▸ hf a)

theorem Loc.pure {V : α → α → Prop} {a a' : α} (h : V a a') : Loc j V (pure a : BuildM α) (pure a') :=
  fun _ _ hr => ⟨h, hr⟩

theorem Loc.pure' {V : α → α → Prop} {a a' : α} (h : V a a') : Loc j V (BuildM.pure' a) (BuildM.pure' a') :=
  fun _ _ hr => ⟨h, hr⟩

theorem Loc.fail {V : α → α → Prop} (e e' : Err) : Loc j V (BuildM.fail e : BuildM α) (BuildM.fail e') :=
  fun _ _ _ => trivial

theorem Loc.weaken {V W : α → α → Prop} {m m' : BuildM α} (h : Loc j V m m') (hw : ∀ a a', V a a' → W a a') :
    Loc j W m m' := by
  intro st st' hr
  have h1 := h st st' hr
  revert h1
  cases m st with
  | error x => cases m' st' with
    | error y => intro _; trivial
    | ok r => intro h1; exact h1.elim
  | ok r => cases m' st' with
    | error y => intro h1; exact h1.elim
    | ok r' => intro h1; exact ⟨hw _ _ h1.1, h1.2⟩

theorem Loc.ite {V : α → α → Prop} {p : Prop} [Decidable p] {a a' b b' : BuildM α}
    (ha : Loc j V a a') (hb : Loc j V b b') : Loc j V (if p then a else b) (if p then a' else b') := by
  split
  · exact ha
  · exact hb

/-- a computation that does not look at the store and changes the other fields only -/
theorem Loc.of_nostore {m : BuildM α}
    (h : ∀ st st', Rel j st st' → RelRes j Eq (m st) (m st')) : Loc j Eq m m := h

theorem Loc.poll : Loc j Eq BuildM.poll BuildM.poll := by
  intro st st' h
  obtain ⟨s, p, ca, n, r, b⟩ := st
  obtain ⟨s', p', ca', n', r', b'⟩ := st'
  obtain ⟨hs, hp, hc, hn, hr, hb⟩ := h
  simp only at hs hp hc hn hr hb
  subst hp hc hn hr hb
  unfold BuildM.poll
  cases ca with
  | none => exact ⟨rfl, hs, rfl, rfl, rfl, rfl, rfl⟩
  | some k =>
    by_cases hle : k ≤ p
    · simp only [hle, if_true]; trivial
    · simp only [hle, if_false]; exact ⟨rfl, hs, rfl, rfl, rfl, rfl, rfl⟩

theorem Loc.pollN : ∀ k : Nat, Loc j Eq (BuildM.pollN k) (BuildM.pollN k)
  | 0 => Loc.pure rfl
  | k+1 => Loc.bind' Loc.poll (fun _ _ _ => Loc.pollN k)

theorem Loc.nextBatch : Loc j Eq BuildM.nextBatch BuildM.nextBatch := by
  intro st st' h
  obtain ⟨hs, hp, hc, hn, hr, hb⟩ := h
  unfold BuildM.nextBatch
  rw [← hb]
  cases hbb : st.batches with
  | nil => trivial
  | cons k rest => exact ⟨rfl, hs, hp, hc, hn, hr, rfl⟩

theorem Loc.liftExcept (x : Except Err α) : Loc j Eq (BuildM.liftExcept x) (BuildM.liftExcept x) := by
  intro st st' h
  unfold BuildM.liftExcept
  cases x with
  | error e => trivial
  | ok a => exact ⟨rfl, h⟩

theorem Loc.getStore : Loc j (SRel j) BuildM.getStore BuildM.getStore :=
  fun _ _ h => ⟨h.1, h⟩

theorem Loc.peek : Loc j (Rel j) (fun s => .ok (s, s) : BuildM BState) (fun s => .ok (s, s)) :=
  fun _ _ h => ⟨h, h⟩

theorem Loc.modifyStore {f f' : Store → Store} (h : ∀ s s', SRel j s s' → SRel j (f s) (f' s')) :
    Loc j Eq (BuildM.modifyStore f) (BuildM.modifyStore f') := by
  intro st st' hr
  obtain ⟨hs, hp, hc, hn, hr, hb⟩ := hr
  exact ⟨rfl, h _ _ hs, hp, hc, hn, hr, hb⟩

theorem Loc.setStore {s s' : Store} (h : SRel j s s') :
    Loc j Eq (BuildM.setStore s) (BuildM.setStore s') := by
  intro st st' hr
  obtain ⟨_, hp, hc, hn, hr, hb⟩ := hr
  exact ⟨rfl, h, hp, hc, hn, hr, hb⟩

theorem Loc.setRands (r : List Bool) :
    Loc j Eq (fun s => .ok ((), { s with rands := r }) : BuildM Unit) (fun s => .ok ((), { s with rands := r })) := by
  intro st st' hr
  obtain ⟨hs, hp, hc, hn, _, hb⟩ := hr
  exact ⟨rfl, hs, hp, hc, hn, rfl, hb⟩

theorem Loc.setNormalsRands (ns : List (List Nat)) (r : List Bool) :
    Loc j Eq (fun s => .ok ((), { s with normals := ns, rands := r }) : BuildM Unit)
      (fun s => .ok ((), { s with normals := ns, rands := r })) := by
  intro st st' hr
  obtain ⟨hs, hp, hc, _, _, hb⟩ := hr
  exact ⟨rfl, hs, hp, hc, rfl, rfl, hb⟩

theorem Loc.forEach {γ : Type} {f f' : γ → BuildM Unit} (h : ∀ x, Loc j Eq (f x) (f' x)) :
    ∀ l : List γ, Loc j Eq (BuildM.forEach l f) (BuildM.forEach l f')
  | [] => Loc.pure rfl
  | x :: xs => Loc.bind' (h x) (fun _ _ _ => Loc.forEach h xs)

end generic

/-! ## the store primitives under `SRel` -/

theorem restrictTo_filter (j : Nat) (s : Store) (p : Key × Val → Bool) :
    restrictTo j (s.filter p) = (restrictTo j s).filter p := by
  unfold restrictTo
  rw [List.filter_filter, List.filter_filter]
  apply List.filter_congr
  intro kv _
  exact Bool.and_comm _ _

theorem SOk.filter {s : Store} (h : SOk s) (p : Key × Val → Bool) : SOk (s.filter p) :=
  ⟨Store.filter_sorted h.1 p, fun kv hkv => h.2 kv (List.mem_filter.1 hkv).1⟩

theorem SOk.put {s : Store} (h : SOk s) (k : Key) (v : Val) (hk : k.index < 65536) : SOk (Store.put s k v) := by
  refine ⟨Store.put_sorted h.1 k v, ?_⟩
  intro kv hkv
  rcases Store.mem_put hkv with rfl | hm
  · exact hk
  · exact h.2 kv hm

theorem SRel.filter {j : Nat} {s s' : Store} (h : SRel j s s') (p : Key × Val → Bool) :
    SRel j (s.filter p) (s'.filter p) :=
  ⟨h.1.filter p, h.2.1.filter p, by rw [restrictTo_filter, restrictTo_filter, h.2.2]⟩

theorem SRel.erase {j : Nat} {s s' : Store} (h : SRel j s s') (k : Key) :
    SRel j (Store.erase s k) (Store.erase s' k) := h.filter _

theorem SRel.deleteRange {j : Nat} {s s' : Store} (h : SRel j s s') (lo hi : Key) :
    SRel j (Store.deleteRange s lo hi) (Store.deleteRange s' lo hi) := h.filter _

theorem SRel.put {j : Nat} (hj : j < 65536) {s s' : Store} (h : SRel j s s') (k : Key) (v : Val)
    (hk : k.index = j) : SRel j (Store.put s k v) (Store.put s' k v) :=
  ⟨h.1.put k v (hk ▸ hj), h.2.1.put k v (hk ▸ hj),
    by rw [restrictTo_put h.1.1 k v hk, restrictTo_put h.2.1.1 k v hk, h.2.2]⟩

/-- a key of index `j` reads the same in both stores -/
theorem C07_readlocal_get {j : Nat} {s s' : Store} (h : SRel j s s') (k : Key) (hk : k.index = j) :
    Store.get s k = Store.get s' k := by
  rw [← get_restrictTo j s k hk, ← get_restrictTo j s' k hk, h.2.2]

theorem prefixIter_restrictTo' {j : Nat} (hj : j < 65536) {s : Store} (hw : IdxOk s) (m : Option Nat) :
    Store.prefixIter (restrictTo j s) j m = Store.prefixIter s j m := by
  unfold Store.prefixIter restrictTo
  rw [List.filter_filter]
  apply List.filter_congr
  intro kv hkv
  cases hp : isPrefixOf (encodePrefix j m) (encodeKey kv.1) with
  | false => simp
  | true =>
    have hlt : kv.1.index < 65536 := hw kv hkv
    have : kv.1.index % 65536 = j % 65536 := by
      cases m with
      | none => exact (isPrefixOf_index_all j kv.1).1 hp
      | some m => exact ((isPrefixOf_kind_all j m kv.1).1 hp).1
    rw [Nat.mod_eq_of_lt hlt, Nat.mod_eq_of_lt hj] at this
    simp [this]

/-- a prefix scan over index `j` returns the same entries in both stores -/
theorem C07_readlocal_prefixIter {j : Nat} (hj : j < 65536) {s s' : Store} (h : SRel j s s') (m : Option Nat) :
    Store.prefixIter s j m = Store.prefixIter s' j m := by
  rw [← prefixIter_restrictTo' hj h.1.2 m, ← prefixIter_restrictTo' hj h.2.1.2 m, h.2.2]

theorem C07_readlocal_keysOf {j : Nat} (hj : j < 65536) {s s' : Store} (h : SRel j s s') (m : Nat) :
    Store.keysOf s j m = Store.keysOf s' j m := by
  unfold Store.keysOf
  rw [C07_readlocal_prefixIter hj h]

theorem mem_prefixIter_index {j : Nat} (hj : j < 65536) {s : Store} (hw : IdxOk s) (m : Option Nat)
    {kv : Key × Val} (h : kv ∈ Store.prefixIter s j m) : kv.1.index = j := by
  unfold Store.prefixIter at h
  obtain ⟨hkv, hp⟩ := List.mem_filter.1 h
  have hlt : kv.1.index < 65536 := hw kv hkv
  have : kv.1.index % 65536 = j % 65536 := by
    cases m with
    | none => exact (isPrefixOf_index_all j kv.1).1 hp
    | some m => exact ((isPrefixOf_kind_all j m kv.1).1 hp).1
  rw [Nat.mod_eq_of_lt hlt, Nat.mod_eq_of_lt hj] at this
  exact this

theorem SRel.foldl_put {j : Nat} (hj : j < 65536) {γ : Type} (key : γ → Key) (val : γ → Val) :
    ∀ (l : List γ) (s s' : Store), (∀ x ∈ l, (key x).index = j) → SRel j s s' →
      SRel j (l.foldl (fun st x => Store.put st (key x) (val x)) s)
        (l.foldl (fun st x => Store.put st (key x) (val x)) s')
  | [], _, _, _, h => h
  | x :: xs, s, s', hk, h => by
    simp only [List.foldl_cons]
    exact SRel.foldl_put hj key val xs _ _ (fun y hy => hk y (List.mem_cons_of_mem _ hy))
      (h.put hj _ _ (hk x (List.mem_cons_self ..)))

theorem dotLeaves_local (c : Cfg) (hi : c.index < 65536) {s s' : Store} (h : SRel c.index s s') :
    dotLeaves c s = dotLeaves c s' := by
  unfold dotLeaves
  rw [C07_readlocal_prefixIter hi h]

theorem dotLeaves_index (c : Cfg) (hi : c.index < 65536) {s : Store} (hw : IdxOk s) :
    ∀ x ∈ dotLeaves c s, x.1.index = c.index := by
  intro x hx
  unfold dotLeaves at hx
  obtain ⟨kv, hkv, he⟩ := List.mem_filterMap.1 hx
  have := mem_prefixIter_index hi hw _ hkv
  split at he
  · cases he; exact this
  · cases he

/-- the `DotProduct` preprocessing reads and writes index `c.index` only -/
theorem C07_readlocal_preprocessDot (c : Cfg) (hi : c.index < 65536) {s s' : Store} (h : SRel c.index s s') :
    SRel c.index (preprocessDot c s) (preprocessDot c s') := by
  rw [preprocessDot_eq, preprocessDot_eq]
  have hv : dotVal c s = dotVal c s' := by
    funext kv
    unfold dotVal
    rw [dotLeaves_local c hi h]
  rw [← dotLeaves_local c hi h, ← hv]
  exact SRel.foldl_put hi (fun kv => kv.1) (dotVal c s) _ _ _ (dotLeaves_index c hi h.1.2) h

/-! ## the helpers of `Build.build` that do not read trees -/

section helpers
variable (c : Cfg) (hi : c.index < 65536)
include hi

theorem C07_readlocal_preProcessItems : Loc c.index Eq (preProcessItems c) (preProcessItems c) := by
  unfold preProcessItems
  apply Loc.bindEq Loc.poll; intro _
  apply Loc.ite
  · exact Loc.modifyStore (fun _ _ h => C07_readlocal_preprocessDot c hi h)
  · exact Loc.pure rfl

theorem C07_readlocal_itemIndices : Loc c.index Eq (itemIndices c) (itemIndices c) := by
  unfold itemIndices
  apply Loc.bind Loc.getStore; intro s s' hs
  rw [C07_readlocal_keysOf hi hs]
  apply Loc.bindEq (Loc.pollN _); intro _
  exact Loc.pure rfl

theorem C07_readlocal_resetUpdated : Loc c.index Eq (resetUpdated c) (resetUpdated c) := by
  unfold resetUpdated
  apply Loc.bind Loc.getStore; intro s s' hs
  rw [C07_readlocal_keysOf hi hs]
  apply Loc.bindEq
  · apply Loc.forEach; intro id
    apply Loc.bindEq Loc.poll; intro _
    exact Loc.modifyStore (fun s s' h => h.erase _)
  · intro _; exact Loc.pure rfl

theorem C07_readlocal_writeMetadata (items roots : List Nat) :
    Loc c.index Eq (writeMetadata c items roots) (writeMetadata c items roots) :=
  Loc.modifyStore (fun _ _ h => h.put hi _ _ rfl)

theorem C07_readlocal_singleLeaf (items : List Nat) :
    Loc c.index Eq (singleLeaf c items) (singleLeaf c items) := by
  unfold singleLeaf
  apply Loc.bindEq (Loc.modifyStore (fun s s' h => h.deleteRange _ _)); intro _
  dsimp only
  have hjp : ∀ u : Unit, Loc c.index Eq ((fun (_ : Unit) => (do
      poll
      writeMetadata c items (if items.isEmpty = true then [] else [0])
      modifyStore fun st => Store.put st c.versionKey
        (.version crateVersion.1 crateVersion.2.1 crateVersion.2.2) : BuildM Unit)) u)
      ((fun (_ : Unit) => (do
      poll
      writeMetadata c items (if items.isEmpty = true then [] else [0])
      modifyStore fun st => Store.put st c.versionKey
        (.version crateVersion.1 crateVersion.2.1 crateVersion.2.2) : BuildM Unit)) u) := by
    intro u
    apply Loc.bindEq Loc.poll; intro _
    apply Loc.bindEq (C07_readlocal_writeMetadata c hi _ _); intro _
    exact Loc.modifyStore (fun _ _ h => h.put hi _ _ rfl)
  apply Loc.ite
  · apply Loc.bindEq (Loc.modifyStore (fun s s' h => h.put hi _ _ rfl))
    intro u; exact hjp u
  · exact hjp ()

theorem C07_readlocal_usedTreeNode : Loc c.index Eq (usedTreeNode c) (usedTreeNode c) := by
  intro st st' h
  obtain ⟨s, p, ca, n, r, b⟩ := st
  obtain ⟨s', p', ca', n', r', b'⟩ := st'
  obtain ⟨hs, hp, hc, hn, hr, hb⟩ := h
  simp only at hs hp hc hn hr hb
  subst hp hc hn hr hb
  unfold usedTreeNode
  simp only
  rw [C07_readlocal_keysOf hi hs]
  cases ca with
  | none => exact ⟨rfl, hs, rfl, rfl, rfl, rfl, rfl⟩
  | some k =>
    simp only
    split
    · exact ⟨rfl, hs, rfl, rfl, rfl, rfl, rfl⟩
    · exact ⟨rfl, hs, rfl, rfl, rfl, rfl, rfl⟩

theorem C07_readlocal_writeBack (removed : List Nat) (puts : List (Nat × Val)) (remap : Nat → Nat) :
    Loc c.index Eq (writeBack c removed puts remap) (writeBack c removed puts remap) := by
  unfold writeBack
  apply Loc.bindEq
  · apply Loc.forEach; intro id
    apply Loc.bindEq Loc.poll; intro _
    exact Loc.modifyStore (fun s s' h => h.erase _)
  · intro _
    apply Loc.forEach; intro p
    apply Loc.bindEq Loc.poll; intro _
    exact Loc.modifyStore (fun s s' h => h.put hi _ _ rfl)

theorem C07_readlocal_newTrees (items : List Nat) : ∀ (k : Nat) (roots large : List Nat) (g : IdGen),
    Loc c.index Eq (newTrees c items k roots large g) (newTrees c items k roots large g)
  | 0, roots, large, g => by unfold newTrees; exact Loc.pure rfl
  | k+1, roots, large, g => by
    unfold newTrees
    apply Loc.bindEq (Loc.liftExcept _); intro x
    obtain ⟨id, g'⟩ := x
    apply Loc.bindEq (Loc.modifyStore (fun s s' h => h.put hi _ _ rfl)); intro _
    exact C07_readlocal_newTrees items k _ _ _

omit hi in
/-- the context of the tree routines reads item vectors of index `c.index` only -/
theorem C07_readlocal_treeCtx (o : BuildOpts) {s s' : Store} (h : SRel c.index s s') :
    treeCtx c o s = treeCtx c o s' := by
  unfold treeCtx
  congr 1
  funext normal x
  unfold sideOf Writer.itemLeaf
  rw [C07_readlocal_get h (c.itemKey x) rfl]

omit hi in
/-- `reify` with the same fuel reads tree nodes of index `c.index` only -/
theorem C07_readlocal_reify {s s' : Store} (h : SRel c.index s s') :
    ∀ (fuel : Nat) (ref : NodeId), reify c s fuel ref = reify c s' fuel ref
  | 0, _ => rfl
  | fuel+1, ref => by
    unfold reify
    have ih := fun r => C07_readlocal_reify h fuel r
    rw [C07_readlocal_get h (c.treeKey ref.item) rfl]
    simp only [ih]

end helpers

/-! ## fuel irrelevance of `reify`: the depth of a held tree is bounded by the number of entries of its index -/

theorem holds_unique {c : Cfg} {s : Store} {t t' : T} (h : Holds c s t) (h' : Holds c s t')
    (e : t.ref = t'.ref) : t = t' := by
  have h1 := reify_of_holds c s t h (max t.depth t'.depth) (Nat.le_max_left _ _)
  have h2 := reify_of_holds c s t' h' (max t.depth t'.depth) (Nat.le_max_right _ _)
  rw [e, h2] at h1
  exact (Option.some.inj h1).symm

theorem holds_sub {c : Cfg} {s : Store} : ∀ (t : T) (id : Nat), Holds c s t → id ∈ t.ids →
    ∃ u, Holds c s u ∧ u.ref = NodeId.mkTree id ∧ u.depth ≤ t.depth
  | .leaf i, id, _, hm => by simp [T.ids] at hm
  | .bucket id' its, id, h, hm => by
    simp only [T.ids, List.mem_singleton] at hm
    subst hm
    exact ⟨_, h, rfl, Nat.le_refl _⟩
  | .node id' n l r, id, h, hm => by
    simp only [T.ids, List.mem_cons, List.mem_append] at hm
    rcases hm with rfl | hm | hm
    · exact ⟨_, h, rfl, Nat.le_refl _⟩
    · obtain ⟨u, hu, hr, hd⟩ := holds_sub l id h.left hm
      refine ⟨u, hu, hr, ?_⟩
      simp only [T.depth]; omega
    · obtain ⟨u, hu, hr, hd⟩ := holds_sub r id h.right hm
      refine ⟨u, hu, hr, ?_⟩
      simp only [T.depth]; omega

theorem holds_root_notin {c : Cfg} {s : Store} {id : Nat} {n : List Nat} {l r : T}
    (h : Holds c s (.node id n l r)) : id ∉ l.ids ∧ id ∉ r.ids := by
  constructor
  · intro hm
    obtain ⟨u, hu, hr, hd⟩ := holds_sub l id h.left hm
    have := holds_unique hu h (by rw [hr]; rfl)
    subst this
    simp only [T.depth] at hd; omega
  · intro hm
    obtain ⟨u, hu, hr, hd⟩ := holds_sub r id h.right hm
    have := holds_unique hu h (by rw [hr]; rfl)
    subst this
    simp only [T.depth] at hd; omega

theorem holds_depth_le {c : Cfg} {s : Store} : ∀ (t : T) (avail : List Nat), Holds c s t →
    (∀ id ∈ t.ids, id ∈ avail) → t.depth ≤ avail.length + 1
  | .leaf i, avail, _, _ => by simp [T.depth]
  | .bucket id its, avail, _, _ => by simp [T.depth]
  | .node id n l r, avail, h, ha => by
    have hid : id ∈ avail := ha id (by simp [T.ids])
    obtain ⟨hl, hr⟩ := holds_root_notin h
    have h1 := holds_depth_le l (avail.erase id) h.left (by
      intro x hx
      have hne : x ≠ id := fun e => hl (e ▸ hx)
      exact (List.mem_erase_of_ne hne).2 (ha x (by simp [T.ids, hx])))
    have h2 := holds_depth_le r (avail.erase id) h.right (by
      intro x hx
      have hne : x ≠ id := fun e => hr (e ▸ hx)
      exact (List.mem_erase_of_ne hne).2 (ha x (by simp [T.ids, hx])))
    have hlen := List.length_erase_of_mem hid
    have hpos : 0 < avail.length := List.length_pos_of_mem hid
    simp only [T.depth]
    omega

/-- a tree held by the store is no deeper than the number of entries of its index (plus one) -/
theorem holds_depth_le_restrict {c : Cfg} {s : Store} (t : T) (h : Holds c s t) :
    t.depth ≤ (restrictTo c.index s).length + 1 := by
  have := holds_depth_le t ((restrictTo c.index s).map (·.1.item)) h (by
    intro id hid
    rw [← cells_ids] at hid
    obtain ⟨cell, hc, rfl⟩ := List.mem_map.1 hid
    have hm := Store.mem_of_get (h cell hc)
    exact List.mem_map.2 ⟨_, mem_restrictTo.2 ⟨hm, rfl⟩, rfl⟩)
  simpa using this

/-- `reify` with any fuel above the number of entries of the index is `reify` with exactly that fuel -/
theorem reify_fuel_irrel (c : Cfg) (s : Store) (ref : NodeId) (F : Nat)
    (hF : (restrictTo c.index s).length + 1 ≤ F) :
    reify c s F ref = reify c s ((restrictTo c.index s).length + 1) ref := by
  cases e : reify c s F ref with
  | some t =>
    obtain ⟨hh, hr⟩ := holds_of_reify c s F ref t e
    rw [← hr]
    exact (reify_of_holds c s t hh _ (holds_depth_le_restrict t hh)).symm
  | none =>
    cases e' : reify c s ((restrictTo c.index s).length + 1) ref with
    | none => rfl
    | some t =>
      obtain ⟨hh, hr⟩ := holds_of_reify c s _ ref t e'
      have := reify_of_holds c s t hh F (Nat.le_trans (holds_depth_le_restrict t hh) hF)
      rw [hr, e] at this
      cases this

/-- **`reify` with the fuel of the build (`s.length + 1`) reads index `c.index` only** -/
theorem C07_readlocal_reify_len (c : Cfg) {s s' : Store} (h : SRel c.index s s')
    (ref : NodeId) : reify c s (s.length + 1) ref = reify c s' (s'.length + 1) ref := by
  have h1 : (restrictTo c.index s).length ≤ s.length := List.length_filter_le _ _
  have h2 : (restrictTo c.index s').length ≤ s'.length := List.length_filter_le _ _
  rw [reify_fuel_irrel c s ref (s.length + 1) (by omega),
    reify_fuel_irrel c s' ref (s'.length + 1) (by omega), h.2.2]
  exact C07_readlocal_reify c h _ ref

/-! ## the helpers of `Build.build` that read trees -/

/-- two results of `deleteTree`: both fail, or both succeed on related stores -/
def ERel (j : Nat) : Except Err Store → Except Err Store → Prop
  | .ok s, .ok s' => SRel j s s'
  | .error _, .error _ => True
  | _, _ => False

theorem Loc.liftExceptRel {j : Nat} {x x' : Except Err Store} (h : ERel j x x') :
    Loc j (SRel j) (BuildM.liftExcept x) (BuildM.liftExcept x') := by
  intro st st' hr
  unfold BuildM.liftExcept
  cases x with
  | error e => cases x' with
    | error e' => trivial
    | ok a' => exact h.elim
  | ok a => cases x' with
    | error e' => exact h.elim
    | ok a' => exact ⟨h, hr⟩

/-- `delete_tree` with the fuel of the build reads and writes index `c.index` only -/
def DeleteTreeLocal (c : Cfg) : Prop :=
  ∀ (s s' : Store) (ref : NodeId), SRel c.index s s' →
    ERel c.index (deleteTree c (s.length + 1) ref s) (deleteTree c (s'.length + 1) ref s')

section treehelpers
variable (c : Cfg) (hi : c.index < 65536)
include hi

omit hi in
theorem C07_readlocal_reifyRoot {s s' : Store} (h : SRel c.index s s') (root : Nat) :
    Loc c.index Eq (reifyRoot c s root) (reifyRoot c s' root) := by
  unfold reifyRoot
  rw [C07_readlocal_reify_len c h]
  cases reify c s' (s'.length + 1) (NodeId.mkTree root) with
  | none => exact Loc.fail _ _
  | some t => exact Loc.pure rfl

omit hi in
theorem C07_readlocal_deleteLoop (o : BuildOpts) (D : List Nat) {s s' : Store} (h : SRel c.index s s') :
    ∀ roots : List Nat, Loc c.index Eq (deleteLoop c o D s roots) (deleteLoop c o D s' roots)
  | [] => by unfold deleteLoop; exact Loc.pure rfl
  | root :: rest => by
    unfold deleteLoop
    apply Loc.bindEq Loc.poll; intro _
    apply Loc.bindEq (C07_readlocal_reifyRoot c h root); intro t
    apply Loc.bindEq (Loc.pollN _); intro _
    apply Loc.bindEq (C07_readlocal_deleteLoop o D h rest); intro x
    obtain ⟨a, b, e⟩ := x
    exact Loc.pure rfl

theorem C07_readlocal_deleteItemsFromTrees (o : BuildOpts) (roots D : List Nat) :
    Loc c.index Eq (deleteItemsFromTrees c o roots D) (deleteItemsFromTrees c o roots D) := by
  unfold deleteItemsFromTrees
  apply Loc.bind Loc.getStore; intro s s' hs
  apply Loc.bindEq (C07_readlocal_deleteLoop c o D hs roots); intro x
  obtain ⟨a, b, e⟩ := x
  apply Loc.bindEq (C07_readlocal_writeBack c hi _ _ _); intro _
  exact Loc.pure rfl

omit hi in
theorem C07_readlocal_insertRoots (o : BuildOpts) {s s' : Store} (h : SRel c.index s s') (batch : List Nat) :
    ∀ (roots : List Nat) (g : IdGen),
      Loc c.index Eq (insertRoots c o s batch roots g) (insertRoots c o s' batch roots g)
  | [], g => by unfold insertRoots; exact Loc.pure rfl
  | root :: rest, g => by
    unfold insertRoots
    apply Loc.bindEq Loc.poll; intro _
    apply Loc.bindEq (C07_readlocal_reifyRoot c h root); intro t
    apply Loc.bind Loc.peek; intro st st' hst
    rw [← C07_readlocal_treeCtx c o h, ← hst.2.2.2.2.1]
    apply Loc.bindEq (Loc.liftExcept _); intro r
    apply Loc.bindEq (Loc.setRands _); intro _
    apply Loc.bindEq (Loc.pollN _); intro _
    apply Loc.bindEq (C07_readlocal_insertRoots o h batch rest _); intro x
    obtain ⟨a, b, e⟩ := x
    exact Loc.pure rfl

theorem C07_readlocal_insertItemsInCurrentTrees (o : BuildOpts) (roots : List Nat) :
    ∀ (fuel : Nat) (toInsert : List Nat) (g : IdGen),
      Loc c.index Eq (insertItemsInCurrentTrees c o roots fuel toInsert g)
        (insertItemsInCurrentTrees c o roots fuel toInsert g)
  | 0, _, _ => by unfold insertItemsInCurrentTrees; exact Loc.fail _ _
  | fuel+1, toInsert, g => by
    unfold insertItemsInCurrentTrees
    apply Loc.ite (Loc.pure rfl)
    apply Loc.bindEq Loc.poll; intro _
    apply Loc.bind Loc.getStore; intro s s' hs
    apply Loc.bindEq Loc.nextBatch; intro k
    refine Loc.ite (Loc.fail _ _) ?_
    apply Loc.bindEq (C07_readlocal_insertRoots c o hs _ _ _); intro x
    obtain ⟨putss, large, g'⟩ := x
    apply Loc.bindEq
    · apply Loc.forEach; intro puts; exact C07_readlocal_writeBack c hi _ _ _
    intro _
    apply Loc.bindEq (C07_readlocal_insertItemsInCurrentTrees o roots fuel _ _); intro y
    obtain ⟨large', g''⟩ := y
    exact Loc.pure rfl

theorem C07_readlocal_incrementalIndexLargeDescendants (o : BuildOpts) :
    ∀ (fuel : Nat) (large : List Nat) (g : IdGen),
      Loc c.index Eq (incrementalIndexLargeDescendants c o fuel large g)
        (incrementalIndexLargeDescendants c o fuel large g)
  | 0, large, g => by
    unfold incrementalIndexLargeDescendants
    exact Loc.ite (Loc.pure rfl) (Loc.fail _ _)
  | fuel+1, large, g => by
    unfold incrementalIndexLargeDescendants
    split
    · exact Loc.pure rfl
    · rename_i b large'
      apply Loc.bindEq Loc.poll; intro _
      apply Loc.bind Loc.getStore; intro s s' hs
      rw [C07_readlocal_get hs (c.treeKey b) rfl, C07_readlocal_treeCtx c o hs]
      split
      · rename_i ids hget
        apply Loc.bindEq Loc.nextBatch; intro k
        refine Loc.ite (Loc.fail _ _) ?_
        apply Loc.bind Loc.peek; intro st st' hst
        rw [← hst.2.2.2.2.1, ← hst.2.2.2.1]
        apply Loc.bindEq (Loc.liftExcept _); intro r
        apply Loc.bindEq (Loc.setNormalsRands _ _); intro _
        apply Loc.bindEq (Loc.pollN _); intro _
        apply Loc.bindEq (C07_readlocal_writeBack c hi _ _ _); intro _
        apply Loc.bindEq (C07_readlocal_insertItemsInCurrentTrees c hi o _ _ _ _); intro x
        obtain ⟨large'', g'⟩ := x
        exact C07_readlocal_incrementalIndexLargeDescendants o fuel _ _
      · exact Loc.fail _ _

omit hi in
theorem C07_readlocal_deleteExtraTrees (hdt : DeleteTreeLocal c) : ∀ (k : Nat) (roots : List Nat),
    Loc c.index Eq (deleteExtraTrees c k roots) (deleteExtraTrees c k roots)
  | 0, roots => by unfold deleteExtraTrees; exact Loc.pure rfl
  | k+1, roots => by
    unfold deleteExtraTrees
    apply Loc.bindEq Loc.poll; intro _
    split
    · exact Loc.pure rfl
    · rename_i root rest
      apply Loc.bind Loc.getStore; intro s s' hs
      apply Loc.bind (Loc.liftExceptRel (hdt s s' _ hs)); intro s1 s1' hs1
      apply Loc.bindEq (Loc.setStore hs1); intro _
      exact C07_readlocal_deleteExtraTrees hdt k _

/-- the whole build, given the locality of `delete_tree` with the fuel of the build -/
theorem C07_readlocal_build (hdt : DeleteTreeLocal c) (o : BuildOpts) (fuel : Nat) :
    Loc c.index Eq (Build.build c o fuel) (Build.build c o fuel) := by
  unfold build
  apply Loc.bindEq (C07_readlocal_preProcessItems c hi); intro _
  apply Loc.bindEq (C07_readlocal_itemIndices c hi); intro items
  apply Loc.bindEq (C07_readlocal_resetUpdated c hi); intro updated
  apply Loc.ite (C07_readlocal_singleLeaf c hi _)
  dsimp only
  apply Loc.bind Loc.getStore; intro s s' hs
  rw [C07_readlocal_get hs c.metaKey rfl]
  apply Loc.bindEq (C07_readlocal_usedTreeNode c hi); intro used
  apply Loc.bindEq (C07_readlocal_deleteExtraTrees c hdt _ _); intro roots
  apply Loc.bindEq (C07_readlocal_deleteItemsFromTrees c hi o _ _); intro roots'
  apply Loc.bindEq (C07_readlocal_insertItemsInCurrentTrees c hi o _ _ _ _); intro x
  obtain ⟨large, g⟩ := x
  apply Loc.bindEq (C07_readlocal_newTrees c hi _ _ _ _ _); intro y
  obtain ⟨roots'', large', g'⟩ := y
  apply Loc.bindEq (C07_readlocal_incrementalIndexLargeDescendants c hi o _ _ _); intro _
  exact C07_readlocal_writeMetadata c hi _ _

end treehelpers

/-! ## `delete_tree`: computation rules -/

/-- the key `delete_tree` reads for the node reference `x` -/
abbrev dkey (c : Cfg) (x : NodeId) : Key := ⟨c.index, x.mode, x.item⟩

theorem filter_tt (s : Store) : s.filter (fun _ => true) = s :=
  List.filter_eq_self.2 (fun _ _ => rfl)

theorem val_cases (v : Val) : (∃ l r n, v = .split l r n) ∨ (∃ ids, v = .desc ids) ∨
    ((∀ l r n, v ≠ .split l r n) ∧ ∀ ids, v ≠ .desc ids) := by
  cases v <;> simp

section dt
variable (c : Cfg)

theorem dt_zero (x : NodeId) (s : Store) : deleteTree c 0 x s = .error (.fuel "delete_tree") := by
  unfold deleteTree; rfl

theorem dt_item (f : Nat) {x : NodeId} (hx : x.isItem = true) (s : Store) :
    deleteTree c (f + 1) x s = .ok s := by
  unfold deleteTree; simp [hx]

theorem dt_none (f : Nat) {x : NodeId} (hx : x.isItem = false) {s : Store}
    (hg : Store.get s (dkey c x) = none) :
    deleteTree c (f + 1) x s = .error (.missingKey c.index x.mode x.item) := by
  unfold deleteTree; simp only [hx, Bool.false_eq_true, if_false]; rw [hg]

theorem dt_desc (f : Nat) {x : NodeId} (hx : x.isItem = false) {s : Store} {ids : List Nat}
    (hg : Store.get s (dkey c x) = some (.desc ids)) :
    deleteTree c (f + 1) x s = .ok (Store.erase s (dkey c x)) := by
  unfold deleteTree; simp only [hx, Bool.false_eq_true, if_false]; rw [hg]

theorem dt_other (f : Nat) {x : NodeId} (hx : x.isItem = false) {s : Store} {v : Val}
    (hg : Store.get s (dkey c x) = some v) (hns : ∀ l r n, v ≠ .split l r n) (hnd : ∀ ids, v ≠ .desc ids) :
    deleteTree c (f + 1) x s = .ok s := by
  unfold deleteTree; simp only [hx, Bool.false_eq_true, if_false]; rw [hg]
  cases v with
  | split l r n => exact absurd rfl (hns l r n)
  | desc ids => exact absurd rfl (hnd ids)
  | _ => rfl

theorem dt_split (f : Nat) {x : NodeId} (hx : x.isItem = false) {s : Store} {l r : NodeId} {n : List Nat}
    (hg : Store.get s (dkey c x) = some (.split l r n)) :
    deleteTree c (f + 1) x s =
      (match deleteTree c f l s with
       | .error e => .error e
       | .ok s1 =>
         match deleteTree c f r s1 with
         | .error e => .error e
         | .ok s2 => .ok (Store.erase s2 (dkey c x))) := by
  conv => lhs; unfold deleteTree
  simp only [hx, Bool.false_eq_true, if_false]; rw [hg]; rfl

theorem dt_split_inv {f : Nat} {x : NodeId} (hx : x.isItem = false) {s s1 : Store} {l r : NodeId} {n : List Nat}
    (hg : Store.get s (dkey c x) = some (.split l r n)) (h : deleteTree c (f + 1) x s = .ok s1) :
    ∃ sa s2, deleteTree c f l s = .ok sa ∧ deleteTree c f r sa = .ok s2 ∧ s1 = Store.erase s2 (dkey c x) := by
  rw [dt_split c f hx hg] at h
  cases e1 : deleteTree c f l s with
  | error e => simp [e1] at h
  | ok sa =>
    cases e2 : deleteTree c f r sa with
    | error e => simp [e1, e2] at h
    | ok s2 =>
      simp only [e1, e2, Except.ok.injEq] at h
      exact ⟨sa, s2, rfl, e2, h.symm⟩

theorem dt_split_ok (f : Nat) {x : NodeId} (hx : x.isItem = false) {s sa s2 : Store} {l r : NodeId} {n : List Nat}
    (hg : Store.get s (dkey c x) = some (.split l r n)) (h1 : deleteTree c f l s = .ok sa)
    (h2 : deleteTree c f r sa = .ok s2) :
    deleteTree c (f + 1) x s = .ok (Store.erase s2 (dkey c x)) := by
  rw [dt_split c f hx hg]; simp only [h1, h2]

/-- a successful `delete_tree` filters the store -/
theorem dt_filter : ∀ (f : Nat) (x : NodeId) (s s1 : Store), deleteTree c f x s = .ok s1 →
    ∃ q : Key × Val → Bool, s1 = s.filter q
  | 0, x, s, s1, h => by rw [dt_zero] at h; cases h
  | f+1, x, s, s1, h => by
    by_cases hx : x.isItem = true
    · rw [dt_item c f hx] at h; cases h; exact ⟨fun _ => true, (filter_tt _).symm⟩
    · have hx : x.isItem = false := by simpa using hx
      cases hg : Store.get s (dkey c x) with
      | none => rw [dt_none c f hx hg] at h; cases h
      | some v =>
        rcases val_cases v with ⟨l, r, n, rfl⟩ | ⟨ids, rfl⟩ | ⟨hns, hnd⟩
        · obtain ⟨sa, s2, h1, h2, rfl⟩ := dt_split_inv c hx hg h
          obtain ⟨q1, rfl⟩ := dt_filter f l s sa h1
          obtain ⟨q2, rfl⟩ := dt_filter f r _ s2 h2
          unfold Store.erase
          rw [List.filter_filter, List.filter_filter]
          exact ⟨_, rfl⟩
        · rw [dt_desc c f hx hg] at h; cases h; exact ⟨_, rfl⟩
        · rw [dt_other c f hx hg hns hnd] at h; cases h; exact ⟨fun _ => true, (filter_tt _).symm⟩

/-- more fuel does not change a success -/
theorem dt_mono_succ : ∀ (f : Nat) (x : NodeId) (s s1 : Store), deleteTree c f x s = .ok s1 →
    deleteTree c (f + 1) x s = .ok s1
  | 0, x, s, s1, h => by rw [dt_zero] at h; cases h
  | f+1, x, s, s1, h => by
    by_cases hx : x.isItem = true
    · rw [dt_item c f hx] at h; rw [dt_item c _ hx]; exact h
    · have hx : x.isItem = false := by simpa using hx
      cases hg : Store.get s (dkey c x) with
      | none => rw [dt_none c f hx hg] at h; cases h
      | some v =>
        rcases val_cases v with ⟨l, r, n, rfl⟩ | ⟨ids, rfl⟩ | ⟨hns, hnd⟩
        · obtain ⟨sa, s2, h1, h2, rfl⟩ := dt_split_inv c hx hg h
          exact dt_split_ok c _ hx hg (dt_mono_succ f l s sa h1) (dt_mono_succ f r sa s2 h2)
        · rw [dt_desc c f hx hg] at h; rw [dt_desc c _ hx hg]; exact h
        · rw [dt_other c f hx hg hns hnd] at h; rw [dt_other c _ hx hg hns hnd]; exact h

theorem dt_mono {f f' : Nat} (hle : f ≤ f') {x : NodeId} {s s1 : Store} (h : deleteTree c f x s = .ok s1) :
    deleteTree c f' x s = .ok s1 := by
  induction hle with
  | refl => exact h
  | step _ ih => exact dt_mono_succ c _ _ _ _ ih

/-- with the same fuel, `delete_tree` reads and writes index `c.index` only -/
theorem dt_rel : ∀ (f : Nat) (x : NodeId) (s s' : Store), SRel c.index s s' →
    ERel c.index (deleteTree c f x s) (deleteTree c f x s')
  | 0, x, s, s', _ => by rw [dt_zero, dt_zero]; trivial
  | f+1, x, s, s', h => by
    by_cases hx : x.isItem = true
    · rw [dt_item c f hx, dt_item c f hx]; exact h
    · have hx : x.isItem = false := by simpa using hx
      have hgg := C07_readlocal_get h (dkey c x) rfl
      cases hg : Store.get s (dkey c x) with
      | none =>
        have hg' : Store.get s' (dkey c x) = none := by rw [← hgg]; exact hg
        rw [dt_none c f hx hg, dt_none c f hx hg']; trivial
      | some v =>
        have hg' : Store.get s' (dkey c x) = some v := by rw [← hgg]; exact hg
        rcases val_cases v with ⟨l, r, n, rfl⟩ | ⟨ids, rfl⟩ | ⟨hns, hnd⟩
        · rw [dt_split c f hx hg, dt_split c f hx hg']
          have ih1 := dt_rel f l s s' h
          revert ih1
          cases deleteTree c f l s with
          | error e =>
            cases deleteTree c f l s' with
            | error e' => intro _; trivial
            | ok a' => intro h1; exact h1.elim
          | ok sa =>
            cases deleteTree c f l s' with
            | error e' => intro h1; exact h1.elim
            | ok sa' =>
              intro h1
              simp only
              have ih2 := dt_rel f r sa sa' h1
              revert ih2
              cases deleteTree c f r sa with
              | error e =>
                cases deleteTree c f r sa' with
                | error _ => intro _; trivial
                | ok _ => intro h2; exact h2.elim
              | ok s2 =>
                cases deleteTree c f r sa' with
                | error _ => intro h2; exact h2.elim
                | ok s2' => intro h2; exact SRel.erase h2 _
        · rw [dt_desc c f hx hg, dt_desc c f hx hg']; exact SRel.erase h _
        · rw [dt_other c f hx hg hns hnd, dt_other c f hx hg' hns hnd]; exact h

theorem get_of_filter_get {s : Store} (hs : Store.Sorted s) {p : Key × Val → Bool} {k : Key} {v : Val}
    (h : Store.get (s.filter p) k = some v) : Store.get s k = some v :=
  (Store.get_eq_some_iff hs k v).2 (List.mem_filter.1 (Store.mem_of_get h)).1

theorem erase_filter_comm (s : Store) (p : Key × Val → Bool) (k : Key) :
    Store.erase (s.filter p) k = (Store.erase s k).filter p := by
  unfold Store.erase
  rw [List.filter_filter, List.filter_filter]
  apply List.filter_congr
  intro kv _
  exact Bool.and_comm _ _

theorem dt_sorted {f : Nat} {x : NodeId} {s s1 : Store} (hs : Store.Sorted s)
    (h : deleteTree c f x s = .ok s1) : Store.Sorted s1 := by
  obtain ⟨q, rfl⟩ := dt_filter c f x s s1 h
  exact Store.filter_sorted hs q

/-- a successful run on a sub-store replays on the whole store, with no more fuel -/
theorem dt_sub (p : Key × Val → Bool) : ∀ (f f' : Nat) (x : NodeId) (s s1 s1' : Store), Store.Sorted s →
    deleteTree c f x s = .ok s1 → deleteTree c f' x (s.filter p) = .ok s1' →
    deleteTree c (min f f') x s = .ok s1 ∧ s1' = s1.filter p
  | 0, _, x, s, s1, s1', _, h, _ => by rw [dt_zero] at h; cases h
  | f+1, 0, x, s, s1, s1', _, _, h' => by rw [dt_zero] at h'; cases h'
  | f+1, f'+1, x, s, s1, s1', hs, h, h' => by
    have hm : min (f + 1) (f' + 1) = min f f' + 1 := by omega
    rw [hm]
    by_cases hx : x.isItem = true
    · rw [dt_item c f hx] at h; rw [dt_item c f' hx] at h'; cases h; cases h'
      exact ⟨dt_item c _ hx _, rfl⟩
    · have hx : x.isItem = false := by simpa using hx
      cases hg' : Store.get (s.filter p) (dkey c x) with
      | none => rw [dt_none c f' hx hg'] at h'; cases h'
      | some v =>
        have hg : Store.get s (dkey c x) = some v := get_of_filter_get hs hg'
        rcases val_cases v with ⟨l, r, n, rfl⟩ | ⟨ids, rfl⟩ | ⟨hns, hnd⟩
        · obtain ⟨sa, s2, h1, h2, rfl⟩ := dt_split_inv c hx hg h
          obtain ⟨sa', s2', h1', h2', rfl⟩ := dt_split_inv c hx hg' h'
          obtain ⟨m1, rfl⟩ := dt_sub p f f' l s sa sa' hs h1 h1'
          obtain ⟨m2, rfl⟩ := dt_sub p f f' r sa s2 s2' (dt_sorted c hs h1) h2 h2'
          exact ⟨dt_split_ok c _ hx hg m1 m2, erase_filter_comm _ _ _⟩
        · rw [dt_desc c f hx hg] at h; rw [dt_desc c f' hx hg'] at h'; cases h; cases h'
          exact ⟨dt_desc c _ hx hg, erase_filter_comm _ _ _⟩
        · rw [dt_other c f hx hg hns hnd] at h; rw [dt_other c f' hx hg' hns hnd] at h'; cases h; cases h'
          exact ⟨dt_other c _ hx hg hns hnd, rfl⟩

/-- a key erased by a successful run was visited: a successful run on its node started from a sub-store -/
theorem dt_visit : ∀ (f : Nat) (x : NodeId) (s s1 : Store) (K : Key), deleteTree c f x s = .ok s1 →
    Store.get s K ≠ none → Store.get s1 K = none →
    ∃ (f' : Nat) (p : Key × Val → Bool) (y : NodeId) (r : Store), f' ≤ f ∧ y.isItem = false ∧ dkey c y = K ∧
      deleteTree c f' y (s.filter p) = .ok r
  | 0, x, s, s1, K, h, _, _ => by rw [dt_zero] at h; cases h
  | f+1, x, s, s1, K, h, hK, hK1 => by
    by_cases hx : x.isItem = true
    · rw [dt_item c f hx] at h; cases h; exact absurd hK1 hK
    · have hx : x.isItem = false := by simpa using hx
      by_cases hk : dkey c x = K
      · exact ⟨f + 1, fun _ => true, x, s1, Nat.le_refl _, hx, hk, by rw [filter_tt]; exact h⟩
      · have hk' : K ≠ dkey c x := fun e => hk e.symm
        cases hg : Store.get s (dkey c x) with
        | none => rw [dt_none c f hx hg] at h; cases h
        | some v =>
          rcases val_cases v with ⟨l, r, n, rfl⟩ | ⟨ids, rfl⟩ | ⟨hns, hnd⟩
          · obtain ⟨sa, s2, h1, h2, rfl⟩ := dt_split_inv c hx hg h
            rw [Store.get_erase_other _ _ _ hk'] at hK1
            by_cases hKa : Store.get sa K = none
            · obtain ⟨f', p, y, r', hle, hy, hyk, hr⟩ := dt_visit f l s sa K h1 hK hKa
              exact ⟨f', p, y, r', Nat.le_succ_of_le hle, hy, hyk, hr⟩
            · obtain ⟨q, rfl⟩ := dt_filter c f l s sa h1
              obtain ⟨f', p, y, r', hle, hy, hyk, hr⟩ := dt_visit f r _ s2 K h2 hKa hK1
              rw [List.filter_filter] at hr
              exact ⟨f', _, y, r', Nat.le_succ_of_le hle, hy, hyk, hr⟩
          · rw [dt_desc c f hx hg] at h; cases h
            rw [Store.get_erase_other _ _ _ hk'] at hK1
            exact absurd hK1 hK
          · rw [dt_other c f hx hg hns hnd] at h; cases h
            exact absurd hK1 hK

omit c in
theorem dt_arith (A B C D : Nat) (l1 : B ≤ A) (l2 : C ≤ B) (l3 : D < C) :
    A - B + 1 ≤ A - D ∧ B - C + 1 ≤ A - D := by omega

theorem dkey_inj {x y : NodeId} (h : dkey c y = dkey c x) : y = x := by
  cases x; cases y
  simp only [dkey, Key.mk.injEq] at h
  obtain ⟨_, rfl, rfl⟩ := h
  rfl

theorem length_erase_lt {s : Store} {k : Key} (h : Store.get s k ≠ none) :
    (Store.erase s k).length < s.length := by
  cases hv : Store.get s k with
  | none => exact absurd hv h
  | some v =>
    unfold Store.erase
    apply List.length_filter_lt_length_iff_exists.2
    exact ⟨(k, v), Store.mem_of_get hv, by simp⟩

/-- **the fuel a successful `delete_tree` needs is bounded by the number of entries it erases** -/
theorem dt_bound : ∀ (f : Nat) (x : NodeId) (s s1 : Store), Store.Sorted s → deleteTree c f x s = .ok s1 →
    deleteTree c (s.length - s1.length + 1) x s = .ok s1 := by
  intro f
  induction f using Nat.strong_induction_on with
  | _ f ih =>
    intro x s s1 hs h
    cases f with
    | zero => rw [dt_zero] at h; cases h
    | succ a =>
      by_cases hx : x.isItem = true
      · rw [dt_item c a hx] at h; cases h; exact dt_item c _ hx _
      · have hx : x.isItem = false := by simpa using hx
        cases hg : Store.get s (dkey c x) with
        | none => rw [dt_none c a hx hg] at h; cases h
        | some v =>
          rcases val_cases v with ⟨l, r, n, rfl⟩ | ⟨ids, rfl⟩ | ⟨hns, hnd⟩
          · obtain ⟨sa, s2, h1, h2, e⟩ := dt_split_inv c hx hg h
            have hsa : Store.Sorted sa := dt_sorted c hs h1
            have hKs : Store.get s (dkey c x) ≠ none := by rw [hg]; simp
            -- a nested successful run on `x` itself gives a success with less fuel
            have nested : ∀ (f' : Nat) (p : Key × Val → Bool) (y : NodeId) (r' : Store), f' ≤ a →
                dkey c y = dkey c x → deleteTree c f' y (s.filter p) = .ok r' →
                deleteTree c (s.length - s1.length + 1) x s = .ok s1 := by
              intro f' p y r' hle hyk hr
              have := dkey_inj c hyk
              subst this
              have h3 := (dt_sub c p (a + 1) f' y s s1 r' hs h hr).1
              have hm : min (a + 1) f' = f' := by omega
              rw [hm] at h3
              exact ih f' (by omega) y s s1 hs h3
            by_cases hk2 : Store.get s2 (dkey c x) = none
            · by_cases hka : Store.get sa (dkey c x) = none
              · obtain ⟨f', p, y, r', hle, _, hyk, hr⟩ := dt_visit c a l s sa _ h1 hKs hka
                exact nested f' p y r' hle hyk hr
              · obtain ⟨q, hq⟩ := dt_filter c a l s sa h1
                obtain ⟨f', p, y, r', hle, _, hyk, hr⟩ := dt_visit c a r sa s2 _ h2 hka hk2
                rw [hq, List.filter_filter] at hr
                exact nested f' _ y r' hle hyk hr
            · have b1 := ih a (Nat.lt_succ_self a) l s sa hs h1
              have b2 := ih a (Nat.lt_succ_self a) r sa s2 hsa h2
              obtain ⟨q1, hq1⟩ := dt_filter c a l s sa h1
              obtain ⟨q2, hq2⟩ := dt_filter c a r sa s2 h2
              have l1 : sa.length ≤ s.length := by rw [hq1]; exact List.length_filter_le _ _
              have l2 : s2.length ≤ sa.length := by rw [hq2]; exact List.length_filter_le _ _
              have l3 : s1.length < s2.length := by rw [e]; exact length_erase_lt hk2
              obtain ⟨a1, a2⟩ := dt_arith _ _ _ _ l1 l2 l3
              have c1 := dt_mono c a1 b1
              have c2 := dt_mono c a2 b2
              have := dt_split_ok c _ hx hg c1 c2
              rw [← e] at this
              exact this
          · rw [dt_desc c a hx hg] at h; cases h; exact dt_desc c _ hx hg
          · rw [dt_other c a hx hg hns hnd] at h; cases h; exact dt_other c _ hx hg hns hnd

/-- on a sorted store, `delete_tree` with any fuel above the length of the store is `delete_tree` with exactly
    that fuel -/
theorem dt_fuel_irrel (x : NodeId) (r : Store) (hr : Store.Sorted r) (F : Nat) (hF : r.length + 1 ≤ F)
    (r1 : Store) : deleteTree c F x r = .ok r1 ↔ deleteTree c (r.length + 1) x r = .ok r1 := by
  constructor
  · intro h
    exact dt_mono c (Nat.succ_le_succ (Nat.sub_le _ _)) (dt_bound c F x r r1 hr h)
  · intro h
    exact dt_mono c hF h

end dt

theorem ERel.of_iff {j : Nat} {a b b' : Except Err Store} (h : ERel j a b)
    (hb : ∀ r1, b = .ok r1 ↔ b' = .ok r1) : ERel j a b' := by
  cases b with
  | ok r1 =>
    have := (hb r1).1 rfl
    rw [this]; exact h
  | error e =>
    cases b' with
    | ok r1 => have := (hb r1).2 rfl; cases this
    | error e' =>
      cases a with
      | ok _ => exact h.elim
      | error _ => trivial

theorem ERel.join {j : Nat} {a b m : Except Err Store} (h1 : ERel j a m) (h2 : ERel j b m) : ERel j a b := by
  cases m with
  | ok r =>
    cases a with
    | error _ => exact h1.elim
    | ok sa =>
      cases b with
      | error _ => exact h2.elim
      | ok sb => exact ⟨h1.1, h2.1, h1.2.2.trans h2.2.2.symm⟩
  | error e =>
    cases a with
    | ok _ => exact h1.elim
    | error _ =>
      cases b with
      | ok _ => exact h2.elim
      | error _ => trivial

/-- **`delete_tree` with the fuel of the build (`s.length + 1`) reads and writes index `c.index` only** -/
theorem C07_readlocal_deleteTree (c : Cfg) : DeleteTreeLocal c := by
  intro s s' x h
  have hrr : restrictTo c.index (restrictTo c.index s) = restrictTo c.index s := by
    unfold restrictTo; rw [List.filter_filter]; simp
  have hok : SOk (restrictTo c.index s) := h.1.filter _
  have h1 : SRel c.index s (restrictTo c.index s) := ⟨h.1, hok, hrr.symm⟩
  have h2 : SRel c.index s' (restrictTo c.index s) := ⟨h.2.1, hok, by rw [hrr, h.2.2]⟩
  have n1 : (restrictTo c.index s).length + 1 ≤ s.length + 1 :=
    Nat.succ_le_succ (List.length_filter_le _ _)
  have n2 : (restrictTo c.index s).length + 1 ≤ s'.length + 1 := by
    rw [h.2.2]; exact Nat.succ_le_succ (List.length_filter_le _ _)
  have e1 := (dt_rel c _ x _ _ h1).of_iff (dt_fuel_irrel c x _ hok.1 _ n1)
  have e2 := (dt_rel c _ x _ _ h2).of_iff (dt_fuel_irrel c x _ hok.1 _ n2)
  exact e1.join e2

/-! ## the property theorems -/

/-- **read-locality of `Writer::build`**: from two build states that agree on everything but the store, whose
    stores are sorted with u16 indexes and have the same content of index `c.index`, the build fails in both or
    succeeds in both, with the same content of index `c.index` and the same oracle/poll state afterwards -/
theorem C07_readlocal_build_full (c : Cfg) (hi : c.index < 65536) (o : BuildOpts) (fuel : Nat) :
    Loc c.index Eq (Build.build c o fuel) (Build.build c o fuel) :=
  C07_readlocal_build c hi (C07_readlocal_deleteTree c) o fuel

/-- **`BuildLocal`**: a build of index `c.index` depends on a reachable store only through the content of
    index `c.index`.  The only hypothesis is the u16 range of the index (part of `Op.wf`). -/
theorem C07_buildLocal (c : Cfg) (hi : c.index < 65536) (o : BuildOpts) (fuel : Nat) (env : BState) :
    BuildLocal c.index (.build c o fuel env) := by
  intro s s' hs hs' h
  have hrel : Rel c.index { env with store := s } { env with store := s' } :=
    ⟨⟨SOk.of_reach hs, SOk.of_reach hs', h⟩, rfl, rfl, rfl, rfl, rfl⟩
  have h0 := C07_readlocal_build_full c hi o fuel _ _ hrel
  show restrictTo c.index (match Build.build c o fuel { env with store := s } with
      | .ok (_, st') => st'.store
      | .error _ => s) =
    restrictTo c.index (match Build.build c o fuel { env with store := s' } with
      | .ok (_, st') => st'.store
      | .error _ => s')
  revert h0
  cases Build.build c o fuel { env with store := s } with
  | error e =>
    cases Build.build c o fuel { env with store := s' } with
    | error e' => intro _; exact h
    | ok r' => intro h1; exact h1.elim
  | ok r =>
    cases Build.build c o fuel { env with store := s' } with
    | error e' => intro h1; exact h1.elim
    | ok r' => intro h1; exact h1.2.1.2.2

/-- **the history-level projection theorem**, builds of index `j` included: for a well-formed history in which
    index `j` is never the target of an `append`, the content of index `j` is the result of `j`'s own history -/
theorem C07_history_projection (j : Nat) (hj : j < 65536) (ops : List Op)
    (hops : ∀ op ∈ ops, op.wf) (happ : ∀ op ∈ ops, opIndex op = j → isAppend op = false) :
    restrictTo j (run ops) = restrictTo j (run (opsOf j ops)) ∧
    restrictTo j (run ops) = run (opsOf j ops) :=
  C07_history_projection_of_buildLocal j hj ops hops happ (by
    intro op _ hidx hb
    cases op with
    | build c o fuel env =>
      have hc : c.index = j := hidx
      subst hc
      exact C07_buildLocal c hj o fuel env
    | _ => cases hb)

namespace ExBL
open C01.Ex C17.Ex ExH

/-- non-vacuity: the history `opsC ++ [build]` of `C07History` (index 0 built twice, the second time on the
    incremental path under a cancellation schedule; index 3 built once) satisfies the hypotheses -/
example : restrictTo 0 (run (opsC ++ [.build cC oEx 5 env2])) = run (opsOf 0 (opsC ++ [.build cC oEx 5 env2])) :=
  (C07_history_projection 0 (by decide) _ opsC2_wf (by decide)).2
example : restrictTo 3 (run (opsC ++ [.build cC oEx 5 env2])) = run (opsOf 3 (opsC ++ [.build cC oEx 5 env2])) :=
  (C07_history_projection 3 (by decide) _ opsC2_wf (by decide)).2
example : BuildLocal cC.index (.build cC oEx 5 env2) := C07_buildLocal cC (by decide) oEx 5 env2
/-- the relation `Rel` is inhabited by states with different stores -/
example : Rel 0 { store := run hA } { store := run (opsOf 0 hA) } :=
  ⟨⟨SOk.of_reach (Reach.run hA_wf), SOk.of_reach (Reach.run (opsOf_wf hA_wf)),
    (C07_history_projection 0 (by decide) hA hA_wf hA_noappend).1⟩, rfl, rfl, rfl, rfl, rfl⟩
end ExBL

end Arroy.C07
