import ArroyProofs.IdsLemmas
/-! # C13 — parallel tree updates never collide, whatever the thread schedule

`Arroy.Ids` (ArroyModel/Ids.lean) is `ConcurrentNodeIds` as a transition system with one step per
atomic operation of `next`. The theorems below hold for **every** set of ids in use (a strictly
increasing list of `u32`s), every number of threads, every request budget per thread and every
schedule (any list of thread numbers, of any length).

Boundary remark: `ConcurrentNodeIds::new` computes `last_id = max + 1` in `u32`; the model (like
`IdGen.new`) computes it in `Nat`. They agree unless `u32::MAX` itself is in use, where the code
overflows (debug: panic; release: `last_id = 0`, and ids in use would be handed out again). The
theorems below are about the model and hold up to and including that case (`x < 2^32`); they speak
about the code for `x < u32::MAX` (`C13_cells_u32`). -/
namespace Arroy.C13
open Arroy Arroy.Ids

/-- **No collision, under every interleaving.** The ids handed out are pairwise distinct (no id is
given to two requests, of the same or of different threads), none of them is in use, and all are
`u32`s. There is no side condition about wrap-around: `C13_full`/`C13_counter` show that the
counters are never observed after wrapping. -/
theorem C13_unique (usedIds : List Nat) (hsorted : usedIds.Pairwise (· < ·))
    (hu32 : ∀ x ∈ usedIds, x < 4294967296) (budgets : List (Option Nat)) (sched : List Nat) :
    (run (initWith usedIds budgets) sched).ids.Nodup ∧
    ∀ x ∈ (run (initWith usedIds budgets) sched).ids, x ∉ usedIds ∧ x < 4294967296 := by
  obtain ⟨s, h⟩ := inv_run (inv_init hsorted hu32 budgets) sched
  exact ⟨h.idsNodup, h.fresh⟩

/-- `C13_unique` for `nThreads` threads without request bound. -/
theorem C13_unique_init (usedIds : List Nat) (hsorted : usedIds.Pairwise (· < ·))
    (hu32 : ∀ x ∈ usedIds, x < 4294967296) (nThreads : Nat) (sched : List Nat) :
    (run (init usedIds nThreads) sched).ids.Nodup ∧
    ∀ x ∈ (run (init usedIds nThreads) sched).ids, x ∉ usedIds ∧ x < 4294967296 :=
  C13_unique usedIds hsorted hu32 _ sched

/-- The same, read off the log: two different entries of the log never carry the same id, whatever
threads they belong to. -/
theorem C13_unique_log (usedIds : List Nat) (hsorted : usedIds.Pairwise (· < ·))
    (hu32 : ∀ x ∈ usedIds, x < 4294967296) (budgets : List (Option Nat)) (sched : List Nat)
    (i j t₁ t₂ x : Nat)
    (hi : (run (initWith usedIds budgets) sched).log[i]? = some (t₁, .id x))
    (hj : (run (initWith usedIds budgets) sched).log[j]? = some (t₂, .id x)) : i = j :=
  idsOf_nodup_inj (C13_unique usedIds hsorted hu32 budgets sched).1 hi hj

/-- **`DatabaseFull` exactly when the id space is exhausted.** In every reachable configuration:
`used` counts the ids in use at the start plus every request started; the requests that passed the
`used` check (answered with an id, or still in flight) never outnumber the free `u32`s; a request
that starts now is refused (`used > u32::MAX`) exactly when all 2^32 ids are in use or reserved by a
request in flight; and no request was refused before that point. -/
theorem C13_full (usedIds : List Nat) (hsorted : usedIds.Pairwise (· < ·))
    (hu32 : ∀ x ∈ usedIds, x < 4294967296) (budgets : List (Option Nat)) (sched : List Nat) :
    let c := run (initWith usedIds budgets) sched
    c.g.used = usedIds.length + c.ids.length + c.inflight + c.fulls ∧
    usedIds.length + c.ids.length + c.inflight ≤ 4294967296 ∧
    (c.g.used > u32Max ↔ usedIds.length + c.ids.length + c.inflight = 4294967296) ∧
    (0 < c.fulls → usedIds.length + c.ids.length + c.inflight = 4294967296) := by
  obtain ⟨s, h⟩ := inv_run (inv_init hsorted hu32 budgets) sched
  generalize run (initWith usedIds budgets) sched = c at h ⊢
  dsimp only
  have h1 := h.usedEq
  have h2 := h.passLe
  have h3 := h.fullUsed
  have h4 := h.usedFull
  refine ⟨h1, h2, ?_, ?_⟩
  · show c.g.used > 4294967295 ↔ _
    constructor
    · intro hgt; exact h4 (by omega)
    · intro he; omega
  · intro hf
    apply h4
    by_cases hle : c.g.used ≤ 4294967296
    · have := h3 hle; omega
    · omega

/-- **A request is refused exactly when its `used.fetch_add` observed a value `> u32::MAX`** (in any
configuration whatsoever): the step of thread `t` returns `full` iff `t` is about to start a request
and `used > u32::MAX`; that step is the `used.fetch_add`. -/
theorem C13_full_step (c : Config) (t : Nat) (op : Op) :
    (stepCore c t).2 = some (op, some .full) ↔
      ∃ th, c.threads[t]? = some th ∧ th.pc = .idle ∧ th.enabled = true ∧ c.g.used > u32Max ∧
        op = .usedFetchAdd := by
  unfold stepCore
  cases hth : c.threads[t]? with
  | none => simp
  | some th =>
    obtain ⟨pc, rem⟩ := th
    by_cases hen : Thread.enabled ⟨pc, rem⟩ = true
    · simp only [hen, if_true]
      cases pc with
      | idle =>
        by_cases hu : c.g.used > u32Max
        · simp [stepPc, hu, hen]
          exact eq_comm
        · simp [stepPc, hu]
      | afterUsed => simp [stepPc]
      | afterLook b =>
        cases b with
        | true => cases hx : c.g.available[c.g.sel]? <;> simp [stepPc, hx]
        | false => simp [stepPc]
      | afterSel k => simp [stepPc]
      | afterStore => simp [stepPc]
    · simp [hen]

/-- **The counter is never observed after wrapping.** With `cnt` the number of ids handed out by the
counter path (the ids `≥ last`): `last + cnt ≤ 2^32`, and as long as `last + cnt` is a `u32` the cell
`current` holds exactly `last + cnt` (so `current.fetch_add` returns the true value, and the only
wrap to 0 is the one that follows handing out `u32::MAX`, after which every request is refused). -/
theorem C13_counter (usedIds : List Nat) (hsorted : usedIds.Pairwise (· < ·))
    (hu32 : ∀ x ∈ usedIds, x < 4294967296) (budgets : List (Option Nat)) (sched : List Nat) :
    let c := run (initWith usedIds budgets) sched
    let cnt := (c.ids.filter (fun x => decide (c.g.last ≤ x))).length
    c.g.last + cnt ≤ 4294967296 ∧
    (c.g.last + cnt < 4294967296 → c.g.current = c.g.last + cnt) := by
  intro c cnt
  obtain ⟨s, h⟩ := inv_run (inv_init hsorted hu32 budgets) sched
  exact ⟨h.curLe, h.curEq⟩

/-- **The `u32` cells hold `u32` values.** When `u32::MAX` itself is not in use (so that `id + 1` in
`ConcurrentNodeIds::new` does not overflow and the model's `new` is the code's `new`), `current` and
`select_in_bitmap` are `< 2^32` in every reachable configuration. -/
theorem C13_cells_u32 (usedIds : List Nat) (hmax : ∀ x ∈ usedIds, x < 4294967295)
    (budgets : List (Option Nat)) (sched : List Nat) :
    (run (initWith usedIds budgets) sched).g.current < 4294967296 ∧
    (run (initWith usedIds budgets) sched).g.sel < 4294967296 :=
  run_u32 _ sched ⟨lastOf_lt hmax, Nat.zero_lt_succ _⟩

/-- **One thread = the sequential generator.** The abstraction `abs` forgets threads and log. From
any configuration (no invariant needed) in which thread `t` is idle and allowed to start a request,
letting `t` run alone until its request returns is `IdGen.next` on the abstract state: same result,
same successor state (`IdGen.next` drops the state when it fails; the cells then only differ from
before by the incremented `used`). -/
theorem C13_sequential (c : Config) (t : Nat) (rem : Option Nat)
    (hth : c.threads[t]? = some ⟨.idle, rem⟩) (hrem : rem ≠ some 0) :
    match IdGen.next (abs c) with
    | .ok (id, g') =>
        (request c t).2 = some (.id id) ∧ abs (request c t).1 = g' ∧
        (request c t).1.log = (t, .id id) :: c.log ∧
        (request c t).1.threads = c.threads.set t ⟨.idle, rem.map (· - 1)⟩
    | .error e =>
        e = .dbFull ∧ (request c t).2 = some .full ∧
        abs (request c t).1 = { abs c with used := (abs c).used + 1 } ∧
        (request c t).1.log = (t, .full) :: c.log ∧
        (request c t).1.threads = c.threads.set t ⟨.idle, rem.map (· - 1)⟩ :=
  request_eq c t rem hth hrem

/-- `ConcurrentNodeIds::new`: the initial configuration stands for `IdGen.new`. -/
theorem C13_sequential_init (usedIds : List Nat) (budgets : List (Option Nat)) :
    abs (initWith usedIds budgets) = IdGen.new usedIds :=
  abs_initWith usedIds budgets

/-- **The sequential generator is a fresh supply.** `k` successive `IdGen.next` from
`IdGen.new usedIds` succeed exactly when `usedIds.length + k ≤ 2^32` (or `k = 0`), and the ids they
return are pairwise distinct, not in use, and `u32`s. -/
theorem C13_fresh_supply (usedIds : List Nat) (hsorted : usedIds.Pairwise (· < ·))
    (hu32 : ∀ x ∈ usedIds, x < 4294967296) (k : Nat) :
    ((∃ ids g', nextN k (IdGen.new usedIds) = .ok (ids, g')) ↔
        (k = 0 ∨ usedIds.length + k ≤ 4294967296)) ∧
    ∀ ids g', nextN k (IdGen.new usedIds) = .ok (ids, g') →
      ids.length = k ∧ ids.Nodup ∧ ∀ x ∈ ids, x ∉ usedIds ∧ x < 4294967296 := by
  refine ⟨nextN_ok_iff k (IdGen.new usedIds), ?_⟩
  intro ids g' e
  have hinv := inv_init hsorted hu32 [none]
  have hth : (initWith usedIds [none]).threads[0]? = some ⟨.idle, none⟩ := rfl
  rw [← abs_initWith usedIds [none]] at e
  obtain ⟨c', s', h', _, hids⟩ := nextN_simulated 0 k hinv hth e
  have hids' : c'.ids = ids.reverse := by rw [hids]; simp [Config.ids, initWith, idsOf]
  have hnd := h'.idsNodup
  have hfr := h'.fresh
  rw [hids'] at hnd hfr
  refine ⟨?_, (List.pairwise_reverse.1 hnd).imp Ne.symm, fun x hx => hfr x (List.mem_reverse.2 hx)⟩
  clear hnd hfr hids hids' h'
  generalize abs (initWith usedIds [none]) = g at e
  induction k generalizing g ids with
  | zero => simp only [nextN] at e; cases e; rfl
  | succ k ih =>
    simp only [nextN] at e
    split at e
    · cases e
    · split at e
      · cases e
      · next ids2 g2 hn2 => cases e; simp [ih _ _ hn2]

/-- `C13_fresh_supply` in the shape the build proofs consume (`FreshGen usedIds (IdGen.new usedIds)`):
whatever number of ids is drawn successfully, they are distinct and not in use. -/
theorem C13_fresh_gen (usedIds : List Nat) (hsorted : usedIds.Pairwise (· < ·))
    (hu32 : ∀ x ∈ usedIds, x < 4294967296) :
    ∀ (k : Nat) (ids : List Nat) (g' : IdGen), nextN k (IdGen.new usedIds) = .ok (ids, g') →
      ids.Nodup ∧ ∀ i ∈ ids, i ∉ usedIds := by
  intro k ids g' e
  obtain ⟨_, hnd, hfr⟩ := (C13_fresh_supply usedIds hsorted hu32 k).2 ids g' e
  exact ⟨hnd, fun i hi => (hfr i hi).1⟩

/-! ## non-vacuity -/

/-- ids 0, 2, 5 in use: `available = {1, 3, 4}`, `last = 6`; two threads -/
theorem C13_init_example : init [0, 2, 5] 2 =
    { g := { available := [1, 3, 4], last := 6, current := 6, used := 3, sel := 0, look := true }
      threads := [⟨.idle, none⟩, ⟨.idle, none⟩], log := [] } := by
  simp [init, initWith, lastOf, diff, List.range, List.range.loop]

/-- the hypotheses of `C13_unique`, `C13_full`, `C13_counter`, `C13_fresh_supply` -/
example : [0, 2, 5].Pairwise (· < ·) ∧ ∀ x ∈ [0, 2, 5], x < 4294967296 := by decide

/-- a schedule of two threads living through the moment the recycled ids run out -/
def schedExhaust : List Nat :=
  [0, 1, 0, 1, 0, 1,    -- both: used.fetch_add, load (true), select: thread 0 gets 1, thread 1 gets 3
   0, 0, 1, 1,          -- both: used.fetch_add, load (true)
   0,                   -- thread 0: select(2) = 4, the last recycled id
   1,                   -- thread 1: select(3) = None
   0, 0, 0,             -- thread 0, new request: used.fetch_add, load (still true), select(4) = None
   1, 0,                -- both: store(false)
   1, 0,                -- both: current.fetch_add: thread 1 gets 6, thread 0 gets 7
   0, 0, 0]             -- thread 0, new request: used.fetch_add, load (false), current.fetch_add = 8

example : run (init [0, 2, 5] 2) schedExhaust =
    { g := { available := [1, 3, 4], last := 6, current := 9, used := 9, sel := 5, look := false }
      threads := [⟨.idle, none⟩, ⟨.idle, none⟩]
      log := [(0, .id 8), (0, .id 7), (1, .id 6), (0, .id 4), (1, .id 3), (0, .id 1)] } := by
  rw [C13_init_example]; decide

/-- in the middle of it: both threads have found the bitmap exhausted and neither has stored yet -/
example : (run (init [0, 2, 5] 2) (schedExhaust.take 15)).threads =
      [⟨.afterSel 4, none⟩, ⟨.afterSel 3, none⟩] ∧
    (run (init [0, 2, 5] 2) (schedExhaust.take 15)).g.look = true := by
  rw [C13_init_example]; decide

/-- request budgets: a thread with no request left does not move -/
example : (run (initWith [] [some 1]) [0, 0, 0, 0, 0, 0, 0]).log = [(0, .id 0)] := by
  have e : initWith [] [some 1] =
      { g := { available := [], last := 0, current := 0, used := 0, sel := 0, look := false }
        threads := [⟨.idle, some 1⟩], log := [] } := by
    simp [initWith, lastOf, diff, List.range, List.range.loop]
  rw [e]; decide

/-- the boundary (a hand-made configuration: every id but `u32::MAX` in use): the request that
observes `used = u32::MAX` is served `u32::MAX` and `current` wraps to 0; the request that observes
`used = 2^32` is refused. -/
example : run { g := { available := [], last := 4294967295, current := 4294967295, used := 4294967295,
                       sel := 0, look := false }
                threads := [⟨.idle, none⟩, ⟨.idle, none⟩], log := [] } [0, 1, 0, 0] =
    { g := { available := [], last := 4294967295, current := 0, used := 4294967297, sel := 0, look := false }
      threads := [⟨.idle, none⟩, ⟨.idle, none⟩]
      log := [(0, .id 4294967295), (1, .full)] } := by decide

/-- `C13_sequential` applies to the initial configuration (thread 1 idle, unbounded) -/
example : (init [0, 2, 5] 2).threads[1]? = some ⟨.idle, none⟩ ∧ (none : Option Nat) ≠ some 0 := by
  rw [C13_init_example]; decide

/-- the sequential generator on the same set: the three recycled ids, then the counter -/
example : nextN 5 (IdGen.new [0, 2, 5]) = .ok ([1, 3, 4, 6, 7],
    { available := [1, 3, 4], sel := 4, look := false, current := 8, used := 8 }) := by
  have e : initWith [0, 2, 5] [none] =
      { g := { available := [1, 3, 4], last := 6, current := 6, used := 3, sel := 0, look := true }
        threads := [⟨.idle, none⟩], log := [] } := by
    simp [initWith, lastOf, diff, List.range, List.range.loop]
  rw [← C13_sequential_init [0, 2, 5] [none], e]
  rfl

end Arroy.C13
