import ArroyProofs.ResplitFairLoop
import ArroyProofs.FreshSupplyProof
import ArroyProofs.Properties.C14
/-! C14 / C20 — the re-split loop `incremental_index_large_descendants` terminates under fair splits.

In the implementation the loop terminates with probability one only: a split search may send every item of a
batch to one side, the other child is then an empty bucket and the recursion goes on with the same set.  A round
is FAIR when the tree `make_tree_in_file` built from the batch has a root split with two non-empty sides
(`RoundFact.fair`; this forces the batch to be longer than the capacity: `C14_fair_batch_above_cap`).

* `C14_fair_round_decreases`: one fair round, stated on the model's own functions: `b` becomes a split node, and
  every bucket below it afterwards — in particular every queued one — holds strictly fewer items than `b` held,
  all of them items of `b`; the queued ids are exactly the over-full buckets below `b`.
* `C14_fair_round_measure`: the measure `Σ (size - 1)` of the queue decreases.
* `C14_traced_loop`: the instrumented loop (`loopTraced`, which also returns the facts of the rounds it ran)
  is the model loop.
* `C14_fair_terminates` / `C14_fuel_needs_unfair_round`: with more fuel than the measure of the queue, a run
  that ends in `.fuel` had an unfair round.
* Stronger, and what the proofs actually use: fairness of the ROOT split is not needed.  A round that succeeds
  with a batch longer than the capacity already decreases the measure (`C14_round_above_cap_decreases`,
  `C14_round_measure`), because `make_tree_in_file` only returns buckets within the capacity: an unfair root
  split is followed, inside the same call, by further splits of the same set.  Hence
  `C14_terminates_above_cap` / `C14_fuel_needs_small_batch`: a run that ends in `.fuel` had a round with a batch
  `k ≤ cap` (the livelock repair G removed); the probabilistic part of the termination sits in the recursion of
  `make_tree_in_file`, bounded in the model by the finite `normals` oracle.

Hypotheses: the store holds a forest (`Forest`), the id generator is fresh for the node ids in use (`GenOK`),
keys are well formed, the queued ids are in use — what `Build.build` establishes before the loop
(`afterUsed_spec`) — and `1 ≤ cap`. -/
namespace Arroy.C14
open Arroy BuildM Generated IdSet

/-- **C14 (a fair round makes progress)**: one round of the loop (the `fuel + 1`, `b :: large'` branch, step by
step) on the over-full bucket `b` holding `ids`, for every oracle, poll and cancel state, assuming every step
succeeds.  If the tree made from the batch is a split node with two non-empty sides then: the loop continues
with the queue `large' ∪ large''`; the batch was longer than the capacity; after the round `b` is a split node
with the same normal; every bucket of the subtree `u'` below `b` is stored, holds only items of `ids` and
strictly fewer than `ids.length`; the over-full ones are queued, and `large''` consists of over-full buckets of
`u'` only. -/
theorem C14_fair_round_decreases (c : Cfg) (o : BuildOpts) (roots items : List Nat) (ts : List T) (inUse : List Nat)
    (b : Nat) (ids : List Nat) (k : Nat) (g g' : IdGen) (r : MakeRes) (st st1 st2 st3 st4 st' : BState)
    (large'' : List Nat) (id : Nat) (n : List Nat) (ta tb : T)
    (hi : c.index < 65536) (hcap : 1 ≤ Build.cap c o)
    -- the index before the round
    (f : Forest c st.store roots items ts) (hin : ∀ i ∈ ts.flatMap T.ids, i ∈ inUse) (hg : GenOK inUse g)
    (hw : Store.WF st.store)
    -- the round
    (hget : Store.get st.store (c.treeKey b) = some (.desc ids))
    (hpoll : poll st = .ok ((), st1))
    (hbatch : nextBatch st1 = .ok (k, st2))
    (hrange : ¬ (k = 0 ∨ k > ids.length))
    (hmake : makeT (Build.treeCtx c o st.store) (st2.normals.length + 2) (ids.take k) g st2.normals st2.rands = .ok r)
    (hpolls : pollN r.polls { st2 with normals := r.normals, rands := r.rands } = .ok ((), st3))
    (hwrite : Build.writeBack c [] r.puts (fun i => if i = r.tree.ref.item then b else i) st3 = .ok ((), st4))
    (hins : Build.insertItemsInCurrentTrees c o [b] ((ids.drop k).length + 1) (ids.drop k) r.gen st4 =
      .ok ((large'', g'), st'))
    -- it is fair
    (hnode : r.tree = .node id n ta tb) (ha : ta.items ≠ []) (hb : tb.items ≠ []) :
    (∀ fuel large', Build.incrementalIndexLargeDescendants c o (fuel + 1) (b :: large') g st =
        Build.incrementalIndexLargeDescendants c o fuel (IdSet.union large' large'') g' st') ∧
    Build.cap c o < k ∧
    ∃ u' l' r', reify c st'.store (st'.store.length + 1) (NodeId.mkTree b) = some u' ∧ u' = .node b n l' r' ∧
      Store.get st'.store (c.treeKey b) = some (.split l'.ref r'.ref n) ∧
      l'.items ≠ [] ∧ r'.items ≠ [] ∧ l'.items.length + r'.items.length = ids.length ∧
      (∀ p ∈ u'.buckets, Store.get st'.store (c.treeKey p.1) = some (.desc p.2) ∧
        p.2.length < ids.length ∧ (∀ x ∈ p.2, x ∈ ids) ∧ (Build.cap c o < p.2.length → p.1 ∈ large'')) ∧
      (∀ i ∈ large'', ∃ s, (i, s) ∈ u'.buckets ∧ Build.cap c o < s.length) := by
  have steps : RoundSteps c o b g st ids k r st1 st2 st3 st4 st' large'' g' :=
    ⟨hget, hpoll, hbatch, hrange, hmake, hpolls, hwrite, hins⟩
  have hround := resplitRound_ok_of_steps steps
  have hst3 : st3.store = st.store := by
    rw [pollN_store' hpolls]
    show st2.store = st.store
    rw [nextBatch_ok' hbatch, poll_store' hpoll]
  obtain ⟨u', inUse', out⟩ :=
    resplit_round_out c o roots items ts st.store b ids k g g' inUse _ _ _ _ r st3 st4 st' large''
      f hget hin hg hw hi hcap hmake hst3 hwrite hins
  rw [hnode] at out
  have out' : RoundOut c o roots items ts st.store b ids inUse g' st' large'' (.node b n ta tb) u' inUse' := out
  obtain ⟨l', r', e, hl', hr', hlen⟩ := out'.fair_node ha hb
  have hk : Build.cap c o < (ids.take k).length := makeT_node_batch hmake hnode
  rw [List.length_take] at hk
  refine ⟨fun fuel large' => loop_succ_cons_ok c o fuel b large' g hround, by omega, u', l', r', ?_, e, ?_,
    hl', hr', hlen, ?_, ?_⟩
  · have := reify_of_holds_nodup c st'.store u' out'.holds out'.ids_nodup
    rwa [out'.ref] at this
  · have := out'.holds
    rw [e] at this
    exact this.root
  · intro p hp
    obtain ⟨h1, h2, h3⟩ := out'.buckets_small (fair_two_parts ha hb) p hp
    refine ⟨h1, h2, h3, fun hc => out'.queued p hp ?_⟩
    simp only [fits, decide_eq_true_eq]
    omega
  · intro i hi'
    obtain ⟨t, ht, s, hs, hc⟩ := out'.large i hi'
    simp only [List.mem_singleton] at ht
    subst ht
    exact ⟨s, hs, hc⟩

/-- **C14 (a round with a batch above the capacity makes progress)**: the same without fairness of the root
split: a round that succeeds with `cap < k` turns `b` into a split node, and every bucket below it afterwards
holds strictly fewer items than `b` held, all of them items of `b`; the queued ids are exactly the over-full
ones.  (An unfair root split is followed, inside the same `make_tree_in_file` call, by further splits of the
same set: the made tree has buckets within the capacity only, hence at least two non-empty parts.) -/
theorem C14_round_above_cap_decreases (c : Cfg) (o : BuildOpts) (roots items : List Nat) (ts : List T)
    (inUse : List Nat) (b : Nat) (ids : List Nat) (k : Nat) (g g' : IdGen) (r : MakeRes)
    (st st1 st2 st3 st4 st' : BState) (large'' : List Nat)
    (hi : c.index < 65536) (hcap : 1 ≤ Build.cap c o)
    (f : Forest c st.store roots items ts) (hin : ∀ i ∈ ts.flatMap T.ids, i ∈ inUse) (hg : GenOK inUse g)
    (hw : Store.WF st.store)
    (hget : Store.get st.store (c.treeKey b) = some (.desc ids))
    (hpoll : poll st = .ok ((), st1))
    (hbatch : nextBatch st1 = .ok (k, st2))
    (hrange : ¬ (k = 0 ∨ k > ids.length))
    (hmake : makeT (Build.treeCtx c o st.store) (st2.normals.length + 2) (ids.take k) g st2.normals st2.rands = .ok r)
    (hpolls : pollN r.polls { st2 with normals := r.normals, rands := r.rands } = .ok ((), st3))
    (hwrite : Build.writeBack c [] r.puts (fun i => if i = r.tree.ref.item then b else i) st3 = .ok ((), st4))
    (hins : Build.insertItemsInCurrentTrees c o [b] ((ids.drop k).length + 1) (ids.drop k) r.gen st4 =
      .ok ((large'', g'), st'))
    (hk : Build.cap c o < k) :
    (∀ fuel large', Build.incrementalIndexLargeDescendants c o (fuel + 1) (b :: large') g st =
        Build.incrementalIndexLargeDescendants c o fuel (IdSet.union large' large'') g' st') ∧
    ∃ u' n l' r', reify c st'.store (st'.store.length + 1) (NodeId.mkTree b) = some u' ∧ u' = .node b n l' r' ∧
      Store.get st'.store (c.treeKey b) = some (.split l'.ref r'.ref n) ∧
      l'.items.length + r'.items.length = ids.length ∧
      (∀ p ∈ u'.buckets, Store.get st'.store (c.treeKey p.1) = some (.desc p.2) ∧
        p.2.length < ids.length ∧ (∀ x ∈ p.2, x ∈ ids) ∧ (Build.cap c o < p.2.length → p.1 ∈ large'')) ∧
      (∀ i ∈ large'', ∃ s, (i, s) ∈ u'.buckets ∧ Build.cap c o < s.length) := by
  have steps : RoundSteps c o b g st ids k r st1 st2 st3 st4 st' large'' g' :=
    ⟨hget, hpoll, hbatch, hrange, hmake, hpolls, hwrite, hins⟩
  have hround := resplitRound_ok_of_steps steps
  obtain ⟨id, n, a0, b0, u', inUse', _, hp, out'⟩ := steps.out hi hcap f hin hg hw hk
  obtain ⟨l', r', e, _, _, hlen, _⟩ := out'.node_parts hp
  refine ⟨fun fuel large' => loop_succ_cons_ok c o fuel b large' g hround, u', n, l', r', ?_, e, ?_, hlen, ?_, ?_⟩
  · have := reify_of_holds_nodup c st'.store u' out'.holds out'.ids_nodup
    rwa [out'.ref] at this
  · have := out'.holds
    rw [e] at this
    exact this.root
  · intro p hpm
    obtain ⟨h1, h2, h3⟩ := out'.buckets_small hp p hpm
    refine ⟨h1, h2, h3, fun hc => out'.queued p hpm ?_⟩
    simp only [fits, decide_eq_true_eq]
    omega
  · intro i hi'
    obtain ⟨t, ht, s, hs, hc⟩ := out'.large i hi'
    simp only [List.mem_singleton] at ht
    subst ht
    exact ⟨s, hs, hc⟩

/-- **C14 (the measure of a round, batch above the capacity)**: fairness of the root split is not even needed
for the measure: a round that succeeds with a batch longer than the capacity strictly decreases the measure
`Σ (size - 1)` of the queue (`loopMeasure`; sizes read in the store, before and after), provided the other queued
ids are in use.  (`make_tree_in_file` returns buckets within the capacity only: an unfair root split is followed,
inside the same call, by further splits of the same set until one separates it; a split search that never
separates shows as an exhausted `normals` stream, an `.oracle` error, not as a further round.) -/
theorem C14_round_measure (c : Cfg) (o : BuildOpts) (roots items : List Nat) (ts : List T) (inUse : List Nat)
    (b : Nat) (g g' : IdGen) (st st' : BState) (fact : RoundFact) (large' large'' : List Nat)
    (hi : c.index < 65536) (hcap : 1 ≤ Build.cap c o)
    (f : Forest c st.store roots items ts) (hin : ∀ i ∈ ts.flatMap T.ids, i ∈ inUse) (hg : GenOK inUse g)
    (hw : Store.WF st.store) (hl : ∀ i ∈ large', i ∈ inUse)
    (hround : resplitRound c o b g st = .ok ((fact, large'', g'), st')) (hk : Build.cap c o < fact.batch) :
    loopMeasure c st'.store (IdSet.union large' large'') < loopMeasure c st.store (b :: large') := by
  obtain ⟨ids, k, r, st1, st2, st3, st4, steps, rfl⟩ := resplitRound_ok_inv hround
  obtain ⟨id, n, a0, b0, u', inUse', _, hp, out'⟩ := steps.out hi hcap f hin hg hw hk
  exact out'.measure_step hp steps.get large' hl

/-- **C14 (the measure of a fair round)**: in particular a fair round strictly decreases the measure -/
theorem C14_fair_round_measure (c : Cfg) (o : BuildOpts) (roots items : List Nat) (ts : List T) (inUse : List Nat)
    (b : Nat) (g g' : IdGen) (st st' : BState) (fact : RoundFact) (large' large'' : List Nat)
    (hi : c.index < 65536) (hcap : 1 ≤ Build.cap c o)
    (f : Forest c st.store roots items ts) (hin : ∀ i ∈ ts.flatMap T.ids, i ∈ inUse) (hg : GenOK inUse g)
    (hw : Store.WF st.store) (hl : ∀ i ∈ large', i ∈ inUse)
    (hround : resplitRound c o b g st = .ok ((fact, large'', g'), st')) (hfair : fact.fair) :
    loopMeasure c st'.store (IdSet.union large' large'') < loopMeasure c st.store (b :: large') :=
  C14_round_measure c o roots items ts inUse b g g' st st' fact large' large'' hi hcap f hin hg hw hl hround
    (resplitRound_fair_batch hround hfair).1

/-- **C14 (the instrumented loop)**: `loopTraced` — the loop made of `resplitRound` (a literal copy of the body
of the model loop that also returns the facts of the round) — computes the model loop: same final state, same
error, for every fuel, queue, generator and state; and the model loop unfolds into `resplitRound` -/
theorem C14_traced_loop (c : Cfg) (o : BuildOpts) (fuel : Nat) (large : List Nat) (g : IdGen) (st : BState) :
    (loopTraced c o fuel large g st).2 = Build.incrementalIndexLargeDescendants c o fuel large g st ∧
    (∀ b large', Build.incrementalIndexLargeDescendants c o (fuel + 1) (b :: large') g =
      bind' (resplitRound c o b g)
        (fun x => Build.incrementalIndexLargeDescendants c o fuel (IdSet.union large' x.2.1) x.2.2)) :=
  ⟨loopTraced_snd c o fuel large g st, fun b large' => loop_succ_cons c o fuel b large' g⟩

/-- **C14 (a fair round has a batch above the capacity)**: in every recorded round whose made root has two
non-empty sides, the batch was longer than the capacity (repair G) and within the bucket -/
theorem C14_fair_batch_above_cap (c : Cfg) (o : BuildOpts) (fuel : Nat) (large : List Nat) (g : IdGen) (st : BState)
    (f : RoundFact) (hf : f ∈ (loopTraced c o fuel large g st).1) (hfair : f.fair) :
    Build.cap c o < f.batch ∧ f.batch ≤ f.size :=
  loopTraced_fair_batch c o fuel large g st f hf hfair

/-- **C14 (termination, batches above the capacity)**: on a forest, with the queued ids in use, a run of the
re-split loop whose fuel exceeds the measure `Σ_{b ∈ large} (size b - 1)` of its queue and all of whose rounds
have a batch longer than the capacity (what repair G guarantees) does not exhaust its fuel — for every oracle
stream (hence every memory hint), poll and cancel state -/
theorem C14_terminates_above_cap (c : Cfg) (o : BuildOpts) (roots items : List Nat) (ts : List T) (inUse : List Nat)
    (fuel : Nat) (large : List Nat) (g : IdGen) (st : BState)
    (hi : c.index < 65536) (hcap : 1 ≤ Build.cap c o)
    (f : Forest c st.store roots items ts) (hin : ∀ i ∈ ts.flatMap T.ids, i ∈ inUse) (hg : GenOK inUse g)
    (hw : Store.WF st.store) (hl : ∀ i ∈ large, i ∈ inUse)
    (hfuel : loopMeasure c st.store large < fuel)
    (hbatch : ∀ f ∈ (loopTraced c o fuel large g st).1, Build.cap c o < f.batch) (w : String) :
    Build.incrementalIndexLargeDescendants c o fuel large g st ≠ .error (.fuel w) :=
  loop_aboveCap_noFuel c o roots items hi hcap fuel large ts g inUse st f hin hg hw hl hfuel hbatch w

/-- **C14 (fuel exhaustion needs a batch within the capacity)**: read the other way: if the loop, run with more
fuel than the measure of its queue, fails with `.fuel`, then some round of that run had a batch `k ≤ cap` — the
livelock `C14_livelock_before_fix` is the only way to exhaust the budget -/
theorem C14_fuel_needs_small_batch (c : Cfg) (o : BuildOpts) (roots items : List Nat) (ts : List T)
    (inUse : List Nat) (fuel : Nat) (large : List Nat) (g : IdGen) (st : BState)
    (hi : c.index < 65536) (hcap : 1 ≤ Build.cap c o)
    (f : Forest c st.store roots items ts) (hin : ∀ i ∈ ts.flatMap T.ids, i ∈ inUse) (hg : GenOK inUse g)
    (hw : Store.WF st.store) (hl : ∀ i ∈ large, i ∈ inUse)
    (hfuel : loopMeasure c st.store large < fuel) (w : String)
    (h : Build.incrementalIndexLargeDescendants c o fuel large g st = .error (.fuel w)) :
    ∃ f ∈ (loopTraced c o fuel large g st).1, f.batch ≤ Build.cap c o := by
  apply Classical.byContradiction
  intro hno
  apply loop_aboveCap_noFuel c o roots items hi hcap fuel large ts g inUse st f hin hg hw hl hfuel _ w h
  intro f' hf'
  apply Classical.byContradiction
  intro hnf
  exact hno ⟨f', hf', by omega⟩

/-- **C14 (termination under fair splits)**: on a forest, with the queued ids in use, a run of the re-split loop
whose fuel exceeds the measure `Σ_{b ∈ large} (size b - 1)` of its queue and all of whose rounds are fair does
not exhaust its fuel — for every oracle stream (hence every memory hint), poll and cancel state.  (Fairness is
a condition on the trace of the very run with that fuel: it does not presuppose termination.) -/
theorem C14_fair_terminates (c : Cfg) (o : BuildOpts) (roots items : List Nat) (ts : List T) (inUse : List Nat)
    (fuel : Nat) (large : List Nat) (g : IdGen) (st : BState)
    (hi : c.index < 65536) (hcap : 1 ≤ Build.cap c o)
    (f : Forest c st.store roots items ts) (hin : ∀ i ∈ ts.flatMap T.ids, i ∈ inUse) (hg : GenOK inUse g)
    (hw : Store.WF st.store) (hl : ∀ i ∈ large, i ∈ inUse)
    (hfuel : loopMeasure c st.store large < fuel)
    (hfair : ∀ f ∈ (loopTraced c o fuel large g st).1, f.fair) (w : String) :
    Build.incrementalIndexLargeDescendants c o fuel large g st ≠ .error (.fuel w) :=
  loop_fair_noFuel c o roots items hi hcap fuel large ts g inUse st f hin hg hw hl hfuel hfair w

/-- **C14 (fuel exhaustion needs an unfair round)**: the same, read the other way: if the loop, run with more
fuel than the measure of its queue, fails with `.fuel`, then the label is the loop's own and some round of
that run was unfair — a fortiori: was unfair or had a batch `k ≤ cap` -/
theorem C14_fuel_needs_unfair_round (c : Cfg) (o : BuildOpts) (roots items : List Nat) (ts : List T)
    (inUse : List Nat) (fuel : Nat) (large : List Nat) (g : IdGen) (st : BState)
    (hi : c.index < 65536) (hcap : 1 ≤ Build.cap c o)
    (f : Forest c st.store roots items ts) (hin : ∀ i ∈ ts.flatMap T.ids, i ∈ inUse) (hg : GenOK inUse g)
    (hw : Store.WF st.store) (hl : ∀ i ∈ large, i ∈ inUse)
    (hfuel : loopMeasure c st.store large < fuel) (w : String)
    (h : Build.incrementalIndexLargeDescendants c o fuel large g st = .error (.fuel w)) :
    w = "incremental_index_large_descendants" ∧
    (∃ f ∈ (loopTraced c o fuel large g st).1, ¬ f.fair) ∧
    (∃ f ∈ (loopTraced c o fuel large g st).1, ¬ f.fair ∨ f.batch ≤ Build.cap c o) := by
  have hex : ∃ f ∈ (loopTraced c o fuel large g st).1, ¬ f.fair := by
    apply Classical.byContradiction
    intro hno
    apply loop_fair_noFuel c o roots items hi hcap fuel large ts g inUse st f hin hg hw hl hfuel _ w h
    intro f' hf'
    apply Classical.byContradiction
    intro hnf
    exact hno ⟨f', hf', hnf⟩
  refine ⟨incrementalIndexLargeDescendants_fuelOnly c o fuel large g st w h, hex, ?_⟩
  obtain ⟨f', hf', hnf⟩ := hex
  exact ⟨f', hf', Or.inl hnf⟩

/-- **C14 (the bound in terms of the bucket sizes)**: if the queued ids are non-empty buckets (they are over-full
ones in a build), the fuel `Σ_{b ∈ large} size b` is enough -/
theorem C14_fair_terminates_sizes (c : Cfg) (o : BuildOpts) (roots items : List Nat) (ts : List T)
    (inUse : List Nat) (fuel : Nat) (large : List Nat) (g : IdGen) (st : BState)
    (hi : c.index < 65536) (hcap : 1 ≤ Build.cap c o)
    (f : Forest c st.store roots items ts) (hin : ∀ i ∈ ts.flatMap T.ids, i ∈ inUse) (hg : GenOK inUse g)
    (hw : Store.WF st.store) (hl : ∀ i ∈ large, i ∈ inUse)
    (hne : ∀ i ∈ large, 0 < bucketSize c st.store i)
    (hfuel : (large.map (bucketSize c st.store)).sum ≤ fuel)
    (hfair : ∀ f ∈ (loopTraced c o fuel large g st).1, f.fair) (w : String) :
    Build.incrementalIndexLargeDescendants c o fuel large g st ≠ .error (.fuel w) := by
  cases large with
  | nil => exact loop_nil_noFuel c o fuel g st w
  | cons b l =>
    have := loopMeasure_lt_sizes c st.store b l hne
    exact loop_fair_noFuel c o roots items hi hcap fuel (b :: l) ts g inUse st f hin hg hw hl (by omega) hfair w

/-! ## non-vacuity -/
namespace FairExamples
open Examples

/-- the tree of the store `Examples.sLarge`: `0 = split(1 = {0, 1, 3}, item 2)`; bucket `1` is over-full for the
capacity 2 of `Examples.o` -/
def tree : T := .node 0 [F32.zero, F32.one] (.bucket 1 [0, 1, 3]) (.leaf 2)

theorem sLarge_wf : Store.WF sLarge := by
  unfold Store.WF
  decide +kernel

theorem sLarge_treeKeys : sLarge.keysOf 0 modeTree = [0, 1] := by decide +kernel

/-- the store `sLarge` holds a forest: the one tree above, reaching the items 0, 1, 2, 3 -/
theorem forest : Forest c sLarge [0] [0, 1, 2, 3] [tree] where
  refs := by decide
  holds := by
    intro t ht
    simp only [List.mem_singleton] at ht
    subst ht
    intro cell hc
    simp only [tree, T.cells, T.ref, List.mem_cons, List.append_nil, List.not_mem_nil, or_false] at hc
    rcases hc with rfl | rfl <;> decide +kernel
  ids_nodup := by decide
  cover := by
    intro id
    have h := Store.mem_keysOf_iff sLarge_wf 0 modeTree id (by decide) (by decide)
    rw [sLarge_treeKeys] at h
    have e : c.treeKey id = ⟨0, modeTree, id⟩ := rfl
    rw [e]
    simp only [tree, List.flatMap_cons, List.flatMap_nil, T.ids, List.append_nil]
    exact h.symm
  wf := by
    intro t ht
    simp only [List.mem_singleton] at ht
    subst ht
    decide
  items_nodup := by
    intro t ht
    simp only [List.mem_singleton] at ht
    subst ht
    decide
  reach := by
    intro t ht x
    simp only [List.mem_singleton] at ht
    subst ht
    simp only [tree, T.items, List.cons_append, List.nil_append, List.mem_cons, List.not_mem_nil, or_false]
    omega

theorem genOK : GenOK [0, 1] g := freshSupply [0, 1] (by decide) (by decide)

/-- the state of the run: the batch of all 3 items, one normal, four random bits -/
def st0 : BState :=
  { store := sLarge, batches := [3], rands := [true, false, true, true], normals := [[F32.one, F32.zero]] }

/-- the run of the instrumented loop with fuel 3 on the queue `[1]`: one round, on bucket 1 (3 items), batch 3,
sides of 1 and 2 items, nothing queued; the loop then ends -/
theorem trace : (loopTraced c o 3 [1] g st0).1 = [⟨1, 3, 3, 1, 2, []⟩] ∧
    isOk (loopTraced c o 3 [1] g st0).2 = true := by
  decide +kernel

/-- the hypotheses of `C14_fair_terminates`, `C14_terminates_above_cap`, `C14_fair_terminates_sizes` hold on this
run: forest, ids in use, fresh generator, well-formed keys, the queue in use, measure 2 < fuel 3 (sizes 3 ≤ 3),
every round fair with a batch above the capacity 2 -/
example : c.index < 65536 ∧ 1 ≤ Build.cap c o ∧ Forest c st0.store [0] [0, 1, 2, 3] [tree] ∧
    (∀ i ∈ [tree].flatMap T.ids, i ∈ [0, 1]) ∧ GenOK [0, 1] g ∧ Store.WF st0.store ∧ (∀ i ∈ [1], i ∈ [0, 1]) ∧
    loopMeasure c st0.store [1] < 3 ∧ (∀ i ∈ [1], 0 < bucketSize c st0.store i) ∧
    ([1].map (bucketSize c st0.store)).sum ≤ 3 ∧
    (∀ f ∈ (loopTraced c o 3 [1] g st0).1, f.fair) ∧
    (∀ f ∈ (loopTraced c o 3 [1] g st0).1, Build.cap c o < f.batch) := by
  refine ⟨by decide, by decide, forest, by decide, genOK, sLarge_wf, by decide, by decide +kernel,
    by decide +kernel, by decide +kernel, ?_, ?_⟩
  · rw [trace.1]; decide
  · rw [trace.1]; decide

/-- and the conclusion, obtained from the theorem (the run indeed succeeds: `trace`) -/
example (w : String) : Build.incrementalIndexLargeDescendants c o 3 [1] g st0 ≠ .error (.fuel w) :=
  C14_fair_terminates c o [0] [0, 1, 2, 3] [tree] [0, 1] 3 [1] g st0 (by decide) (by decide) forest (by decide)
    genOK sLarge_wf (by decide) (by decide +kernel) (by rw [trace.1]; decide) w

/-- `C14_fair_round_decreases`, `C14_round_above_cap_decreases`, `C14_fair_round_measure`, `C14_round_measure`: the
round of that run succeeds and is fair -/
example : ∃ fact large'' g' st', resplitRound c o 1 g st0 = .ok ((fact, large'', g'), st') ∧ fact.fair ∧
    Build.cap c o < fact.batch ∧
    loopMeasure c st'.store (IdSet.union [] large'') < loopMeasure c st0.store [1] := by
  have h : isOk (loopTraced c o 3 [1] g st0).2 = true := trace.2
  cases hr : resplitRound c o 1 g st0 with
  | error e => simp [loopTraced, hr, isOk] at h
  | ok x =>
    obtain ⟨⟨fact, large'', g'⟩, st'⟩ := x
    have ht := trace.1
    rw [loopTraced_fst_cons c o 2 1 [] g hr] at ht
    have hf : fact = ⟨1, 3, 3, 1, 2, []⟩ := (List.cons.inj ht).1
    have hfair : fact.fair := by rw [hf]; decide
    have hk : Build.cap c o < fact.batch := by rw [hf]; decide
    exact ⟨fact, large'', g', st', rfl, hfair, hk,
      C14_fair_round_measure c o [0] [0, 1, 2, 3] [tree] [0, 1] 1 g g' st0 st' fact [] large'' (by decide) (by decide)
        forest (by decide) genOK sLarge_wf (by simp) hr hfair⟩

/-- the livelock before repair G (`C14_livelock_before_fix`) seen by the instrumented loop: the fuel 3 exceeds the
measure 2, the run ends in `.fuel`, and — as `C14_fuel_needs_small_batch` / `C14_fuel_needs_unfair_round` say — its
rounds have batches within the capacity (2 ≤ 2) and are unfair -/
example : loopMeasure c sLarge [1] < 3 ∧
    isFuel (loopTraced c o 3 [1] g { store := sLarge, batches := [2, 1, 2, 1, 2, 1] }).2 = true ∧
    (loopTraced c o 3 [1] g { store := sLarge, batches := [2, 1, 2, 1, 2, 1] }).1.map
      (fun f => (f.batch, f.left, f.right, f.queued)) = [(2, 0, 0, [(1, 3)]), (2, 0, 0, [(1, 3)]), (2, 0, 0, [(1, 3)])] := by
  decide +kernel

end FairExamples

end Arroy.C14

