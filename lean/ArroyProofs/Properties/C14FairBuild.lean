import ArroyProofs.ResplitFairBuild
import ArroyProofs.FreshSupplyProof
import ArroyProofs.Properties.C14Fair
import ArroyProofs.Properties.C01Examples
/-! C14 / C20 — termination of the re-split loop, lifted to `Build.build`.

`buildPrefix c o` is `Build.build` up to the loop (it does not depend on the loop budget), `buildTrace c o loopFuel st`
the facts of the rounds of the loop of the build started in `st`, `buildLoopMeasure c o st` the measure
`Σ (size - 1)` of the queue the loop starts with (`ArroyProofs/ResplitFairBuild.lean`). -/
namespace Arroy.C14
open Arroy BuildM Generated IdSet Transp

/-- **C14 (the build around its loop)**: `Build.build` is its prefix, then the re-split loop, then the metadata
write; the prefix does not depend on the loop budget -/
theorem C14_build_prefix (c : Cfg) (o : BuildOpts) (loopFuel : Nat) :
    Build.build c o loopFuel = bind' (buildPrefix c o) (buildSuffix c o loopFuel) ∧
    (∀ items roots large g, buildSuffix c o loopFuel (some (items, roots, large, g)) =
      bind' (Build.incrementalIndexLargeDescendants c o loopFuel large g) (fun _ => Build.writeMetadata c items roots)) :=
  ⟨build_eq_prefix c o loopFuel, fun _ _ _ _ => rfl⟩

/-- **C14 (a build terminates when its batches exceed the capacity)**: on a store satisfying the index invariant
(what every `(add | del | clear)* build` history leaves), without cancellation schedule, for every option and
oracle stream (hence every memory hint): if the loop budget exceeds the measure of the queue the loop starts with
and every round of the loop has a batch longer than the capacity (repair G), `build` does not report any
exhausted fuel -/
theorem C14_build_terminates_above_cap (c : Cfg) (o : BuildOpts) (loopFuel : Nat) (st : BState)
    (hi : c.index < 65536) (hcap : 1 ≤ Build.cap c o) (hinv : IndexInvW c st.store) (hnone : st.cancelAt = none)
    (hfuel : buildLoopMeasure c o st < loopFuel)
    (hbatch : ∀ f ∈ buildTrace c o loopFuel st, Build.cap c o < f.batch) (w : String) :
    Build.build c o loopFuel st ≠ .error (.fuel w) := by
  intro h
  obtain ⟨roots0, items0, ts0, old⟩ := Old.of_inv hinv hi
  have hw' : w = "incremental_index_large_descendants" :=
    C14_build_fuel_forest c o loopFuel st ts0 (by rw [old.forest.refs, old.roots_eq]) old.forest.holds
      old.forest.ids_nodup w h
  subst hw'
  exact build_aboveCap_noLoopFuel c o loopFuel st roots0 items0 ts0 hi hcap hinv.1 hinv.2.1 old hnone freshSupply
    hfuel hbatch h

/-- **C14 (a build terminates under fair splits)**: the same when every round of the loop of the build is fair
(a fair round has a batch longer than the capacity) -/
theorem C14_build_terminates_fair (c : Cfg) (o : BuildOpts) (loopFuel : Nat) (st : BState)
    (hi : c.index < 65536) (hcap : 1 ≤ Build.cap c o) (hinv : IndexInvW c st.store) (hnone : st.cancelAt = none)
    (hfuel : buildLoopMeasure c o st < loopFuel)
    (hfair : ∀ f ∈ buildTrace c o loopFuel st, f.fair) (w : String) :
    Build.build c o loopFuel st ≠ .error (.fuel w) := by
  apply C14_build_terminates_above_cap c o loopFuel st hi hcap hinv hnone hfuel
  intro f hf
  have hfr := hfair f hf
  unfold buildTrace at hf
  split at hf
  · exact (loopTraced_fair_batch c o loopFuel _ _ _ f hf hfr).1
  · cases hf

/-! ## non-vacuity: the second build of the history of `C01Examples` (an incremental build that re-splits an
over-full bucket), run without cancellation schedule -/
namespace FairExamples
open C01 C01.Ex

def st2 : BState := { env2 with store := run ops2, cancelAt := none }

/-- the loop of that build: one round, on bucket 2 holding 3 items, a batch of 3, sides of 1 and 2 items, nothing
queued; the measure of the queue is 2 and the budget 5 -/
theorem build2_trace : buildTrace cEx oEx 5 st2 = [⟨2, 3, 3, 1, 2, []⟩] ∧ buildLoopMeasure cEx oEx st2 = 2 := by
  decide +kernel

-- from here on the concrete history is only used through the facts above
attribute [local irreducible] run

theorem st2_inv : IndexInvW cEx st2.store :=
  (C01_history_inv freshSupply ops2 ops2_wf cEx (by decide)).1

example : cEx.index < 65536 ∧ 1 ≤ Build.cap cEx oEx ∧ IndexInvW cEx st2.store ∧ st2.cancelAt = none ∧
    buildLoopMeasure cEx oEx st2 < 5 ∧ (∀ f ∈ buildTrace cEx oEx 5 st2, f.fair) ∧
    (∀ f ∈ buildTrace cEx oEx 5 st2, Build.cap cEx oEx < f.batch) := by
  refine ⟨by decide, by decide, st2_inv, rfl, ?_, ?_, ?_⟩
  · rw [build2_trace.2]; decide
  · rw [build2_trace.1]; decide
  · rw [build2_trace.1]; decide

example (w : String) : Build.build cEx oEx 5 st2 ≠ .error (.fuel w) :=
  C14_build_terminates_fair cEx oEx 5 st2 (by decide) (by decide) st2_inv rfl (by rw [build2_trace.2]; decide)
    (by rw [build2_trace.1]; decide) w

end FairExamples

end Arroy.C14

