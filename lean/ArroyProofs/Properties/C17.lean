import ArroyProofs.UpgradeWF
import ArroyProofs.WriterLaws
/-! # C17 — upgrading an old database preserves its whole content

`Upgrade.down` produces the v0.4 layout of a current-layout database (kinds renumbered in keys and in split
nodes, the updated marks folded into one bitmap per index, no version record, any metric name).
`Upgrade.up04to05` (`cosine_from_0_4_to_0_5`) brings it back key for key and value for value;
`Upgrade.stamp05to06` (`from_0_5_to_0_6`) adds a version record exactly where metadata exists. -/
namespace Arroy.C17
open Arroy Generated Store Upgrade

/-! (`WellFormedDB` — the decidable well-formedness predicate on current-layout databases — its extraction lemmas
and the write-list form of the upgrade are in `ArroyProofs/UpgradeWF.lean`.) -/

/-- what the decidable checker `WellFormedDB` checks: sorted by key; every key fits its fields; item keys hold
    leaves; tree keys hold descendants or split nodes whose children are tree nodes or items; updated keys hold
    the unit value; keys of the metadata kind are the metadata record (a cosine metadata) or the version record -/
theorem C17_wellFormed_iff (s : Store) :
    WellFormedDB s ↔ Sorted s ∧ ∀ kv ∈ s, EntrySpec kv.1 kv.2 := wellFormedDB_iff s

/-- **up ∘ down, key for key**: the upgrade of the old layout of `s` succeeds, and under every key — every item,
    every tree node with the kinds of its children, the metadata (metric name `cosine`, whatever the old name
    was), one updated mark per id of the old pending-updates bitmap — it holds exactly what `s` holds, except
    that there is no version record. -/
theorem C17_up_down (oldName : Bytes) (s : Store) (hw : WellFormedDB s) :
    ∃ s', up04to05 (down oldName s) = .ok s' ∧
      ∀ k, Store.get s' k =
        Store.get (s.filter (fun kv => !(kv.1.mode == versionKeyMode && kv.1.item == versionKeyItem))) k := by
  refine ⟨_, up_down_ok oldName hw, fun k => ?_⟩
  rw [get_upgraded oldName hw k]
  exact (get_filter_key s notVersion k).symm

/-- **up ∘ down, literally**: the upgraded database *is* `s` without its version records (same list) -/
theorem C17_up_down_eq (oldName : Bytes) (s : Store) (hw : WellFormedDB s) :
    up04to05 (down oldName s) =
      .ok (s.filter (fun kv => !(kv.1.mode == versionKeyMode && kv.1.item == versionKeyItem))) := by
  obtain ⟨s', h1, h2⟩ := C17_up_down oldName s hw
  rw [h1]
  congr 1
  apply ext_of_sorted _ (filter_sorted hw.sorted _) h2
  rw [up_down_ok oldName hw] at h1
  cases h1
  exact putAll_sorted sorted_nil _

/-- the old metric name is irrelevant; the upgraded metadata always says `cosine` -/
theorem C17_up_down_metadata (oldName : Bytes) (s : Store) (hw : WellFormedDB s) (i : Nat) (s' : Store)
    (h : up04to05 (down oldName s) = .ok s') :
    Store.get s' (Key.mkMetadata i) = Store.get s (Key.mkMetadata i) ∧
    (∀ v, Store.get s' (Key.mkMetadata i) = some v → ∃ d it r, v = .metadata cosineName d it r) ∧
    Store.get s' (Key.mkVersion i) = none := by
  rw [up_down_ok oldName hw] at h
  cases h
  rw [get_upgraded oldName hw, get_upgraded oldName hw]
  refine ⟨rfl, ?_, rfl⟩
  intro v hv
  rw [if_pos (show notVersion (Key.mkMetadata i) = true from rfl)] at hv
  rcases entryOk_meta (hw.get hv) rfl with ⟨_, h⟩ | ⟨e, _⟩
  · exact h
  · exact absurd e (show ¬ metadataKeyItem = versionKeyItem by decide)

/-- the upgraded database opens (or demands a build) exactly as the original does -/
theorem C17_up_down_open (oldName : Bytes) (s : Store) (hw : WellFormedDB s) (c : Cfg) (hi : c.index < 65536)
    (s' : Store) (h : up04to05 (down oldName s) = .ok s') :
    Reader.open c s' = Reader.open c s ∧ Writer.needBuild c s' = Writer.needBuild c s := by
  rw [C17_up_down_eq oldName s hw] at h
  cases h
  have hm : Store.prefixIter (s.filter (fun kv => !(kv.1.mode == versionKeyMode && kv.1.item == versionKeyItem)))
      c.index (some modeUpdated) = Store.prefixIter s c.index (some modeUpdated) := by
    unfold Store.prefixIter
    rw [List.filter_filter]
    apply List.filter_congr
    intro kv hkv
    cases hp : isPrefixOf (encodePrefix c.index (some modeUpdated)) (encodeKey kv.1) with
    | false => rfl
    | true =>
      have := ((isPrefix_index_mode_iff c.index modeUpdated kv.1 (hw.wf kv hkv) hi (by decide)).1 hp).2
      rw [this]; rfl
  have hg : Store.get (s.filter (fun kv => !(kv.1.mode == versionKeyMode && kv.1.item == versionKeyItem)))
      c.metaKey = Store.get s c.metaKey := by
    exact (get_filter_key s notVersion c.metaKey).trans (if_pos rfl)
  exact ⟨Writer.open_congr hm hg, Writer.needBuild_congr hm hg⟩

/-- the pending-updates bitmap of the old database is expanded into one updated mark per id, and nothing else -/
theorem C17_updated_marks (oldName : Bytes) (s : Store) (hw : WellFormedDB s) (i : Nat) (s' : Store)
    (h : up04to05 (down oldName s) = .ok s') :
    (∀ ids, Store.get (down oldName s) ⟨i, oldModeMetadata, 1⟩ = some (.desc ids) →
      IdSet.Sorted ids ∧ ∀ id, Store.get s' (Key.mkUpdated i id) = if id ∈ ids then some .unit else none) ∧
    (Store.get (down oldName s) ⟨i, oldModeMetadata, 1⟩ = none → ∀ id, Store.get s' (Key.mkUpdated i id) = none) ∧
    (∀ v, Store.get (down oldName s) ⟨i, oldModeMetadata, 1⟩ = some v → ∃ ids, v = .desc ids ∧ ids ≠ []) := by
  rw [up_down_ok oldName hw] at h
  cases h
  have hb := get_down_bitmap oldName s i
  have hmk : ∀ id, Store.get s (Key.mkUpdated i id) = if id ∈ marks i s then some .unit else none := by
    intro id
    by_cases hid : id ∈ marks i s
    · rw [if_pos hid]
      obtain ⟨v0, hv0⟩ := mem_marks_iff.1 hid
      have hg := (get_eq_some_iff hw.sorted _ _).2 hv0
      rw [entryOk_updated (hw.get hg) rfl] at hg
      exact hg
    · rw [if_neg hid]
      cases hg : Store.get s (Key.mkUpdated i id) with
      | none => rfl
      | some v => exact absurd (mem_marks_iff.2 ⟨v, mem_of_get hg⟩) hid
  have hup : ∀ id, Store.get (upgraded oldName s) (Key.mkUpdated i id) = Store.get s (Key.mkUpdated i id) := by
    intro id; rw [get_upgraded oldName hw]; exact if_pos rfl
  refine ⟨?_, ?_, ?_⟩
  · intro ids hg
    rw [show (⟨i, oldModeMetadata, 1⟩ : Key) = bitmapKey i from rfl, hb] at hg
    by_cases hm : marks i s = []
    · rw [if_pos hm] at hg; cases hg
    · rw [if_neg hm] at hg
      simp only [Option.some.injEq, Val.desc.injEq] at hg
      subst hg
      refine ⟨sorted_insertAll IdSet.sorted_nil, fun id => ?_⟩
      rw [hup, hmk]
      have : id ∈ insertAll (marks i s) [] ↔ id ∈ marks i s := by rw [mem_insertAll]; simp
      by_cases hid : id ∈ marks i s
      · rw [if_pos hid, if_pos (this.2 hid)]
      · rw [if_neg hid, if_neg (fun h => hid (this.1 h))]
  · intro hg id
    rw [show (⟨i, oldModeMetadata, 1⟩ : Key) = bitmapKey i from rfl, hb] at hg
    by_cases hm : marks i s = []
    · rw [hup, hmk, hm]; rfl
    · rw [if_neg hm] at hg; cases hg
  · intro v hg
    rw [show (⟨i, oldModeMetadata, 1⟩ : Key) = bitmapKey i from rfl, hb] at hg
    by_cases hm : marks i s = []
    · rw [if_pos hm] at hg; cases hg
    · rw [if_neg hm] at hg
      simp only [Option.some.injEq] at hg
      refine ⟨_, hg.symm, ?_⟩
      intro e
      apply hm
      cases hx : marks i s with
      | nil => rfl
      | cons a r =>
        have : a ∈ insertAll (marks i s) [] := mem_insertAll.2 (Or.inl (by rw [hx]; exact List.mem_cons_self ..))
        rw [e] at this; cases this

/-- the upgrade of *any* old-layout database whose entries are acceptable is the list of its writes, applied in
    key order to an empty database (items and tree nodes re-keyed, children of split nodes re-tagged, metadata
    renamed, bitmaps expanded) -/
theorem C17_up_writes (old : List (Key × Val)) (h : ∀ kv ∈ old, UpGood kv) :
    up04to05 old = .ok (putAll [] (old.flatMap upWrites)) := up04to05_good old h

/-! ## the version stamp -/

/-- **v0.5 → v0.6, any read and write database**: keys that are not version records are untouched; the version
    record of index `i` becomes the crate version iff the read database has a metadata record for `i` -/
theorem C17_stamp_general (read write : Store) :
    (∀ k, ¬ (k.mode = versionKeyMode ∧ k.item = versionKeyItem) →
      Store.get (stamp05to06 read write) k = Store.get write k) ∧
    (∀ i, Store.get (stamp05to06 read write) (Key.mkVersion i) =
      if (Store.get read (Key.mkMetadata i)).isSome = true
      then some (.version crateVersion.1 crateVersion.2.1 crateVersion.2.2)
      else Store.get write (Key.mkVersion i)) := by
  rw [stamp_eq]
  constructor
  · intro k hk
    apply get_putAll_of_not_mem
    intro w hw e
    obtain ⟨_, _, hw'⟩ := mem_stampWrites hw
    apply hk
    rw [← e, hw']
    exact ⟨rfl, rfl⟩
  · intro i
    have hf : Functional (read.flatMap stampWrites) := by
      intro a ha b hb _
      obtain ⟨_, _, ha'⟩ := mem_stampWrites ha
      obtain ⟨_, _, hb'⟩ := mem_stampWrites hb
      rw [ha', hb']
    by_cases hm : (Store.get read (Key.mkMetadata i)).isSome = true
    · rw [if_pos hm, get_putAll hf]
      left
      obtain ⟨v, hv⟩ := (get_isSome_iff read _).1 hm
      rw [List.mem_flatMap]
      refine ⟨_, hv, ?_⟩
      unfold stampWrites
      rw [if_pos ⟨rfl, rfl⟩]
      exact List.mem_singleton.2 rfl
    · rw [if_neg hm]
      apply get_putAll_of_not_mem
      intro w hw e
      obtain ⟨v, hv, _⟩ := mem_stampWrites hw
      apply hm
      rw [get_isSome_iff]
      have : w.1.index = i := congrArg Key.index e
      rw [this] at hv
      exact ⟨v, hv⟩

/-- **v0.5 → v0.6 in place**: a version record `crateVersion` exactly for the indexes that have a metadata
    record, every other key unchanged (an older version record of an index without metadata stays as it is) -/
theorem C17_stamp (s : Store) :
    (∀ k, ¬ (k.mode = versionKeyMode ∧ k.item = versionKeyItem) →
      Store.get (stamp05to06 s s) k = Store.get s k) ∧
    (∀ i, Store.get (stamp05to06 s s) (Key.mkVersion i) =
      if (Store.get s (Key.mkMetadata i)).isSome = true
      then some (.version crateVersion.1 crateVersion.2.1 crateVersion.2.2)
      else Store.get s (Key.mkVersion i)) := C17_stamp_general s s

theorem C17_stamp_sorted (s : Store) (hs : Sorted s) : Sorted (stamp05to06 s s) := by
  rw [stamp_eq]; exact putAll_sorted hs _

/-! ## the renumbering of kinds -/

/-- `remapMode` inverts `unmapMode` on the three kinds of the old layout (and conversely); it fails exactly on
    the bytes that are none of the three old kinds -/
theorem C17_remap_inverse :
    (∀ m, m = modeItem ∨ m = modeTree ∨ m = modeMetadata → (unmapMode m).bind remapMode = some m) ∧
    (∀ b, b = oldModeItem ∨ b = oldModeTree ∨ b = oldModeMetadata → (remapMode b).bind unmapMode = some b) ∧
    (∀ b, remapMode b = none ↔ (b ≠ oldModeItem ∧ b ≠ oldModeTree ∧ b ≠ oldModeMetadata)) := by
  refine ⟨?_, ?_, ?_⟩
  · rintro m (h | h | h) <;> subst h <;> decide
  · rintro b (h | h | h) <;> subst h <;> decide
  · intro b
    unfold remapMode
    constructor
    · intro h
      split at h
      · cases h
      · split at h
        · cases h
        · split at h
          · cases h
          · rename_i h1 h2 h3; exact ⟨h1, h2, h3⟩
    · rintro ⟨h1, h2, h3⟩
      rw [if_neg h1, if_neg h2, if_neg h3]

/-- a key whose kind is none of the three old kinds makes the upgrade fail with `CannotDecodeKeyMode`
    carrying that byte -/
theorem C17_cannot_decode_key (acc : Store) (k : Key) (v : Val) (h : remapMode k.mode = none) :
    upEntry acc (k, v) = .error (.cannotDecodeKeyMode k.mode) := by
  obtain ⟨h1, h2, h3⟩ := (C17_remap_inverse.2.2 k.mode).1 h
  unfold upEntry
  simp only
  rw [if_neg h1, if_neg h2, if_neg h3]

/-- … and so does a split node with a child of unknown kind (left child checked first) -/
theorem C17_cannot_decode_child (acc : Store) (k : Key) (l r : NodeId) (n : List Nat) (hk : k.mode = oldModeTree) :
    (remapMode l.mode = none → upEntry acc (k, .split l r n) = .error (.cannotDecodeKeyMode l.mode)) ∧
    (remapMode l.mode ≠ none → remapMode r.mode = none →
      upEntry acc (k, .split l r n) = .error (.cannotDecodeKeyMode r.mode)) := by
  have h1 : ¬ k.mode = oldModeItem := by rw [hk]; decide
  unfold upEntry
  simp only
  rw [if_neg h1, if_pos hk]
  unfold remapNode
  constructor
  · intro hl; rw [hl]; rfl
  · intro hl hr
    cases hl' : remapMode l.mode with
    | none => exact absurd hl' hl
    | some a => rw [hr]; rfl

/-- conversely `CannotDecodeKeyMode` is raised only on a byte that is none of the three old kinds -/
theorem C17_cannot_decode_only (acc : Store) (k : Key) (v : Val) (m : Nat)
    (h : upEntry acc (k, v) = .error (.cannotDecodeKeyMode m)) : remapMode m = none := by
  unfold upEntry at h
  simp only at h
  split at h
  · cases h
  · split at h
    · split at h
      · unfold remapNode at h
        rename_i l r n
        cases hl : remapMode l.mode with
        | none =>
          rw [hl] at h
          simp only [Option.map_none] at h
          cases h; exact hl
        | some a =>
          cases hr : remapMode r.mode with
          | none =>
            rw [hl, hr] at h
            simp only [Option.map_none, Option.map_some] at h
            cases h; exact hr
          | some b =>
            rw [hl, hr] at h
            simp only [Option.map_some] at h
            cases h
      · cases h
    · split at h
      · split at h
        · split at h <;> cases h
        · split at h
          · split at h <;> cases h
          · cases h
      · rename_i h1 h2 h3
        cases h
        exact (C17_remap_inverse.2.2 k.mode).2 ⟨h1, h2, h3⟩

/-! ## non-vacuity: a two-index database with split nodes having an item child on either side,
pending updates in index 0, none in index 5, a version record in index 0 only -/

def exDB : Store :=
  [ (⟨0, 0, 0⟩, .metadata cosineName 2 [1, 2, 3, 4] [0]),
    (⟨0, 0, 1⟩, .version 0 5 0),
    (⟨0, 1, 2⟩, .unit),
    (⟨0, 1, 7⟩, .unit),
    (⟨0, 2, 0⟩, .split ⟨3, 1⟩ ⟨2, 1⟩ [5, 6]),
    (⟨0, 2, 1⟩, .split ⟨2, 2⟩ ⟨3, 4⟩ [7, 8]),
    (⟨0, 2, 2⟩, .desc [2, 3]),
    (⟨0, 3, 1⟩, .leaf [9] [10, 11]),
    (⟨0, 3, 2⟩, .leaf [9] [12, 13]),
    (⟨0, 3, 3⟩, .leaf [9] [14, 15]),
    (⟨0, 3, 4⟩, .leaf [9] [16, 17]),
    (⟨5, 0, 0⟩, .metadata cosineName 2 [8, 9] [3]),
    (⟨5, 2, 3⟩, .split ⟨3, 8⟩ ⟨3, 9⟩ [1, 1]),
    (⟨5, 3, 8⟩, .leaf [9] [1, 2]),
    (⟨5, 3, 9⟩, .leaf [9] [3, 4]) ]

example : WellFormedDB exDB := by decide

/-- the old layout of the example: kinds renumbered (also inside the split nodes), one bitmap `[2, 7]` -/
example : down [111, 108, 100] exDB =
  [ (⟨0, 0, 1⟩, .leaf [9] [10, 11]),
    (⟨0, 0, 2⟩, .leaf [9] [12, 13]),
    (⟨0, 0, 3⟩, .leaf [9] [14, 15]),
    (⟨0, 0, 4⟩, .leaf [9] [16, 17]),
    (⟨0, 1, 0⟩, .split ⟨0, 1⟩ ⟨1, 1⟩ [5, 6]),
    (⟨0, 1, 1⟩, .split ⟨1, 2⟩ ⟨0, 4⟩ [7, 8]),
    (⟨0, 1, 2⟩, .desc [2, 3]),
    (⟨0, 2, 0⟩, .metadata [111, 108, 100] 2 [1, 2, 3, 4] [0]),
    (⟨0, 2, 1⟩, .desc [2, 7]),
    (⟨5, 0, 8⟩, .leaf [9] [1, 2]),
    (⟨5, 0, 9⟩, .leaf [9] [3, 4]),
    (⟨5, 1, 3⟩, .split ⟨0, 8⟩ ⟨0, 9⟩ [1, 1]),
    (⟨5, 2, 0⟩, .metadata [111, 108, 100] 2 [8, 9] [3]) ] := by decide

/-- the upgrade gives the example back, without its version record (what `C17_up_down_eq` says) -/
example : up04to05 (down [111, 108, 100] exDB) = .ok (exDB.erase ⟨0, 0, 1⟩) := rfl
example : exDB.filter (fun kv => !(kv.1.mode == versionKeyMode && kv.1.item == versionKeyItem)) =
    exDB.erase ⟨0, 0, 1⟩ := by decide

/-- the stamp adds the version record to both indexes (and overwrites the older one) -/
example : stamp05to06 exDB exDB =
    (exDB.put ⟨0, 0, 1⟩ (.version 0 6 1)).put ⟨5, 0, 1⟩ (.version 0 6 1) := by decide

/-- an unknown kind in a key or in a split node is refused -/
example : up04to05 [(⟨0, 3, 1⟩, .unit)] = .error (.cannotDecodeKeyMode 3) := rfl
example : up04to05 [(⟨0, 1, 1⟩, .split ⟨0, 1⟩ ⟨3, 1⟩ [])] = .error (.cannotDecodeKeyMode 3) := rfl

end Arroy.C17
