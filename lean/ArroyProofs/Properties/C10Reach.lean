import ArroyProofs.Properties.C01
/-! # C10 — `RootsPresent` holds in every reachable state

The C10 theorems (ArroyProofs/Properties/C10.lean) assume `RootsPresent c st.store`: if the index has
tree nodes, its metadata lists a root. It follows from the index invariant, which every history
`((add | append | del | clear)* build)*` from the empty database maintains. -/
namespace Arroy.C10
open Arroy Generated Transp BuildM

/-- the index invariant implies the hypothesis of the C10 theorems -/
theorem C10_roots_present (c : Cfg) (s : Store) (hi : c.index < 65536) (hinv : IndexInvW c s) :
    RootsPresent c s := hinv.rootsPresent hi

/-- after a successful build -/
theorem C10_roots_present_build (c : Cfg) (o : BuildOpts) (fuel : Nat) (st st' : BState)
    (hi : c.index < 65536) (hcap : 1 ≤ Build.cap c o) (hfresh : FreshSupply)
    (hinv : IndexInvW c st.store) (h : Build.build c o fuel st = .ok ((), st')) :
    RootsPresent c st'.store := by
  obtain ⟨_, _, _, _, _, hinv'⟩ := C01.C01_build_any c o fuel st st' hi hcap hfresh hinv h
  exact hinv'.rootsPresent hi

/-- preserved by the item operations (on any index) -/
theorem C10_roots_present_ops (c c' : Cfg) (s : Store) (hi : c.index < 65536) (hi' : c'.index < 65536)
    (id : Nat) (hid : id < 4294967296) (vec : List Nat) (hinv : IndexInv c s) :
    (∀ s', Writer.addItem c' s id vec = .ok s' → RootsPresent c s') ∧
    (∀ s', Writer.appendItem c' s id vec = .ok s' → RootsPresent c s') ∧
    RootsPresent c (Writer.delItem c' s id).1 ∧
    RootsPresent c (Writer.clear c' s) :=
  ⟨fun _ h => (IndexInv_add hinv hi' hid h).1.rootsPresent hi,
   fun _ h => (IndexInv_append hinv hi' hid h).1.rootsPresent hi,
   (IndexInv_del hinv hi' hid).1.rootsPresent hi,
   (IndexInv_clear hinv hi').1.rootsPresent hi⟩

/-- in every state reachable from the empty database -/
theorem C10_roots_present_history (hfresh : FreshSupply) (ops : List C01.Op) (hops : ∀ op ∈ ops, op.wf)
    (c : Cfg) (hi : c.index < 65536) : RootsPresent c (C01.run ops) :=
  (C01.C01_history_inv hfresh ops hops c hi).1.rootsPresent hi

/-- hence, on reachable states, a build that succeeds under any cancellation schedule is the
    fault-free build (`C10_transparent_ok` without its hypothesis) -/
theorem C10_transparent_ok_reachable (hfresh : FreshSupply) (ops : List C01.Op) (hops : ∀ op ∈ ops, op.wf)
    (c : Cfg) (hi : c.index < 65536) (o : BuildOpts) (fuel : Nat) (env st' : BState)
    (h : Build.build c o fuel { env with store := C01.run ops } = .ok ((), st')) :
    Build.build c o fuel (erase { env with store := C01.run ops }) = .ok ((), erase st') :=
  C10_transparent_ok c o fuel _ st' (C10_roots_present_history hfresh ops hops c hi) h

/-- and a failing build either reports the cancellation or fails the same way without it -/
theorem C10_transparent_err_reachable (hfresh : FreshSupply) (ops : List C01.Op) (hops : ∀ op ∈ ops, op.wf)
    (c : Cfg) (hi : c.index < 65536) (o : BuildOpts) (fuel : Nat) (env : BState) (e : Err)
    (h : Build.build c o fuel { env with store := C01.run ops } = .error e) :
    (∃ k, e = .cancelled k) ∨ Build.build c o fuel (erase { env with store := C01.run ops }) = .error e :=
  C10_transparent_err c o fuel _ e (C10_roots_present_history hfresh ops hops c hi) h

end Arroy.C10
