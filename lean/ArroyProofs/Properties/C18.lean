import ArroyProofs.ChangeDistance
import ArroyProofs.BuildMeta
import ArroyProofs.Properties.C05
import ArroyProofs.Properties.C06
/-! # C18 — changing the metric keeps the items and forces a rebuild

`Writer.prepareChangingDistance` (`Writer::prepare_changing_distance`): same metric — nothing happens; another
metric — the forest and the metadata record of the index go away, every leaf is re-encoded from its `f32` view at
the declared dimension, nothing else in the database moves. -/
namespace Arroy.C18
open Arroy Generated Store Writer

/-- **same metric**: nothing changes -/
theorem C18_same (c : Cfg) (s : Store) : Writer.prepareChangingDistance c c.metric s = .ok s := prepare_same c s

/-- **another metric**: the call succeeds, and
  (i) no tree node and no metadata record of the index is left, so a build is needed and no reader opens;
  (ii) the item ids are the same;
  (iii) every item is the leaf of the new metric built from the old f32 view at the declared dimension;
  (iv) the keys of the other indexes, and the updated marks and the version record of this one, are untouched;
  the result is again sorted, well-formed, with leaves under the item keys. -/
theorem C18_change (c : Cfg) (m' : Metric) (s : Store) (hne : m' ≠ c.metric) (hw : Store.WF s)
    (hs : Store.Sorted s) (hi : c.index < 65536) (hl : C05.ItemsAreLeaves c s) :
    ∃ s', Writer.prepareChangingDistance c m' s = .ok s' ∧
      ((∀ id, Store.get s' (c.treeKey id) = none) ∧ Store.get s' c.metaKey = none ∧
        (∀ c' : Cfg, c'.index = c.index →
          Writer.needBuild c' s' = true ∧ Reader.open c' s' = .error (.missingMetadata c'.index))) ∧
      (∀ id, (Store.get s' (c.itemKey id)).isSome = (Store.get s (c.itemKey id)).isSome) ∧
      (∀ id h v, Store.get s (c.itemKey id) = some (.leaf h v) →
        Store.get s' (c.itemKey id) = some (({ c with metric := m' } : Cfg).mkLeaf ((c.metric.toVec v).take c.dims))) ∧
      (∀ k, (k.index ≠ c.index ∨ k.mode = modeUpdated ∨ (k.mode = versionKeyMode ∧ k.item = versionKeyItem)) →
        Store.get s' k = Store.get s k) ∧
      Store.Sorted s' ∧ Store.WF s' ∧ C05.ItemsAreLeaves { c with metric := m' } s' := by
  refine ⟨changed c m' s, prepare_ok c m' s hne hw hi hl, ⟨?_, ?_, ?_⟩, ?_, ?_, ?_, ?_, ?_, ?_⟩
  · intro id
    have hp : isPrefixOf (encodePrefix c.index (some modeTree)) (encodeKey (c.treeKey id)) = true :=
      isPrefix_index_mode_self (c.treeKey id)
    rw [get_changed, get_clearTreeNodes, if_pos hp]; rfl
  · rw [get_changed, get_clearTreeNodes]
    split
    · rfl
    · rw [if_pos rfl]; rfl
  · intro c' hc'
    have hm : Store.get (changed c m' s) c'.metaKey = none := by
      have : c'.metaKey = c.metaKey := by unfold Cfg.metaKey; rw [hc']
      rw [this, get_changed, get_clearTreeNodes]
      split
      · rfl
      · rw [if_pos rfl]; rfl
    refine ⟨Writer.needBuild_of_noMeta hm, ?_⟩
    unfold Reader.open; rw [hm]
  · intro id
    rw [get_changed_full c m' s hw hi,
      if_neg (fun h => absurd (show modeItem = modeTree from h.2) (by decide)),
      if_neg (fun h => Cfg.metaKey_ne_itemKey c c id h.symm), if_pos ⟨rfl, rfl⟩, Option.isSome_map]
  · intro id h v hg
    rw [get_changed_full c m' s hw hi,
      if_neg (fun h => absurd (show modeItem = modeTree from h.2) (by decide)),
      if_neg (fun h => Cfg.metaKey_ne_itemKey c c id h.symm), if_pos ⟨rfl, rfl⟩, hg]
    rfl
  · intro k hk
    rw [get_changed_full c m' s hw hi]
    have n1 : ¬ (k.index = c.index ∧ k.mode = modeTree) := by
      rintro ⟨a, b⟩
      rcases hk with h | h | h
      · exact h a
      · rw [b] at h; exact absurd h (by decide)
      · rw [b] at h; exact absurd h.1 (by decide)
    have n2 : ¬ k = c.metaKey := by
      intro e
      rcases hk with h | h | h
      · exact h (by rw [e]; rfl)
      · rw [e] at h; exact absurd (show metadataKeyMode = modeUpdated from h) (by decide)
      · rw [e] at h; exact absurd (show metadataKeyItem = versionKeyItem from h.2) (by decide)
    have n3 : ¬ (k.index = c.index ∧ k.mode = modeItem) := by
      rintro ⟨a, b⟩
      rcases hk with h | h | h
      · exact h a
      · rw [b] at h; exact absurd h (by decide)
      · rw [b] at h; exact absurd h.1 (by decide)
    rw [if_neg n1, if_neg n2, if_neg n3]
  · exact map_val_sorted (clearTreeNodes_sorted hs) _
  · exact map_val_wf (clearTreeNodes_wf hw) _
  · intro kv hkv hidx hmode
    obtain ⟨⟨k, v⟩, hy, rfl⟩ := List.mem_map.1 hkv
    have hm := mem_clearTreeNodes hy
    simp only at hidx hmode ⊢
    have hidx' : k.index = c.index := hidx
    have hv := hl (k, v) hm hidx' hmode
    obtain ⟨hd, vec, rfl⟩ := (C05.isLeaf_iff v).1 hv
    have hp : underItems c k = true := (underItems_iff c k (hw _ hm) hi).2 ⟨hidx', hmode⟩
    simp only [reencAt, hp, if_true, reencVal]
    rfl

/-- without the invariant the model reports the `unreachable!` of the real code as an error -/
theorem C18_change_panics (c : Cfg) (m' : Metric) (s : Store) (hne : m' ≠ c.metric) (id : Nat) (v : Val)
    (hg : Store.get s (c.itemKey id) = some v) (hv : C05.isLeaf v = false) :
    ∃ e, Writer.prepareChangingDistance c m' s = .error e := by
  unfold Writer.prepareChangingDistance
  rw [if_neg hne]
  apply reencode_err
  refine ⟨(c.itemKey id, v), ?_, underItems_itemKey c id, hv⟩
  apply mem_of_get
  rw [get_clearTreeNodes]
  have h1 : ¬ isPrefixOf (encodePrefix c.index (some modeTree)) (encodeKey (c.itemKey id)) = true := by
    rw [isPrefix_index_mode]
    have : (be 1 modeTree == be 1 (c.itemKey id).mode) = false := by
      show (be 1 modeTree == be 1 modeItem) = false
      decide
    rw [this, Bool.and_false]; exact Bool.false_ne_true
  rw [if_neg h1, if_neg (fun h => Cfg.metaKey_ne_itemKey c c id h.symm)]
  exact hg

/-! ## what "re-encoded" means, by kind of metric -/

/-- **f32 → f32**: the stored words of a vector of the declared dimension are kept bit for bit
    (only the header is recomputed for the new metric) -/
theorem C18_f32_to_f32 (c : Cfg) (m' : Metric) (v : List Nat) (h1 : c.metric.isBq = false) (h2 : m'.isBq = false)
    (hv : v.length = c.dims) :
    ({ c with metric := m' } : Cfg).mkLeaf ((c.metric.toVec v).take c.dims) = .leaf (m'.newHeader c.host v) v := by
  have : (c.metric.toVec v).take c.dims = v := by
    unfold Metric.toVec
    rw [h1, ← hv]
    simp
  rw [this]
  unfold Cfg.mkLeaf Metric.fromSlice
  simp only [h2]
  rfl

/-- **into a quantised metric**: the stored words are the sign bits of the f32 view, packed 64 per word -/
theorem C18_to_bq (c : Cfg) (m' : Metric) (v : List Nat) (h2 : m'.isBq = true) :
    ({ c with metric := m' } : Cfg).mkLeaf ((c.metric.toVec v).take c.dims) =
      .leaf (m'.newHeader c.host (BQ.pack ((c.metric.toVec v).take c.dims))) (BQ.pack ((c.metric.toVec v).take c.dims)) := by
  unfold Cfg.mkLeaf Metric.fromSlice
  simp only [h2]
  rfl

/-- **out of a quantised metric**: the f32 view is the first `dims` sign bits as ±1.0 — exactly the declared
    dimension when the stored words cover it, never the padding of the last word (repair F) -/
theorem C18_from_bq (c : Cfg) (v : List Nat) (h1 : c.metric.isBq = true) :
    (c.metric.toVec v).take c.dims = (BQ.unpack v).take c.dims ∧
    ((c.metric.toVec v).take c.dims).length = min c.dims (64 * v.length) ∧
    (∀ x ∈ (c.metric.toVec v).take c.dims, x = F32.one ∨ x = F32.negOne) := by
  have e : c.metric.toVec v = BQ.unpack v := by unfold Metric.toVec; rw [h1]; rfl
  rw [e]
  refine ⟨rfl, ?_, ?_⟩
  · rw [List.length_take, bqUnpack_length]; rfl
  · intro x hx
    exact mem_bqUnpack (List.mem_of_mem_take hx)

/-- the stored words after a change between two quantised metrics: re-packed from the unpacked view -/
theorem C18_bq_to_bq (c : Cfg) (m' : Metric) (v : List Nat) (h1 : c.metric.isBq = true) (h2 : m'.isBq = true) :
    ({ c with metric := m' } : Cfg).mkLeaf ((c.metric.toVec v).take c.dims) =
      .leaf (m'.newHeader c.host (BQ.pack ((BQ.unpack v).take c.dims))) (BQ.pack ((BQ.unpack v).take c.dims)) := by
  rw [C18_to_bq c m' v h2, (C18_from_bq c v h1).1]

/-- **after a later build under the new metric** (which writes the metadata with the new metric's name), the
    index refuses to open under the old metric — with the distance error, before any other check -/
theorem C18_old_metric_refused (c : Cfg) (m' : Metric) (s : Store) (dims : Nat) (items roots : List Nat)
    (hne : m' ≠ c.metric)
    (hg : Store.get s c.metaKey = some (.metadata m'.nameBytes dims items roots)) :
    Reader.open c s = .error (.unmatchingDistance m'.nameBytes c.metric.nameBytes) :=
  C06.C06_wrong_metric c s m' dims items roots hg (Ne.symm hne)

/-- the same with the build itself: whatever database a successful `Build.build` under the new metric `m'`
    ends with, the old metric `c.metric` is refused there -/
theorem C18_old_metric_refused_after_build (c : Cfg) (m' : Metric) (o : BuildOpts) (fuel : Nat) (st st' : BState)
    (hne : m' ≠ c.metric) (hb : Build.build { c with metric := m' } o fuel st = .ok ((), st')) :
    Reader.open c st'.store = .error (.unmatchingDistance m'.nameBytes c.metric.nameBytes) := by
  obtain ⟨items, roots, hg⟩ := Build.build_metaNamed hb
  exact C18_old_metric_refused c m' st'.store c.dims items roots hne hg

/-! ## non-vacuity: index 7 (built, one pending update, a version record) between indexes 3 and 9 -/

def c0 : Cfg := { index := 7, metric := .euclidean, dims := 2 }
def cBq : Cfg := { c0 with metric := .bqEuclidean }

/-- `1065353216 = 1.0`, `3212836864 = -1.0` -/
def s0 : Store :=
  [ (⟨3, 0, 0⟩, .metadata Metric.euclidean.nameBytes 2 [1] [0]),
    (⟨3, 2, 0⟩, .desc [1]),
    (⟨3, 3, 1⟩, .leaf [0] [1065353216, 3212836864]),
    (⟨7, 0, 0⟩, .metadata Metric.euclidean.nameBytes 2 [4, 5] [0]),
    (⟨7, 0, 1⟩, .version 0 6 1),
    (⟨7, 1, 5⟩, .unit),
    (⟨7, 2, 0⟩, .split ⟨3, 4⟩ ⟨2, 1⟩ [1065353216, 0]),
    (⟨7, 2, 1⟩, .desc [5]),
    (⟨7, 3, 4⟩, .leaf [0] [1065353216, 3212836864]),
    (⟨7, 3, 5⟩, .leaf [0] [3212836864, 3212836864]),
    (⟨9, 3, 4⟩, .leaf [0] [1, 2]) ]

/-- what the change to the quantised metric leaves: no forest, no metadata, one sign word per item -/
def s1 : Store :=
  [ (⟨3, 0, 0⟩, .metadata Metric.euclidean.nameBytes 2 [1] [0]),
    (⟨3, 2, 0⟩, .desc [1]),
    (⟨3, 3, 1⟩, .leaf [0] [1065353216, 3212836864]),
    (⟨7, 0, 1⟩, .version 0 6 1),
    (⟨7, 1, 5⟩, .unit),
    (⟨7, 3, 4⟩, .leaf [0] [1]),
    (⟨7, 3, 5⟩, .leaf [0] [0]),
    (⟨9, 3, 4⟩, .leaf [0] [1, 2]) ]

example : Store.WF s0 := by unfold Store.WF; decide
example : Store.Sorted s0 := by decide
example : C05.ItemsAreLeaves c0 s0 := by unfold C05.ItemsAreLeaves; decide
example : c0.index < 65536 := by decide
example : Metric.bqEuclidean ≠ c0.metric ∧ Metric.manhattan ≠ c0.metric := by decide
example : Writer.prepareChangingDistance c0 .bqEuclidean s0 = .ok s1 := by
  refine (prepare_ok c0 .bqEuclidean s0 (by decide) (by unfold Store.WF; decide) (by decide)
    (by unfold C05.ItemsAreLeaves; decide)).trans (congrArg Except.ok ?_)
  show [(_, _), (_, _), (_, _), (_, _), (_, _),
    ((⟨7, 3, 4⟩ : Key), Val.leaf _ (BQ.pack [1065353216, 3212836864])),
    ((⟨7, 3, 5⟩ : Key), Val.leaf _ (BQ.pack [3212836864, 3212836864])), (_, _)] = s1
  rw [bqPack_short _ (by simp) (by decide), bqPack_short _ (by simp) (by decide)]
  rfl
example : Writer.needBuild cBq s1 = true ∧ Reader.open cBq s1 = .error (.missingMetadata 7) := ⟨rfl, rfl⟩
/-- f32 → f32: the words stay -/
example : Writer.prepareChangingDistance c0 .manhattan s0 =
    .ok ((s0.erase ⟨7, 0, 0⟩).deletePrefix 7 (some modeTree)) := rfl
/-- and back from the quantised metric: ±1.0 at the declared dimension 2, not 64 components -/
example : C05.ItemsAreLeaves cBq s1 ∧ Store.WF s1 ∧ Store.Sorted s1 := by
  refine ⟨by unfold C05.ItemsAreLeaves; decide, by unfold Store.WF; decide, by decide⟩
example : Writer.prepareChangingDistance cBq .euclidean s1 =
    .ok ((s0.erase ⟨7, 0, 0⟩).deletePrefix 7 (some modeTree)) := rfl
example : cBq.metric.isBq = true ∧ (cBq.metric.toVec [1]).take cBq.dims = [F32.one, F32.negOne] := ⟨rfl, rfl⟩
example : c0.metric.isBq = false ∧ Metric.manhattan.isBq = false ∧ [1065353216, 3212836864].length = c0.dims := by
  decide
/-- a tree node under an item key: the model reports the panic -/
example : ∃ e, Writer.prepareChangingDistance c0 .manhattan [(⟨7, 3, 4⟩, .desc [1])] = .error e := ⟨_, rfl⟩
/-- after a build under the new metric the old one is refused -/
example : Reader.open c0 (s1.put cBq.metaKey (.metadata Metric.bqEuclidean.nameBytes 2 [4, 5] [0])) =
    .error (.unmatchingDistance Metric.bqEuclidean.nameBytes Metric.euclidean.nameBytes) := rfl

/-- the build under the new metric on the changed database succeeds (hypothesis of
    `C18_old_metric_refused_after_build`), after which the new metric opens and the old one is refused -/
example : ∃ st', Build.build cBq {} 10 { store := s1 } = .ok ((), st') ∧
    Reader.open cBq st'.store = .ok ⟨[0], 2, [4, 5]⟩ ∧
    Reader.open c0 st'.store =
      .error (.unmatchingDistance Metric.bqEuclidean.nameBytes Metric.euclidean.nameBytes) := ⟨_, rfl, rfl, rfl⟩

end Arroy.C18
