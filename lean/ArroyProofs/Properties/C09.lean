import ArroyProofs.Properties.C08
/-! # C09 — a crash leaves the last committed index intact

Over the trusted model of the LMDB environment: a crash at any point of any event sequence loses
the open transactions and nothing else. That LMDB implements this (copy-on-write pages, a commit
that has returned is durable) is assumed; arroy's own part — it keeps no state outside the
database that a reopened environment would need — is what the kill-and-reopen runs validate. -/
namespace Arroy.C09
open Arroy Env

/-- **C09**: after a crash at ANY point, the environment shows exactly the last committed version;
    no write transaction and no reader survive. -/
theorem C09_crash (e : Env) (evs : List Event) :
    let e' := (e.run evs).step .crash
    e'.committed = (e.run evs).committed ∧ e'.history = (e.run evs).history ∧ e'.writer = none ∧ e'.readers = [] := by
  simp [step, committed]

/-- the committed version at the crash is the state of the last transaction whose commit returned:
    operations of an open (uncommitted) transaction never reach it -/
theorem C09_uncommitted_lost (e : Env) (ops : List (Store → Store)) (hw : e.writer = none) :
    (((e.step .beginW).run (ops.map Event.write)).step .crash).committed = e.committed := by
  have key : ∀ (e1 : Env) (ops : List (Store → Store)),
      (e1.run (ops.map Event.write)).history = e1.history := by
    intro e1 ops
    induction ops generalizing e1 with
    | nil => rfl
    | cons f fs ih =>
      simp only [List.map_cons, run, List.foldl_cons]
      have := ih (e1.step (.write f))
      simpa [run, step] using this
  have hb : (e.step .beginW).history = e.history := by simp [step, hw]
  have hc : ∀ x : Env, (x.step .crash).committed = x.committed := fun _ => rfl
  rw [hc]
  unfold committed
  rw [key, hb]

/-- a crash right after a commit returned keeps that commit -/
theorem C09_committed_kept (e : Env) (s : Store) (hw : e.writer = some s) :
    ((e.step .commit).step .crash).committed = s := by
  simp [step, hw, committed]

/-- restarting after a crash: a new write transaction starts from the last committed version -/
theorem C09_restart (e : Env) (evs : List Event) :
    (((e.run evs).step .crash).step .beginW).writer = some (e.run evs).committed := by
  simp [step, committed]

example :
    let e0 : Env := {}
    let w1 : Store → Store := fun s => s.put ⟨0, 3, 1⟩ .unit
    let w2 : Store → Store := fun s => s.put ⟨0, 3, 2⟩ .unit
    (e0.run [.beginW, .write w1, .commit, .beginW, .write w2, .crash]).committed = [(⟨0, 3, 1⟩, .unit)] := by
  decide

end Arroy.C09
