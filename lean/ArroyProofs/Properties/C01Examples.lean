import ArroyProofs.Properties.C01Checker
import ArroyProofs.Properties.C15Build
import ArroyProofs.Properties.C04Build
import ArroyProofs.Properties.C10Reach
/-! Non-vacuity of the C01 / C04 / C10 / C15 build theorems: a concrete two-round history
(Euclidean, dimension 2, `n_trees = 1`, `split_after = 2`) whose builds succeed. Round 1 builds five
items into a tree with two splits and a single-item child; round 2 adds an item, deletes one, and
the build re-splits the bucket that overflows (subtree root remapped onto the bucket id). -/
namespace Arroy.C01.Ex
open Arroy Generated Transp C01

def cEx : Cfg := { index := 0, metric := .euclidean, dims := 2 }
def oEx : BuildOpts := { nTrees := some 1, splitAfter := some 2 }
/-- f32 bit patterns: 1, 2, 3, -1, -2, 2.5, -1.5 -/
def f1 : Nat := 1065353216
def f2 : Nat := 1073741824
def f3 : Nat := 1077936128
def fm1 : Nat := 3212836864
def fm2 : Nat := 3221225472
def f25 : Nat := 1075838976
def fm15 : Nat := 3217031168
/-- oracle streams of the two builds (normals, random sides, batch lengths) -/
def env1 : BState := { store := [], normals := [[f1, 0], [0, f1]], rands := [], batches := [5] }
def env2 : BState := { store := [], normals := [[f1, fm15]], rands := [], batches := [1, 3], cancelAt := some 1000 }
def ops1 : List Op :=
  [.add cEx 0 [fm2, 0], .add cEx 1 [fm1, 0], .add cEx 2 [f1, fm1], .add cEx 3 [f2, f1], .add cEx 4 [f3, f1],
   .build cEx oEx 5 env1]
def ops2 : List Op := ops1 ++ [.add cEx 5 [f25, f2], .del cEx 0]

instance (op : Op) : Decidable op.wf := by
  cases op <;> unfold Op.wf <;> infer_instance

def isOk : Except Err (Unit × BState) → Bool
  | .ok _ => true
  | .error _ => false

theorem ops2_wf : ∀ op ∈ ops2, op.wf := by decide
theorem build2_wf : (Op.build cEx oEx 5 env2).wf := by decide

/-- the state before the second build: items 1..5 stored, a forest of four nodes, two marks -/
theorem before2 : (run ops2).keysOf 0 modeItem = [1, 2, 3, 4, 5] ∧ (run ops2).keysOf 0 modeTree = [0, 1, 2, 3] ∧
    (run ops2).keysOf 0 modeUpdated = [0, 5] ∧ rootsOf cEx (run ops2) = [0] := by decide +kernel

theorem build2_ok : isOk (Build.build cEx oEx 5 { env2 with store := run ops2 }) = true := by decide +kernel

theorem build2_result : ∃ st', Build.build cEx oEx 5 { env2 with store := run ops2 } = .ok ((), st') := by
  have h := build2_ok
  cases hb : Build.build cEx oEx 5 { env2 with store := run ops2 } with
  | ok r => exact ⟨r.2, rfl⟩
  | error e => rw [hb] at h; cases h

/-- the second build is on the main path (more items than one bucket holds) -/
theorem big2 : fits (Build.cap cEx oEx) ((run ops2).keysOf cEx.index modeItem).length = false := by decide +kernel

theorem before2_ok : (Check.capacityOk cEx (run ops2) (Build.cap cEx oEx)).isEmpty = true ∧
    (Check.routed cEx (run ops2)).isEmpty = true := by
  decide +kernel

/-- the forest after the second build (`#eval Check.forestValid …` gives `[]`; `IdSet.ofList` uses
    `List.mergeSort`, which the kernel cannot unfold, so only the trees are checked by `decide`) -/
theorem after2_ok :
    Check.trees cEx (run (ops2 ++ [.build cEx oEx 5 env2])) =
      [.node 0 [f1, 0] (.bucket 1 [1]) (.node 3 [0, f1] (.leaf 2) (.node 2 [f1, fm15] (.leaf 5) (.bucket 4 [3, 4])))] := by
  decide +kernel

def oLeaf : BuildOpts := { splitAfter := some 10 }
theorem single_ok : isOk (Build.build cEx oLeaf 0 { store := run ops2 }) = true ∧
    fits (Build.cap cEx oLeaf) ((run ops2).keysOf cEx.index modeItem).length = true := by decide +kernel

-- from here on the concrete history is only used through the facts above
attribute [local irreducible] run

/-- `C01_history` / `C01_build` apply to it: the hypotheses are satisfiable on an incremental build
    with deletion, insertion and re-split -/
example (hfresh : FreshSupply) : ∃ st' roots ts,
    Build.build cEx oEx 5 { env2 with store := run ops2 } = .ok ((), st') ∧
    Forest cEx st'.store roots [1, 2, 3, 4, 5] ts ∧ roots ≠ [] ∧ IndexInv cEx (run ops2) := by
  obtain ⟨st', h⟩ := build2_result
  obtain ⟨_, roots, ts, _, hf, hne, _⟩ := C01_history hfresh ops2 ops2_wf cEx oEx 5 env2 st' build2_wf h
  rw [show (run ops2).keysOf cEx.index modeItem = [1, 2, 3, 4, 5] from before2.1] at hf hne
  exact ⟨st', roots, ts, h, hf, hne (by simp), C01_history_inv hfresh ops2 ops2_wf cEx (by decide)⟩

/-- `C01_checker_history`, and the checker really runs on this state -/
example (hfresh : FreshSupply) : Check.forestValid cEx (run (ops2 ++ [.build cEx oEx 5 env2])) = [] := by
  obtain ⟨st', h⟩ := build2_result
  exact C01_checker_history hfresh ops2 ops2_wf cEx oEx 5 env2 st' build2_wf h

/-- `C15_root_count`: one tree was requested -/
example (hfresh : FreshSupply) : ∃ st', Build.build cEx oEx 5 { env2 with store := run ops2 } = .ok ((), st') ∧
    (rootsOf cEx st'.store).length = 1 := by
  obtain ⟨st', h⟩ := build2_result
  have hinv := (C01_history_inv hfresh ops2 ops2_wf cEx (by decide)).1
  exact ⟨st', h, (C15.C15_root_count cEx oEx 5 _ st' (by decide) (by decide) hfresh hinv h big2).2.2 1 rfl⟩

/-- `C15_capacity` and `C04_routed`: their hypotheses hold of the forest before the second build
    (capacity 2 respected; routed w.r.t. the stored vectors — item 5, whose mark is set, is not yet in
    any tree) -/
example (hfresh : FreshSupply) : ∃ st', Build.build cEx oEx 5 { env2 with store := run ops2 } = .ok ((), st') ∧
    Check.capacityOk cEx st'.store (Build.cap cEx oEx) = [] ∧ Check.routed cEx st'.store = [] := by
  obtain ⟨st', h⟩ := build2_result
  have hinv := (C01_history_inv hfresh ops2 ops2_wf cEx (by decide)).1
  have h0 : Check.capacityOk cEx (run ops2) (Build.cap cEx oEx) = [] ∧ Check.routed cEx (run ops2) = [] :=
    ⟨List.isEmpty_iff.1 before2_ok.1, List.isEmpty_iff.1 before2_ok.2⟩
  exact ⟨st', h, C15.C15_capacity_checker cEx oEx 5 _ st' (by decide) (by decide) hfresh hinv h h0.1,
    C04.C04_routed_checker cEx oEx 5 _ st' (by decide) (by decide) hfresh hinv h h0.2⟩

/-- `C15_single`: with `split_after = 10` the same items fit one bucket -/
example (hfresh : FreshSupply) : ∃ st', Build.build cEx oLeaf 0 { store := run ops2 } = .ok ((), st') ∧
    Check.trees cEx st'.store = [.bucket 0 [1, 2, 3, 4, 5]] := by
  have hok := single_ok
  cases hb : Build.build cEx oLeaf 0 { store := run ops2 } with
  | error e => rw [hb] at hok; cases hok.1
  | ok r =>
    obtain ⟨u, st'⟩ := r
    have hinv := (C01_history_inv hfresh ops2 ops2_wf cEx (by decide)).1
    have := (C15.C15_single cEx oLeaf 0 { store := run ops2 } st' (by decide) (by decide) hfresh hinv hb hok.2).2
    rw [show (run ops2).keysOf cEx.index modeItem = [1, 2, 3, 4, 5] from before2.1] at this
    exact ⟨st', rfl, this⟩

/-- `C10_transparent_ok_reachable`: the second build runs under a cancellation schedule (`some 1000`) -/
example (hfresh : FreshSupply) : ∃ st', Build.build cEx oEx 5 (erase { env2 with store := run ops2 }) = .ok ((), erase st') := by
  obtain ⟨st', h⟩ := build2_result
  exact ⟨st', C10.C10_transparent_ok_reachable hfresh ops2 ops2_wf cEx (by decide) oEx 5 env2 st' h⟩

/-- `C15_capacity_history` and `C04_history`: their side conditions on the history hold -/
theorem ops2_cap : ∀ op ∈ ops2 ++ [Op.build cEx oEx 5 env2], C15.capIs cEx 2 op := by
  intro op hop
  simp only [ops2, ops1, List.mem_append, List.mem_cons, List.not_mem_nil, or_false] at hop
  rcases hop with ((rfl | rfl | rfl | rfl | rfl | rfl) | (rfl | rfl)) | rfl <;>
    first | trivial | (intro _; rfl)

theorem ops2_same : ∀ op ∈ ops2, C04.sameCfg cEx op := by
  intro op hop
  simp only [ops2, ops1, List.mem_append, List.mem_cons, List.not_mem_nil, or_false] at hop
  rcases hop with (rfl | rfl | rfl | rfl | rfl | rfl) | (rfl | rfl) <;>
    first | trivial | (intro _; rfl)

example (hfresh : FreshSupply) : Check.capacityOk cEx (run (ops2 ++ [Op.build cEx oEx 5 env2])) 2 = [] := by
  apply C15.C15_capacity_history_checker hfresh cEx (by decide) 2 _ _ ops2_cap
  intro op hop
  rcases List.mem_append.1 hop with h | h
  · exact ops2_wf op h
  · simp only [List.mem_singleton] at h; subst h; exact build2_wf

example (hfresh : FreshSupply) : ∃ st', Build.build cEx oEx 5 { env2 with store := run ops2 } = .ok ((), st') ∧
    Check.routed cEx st'.store = [] := by
  obtain ⟨st', h⟩ := build2_result
  exact ⟨st', h, (C04.C04_history hfresh cEx ops2 ops2_wf ops2_same oEx 5 env2 st' build2_wf h).2⟩

end Arroy.C01.Ex
