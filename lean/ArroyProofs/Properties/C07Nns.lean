import ArroyProofs.TraverseFuel
import ArroyProofs.Properties.C07
import ArroyProofs.Properties.Reachable
/-! # C07 — the query answers of another index are unchanged

`nns_by_leaf` of the model runs its traversal with the fuel `2 * s.length + rd.roots.length + 2`, a
function of the **whole** store: an operation on index `i` changes the fuel of a query on index `j`.
Here: the fuel is irrelevant once it is sufficient (`C07_fuel_mono`, `C07_fuel_irrelevant`), the reader
reads only keys of its own index (`C07_nns_local`), hence whatever happened to index `i`, every query
(`nns_by_leaf`, `by_vector`, `by_item`; any count, budget, oversampling, filter) on a valid forest of
another index answers the same (`C07_answers_nns`), in particular after a build of `i`
(`C07_answers_build_nns`) and after any sequence of operations and builds on other indexes
(`C07_answers_nns_history`, `C07_answers_nns_reachable`). -/
namespace Arroy.C07
open Arroy Generated Reader

/-! ## fuel -/

/-- **fuel monotonicity**: a traversal that returns `.ok out` returns the same `.ok out` with any larger fuel
    (any store, any queue: no hypothesis) -/
theorem C07_fuel_mono (c : Cfg) (s : Store) (qv : List Nat) (q : QueryOpts) (searchK fuel fuel' : Nat)
    (queue : List (Nat × NodeId)) (nns out : List Nat)
    (h : traverse c s qv q searchK fuel queue nns = .ok out) (hf : fuel ≤ fuel') :
    traverse c s qv q searchK fuel' queue nns = .ok out :=
  traverse_fuel_mono c s qv q searchK fuel queue nns out h fuel' hf

/-- **fuel irrelevance**: two successful traversals from the same state agree whatever their fuels -/
theorem C07_fuel_irrelevant (c : Cfg) (s : Store) (qv : List Nat) (q : QueryOpts) (searchK f₁ f₂ : Nat)
    (queue : List (Nat × NodeId)) (nns out₁ out₂ : List Nat)
    (h₁ : traverse c s qv q searchK f₁ queue nns = .ok out₁)
    (h₂ : traverse c s qv q searchK f₂ queue nns = .ok out₂) : out₁ = out₂ :=
  traverse_fuel_irrelevant c s qv q searchK f₁ f₂ queue nns out₁ out₂ h₁ h₂

/-! ## locality -/

/-- the dump form of isolation makes every `get` on a key of another index equal -/
theorem C07_sameIndex {i : Nat} {s s' : Store} (h : OtherSame i s s') (c' : Cfg) (hi' : c'.index < 65536)
    (hne : c'.index ≠ i) : SameIndex c' s s' :=
  fun _ _ => C07_get_other h _ (by rw [Nat.mod_eq_of_lt hi']; exact hne)

/-- **the reader is local**: with the same fuel, the traversal and the scoring pass on two stores that
    agree on the keys of index `c.index` are the same computation (same result, same error) -/
theorem C07_nns_local (c : Cfg) {s s' : Store} (hs : SameIndex c s s') (qh qv : List Nat) (q : QueryOpts)
    (searchK fuel : Nat) (queue : List (Nat × NodeId)) (nns ids : List Nat) :
    traverse c s' qv q searchK fuel queue nns = traverse c s qv q searchK fuel queue nns ∧
    scoreAll c s' qh qv ids = scoreAll c s qh qv ids :=
  ⟨traverse_congr c hs qv q searchK fuel queue nns, scoreAll_congr c hs qh qv ids⟩

/-- `ForestOK` only mentions keys of its own index -/
theorem C07_forest_local (c : Cfg) {s s' : Store} (hs : SameIndex c s s') (rd : ReaderState)
    (F : ForestOK c s rd) : ForestOK c s' rd := F.congr hs

/-! ## what the other index answers to queries -/

/-- **C07 (query answers)**: whatever happened to index `i` (any `s'` with the same dump outside `i`: one
    operation or build on `i`, or any sequence of them), a reader of another index `c'` whose forest is
    valid in `s` opens the same, still has a valid forest, and answers every query the same:
    `nns_by_leaf`, `by_vector`, `by_item`, for every query leaf, count, budget, oversampling and filter
    — although the traversal fuel of the model depends on the number of entries of the whole store. -/
theorem C07_answers_nns {i : Nat} {s s' : Store} (h : OtherSame i s s') (c' : Cfg) (hi' : c'.index < 65536)
    (hne : c'.index ≠ i) (rd : ReaderState) (F : ForestOK c' s rd) :
    Reader.open c' s' = Reader.open c' s ∧
    ForestOK c' s' rd ∧
    (∀ (qh qv : List Nat) (q : QueryOpts), nnsByLeaf c' s' rd qh qv q = nnsByLeaf c' s rd qh qv q) ∧
    (∀ (vec : List Nat) (q : QueryOpts), byVector c' s' rd vec q = byVector c' s rd vec q) ∧
    (∀ (id : Nat) (q : QueryOpts), byItem c' s' rd id q = byItem c' s rd id q) := by
  have hs := C07_sameIndex h c' hi' hne
  have hn : ∀ (qh qv : List Nat) (q : QueryOpts), nnsByLeaf c' s' rd qh qv q = nnsByLeaf c' s rd qh qv q :=
    fun qh qv q => nnsByLeaf_congr_of_forest c' hs rd F qh qv q
  refine ⟨(C07_answers h c' hi' hne).2.2.2.2.2, F.congr hs, hn, ?_, ?_⟩
  · intro vec q; unfold byVector; rw [hn]
  · intro id q; unfold byItem; rw [(C07_answers h c' hi' hne).1 id]
    cases Writer.itemLeaf c' s id with
    | none => rfl
    | some p => simp only [hn]

/-- without any hypothesis on the forest: an answer `nns_by_leaf` gives on `s` is given on every `s'`
    with the same dump outside `i` that has at least as many entries (a failed query may only turn
    from a fuel error into an answer) -/
theorem C07_answers_nns_of_ok {i : Nat} {s s' : Store} (h : OtherSame i s s') (c' : Cfg)
    (hi' : c'.index < 65536) (hne : c'.index ≠ i) (hlen : s.length ≤ s'.length) (rd : ReaderState)
    (qh qv : List Nat) (q : QueryOpts) (ans : List (Nat × Nat))
    (hq : nnsByLeaf c' s rd qh qv q = .ok ans) : nnsByLeaf c' s' rd qh qv q = .ok ans :=
  nnsByLeaf_congr_of_ok c' (C07_sameIndex h c' hi' hne) hlen rd qh qv q ans hq

/-- the corollary for a successful build of `c` (any options, oracle streams, cancellation point):
    every query on a valid forest of another index of the same database answers as before -/
theorem C07_answers_build_nns (c c' : Cfg) (hi : c.index < 65536) (hi' : c'.index < 65536)
    (hne : c'.index ≠ c.index) (o : BuildOpts) (fuel : Nat) (st st' : BState)
    (h : Build.build c o fuel st = .ok ((), st')) (rd : ReaderState) (F : ForestOK c' st.store rd) :
    Reader.open c' st'.store = Reader.open c' st.store ∧
    ForestOK c' st'.store rd ∧
    (∀ (qh qv : List Nat) (q : QueryOpts),
      nnsByLeaf c' st'.store rd qh qv q = nnsByLeaf c' st.store rd qh qv q) ∧
    (∀ (vec : List Nat) (q : QueryOpts), byVector c' st'.store rd vec q = byVector c' st.store rd vec q) ∧
    (∀ (id : Nat) (q : QueryOpts), byItem c' st'.store rd id q = byItem c' st.store rd id q) :=
  C07_answers_nns (C07_dump_build c hi o fuel st st' h) c' hi' hne rd F

/-! ## over histories -/

/-- the index an operation of a history works on -/
def opIndex : C01.Op → Nat
  | .add c _ _ => c.index
  | .append c _ _ => c.index
  | .del c _ => c.index
  | .clear c => c.index
  | .build c _ _ _ => c.index
  | .prepare c _ => c.index

/-- one step of a history (a failed operation is a no-op) keeps the dump of every other index -/
theorem C07_dump_step (s : Store) (op : C01.Op) (hop : op.wf) : OtherSame (opIndex op) s (C01.step s op) := by
  cases op with
  | add c id vec =>
    simp only [C01.step, opIndex]
    cases h : Writer.addItem c s id vec with
    | ok s' => exact C07_dump_add c hop.1 s s' id vec h
    | error e => exact (OtherSame.storeRel _).refl s
  | append c id vec =>
    simp only [C01.step, opIndex]
    cases h : Writer.appendItem c s id vec with
    | ok s' => exact C07_dump_append c hop.1 s s' id vec h
    | error e => exact (OtherSame.storeRel _).refl s
  | del c id => exact C07_dump_del c hop.1 s id
  | clear c => exact C07_dump_clear c hop s
  | build c o fuel env =>
    simp only [C01.step, opIndex]
    cases h : Build.build c o fuel { env with store := s } with
    | error e => exact (OtherSame.storeRel _).refl s
    | ok r =>
      obtain ⟨u, st'⟩ := r
      exact C07_dump_build c hop.1 o fuel { env with store := s } st' h
  | prepare c m' =>
    simp only [C01.step, opIndex]
    cases h : Writer.prepareChangingDistance c m' s with
    | ok s' => exact C07_dump_prepare c hop m' s s' h
    | error e => exact (OtherSame.storeRel _).refl s

/-- **C07 (query answers, over histories)**: any sequence of operations, metric changes and builds (successful,
    failed or cancelled) on indexes other than `c'.index` leaves `Reader::open` and every query of `c'` unchanged,
    when the forest of `c'` is valid in the starting state. -/
theorem C07_answers_nns_history (c' : Cfg) (hi' : c'.index < 65536) (ops : List C01.Op)
    (hops : ∀ op ∈ ops, op.wf) (hother : ∀ op ∈ ops, c'.index ≠ opIndex op)
    (s : Store) (rd : ReaderState) (F : ForestOK c' s rd) :
    Reader.open c' (ops.foldl C01.step s) = Reader.open c' s ∧
    ForestOK c' (ops.foldl C01.step s) rd ∧
    (∀ (qh qv : List Nat) (q : QueryOpts),
      nnsByLeaf c' (ops.foldl C01.step s) rd qh qv q = nnsByLeaf c' s rd qh qv q) ∧
    (∀ (vec : List Nat) (q : QueryOpts),
      byVector c' (ops.foldl C01.step s) rd vec q = byVector c' s rd vec q) ∧
    (∀ (id : Nat) (q : QueryOpts), byItem c' (ops.foldl C01.step s) rd id q = byItem c' s rd id q) := by
  induction ops generalizing s with
  | nil => exact ⟨rfl, F, fun _ _ _ => rfl, fun _ _ => rfl, fun _ _ => rfl⟩
  | cons op ops ih =>
    simp only [List.foldl_cons]
    obtain ⟨a1, a2, a3, a4, a5⟩ := C07_answers_nns (C07_dump_step s op (hops op (by simp))) c' hi'
      (hother op (by simp)) rd F
    obtain ⟨b1, b2, b3, b4, b5⟩ := ih (fun op' h' => hops op' (List.mem_cons_of_mem _ h'))
      (fun op' h' => hother op' (List.mem_cons_of_mem _ h')) (C01.step s op) a2
    exact ⟨b1.trans a1, b2, fun qh qv q => (b3 qh qv q).trans (a3 qh qv q),
      fun vec q => (b4 vec q).trans (a4 vec q), fun id q => (b5 id q).trans (a5 id q)⟩

/-- **C07 (query answers, end to end)**: after any history and a successful build of index `c'`, whatever
    is then done to the other indexes of the database (`later`: any operations and builds, none of them
    on `c'.index`), a reader of `c'` opens as right after the build and every query returns the answer it
    returned right after the build — and that answer is `.ok` (`C03_total_reachable`). -/
theorem C07_answers_nns_reachable (ops : List C01.Op) (hops : ∀ op ∈ ops, op.wf)
    (c' : Cfg) (o : BuildOpts) (fuel : Nat) (env st' : BState) (hwf : (C01.Op.build c' o fuel env).wf)
    (h : Build.build c' o fuel { env with store := C01.run ops } = .ok ((), st'))
    (later : List C01.Op) (hlater : ∀ op ∈ later, op.wf) (hother : ∀ op ∈ later, c'.index ≠ opIndex op) :
    ∃ roots,
      Reader.open c' (later.foldl C01.step st'.store) =
        .ok ⟨roots, c'.dims, (C01.run ops).keysOf c'.index modeItem⟩ ∧
      ∀ (qh qv : List Nat) (q : QueryOpts), ∃ ans,
        nnsByLeaf c' st'.store ⟨roots, c'.dims, (C01.run ops).keysOf c'.index modeItem⟩ qh qv q = .ok ans ∧
        nnsByLeaf c' (later.foldl C01.step st'.store)
          ⟨roots, c'.dims, (C01.run ops).keysOf c'.index modeItem⟩ qh qv q = .ok ans := by
  obtain ⟨roots, h1, h2, _⟩ := C01.C01_forestOK_reachable ops hops c' o fuel env st' hwf h
  obtain ⟨a1, _, a3, _, _⟩ := C07_answers_nns_history c' hwf.1 later hlater hother st'.store _ h2
  refine ⟨roots, a1.trans h1, fun qh qv q => ?_⟩
  obtain ⟨ans, ha, _⟩ := C03.C03_total h2 qh qv q
  exact ⟨ans, ha, (a3 qh qv q).trans ha⟩

/-! ## non-vacuity

The valid forest of `ForestExample` (index 0: three items, a split node, a bucket) in a database where
index 5 then receives an item, and is then built. The store grows from 5 to 7 entries (the traversal
fuel of a query on index 0 from 13 to 17), then to 9. -/

def nvCfg : Cfg := ⟨5, .euclidean, 2, {}⟩
def nvStore : Store := (C01.step ForestExample.s (.add nvCfg 9 [0, 0]))
def nvOps : List C01.Op := [.add nvCfg 9 [0, 0], .build nvCfg {} 0 { store := [], cancelAt := none }]

example : ForestOK ForestExample.c ForestExample.s ForestExample.rd := ForestExample.forestOK
example : ForestExample.c.index < 65536 ∧ ForestExample.c.index ≠ nvCfg.index ∧ nvCfg.index < 65536 := by decide
example : OtherSame nvCfg.index ForestExample.s nvStore :=
  C07_dump_step ForestExample.s (.add nvCfg 9 [0, 0]) (by decide)
example : ForestExample.s.length = 5 ∧ nvStore.length = 7 := by decide
example : ∀ op ∈ nvOps, op.wf ∧ ForestExample.c.index ≠ opIndex op := by
  intro op hop
  simp only [nvOps, List.mem_cons, List.not_mem_nil, or_false] at hop
  rcases hop with rfl | rfl <;> exact ⟨by decide, by decide⟩
/-- a query on index 0 (budget 1, filter {2, 1}) succeeds before, and gives the same answer after -/
example : ∃ ans, nnsByLeaf ForestExample.c ForestExample.s ForestExample.rd [F32.zero] [F32.zero, F32.zero]
      { count := 2, searchK := some 1, candidates := some [2, 1] } = .ok ans ∧
    nnsByLeaf ForestExample.c nvStore ForestExample.rd [F32.zero] [F32.zero, F32.zero]
      { count := 2, searchK := some 1, candidates := some [2, 1] } = .ok ans := by
  obtain ⟨ans, h, _⟩ := C03.C03_total ForestExample.forestOK [F32.zero] [F32.zero, F32.zero]
    { count := 2, searchK := some 1, candidates := some [2, 1] }
  refine ⟨ans, h, ?_⟩
  rw [← h]
  exact (C07_answers_nns (C07_dump_step ForestExample.s (.add nvCfg 9 [0, 0]) (by decide)) ForestExample.c
    (by decide) (by decide) ForestExample.rd ForestExample.forestOK).2.2.1 _ _ _
/-- the build of index 5 in that database succeeds -/
example : ∃ st', Build.build nvCfg {} 0 { store := nvStore, cancelAt := none } = .ok ((), st') ∧
    st'.store.length = 9 := ⟨_, rfl, rfl⟩

end Arroy.C07
