import ArroyProofs.BuildTouch
import ArroyModel.Reader
/-! # C07 — indexes sharing one database never affect each other

Prefix / range bounds for **all** keys, the frame theorems for every `Writer` operation and for
`build` (any options, any oracle streams, any cancellation point), in two forms:

* `get` form (`Untouched`): every well-formed key of another index keeps its value;
* dump form (`OtherSame`): the sub-list of the entries of the other indexes is the **same list**
  (no assumption on the store: neither sortedness nor well-formed keys),

and the corollary that everything another index answers from its own keys is unchanged. -/
namespace Arroy.C07
open Arroy Generated

/-! ## prefixes and the tree range -/

/-- the index prefix selects exactly the keys of that index (all u16 indexes, 65535 included) -/
theorem C07_prefix_index (i : Nat) (k : Key) (hk : k.wf) (hi : i < 65536) :
    isPrefixOf (encodePrefix i none) (encodeKey k) = true ↔ k.index = i :=
  isPrefixOf_index i k hk hi

/-- the index + kind prefix selects exactly the keys of that index and kind -/
theorem C07_prefix_kind (i m : Nat) (k : Key) (hk : k.wf) (hi : i < 65536) (hm : m < 256) :
    isPrefixOf (encodePrefix i (some m)) (encodeKey k) = true ↔ k.index = i ∧ k.mode = m :=
  isPrefixOf_kind i m k hk hi hm

/-- `delete_range(Key::tree(i, 0) ..= Key::tree(i, u32::MAX))` keeps a key iff it is not a tree key of
    index `i` (ids 0 and u32::MAX and index 65535 included) -/
theorem C07_range (i : Nat) (k : Key) (hk : k.wf) (hi : i < 65536) :
    (lexLt (encodeKey k) (encodeKey (Key.mkTree i 0)) ||
      lexLt (encodeKey (Key.mkTree i 4294967295)) (encodeKey k)) = true ↔
    ¬ (k.index = i ∧ k.mode = modeTree) :=
  treeRange_keeps i k hk hi

/-- the same three facts for keys that are not well-formed: the encoder truncates each field -/
theorem C07_prefix_all (i : Nat) (k : Key) :
    (isPrefixOf (encodePrefix i none) (encodeKey k) = true ↔ k.index % 65536 = i % 65536) ∧
    (∀ m, isPrefixOf (encodePrefix i (some m)) (encodeKey k) = true ↔
      k.index % 65536 = i % 65536 ∧ k.mode % 256 = m % 256) ∧
    (i < 65536 → ((lexLt (encodeKey k) (encodeKey (Key.mkTree i 0)) ||
      lexLt (encodeKey (Key.mkTree i 4294967295)) (encodeKey k)) = true ↔
      ¬ (k.index % 65536 = i ∧ k.mode % 256 = modeTree))) :=
  ⟨isPrefixOf_index_all i k, fun m => isPrefixOf_kind_all i m k, treeRange_keeps_all i k⟩

example : (⟨65535, modeTree, 4294967295⟩ : Key).wf ∧ (65535 : Nat) < 65536 ∧ modeTree < 256 := by decide

/-! ## dump form for the `Writer` operations -/

private theorem notOther (c : Cfg) (hi : c.index < 65536) (m id : Nat) :
    ((fun k : Key => k.index % 65536 != c.index) ⟨c.index, m, id⟩) = false := by
  simp [Nat.mod_eq_of_lt hi]

private theorem put_other (c : Cfg) (hi : c.index < 65536) (s : Store) (k : Key) (v : Val)
    (hk : k.index = c.index) : OtherSame c.index s (Store.put s k v) :=
  Frame.filter_put (fun k => k.index % 65536 != c.index) s k v (by simp [hk, Nat.mod_eq_of_lt hi])

private theorem erase_other (c : Cfg) (hi : c.index < 65536) (s : Store) (k : Key)
    (hk : k.index = c.index) : OtherSame c.index s (Store.erase s k) :=
  Frame.filter_erase (fun k => k.index % 65536 != c.index) s k (by simp [hk, Nat.mod_eq_of_lt hi])

theorem C07_dump_add (c : Cfg) (hi : c.index < 65536) (s s' : Store) (id : Nat) (vec : List Nat)
    (h : Writer.addItem c s id vec = .ok s') : OtherSame c.index s s' := by
  unfold Writer.addItem at h
  split at h
  · cases h
  · simp only [Except.ok.injEq] at h; subst h
    exact (OtherSame.storeRel _).trans (put_other c hi _ _ _ rfl) (put_other c hi _ _ _ rfl)

theorem C07_dump_append (c : Cfg) (hi : c.index < 65536) (s s' : Store) (id : Nat) (vec : List Nat)
    (h : Writer.appendItem c s id vec = .ok s') : OtherSame c.index s s' := by
  unfold Writer.appendItem at h
  split at h
  · cases h
  · split at h
    · cases h
    · rename_i s1 hs1
      simp only [Except.ok.injEq] at h; subst h
      refine (OtherSame.storeRel _).trans ?_ (put_other c hi _ _ _ rfl)
      unfold OtherSame
      unfold Store.putAppend at hs1
      have hq := notOther c hi modeItem id
      split at hs1
      · simp only [Option.some.injEq] at hs1; subst hs1
        rename_i hmax
        have : s = [] := by
          cases s with
          | nil => rfl
          | cons a r => simp [Store.maxKey?] at hmax
        subst this
        simp only [List.filter]
        simp only [Cfg.itemKey, Key.mkItem]
        simp only at hq
        rw [hq]
      · split at hs1
        · simp only [Option.some.injEq] at hs1; subst hs1
          rw [List.filter_append]
          simp only [List.filter, Cfg.itemKey, Key.mkItem]
          simp only at hq
          rw [hq]; simp
        · cases hs1

theorem C07_dump_del (c : Cfg) (hi : c.index < 65536) (s : Store) (id : Nat) :
    OtherSame c.index s (Writer.delItem c s id).1 := by
  unfold Writer.delItem Store.delete
  dsimp only
  split
  · exact (OtherSame.storeRel _).trans (erase_other c hi _ _ rfl) (put_other c hi _ _ _ rfl)
  · exact erase_other c hi _ _ rfl

private theorem deletePrefix_other (c : Cfg) (hi : c.index < 65536) (s : Store) (m : Option Nat) :
    OtherSame c.index s (Store.deletePrefix s c.index m) := by
  unfold OtherSame Store.deletePrefix
  apply Frame.filter_filter_of_imp (fun k => k.index % 65536 != c.index)
  intro kv hq
  cases hp : isPrefixOf (encodePrefix c.index m) (encodeKey kv.1)
  · rfl
  · have : kv.1.index % 65536 = c.index % 65536 := by
      cases m with
      | none => exact (isPrefixOf_index_all c.index kv.1).1 hp
      | some m => exact ((isPrefixOf_kind_all c.index m kv.1).1 hp).1
    rw [Nat.mod_eq_of_lt hi] at this
    simp [this] at hq

theorem C07_dump_clear (c : Cfg) (hi : c.index < 65536) (s : Store) : OtherSame c.index s (Writer.clear c s) :=
  deletePrefix_other c hi s none

private theorem reencode_other (c : Cfg) (hi : c.index < 65536) (m' : Metric) :
    ∀ (s s' : Store), Writer.reencode c m' s = .ok s' → OtherSame c.index s s' := by
  intro s
  induction s with
  | nil => intro s' h; simp only [Writer.reencode, Except.ok.injEq] at h; subst h; rfl
  | cons kv rest ih =>
    obtain ⟨k, v⟩ := kv
    intro s' h
    unfold Writer.reencode at h
    split at h
    · rename_i hp
      have hk : ((fun k : Key => k.index % 65536 != c.index) k) = false := by
        have := ((isPrefixOf_kind_all c.index modeItem k).1 hp).1
        rw [Nat.mod_eq_of_lt hi] at this
        simp [this]
      split at h
      · split at h
        · rename_i rest' hr
          simp only [Except.ok.injEq] at h; subst h
          unfold OtherSame
          simp only [List.filter]
          simp only at hk
          rw [hk]
          exact ih _ hr
        · cases h
      · cases h
    · split at h
      · rename_i rest' hr
        simp only [Except.ok.injEq] at h; subst h
        unfold OtherSame
        simp only [List.filter]
        have := ih _ hr
        unfold OtherSame at this
        rw [this]
      · cases h

/-- changing the metric of an index -/
theorem C07_dump_prepare (c : Cfg) (hi : c.index < 65536) (m' : Metric) (s s' : Store)
    (h : Writer.prepareChangingDistance c m' s = .ok s') : OtherSame c.index s s' := by
  unfold Writer.prepareChangingDistance at h
  split at h
  · simp only [Except.ok.injEq] at h; subst h; rfl
  · refine (OtherSame.storeRel _).trans ?_ (reencode_other c hi m' _ _ h)
    unfold Writer.clearTreeNodes
    refine (OtherSame.storeRel _).trans ?_ (deletePrefix_other c hi _ _)
    exact erase_other c hi _ _ rfl

/-- `build`, any options, any oracle streams, any cancellation point -/
theorem C07_dump_build (c : Cfg) (hi : c.index < 65536) (o : BuildOpts) (fuel : Nat) (st st' : BState)
    (h : Build.build c o fuel st = .ok ((), st')) : OtherSame c.index st.store st'.store :=
  Build.build_otherSame c hi o fuel st () st' h

/-! ## `get` form -/

theorem C07_frame_add (c : Cfg) (s s' : Store) (id : Nat) (vec : List Nat)
    (h : Writer.addItem c s id vec = .ok s') (k : Key) (_hk : k.wf) (hne : k.index ≠ c.index) :
    Store.get s' k = Store.get s k := by
  unfold Writer.addItem at h
  split at h
  · cases h
  · simp only [Except.ok.injEq] at h; subst h
    rw [Store.get_put_other _ _ _ _ (by intro e; subst e; exact hne rfl),
      Store.get_put_other _ _ _ _ (by intro e; subst e; exact hne rfl)]

/-- `append_item` when it succeeds (when it fails nothing is written) -/
theorem C07_frame_append (c : Cfg) (s s' : Store) (id : Nat) (vec : List Nat)
    (h : Writer.appendItem c s id vec = .ok s') (k : Key) (_hk : k.wf) (hne : k.index ≠ c.index) :
    Store.get s' k = Store.get s k := by
  unfold Writer.appendItem at h
  split at h
  · cases h
  · split at h
    · cases h
    · rename_i s1 hs1
      simp only [Except.ok.injEq] at h; subst h
      have hk1 : k ≠ c.itemKey id := by intro e; subst e; exact hne rfl
      rw [Store.get_put_other _ _ _ _ (by intro e; subst e; exact hne rfl)]
      unfold Store.putAppend at hs1
      split at hs1
      · simp only [Option.some.injEq] at hs1; subst hs1
        rename_i hmax
        have : s = [] := by
          cases s with
          | nil => rfl
          | cons a r => simp [Store.maxKey?] at hmax
        subst this
        simp [Store.get, Ne.symm hk1]
      · split at hs1
        · simp only [Option.some.injEq] at hs1; subst hs1
          exact Frame.get_append_other _ _ _ _ hk1
        · cases hs1

theorem C07_frame_del (c : Cfg) (s : Store) (id : Nat) (k : Key) (_hk : k.wf) (hne : k.index ≠ c.index) :
    Store.get (Writer.delItem c s id).1 k = Store.get s k := by
  unfold Writer.delItem Store.delete
  dsimp only
  split
  · dsimp only
    rw [Store.get_put_other _ _ _ _ (by intro e; subst e; exact hne rfl),
      Store.get_erase_other _ _ _ (by intro e; subst e; exact hne rfl)]
  · dsimp only
    rw [Store.get_erase_other _ _ _ (by intro e; subst e; exact hne rfl)]

theorem C07_frame_clear (c : Cfg) (hi : c.index < 65536) (s : Store) (k : Key) (hk : k.wf) (hne : k.index ≠ c.index) :
    Store.get (Writer.clear c s) k = Store.get s k :=
  (C07_dump_clear c hi s).untouched k hk hne

theorem C07_frame_prepare (c : Cfg) (hi : c.index < 65536) (m' : Metric) (s s' : Store)
    (h : Writer.prepareChangingDistance c m' s = .ok s') (k : Key) (hk : k.wf) (hne : k.index ≠ c.index) :
    Store.get s' k = Store.get s k :=
  (C07_dump_prepare c hi m' s s' h).untouched k hk hne

/-- `build`, any options, any oracle streams (they are fields of `st`), any cancellation point
    (`st.cancelAt`): if it returns `.ok`, no key of another index has changed -/
theorem C07_frame_build (c : Cfg) (hi : c.index < 65536) (o : BuildOpts) (fuel : Nat) (st st' : BState)
    (h : Build.build c o fuel st = .ok ((), st')) (k : Key) (hk : k.wf) (hne : k.index ≠ c.index) :
    Store.get st'.store k = Store.get st.store k :=
  Build.build_untouched c hi o fuel st () st' h k hk hne

/-! ## what the other index answers -/

/-- under the dump form, **every** key of another index (well-formed or not) reads the same -/
theorem C07_get_other {i : Nat} {s s' : Store} (h : OtherSame i s s') (k : Key) (hk : k.index % 65536 ≠ i) :
    Store.get s' k = Store.get s k := by
  have e1 := Frame.get_filter_key s' (fun k => k.index % 65536 != i) k
  have e2 := Frame.get_filter_key s (fun k => k.index % 65536 != i) k
  have : (k.index % 65536 != i) = true := by simpa using hk
  simp only [this, if_true] at e1 e2
  rw [← e1, ← e2]
  exact congrArg (fun l => Store.get l k) h

/-- Whatever happened to index `i` (any `s'` with the same dump outside `i`: one operation or build on
    `i`, or any sequence of them, `OtherSame` being transitive), another index `c'` answers the same:
    its items and vectors, its iteration, its need-build query, and `Reader::open`. -/
theorem C07_answers {i : Nat} {s s' : Store} (h : OtherSame i s s') (c' : Cfg) (hi' : c'.index < 65536)
    (hne : c'.index ≠ i) :
    (∀ id, Writer.itemLeaf c' s' id = Writer.itemLeaf c' s id) ∧
    (∀ id, Writer.itemVector c' s' id = Writer.itemVector c' s id) ∧
    (∀ id, Writer.containsItem c' s' id = Writer.containsItem c' s id) ∧
    Writer.iter c' s' = Writer.iter c' s ∧
    Writer.needBuild c' s' = Writer.needBuild c' s ∧
    Reader.open c' s' = Reader.open c' s := by
  have hmod : c'.index % 65536 ≠ i := by rw [Nat.mod_eq_of_lt hi']; exact hne
  have hget : ∀ m id, Store.get s' ⟨c'.index, m, id⟩ = Store.get s ⟨c'.index, m, id⟩ :=
    fun m id => C07_get_other h _ hmod
  have hpre : ∀ m, Store.prefixIter s' c'.index m = Store.prefixIter s c'.index m :=
    fun m => h.prefixIter_eq c'.index m hmod
  have hleaf : ∀ id, Writer.itemLeaf c' s' id = Writer.itemLeaf c' s id := by
    intro id; unfold Writer.itemLeaf Cfg.itemKey Key.mkItem; rw [hget]
  refine ⟨hleaf, ?_, ?_, ?_, ?_, ?_⟩
  · intro id; unfold Writer.itemVector; rw [hleaf]
  · intro id; unfold Writer.containsItem Store.contains Cfg.itemKey Key.mkItem; rw [hget]
  · unfold Writer.iter; rw [hpre]
  · unfold Writer.needBuild Cfg.metaKey Key.mkMetadata; rw [hpre, hget]
  · unfold Reader.open Cfg.metaKey Key.mkMetadata; rw [hpre, hget]

/-- the corollary for a build of `c`: any other index of the same database answers as before -/
theorem C07_answers_build (c c' : Cfg) (hi : c.index < 65536) (hi' : c'.index < 65536) (hne : c'.index ≠ c.index)
    (o : BuildOpts) (fuel : Nat) (st st' : BState) (h : Build.build c o fuel st = .ok ((), st')) :
    (∀ id, Writer.itemVector c' st'.store id = Writer.itemVector c' st.store id) ∧
    Writer.needBuild c' st'.store = Writer.needBuild c' st.store ∧
    Reader.open c' st'.store = Reader.open c' st.store := by
  obtain ⟨_, h2, _, _, h5, h6⟩ := C07_answers (C07_dump_build c hi o fuel st st' h) c' hi' hne
  exact ⟨h2, h5, h6⟩

/-! ## non-vacuity: a database with the two extreme indexes, an item at id `u32::MAX`, a pending
update on index 0; every hypothesis above is met by it -/

def exStore : Store :=
  [(⟨0, modeUpdated, 7⟩, .unit),
   (⟨0, modeItem, 7⟩, .leaf [0] [1065353216, 0]),
   (⟨65535, modeMetadata, 0⟩, .metadata Metric.euclidean.nameBytes 2 [4294967295] [0]),
   (⟨65535, modeTree, 0⟩, .desc [4294967295]),
   (⟨65535, modeItem, 4294967295⟩, .leaf [0] [0, 0])]
def exCfg : Cfg := ⟨0, .euclidean, 2, {}⟩
def exCfg' : Cfg := ⟨65535, .euclidean, 2, {}⟩
def exSt : BState := { store := exStore, cancelAt := some 100 }
def exKey : Key := ⟨65535, modeItem, 4294967295⟩

example : exCfg.index < 65536 ∧ exCfg'.index < 65536 ∧ exCfg'.index ≠ exCfg.index ∧ exKey.wf ∧
    exKey.index ≠ exCfg.index := by decide
example : ∃ s', Writer.addItem exCfg exStore 9 [0, 0] = .ok s' := ⟨_, rfl⟩
example : ∃ s', Writer.appendItem exCfg' exStore 4294967295 [0, 0] = .error .invalidAppend ∧
    Writer.appendItem exCfg' (Writer.clear exCfg' exStore) 3 [0, 0] = .ok s' := ⟨_, rfl, rfl⟩
example : (Writer.delItem exCfg exStore 7).2 = true := rfl
example : ∃ s', Writer.prepareChangingDistance exCfg .cosine exStore = .ok s' := ⟨_, rfl⟩
example : ∃ st', Build.build exCfg {} 0 exSt = .ok ((), st') := ⟨_, rfl⟩
/-- and the other index does answer something -/
example : Writer.itemVector exCfg' exStore 4294967295 = some [0, 0] ∧ Writer.needBuild exCfg' exStore = false ∧
    Reader.open exCfg' exStore = .ok ⟨[0], 2, [4294967295]⟩ := ⟨rfl, rfl, rfl⟩

end Arroy.C07
