import ArroyProofs.Properties.C07Nns
import ArroyProofs.Properties.C19History
import ArroyProofs.Properties.C17Reachable
/-! # C07 over interleaved histories — the content of an index is a function of its own history

`restrictTo j s` is the sub-list of the entries of index `j`; `opsOf j ops` the sub-history of the
operations whose target is index `j` (`opIndex`).

* `C07_local_add / _del / _clear / _prepare`, `C07_commute_step`, `C07_local_step` : each add, delete, clear and
  metric change of index `j` commutes with `restrictTo j` on a reachable (sorted, well-formed) store, hence
  depends on the store only through `restrictTo j`; `C07_frame_step` : an operation of another index leaves
  `restrictTo j` as it is (from `C07_dump_step`).
* `C07_history_projection_partial` : for a well-formed history in which index `j` is never the target of an
  `append` (appends on other indexes are allowed), `restrictTo j (run ops) = restrictTo j (run (opsOf j ops))`
  `= run (opsOf j ops)`.  `_partial` because of the `build`s of index `j`: for each of them the hypothesis
  `BuildsLocalFrom j [] ops` asks that THIS build, executed in the two stores it meets (the interleaved one and
  the one of `j`'s own history, which have the same content of index `j`), leaves the same content of index
  `j`.  The hypothesis is decidable (an equation between concrete stores; checked by `decide +kernel` on the
  example histories) and follows from `BuildLocal j op` (`C07_history_projection_of_buildLocal`), the locality
  of `Build.build`, which is the MISSING LEMMA: the proof base has the frame of the build (it WRITES no key of
  another index, `C07_dump_build`) but not that it READS none — the model's build takes the fuel of
  `delete_tree` and `reify` from the length of the whole store, so this needs a fuel-irrelevance argument for
  these two on reachable stores, threaded through every stage of `Build.build`.
* `C07_history_projection_nobuild` : no hypothesis left when the operations of index `j` are adds, deletes,
  clears and metric changes (the other indexes may do anything, builds included).
* `C07_history_projection_general_partial` : appends on `j` allowed when each is accepted in both histories or
  refused in both (`AppendsAgreeFrom`, decidable); `C07_projection_fails_example` : otherwise the equation fails.
* `C07_history_append_partial` : an append on `j` after the interleaved history is accepted iff it is accepted
  after `j`'s own history and every key of the other indexes present at that moment is smaller; an accepted
  one writes the same content into `j`.
* `C07_history_answers_partial / _nobuild` : `Reader.open`, `need_build`, the item reads and every query of
  index `j` are the same after the interleaved history and after `j`'s own history. -/
namespace Arroy.C07
open Arroy Generated C01

/-- the entries of index `j`, in the order of the store -/
def restrictTo (j : Nat) (s : Store) : Store := s.filter (fun kv => decide (kv.1.index = j))

/-- the operations of a history whose target is index `j` -/
def opsOf (j : Nat) (ops : List Op) : List Op := ops.filter (fun op => decide (opIndex op = j))

def isAppend : Op → Bool
  | .append _ _ _ => true
  | _ => false

def isBuild : Op → Bool
  | .build _ _ _ _ => true
  | _ => false

/-! ## `restrictTo` and the primitives of the store -/

theorem restrictTo_cons_pos {j : Nat} {k : Key} (v : Val) (rest : Store) (h : k.index = j) :
    restrictTo j ((k, v) :: rest) = (k, v) :: restrictTo j rest := by
  simp [restrictTo, h]

theorem restrictTo_cons_neg {j : Nat} {k : Key} (v : Val) (rest : Store) (h : k.index ≠ j) :
    restrictTo j ((k, v) :: rest) = restrictTo j rest := by
  simp [restrictTo, h]

theorem mem_restrictTo {j : Nat} {s : Store} {kv : Key × Val} :
    kv ∈ restrictTo j s ↔ kv ∈ s ∧ kv.1.index = j := by
  simp [restrictTo]

theorem get_restrictTo (j : Nat) (s : Store) (k : Key) (hk : k.index = j) :
    Store.get (restrictTo j s) k = Store.get s k :=
  Store.get_filter s _ k (fun _ => by simp [hk])

theorem restrictTo_erase (j : Nat) (s : Store) (k : Key) :
    restrictTo j (Store.erase s k) = Store.erase (restrictTo j s) k := by
  unfold restrictTo Store.erase
  rw [List.filter_filter, List.filter_filter]
  apply List.filter_congr
  intro kv _
  exact Bool.and_comm _ _

theorem restrictTo_deletePrefix (j : Nat) (s : Store) (i : Nat) (m : Option Nat) :
    restrictTo j (Store.deletePrefix s i m) = Store.deletePrefix (restrictTo j s) i m := by
  unfold restrictTo Store.deletePrefix
  rw [List.filter_filter, List.filter_filter]
  apply List.filter_congr
  intro kv _
  exact Bool.and_comm _ _

theorem put_of_all_gt (l : Store) (k : Key) (v : Val) (h : ∀ x ∈ l, k.lt x.1 = true) :
    Store.put l k v = (k, v) :: l := by
  cases l with
  | nil => rfl
  | cons x rest =>
    obtain ⟨k', v'⟩ := x
    have : k.lt k' = true := h (k', v') (by simp)
    simp [Store.put, this]

/-- on a sorted store, writing a key of index `j` commutes with the projection on index `j` -/
theorem restrictTo_put {j : Nat} {s : Store} (hs : Store.Sorted s) (k : Key) (v : Val) (hk : k.index = j) :
    restrictTo j (Store.put s k v) = Store.put (restrictTo j s) k v := by
  induction s with
  | nil => simp [restrictTo, Store.put, hk]
  | cons kv rest ih =>
    obtain ⟨k', v'⟩ := kv
    have hp := (Store.sorted_iff_pairwise _).1 hs
    rw [List.pairwise_cons] at hp
    have ih := ih ((Store.sorted_iff_pairwise _).2 hp.2)
    by_cases h1 : k.lt k' = true
    · have e1 : Store.put ((k', v') :: rest) k v = (k, v) :: (k', v') :: rest := by
        simp [Store.put, h1]
      rw [e1, restrictTo_cons_pos v _ hk]
      by_cases hp' : k'.index = j
      · rw [restrictTo_cons_pos v' _ hp']
        simp [Store.put, h1]
      · rw [restrictTo_cons_neg v' _ hp']
        symm
        apply put_of_all_gt
        intro x hx
        exact Key.lt_trans h1 (hp.1 x (mem_restrictTo.1 hx).1)
    · by_cases h2 : k' = k
      · subst h2
        have e1 : Store.put ((k', v') :: rest) k' v = (k', v) :: rest := by
          simp [Store.put, h1]
        rw [e1, restrictTo_cons_pos v _ hk, restrictTo_cons_pos v' _ hk]
        simp [Store.put, h1]
      · have e1 : Store.put ((k', v') :: rest) k v = (k', v') :: Store.put rest k v := by
          simp [Store.put, h1, h2]
        rw [e1]
        by_cases hp' : k'.index = j
        · rw [restrictTo_cons_pos v' _ hp', restrictTo_cons_pos v' _ hp', ih]
          simp [Store.put, h1, h2]
        · rw [restrictTo_cons_neg v' _ hp', restrictTo_cons_neg v' _ hp', ih]

/-- a relation `OtherSame i` keeps the projection on every other u16 index -/
theorem restrictTo_of_otherSame {i j : Nat} {s s' : Store} (h : OtherSame i s s') (hj : j < 65536)
    (hne : i ≠ j) : restrictTo j s' = restrictTo j s := by
  have e : ∀ t : Store, restrictTo j t =
      restrictTo j (t.filter (fun kv => (fun k : Key => k.index % 65536 != i) kv.1)) := by
    intro t
    unfold restrictTo
    rw [List.filter_filter]
    apply List.filter_congr
    intro kv _
    by_cases hk : kv.1.index = j
    · have : kv.1.index % 65536 ≠ i := by rw [hk, Nat.mod_eq_of_lt hj]; exact fun e => hne e.symm
      simp [hk, Nat.mod_eq_of_lt hj, Ne.symm hne]
    · simp [hk]
  rw [e s', e s]
  exact congrArg (restrictTo j) h

/-! ## the operations of index `j` commute with the projection -/

theorem C07_local_add (c : Cfg) {s : Store} (hs : Store.Sorted s) (id : Nat) (vec : List Nat) :
    restrictTo c.index (step s (.add c id vec)) = step (restrictTo c.index s) (.add c id vec) := by
  by_cases hl : vec.length = c.dims
  · simp only [step, Writer.addItem_of_len _ id hl]
    rw [restrictTo_put (j := c.index) (Store.put_sorted hs _ _) (c.updatedKey id) .unit rfl,
      restrictTo_put (j := c.index) hs (c.itemKey id) _ rfl]
  · simp only [step, Writer.addItem_err _ id hl]

theorem delItem_fst (c : Cfg) (s : Store) (id : Nat) :
    (Writer.delItem c s id).1 =
      if Store.contains s (c.itemKey id) = true then
        Store.put (Store.erase s (c.itemKey id)) (c.updatedKey id) .unit
      else Store.erase s (c.itemKey id) := by
  unfold Writer.delItem Store.delete
  dsimp only
  by_cases h : Store.contains s (c.itemKey id) = true
  · rw [if_pos h, if_pos h]
  · rw [if_neg h, if_neg h]

theorem C07_local_del (c : Cfg) {s : Store} (hs : Store.Sorted s) (id : Nat) :
    restrictTo c.index (step s (.del c id)) = step (restrictTo c.index s) (.del c id) := by
  have hc : Store.contains (restrictTo c.index s) (c.itemKey id) = Store.contains s (c.itemKey id) := by
    unfold Store.contains; rw [get_restrictTo c.index s (c.itemKey id) rfl]
  show restrictTo c.index (Writer.delItem c s id).1 = (Writer.delItem c (restrictTo c.index s) id).1
  rw [delItem_fst, delItem_fst, hc]
  by_cases hcs : Store.contains s (c.itemKey id) = true
  · rw [if_pos hcs, if_pos hcs]
    rw [restrictTo_put (j := c.index) (Store.erase_sorted hs _) (c.updatedKey id) .unit rfl, restrictTo_erase]
  · rw [if_neg hcs, if_neg hcs]
    exact restrictTo_erase _ _ _

theorem C07_local_clear (c : Cfg) (s : Store) :
    restrictTo c.index (step s (.clear c)) = step (restrictTo c.index s) (.clear c) :=
  restrictTo_deletePrefix _ _ _ _

theorem reencode_cons_other (c : Cfg) (m' : Metric) (k : Key) (v : Val) (rest : Store)
    (hp : isPrefixOf (encodePrefix c.index (some modeItem)) (encodeKey k) = false) :
    Writer.reencode c m' ((k, v) :: rest) =
      (match Writer.reencode c m' rest with
        | .ok rest' => .ok ((k, v) :: rest')
        | .error e => .error e) := by
  simp only [Writer.reencode, hp, Bool.false_eq_true, if_false]
  cases Writer.reencode c m' rest <;> rfl

theorem reencode_cons_leaf (c : Cfg) (m' : Metric) (k : Key) (h vec : List Nat) (rest : Store)
    (hp : isPrefixOf (encodePrefix c.index (some modeItem)) (encodeKey k) = true) :
    Writer.reencode c m' ((k, .leaf h vec) :: rest) =
      (match Writer.reencode c m' rest with
        | .ok rest' => .ok ((k, ({ c with metric := m' } : Cfg).mkLeaf ((c.metric.toVec vec).take c.dims)) :: rest')
        | .error e => .error e) := by
  simp only [Writer.reencode, hp, if_true]
  cases Writer.reencode c m' rest <;> rfl

theorem reencode_restrictTo (c : Cfg) (hi : c.index < 65536) (m' : Metric) :
    ∀ (s : Store), Store.WF s →
      Writer.reencode c m' (restrictTo c.index s) = Except.map (restrictTo c.index) (Writer.reencode c m' s) := by
  intro s
  induction s with
  | nil => intro _; rfl
  | cons kv rest ih =>
    obtain ⟨k, v⟩ := kv
    intro hw
    have ih := ih (fun x hx => hw x (List.mem_cons_of_mem _ hx))
    have hkw : k.wf := hw (k, v) (by simp)
    cases hp : isPrefixOf (encodePrefix c.index (some modeItem)) (encodeKey k) with
    | true =>
      have hk : k.index = c.index := ((C07_prefix_kind c.index modeItem k hkw hi (by decide)).1 hp).1
      rw [restrictTo_cons_pos v _ hk]
      cases v with
      | leaf h vec =>
        rw [reencode_cons_leaf c m' k h vec _ hp, reencode_cons_leaf c m' k h vec _ hp, ih]
        cases Writer.reencode c m' rest with
        | ok rest' => simp only [Except.map]; rw [restrictTo_cons_pos _ _ hk]
        | error e => rfl
      | _ => simp [Writer.reencode, hp, Except.map]
    | false =>
      rw [reencode_cons_other c m' k v rest hp]
      by_cases hk : k.index = c.index
      · rw [restrictTo_cons_pos v _ hk, reencode_cons_other c m' k v _ hp, ih]
        cases Writer.reencode c m' rest with
        | ok rest' => simp only [Except.map]; rw [restrictTo_cons_pos _ _ hk]
        | error e => rfl
      · rw [restrictTo_cons_neg v _ hk, ih]
        cases Writer.reencode c m' rest with
        | ok rest' => simp only [Except.map]; rw [restrictTo_cons_neg _ _ hk]
        | error e => rfl

theorem C07_local_prepare (c : Cfg) (hi : c.index < 65536) {s : Store} (hw : Store.WF s) (m' : Metric) :
    restrictTo c.index (step s (.prepare c m')) = step (restrictTo c.index s) (.prepare c m') := by
  simp only [step, Writer.prepareChangingDistance]
  by_cases hm : m' = c.metric
  · simp only [hm, if_true]
  · simp only [hm, if_false]
    have e : Writer.clearTreeNodes c (restrictTo c.index s) = restrictTo c.index (Writer.clearTreeNodes c s) := by
      unfold Writer.clearTreeNodes
      rw [restrictTo_deletePrefix, restrictTo_erase]
    have hw' : Store.WF (Writer.clearTreeNodes c s) :=
      Store.deletePrefix_wf (Store.erase_wf hw _) _ _
    rw [e, reencode_restrictTo c hi m' _ hw']
    cases Writer.reencode c m' (Writer.clearTreeNodes c s) with
    | ok s1 => rfl
    | error _ => rfl

/-! ## reachable stores, locality of one step -/

/-- the stores a well-formed history reaches -/
def Reach (s : Store) : Prop := ∃ pre : List Op, (∀ o ∈ pre, o.wf) ∧ s = run pre

theorem Reach.nil : Reach [] := ⟨[], by simp, rfl⟩

theorem Reach.run {ops : List Op} (hops : ∀ o ∈ ops, o.wf) : Reach (run ops) := ⟨ops, hops, rfl⟩

theorem Reach.sorted {s : Store} (h : Reach s) : Store.Sorted s := by
  obtain ⟨pre, hp, rfl⟩ := h
  exact C19.run_sorted pre hp

theorem Reach.wf {s : Store} (h : Reach s) : Store.WF s := by
  obtain ⟨pre, hp, rfl⟩ := h
  exact (C01_invariant pre hp ⟨0, .euclidean, 0, {}⟩ (by decide)).1.2.1

theorem Reach.step {s : Store} (h : Reach s) {op : Op} (hop : op.wf) : Reach (step s op) := by
  obtain ⟨pre, hp, rfl⟩ := h
  refine ⟨pre ++ [op], ?_, (C06.run_snoc pre op).symm⟩
  intro o ho
  rcases List.mem_append.1 ho with h | h
  · exact hp o h
  · simp only [List.mem_singleton] at h; subst h; exact hop

/-- **locality of `build`** — the hypothesis of the `_partial` theorems: in two reachable stores with the
    same content of index `j`, the operation `op` (a `build` of index `j`) leaves the same content of index
    `j` (in particular it succeeds in both or fails in both, unless the content of `j` is unchanged by it).
    It is a statement about `Build.build` alone; the proof base has the FRAME of the build
    (`C07_dump_build`: the build writes no key of another index) but not yet that the build READS no key of
    another index. -/
def BuildLocal (j : Nat) (op : Op) : Prop :=
  ∀ s s' : Store, Reach s → Reach s' → restrictTo j s = restrictTo j s' →
    restrictTo j (step s op) = restrictTo j (step s' op)

/-- an add, delete, clear or metric change of index `j` commutes with the projection on index `j`
    (on a reachable store: sorted, well-formed keys) -/
theorem C07_commute_step {j : Nat} {s : Store} (hs : Reach s) (op : Op) (hop : op.wf) (hj : opIndex op = j)
    (ha : isAppend op = false) (hb : isBuild op = false) :
    restrictTo j (step s op) = step (restrictTo j s) op := by
  subst hj
  cases op with
  | add c id vec => exact C07_local_add c hs.sorted id vec
  | append c id vec => cases ha
  | del c id => exact C07_local_del c hs.sorted id
  | clear c => exact C07_local_clear c s
  | build c o fuel env => cases hb
  | prepare c m' => exact C07_local_prepare c hop hs.wf m'

/-- **locality**: an add, delete, clear or metric change of index `j` depends on the store only through
    the content of index `j` -/
theorem C07_local_step {j : Nat} {s s' : Store} (hs : Reach s) (hs' : Reach s') (op : Op) (hop : op.wf)
    (hj : opIndex op = j) (ha : isAppend op = false) (hb : isBuild op = false)
    (h : restrictTo j s = restrictTo j s') :
    restrictTo j (step s op) = restrictTo j (step s' op) := by
  rw [C07_commute_step hs op hop hj ha hb, C07_commute_step hs' op hop hj ha hb, h]

/-- an operation of another index leaves the content of index `j` as it is (the frame, `C07_dump_step`) -/
theorem C07_frame_step {j : Nat} (hj : j < 65536) (s : Store) (op : Op) (hop : op.wf) (hne : opIndex op ≠ j) :
    restrictTo j (step s op) = restrictTo j s :=
  restrictTo_of_otherSame (C07_dump_step s op hop) hj hne

/-! ## the projection of an interleaved history -/

theorem opsOf_snoc_same (j : Nat) (ops : List Op) (op : Op) (h : opIndex op = j) :
    opsOf j (ops ++ [op]) = opsOf j ops ++ [op] := by
  simp [opsOf, List.filter_append, h]

theorem opsOf_snoc_other (j : Nat) (ops : List Op) (op : Op) (h : opIndex op ≠ j) :
    opsOf j (ops ++ [op]) = opsOf j ops := by
  simp [opsOf, List.filter_append, h]

theorem opsOf_wf {j : Nat} {ops : List Op} (hops : ∀ op ∈ ops, op.wf) : ∀ op ∈ opsOf j ops, op.wf :=
  fun op h => hops op (List.mem_filter.1 h).1

/-- the build `op` of index `j`, executed after the history `pre`, keeps the projection equation: if the
    content of index `j` after `pre` is the content after `j`'s own part of `pre`, the same holds after the
    build.  An equation between two concrete stores: decidable, and checked by the kernel on concrete
    histories (see the examples).  It follows from `BuildLocal j op`. -/
def BuildLocalAt (j : Nat) (pre : List Op) (op : Op) : Prop :=
  restrictTo j (run pre) = restrictTo j (run (opsOf j pre)) →
    restrictTo j (step (run pre) op) = restrictTo j (step (run (opsOf j pre)) op)

/-- every `build` of index `j` in `ops` (executed after `pre` and the operations before it) satisfies
    `BuildLocalAt` -/
def BuildsLocalFrom (j : Nat) : List Op → List Op → Prop
  | _, [] => True
  | pre, op :: rest =>
    (opIndex op = j → isBuild op = true → BuildLocalAt j pre op) ∧ BuildsLocalFrom j (pre ++ [op]) rest

instance (j : Nat) (pre : List Op) (op : Op) : Decidable (BuildLocalAt j pre op) := by
  unfold BuildLocalAt; infer_instance

instance instDecidableBuildsLocalFrom (j : Nat) : ∀ (pre ops : List Op), Decidable (BuildsLocalFrom j pre ops)
  | _, [] => isTrue trivial
  | pre, op :: rest =>
    have := instDecidableBuildsLocalFrom j (pre ++ [op]) rest
    by unfold BuildsLocalFrom; infer_instance

/-- without a build of index `j` there is nothing to check -/
theorem buildsLocalFrom_of_nobuild (j : Nat) : ∀ (ops pre : List Op),
    (∀ op ∈ ops, opIndex op = j → isBuild op = false) → BuildsLocalFrom j pre ops := by
  intro ops
  induction ops with
  | nil => intro _ _; trivial
  | cons op ops ih =>
    intro pre h
    refine ⟨fun hi hb => ?_, ih _ (fun o ho => h o (List.mem_cons_of_mem _ ho))⟩
    rw [h op (by simp) hi] at hb; cases hb

/-- the general locality of the builds of index `j` implies the checks -/
theorem buildsLocalFrom_of_buildLocal (j : Nat) : ∀ (ops pre : List Op),
    (∀ op ∈ pre, op.wf) → (∀ op ∈ ops, op.wf) →
    (∀ op ∈ ops, opIndex op = j → isBuild op = true → BuildLocal j op) → BuildsLocalFrom j pre ops := by
  intro ops
  induction ops with
  | nil => intro _ _ _ _; trivial
  | cons op ops ih =>
    intro pre hpre hops h
    have hpre' : ∀ o ∈ pre ++ [op], o.wf := by
      intro o ho
      rcases List.mem_append.1 ho with h' | h'
      · exact hpre o h'
      · simp only [List.mem_singleton] at h'; subst h'; exact hops o (by simp)
    refine ⟨fun hi hb hR => ?_, ih _ hpre' (fun o ho => hops o (List.mem_cons_of_mem _ ho))
      (fun o ho => h o (List.mem_cons_of_mem _ ho))⟩
    exact h op (by simp) hi hb _ _ (Reach.run hpre) (Reach.run (opsOf_wf hpre)) hR

/-- the `append` `op` of index `j`, executed after the history `pre`, is accepted in the interleaved history
    iff it is accepted in `j`'s own history (`C07_history_append_partial` says when: iff no key of another
    index is in the way).  Decidable. -/
def AppendAgreesAt (j : Nat) (pre : List Op) (op : Op) : Prop :=
  C06.accepted (run pre) op = C06.accepted (run (opsOf j pre)) op

/-- every `append` of index `j` in `ops` satisfies `AppendAgreesAt` -/
def AppendsAgreeFrom (j : Nat) : List Op → List Op → Prop
  | _, [] => True
  | pre, op :: rest =>
    (opIndex op = j → isAppend op = true → AppendAgreesAt j pre op) ∧ AppendsAgreeFrom j (pre ++ [op]) rest

instance (j : Nat) (pre : List Op) (op : Op) : Decidable (AppendAgreesAt j pre op) := by
  unfold AppendAgreesAt; infer_instance

instance instDecidableAppendsAgreeFrom (j : Nat) : ∀ (pre ops : List Op), Decidable (AppendsAgreeFrom j pre ops)
  | _, [] => isTrue trivial
  | pre, op :: rest =>
    have := instDecidableAppendsAgreeFrom j (pre ++ [op]) rest
    by unfold AppendsAgreeFrom; infer_instance

/-- without an append on index `j` there is nothing to check -/
theorem appendsAgreeFrom_of_noappend (j : Nat) : ∀ (ops pre : List Op),
    (∀ op ∈ ops, opIndex op = j → isAppend op = false) → AppendsAgreeFrom j pre ops := by
  intro ops
  induction ops with
  | nil => intro _ _; trivial
  | cons op ops ih =>
    intro pre h
    refine ⟨fun hi hb => ?_, ih _ (fun o ho => h o (List.mem_cons_of_mem _ ho))⟩
    rw [h op (by simp) hi] at hb; cases hb

theorem projection_aux (j : Nat) (hj : j < 65536) : ∀ (ops pre : List Op),
    (∀ op ∈ pre, op.wf) → (∀ op ∈ ops, op.wf) →
    AppendsAgreeFrom j pre ops →
    BuildsLocalFrom j pre ops →
    restrictTo j (run pre) = restrictTo j (run (opsOf j pre)) →
    restrictTo j (run (pre ++ ops)) = restrictTo j (run (opsOf j (pre ++ ops))) := by
  intro ops
  induction ops with
  | nil => intro pre _ _ _ _ h; rw [List.append_nil]; exact h
  | cons op ops ih =>
    intro pre hpre hops happ hbuild h
    have hop : op.wf := hops op (by simp)
    have hpre' : ∀ o ∈ pre ++ [op], o.wf := by
      intro o ho
      rcases List.mem_append.1 ho with h' | h'
      · exact hpre o h'
      · simp only [List.mem_singleton] at h'; subst h'; exact hop
    have e : pre ++ op :: ops = (pre ++ [op]) ++ ops := by simp
    rw [e]
    refine ih (pre ++ [op]) hpre' (fun o ho => hops o (List.mem_cons_of_mem _ ho)) happ.2 hbuild.2 ?_
    by_cases hi : opIndex op = j
    · rw [opsOf_snoc_same j pre op hi, C06.run_snoc, C06.run_snoc]
      cases hb : isBuild op with
      | true => exact hbuild.1 hi hb h
      | false =>
        cases ha : isAppend op with
        | false => exact C07_local_step (Reach.run hpre) (Reach.run (opsOf_wf hpre)) op hop hi ha hb h
        | true =>
          have hag : C06.accepted (run pre) op = C06.accepted (run (opsOf j pre)) op := happ.1 hi ha
          cases op with
          | append c id v =>
            cases hacc : C06.accepted (run pre) (.append c id v) with
            | true =>
              rw [hacc] at hag
              rw [((C19.C19_append_accepted_iff pre hpre c id v).2 hacc).1,
                ((C19.C19_append_accepted_iff (opsOf j pre) (opsOf_wf hpre) c id v).2 hag.symm).1]
              exact C07_local_step (Reach.run hpre) (Reach.run (opsOf_wf hpre)) (.add c id v) hop hi rfl rfl h
            | false =>
              rw [hacc] at hag
              rw [C06.step_not_accepted _ _ hacc, C06.step_not_accepted _ _ hag.symm]
              exact h
          | add _ _ _ => cases ha
          | del _ _ => cases ha
          | clear _ => cases ha
          | build _ _ _ _ => cases ha
          | prepare _ _ => cases ha
    · rw [opsOf_snoc_other j pre op hi, C06.run_snoc]
      exact (C07_frame_step hj _ op hop hi).trans h

/-- the history of index `j` alone writes only keys of index `j` -/
theorem run_opsOf_index (j : Nat) (_hj : j < 65536) (ops : List Op) (hops : ∀ op ∈ ops, op.wf) :
    ∀ kv ∈ run (opsOf j ops), kv.1.index = j := by
  have hw : ∀ op ∈ opsOf j ops, op.wf := fun op h => hops op (List.mem_filter.1 h).1
  have hi : ∀ op ∈ opsOf j ops, opIndex op = j := fun op h => by simpa using (List.mem_filter.1 h).2
  have key : ∀ (l : List Op) (s : Store), (∀ op ∈ l, op.wf) → (∀ op ∈ l, opIndex op = j) →
      OtherSame j s (l.foldl step s) := by
    intro l
    induction l with
    | nil => intro s _ _; exact (OtherSame.storeRel j).refl s
    | cons op l ih =>
      intro s h1 h2
      have := C07_dump_step s op (h1 op (by simp))
      rw [h2 op (by simp)] at this
      exact (OtherSame.storeRel j).trans this
        (ih _ (fun o ho => h1 o (List.mem_cons_of_mem _ ho)) (fun o ho => h2 o (List.mem_cons_of_mem _ ho)))
  have h := key (opsOf j ops) [] hw hi
  intro kv hkv
  have hwf : kv.1.wf := (Reach.run hw).wf kv hkv
  have hlt : kv.1.index < 65536 := hwf.1
  apply Classical.byContradiction
  intro hne
  have hmem : kv ∈ (run (opsOf j ops)).filter (fun kv => (fun k : Key => k.index % 65536 != j) kv.1) := by
    rw [List.mem_filter]
    refine ⟨hkv, ?_⟩
    simp [Nat.mod_eq_of_lt hlt, hne]
  have h' : (run (opsOf j ops)).filter (fun kv => (fun k : Key => k.index % 65536 != j) kv.1) =
      ([] : Store).filter (fun kv => (fun k : Key => k.index % 65536 != j) kv.1) := h
  rw [h'] at hmem
  simp at hmem

theorem restrictTo_run_opsOf (j : Nat) (hj : j < 65536) (ops : List Op) (hops : ∀ op ∈ ops, op.wf) :
    restrictTo j (run (opsOf j ops)) = run (opsOf j ops) := by
  unfold restrictTo
  rw [List.filter_eq_self]
  intro kv hkv
  simp [run_opsOf_index j hj ops hops kv hkv]

/-- **C07 over interleaved histories (projection).**  `ops` any well-formed history on any number of
indexes, `j` a u16 index number that is never the target of an `append` in `ops` (appends on the OTHER
indexes are allowed: whether they are accepted may depend on the keys of `j`, but that does not concern the
content of `j`).  Then the content of index `j` after the interleaved history is the content after the
operations of `j` alone (`opsOf j ops`) — which is the whole database that history produces.

`_partial`: for each `build` of index `j` in `ops` the hypothesis `BuildLocal j op` is assumed (the
locality of `Build.build`: the build of index `j` reads no key of another index; missing lemma, see
`BuildLocal`).  For histories without a build of index `j` — builds of the other indexes allowed — the
hypothesis is void: `C07_history_projection_nobuild`. -/
theorem C07_history_projection_partial (j : Nat) (hj : j < 65536) (ops : List Op) (hops : ∀ op ∈ ops, op.wf)
    (happ : ∀ op ∈ ops, opIndex op = j → isAppend op = false)
    (hbuild : BuildsLocalFrom j [] ops) :
    restrictTo j (run ops) = restrictTo j (run (opsOf j ops)) ∧
    restrictTo j (run ops) = run (opsOf j ops) := by
  have h := projection_aux j hj ops [] (by simp) hops (appendsAgreeFrom_of_noappend j ops [] happ) hbuild rfl
  rw [List.nil_append] at h
  exact ⟨h, h.trans (restrictTo_run_opsOf j hj ops hops)⟩

/-- **C07 over interleaved histories (projection), no hypothesis on the build.**  The operations of index
`j` are adds, deletes, clears and metric changes; the other indexes do anything (adds, appends, deletes,
clears, metric changes, builds with any options, failed or cancelled builds), interleaved in any way. -/
theorem C07_history_projection_nobuild (j : Nat) (hj : j < 65536) (ops : List Op) (hops : ∀ op ∈ ops, op.wf)
    (happ : ∀ op ∈ ops, opIndex op = j → isAppend op = false)
    (hnb : ∀ op ∈ ops, opIndex op = j → isBuild op = false) :
    restrictTo j (run ops) = restrictTo j (run (opsOf j ops)) ∧
    restrictTo j (run ops) = run (opsOf j ops) :=
  C07_history_projection_partial j hj ops hops happ (buildsLocalFrom_of_nobuild j ops [] hnb)

/-- the projection theorem under the general locality of the builds of index `j` (`BuildLocal`) -/
theorem C07_history_projection_of_buildLocal (j : Nat) (hj : j < 65536) (ops : List Op)
    (hops : ∀ op ∈ ops, op.wf) (happ : ∀ op ∈ ops, opIndex op = j → isAppend op = false)
    (hbuild : ∀ op ∈ ops, opIndex op = j → isBuild op = true → BuildLocal j op) :
    restrictTo j (run ops) = restrictTo j (run (opsOf j ops)) ∧
    restrictTo j (run ops) = run (opsOf j ops) :=
  C07_history_projection_partial j hj ops hops happ
    (buildsLocalFrom_of_buildLocal j ops [] (by simp) hops hbuild)

/-- **the projection theorem with appends on index `j`.**  The appends of index `j` are allowed when each of
them is accepted in the interleaved history iff it is accepted in `j`'s own history at that point
(`AppendsAgreeFrom`, decidable; by `C07_history_append_partial` an interleaving can only turn an accepted
append into a refused one, which happens iff a key of another index is not smaller than the new key).
The only histories excluded are those where an append on `j` is refused BECAUSE of another index — and
there the content of `j` does differ (`C07_projection_fails_example`). -/
theorem C07_history_projection_general_partial (j : Nat) (hj : j < 65536) (ops : List Op)
    (hops : ∀ op ∈ ops, op.wf) (happ : AppendsAgreeFrom j [] ops) (hbuild : BuildsLocalFrom j [] ops) :
    restrictTo j (run ops) = restrictTo j (run (opsOf j ops)) ∧
    restrictTo j (run ops) = run (opsOf j ops) := by
  have h := projection_aux j hj ops [] (by simp) hops happ hbuild rfl
  rw [List.nil_append] at h
  exact ⟨h, h.trans (restrictTo_run_opsOf j hj ops hops)⟩

/-! ## appends -/

/-- **C07 over interleaved histories (appends).**  Under the hypotheses of the projection theorem, an
`append` on index `j` after the interleaved history `ops` is accepted **iff** it is accepted after `j`'s
own history AND every key of the OTHER indexes present at that moment sorts before the new item key: an
interleaving can turn an accepted append into a refused one (which writes nothing), never the converse;
and an accepted one writes into index `j` exactly what it writes in `j`'s own history (the projection
equation extends to `ops ++ [append]`). -/
theorem C07_history_append_partial (j : Nat) (hj : j < 65536) (ops : List Op) (hops : ∀ op ∈ ops, op.wf)
    (happ : ∀ op ∈ ops, opIndex op = j → isAppend op = false)
    (hbuild : BuildsLocalFrom j [] ops)
    (c : Cfg) (hc : c.index = j) (id : Nat) (v : List Nat) (hwf : (Op.append c id v).wf) :
    (C06.accepted (run ops) (.append c id v) = true ↔
      C06.accepted (run (opsOf j ops)) (.append c id v) = true ∧
      ∀ kv ∈ run ops, kv.1.index ≠ j → kv.1.lt (c.itemKey id) = true) ∧
    (C06.accepted (run ops) (.append c id v) = true →
      restrictTo j (run (ops ++ [.append c id v])) = run (opsOf j (ops ++ [.append c id v])) ∧
      restrictTo j (run (ops ++ [.append c id v])) = restrictTo j (run (opsOf j (ops ++ [.append c id v])))) := by
  have hw' : ∀ op ∈ opsOf j ops, op.wf := fun op h => hops op (List.mem_filter.1 h).1
  have hR := (C07_history_projection_partial j hj ops hops happ hbuild).2
  have hs := C19.run_sorted ops hops
  have hs' := C19.run_sorted (opsOf j ops) hw'
  have hiff : C06.accepted (run ops) (.append c id v) = true ↔
      C06.accepted (run (opsOf j ops)) (.append c id v) = true ∧
      ∀ kv ∈ run ops, kv.1.index ≠ j → kv.1.lt (c.itemKey id) = true := by
    rw [C19.accepted_append_iff hs, C19.accepted_append_iff hs']
    constructor
    · rintro ⟨hl, hall⟩
      refine ⟨⟨hl, fun kv hkv => ?_⟩, fun kv hkv _ => hall kv hkv⟩
      rw [← hR] at hkv
      exact hall kv (mem_restrictTo.1 hkv).1
    · rintro ⟨⟨hl, hall⟩, hother⟩
      refine ⟨hl, fun kv hkv => ?_⟩
      by_cases hk : kv.1.index = j
      · apply hall
        rw [← hR]
        exact mem_restrictTo.2 ⟨hkv, hk⟩
      · exact hother kv hkv hk
  refine ⟨hiff, fun hacc => ?_⟩
  have hacc' := (hiff.1 hacc).1
  have e1 := ((C19.C19_append_accepted_iff ops hops c id v).2 hacc).1
  have e2 := ((C19.C19_append_accepted_iff (opsOf j ops) hw' c id v).2 hacc').1
  have key : restrictTo j (run (ops ++ [.append c id v])) = run (opsOf j (ops ++ [.append c id v])) := by
    rw [opsOf_snoc_same j ops (.append c id v) hc, C06.run_snoc, C06.run_snoc, e1, e2, ← hR]
    subst hc
    exact C07_local_add c hs id v
  refine ⟨key, ?_⟩
  rw [key]
  exact (restrictTo_run_opsOf j hj _ (by
    intro op hop
    rcases List.mem_append.1 hop with h | h
    · exact hops op h
    · simp only [List.mem_singleton] at h
      subst h
      exact hwf)).symm

/-! ## what index `j` answers -/

theorem prefixIter_restrictTo {j : Nat} (hj : j < 65536) {s : Store} (hw : Store.WF s) (m : Option Nat) :
    Store.prefixIter (restrictTo j s) j m = Store.prefixIter s j m := by
  unfold Store.prefixIter restrictTo
  rw [List.filter_filter]
  apply List.filter_congr
  intro kv hkv
  cases hp : isPrefixOf (encodePrefix j m) (encodeKey kv.1) with
  | false => simp
  | true =>
    have hlt : kv.1.index < 65536 := (hw kv hkv).1
    have : kv.1.index % 65536 = j % 65536 := by
      cases m with
      | none => exact (isPrefixOf_index_all j kv.1).1 hp
      | some m => exact ((isPrefixOf_kind_all j m kv.1).1 hp).1
    rw [Nat.mod_eq_of_lt hlt, Nat.mod_eq_of_lt hj] at this
    simp [this]

/-- two well-formed stores with the same content of index `c.index`: everything a writer or reader of
    that index reads is the same -/
theorem answers_of_restrictTo_eq {s s' : Store} (hw : Store.WF s) (hw' : Store.WF s') (c : Cfg)
    (hi : c.index < 65536) (h : restrictTo c.index s' = restrictTo c.index s) :
    Reader.open c s' = Reader.open c s ∧
    Writer.needBuild c s' = Writer.needBuild c s ∧
    (∀ id, Writer.itemLeaf c s' id = Writer.itemLeaf c s id) ∧
    (∀ id, Writer.itemVector c s' id = Writer.itemVector c s id) ∧
    (∀ id, Writer.containsItem c s' id = Writer.containsItem c s id) ∧
    Writer.iter c s' = Writer.iter c s ∧
    (∀ rd : ReaderState, ForestOK c s rd →
      ForestOK c s' rd ∧
      (∀ (qh qv : List Nat) (q : QueryOpts),
        Reader.nnsByLeaf c s' rd qh qv q = Reader.nnsByLeaf c s rd qh qv q) ∧
      (∀ (vec : List Nat) (q : QueryOpts), Reader.byVector c s' rd vec q = Reader.byVector c s rd vec q) ∧
      (∀ (id : Nat) (q : QueryOpts), Reader.byItem c s' rd id q = Reader.byItem c s rd id q)) := by
  have hget : ∀ k : Key, k.index = c.index → Store.get s' k = Store.get s k := by
    intro k hk
    rw [← get_restrictTo c.index s' k hk, ← get_restrictTo c.index s k hk, h]
  have hsame : Reader.SameIndex c s s' := fun m id => hget ⟨c.index, m, id⟩ rfl
  have hpre : ∀ m, Store.prefixIter s' c.index m = Store.prefixIter s c.index m := by
    intro m
    rw [← prefixIter_restrictTo hi hw' m, ← prefixIter_restrictTo hi hw m, h]
  obtain ⟨ho, hn⟩ := C06.open_congr_get hw hw' hi hget
  have hleaf : ∀ id, Writer.itemLeaf c s' id = Writer.itemLeaf c s id := by
    intro id; unfold Writer.itemLeaf; rw [hget _ rfl]
  refine ⟨ho, hn, hleaf, ?_, ?_, ?_, ?_⟩
  · intro id; unfold Writer.itemVector; rw [hleaf]
  · intro id; unfold Writer.containsItem Store.contains; rw [hget _ rfl]
  · unfold Writer.iter; rw [hpre]
  · intro rd F
    have hq : ∀ (qh qv : List Nat) (q : QueryOpts),
        Reader.nnsByLeaf c s' rd qh qv q = Reader.nnsByLeaf c s rd qh qv q :=
      fun qh qv q => Reader.nnsByLeaf_congr_of_forest c hsame rd F qh qv q
    refine ⟨F.congr hsame, hq, ?_, ?_⟩
    · intro vec q; unfold Reader.byVector; rw [hq]
    · intro id q; unfold Reader.byItem; rw [hleaf id]
      cases Writer.itemLeaf c s id with
      | none => rfl
      | some p => simp only [hq]

/-- **C07 over interleaved histories (answers).**  Under the hypotheses of the projection theorem, whatever
the other indexes did in between and in whatever interleaving, a `Cfg` of index `j` gets the same answers
after the interleaved history as after `j`'s own history: `Reader::open` (same result or same error),
`need_build`, the item reads (`item_vector`, `contains_item`, `iter`), and — for a reader state whose forest
is valid in either of the two stores — a valid forest in the other and the same answer to every query
(`nns_by_leaf`, `by_vector`, `by_item`; any count, budget, oversampling, filter), although the traversal
fuel of the model depends on the size of the whole database. -/
theorem C07_history_answers_partial (j : Nat) (hj : j < 65536) (ops : List Op) (hops : ∀ op ∈ ops, op.wf)
    (happ : ∀ op ∈ ops, opIndex op = j → isAppend op = false)
    (hbuild : BuildsLocalFrom j [] ops)
    (c : Cfg) (hc : c.index = j) :
    Reader.open c (run ops) = Reader.open c (run (opsOf j ops)) ∧
    Writer.needBuild c (run ops) = Writer.needBuild c (run (opsOf j ops)) ∧
    (∀ id, Writer.itemLeaf c (run ops) id = Writer.itemLeaf c (run (opsOf j ops)) id) ∧
    (∀ id, Writer.itemVector c (run ops) id = Writer.itemVector c (run (opsOf j ops)) id) ∧
    (∀ id, Writer.containsItem c (run ops) id = Writer.containsItem c (run (opsOf j ops)) id) ∧
    Writer.iter c (run ops) = Writer.iter c (run (opsOf j ops)) ∧
    (∀ rd : ReaderState, ForestOK c (run ops) rd ∨ ForestOK c (run (opsOf j ops)) rd →
      ForestOK c (run ops) rd ∧ ForestOK c (run (opsOf j ops)) rd ∧
      (∀ (qh qv : List Nat) (q : QueryOpts),
        Reader.nnsByLeaf c (run ops) rd qh qv q = Reader.nnsByLeaf c (run (opsOf j ops)) rd qh qv q) ∧
      (∀ (vec : List Nat) (q : QueryOpts),
        Reader.byVector c (run ops) rd vec q = Reader.byVector c (run (opsOf j ops)) rd vec q) ∧
      (∀ (id : Nat) (q : QueryOpts),
        Reader.byItem c (run ops) rd id q = Reader.byItem c (run (opsOf j ops)) rd id q)) := by
  subst hc
  have hw' : ∀ op ∈ opsOf c.index ops, op.wf := fun op h => hops op (List.mem_filter.1 h).1
  have hR := (C07_history_projection_partial c.index hj ops hops happ hbuild).1
  have W := (Reach.run hops).wf
  have W' := (Reach.run hw').wf
  obtain ⟨a1, a2, a3, a4, a5, a6, a7⟩ := answers_of_restrictTo_eq W' W c hj hR
  obtain ⟨_, _, _, _, _, _, b7⟩ := answers_of_restrictTo_eq W W' c hj hR.symm
  refine ⟨a1, a2, a3, a4, a5, a6, fun rd F => ?_⟩
  rcases F with F | F
  · obtain ⟨f, q1, q2, q3⟩ := b7 rd F
    exact ⟨F, f, fun qh qv q => (q1 qh qv q).symm, fun vec q => (q2 vec q).symm, fun id q => (q3 id q).symm⟩
  · obtain ⟨f, q1, q2, q3⟩ := a7 rd F
    exact ⟨f, F, q1, q2, q3⟩

/-- the answers theorem with no hypothesis on the build (no build of index `j` in the history; then the
    reader of `j` reports the missing metadata in both, and the writer-side reads agree) -/
theorem C07_history_answers_nobuild (j : Nat) (hj : j < 65536) (ops : List Op) (hops : ∀ op ∈ ops, op.wf)
    (happ : ∀ op ∈ ops, opIndex op = j → isAppend op = false)
    (hnb : ∀ op ∈ ops, opIndex op = j → isBuild op = false) (c : Cfg) (hc : c.index = j) :
    Reader.open c (run ops) = Reader.open c (run (opsOf j ops)) ∧
    Writer.needBuild c (run ops) = Writer.needBuild c (run (opsOf j ops)) ∧
    (∀ id, Writer.itemVector c (run ops) id = Writer.itemVector c (run (opsOf j ops)) id) ∧
    (∀ id, Writer.containsItem c (run ops) id = Writer.containsItem c (run (opsOf j ops)) id) ∧
    Writer.iter c (run ops) = Writer.iter c (run (opsOf j ops)) := by
  obtain ⟨a1, a2, _, a4, a5, a6, _⟩ := C07_history_answers_partial j hj ops hops happ
    (buildsLocalFrom_of_nobuild j ops [] hnb) c hc
  exact ⟨a1, a2, a4, a5, a6⟩

/-! ## non-vacuity: interleaved histories on the indexes 0 and 3 -/
namespace ExH
open C01.Ex C17.Ex

/-- index 0 (Euclidean, dimension 2): two adds, a delete, a metric change; interleaved with index 3
    (cosine): an add, an accepted append, a build, another add -/
def hA : List Op :=
  [.add cEx 1 [f1, f2], .add cD 7 [f1, f2], .append cD 9 [f2, f2], .add cEx 0 [f2, f1],
   .build cD oLeaf 0 { store := [] }, .del cEx 1, .prepare cEx .cosine, .add cD 8 [f2, f2]]

theorem hA_wf : ∀ op ∈ hA, op.wf := by decide
theorem hA_noappend : ∀ op ∈ hA, opIndex op = 0 → isAppend op = false := by decide
theorem hA_nobuild : ∀ op ∈ hA, opIndex op = 0 → isBuild op = false := by decide

/-- the hypotheses of `C07_history_projection_nobuild` hold for index 0 of `hA`; the own history of index 0
    has four operations, its content is not empty, and the database holds more than index 0 -/
example : restrictTo 0 (run hA) = run (opsOf 0 hA) :=
  (C07_history_projection_nobuild 0 (by decide) hA hA_wf hA_noappend hA_nobuild).2
example : (opsOf 0 hA).length = 4 ∧ (run (opsOf 0 hA)).length = 3 ∧ (run hA).length = 10 ∧
    C06.accepted (run (hA.take 2)) (.append cD 9 [f2, f2]) = true := by decide +kernel

/-- `opsC` of `C17Reachable`: index 0 is built twice (the second build on the incremental path, under a
    cancellation schedule), index 3 once; the build checks are evaluated by the kernel -/
theorem opsC2_wf : ∀ op ∈ opsC ++ [.build cC oEx 5 env2], op.wf := by decide
theorem opsC2_builds0 : BuildsLocalFrom 0 [] (opsC ++ [.build cC oEx 5 env2]) := by decide +kernel
theorem opsC2_builds3 : BuildsLocalFrom 3 [] (opsC ++ [.build cC oEx 5 env2]) := by decide +kernel

example : restrictTo 0 (run (opsC ++ [.build cC oEx 5 env2])) = run (opsOf 0 (opsC ++ [.build cC oEx 5 env2])) :=
  (C07_history_projection_partial 0 (by decide) _ opsC2_wf (by decide) opsC2_builds0).2
example : restrictTo 3 (run (opsC ++ [.build cC oEx 5 env2])) = run (opsOf 3 (opsC ++ [.build cC oEx 5 env2])) :=
  (C07_history_projection_partial 3 (by decide) _ opsC2_wf (by decide) opsC2_builds3).2
example : (opsOf 0 (opsC ++ [.build cC oEx 5 env2])).length = 9 ∧ (opsOf 3 (opsC ++ [.build cC oEx 5 env2])).length = 3 := by
  decide

/-- the answers: index 0 of `hA` (no build: the reader reports the missing metadata in both) -/
example : Writer.containsItem cEx (run hA) 0 = Writer.containsItem cEx (run (opsOf 0 hA)) 0 ∧
    Reader.open cEx (run hA) = Reader.open cEx (run (opsOf 0 hA)) := by
  obtain ⟨a1, _, _, a4, _⟩ := C07_history_answers_nobuild 0 (by decide) hA hA_wf hA_noappend hA_nobuild cEx rfl
  exact ⟨a4 0, a1⟩
example : Writer.containsItem cEx (run hA) 0 = true ∧ Writer.containsItem cEx (run hA) 1 = false ∧
    Writer.needBuild cEx (run hA) = true := by decide +kernel

/-- the answers: index 0 of `opsC` followed by its second build — the reader opens (in both) -/
example : Reader.open cC (run (opsC ++ [.build cC oEx 5 env2])) =
      Reader.open cC (run (opsOf 0 (opsC ++ [.build cC oEx 5 env2]))) ∧
    C06.okB (Reader.open cC (run (opsC ++ [.build cC oEx 5 env2]))) = true :=
  ⟨(C07_history_answers_partial 0 (by decide) _ opsC2_wf (by decide) opsC2_builds0 cC rfl).1, by decide +kernel⟩

/-- appends.  After `[add on index 3]` an append on index 0 is accepted in the own history of index 0 (empty)
    and refused in the interleaved history: a key of index 3 is not smaller.  After `[add on index 0]` an
    append on index 3 is accepted in both, and writes the same. -/
def hB : List Op := [.add cD 7 [f1, f2]]
def hB' : List Op := [.add cEx 1 [f1, f2]]

example : C06.accepted (run (opsOf 0 hB)) (.append cEx 5 [f1, f1]) = true ∧
    C06.accepted (run hB) (.append cEx 5 [f1, f1]) = false ∧
    ¬ (∀ kv ∈ run hB, kv.1.index ≠ 0 → kv.1.lt (cEx.itemKey 5) = true) := by
  have h := (C07_history_append_partial 0 (by decide) hB (by decide) (by decide) (by decide) cEx rfl 5 [f1, f1]
    (by decide)).1
  have h1 : C06.accepted (run (opsOf 0 hB)) (.append cEx 5 [f1, f1]) = true := by decide +kernel
  have h2 : C06.accepted (run hB) (.append cEx 5 [f1, f1]) = false := by decide +kernel
  refine ⟨h1, h2, fun hall => ?_⟩
  rw [h.2 ⟨h1, hall⟩] at h2
  cases h2

example : C06.accepted (run hB') (.append cD 9 [f2, f2]) = true ∧
    restrictTo 3 (run (hB' ++ [.append cD 9 [f2, f2]])) = run (opsOf 3 (hB' ++ [.append cD 9 [f2, f2]])) := by
  have h : C06.accepted (run hB') (.append cD 9 [f2, f2]) = true := by decide +kernel
  exact ⟨h, ((C07_history_append_partial 3 (by decide) hB' (by decide) (by decide) (by decide) cD rfl 9 [f2, f2]
    (by decide)).2 h).1⟩

/-- with an append on index `j` refused because of another index the projection equation is FALSE: the
    hypothesis on the appends cannot be dropped -/
theorem C07_projection_fails_example :
    restrictTo 0 (run (hB ++ [.append cEx 5 [f1, f1]])) ≠ restrictTo 0 (run (opsOf 0 (hB ++ [.append cEx 5 [f1, f1]]))) ∧
    ¬ AppendsAgreeFrom 0 [] (hB ++ [.append cEx 5 [f1, f1]]) := by decide +kernel

/-- `hA` has an (accepted) append on index 3: the general theorem applies to index 3 -/
example : restrictTo 3 (run hA) = run (opsOf 3 hA) :=
  (C07_history_projection_general_partial 3 (by decide) hA hA_wf (by decide +kernel) (by decide +kernel)).2

end ExH

end Arroy.C07
