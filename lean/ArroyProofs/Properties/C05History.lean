import ArroyProofs.Properties.Reachable
import ArroyProofs.Properties.C06History
import ArroyProofs.Properties.C18
/-! # C05 over histories — the item store as a function of what happened

`C05.lean` refines each item operation to a map update, `C05Build.lean` shows that a build changes no item
vector, `C18.lean` characterises the metric change. Here they are composed over the full history grammar
(`C01.Op`: add / append / del / clear / build / prepare, each with its own `Cfg`; `C01.run`):
`spec i ops` is the abstract item map of index `i` after the history `ops` — ascending ids, each with the
vector `item_vector` must return, as f32 bit patterns — computed by recursion over the history from the
operations that were EFFECTIVE on index `i` (`C06.effective`: an accepted `add` / `append`, a `del` of a
present id, a `clear`, a `prepare` towards another metric than the one of its `Cfg`, a successful build).

Side condition (`Typed i d m0 ops`, decidable, syntactic): the index is written at one dimension `d` and under
the metric it has at that point — `m0` until the first `prepare` of the index, afterwards the target of the
last `prepare` (`metricOf`). It constrains only the `Cfg`s of the `add`s / `append`s of the right length and of
the `prepare`s of index `i`; deletes, clears and builds of the index may carry any metric and dimension, and
the other indexes are unconstrained. The vectors are READ with the metric the index has at the end and the
dimension `d`. -/
namespace Arroy.C05
open Arroy Generated

/-! ## sorted association lists -/

/-- the abstract item map of one index: ascending ids, each with its vector as `item_vector` returns it -/
abbrev IMap := List (Nat × List Nat)

/-- `id ↦ v` (insert or overwrite), keeping the ids ascending -/
def mset (id : Nat) (v : List Nat) : IMap → IMap
  | [] => [(id, v)]
  | (j, w) :: r =>
    if id < j then (id, v) :: (j, w) :: r
    else if id = j then (id, v) :: r
    else (j, w) :: mset id v r

/-- remove `id` -/
def mdel (id : Nat) (m : IMap) : IMap := m.filter (fun p => p.1 != id)

/-- map every vector -/
def mmap (f : List Nat → List Nat) (m : IMap) : IMap := m.map (fun p => (p.1, f p.2))

/-- strictly ascending ids -/
def Asc (m : IMap) : Prop := (m.map (·.1)).Pairwise (· < ·)

theorem lk_cons (id j : Nat) (w : List Nat) (r : IMap) :
    List.lookup id ((j, w) :: r) = if id = j then some w else List.lookup id r := by
  rw [List.lookup_cons]
  by_cases h : id = j
  · simp [h]
  · have : (id == j) = false := by simp [h]
    rw [this, if_neg h]

theorem lookup_mset (id id' : Nat) (v : List Nat) (m : IMap) :
    List.lookup id' (mset id v m) = if id' = id then some v else List.lookup id' m := by
  induction m with
  | nil => simp only [mset, lk_cons]
  | cons p r ih =>
    obtain ⟨j, w⟩ := p
    unfold mset
    by_cases h1 : id < j
    · rw [if_pos h1]; simp only [lk_cons]
    · rw [if_neg h1]
      by_cases h2 : id = j
      · rw [if_pos h2]
        subst h2
        simp only [lk_cons]
        by_cases h : id' = id
        · rw [if_pos h, if_pos h]
        · rw [if_neg h, if_neg h, if_neg h]
      · rw [if_neg h2]
        simp only [lk_cons, ih]
        by_cases h : id' = id
        · have : ¬ id' = j := fun e => h2 (h.symm.trans e)
          rw [if_pos h, if_neg this, if_pos h]
        · rw [if_neg h, if_neg h]

theorem lookup_mdel (id id' : Nat) (m : IMap) :
    List.lookup id' (mdel id m) = if id' = id then none else List.lookup id' m := by
  induction m with
  | nil => simp [mdel]
  | cons p r ih =>
    obtain ⟨j, w⟩ := p
    unfold mdel at ih ⊢
    rw [List.filter_cons]
    by_cases hj : j = id
    · subst hj
      have : ((j, w).1 != j) = false := by simp
      rw [this, if_neg (by simp), ih]
      simp only [lk_cons]
      by_cases h : id' = j
      · rw [if_pos h, if_pos h]
      · rw [if_neg h, if_neg h, if_neg h]
    · have : ((j, w).1 != id) = true := by simp [hj]
      rw [this, if_pos rfl]
      simp only [lk_cons, ih]
      by_cases h : id' = id
      · have : ¬ id' = j := fun e => hj (e.symm.trans h)
        rw [if_pos h, if_pos h, if_neg this]
      · rw [if_neg h, if_neg h]

theorem lookup_mmap (f : List Nat → List Nat) (id : Nat) (m : IMap) :
    List.lookup id (mmap f m) = (List.lookup id m).map f := by
  induction m with
  | nil => rfl
  | cons p r ih =>
    obtain ⟨j, w⟩ := p
    unfold mmap at ih ⊢
    rw [List.map_cons, List.lookup_cons, List.lookup_cons, ih]
    cases id == j <;> rfl

theorem map_fst_mmap (f : List Nat → List Nat) (m : IMap) : (mmap f m).map (·.1) = m.map (·.1) := by
  unfold mmap; rw [List.map_map]; rfl

theorem mem_map_fst_mset (id : Nat) (v : List Nat) (m : IMap) (x : Nat) :
    x ∈ (mset id v m).map (·.1) → x = id ∨ x ∈ m.map (·.1) := by
  induction m with
  | nil => intro h; simp [mset] at h; exact Or.inl h
  | cons p r ih =>
    obtain ⟨j, w⟩ := p
    unfold mset
    split
    · intro h
      simp only [List.map_cons, List.mem_cons] at h ⊢
      exact h
    · split
      · intro h
        simp only [List.map_cons, List.mem_cons] at h ⊢
        rcases h with h | h
        · exact Or.inl h
        · exact Or.inr (Or.inr h)
      · intro h
        simp only [List.map_cons, List.mem_cons] at h ⊢
        rcases h with h | h
        · exact Or.inr (Or.inl h)
        · rcases ih h with h | h
          · exact Or.inl h
          · exact Or.inr (Or.inr h)

theorem asc_nil : Asc [] := List.Pairwise.nil

theorem asc_mset (id : Nat) (v : List Nat) {m : IMap} (h : Asc m) : Asc (mset id v m) := by
  induction m with
  | nil => simp [mset, Asc]
  | cons p r ih =>
    obtain ⟨j, w⟩ := p
    unfold Asc at h ih ⊢
    rw [List.map_cons, List.pairwise_cons] at h
    unfold mset
    split
    · next h1 =>
      rw [List.map_cons, List.pairwise_cons]
      refine ⟨fun x hx => ?_, by rw [List.map_cons, List.pairwise_cons]; exact h⟩
      rw [List.map_cons, List.mem_cons] at hx
      rcases hx with hx | hx
      · rw [hx]; exact h1
      · exact Nat.lt_trans h1 (h.1 x hx)
    · split
      · next h2 =>
        rw [List.map_cons, List.pairwise_cons]
        subst h2
        exact h
      · next h1 h2 =>
        rw [List.map_cons, List.pairwise_cons]
        refine ⟨fun x hx => ?_, ih h.2⟩
        rcases mem_map_fst_mset id v r x hx with hx | hx
        · rw [hx]; show j < id; omega
        · exact h.1 x hx

theorem asc_mdel (id : Nat) {m : IMap} (h : Asc m) : Asc (mdel id m) := by
  unfold Asc mdel at *
  exact h.sublist (List.Sublist.map _ List.filter_sublist)

theorem asc_mmap (f : List Nat → List Nat) {m : IMap} (h : Asc m) : Asc (mmap f m) := by
  unfold Asc; rw [map_fst_mmap]; exact h

theorem mem_map_fst_iff_lookup (m : IMap) (id : Nat) :
    id ∈ m.map (·.1) ↔ (List.lookup id m).isSome = true := by
  induction m with
  | nil => simp
  | cons p r ih =>
    obtain ⟨j, w⟩ := p
    rw [List.map_cons, List.mem_cons, lk_cons, ih]
    by_cases h : id = j
    · simp [h]
    · rw [if_neg h]; simp [h]

theorem filterMap_congr' {α β} {f g : α → Option β} {l : List α} (h : ∀ x ∈ l, f x = g x) :
    l.filterMap f = l.filterMap g := by
  induction l with
  | nil => rfl
  | cons a r ih =>
    rw [List.filterMap_cons, List.filterMap_cons, h a (List.mem_cons_self ..),
      ih (fun x hx => h x (List.mem_cons_of_mem _ hx))]

/-- an ascending map is the list of its ids, each with its looked-up value -/
theorem asc_eq_filterMap {m : IMap} (h : Asc m) :
    m = (m.map (·.1)).filterMap (fun id => (List.lookup id m).map (fun v => (id, v))) := by
  induction m with
  | nil => rfl
  | cons p r ih =>
    obtain ⟨j, w⟩ := p
    unfold Asc at h ih
    rw [List.map_cons, List.pairwise_cons] at h
    rw [List.map_cons, List.filterMap_cons]
    have : List.lookup j ((j, w) :: r) = some w := by simp [List.lookup]
    rw [this]
    simp only [Option.map_some]
    congr 1
    conv => lhs; rw [ih h.2]
    apply filterMap_congr'
    intro x hx
    have hne : ¬ x = j := by
      have := h.1 x hx
      omega
    rw [lk_cons, if_neg hne]

/-! ## the specification: the item map of an index as a function of the history -/

/-- what `item_vector` returns of a vector `v` written under metric `m` at the declared dimension `d`:
    `v` itself for the f32 metrics, the `±1.0` sign pattern of `v` for the quantised ones
    (`readback_f32`, `readback_bq`) -/
def readback (m : Metric) (d : Nat) (v : List Nat) : List Nat := (m.toVec (m.fromSlice v)).take d

theorem readback_f32 (m : Metric) (hm : m.isBq = false) (v : List Nat) : readback m v.length v = v := by
  simp [readback, Metric.toVec, Metric.fromSlice, hm]

theorem readback_bq (m : Metric) (hm : m.isBq = true) (v : List Nat) : readback m v.length v = v.map sign := by
  simp only [readback, Metric.toVec, Metric.fromSlice, hm, if_true]
  exact C12.C12_roundtrip v

/-- the item map after an operation that is effective on the index -/
def specAfter (m : IMap) : C01.Op → IMap
  | .add c id v => mset id (readback c.metric c.dims v) m
  | .append c id v => mset id (readback c.metric c.dims v) m
  | .del _ id => mdel id m
  | .clear _ => []
  | .build _ _ _ _ => m
  | .prepare c m' => mmap (readback m' c.dims) m

/-- one step: only the operations that are effective on index `i` in store `s` (`C06.effective`: an accepted
    `add` / `append`, a `del` of a present id, a `clear`, a `prepare` towards another metric, a successful
    build — of index `i`) change the item map of index `i` -/
def specOp (i : Nat) (s : Store) (m : IMap) (op : C01.Op) : IMap :=
  if C06.effective i s op then specAfter m op else m

def specFrom (i : Nat) : Store → IMap → List C01.Op → IMap
  | _, m, [] => m
  | s, m, op :: ops => specFrom i (C01.step s op) (specOp i s m op) ops

/-- **the abstract item map of index `i` after the history `ops`** (from the empty store): ascending ids, each
    with the vector `item_vector` must return -/
def spec (i : Nat) (ops : List C01.Op) : IMap := specFrom i [] [] ops

theorem specFrom_append (i : Nat) (ops : List C01.Op) (op : C01.Op) : ∀ (s : Store) (m : IMap),
    specFrom i s m (ops ++ [op]) = specOp i (ops.foldl C01.step s) (specFrom i s m ops) op := by
  induction ops with
  | nil => intro s m; rfl
  | cons a ops ih => intro s m; exact ih _ _

/-- the recursion seen from the end of the history -/
theorem spec_snoc (i : Nat) (ops : List C01.Op) (op : C01.Op) :
    spec i (ops ++ [op]) = specOp i (C01.run ops) (spec i ops) op :=
  specFrom_append i ops op [] []

/-! ## the side condition: one dimension, and the metric the index has at that point -/

/-- the metric of index `i` after an operation: a `prepare` of the index sets it -/
def metricStep (i : Nat) (mt : Metric) : C01.Op → Metric
  | .prepare c m' => if c.index = i then m' else mt
  | _ => mt

/-- **the metric index `i` has after the history `ops`**, `m0` being the one it started with -/
def metricOf (i : Nat) (m0 : Metric) (ops : List C01.Op) : Metric := ops.foldl (metricStep i) m0

/-- the `Cfg` of a write of index `i` (an `add` / `append` of the right length, a `prepare`) carries the
    current metric `mt` of the index and the dimension `d`; nothing is asked of the other operations -/
def opTyped (i d : Nat) (mt : Metric) : C01.Op → Prop
  | .add c _ v => c.index = i → v.length = c.dims → c.metric = mt ∧ c.dims = d
  | .append c _ v => c.index = i → v.length = c.dims → c.metric = mt ∧ c.dims = d
  | .prepare c _ => c.index = i → c.metric = mt ∧ c.dims = d
  | _ => True

instance (i d : Nat) (mt : Metric) (op : C01.Op) : Decidable (opTyped i d mt op) := by
  cases op <;> unfold opTyped <;> infer_instance

/-- **the side condition of `C05_history`**: index `i` is written at dimension `d` and under the metric it
    currently has (`m0` at the start, then the target of its last `prepare`) -/
def Typed (i d : Nat) : Metric → List C01.Op → Prop
  | _, [] => True
  | mt, op :: ops => opTyped i d mt op ∧ Typed i d (metricStep i mt op) ops

instance decTyped (i d : Nat) : (mt : Metric) → (ops : List C01.Op) → Decidable (Typed i d mt ops)
  | _, [] => isTrue trivial
  | mt, op :: ops =>
    have := decTyped i d (metricStep i mt op) ops
    by unfold Typed; infer_instance

theorem typed_append (i d : Nat) (ops : List C01.Op) (op : C01.Op) : ∀ mt,
    Typed i d mt (ops ++ [op]) ↔ Typed i d mt ops ∧ opTyped i d (metricOf i mt ops) op := by
  induction ops with
  | nil => intro mt; simp [Typed, metricOf]
  | cons a ops ih =>
    intro mt
    simp only [List.cons_append, Typed, ih, metricOf, List.foldl_cons, and_assoc]

theorem metricOf_snoc (i : Nat) (m0 : Metric) (ops : List C01.Op) (op : C01.Op) :
    metricOf i m0 (ops ++ [op]) = metricStep i (metricOf i m0 ops) op := by
  simp [metricOf, List.foldl_append]

/-! ## the representation invariant and its preservation -/

/-- the `Cfg` the index is read with -/
def rcfg (i : Nat) (mt : Metric) (d : Nat) : Cfg := { index := i, metric := mt, dims := d }

/-- the store represents the item map: `item_vector` is the lookup, and the map is ascending -/
def Rep (K : Cfg) (s : Store) (m : IMap) : Prop :=
  (∀ id, Writer.itemVector K s id = List.lookup id m) ∧ Asc m

theorem itemVector_cfg (c : Cfg) (s : Store) (id : Nat) :
    Writer.itemVector c s id = Writer.itemVector (rcfg c.index c.metric c.dims) s id := rfl

theorem itemVector_congr_get {K : Cfg} {s s' : Store} {id : Nat}
    (h : Store.get s' (K.itemKey id) = Store.get s (K.itemKey id)) :
    Writer.itemVector K s' id = Writer.itemVector K s id := by
  unfold Writer.itemVector Writer.itemLeaf; rw [h]

theorem itemVector_of_sameUpToHeader {K : Cfg} {s s' : Store} {id : Nat}
    (h : SameUpToHeader (Store.get s (K.itemKey id)) (Store.get s' (K.itemKey id))) :
    Writer.itemVector K s' id = Writer.itemVector K s id := by
  unfold Writer.itemVector Writer.itemLeaf
  rcases h with e | ⟨h1, h2, v, e1, e2⟩
  · rw [e]
  · rw [e1, e2]; rfl

theorem itemKey_rcfg {c : Cfg} {i : Nat} (h : c.index = i) (mt : Metric) (d id : Nat) :
    (rcfg i mt d).itemKey id = c.itemKey id := by
  simp [Cfg.itemKey, rcfg, h]

theorem effective_iff (i : Nat) (s : Store) (op : C01.Op) :
    C06.effective i s op = true ↔ op.cfg.index = i ∧ C06.accepted s op = true := by
  simp [C06.effective]

/-- a build — of any index, successful or not — changes no `item_vector` answer of any index, whatever the
    metric and the dimension it is read with -/
theorem itemVector_step_build (s : Store) (c : Cfg) (o : BuildOpts) (fuel : Nat) (env : BState)
    (hop : (C01.Op.build c o fuel env).wf) (hinv : ∀ c : Cfg, c.index < 65536 → IndexInv c s)
    (K : Cfg) (hK : K.index < 65536) (id : Nat) :
    Writer.itemVector K (C01.step s (.build c o fuel env)) id = Writer.itemVector K s id := by
  have hnext := C01.C01_inv_step freshSupply s (.build c o fuel env) hop hinv _ hK
  simp only [C01.step] at hnext ⊢
  cases h : Build.build c o fuel { env with store := s } with
  | error e => rfl
  | ok r =>
    obtain ⟨u, st'⟩ := r
    rw [h] at hnext
    by_cases hk : (K.itemKey id).wf
    · exact itemVector_of_sameUpToHeader
        (C05_build_item_keys c hop.1 o fuel { env with store := s } st' (hinv _ hK).1.1 h _ hk rfl)
    · apply itemVector_congr_get
      rw [Store.get_none_of_not_wf hnext.1.2.1 hk, Store.get_none_of_not_wf (hinv _ hK).1.2.1 hk]

/-- an effective `add` (or `append`, which is an `add` when it succeeds) -/
theorem rep_add {i d : Nat} {mt : Metric} {s s' : Store} {m : IMap} {c : Cfg} {id : Nat} {vec : List Nat}
    (hr : Rep (rcfg i mt d) s m) (hidx : c.index = i) (ht : c.metric = mt ∧ c.dims = d)
    (h : Writer.addItem c s id vec = .ok s') :
    Rep (rcfg i mt d) s' (mset id (readback c.metric c.dims vec) m) := by
  obtain ⟨hv, ha⟩ := hr
  refine ⟨fun id' => ?_, asc_mset _ _ ha⟩
  rw [lookup_mset, ← hv id', C05_vector, C05_vector, C05_add_all c (rcfg i mt d) s s' id vec h id']
  by_cases hid : id' = id
  · rw [if_pos ⟨hidx.symm, hid⟩, if_pos hid]
    obtain ⟨hm, hd⟩ := ht
    subst hm hd
    rfl
  · rw [if_neg (fun e => hid e.2), if_neg hid]

theorem rep_step {i d : Nat} (hi : i < 65536) {mt : Metric} (s : Store) (op : C01.Op) (hop : op.wf)
    (hinv : ∀ c : Cfg, c.index < 65536 → IndexInv c s) {m : IMap}
    (hr : Rep (rcfg i mt d) s m) (ht : opTyped i d mt op) :
    Rep (rcfg i (metricStep i mt op) d) (C01.step s op) (specOp i s m op) := by
  have hKi : (rcfg i mt d).index < 65536 := hi
  have hs : Store.Sorted s := (hinv _ hKi).1.1
  have hw : Store.WF s := (hinv _ hKi).1.2.1
  unfold specOp
  cases he : C06.effective i s op with
  | false =>
    rw [if_neg (by simp)]
    have hk := C06.step_not_effective s op hop hinv (rcfg i mt d) he
    have hmt : metricStep i mt op = mt := by
      cases op with
      | prepare c m' =>
        show (if c.index = i then m' else mt) = mt
        by_cases hidx : c.index = i
        · rw [if_pos hidx]
          obtain ⟨hm, _⟩ := ht hidx
          by_cases hne : m' = c.metric
          · rw [hne, hm]
          · have hinv' := hinv c hop
            obtain ⟨s', h, _⟩ := C18.C18_change c m' s hne hinv'.1.2.1 hinv'.1.1 hop hinv'.1.2.2.1
            have : C06.effective i s (.prepare c m') = true := by
              simp [C06.effective, C06.accepted, C01.Op.cfg, hidx, h, C06.okB, hne]
            rw [this] at he; cases he
        · rw [if_neg hidx]
      | _ => rfl
    rw [hmt]
    exact ⟨fun id => (itemVector_congr_get (hk _ rfl)).trans (hr.1 id), hr.2⟩
  | true =>
    rw [if_pos rfl]
    obtain ⟨hidx, hacc⟩ := (effective_iff i s op).1 he
    cases op with
    | add c id vec =>
      replace hidx : c.index = i := hidx
      simp only [C01.step, specAfter, metricStep]
      cases h : Writer.addItem c s id vec with
      | error e => simp [C06.accepted, h, C06.okB] at hacc
      | ok s' => exact rep_add hr hidx (ht hidx (Writer.addItem_ok h).1) h
    | append c id vec =>
      replace hidx : c.index = i := hidx
      simp only [C01.step, specAfter, metricStep]
      cases h : Writer.appendItem c s id vec with
      | error e => simp [C06.accepted, h, C06.okB] at hacc
      | ok s' =>
        have h' := Writer.appendItem_ok_eq_addItem hs h
        exact rep_add hr hidx (ht hidx (Writer.addItem_ok h').1) h'
    | del c id =>
      replace hidx : c.index = i := hidx
      simp only [C01.step, specAfter, metricStep]
      refine ⟨fun id' => ?_, asc_mdel _ hr.2⟩
      rw [lookup_mdel, ← hr.1 id', C05_vector, C05_vector, C05_del_all c (rcfg i mt d) s id id']
      by_cases hid : id' = id
      · rw [if_pos ⟨hidx.symm, hid⟩, if_pos hid]; rfl
      · rw [if_neg (fun e => hid e.2), if_neg hid]
    | clear c =>
      replace hidx : c.index = i := hidx
      simp only [C01.step, specAfter, metricStep]
      refine ⟨fun id' => ?_, asc_nil⟩
      rw [C05_vector, absItems_of_get_none (c := rcfg i mt d) (Writer.get_clear_same c s _ hidx.symm)]
      rfl
    | build c o fuel env =>
      simp only [specAfter, metricStep]
      exact ⟨fun id => (itemVector_step_build s c o fuel env hop hinv _ hKi id).trans (hr.1 id), hr.2⟩
    | prepare c m' =>
      replace hidx : c.index = i := hidx
      obtain ⟨hm, hd⟩ := ht hidx
      have hne : m' ≠ c.metric := by
        intro e; simp [C06.accepted, e] at hacc
      have hinv' := hinv c hop
      obtain ⟨s', h, _, hsome, hleaf, _⟩ :=
        C18.C18_change c m' s hne hinv'.1.2.1 hinv'.1.1 hop hinv'.1.2.2.1
      simp only [C01.step, specAfter, metricStep, h, if_pos hidx]
      refine ⟨fun id => ?_, asc_mmap _ hr.2⟩
      rw [lookup_mmap, ← hr.1 id]
      have hkey : ∀ mt', (rcfg i mt' d).itemKey id = c.itemKey id := fun mt' => itemKey_rcfg hidx mt' d id
      cases hg : Store.get s (c.itemKey id) with
      | none =>
        have h1 : Store.get s' (c.itemKey id) = none := by
          have := hsome id
          rw [hg] at this
          cases hx : Store.get s' (c.itemKey id) with
          | none => rfl
          | some v => rw [hx] at this; cases this
        unfold Writer.itemVector Writer.itemLeaf
        rw [hkey, hkey, h1, hg]; rfl
      | some val =>
        obtain ⟨hd0, w, rfl⟩ := get_item_leaf hinv'.1.2.2.1 hg
        have h1 := hleaf id hd0 w hg
        unfold Writer.itemVector Writer.itemLeaf
        rw [hkey, hkey, h1, hg]
        subst hm hd
        rfl

theorem rep_foldl {i d : Nat} (hi : i < 65536) (ops : List C01.Op) (hops : ∀ op ∈ ops, op.wf) :
    ∀ (s : Store) (m : IMap) (mt : Metric), (∀ c : Cfg, c.index < 65536 → IndexInv c s) →
      Rep (rcfg i mt d) s m → Typed i d mt ops →
      Rep (rcfg i (metricOf i mt ops) d) (ops.foldl C01.step s) (specFrom i s m ops) := by
  induction ops with
  | nil => intro s m mt _ hr _; exact hr
  | cons op ops ih =>
    intro s m mt hinv hr ht
    have hop := hops op (by simp)
    exact ih (fun op' h' => hops op' (List.mem_cons_of_mem _ h')) _ _ _
      (C01.C01_inv_step freshSupply s op hop hinv) (rep_step hi s op hop hinv hr ht.1) ht.2

theorem rep_empty (K : Cfg) : Rep K [] [] := ⟨fun _ => rfl, asc_nil⟩

/-! ## presence needs no side condition

Which ids are stored does not depend on the metrics and dimensions of the `Cfg`s: the ids of `spec` are the
stored ids after EVERY well-formed history. -/

theorem itemVector_isSome (c : Cfg) (s : Store) (hl : ItemsAreLeaves c s) (id : Nat) :
    (Writer.itemVector c s id).isSome = (Store.get s (c.itemKey id)).isSome := by
  rw [C05_vector, Option.isSome_map, absItems_isSome_iff hl]

/-- the store holds exactly the ids of the map -/
def RepIds (K : Cfg) (s : Store) (m : IMap) : Prop :=
  (∀ id, Writer.containsItem K s id = (List.lookup id m).isSome) ∧ Asc m

theorem containsItem_congr_get {K : Cfg} {s s' : Store} {id : Nat}
    (h : Store.get s' (K.itemKey id) = Store.get s (K.itemKey id)) :
    Writer.containsItem K s' id = Writer.containsItem K s id := by
  unfold Writer.containsItem Store.contains; rw [h]

theorem repIds_add {K : Cfg} {s s' : Store} {m : IMap} {c : Cfg} {id : Nat} {vec : List Nat} (x : List Nat)
    (hr : RepIds K s m) (hidx : c.index = K.index) (h : Writer.addItem c s id vec = .ok s') :
    RepIds K s' (mset id x m) := by
  obtain ⟨hv, ha⟩ := hr
  refine ⟨fun id' => ?_, asc_mset _ _ ha⟩
  rw [lookup_mset]
  unfold Writer.containsItem Store.contains
  rw [Writer.get_addItem h, if_neg (Cfg.itemKey_ne_updatedKey c K id id')]
  by_cases hid : id' = id
  · rw [if_pos ((Cfg.itemKey_eq_iff c K id id').2 ⟨hidx.symm, hid⟩), if_pos hid]; rfl
  · rw [if_neg (fun e => hid ((Cfg.itemKey_eq_iff c K id id').1 e).2), if_neg hid]
    exact hv id'

theorem repIds_step {K : Cfg} (hi : K.index < 65536) (s : Store) (op : C01.Op) (hop : op.wf)
    (hinv : ∀ c : Cfg, c.index < 65536 → IndexInv c s) {m : IMap} (hr : RepIds K s m) :
    RepIds K (C01.step s op) (specOp K.index s m op) := by
  have hs : Store.Sorted s := (hinv _ hi).1.1
  have hw : Store.WF s := (hinv _ hi).1.2.1
  unfold specOp
  cases he : C06.effective K.index s op with
  | false =>
    rw [if_neg (by simp)]
    have hk := C06.step_not_effective s op hop hinv K he
    exact ⟨fun id => (containsItem_congr_get (hk _ rfl)).trans (hr.1 id), hr.2⟩
  | true =>
    rw [if_pos rfl]
    obtain ⟨hidx, hacc⟩ := (effective_iff K.index s op).1 he
    cases op with
    | add c id vec =>
      replace hidx : c.index = K.index := hidx
      simp only [C01.step, specAfter]
      cases h : Writer.addItem c s id vec with
      | error e => simp [C06.accepted, h, C06.okB] at hacc
      | ok s' => exact repIds_add _ hr hidx h
    | append c id vec =>
      replace hidx : c.index = K.index := hidx
      simp only [C01.step, specAfter]
      cases h : Writer.appendItem c s id vec with
      | error e => simp [C06.accepted, h, C06.okB] at hacc
      | ok s' => exact repIds_add _ hr hidx (Writer.appendItem_ok_eq_addItem hs h)
    | del c id =>
      replace hidx : c.index = K.index := hidx
      simp only [C01.step, specAfter]
      refine ⟨fun id' => ?_, asc_mdel _ hr.2⟩
      rw [lookup_mdel]
      unfold Writer.containsItem Store.contains
      rw [Writer.get_delItem, if_neg (fun h => Cfg.itemKey_ne_updatedKey c K id id' h.1)]
      by_cases hid : id' = id
      · rw [if_pos ((Cfg.itemKey_eq_iff c K id id').2 ⟨hidx.symm, hid⟩), if_pos hid]; rfl
      · rw [if_neg (fun e => hid ((Cfg.itemKey_eq_iff c K id id').1 e).2), if_neg hid]
        exact hr.1 id'
    | clear c =>
      replace hidx : c.index = K.index := hidx
      simp only [C01.step, specAfter]
      refine ⟨fun id' => ?_, asc_nil⟩
      unfold Writer.containsItem Store.contains
      rw [Writer.get_clear_same c s _ hidx.symm]
      rfl
    | build c o fuel env =>
      have hnext := C01.C01_inv_step freshSupply s (.build c o fuel env) hop hinv _ hi
      simp only [C01.step, specAfter] at hnext ⊢
      cases h : Build.build c o fuel { env with store := s } with
      | error e => simp [C06.accepted, h, C06.okB] at hacc
      | ok r =>
        obtain ⟨u, st'⟩ := r
        rw [h] at hnext
        refine ⟨fun id => ?_, hr.2⟩
        rw [← hr.1 id]
        by_cases hk : (K.itemKey id).wf
        · unfold Writer.containsItem Store.contains
          exact (C05_build_item_keys c hop.1 o fuel { env with store := s } st' hs h _ hk rfl).isSome_eq.symm
        · apply containsItem_congr_get
          rw [Store.get_none_of_not_wf hnext.1.2.1 hk, Store.get_none_of_not_wf hw hk]
    | prepare c m' =>
      replace hidx : c.index = K.index := hidx
      have hne : m' ≠ c.metric := by
        intro e; simp [C06.accepted, e] at hacc
      have hinv' := hinv c hop
      obtain ⟨s', h, _, hsome, _⟩ :=
        C18.C18_change c m' s hne hinv'.1.2.1 hinv'.1.1 hop hinv'.1.2.2.1
      simp only [C01.step, specAfter, h]
      refine ⟨fun id => ?_, asc_mmap _ hr.2⟩
      rw [lookup_mmap, Option.isSome_map, ← hr.1 id]
      have hkey : K.itemKey id = c.itemKey id := by simp [Cfg.itemKey, hidx]
      unfold Writer.containsItem Store.contains
      rw [hkey]; exact hsome id

theorem repIds_foldl {K : Cfg} (hi : K.index < 65536) (ops : List C01.Op) (hops : ∀ op ∈ ops, op.wf) :
    ∀ (s : Store) (m : IMap), (∀ c : Cfg, c.index < 65536 → IndexInv c s) → RepIds K s m →
      RepIds K (ops.foldl C01.step s) (specFrom K.index s m ops) := by
  induction ops with
  | nil => intro s m _ hr; exact hr
  | cons op ops ih =>
    intro s m hinv hr
    have hop := hops op (by simp)
    exact ih (fun op' h' => hops op' (List.mem_cons_of_mem _ h')) _ _
      (C01.C01_inv_step freshSupply s op hop hinv) (repIds_step hi s op hop hinv hr)

theorem repIds_history (ops : List C01.Op) (hops : ∀ op ∈ ops, op.wf) (c : Cfg) (hi : c.index < 65536) :
    RepIds c (C01.run ops) (spec c.index ops) :=
  repIds_foldl hi ops hops [] [] (fun c _ => C01.C01_inv_empty c) ⟨fun _ => rfl, asc_nil⟩

/-- what a client reads of the PRESENCE of items, from a store that holds exactly the ids of `m` -/
theorem presence_of_repIds {c : Cfg} {s : Store} {m : IMap} (hi : c.index < 65536) (hinv : IndexInv c s)
    (hr : RepIds c s m) :
    (∀ id, Writer.containsItem c s id = (List.lookup id m).isSome) ∧
    (∀ id, (Writer.itemVector c s id).isSome = (List.lookup id m).isSome) ∧
    (Writer.iter c s).map (·.1) = m.map (·.1) ∧
    Writer.isEmpty c s = m.isEmpty ∧
    (∀ id, (Writer.delItem c s id).2 = (List.lookup id m).isSome) ∧
    Store.keysOf s c.index modeItem = m.map (·.1) := by
  obtain ⟨hc, ha⟩ := hr
  have hs : Store.Sorted s := hinv.1.1
  have hw : Store.WF s := hinv.1.2.1
  have hl : ItemsAreLeaves c s := hinv.1.2.2.1
  have hkeys : Store.keysOf s c.index modeItem = m.map (·.1) := by
    apply IdSet.sorted_ext (Store.keysOf_sorted hs hw _ _ hi (by decide))
      ((Store.idSorted_iff_pairwise _).2 ha)
    intro id
    rw [Store.mem_keysOf_iff hw _ _ _ hi (by decide), mem_map_fst_iff_lookup, ← hc id]
    rfl
  have hids : (Writer.iter c s).map (·.1) = m.map (·.1) := by rw [C05_iter_ids c s hw hl hi, hkeys]
  refine ⟨hc, fun id => ?_, hids, ?_, fun id => ?_, hkeys⟩
  · rw [itemVector_isSome c s hl, ← hc id]; rfl
  · unfold Writer.isEmpty
    have := congrArg List.isEmpty hids
    simpa using this
  · rw [Writer.delItem_snd, ← hc id]; rfl

/-! ## the reads, from the representation invariant -/

/-- everything a client reads of index `c.index`, from a store that represents the item map `m` -/
theorem reads_of_rep {c : Cfg} {s : Store} {m : IMap} (hi : c.index < 65536) (hinv : IndexInv c s)
    (hr : Rep c s m) :
    (∀ id, Writer.itemVector c s id = List.lookup id m) ∧
    (∀ id, Writer.containsItem c s id = (List.lookup id m).isSome) ∧
    Writer.iter c s = m ∧
    Writer.isEmpty c s = m.isEmpty ∧
    (∀ id, (Writer.delItem c s id).2 = (List.lookup id m).isSome) ∧
    Store.keysOf s c.index modeItem = m.map (·.1) := by
  obtain ⟨hv, ha⟩ := hr
  have hs : Store.Sorted s := hinv.1.1
  have hw : Store.WF s := hinv.1.2.1
  have hl : ItemsAreLeaves c s := hinv.1.2.2.1
  have hc : ∀ id, Writer.containsItem c s id = (List.lookup id m).isSome := by
    intro id
    unfold Writer.containsItem Store.contains
    rw [← itemVector_isSome c s hl, hv]
  have hkeys : Store.keysOf s c.index modeItem = m.map (·.1) := by
    apply IdSet.sorted_ext (Store.keysOf_sorted hs hw _ _ hi (by decide))
      ((Store.idSorted_iff_pairwise _).2 ha)
    intro id
    rw [Store.mem_keysOf_iff hw _ _ _ hi (by decide), mem_map_fst_iff_lookup, ← hv id,
      itemVector_isSome c s hl]
    rfl
  have hiter : Writer.iter c s = m := by
    rw [C05_iter_list c s hs hw hl hi, hkeys]
    conv => rhs; rw [asc_eq_filterMap ha]
    apply filterMap_congr'
    intro id _
    rw [hv]
  refine ⟨hv, hc, hiter, ?_, ?_, hkeys⟩
  · unfold Writer.isEmpty; rw [hiter]
  · intro id
    rw [Writer.delItem_snd, ← hc id]; rfl

/-! ## C05 over histories -/

/-- the representation invariant after every well-formed, typed history -/
theorem rep_history (ops : List C01.Op) (hops : ∀ op ∈ ops, op.wf) (c : Cfg) (hi : c.index < 65536)
    (m0 : Metric) (ht : Typed c.index c.dims m0 ops) (hm : c.metric = metricOf c.index m0 ops) :
    Rep c (C01.run ops) (spec c.index ops) := by
  have h := rep_foldl (i := c.index) (d := c.dims) hi ops hops [] [] m0 (fun c _ => C01.C01_inv_empty c)
    (rep_empty _) ht
  rw [← hm] at h
  exact h

/-- **C05 over histories**: for every well-formed history `ops` (any mix of add / append / del / clear /
    build / prepare over any indexes, rejected calls and failed builds included) and every `c` with a `u16`
    index, provided index `c.index` was written at the dimension `c.dims` and under the metric it had at that
    point (`Typed`), and `c.metric` is the metric the index has now (`metricOf`):
    * `item_vector` returns what the specification map holds: the vector last written and not since deleted or
      cleared, as read back through every metric change since;
    * `contains_item` is presence in the map;
    * `iter` IS the map: every stored item once, in ascending id order, with that same vector;
    * `is_empty` says whether the map is empty;
    * `del_item` would report whether the id is in the map;
    * the stored item ids are the ids of the map. -/
theorem C05_history (ops : List C01.Op) (hops : ∀ op ∈ ops, op.wf) (c : Cfg) (hi : c.index < 65536)
    (m0 : Metric) (ht : Typed c.index c.dims m0 ops) (hm : c.metric = metricOf c.index m0 ops) :
    (∀ id, Writer.itemVector c (C01.run ops) id = List.lookup id (spec c.index ops)) ∧
    (∀ id, Writer.containsItem c (C01.run ops) id = (List.lookup id (spec c.index ops)).isSome) ∧
    Writer.iter c (C01.run ops) = spec c.index ops ∧
    Writer.isEmpty c (C01.run ops) = (spec c.index ops).isEmpty ∧
    (∀ id, (Writer.delItem c (C01.run ops) id).2 = (List.lookup id (spec c.index ops)).isSome) ∧
    Store.keysOf (C01.run ops) c.index modeItem = (spec c.index ops).map (·.1) ∧
    Asc (spec c.index ops) :=
  have hr := rep_history ops hops c hi m0 ht hm
  have h := reads_of_rep hi (C01.C01_invariant ops hops c hi) hr
  ⟨h.1, h.2.1, h.2.2.1, h.2.2.2.1, h.2.2.2.2.1, h.2.2.2.2.2, hr.2⟩

/-- **C05 over histories, presence — no side condition**: after EVERY well-formed history, whatever the
    metrics and dimensions of its `Cfg`s and of the reading `c`, an item is reported present iff it is in the
    specification map (added and not since deleted or cleared): `contains_item`, `item_vector` being `Some`,
    the ids `iter` yields (ascending, each once), `is_empty`, what `del_item` would report, the stored ids. -/
theorem C05_history_presence (ops : List C01.Op) (hops : ∀ op ∈ ops, op.wf) (c : Cfg) (hi : c.index < 65536) :
    (∀ id, Writer.containsItem c (C01.run ops) id = (List.lookup id (spec c.index ops)).isSome) ∧
    (∀ id, (Writer.itemVector c (C01.run ops) id).isSome = (List.lookup id (spec c.index ops)).isSome) ∧
    (Writer.iter c (C01.run ops)).map (·.1) = (spec c.index ops).map (·.1) ∧
    Writer.isEmpty c (C01.run ops) = (spec c.index ops).isEmpty ∧
    (∀ id, (Writer.delItem c (C01.run ops) id).2 = (List.lookup id (spec c.index ops)).isSome) ∧
    Store.keysOf (C01.run ops) c.index modeItem = (spec c.index ops).map (·.1) ∧
    Asc (spec c.index ops) :=
  have hr := repIds_history ops hops c hi
  have h := presence_of_repIds hi (C01.C01_invariant ops hops c hi) hr
  ⟨h.1, h.2.1, h.2.2.1, h.2.2.2.1, h.2.2.2.2.1, h.2.2.2.2.2, hr.2⟩

theorem wf_snoc {ops : List C01.Op} {op : C01.Op} (hops : ∀ op ∈ ops, op.wf) (hop : op.wf) :
    ∀ op' ∈ ops ++ [op], op'.wf := by
  intro op' h
  rcases List.mem_append.1 h with h | h
  · exact hops op' h
  · rw [List.mem_singleton.1 h]; exact hop

/-- a build at the end of a history: typedness, current metric and specification map are those before it -/
theorem build_snoc (ops : List C01.Op) (b : C01.Op) (hb : ∃ c o fuel env, b = .build c o fuel env) :
    (∀ i, spec i (ops ++ [b]) = spec i ops) ∧
    (∀ i m0, metricOf i m0 (ops ++ [b]) = metricOf i m0 ops) ∧
    (∀ i d m0, Typed i d m0 ops → Typed i d m0 (ops ++ [b])) := by
  obtain ⟨c, o, fuel, env, rfl⟩ := hb
  refine ⟨fun i => ?_, fun i m0 => ?_, fun i d m0 ht => (typed_append _ _ _ _ _).2 ⟨ht, trivial⟩⟩
  · rw [spec_snoc]; unfold specOp; split <;> rfl
  · rw [metricOf_snoc]; rfl

/-- **C05 over histories, reader side, presence — no side condition**: if the last operation of the history
    is a successful build under `c`, `Reader::open c` succeeds with the declared dimension and exactly the
    ids of the specification map, in ascending order -/
theorem C05_history_reader_ids (ops : List C01.Op) (hops : ∀ op ∈ ops, op.wf)
    (c : Cfg) (o : BuildOpts) (fuel : Nat) (env st' : BState) (hwf : (C01.Op.build c o fuel env).wf)
    (h : Build.build c o fuel { env with store := C01.run ops } = .ok ((), st')) :
    C01.run (ops ++ [.build c o fuel env]) = st'.store ∧
    spec c.index (ops ++ [.build c o fuel env]) = spec c.index ops ∧
    (∃ roots, Reader.open c st'.store = .ok ⟨roots, c.dims, (spec c.index ops).map (·.1)⟩) ∧
    (∀ id, Writer.containsItem c st'.store id = (List.lookup id (spec c.index ops)).isSome) ∧
    (Writer.iter c st'.store).map (·.1) = (spec c.index ops).map (·.1) ∧
    Writer.isEmpty c st'.store = (spec c.index ops).isEmpty := by
  have hrun : C01.run (ops ++ [.build c o fuel env]) = st'.store := by
    rw [C06.run_snoc]; simp only [C01.step, h]
  have hspec := (build_snoc ops (.build c o fuel env) ⟨_, _, _, _, rfl⟩).1 c.index
  have hall := C05_history_presence _ (wf_snoc hops hwf) c hwf.1
  rw [hrun, hspec] at hall
  obtain ⟨roots, hopen, _⟩ := C01.C01_reader_reachable ops hops c o fuel env st' hwf h
  rw [(C05_history_presence ops hops c hwf.1).2.2.2.2.2.1] at hopen
  exact ⟨hrun, hspec, ⟨roots, hopen⟩, hall.1, hall.2.2.1, hall.2.2.2.1⟩

/-- **C05 over histories, reader side**: if the last operation of the history is a successful build under
    `c` (typed as in `C05_history`), the build changed nothing of the specification map, `Reader::open`
    succeeds with the declared dimension and exactly the ids of the map, in ascending order, and the
    reader-side `item_vector` / `iter` / `contains_item` / `is_empty` (the same functions, on the state the
    build left) answer from the map. -/
theorem C05_history_reader (ops : List C01.Op) (hops : ∀ op ∈ ops, op.wf)
    (c : Cfg) (o : BuildOpts) (fuel : Nat) (env st' : BState) (hwf : (C01.Op.build c o fuel env).wf)
    (h : Build.build c o fuel { env with store := C01.run ops } = .ok ((), st'))
    (m0 : Metric) (ht : Typed c.index c.dims m0 ops) (hm : c.metric = metricOf c.index m0 ops) :
    C01.run (ops ++ [.build c o fuel env]) = st'.store ∧
    spec c.index (ops ++ [.build c o fuel env]) = spec c.index ops ∧
    (∃ roots, Reader.open c st'.store = .ok ⟨roots, c.dims, (spec c.index ops).map (·.1)⟩) ∧
    (∀ id, Writer.itemVector c st'.store id = List.lookup id (spec c.index ops)) ∧
    (∀ id, Writer.containsItem c st'.store id = (List.lookup id (spec c.index ops)).isSome) ∧
    Writer.iter c st'.store = spec c.index ops ∧
    Writer.isEmpty c st'.store = (spec c.index ops).isEmpty := by
  obtain ⟨hrun, hspec, hopen, _⟩ := C05_history_reader_ids ops hops c o fuel env st' hwf h
  obtain ⟨_, hmet, hty⟩ := build_snoc ops (.build c o fuel env) ⟨_, _, _, _, rfl⟩
  have hall := C05_history _ (wf_snoc hops hwf) c hwf.1 m0 (hty _ _ _ ht) (by rw [hmet]; exact hm)
  rw [hrun, hspec] at hall
  exact ⟨hrun, hspec, hopen, hall.1, hall.2.1, hall.2.2.1, hall.2.2.2.1⟩

/-! ## corollaries -/

/-- every read of an index is determined by its `item_vector` answers -/
theorem reads_congr {c : Cfg} {s s' : Store} (hi : c.index < 65536) (hinv : IndexInv c s)
    (hinv' : IndexInv c s') (hv : ∀ id, Writer.itemVector c s' id = Writer.itemVector c s id) :
    (∀ id, Writer.containsItem c s' id = Writer.containsItem c s id) ∧
    Writer.iter c s' = Writer.iter c s ∧
    Writer.isEmpty c s' = Writer.isEmpty c s ∧
    (∀ id, (Writer.delItem c s' id).2 = (Writer.delItem c s id).2) ∧
    Store.keysOf s' c.index modeItem = Store.keysOf s c.index modeItem := by
  have hc : ∀ id, Writer.containsItem c s' id = Writer.containsItem c s id := by
    intro id
    unfold Writer.containsItem Store.contains
    rw [← itemVector_isSome c s' hinv'.1.2.2.1, ← itemVector_isSome c s hinv.1.2.2.1, hv]
  have hkeys : Store.keysOf s' c.index modeItem = Store.keysOf s c.index modeItem := by
    apply IdSet.sorted_ext (Store.keysOf_sorted hinv'.1.1 hinv'.1.2.1 _ _ hi (by decide))
      (Store.keysOf_sorted hinv.1.1 hinv.1.2.1 _ _ hi (by decide))
    intro id
    rw [Store.mem_keysOf_iff hinv'.1.2.1 _ _ _ hi (by decide), Store.mem_keysOf_iff hinv.1.2.1 _ _ _ hi (by decide)]
    exact Eq.congr (hc id) rfl
  have hiter : Writer.iter c s' = Writer.iter c s := by
    rw [C05_iter_list c s' hinv'.1.1 hinv'.1.2.1 hinv'.1.2.2.1 hi,
      C05_iter_list c s hinv.1.1 hinv.1.2.1 hinv.1.2.2.1 hi, hkeys]
    apply filterMap_congr'
    intro id _
    rw [hv]
  refine ⟨hc, hiter, ?_, fun id => ?_, hkeys⟩
  · unfold Writer.isEmpty; rw [hiter]
  · rw [Writer.delItem_snd, Writer.delItem_snd]; exact hc id

/-- **building never changes any of this**: appending ANY build (of any index, under any `Cfg`, options,
    oracle streams, fuel and cancellation schedule; successful or not) to a well-formed history changes
    neither the specification map of any index nor any read answer of any index — `item_vector`,
    `contains_item`, `iter`, `is_empty`, what `del_item` would report, the stored ids — whatever the metric and
    the dimension the index is read with. No side condition. -/
theorem C05_build_never_changes_spec (ops : List C01.Op) (hops : ∀ op ∈ ops, op.wf)
    (c' : Cfg) (o : BuildOpts) (fuel : Nat) (env : BState) (hwf : (C01.Op.build c' o fuel env).wf) :
    (∀ i, spec i (ops ++ [.build c' o fuel env]) = spec i ops) ∧
    ∀ c : Cfg, c.index < 65536 →
      (∀ id, Writer.itemVector c (C01.run (ops ++ [.build c' o fuel env])) id =
        Writer.itemVector c (C01.run ops) id) ∧
      (∀ id, Writer.containsItem c (C01.run (ops ++ [.build c' o fuel env])) id =
        Writer.containsItem c (C01.run ops) id) ∧
      Writer.iter c (C01.run (ops ++ [.build c' o fuel env])) = Writer.iter c (C01.run ops) ∧
      Writer.isEmpty c (C01.run (ops ++ [.build c' o fuel env])) = Writer.isEmpty c (C01.run ops) ∧
      (∀ id, (Writer.delItem c (C01.run (ops ++ [.build c' o fuel env])) id).2 =
        (Writer.delItem c (C01.run ops) id).2) ∧
      Store.keysOf (C01.run (ops ++ [.build c' o fuel env])) c.index modeItem =
        Store.keysOf (C01.run ops) c.index modeItem := by
  refine ⟨(build_snoc ops _ ⟨_, _, _, _, rfl⟩).1, fun c hi => ?_⟩
  have hinv := C01.C01_invariant ops hops
  have hv : ∀ id, Writer.itemVector c (C01.run (ops ++ [.build c' o fuel env])) id =
      Writer.itemVector c (C01.run ops) id := by
    intro id
    rw [C06.run_snoc]
    exact itemVector_step_build (C01.run ops) c' o fuel env hwf hinv c hi id
  have h := reads_congr hi (hinv c hi) (C01.C01_invariant _ (wf_snoc hops hwf) c hi) hv
  exact ⟨hv, h⟩

/-- an accepted `add` at the end of a typed history: typedness, current metric, and the map update -/
theorem add_snoc (ops : List C01.Op) (c : Cfg) (id : Nat) (v : List Nat) (hv : v.length = c.dims)
    (m0 : Metric) (ht : Typed c.index c.dims m0 ops) (hm : c.metric = metricOf c.index m0 ops) :
    spec c.index (ops ++ [.add c id v]) = mset id (readback c.metric c.dims v) (spec c.index ops) ∧
    Typed c.index c.dims m0 (ops ++ [.add c id v]) ∧
    c.metric = metricOf c.index m0 (ops ++ [.add c id v]) := by
  refine ⟨?_, (typed_append _ _ _ _ _).2 ⟨ht, fun _ _ => ⟨hm, rfl⟩⟩, by rw [metricOf_snoc]; exact hm⟩
  rw [spec_snoc]
  have he : C06.effective c.index (C01.run ops) (.add c id v) = true := by
    simp [C06.effective, C06.accepted, C01.Op.cfg, Writer.addItem_of_len _ id hv, C06.okB]
  unfold specOp
  rw [if_pos he]; rfl

/-- **the last write wins**: after any well-formed typed history — whatever it did to `id` before — an `add`
    of `id` of the declared dimension makes `item_vector id` return exactly the read-back of THAT vector:
    the vector itself, bit for bit, under an f32 metric; its `±1.0` sign pattern at the declared dimension
    under a quantised one. The other ids read as before; and a second `add` of the same id overrides the first. -/
theorem C05_overwrite_last_wins (ops : List C01.Op) (hops : ∀ op ∈ ops, op.wf) (c : Cfg) (hi : c.index < 65536)
    (id : Nat) (hid : id < 4294967296) (v : List Nat) (hv : v.length = c.dims)
    (m0 : Metric) (ht : Typed c.index c.dims m0 ops) (hm : c.metric = metricOf c.index m0 ops) :
    spec c.index (ops ++ [.add c id v]) = mset id (readback c.metric c.dims v) (spec c.index ops) ∧
    Writer.itemVector c (C01.run (ops ++ [.add c id v])) id = some (readback c.metric c.dims v) ∧
    (c.metric.isBq = false → Writer.itemVector c (C01.run (ops ++ [.add c id v])) id = some v) ∧
    (c.metric.isBq = true → Writer.itemVector c (C01.run (ops ++ [.add c id v])) id = some (v.map sign)) ∧
    (∀ id', id' ≠ id → Writer.itemVector c (C01.run (ops ++ [.add c id v])) id' =
      Writer.itemVector c (C01.run ops) id') ∧
    (∀ v' : List Nat, v'.length = c.dims →
      Writer.itemVector c (C01.run (ops ++ [.add c id v] ++ [.add c id v'])) id =
        some (readback c.metric c.dims v')) := by
  have key : ∀ (ops : List C01.Op), (∀ op ∈ ops, op.wf) → Typed c.index c.dims m0 ops →
      c.metric = metricOf c.index m0 ops → ∀ v : List Nat, v.length = c.dims → ∀ id',
      Writer.itemVector c (C01.run (ops ++ [.add c id v])) id' =
        if id' = id then some (readback c.metric c.dims v) else Writer.itemVector c (C01.run ops) id' := by
    intro ops hops ht hm v hv id'
    obtain ⟨hs, ht', hm'⟩ := add_snoc ops c id v hv m0 ht hm
    rw [(C05_history _ (wf_snoc hops (show (C01.Op.add c id v).wf from ⟨hi, hid⟩)) c hi m0 ht' hm').1 id', hs, lookup_mset,
      (C05_history ops hops c hi m0 ht hm).1 id']
  obtain ⟨hs, ht', hm'⟩ := add_snoc ops c id v hv m0 ht hm
  have h1 := key ops hops ht hm v hv id
  rw [if_pos rfl] at h1
  refine ⟨hs, h1, fun hb => ?_, fun hb => ?_, fun id' hne => ?_, fun v' hv' => ?_⟩
  · rw [h1, ← hv, readback_f32 _ hb]
  · rw [h1, ← hv, readback_bq _ hb]
  · rw [key ops hops ht hm v hv id', if_neg hne]
  · rw [key _ (wf_snoc hops (show (C01.Op.add c id v).wf from ⟨hi, hid⟩)) ht' hm' v' hv' id, if_pos rfl]

theorem mdel_absent {id : Nat} {m : IMap} (h : List.lookup id m = none) : mdel id m = m := by
  unfold mdel
  rw [List.filter_eq_self]
  intro p hp
  have : ¬ p.1 ∈ m.map (·.1) ∨ p.1 ≠ id := by
    by_cases e : p.1 = id
    · left
      rw [mem_map_fst_iff_lookup, e, h]; simp
    · exact Or.inr e
  rcases this with h' | h'
  · exact absurd (List.mem_map.2 ⟨p, hp, rfl⟩) h'
  · simp [h']

/-- **deletion reports whether the item existed** — no side condition: after every well-formed history,
    `del_item c id` answers `true` iff `id` is in the specification map of the index (added and not since
    deleted or cleared); afterwards the map is the old one without `id` (the other ids keep their vectors),
    `contains_item id` is false and a second `del_item` of the same id answers `false`. -/
theorem C05_delete_reports_presence (ops : List C01.Op) (hops : ∀ op ∈ ops, op.wf) (c : Cfg)
    (hi : c.index < 65536) (id : Nat) (hid : id < 4294967296) :
    (Writer.delItem c (C01.run ops) id).2 = (List.lookup id (spec c.index ops)).isSome ∧
    ((Writer.delItem c (C01.run ops) id).2 = true ↔ id ∈ (spec c.index ops).map (·.1)) ∧
    spec c.index (ops ++ [.del c id]) = mdel id (spec c.index ops) ∧
    Writer.containsItem c (C01.run (ops ++ [.del c id])) id = false ∧
    (Writer.delItem c (C01.run (ops ++ [.del c id])) id).2 = false := by
  have h0 := (C05_history_presence ops hops c hi).2.2.2.2.1 id
  have hs : spec c.index (ops ++ [.del c id]) = mdel id (spec c.index ops) := by
    rw [spec_snoc]; unfold specOp
    cases he : C06.effective c.index (C01.run ops) (.del c id) with
    | true => rw [if_pos rfl]; rfl
    | false =>
      rw [if_neg (by simp)]
      have : (Writer.delItem c (C01.run ops) id).2 = false := by
        simpa [C06.effective, C06.accepted, C01.Op.cfg] using he
      rw [h0] at this
      rw [mdel_absent]
      cases hl : List.lookup id (spec c.index ops) with
      | none => rfl
      | some v => rw [hl] at this; cases this
  have h1 := C05_history_presence _ (wf_snoc hops (show (C01.Op.del c id).wf from ⟨hi, hid⟩)) c hi
  refine ⟨h0, ?_, hs, ?_, ?_⟩
  · rw [h0, mem_map_fst_iff_lookup]
  · rw [h1.1 id, hs, lookup_mdel, if_pos rfl]; rfl
  · rw [h1.2.2.2.2.1 id, hs, lookup_mdel, if_pos rfl]; rfl

/-- an accepted `append` at the end of a typed history: typedness, current metric, and the map update -/
theorem append_snoc (ops : List C01.Op) (c : Cfg) (id : Nat) (v : List Nat)
    (hacc : C06.accepted (C01.run ops) (.append c id v) = true)
    (m0 : Metric) (ht : Typed c.index c.dims m0 ops) (hm : c.metric = metricOf c.index m0 ops) :
    spec c.index (ops ++ [.append c id v]) = mset id (readback c.metric c.dims v) (spec c.index ops) ∧
    Typed c.index c.dims m0 (ops ++ [.append c id v]) ∧
    c.metric = metricOf c.index m0 (ops ++ [.append c id v]) := by
  refine ⟨?_, (typed_append _ _ _ _ _).2 ⟨ht, fun _ _ => ⟨hm, rfl⟩⟩, by rw [metricOf_snoc]; exact hm⟩
  rw [spec_snoc]
  have he : C06.effective c.index (C01.run ops) (.append c id v) = true := by
    simp [C06.effective, C01.Op.cfg, hacc]
  unfold specOp
  rw [if_pos he]; rfl

/-- **the last write wins, through `append_item`**: when LMDB accepts the append (C19: the key is greater than
    every key of the database), it is the same update as `add_item` -/
theorem C05_overwrite_last_wins_append (ops : List C01.Op) (hops : ∀ op ∈ ops, op.wf) (c : Cfg)
    (hi : c.index < 65536) (id : Nat) (hid : id < 4294967296) (v : List Nat)
    (hacc : C06.accepted (C01.run ops) (.append c id v) = true)
    (m0 : Metric) (ht : Typed c.index c.dims m0 ops) (hm : c.metric = metricOf c.index m0 ops) :
    v.length = c.dims ∧
    spec c.index (ops ++ [.append c id v]) = mset id (readback c.metric c.dims v) (spec c.index ops) ∧
    Writer.itemVector c (C01.run (ops ++ [.append c id v])) id = some (readback c.metric c.dims v) ∧
    (c.metric.isBq = false → Writer.itemVector c (C01.run (ops ++ [.append c id v])) id = some v) ∧
    (c.metric.isBq = true → Writer.itemVector c (C01.run (ops ++ [.append c id v])) id = some (v.map sign)) ∧
    (∀ id', id' ≠ id → Writer.itemVector c (C01.run (ops ++ [.append c id v])) id' =
      Writer.itemVector c (C01.run ops) id') := by
  have hv : v.length = c.dims := by
    cases h : Writer.appendItem c (C01.run ops) id v with
    | error e => simp [C06.accepted, h, C06.okB] at hacc
    | ok s' =>
      exact (Writer.addItem_ok (Writer.appendItem_ok_eq_addItem (C01.C01_invariant ops hops c hi).1.1 h)).1
  obtain ⟨hs, ht', hm'⟩ := append_snoc ops c id v hacc m0 ht hm
  have key : ∀ id', Writer.itemVector c (C01.run (ops ++ [.append c id v])) id' =
      if id' = id then some (readback c.metric c.dims v) else Writer.itemVector c (C01.run ops) id' := by
    intro id'
    rw [(C05_history _ (wf_snoc hops (show (C01.Op.append c id v).wf from ⟨hi, hid⟩)) c hi m0 ht' hm').1 id',
      hs, lookup_mset, (C05_history ops hops c hi m0 ht hm).1 id']
  have h1 := key id
  rw [if_pos rfl] at h1
  refine ⟨hv, hs, h1, fun hb => ?_, fun hb => ?_, fun id' hne => ?_⟩
  · rw [h1, ← hv, readback_f32 _ hb]
  · rw [h1, ← hv, readback_bq _ hb]
  · rw [key id', if_neg hne]

/-! ## the equations of the specification, seen from the end of the history -/

/-- **what each operation does to the specification map** (the recursion of `spec`, operation by operation):
    an operation of another index, and an operation the model does not accept (a rejected `add` / `append`, a
    `del` of an absent id, a failed build, a `prepare` to the metric of its `Cfg`), change the map of no index
    concerned; an `add` of the declared length sets `id ↦ readback`, of another length nothing; an accepted
    `append` likewise; a `del` removes the id; a `clear` empties the map; a build changes nothing; a `prepare`
    towards another metric maps every vector through the read-back of the new metric. -/
theorem C05_spec_equations (ops : List C01.Op) (hops : ∀ op ∈ ops, op.wf) :
    (∀ op i, op.cfg.index ≠ i → spec i (ops ++ [op]) = spec i ops) ∧
    (∀ op, C06.accepted (C01.run ops) op = false → ∀ i, spec i (ops ++ [op]) = spec i ops) ∧
    (∀ c id v, spec c.index (ops ++ [.add c id v]) =
      if v.length = c.dims then mset id (readback c.metric c.dims v) (spec c.index ops) else spec c.index ops) ∧
    (∀ c id v, spec c.index (ops ++ [.append c id v]) =
      if C06.accepted (C01.run ops) (.append c id v) = true then mset id (readback c.metric c.dims v) (spec c.index ops)
      else spec c.index ops) ∧
    (∀ c id, c.index < 65536 → spec c.index (ops ++ [.del c id]) = mdel id (spec c.index ops)) ∧
    (∀ c, spec c.index (ops ++ [.clear c]) = []) ∧
    (∀ c o fuel env i, spec i (ops ++ [.build c o fuel env]) = spec i ops) ∧
    (∀ c m', c.index < 65536 → spec c.index (ops ++ [.prepare c m']) =
      if m' = c.metric then spec c.index ops else mmap (readback m' c.dims) (spec c.index ops)) := by
  refine ⟨fun op i hne => ?_, fun op hna i => ?_, fun c id v => ?_, fun c id v => ?_, fun c id hi => ?_,
    fun c => ?_, fun c o fuel env i => (build_snoc ops _ ⟨_, _, _, _, rfl⟩).1 i, fun c m' hi => ?_⟩
  · rw [spec_snoc]; unfold specOp
    rw [if_neg (by simp [(C06.effective_false_iff i _ op).2 (Or.inl hne)])]
  · rw [spec_snoc]; unfold specOp
    rw [if_neg (by simp [(C06.effective_false_iff i _ op).2 (Or.inr hna)])]
  · rw [spec_snoc]; unfold specOp
    by_cases hv : v.length = c.dims
    · rw [if_pos hv, if_pos (by
        simp [C06.effective, C06.accepted, C01.Op.cfg, Writer.addItem_of_len _ id hv, C06.okB])]
      rfl
    · rw [if_neg hv, if_neg (by
        simp [C06.effective, C06.accepted, C01.Op.cfg, Writer.addItem_err _ id hv, C06.okB])]
  · rw [spec_snoc]; unfold specOp
    by_cases ha : C06.accepted (C01.run ops) (.append c id v) = true
    · rw [if_pos ha, if_pos (by simp [C06.effective, C01.Op.cfg, ha])]; rfl
    · rw [if_neg ha, if_neg (by simp [C06.effective, C01.Op.cfg, ha])]
  · rw [spec_snoc]; unfold specOp
    cases he : C06.effective c.index (C01.run ops) (.del c id) with
    | true => rw [if_pos rfl]; rfl
    | false =>
      rw [if_neg (by simp)]
      have h0 := (C05_history_presence ops hops c hi).2.2.2.2.1 id
      have : (Writer.delItem c (C01.run ops) id).2 = false := by
        simpa [C06.effective, C06.accepted, C01.Op.cfg] using he
      rw [h0] at this
      rw [mdel_absent]
      cases hl : List.lookup id (spec c.index ops) with
      | none => rfl
      | some v => rw [hl] at this; cases this
  · rw [spec_snoc]; unfold specOp
    rw [if_pos (by simp [C06.effective, C06.accepted, C01.Op.cfg])]; rfl
  · rw [spec_snoc]; unfold specOp
    have hacc := C06.C06_prepare_accepted ops hops c hi m'
    by_cases hm : m' = c.metric
    · rw [if_pos hm, if_neg (by
        rw [(C06.effective_false_iff _ _ _).2 (Or.inr (by rw [hacc]; simp [hm]))]; simp)]
    · rw [if_neg hm, if_pos (by simp [C06.effective, C01.Op.cfg, hacc, hm])]; rfl

/-! ## a `clear` resets the side condition

After a `clear` the index is empty, so it may be written again under any metric and dimension: the side
condition of `C05_history` is only needed for the part of the history after the last `clear` of the index. -/

theorem specFrom_app (i : Nat) (a b : List C01.Op) : ∀ (s : Store) (m : IMap),
    specFrom i s m (a ++ b) = specFrom i (a.foldl C01.step s) (specFrom i s m a) b := by
  induction a with
  | nil => intro s m; rfl
  | cons x a ih => intro s m; exact ih _ _

/-- **C05 over histories, after a clear**: as `C05_history`, the side condition being asked only of the
    operations `post` that follow a `clear` of the index (`pre`, the operations before it, are arbitrary:
    any metrics, any dimensions) -/
theorem C05_history_after_clear (pre post : List C01.Op) (c0 : Cfg) (hpre : ∀ op ∈ pre, op.wf)
    (hc0 : c0.index < 65536) (hpost : ∀ op ∈ post, op.wf) (c : Cfg) (hi : c.index < 65536)
    (he : c0.index = c.index) (m0 : Metric) (ht : Typed c.index c.dims m0 post)
    (hm : c.metric = metricOf c.index m0 post) :
    (∀ id, Writer.itemVector c (C01.run (pre ++ C01.Op.clear c0 :: post)) id =
      List.lookup id (spec c.index (pre ++ C01.Op.clear c0 :: post))) ∧
    (∀ id, Writer.containsItem c (C01.run (pre ++ C01.Op.clear c0 :: post)) id =
      (List.lookup id (spec c.index (pre ++ C01.Op.clear c0 :: post))).isSome) ∧
    Writer.iter c (C01.run (pre ++ C01.Op.clear c0 :: post)) = spec c.index (pre ++ C01.Op.clear c0 :: post) ∧
    Writer.isEmpty c (C01.run (pre ++ C01.Op.clear c0 :: post)) =
      (spec c.index (pre ++ C01.Op.clear c0 :: post)).isEmpty ∧
    (∀ id, (Writer.delItem c (C01.run (pre ++ C01.Op.clear c0 :: post)) id).2 =
      (List.lookup id (spec c.index (pre ++ C01.Op.clear c0 :: post))).isSome) ∧
    Asc (spec c.index (pre ++ C01.Op.clear c0 :: post)) := by
  have hwf1 : ∀ op ∈ pre ++ [C01.Op.clear c0], op.wf := wf_snoc hpre hc0
  have hsplit : pre ++ C01.Op.clear c0 :: post = (pre ++ [C01.Op.clear c0]) ++ post := by simp
  have hall : ∀ op ∈ pre ++ C01.Op.clear c0 :: post, op.wf := by
    rw [hsplit]
    intro op hop
    rcases List.mem_append.1 hop with hop | hop
    · exact hwf1 op hop
    · exact hpost op hop
  have hspec1 : spec c.index (pre ++ [C01.Op.clear c0]) = [] := by
    rw [spec_snoc]
    have : C06.effective c.index (C01.run pre) (.clear c0) = true := by
      simp [C06.effective, C06.accepted, C01.Op.cfg, he]
    unfold specOp
    rw [if_pos this]; rfl
  have hrep0 : Rep (rcfg c.index m0 c.dims) (C01.run (pre ++ [C01.Op.clear c0])) [] := by
    refine ⟨fun id => ?_, asc_nil⟩
    rw [C06.run_snoc]
    simp only [C01.step]
    rw [C05_vector, absItems_of_get_none (c := rcfg c.index m0 c.dims)
      (Writer.get_clear_same c0 _ _ he.symm)]
    rfl
  have h := rep_foldl (i := c.index) (d := c.dims) hi post hpost _ _ m0 (C01.C01_invariant _ hwf1) hrep0 ht
  rw [← hm, ← C01.run_append, ← hsplit] at h
  have hspec : spec c.index (pre ++ C01.Op.clear c0 :: post) =
      specFrom c.index (C01.run (pre ++ [C01.Op.clear c0])) [] post := by
    rw [hsplit]
    show specFrom c.index [] [] ((pre ++ [C01.Op.clear c0]) ++ post) = _
    rw [specFrom_app]
    show specFrom c.index (C01.run (pre ++ [C01.Op.clear c0])) (spec c.index (pre ++ [C01.Op.clear c0])) post = _
    rw [hspec1]
  rw [← hspec] at h
  have hr : Rep c (C01.run (pre ++ C01.Op.clear c0 :: post)) (spec c.index (pre ++ C01.Op.clear c0 :: post)) := h
  have hreads := reads_of_rep hi (C01.C01_invariant _ hall c hi) hr
  exact ⟨hreads.1, hreads.2.1, hreads.2.2.1, hreads.2.2.2.1, hreads.2.2.2.2.1, hr.2⟩

/-! ## in the writing transaction and after commit

The environment model (`ArroyModel/Env.lean`, `Reachable.lean`): a schedule of committed, aborted and crashed
write transactions, readers and crashes. The committed version is `C01.run` of the committed operations
(aborted and crashed transactions leave no trace); inside a further write transaction that has executed the
operations `tx`, the writer's private store is `C01.run (committed operations ++ tx)`. So `C05_history` and
`C05_history_presence` speak about both. -/

theorem tx_writer (sched : List C08.Item) (hwf : ∀ it ∈ sched, ∀ op ∈ it.ops, op.wf) (tx : List C01.Op) :
    ((({} : Env).run (C08.events sched)).run (.beginW :: tx.map C08.wr)).writer =
      some (C01.run (C08.committedOps sched ++ tx)) := by
  obtain ⟨hw, hc, _⟩ := C08.C08_versions_reachable sched hwf
  generalize ({} : Env).run (C08.events sched) = e at hw hc
  have hb : (e.step .beginW).writer = some e.committed := by simp [Env.step, hw]
  have h := (C08.run_writes tx (e.step .beginW) e.committed hb).1
  have : e.run (.beginW :: tx.map C08.wr) = (e.step .beginW).run (tx.map C08.wr) := by
    simp only [Env.run, List.foldl_cons]
  rw [this, h, hc, C01.run_append]

/-- **C05 in the writing transaction and after commit**: whatever the schedule of committed / aborted / crashed
    transactions, readers and crashes so far, (i) the committed version answers every read of index `c.index`
    from `spec c.index (committed operations)`; (ii) inside a new write transaction that has executed `tx`, the
    writer reads from `spec c.index (committed operations ++ tx)` — its own uncommitted writes included.
    Side condition as in `C05_history`, on the respective history. -/
theorem C05_history_transactions (sched : List C08.Item) (hwf : ∀ it ∈ sched, ∀ op ∈ it.ops, op.wf)
    (tx : List C01.Op) (htx : ∀ op ∈ tx, op.wf) (c : Cfg) (hi : c.index < 65536) (m0 : Metric) :
    (Typed c.index c.dims m0 (C08.committedOps sched) → c.metric = metricOf c.index m0 (C08.committedOps sched) →
      (∀ id, Writer.itemVector c (({} : Env).run (C08.events sched)).committed id =
        List.lookup id (spec c.index (C08.committedOps sched))) ∧
      Writer.iter c (({} : Env).run (C08.events sched)).committed = spec c.index (C08.committedOps sched)) ∧
    (Typed c.index c.dims m0 (C08.committedOps sched ++ tx) →
      c.metric = metricOf c.index m0 (C08.committedOps sched ++ tx) →
      ∃ s, ((({} : Env).run (C08.events sched)).run (.beginW :: tx.map C08.wr)).writer = some s ∧
        (∀ id, Writer.itemVector c s id = List.lookup id (spec c.index (C08.committedOps sched ++ tx))) ∧
        (∀ id, Writer.containsItem c s id = (List.lookup id (spec c.index (C08.committedOps sched ++ tx))).isSome) ∧
        Writer.iter c s = spec c.index (C08.committedOps sched ++ tx) ∧
        Writer.isEmpty c s = (spec c.index (C08.committedOps sched ++ tx)).isEmpty ∧
        (∀ id, (Writer.delItem c s id).2 = (List.lookup id (spec c.index (C08.committedOps sched ++ tx))).isSome)) := by
  obtain ⟨_, hc, hcw, _⟩ := C08.C08_versions_reachable sched hwf
  constructor
  · intro ht hm
    rw [hc]
    have h := C05_history _ hcw c hi m0 ht hm
    exact ⟨h.1, h.2.2.1⟩
  · intro ht hm
    have hall : ∀ op ∈ C08.committedOps sched ++ tx, op.wf := by
      intro op hop
      rcases List.mem_append.1 hop with hop | hop
      · exact hcw op hop
      · exact htx op hop
    have h := C05_history _ hall c hi m0 ht hm
    exact ⟨_, tx_writer sched hwf tx, h.1, h.2.1, h.2.2.1, h.2.2.2.1, h.2.2.2.2.1⟩

/-! ## non-vacuity: a concrete history over two indexes

Index 0 (`C01.Ex.cEx`: Euclidean, dimension 2): two items added, item 3 OVERWRITTEN, item 1 DELETED, an absent
id deleted, an `add` rejected for its length; index 1 written and CLEARED in between; a BUILD; the metric of
index 0 changed to binary-quantised Euclidean (f32 → quantised), an item added under it, the metric changed BACK
(quantised → f32), a second build. Every map below is computed by the kernel from the definitions
(`decide +kernel`): the builds and the re-encodings really run. -/
namespace Ex
open C01.Ex

def cBq : Cfg := { cEx with metric := .bqEuclidean }
def c1 : Cfg := { index := 1, metric := .cosine, dims := 3 }
def e0 : BState := { store := [] }

def hAdds : List C01.Op := [.add cEx 3 [f2, fm1], .add cEx 1 [f1, f1], .add c1 7 [f1, f2, f3]]
/-- … item 3 overwritten -/
def hOver : List C01.Op := hAdds ++ [.add cEx 3 [fm2, f3]]
/-- … item 1 deleted, an absent id deleted, an `add` of the wrong length -/
def hDel : List C01.Op := hOver ++ [.del cEx 1, .del cEx 9, .add cEx 5 [f1]]
/-- … index 1 cleared -/
def hClear : List C01.Op := hDel ++ [.clear c1]
/-- … index 0 built -/
def hBuilt : List C01.Op := hClear ++ [.build cEx oLeaf 0 e0]
/-- … its metric changed to the quantised one -/
def hBq : List C01.Op := hBuilt ++ [.prepare cEx .bqEuclidean]
/-- … an item added under the quantised metric: (-1.0, 2.5) is kept as (-1.0, 1.0) -/
def hBqAdd : List C01.Op := hBq ++ [.add cBq 4 [fm1, f25]]
/-- … the metric changed back -/
def hBack : List C01.Op := hBqAdd ++ [.prepare cBq .euclidean]
/-- … and a second build -/
def hist : List C01.Op := hBack ++ [.build cEx oLeaf 0 e0]

theorem hist_wf : ∀ op ∈ hist, op.wf := by decide
theorem hBack_wf : ∀ op ∈ hBack, op.wf := fun op h => hist_wf op (by
  simp only [hist, List.mem_append] at h ⊢; exact Or.inl h)
theorem hOver_wf : ∀ op ∈ hOver, op.wf := by decide

/-- the side condition holds: index 0 is written at dimension 2 under the metric it has at that point -/
theorem hist_typed : Typed 0 2 .euclidean hist ∧ metricOf 0 .euclidean hist = .euclidean ∧
    Typed 0 2 .euclidean hBqAdd ∧ metricOf 0 .euclidean hBqAdd = .bqEuclidean ∧
    Typed 1 3 .cosine hist ∧ metricOf 1 .cosine hist = .cosine := by decide +kernel

/-- … and it is a real condition: reading index 0 as quantised from the start is not typed -/
example : ¬ Typed 0 2 .bqEuclidean hist := by decide +kernel

/-- the specification maps along the history (`f1` = 1.0, `fm1` = -1.0, `f2` = 2.0, `fm2` = -2.0, `f3` = 3.0):
    the overwrite wins; the delete removes item 1, the absent delete and the rejected add change nothing; the
    clear empties index 1 only; the build changes nothing; the change to the quantised metric keeps the sign
    pattern (-2.0, 3.0) ↦ (-1.0, 1.0); the change back keeps the ±1.0 values; the last build changes nothing -/
theorem specs :
    spec 0 hAdds = [(1, [f1, f1]), (3, [f2, fm1])] ∧ spec 1 hAdds = [(7, [f1, f2, f3])] ∧
    spec 0 hOver = [(1, [f1, f1]), (3, [fm2, f3])] ∧
    spec 0 hDel = [(3, [fm2, f3])] ∧ spec 1 hDel = [(7, [f1, f2, f3])] ∧
    spec 0 hClear = [(3, [fm2, f3])] ∧ spec 1 hClear = [] ∧
    spec 0 hBuilt = [(3, [fm2, f3])] ∧
    spec 0 hBq = [(3, [fm1, f1])] ∧
    spec 0 hBqAdd = [(3, [fm1, f1]), (4, [fm1, f1])] ∧
    spec 0 hBack = [(3, [fm1, f1]), (4, [fm1, f1])] ∧
    spec 0 hist = [(3, [fm1, f1]), (4, [fm1, f1])] ∧ spec 1 hist = [] := by decide +kernel

/-- which operations were effective on index 0 -/
example :
    C06.effective 0 (C01.run hOver) (.del cEx 1) = true ∧ C06.effective 0 (C01.run hOver) (.del cEx 9) = false ∧
    C06.effective 0 (C01.run hOver) (.add cEx 5 [f1]) = false ∧ C06.effective 0 (C01.run hDel) (.clear c1) = false ∧
    C06.effective 1 (C01.run hDel) (.clear c1) = true ∧
    C06.effective 0 (C01.run hClear) (.build cEx oLeaf 0 e0) = true ∧
    C06.effective 0 (C01.run hBuilt) (.prepare cEx .bqEuclidean) = true ∧
    C06.effective 0 (C01.run hBqAdd) (.prepare cBq .euclidean) = true := by decide +kernel

theorem last_build_ok : C06.okB (Build.build cEx oLeaf 0 { e0 with store := C01.run hBack }) = true := by
  decide +kernel

attribute [local irreducible] C01.run spec

/-- `C05_history` on the whole history, read as Euclidean at dimension 2 -/
example :
    Writer.iter cEx (C01.run hist) = [(3, [fm1, f1]), (4, [fm1, f1])] ∧
    Writer.itemVector cEx (C01.run hist) 3 = some [fm1, f1] ∧ Writer.itemVector cEx (C01.run hist) 1 = none ∧
    Writer.containsItem cEx (C01.run hist) 4 = true ∧ Writer.isEmpty cEx (C01.run hist) = false ∧
    (Writer.delItem cEx (C01.run hist) 1).2 = false ∧ (Writer.delItem cEx (C01.run hist) 3).2 = true := by
  have h := C05_history hist hist_wf cEx (by decide) .euclidean hist_typed.1 hist_typed.2.1.symm
  have hs : spec cEx.index hist = [(3, [fm1, f1]), (4, [fm1, f1])] := specs.2.2.2.2.2.2.2.2.2.2.2.1
  rw [hs] at h
  exact ⟨h.2.2.1, h.1 3, h.1 1, h.2.1 4, h.2.2.2.1, h.2.2.2.2.1 1, h.2.2.2.2.1 3⟩

/-- … in the middle of it, read as quantised: the sign patterns -/
example : Writer.iter cBq (C01.run hBqAdd) = [(3, [fm1, f1]), (4, [fm1, f1])] := by
  have h := C05_history hBqAdd (fun op hop => hist_wf op (by
    simp only [hist, hBack, List.mem_append] at hop ⊢; exact Or.inl (Or.inl hop))) cBq (by decide) .euclidean
    hist_typed.2.2.1 hist_typed.2.2.2.1.symm
  rw [show spec cBq.index hBqAdd = _ from specs.2.2.2.2.2.2.2.2.2.1] at h
  exact h.2.2.1

/-- … and the other index, after its clear: empty (`C05_history_presence` has no side condition) -/
example : Writer.isEmpty c1 (C01.run hist) = true ∧ Writer.containsItem c1 (C01.run hist) 7 = false := by
  have h := C05_history_presence hist hist_wf c1 (by decide)
  rw [show spec c1.index hist = [] from specs.2.2.2.2.2.2.2.2.2.2.2.2] at h
  exact ⟨h.2.2.2.1, h.1 7⟩

/-- `C05_history_reader`: the last build succeeds, the reader opens with exactly the ids of the map -/
example : ∃ roots st', Build.build cEx oLeaf 0 { e0 with store := C01.run hBack } = .ok ((), st') ∧
    Reader.open cEx st'.store = .ok ⟨roots, 2, [3, 4]⟩ ∧
    Writer.iter cEx st'.store = [(3, [fm1, f1]), (4, [fm1, f1])] := by
  have hok := last_build_ok
  cases hb : Build.build cEx oLeaf 0 { e0 with store := C01.run hBack } with
  | error e => rw [hb] at hok; cases hok
  | ok r =>
    obtain ⟨u, st'⟩ := r
    have ht : Typed cEx.index cEx.dims .euclidean hBack ∧ cEx.metric = metricOf cEx.index .euclidean hBack := by
      decide +kernel
    obtain ⟨_, _, ⟨roots, hopen⟩, _, _, hiter, _⟩ :=
      C05_history_reader hBack hBack_wf cEx oLeaf 0 e0 st' (by decide) hb .euclidean ht.1 ht.2
    rw [show spec cEx.index hBack = [(3, [fm1, f1]), (4, [fm1, f1])] from specs.2.2.2.2.2.2.2.2.2.2.1] at hopen hiter
    exact ⟨roots, st', rfl, hopen, hiter⟩

/-- `C05_overwrite_last_wins` / `C05_delete_reports_presence` / `C05_build_never_changes_spec`: their
    hypotheses hold on this history -/
example : Writer.itemVector cEx (C01.run (hAdds ++ [.add cEx 3 [fm2, f3]])) 3 = some [fm2, f3] :=
  (C05_overwrite_last_wins hAdds (by decide) cEx (by decide) 3 (by decide) [fm2, f3] rfl .euclidean
    (by decide +kernel) (by decide +kernel)).2.2.1 rfl
example : (Writer.delItem cEx (C01.run hOver) 1).2 = true ∧ (Writer.delItem cEx (C01.run hOver) 9).2 = false := by
  have h1 := (C05_delete_reports_presence hOver hOver_wf cEx (by decide) 1 (by decide)).1
  have h9 := (C05_delete_reports_presence hOver hOver_wf cEx (by decide) 9 (by decide)).1
  rw [show spec cEx.index hOver = _ from specs.2.2.1] at h1 h9
  exact ⟨h1, h9⟩
example : Writer.iter cEx (C01.run (hClear ++ [.build cEx oLeaf 0 e0])) = Writer.iter cEx (C01.run hClear) :=
  ((C05_build_never_changes_spec hClear (by decide) cEx oLeaf 0 e0 (by decide)).2 cEx (by decide)).2.2.1

/-- the side condition cannot be dropped: an item written under the quantised metric (no `prepare`) and read
    as Euclidean, or written at dimension 3 and read at dimension 2, is not read as the map says -/
example :
    Writer.itemVector cEx (C01.run [.add cBq 1 [fm1, f25]]) 1 ≠ List.lookup 1 (spec 0 [.add cBq 1 [fm1, f25]]) ∧
    Writer.itemVector cEx (C01.run [.add { cEx with dims := 3 } 1 [f1, f2, f3]]) 1 ≠
      List.lookup 1 (spec 0 [.add { cEx with dims := 3 } 1 [f1, f2, f3]]) := by decide +kernel

/-- `C05_history_after_clear`: index 1 was written under Cosine at dimension 3, cleared, and is written again
    under Manhattan at dimension 1 — not `Typed` as a whole, typed after the clear -/
def c1' : Cfg := { index := 1, metric := .manhattan, dims := 1 }
example : Writer.iter c1' (C01.run (hDel ++ C01.Op.clear c1 :: [.add c1' 2 [f3]])) =
    spec 1 (hDel ++ C01.Op.clear c1 :: [.add c1' 2 [f3]]) ∧
    (∀ m0, ¬ Typed 1 1 m0 (hDel ++ C01.Op.clear c1 :: [.add c1' 2 [f3]])) := by
  refine ⟨(C05_history_after_clear hDel [.add c1' 2 [f3]] c1 (by decide) (by decide) (by decide) c1' (by decide) rfl
    .manhattan (by decide +kernel) rfl).2.2.1, fun m0 => ?_⟩
  cases m0 <;> decide +kernel
example : spec 1 (hDel ++ C01.Op.clear c1 :: [.add c1' 2 [f3]]) = [(2, [f3])] := by decide +kernel

/-- `C05_history_transactions`: a committed transaction, an aborted one (which cleared the index), a reader;
    then a transaction that has added item 9 and not yet committed -/
def sched : List C08.Item := [.commitTx hBuilt, .abortTx [.clear cEx], .openR 1]
example : (∀ it ∈ sched, ∀ op ∈ it.ops, op.wf) ∧ C08.committedOps sched = hBuilt ∧
    Typed 0 2 .euclidean (C08.committedOps sched ++ [.add cEx 9 [f1, f1]]) ∧
    spec 0 (C08.committedOps sched ++ [.add cEx 9 [f1, f1]]) = [(3, [fm2, f3]), (9, [f1, f1])] := by
  refine ⟨by decide, rfl, by decide +kernel, by decide +kernel⟩

end Ex

end Arroy.C05
