import ArroyProofs.Properties.C01
import ArroyProofs.ForestUnique
/-! # C04 — the build keeps every item on the side of its margin

`RoutedT cx t` (ArroyProofs/InsT.lean): below every non-degenerate plane of `t`, no item of the left
subtree has a decisively positive margin and no item of the right subtree a decisively negative one
(`cx.side` is `Build.sideOf`, i.e. `D::side` on the stored vectors). A build preserves it, and even
re-establishes it for the items whose vector changed since the last build (they carry an updated
mark, are removed from every tree and routed again). -/
namespace Arroy.C04
open Arroy Generated Transp Build

/-- every tree of the index is routed w.r.t. the stored vectors -/
def Routed (c : Cfg) (o : BuildOpts) (s : Store) : Prop :=
  ∀ t ∈ Check.trees c s, RoutedT (treeCtx c o s) t

/-- every tree of the index is routed, except possibly for the items that carry an updated mark -/
def RoutedUnmarked (c : Cfg) (o : BuildOpts) (s : Store) : Prop :=
  ∀ t ∈ Check.trees c s,
    RoutedD (treeCtx c o s).isZero (maskSide (s.keysOf c.index modeUpdated) (sideD (treeCtx c o s))) t

theorem C04_unmarked_of_routed {c : Cfg} {o : BuildOpts} {s : Store} (h : Routed c o s) : RoutedUnmarked c o s :=
  fun t ht => ((routedT_iff_routedD _ t).1 (h t ht)).mask _

/-- a build never changes an item vector (only dot-product headers): the side function is stable -/
theorem C04_side_stable (c : Cfg) (o : BuildOpts) (fuel : Nat) (st st' : BState)
    (hi : c.index < 65536) (hcap : 1 ≤ cap c o) (hfresh : FreshSupply)
    (hinv : IndexInvW c st.store) (h : build c o fuel st = .ok ((), st')) :
    sideOf c st'.store = sideOf c st.store := by
  obtain ⟨roots0, items0, ts0, old⟩ := Old.of_inv hinv hi
  obtain ⟨roots', ts', b⟩ := C01.C01_build_out c o fuel st st' roots0 items0 ts0 hi hcap hfresh hinv.1 hinv.2.1 old h
  exact sideOf_stable c b.vec

/-- **C04, one build**: if the old forest is routed for every item without an updated mark, the new
    forest is routed for every item -/
theorem C04_routed (c : Cfg) (o : BuildOpts) (fuel : Nat) (st st' : BState)
    (hi : c.index < 65536) (hcap : 1 ≤ cap c o) (hfresh : FreshSupply)
    (hinv : IndexInvW c st.store) (h : build c o fuel st = .ok ((), st'))
    (hold : RoutedUnmarked c o st.store) : Routed c o st'.store := by
  obtain ⟨roots0, items0, ts0, old⟩ := Old.of_inv hinv hi
  obtain ⟨roots', ts', b⟩ := C01.C01_build_out c o fuel st st' roots0 items0 ts0 hi hcap hfresh hinv.1 hinv.2.1 old h
  unfold Routed
  rw [b.trees, treeCtx_stable c o b.vec]
  apply b.routed
  unfold RoutedUnmarked at hold
  rw [Check.trees_of_old old] at hold
  exact hold

theorem C04_routed_plain (c : Cfg) (o : BuildOpts) (fuel : Nat) (st st' : BState)
    (hi : c.index < 65536) (hcap : 1 ≤ cap c o) (hfresh : FreshSupply)
    (hinv : IndexInvW c st.store) (h : build c o fuel st = .ok ((), st'))
    (hold : Routed c o st.store) : Routed c o st'.store :=
  C04_routed c o fuel st st' hi hcap hfresh hinv h (C04_unmarked_of_routed hold)

/-- a first build (no metadata yet) yields a routed forest -/
theorem C04_routed_first (c : Cfg) (o : BuildOpts) (fuel : Nat) (st st' : BState)
    (hi : c.index < 65536) (hcap : 1 ≤ cap c o) (hfresh : FreshSupply)
    (hinv : IndexInvW c st.store) (hm : Store.get st.store c.metaKey = none)
    (h : build c o fuel st = .ok ((), st')) : Routed c o st'.store := by
  apply C04_routed c o fuel st st' hi hcap hfresh hinv h
  intro t ht
  simp [Check.trees, hm] at ht

/-! ## the executable checker -/

theorem decisive_ne (c : Cfg) (s : Store) (n : List Nat) (x : Nat) (b : Bool) :
    Check.decisive c s n x ≠ some b ↔ sideOf c s n x ≠ some (some b) := by
  unfold Check.decisive
  split
  · rename_i b' h; rw [h]; simp
  · rename_i h
    constructor
    · intro _ e; exact h b e
    · intro _ e; cases e

theorem match_true_none {α : Type} (d : Option Bool) (v : α) :
    (match d with | some true => some v | _ => none) = none ↔ d ≠ some true := by
  cases d with
  | none => simp
  | some b => cases b <;> simp

theorem match_false_none {α : Type} (d : Option Bool) (v : α) :
    (match d with | some false => some v | _ => none) = none ↔ d ≠ some false := by
  cases d with
  | none => simp
  | some b => cases b <;> simp

theorem routedT_nil_iff (c : Cfg) (o : BuildOpts) (s : Store) (t : T) :
    Check.routedT c s t = [] ↔ RoutedT (treeCtx c o s) t := by
  induction t with
  | leaf i => simp [Check.routedT, RoutedT]
  | bucket id its => simp [Check.routedT, RoutedT]
  | node id n l r ihl ihr =>
    simp only [Check.routedT, RoutedT, List.append_eq_nil_iff, ihl, ihr]
    show ((if c.metric.isZero n = true then [] else _) = [] ∧ _) ∧ _ ↔
      (c.metric.isZero n = false → (∀ x ∈ l.items, sideOf c s n x ≠ some (some true)) ∧
        (∀ x ∈ r.items, sideOf c s n x ≠ some (some false))) ∧ _
    cases hz : c.metric.isZero n
    · simp only [Bool.false_eq_true, ↓reduceIte, List.append_eq_nil_iff, true_imp_iff, and_assoc,
        List.filterMap_eq_nil_iff]
      refine and_congr ?_ (and_congr ?_ Iff.rfl)
      · constructor
        · intro h x hx
          exact (decisive_ne c s n x true).1 ((match_true_none _ _).1 (h x hx))
        · intro h x hx
          exact (match_true_none _ _).2 ((decisive_ne c s n x true).2 (h x hx))
      · constructor
        · intro h x hx
          exact (decisive_ne c s n x false).1 ((match_false_none _ _).1 (h x hx))
        · intro h x hx
          exact (match_false_none _ _).2 ((decisive_ne c s n x false).2 (h x hx))
    · simp only [↓reduceIte, true_and, Bool.true_eq_false, false_imp_iff]

/-- `Check.routed` accepts exactly the routed forests -/
theorem C04_checker (c : Cfg) (o : BuildOpts) (s : Store) : Check.routed c s = [] ↔ Routed c o s := by
  unfold Check.routed Routed
  rw [List.flatMap_eq_nil_iff]
  constructor
  · intro h t ht; exact (routedT_nil_iff c o s t).1 (h t ht)
  · intro h t ht; exact (routedT_nil_iff c o s t).2 (h t ht)

theorem C04_routed_checker (c : Cfg) (o : BuildOpts) (fuel : Nat) (st st' : BState)
    (hi : c.index < 65536) (hcap : 1 ≤ cap c o) (hfresh : FreshSupply)
    (hinv : IndexInvW c st.store) (h : build c o fuel st = .ok ((), st'))
    (hold : Check.routed c st.store = []) : Check.routed c st'.store = [] :=
  (C04_checker c o _).2 (C04_routed_plain c o fuel st st' hi hcap hfresh hinv h ((C04_checker c o _).1 hold))

/-! ## over a whole history -/

theorem RoutedT_congr {cx cx' : TreeCtx} (hs : cx.side = cx'.side) (hz : cx.isZero = cx'.isZero) (t : T) :
    RoutedT cx t ↔ RoutedT cx' t := by
  induction t with
  | leaf i => simp [RoutedT]
  | bucket id its => simp [RoutedT]
  | node id n l r ihl ihr => simp only [RoutedT, hs, hz, ihl, ihr]

/-- the build options do not matter for routing -/
theorem Routed_opts (c : Cfg) (o o' : BuildOpts) (s : Store) : Routed c o s → Routed c o' s :=
  fun h t ht => (RoutedT_congr (cx := treeCtx c o s) (cx' := treeCtx c o' s) rfl rfl t).1 (h t ht)

theorem RoutedD_mono_side {isZero : List Nat → Bool} {side side' : List Nat → Nat → Option Bool}
    (h : ∀ n x, side' n x = none ∨ side' n x = side n x) {t : T} (ht : RoutedD isZero side t) :
    RoutedD isZero side' t := by
  induction t with
  | leaf i => trivial
  | bucket id its => trivial
  | node id n l r ihl ihr =>
    obtain ⟨h1, h2, h3⟩ := ht
    refine ⟨fun hz => ⟨fun x hx => ?_, fun x hx => ?_⟩, ihl h2, ihr h3⟩
    · rcases h n x with e | e
      · rw [e]; simp
      · rw [e]; exact (h1 hz).1 x hx
    · rcases h n x with e | e
      · rw [e]; simp
      · rw [e]; exact (h1 hz).2 x hx

theorem sideOf_congr_vec (c : Cfg) {s s' : Store} {x : Nat} (h : vecOf c s' x = vecOf c s x) (n : List Nat) :
    sideOf c s' n x = sideOf c s n x := by
  simp only [vecOf] at h
  simp only [sideOf, Writer.itemLeaf]
  split at h <;> split at h <;> simp_all

/-- the marked mutations keep "routed except for the marked items" -/
theorem C04_unmarked_mutate {c : Cfg} {o : BuildOpts} {s s' : Store} (hi : c.index < 65536)
    (hinv : IndexInv c s) (hinv' : IndexInv c s') (m : Mutates c s s') (h : RoutedUnmarked c o s) :
    RoutedUnmarked c o s' := by
  intro t ht
  rw [Check.trees_mutate hinv.1 hi m] at ht
  refine RoutedD_mono_side ?_ (h t ht)
  intro n x
  simp only [maskSide]
  by_cases hx : x ∈ s'.keysOf c.index modeUpdated
  · left; rw [if_pos hx]
  · right
    rw [if_neg hx]
    have hnone : (Store.get s' (c.updatedKey x)).isNone = true := by
      rw [Store.mem_keysOf_iff hinv'.1.2.1 _ _ _ hi (by decide)] at hx
      simp only [Cfg.updatedKey, Key.mkUpdated]
      cases hg : Store.get s' ⟨c.index, modeUpdated, x⟩ with
      | none => rfl
      | some v => rw [hg] at hx; simp at hx
    obtain ⟨h1, h2⟩ := m.marks x hnone
    have hx0 : x ∉ s.keysOf c.index modeUpdated := by
      rw [Store.mem_keysOf_iff hinv.1.2.1 _ _ _ hi (by decide)]
      simp only [Cfg.updatedKey, Key.mkUpdated] at h1
      cases hg : Store.get s ⟨c.index, modeUpdated, x⟩ with
      | none => simp
      | some v => rw [hg] at h1; simp at h1
    rw [if_neg hx0]
    simp only [sideD]
    have : (treeCtx c o s').side n x = (treeCtx c o s).side n x := sideOf_congr_vec c (vecOf_congr h2) n
    rw [this]

/-- every build of index `c` in the history is made with the configuration `c` (same metric) -/
def sameCfg (c : Cfg) : C01.Op → Prop
  | .build c' _ _ _ => c'.index = c.index → c' = c
  | _ => True

/-- `C04_history_unmarked` from any starting state satisfying the invariants (a metric change of the index
    empties the forest, so it trivially keeps the property) -/
theorem C04_history_unmarked_from (hfresh : FreshSupply) (c : Cfg) (hi : c.index < 65536) (o : BuildOpts)
    (ops : List C01.Op) (hops : ∀ op ∈ ops, op.wf) (hQ : ∀ op ∈ ops, sameCfg c op)
    (s0 : Store) (hinv0 : ∀ c : Cfg, c.index < 65536 → IndexInv c s0) (h0 : RoutedUnmarked c o s0) :
    RoutedUnmarked c o (ops.foldl C01.step s0) := by
  apply C01.C01_history_induction_from hfresh c hi (RoutedUnmarked c o) (sameCfg c) _ _ _ _ ops hops hQ s0 hinv0 h0
  · intro s s' hinv hinv' m hP
    exact C04_unmarked_mutate hi hinv hinv' m hP
  · intro s c' _ he _ t ht
    have : Store.get (Writer.clear c' s) c.metaKey = none := Writer.get_clear_same c' s _ he.symm
    simp [Check.trees, this] at ht
  · intro s c' o' fuel env st' roots0 items0 ts0 roots' ts' hinv' he hwf hq old b hb hP
    have hc : c' = c := hq he
    subst hc
    have := C04_routed c' o' fuel { env with store := s } st' hwf.1 hwf.2.1 hfresh hinv'.1 hb
      (fun t ht => (RoutedD_mono_side (fun n x => Or.inr rfl) (hP t ht)))
    exact C04_unmarked_of_routed (Routed_opts c' o' o _ this)
  · intro s c' m' s' _ _ _ _ _ _ hu _ t ht
    simp [Check.trees, hu.1] at ht

/-- an index without metadata has no tree: it is routed -/
theorem RoutedUnmarked_of_noMeta {c : Cfg} {o : BuildOpts} {s : Store} (h : Store.get s c.metaKey = none) :
    RoutedUnmarked c o s := by
  intro t ht
  simp [Check.trees, h] at ht

/-- **C04 over histories**: in every reachable state the forest is routed w.r.t. the stored vectors,
    except possibly for items carrying an updated mark (added, overwritten or deleted since the last
    build) … -/
theorem C04_history_unmarked (hfresh : FreshSupply) (c : Cfg) (hi : c.index < 65536) (o : BuildOpts)
    (ops : List C01.Op) (hops : ∀ op ∈ ops, op.wf) (hQ : ∀ op ∈ ops, sameCfg c op) :
    RoutedUnmarked c o (C01.run ops) :=
  C04_history_unmarked_from hfresh c hi o ops hops hQ [] (fun c _ => C01.C01_inv_empty c)
    (RoutedUnmarked_of_noMeta rfl)

/-- the same from any state satisfying the invariants in which the forest of `c` is routed up to the marked
    items — e.g. right after a metric change, when the index has no tree: only the operations SINCE that state
    have to build the index with the configuration `c` -/
theorem C04_history_from (hfresh : FreshSupply) (c : Cfg) (ops : List C01.Op) (hops : ∀ op ∈ ops, op.wf)
    (hQ : ∀ op ∈ ops, sameCfg c op) (o : BuildOpts) (fuel : Nat) (env st' : BState)
    (hwf : (C01.Op.build c o fuel env).wf)
    (s0 : Store) (hinv0 : ∀ c : Cfg, c.index < 65536 → IndexInv c s0) (h0 : RoutedUnmarked c o s0)
    (h : build c o fuel { env with store := ops.foldl C01.step s0 } = .ok ((), st')) :
    Routed c o st'.store ∧ Check.routed c st'.store = [] := by
  have hr := C04_routed c o fuel { env with store := ops.foldl C01.step s0 } st' hwf.1 hwf.2.1 hfresh
    (C01.C01_inv_foldl hfresh ops hops s0 hinv0 c hwf.1).1 h
    (C04_history_unmarked_from hfresh c hwf.1 o ops hops hQ s0 hinv0 h0)
  exact ⟨hr, (C04_checker c o _).2 hr⟩

/-- … and right after a successful build it is routed for every item -/
theorem C04_history (hfresh : FreshSupply) (c : Cfg) (ops : List C01.Op) (hops : ∀ op ∈ ops, op.wf)
    (hQ : ∀ op ∈ ops, sameCfg c op) (o : BuildOpts) (fuel : Nat) (env st' : BState)
    (hwf : (C01.Op.build c o fuel env).wf)
    (h : build c o fuel { env with store := C01.run ops } = .ok ((), st')) :
    Routed c o st'.store ∧ Check.routed c st'.store = [] := by
  have hr := C04_routed c o fuel { env with store := C01.run ops } st' hwf.1 hwf.2.1 hfresh
    (C01.C01_history_inv hfresh ops hops c hwf.1).1 h (C04_history_unmarked hfresh c hwf.1 o ops hops hQ)
  exact ⟨hr, (C04_checker c o _).2 hr⟩

end Arroy.C04
