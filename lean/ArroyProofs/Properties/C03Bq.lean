import ArroyProofs.BQRequant
import ArroyProofs.LeavesMade
/-! # C03 — `by_item` = `by_vector` of the item's vector, quantised metrics, and over histories

`QueryBuilder::by_item(id)` queries by the stored leaf `(h, v)` of `id`; `by_vector(item_vector(id))`
takes the f32 view of `v` truncated to the dimension (components `±1.0`), quantises it again and
computes a fresh header. For the quantised metrics the two coincide because re-quantising is the
identity on words produced by `from_slice` (`C03_requantise`: `C12_roundtrip` + `C12_sign_only`); the
header is the same as well (`C03_mkLeaf_readback`) and, after repair J, is not read by any quantised
`built_distance` (`C03_bq_header_irrelevant`). Together with `C03_by_item_eq_by_vector` (f32 metrics)
this gives the statement for **every** metric on every state whose leaves were written by `Cfg.mkLeaf`
(`LeavesMade`), an invariant of all histories (`C03_leaves_made_reachable`), hence the end-to-end form
`C03_by_item_eq_by_vector_reachable`. -/
namespace Arroy.C03
open Arroy Generated Reader

/-- **re-quantisation**: quantising the f32 view (truncated to the dimension) of a quantised vector gives
    the stored words back, whatever the dimension (multiple of 64 or not) and the component values -/
theorem C03_requantise (xs : List Nat) :
    BQ.pack ((BQ.unpack (BQ.pack xs)).take xs.length) = BQ.pack xs := BQL.pack_unpack_pack xs

/-- the same through `from_slice` / `to_vec` of a quantised metric -/
theorem C03_requantise_metric (m : Metric) (hm : m.isBq = true) (xs : List Nat) :
    m.fromSlice ((m.toVec (m.fromSlice xs)).take xs.length) = m.fromSlice xs := by
  simp only [Metric.fromSlice, Metric.toVec, hm, if_true]
  exact C03_requantise xs

/-- the leaf `by_vector` builds from the vector read back is the leaf that was written: same words,
    same header (`new_header` depends on the words only) -/
theorem C03_mkLeaf_readback (c : Cfg) (hbq : c.metric.isBq = true) (xs : List Nat) :
    c.mkLeaf ((c.metric.toVec (c.metric.fromSlice xs)).take xs.length) = c.mkLeaf xs := by
  unfold Cfg.mkLeaf
  simp only [C03_requantise_metric c.metric hbq xs]

/-- no quantised metric reads a leaf header in `built_distance` (BQ-cosine included, after repair J:
    the product of the norms is computed from the word counts), so the header of the query leaf does
    not influence the answer -/
theorem C03_bq_header_irrelevant (c : Cfg) (s : Store) (rd : ReaderState) (hbq : c.metric.isBq = true)
    (qh qh' qv : List Nat) (q : QueryOpts) : nnsByLeaf c s rd qh qv q = nnsByLeaf c s rd qh' qv q :=
  nnsByLeaf_bq c s rd hbq qh qh' qv q

/-- **C03 (by_item = by_vector of the item's vector), quantised metrics**: when the stored words are
    `from_slice xs` for a vector `xs` of the declared dimension (as `add_item` writes them; the stored
    header is arbitrary), `item_vector` returns the sign view `±1.0` of `xs`, and querying by it gives
    exactly the answer of `by_item` (same result or same error), for every count, budget and filter. -/
theorem C03_by_item_eq_by_vector_bq (c : Cfg) (s : Store) (rd : ReaderState) (id : Nat) (q : QueryOpts)
    (h xs : List Nat) (hs : s.get (c.itemKey id) = some (.leaf h (BQ.pack xs)))
    (hbq : c.metric.isBq = true) (hl : xs.length = rd.dims) (hd : c.dims = rd.dims) :
    Writer.itemVector c s id = some (xs.map C12.sgn) ∧
    byItem c s rd id q = (byVector c s rd (xs.map C12.sgn) q).map some := by
  constructor
  · simp only [Writer.itemVector, Writer.itemLeaf, hs, Option.map_some, Metric.toVec, hbq, if_true, hd, ← hl]
    rw [C12.C12_roundtrip]
  · rw [C03_by_item_present c s rd id q h _ hs]
    have hlen : (xs.map C12.sgn).length = rd.dims := by rw [List.length_map]; exact hl
    have hpack : BQ.pack (xs.map C12.sgn) = BQ.pack xs :=
      C12.C12_sign_only _ _ (BQL.signs_map_sgn xs)
    simp only [byVector, hlen, ne_eq, not_true_eq_false, if_false, Metric.fromSlice, hbq, if_true, hpack]
    rw [nnsByLeaf_bq c s rd hbq h]

/-- the same for a leaf written by `Cfg.mkLeaf` (what `add_item` / `append_item` store) -/
theorem C03_by_item_eq_by_vector_mkLeaf (c : Cfg) (s : Store) (rd : ReaderState) (id : Nat) (q : QueryOpts)
    (xs : List Nat) (hs : s.get (c.itemKey id) = some (c.mkLeaf xs))
    (hbq : c.metric.isBq = true) (hl : xs.length = c.dims) (hd : rd.dims = c.dims) :
    Writer.itemVector c s id = some (xs.map C12.sgn) ∧
    byItem c s rd id q = (byVector c s rd (xs.map C12.sgn) q).map some := by
  simp only [Cfg.mkLeaf, Metric.fromSlice, hbq, if_true] at hs
  exact C03_by_item_eq_by_vector_bq c s rd id q _ xs hs hbq (hl.trans hd.symm) hd.symm

/-- **C03 (by_item = by_vector), every metric**, on a state whose item leaves were made by `Cfg.mkLeaf`
    (`LeavesMade`: words `from_slice xs` with `xs` of the declared dimension, header `new_header` of the
    words except for dot-product where a build rewrites it and no query reads it): for every id,
    `by_item(id)` is `None` when `item_vector(id)` is, and otherwise is `by_vector(item_vector(id))`. -/
theorem C03_by_item_eq_by_vector_made (c : Cfg) (s : Store) (rd : ReaderState) (hP : LeavesMade c s)
    (hd : rd.dims = c.dims) (id : Nat) (q : QueryOpts) :
    byItem c s rd id q =
      match Writer.itemVector c s id with
      | none => .ok none
      | some vec => (byVector c s rd vec q).map some := by
  cases hg : s.get (c.itemKey id) with
  | none => simp [byItem, Writer.itemVector, Writer.itemLeaf, hg]
  | some val =>
    cases val with
    | leaf h v =>
      obtain ⟨xs, hl, hv, hh⟩ := hP id h v hg
      cases hbq : c.metric.isBq with
      | true =>
        simp only [Metric.fromSlice, hbq, if_true] at hv
        subst hv
        obtain ⟨e1, e2⟩ := C03_by_item_eq_by_vector_bq c s rd id q h xs hg hbq (hl.trans hd.symm) hd.symm
        rw [e1, e2]
      | false =>
        simp only [Metric.fromSlice, hbq, Bool.false_eq_true, if_false] at hv
        subst hv
        by_cases hdot : c.metric = .dot
        · obtain ⟨e1, e2⟩ := C03_by_item_eq_by_vector_headerless c s rd id q h v hg hbq
            (by rw [hdot]; decide) (hl.trans hd.symm) hd.symm
          rw [e1, e2]
        · obtain ⟨e1, e2⟩ := C03_by_item_eq_by_vector c s rd id q h v hg hbq (hh hdot)
            (hl.trans hd.symm) hd.symm
          rw [e1, e2]
    | desc ids => simp [byItem, Writer.itemVector, Writer.itemLeaf, hg]
    | split l r n => simp [byItem, Writer.itemVector, Writer.itemLeaf, hg]
    | metadata n d i r => simp [byItem, Writer.itemVector, Writer.itemLeaf, hg]
    | unit => simp [byItem, Writer.itemVector, Writer.itemLeaf, hg]
    | version a b c => simp [byItem, Writer.itemVector, Writer.itemLeaf, hg]
    | raw b => simp [byItem, Writer.itemVector, Writer.itemLeaf, hg]

/-! ## over histories -/

/-- **the leaves of every reachable state are `mkLeaf` values**: in a history where the items of index
    `c` are added under the configuration `c` (`C01.madeBy`; builds of the index are arbitrary except
    that a dot-product build requires `c` to be dot-product), every stored leaf of the index is
    `c.mkLeaf xs` for some `xs` of length `c.dims` (for dot-product: up to the header).
    Builds of any index, deletions, clears, overwrites and failed operations are all allowed. -/
theorem C03_leaves_made_reachable (c : Cfg) (hi : c.index < 65536) (ops : List C01.Op)
    (hops : ∀ op ∈ ops, op.wf) (hq : ∀ op ∈ ops, C01.madeBy c op) : LeavesMade c (C01.run ops) :=
  C01.leavesMade_run c hi ops hops hq

/-- **C03 (by_item = by_vector), end to end, every metric** (Euclidean, Manhattan, cosine, dot-product
    and the three quantised ones): after any history in which the items of index `c` were added under
    the configuration `c`, and a successful build, `Reader::open` succeeds and for every id and every
    query options `by_item(id)` is `None` if the id is not stored and otherwise equals
    `by_vector(item_vector(id))` — same answer or same error. -/
theorem C03_by_item_eq_by_vector_reachable (ops : List C01.Op) (hops : ∀ op ∈ ops, op.wf)
    (c : Cfg) (hq : ∀ op ∈ ops, C01.madeBy c op)
    (o : BuildOpts) (fuel : Nat) (env st' : BState) (hwf : (C01.Op.build c o fuel env).wf)
    (h : Build.build c o fuel { env with store := C01.run ops } = .ok ((), st')) :
    ∃ roots,
      Reader.open c st'.store = .ok ⟨roots, c.dims, (C01.run ops).keysOf c.index modeItem⟩ ∧
      ∀ (id : Nat) (q : QueryOpts),
        byItem c st'.store ⟨roots, c.dims, (C01.run ops).keysOf c.index modeItem⟩ id q =
          match Writer.itemVector c st'.store id with
          | none => .ok none
          | some vec => (byVector c st'.store ⟨roots, c.dims, (C01.run ops).keysOf c.index modeItem⟩ vec q).map some := by
  obtain ⟨hrun, _⟩ := C01.C01_forest ops hops c o fuel env st' hwf h
  obtain ⟨roots, h1, _⟩ := C01.C01_reader_reachable ops hops c o fuel env st' hwf h
  have hP : LeavesMade c st'.store := by
    rw [← hrun]
    apply C01.leavesMade_run c hwf.1
    · intro op hop
      rcases List.mem_append.1 hop with hop | hop
      · exact hops op hop
      · rw [List.mem_singleton.1 hop]; exact hwf
    · intro op hop
      rcases List.mem_append.1 hop with hop | hop
      · exact hq op hop
      · rw [List.mem_singleton.1 hop]; exact fun _ e => e
  exact ⟨roots, h1, fun id q => C03_by_item_eq_by_vector_made c st'.store _ hP rfl id q⟩

/-- the quantised case spelled out: the stored id `x` reads back as a `±1.0` vector `vec` of the declared
    dimension, and `by_item(x) = by_vector(vec)` -/
theorem C03_by_item_eq_by_vector_reachable_bq (ops : List C01.Op) (hops : ∀ op ∈ ops, op.wf)
    (c : Cfg) (hbq : c.metric.isBq = true) (hq : ∀ op ∈ ops, C01.madeBy c op)
    (o : BuildOpts) (fuel : Nat) (env st' : BState) (hwf : (C01.Op.build c o fuel env).wf)
    (h : Build.build c o fuel { env with store := C01.run ops } = .ok ((), st'))
    (x : Nat) (hx : (Store.get st'.store (c.itemKey x)).isSome = true) :
    ∃ roots vec,
      Reader.open c st'.store = .ok ⟨roots, c.dims, (C01.run ops).keysOf c.index modeItem⟩ ∧
      Writer.itemVector c st'.store x = some vec ∧ vec.length = c.dims ∧
      (∀ y ∈ vec, y = F32.one ∨ y = F32.negOne) ∧
      ∀ q : QueryOpts,
        byItem c st'.store ⟨roots, c.dims, (C01.run ops).keysOf c.index modeItem⟩ x q =
          (byVector c st'.store ⟨roots, c.dims, (C01.run ops).keysOf c.index modeItem⟩ vec q).map some := by
  obtain ⟨hrun, _⟩ := C01.C01_forest ops hops c o fuel env st' hwf h
  obtain ⟨roots, h1, _, _, _, hinv⟩ := C01.C01_reader_reachable ops hops c o fuel env st' hwf h
  obtain ⟨hd, v, hg⟩ := hinv.1.2.2.1.leaf_of_isSome hx
  have hP : LeavesMade c st'.store := by
    rw [← hrun]
    apply C01.leavesMade_run c hwf.1
    · intro op hop
      rcases List.mem_append.1 hop with hop | hop
      · exact hops op hop
      · rw [List.mem_singleton.1 hop]; exact hwf
    · intro op hop
      rcases List.mem_append.1 hop with hop | hop
      · exact hq op hop
      · rw [List.mem_singleton.1 hop]; exact fun _ e => e
  obtain ⟨xs, hl, hv, _⟩ := hP x hd v hg
  simp only [Metric.fromSlice, hbq, if_true] at hv
  subst hv
  have key := fun q => C03_by_item_eq_by_vector_bq c st'.store
    ⟨roots, c.dims, (C01.run ops).keysOf c.index modeItem⟩ x q hd xs hg hbq hl rfl
  refine ⟨roots, xs.map C12.sgn, h1, (key default).1, by rw [List.length_map]; exact hl, ?_, fun q => (key q).2⟩
  intro y hy
  obtain ⟨a, _, rfl⟩ := List.mem_map.1 hy
  unfold C12.sgn
  split
  · exact Or.inl rfl
  · exact Or.inr rfl

/-! ## non-vacuity -/
section Examples

/-- BQ-cosine, dimension 3 (not a multiple of 64): the vector (1.0, -2.0, -0.0) -/
def bqCfg : Cfg := ⟨0, .bqCosine, 3, {}⟩
def bqVec : List Nat := [1065353216, 3221225472, 2147483648]
def bqOps : List C01.Op := [.add bqCfg 7 bqVec, .add ⟨1, .dot, 2, {}⟩ 0 [0, 0], .build ⟨1, .dot, 2, {}⟩ {} 0 { store := [] }]

example : bqCfg.metric.isBq = true ∧ bqVec.length = bqCfg.dims := by decide
example : ∃ s', Writer.addItem bqCfg [] 7 bqVec = .ok s' ∧ Store.get s' (bqCfg.itemKey 7) = some (bqCfg.mkLeaf bqVec) :=
  ⟨_, rfl, by decide +kernel⟩
/-- the stored word is `0b001`, read back as (1.0, -1.0, -1.0), quantised again to `0b001` -/
example : BQ.pack bqVec = [1] ∧ (BQ.unpack (BQ.pack bqVec)).take 3 = [F32.one, F32.negOne, F32.negOne] ∧
    BQ.pack [F32.one, F32.negOne, F32.negOne] = [1] := by decide +kernel
example : ∀ op ∈ bqOps, op.wf ∧ C01.madeBy bqCfg op := by
  intro op hop
  simp only [bqOps, List.mem_cons, List.not_mem_nil, or_false] at hop
  rcases hop with rfl | rfl | rfl
  · exact ⟨by decide, fun _ => rfl⟩
  · exact ⟨by decide, fun e => absurd e (by decide)⟩
  · exact ⟨by decide, fun e => absurd e (by decide)⟩
/-- the build of the quantised index after that history succeeds and keeps item 7 -/
example : ∃ st', Build.build bqCfg {} 0 { store := C01.run bqOps } = .ok ((), st') ∧
    (Store.get st'.store (bqCfg.itemKey 7)).isSome = true := ⟨_, rfl, rfl⟩
example : (C01.Op.build bqCfg {} 0 { store := [] }).wf := by decide
/-- the end-to-end theorem applied to that history: item 7 reads back and `by_item 7 = by_vector` of it -/
example : ∃ st' roots vec, Build.build bqCfg {} 0 { store := C01.run bqOps } = .ok ((), st') ∧
    Writer.itemVector bqCfg st'.store 7 = some vec ∧ vec.length = 3 ∧
    ∀ q : QueryOpts, byItem bqCfg st'.store ⟨roots, 3, (C01.run bqOps).keysOf 0 modeItem⟩ 7 q =
      (byVector bqCfg st'.store ⟨roots, 3, (C01.run bqOps).keysOf 0 modeItem⟩ vec q).map some := by
  have hops : ∀ op ∈ bqOps, op.wf ∧ C01.madeBy bqCfg op := by
    intro op hop
    simp only [bqOps, List.mem_cons, List.not_mem_nil, or_false] at hop
    rcases hop with rfl | rfl | rfl
    · exact ⟨by decide, fun _ => rfl⟩
    · exact ⟨by decide, fun e => absurd e (by decide)⟩
    · exact ⟨by decide, fun e => absurd e (by decide)⟩
  obtain ⟨roots, vec, _, h2, h3, _, h5⟩ := C03_by_item_eq_by_vector_reachable_bq bqOps (fun op h => (hops op h).1)
    bqCfg rfl (fun op h => (hops op h).2) {} 0 { store := [] } _ (by decide) rfl 7 rfl
  exact ⟨_, roots, vec, rfl, h2, h3, h5⟩

end Examples

end Arroy.C03
