import ArroyProofs.Properties.C11Reported
/-! # C11 — the REPORTED Manhattan and dot-product values, symmetry and self distance of the reported values

`C11Reported.lean` covers the reported Euclidean and cosine distances; `C11Real.lean` bounds the KERNELS
`dotProduct` and `manhattanDistance`.  Here the two remaining f32 metrics are taken through
`normalized_distance`:

* `C11_reported_manhattan_eq` : `normalizedDistance .manhattan (builtDistance .manhattan …) = manhattanDistance p q`
  for ALL inputs (no flag needed): the sum of absolute values is NaN or `≥ 0` on bit patterns, so
  `if d.is_nan() { d } else { d.max(0.0) }` is the identity.
* `C11_round_f32_reported_manhattan` : under the run-time flag of `C11_round_f32_manhattan_distance` the
  reported value is finite, `≥ 0`, and within `((1+u)^(n+1) − 1)·Σ|aᵢ−bᵢ|` of `Σ|aᵢ−bᵢ|`.
* `C11_neg_neg` : the model's `-(-x)` is `x`, bit for bit, for EVERY bit pattern (sign of zero and NaN payload
  included: negation only flips bit 31) — so `C11_reported_dot_eq`: the value reported for the dot-product
  metric is exactly the bit pattern of the inner product `dotProduct h p q`.
* `C11_round_f32_reported_dot` : hence `|reported − Σaᵢbᵢ| ≤ ((1+u)^K − 1)·Σ|aᵢbᵢ|` under the flag of
  `C11_round_f32_dot_product`.
* `C11_reported_symm`, `C11_reported_symm_stored`, `C11_reported_self_zero`. -/
namespace Arroy.C11
open Arroy Kernel SF SFR KernelRound ReportedReal

/-! ## Manhattan: `max · 0` is the identity on the sum of absolute values -/

/-- bit patterns strictly between `+inf` and `2^31` are NaN -/
theorem isNaN_of_gt_inf {x : Nat} (h1 : 0x7f800000 < x) (h2 : x < 2 ^ 31) : F32.isNaN x = true := by
  have e1 : x / 2 ^ (F32.fmt.p - 1) % 2 ^ F32.fmt.ebits = F32.fmt.emaxField := by
    show x / 2 ^ 23 % 2 ^ 8 = 255
    omega
  have e2 : ¬ (x % 2 ^ (F32.fmt.p - 1) = 0) := by
    show ¬ (x % 2 ^ 23 = 0)
    omega
  unfold F32.isNaN SF.isNaN SF.unpack
  simp only [e1, beq_self_eq_true, if_true, beq_iff_eq, if_neg e2]

/-- `|x|` (clear bit 31) is NaN or a non-negative number, for every bit pattern -/
theorem nn_abs (a : Nat) : F32M.NN (F32.abs a) := by
  have hlt : F32.abs a < 2 ^ 31 := by
    show a % 2 ^ (F32.fmt.width - 1) < 2 ^ 31
    exact Nat.mod_lt _ (by decide)
  by_cases h : F32.abs a ≤ 0x7f800000
  · exact F32M.nn_of_le_inf h
  · exact Or.inl (isNaN_of_gt_inf (by omega) hlt)

/-- **the Manhattan kernel returns NaN or a non-negative number** (`-0.0` for empty input), all inputs -/
theorem manhattanDistance_nn (p q : List Nat) : F32M.NN (manhattanDistance p q) := by
  unfold manhattanDistance manhattanWith
  apply foldl_pred F32M.NN _ F32M.NN (fun x y hx hy => F32M.nn_add hx hy) _ _ F32M.nn_negZero
  intro x hx
  obtain ⟨a, b, rfl⟩ := F32M.exists_of_mem_zipWith _ p q x hx
  exact nn_abs _

/-- on a value that is NaN or `≥ 0`, `if d.is_nan() { d } else { d.max(0.0) }` returns `d` itself -/
theorem max_zero_of_nn {d : Nat} (h : F32M.NN d) :
    (if F32.isNaN d = true then d else F32.max d F32.zero) = d := by
  rcases h with h | h
  · rw [if_pos h]
  · have h' : (!(SF.isNaN F32.fmt F32.zero) && !(SF.isNaN F32.fmt d) && !(SF.lt F32.fmt d F32.zero)) = true := h
    simp only [Bool.and_eq_true, Bool.not_eq_true'] at h'
    obtain ⟨⟨h0, hd⟩, hlt⟩ := h'
    have hd' : F32.isNaN d = false := hd
    rw [if_neg (by rw [hd']; exact Bool.false_ne_true)]
    show SF.max F32.fmt d F32.zero = d
    unfold SF.max
    rw [hd, h0, hlt]
    simp

/-- **The reported Manhattan distance IS the kernel's value**, bit for bit, for all inputs (any lengths,
NaN and infinite components included): `normalized_distance` of the Manhattan metric
(`if d.is_nan() { d } else { d.max(0.0) }`) never changes the sum of absolute values. -/
theorem C11_reported_manhattan_eq (h : Host) (hp hq p q : List Nat) (dims : Nat) :
    Metric.normalizedDistance .manhattan (Metric.builtDistance .manhattan h hp p hq q) dims
      = manhattanDistance p q :=
  max_zero_of_nn (manhattanDistance_nn p q)

/-- the flag of `C11_round_f32_manhattan_distance` implies that the sum is finite and non-negative -/
theorem manhattanDistance_finite (x y : List Nat)
    (hrun : (manhattanWith f32Chk (fun c => (F32.abs c.1, c.2)) (chkIn x) (chkIn y)).2 = true) :
    Finite (manhattanDistance x y) ∧ 0 ≤ toReal (manhattanDistance x y) := by
  have hok : FinOK (manhattanWith f32Chk (fun c => (F32.abs c.1, c.2)) (chkIn x) (chkIn y)) := by
    unfold manhattanWith
    exact foldl_pred FinOK _ (fun _ => True) (fun a b _ _ => finok_add a b) _ _ finok_sumInit
      (fun _ _ => trivial)
  have hf := hok hrun
  have e := manhattanWith_map Prod.fst (chk_fst_hom f32Arith f32Checks)
    (fun c => (F32.abs c.1, c.2)) F32.abs (fun _ => rfl) (chkIn x) (chkIn y)
  rw [chkIn_fst, chkIn_fst] at e
  have e' : (manhattanWith f32Chk (fun c => (F32.abs c.1, c.2)) (chkIn x) (chkIn y)).1
      = manhattanDistance x y := e.symm
  rw [e'] at hf
  refine ⟨hf, ?_⟩
  rcases manhattanDistance_nn x y with hn | hle
  · exfalso
    have hu := F32M.unpack_of_isNaN hn
    obtain ⟨n, m, e, hu'⟩ := (finite_iff _).1 hf
    rw [hu] at hu'; cases hu'
  · have := le_toReal hle finite_zero hf
    rw [show toReal F32.zero = 0 from toReal_zero] at this
    exact this

/-- the terms `|aᵢ−bᵢ|` are their own absolute values -/
theorem abs_terms_abs (x y : List Nat) :
    (List.zipWith (fun a b => |toReal a - toReal b|) x y).map (fun z => |z|)
      = List.zipWith (fun a b => |toReal a - toReal b|) x y := by
  rw [List.map_zipWith]
  congr 1
  funext a b
  exact abs_abs _

/-- **The reported Manhattan distance.**  Hypotheses: equal lengths, and no operation of the instrumented
run of the sum fails its check (exactly the hypotheses of `C11_round_f32_manhattan_distance`).  Then the
value the reader reports equals the kernel's sum (this part holds without the flag,
`C11_reported_manhattan_eq`), it is finite and non-negative, and with `n` the dimension

`|reported − Σ|aᵢ−bᵢ|| ≤ ((1+u)^(n+1) − 1)·Σ|aᵢ−bᵢ|`. -/
theorem C11_round_f32_reported_manhattan (h : Host) (hp hq p q : List Nat) (dims : Nat)
    (hl : p.length = q.length)
    (hrun : (manhattanWith f32Chk (fun c => (F32.abs c.1, c.2)) (chkIn p) (chkIn q)).2 = true) :
    Metric.normalizedDistance .manhattan (Metric.builtDistance .manhattan h hp p hq q) dims
      = manhattanDistance p q ∧
    Finite (Metric.normalizedDistance .manhattan (Metric.builtDistance .manhattan h hp p hq q) dims) ∧
    0 ≤ toReal (Metric.normalizedDistance .manhattan (Metric.builtDistance .manhattan h hp p hq q) dims) ∧
    |toReal (Metric.normalizedDistance .manhattan (Metric.builtDistance .manhattan h hp p hq q) dims)
        - (List.zipWith (fun a b => |toReal a - toReal b|) p q).sum|
      ≤ ((1 + u) ^ (p.length + 1) - 1) * (List.zipWith (fun a b => |toReal a - toReal b|) p q).sum := by
  have e := C11_reported_manhattan_eq h hp hq p q dims
  obtain ⟨hf, h0⟩ := manhattanDistance_finite p q hrun
  have hb := C11_round_f32_manhattan_distance p q hl hrun
  rw [abs_terms_abs] at hb
  rw [e]
  exact ⟨rfl, hf, h0, hb⟩

/-! ## dot product: negation twice -/

/-- **the model's `-(-x)` is `x`, bit for bit**, for every bit pattern (negation flips bit 31 and nothing
else: the sign of a zero, an infinity or a NaN is flipped back, payloads untouched) -/
theorem C11_neg_neg (x : Nat) : F32.neg (F32.neg x) = x := by
  unfold F32.neg SF.neg
  rw [show F32.fmt.width - 1 = 31 from rfl]
  simp only [beq_iff_eq]
  split <;> split <;> omega

/-- **The value reported for the dot-product metric is the inner product itself**, bit for bit, for all
inputs: `built_distance = -dot(p, q)`, `normalized_distance = -d`, and `-(-x) = x` in the model
(`C11_neg_neg`) — in particular the sign of a zero result is the one `dot_product` computed. -/
theorem C11_reported_dot_eq (h : Host) (hp hq p q : List Nat) (dims : Nat) :
    Metric.normalizedDistance .dot (Metric.builtDistance .dot h hp p hq q) dims = dotProduct h p q :=
  C11_neg_neg _

/-- **The reported dot-product value.**  Hypotheses: equal lengths, and no operation of the instrumented
run of the inner product fails its check (exactly the hypotheses of `C11_round_f32_dot_product`).  The
reported value is the inner product's bit pattern, it is finite, and with `K = dotDepth h n ≤ n + 1`

`|reported − Σ aᵢbᵢ| ≤ ((1+u)^K − 1)·Σ|aᵢbᵢ|`.

The reported value is a SIMILARITY: larger means nearer.  That is the `.dot` clause of
`C03.C03_reported_sorted` (`Properties/C03Sorted.lean`): along an answer the reported values of the dot
metric are ordered by `≥` (`nearer .dot r1 r2`), NaN values last. -/
theorem C11_round_f32_reported_dot (h : Host) (hp hq p q : List Nat) (dims : Nat)
    (hl : p.length = q.length)
    (hrun : (dotProductG f32Chk h (chkIn p) (chkIn q)).2 = true) :
    Metric.normalizedDistance .dot (Metric.builtDistance .dot h hp p hq q) dims = dotProduct h p q ∧
    Finite (Metric.normalizedDistance .dot (Metric.builtDistance .dot h hp p hq q) dims) ∧
    |toReal (Metric.normalizedDistance .dot (Metric.builtDistance .dot h hp p hq q) dims)
        - (List.zipWith (fun a b => toReal a * toReal b) p q).sum|
      ≤ ((1 + u) ^ (dotDepth h p.length) - 1)
        * ((List.zipWith (fun a b => toReal a * toReal b) p q).map (fun z => |z|)).sum ∧
    dotDepth h p.length ≤ p.length + 1 := by
  have e := C11_reported_dot_eq h hp hq p q dims
  obtain ⟨hb, hK⟩ := C11_round_f32_dot_product h p q hl hrun
  rw [e]
  exact ⟨rfl, dotProduct_finite h p q hrun, hb, hK⟩

/-! ## symmetry and self distance of the reported values -/

/-- **The reported distance is symmetric, bit for bit** — every metric (the four f32 metrics and the three
quantised ones), any two stored leaves `(ph, pv)`, `(qh, qv)` with vectors of equal length (for a quantised
metric: the same number of words), whatever the headers. -/
theorem C11_reported_symm (m : Metric) (h : Host) (ph pv qh qv : List Nat) (dims : Nat)
    (hl : pv.length = qv.length) :
    Metric.normalizedDistance m (Metric.builtDistance m h ph pv qh qv) dims
      = Metric.normalizedDistance m (Metric.builtDistance m h qh qv ph pv) dims := by
  rw [C11_symm m h ph pv qh qv hl]

/-- … in particular for two vectors `p`, `q` of equal length stored under the four f32 metrics, with the
headers `newHeader` computes (`norm = sqrt(dot(v, v))` for cosine, `0` for the dot metric, none for
Euclidean and Manhattan) -/
theorem C11_reported_symm_stored (m : Metric)
    (_hm : m = .euclidean ∨ m = .manhattan ∨ m = .cosine ∨ m = .dot)
    (h : Host) (p q : List Nat) (dims : Nat) (hl : p.length = q.length) :
    Metric.normalizedDistance m
        (Metric.builtDistance m h (Metric.newHeader m h p) p (Metric.newHeader m h q) q) dims
      = Metric.normalizedDistance m
        (Metric.builtDistance m h (Metric.newHeader m h q) q (Metric.newHeader m h p) p) dims :=
  C11_reported_symm m h _ p _ q dims hl

/-- **Reported self distance**: for a non-empty vector of finite components, Euclidean and Manhattan
report exactly `+0.0` (bits `0`) for the vector against itself, with the headers `newHeader` computes (in
fact with any headers — `C11_self_zero_euclid`, `C11_self_zero_manhattan`).  Not claimed, because false:
cosine (`C11.lean`: the quotient can be `1 − 2⁻²⁴`) and dot (the reported value is `‖v‖²`). -/
theorem C11_reported_self_zero (h : Host) (v : List Nat) (dims : Nat) (hne : v ≠ [])
    (hfin : ∀ x ∈ v, KernelF32.finite x = true) :
    Metric.normalizedDistance .euclidean
        (Metric.builtDistance .euclidean h (Metric.newHeader .euclidean h v) v
          (Metric.newHeader .euclidean h v) v) dims = F32.zero ∧
    Metric.normalizedDistance .manhattan
        (Metric.builtDistance .manhattan h (Metric.newHeader .manhattan h v) v
          (Metric.newHeader .manhattan h v) v) dims = F32.zero :=
  ⟨(C11_self_zero_euclid h v _ _ dims hne hfin).2.2, (C11_self_zero_manhattan h v _ _ dims hne hfin).2.2⟩

/-! ## non-vacuity -/
section examples

/-- Manhattan: `⟨1+2^-23, 2, -1⟩` against `⟨3, 0.3f, 7⟩`: the flag holds, the reported value is the kernel's -/
example : (manhattanWith f32Chk (fun c => (F32.abs c.1, c.2)) (chkIn [0x3f800001, 0x40000000, 0xbf800000])
    (chkIn [0x40400000, 0x3e99999a, 0x40e00000])).2 = true := by decide +kernel

example : Metric.normalizedDistance .manhattan (Metric.builtDistance .manhattan {} []
      [0x3f800001, 0x40000000, 0xbf800000] [] [0x40400000, 0x3e99999a, 0x40e00000]) 3
    = manhattanDistance [0x3f800001, 0x40000000, 0xbf800000] [0x40400000, 0x3e99999a, 0x40e00000] ∧
    manhattanDistance [0x3f800001, 0x40000000, 0xbf800000] [0x40400000, 0x3e99999a, 0x40e00000]
      = 0x413b3333 := by decide +kernel

example :
    |toReal (Metric.normalizedDistance .manhattan (Metric.builtDistance .manhattan {} []
          [0x3f800001, 0x40000000, 0xbf800000] [] [0x40400000, 0x3e99999a, 0x40e00000]) 3)
        - (List.zipWith (fun a b => |toReal a - toReal b|) [0x3f800001, 0x40000000, 0xbf800000]
            [0x40400000, 0x3e99999a, 0x40e00000]).sum|
      ≤ ((1 + u) ^ (3 + 1) - 1)
        * (List.zipWith (fun a b => |toReal a - toReal b|) [0x3f800001, 0x40000000, 0xbf800000]
            [0x40400000, 0x3e99999a, 0x40e00000]).sum :=
  (C11_round_f32_reported_manhattan {} [] [] [0x3f800001, 0x40000000, 0xbf800000]
    [0x40400000, 0x3e99999a, 0x40e00000] 3 rfl (by decide +kernel)).2.2.2

/-- the 37-component vectors of `C11Real.lean`: the flag holds -/
example : (manhattanWith f32Chk (fun c => (F32.abs c.1, c.2)) (chkIn exX) (chkIn exY)).2 = true := by
  decide +kernel

/-- `C11_reported_manhattan_eq` needs no flag: NaN stays the kernel's NaN, an infinite sum stays `+inf`,
and the empty sum `-0.0` is reported as `-0.0` (the model's `max(-0.0, +0.0)` keeps the first operand) -/
example : Metric.normalizedDistance .manhattan (Metric.builtDistance .manhattan {} [] [0x7fc00001] [] [F32.one]) 1
      = manhattanDistance [0x7fc00001] [F32.one] ∧
    F32.isNaN (manhattanDistance [0x7fc00001] [F32.one]) = true ∧
    Metric.normalizedDistance .manhattan (Metric.builtDistance .manhattan {} [] [F32.inf] [] [F32.one]) 1 = F32.inf ∧
    Metric.normalizedDistance .manhattan (Metric.builtDistance .manhattan {} [] [] [] []) 0 = F32.negZero := by
  decide +kernel

/-- the identity is NOT a property of `max · 0` alone: on a negative number it returns `+0.0` — it is the
non-negativity of the sum that makes it one -/
example : Metric.normalizedDistance .manhattan F32.negOne 1 = F32.zero := by decide +kernel

/-- dot: `⟨1+2^-23, 2, -1⟩·⟨1+2^-23, 3, 7⟩` cancels to `+0.0`; reported `+0.0`, NOT `-0.0`; and a `-0.0`
inner product (`⟨-0⟩·⟨1⟩` summed from `-0.0`) is reported as `-0.0` -/
example : (dotProductG f32Chk {} (chkIn [0x3f800001, 0x40000000, 0xbf800000])
    (chkIn [0x3f800001, 0x40400000, 0x40e00000])).2 = true := by decide +kernel

example : Metric.builtDistance .dot {} [F32.zero] [0x3f800001, 0x40000000, 0xbf800000] [F32.zero]
      [0x3f800001, 0x40400000, 0x40e00000] = 0x80000000 ∧
    Metric.normalizedDistance .dot (Metric.builtDistance .dot {} [F32.zero] [0x3f800001, 0x40000000, 0xbf800000]
      [F32.zero] [0x3f800001, 0x40400000, 0x40e00000]) 3 = 0 ∧
    Metric.normalizedDistance .dot (Metric.builtDistance .dot {} [F32.zero] [F32.negZero] [F32.zero] [F32.one]) 1
      = F32.negZero := by decide +kernel

example :
    |toReal (Metric.normalizedDistance .dot (Metric.builtDistance .dot {} [F32.zero]
          [0x3f800001, 0x40000000, 0x40400000] [F32.zero] [0x3f800001, 0x40400000, 0x40e00000]) 3)
        - (List.zipWith (fun a b => toReal a * toReal b) [0x3f800001, 0x40000000, 0x40400000]
            [0x3f800001, 0x40400000, 0x40e00000]).sum|
      ≤ ((1 + u) ^ (dotDepth {} [0x3f800001, 0x40000000, 0x40400000].length) - 1)
        * ((List.zipWith (fun a b => toReal a * toReal b) [0x3f800001, 0x40000000, 0x40400000]
            [0x3f800001, 0x40400000, 0x40e00000]).map (fun z => |z|)).sum :=
  (C11_round_f32_reported_dot {} [F32.zero] [F32.zero] [0x3f800001, 0x40000000, 0x40400000]
    [0x3f800001, 0x40400000, 0x40e00000] 3 rfl (by decide +kernel)).2.2.1

/-- the 37-component vectors (AVX and SSE paths): flag and reported value -/
example : (dotProductG f32Chk {} (chkIn exX) (chkIn exY)).2 = true ∧
    (dotProductG f32Chk { avx := false } (chkIn exX) (chkIn exY)).2 = true ∧
    Metric.normalizedDistance .dot (Metric.builtDistance .dot {} (Metric.newHeader .dot {} exX) exX
      (Metric.newHeader .dot {} exY) exY) 37 = dotProduct {} exX exY := by decide +kernel

/-- `-(-x) = x` on a signalling-NaN payload, on `-0.0`, and on a pattern above `2^32` -/
example : F32.neg (F32.neg 0x7f800001) = 0x7f800001 ∧ F32.neg (F32.neg F32.negZero) = F32.negZero ∧
    F32.neg (F32.neg 0x1ffffffff) = 0x1ffffffff := by decide +kernel

/-- symmetry of the reported value on a concrete pair, each f32 metric (cosine with its stored norms) -/
example : ∀ m ∈ [Metric.euclidean, .manhattan, .cosine, .dot],
    Metric.normalizedDistance m (Metric.builtDistance m {} (Metric.newHeader m {} [0x3f800001, 0x40000000])
        [0x3f800001, 0x40000000] (Metric.newHeader m {} [0x40400000, 0x3e99999a]) [0x40400000, 0x3e99999a]) 2
      = Metric.normalizedDistance m (Metric.builtDistance m {} (Metric.newHeader m {} [0x40400000, 0x3e99999a])
        [0x40400000, 0x3e99999a] (Metric.newHeader m {} [0x3f800001, 0x40000000]) [0x3f800001, 0x40000000]) 2 ∧
    F32.isNaN (Metric.normalizedDistance m (Metric.builtDistance m {} (Metric.newHeader m {} [0x3f800001, 0x40000000])
        [0x3f800001, 0x40000000] (Metric.newHeader m {} [0x40400000, 0x3e99999a]) [0x40400000, 0x3e99999a]) 2)
      = false := by decide +kernel

/-- `C11_reported_self_zero`: its hypotheses hold on `⟨1+2^-23, 2, -7⟩`, and both reported values are `+0.0` -/
example : (∀ x ∈ [0x3f800001, 0x40000000, 0xc0e00000], KernelF32.finite x = true) ∧
    Metric.normalizedDistance .euclidean (Metric.builtDistance .euclidean {}
      (Metric.newHeader .euclidean {} [0x3f800001, 0x40000000, 0xc0e00000]) [0x3f800001, 0x40000000, 0xc0e00000]
      (Metric.newHeader .euclidean {} [0x3f800001, 0x40000000, 0xc0e00000]) [0x3f800001, 0x40000000, 0xc0e00000]) 3
      = F32.zero ∧
    Metric.normalizedDistance .manhattan (Metric.builtDistance .manhattan {}
      (Metric.newHeader .manhattan {} [0x3f800001, 0x40000000, 0xc0e00000]) [0x3f800001, 0x40000000, 0xc0e00000]
      (Metric.newHeader .manhattan {} [0x3f800001, 0x40000000, 0xc0e00000]) [0x3f800001, 0x40000000, 0xc0e00000]) 3
      = F32.zero := by decide +kernel

/-- why `C11_reported_self_zero` asks for finite components and a non-empty vector: `inf − inf` is NaN, and
the empty Manhattan sum is `-0.0` -/
example : F32.isNaN (Metric.normalizedDistance .manhattan
      (Metric.builtDistance .manhattan {} [] [F32.inf] [] [F32.inf]) 1) = true ∧
    Metric.normalizedDistance .manhattan (Metric.builtDistance .manhattan {} [] [] [] []) 0 ≠ F32.zero := by
  decide +kernel

end examples

end Arroy.C11
