import ArroyProofs.WriterLaws
import ArroyModel.Reader
/-! # C19 — rejected calls have no effect

A rejected call returns `.error` and no store at all: the transaction's store stays the one it was
(`after`). Deleting an absent item returns the very same store. -/
namespace Arroy.C19
open Arroy Generated

/-- the store a transaction sees after a call: the new one if the call succeeded, the old one otherwise -/
def after (s : Store) : Except Err Store → Store
  | .ok s' => s'
  | .error _ => s

/-- **add with a wrong length**: the dimension error with both lengths; no store is produced -/
theorem C19_dim_add (c : Cfg) (s : Store) (id : Nat) (vec : List Nat) (h : vec.length ≠ c.dims) :
    Writer.addItem c s id vec = .error (.invalidDim c.dims vec.length) ∧
    after s (Writer.addItem c s id vec) = s := by
  rw [Writer.addItem_err s id h]; exact ⟨rfl, rfl⟩

/-- **append with a wrong length**: the same, whatever the keys of the database -/
theorem C19_dim_append (c : Cfg) (s : Store) (id : Nat) (vec : List Nat) (h : vec.length ≠ c.dims) :
    Writer.appendItem c s id vec = .error (.invalidDim c.dims vec.length) ∧
    after s (Writer.appendItem c s id vec) = s := by
  rw [Writer.appendItem_err_dim s id h]; exact ⟨rfl, rfl⟩

/-- **query with a wrong length** (a query never writes) -/
theorem C19_dim_query (c : Cfg) (s : Store) (rd : ReaderState) (vec : List Nat) (q : QueryOpts)
    (h : vec.length ≠ rd.dims) :
    Reader.byVector c s rd vec q = .error (.invalidDim rd.dims vec.length) := by
  unfold Reader.byVector; simp [h]

/-- conversely the dimension error only ever comes from a wrong length -/
theorem C19_dim_add_iff (c : Cfg) (s : Store) (id : Nat) (vec : List Nat) :
    (∃ e, Writer.addItem c s id vec = .error e) ↔ vec.length ≠ c.dims := by
  constructor
  · intro ⟨e, he⟩ hl
    rw [Writer.addItem_of_len s id hl] at he; cases he
  · intro h; exact ⟨_, Writer.addItem_err s id h⟩

/-- **append**: with the right length, the append error is raised exactly when some key of the whole
    database (any index, any kind) is `≥` the new item key … -/
theorem C19_append (c : Cfg) (s : Store) (hs : Store.Sorted s) (id : Nat) (vec : List Nat)
    (hl : vec.length = c.dims) :
    (Writer.appendItem c s id vec = .error .invalidAppend ↔ ∃ kv ∈ s, (c.itemKey id).le kv.1 = true) ∧
    ((∀ kv ∈ s, kv.1.lt (c.itemKey id) = true) → Writer.appendItem c s id vec = Writer.addItem c s id vec) ∧
    (∀ s', Writer.appendItem c s id vec = .ok s' → Writer.addItem c s id vec = .ok s') ∧
    (∀ e, Writer.appendItem c s id vec = .error e → e = .invalidAppend) := by
  refine ⟨?_, ?_, fun s' h => Writer.appendItem_ok_eq_addItem hs h, ?_⟩
  · rw [← Store.putAppend_eq_none_iff hs (c.itemKey id) (c.mkLeaf vec)]
    cases hp : s.putAppend (c.itemKey id) (c.mkLeaf vec) with
    | none => rw [Writer.appendItem_none hl hp]; simp
    | some s1 => rw [Writer.appendItem_some hl hp]; simp
  · intro hall
    obtain ⟨s1, hp⟩ := (Store.putAppend_isSome_iff hs (c.itemKey id) (c.mkLeaf vec)).2 hall
    have h := Writer.appendItem_some hl hp
    rw [h, Writer.appendItem_ok_eq_addItem hs h]
  · intro e he
    cases hp : s.putAppend (c.itemKey id) (c.mkLeaf vec) with
    | none => rw [Writer.appendItem_none hl hp] at he; cases he; rfl
    | some s1 => rw [Writer.appendItem_some hl hp] at he; cases he

/-- … and when it is accepted, every key reads as after `add_item` (the two stores are equal) -/
theorem C19_append_get (c : Cfg) (s s1 s2 : Store) (hs : Store.Sorted s) (id : Nat) (vec : List Nat)
    (h1 : Writer.appendItem c s id vec = .ok s1) (h2 : Writer.addItem c s id vec = .ok s2) :
    s1 = s2 ∧ ∀ k, Store.get s1 k = Store.get s2 k := by
  have := Writer.appendItem_ok_eq_addItem hs h1
  rw [h2] at this
  cases this
  exact ⟨rfl, fun _ => rfl⟩

/-- a rejected append leaves the store as it was -/
theorem C19_append_rejected (c : Cfg) (s : Store) (id : Nat) (vec : List Nat) (e : Err)
    (h : Writer.appendItem c s id vec = .error e) : after s (Writer.appendItem c s id vec) = s := by
  rw [h]; rfl

/-- the append rule is about the whole database: an entry of *another* index that sorts after the new key
    makes the call fail -/
theorem C19_append_other_index (c : Cfg) (s : Store) (hs : Store.Sorted s) (id : Nat) (vec : List Nat)
    (hl : vec.length = c.dims) (kv : Key × Val) (hkv : kv ∈ s) (hidx : c.index < kv.1.index) :
    Writer.appendItem c s id vec = .error .invalidAppend := by
  apply ((C19_append c s hs id vec hl).1).2
  refine ⟨kv, hkv, ?_⟩
  rw [Key.le_iff]; left
  rw [Key.lt_iff]; left; exact hidx

/-- **deleting an absent item** reports `false` and returns the same store -/
theorem C19_del_absent (c : Cfg) (s : Store) (id : Nat) (h : Writer.containsItem c s id = false) :
    Writer.delItem c s id = (s, false) ∧ ∀ k, Store.get (Writer.delItem c s id).1 k = Store.get s k := by
  have hg : Store.get s (c.itemKey id) = none := (Store.contains_eq_false_iff s _).1 h
  rw [Writer.delItem_absent hg]
  exact ⟨rfl, fun _ => rfl⟩

/-- `del_item` reports `false` only for an absent item -/
theorem C19_del_false_iff (c : Cfg) (s : Store) (id : Nat) :
    (Writer.delItem c s id).2 = false ↔ Writer.containsItem c s id = false := by
  rw [Writer.delItem_snd]; rfl

/-- none of the rejected calls / absent deletes changes `need_build` (of any index) -/
theorem C19_needBuild_unchanged (c c' : Cfg) (s : Store) (id : Nat) (vec : List Nat) :
    (vec.length ≠ c.dims → Writer.needBuild c' (after s (Writer.addItem c s id vec)) = Writer.needBuild c' s) ∧
    (∀ e, Writer.appendItem c s id vec = .error e →
      Writer.needBuild c' (after s (Writer.appendItem c s id vec)) = Writer.needBuild c' s) ∧
    (Writer.containsItem c s id = false →
      Writer.needBuild c' (Writer.delItem c s id).1 = Writer.needBuild c' s) := by
  refine ⟨fun h => ?_, fun e h => ?_, fun h => ?_⟩
  · rw [(C19_dim_add c s id vec h).2]
  · rw [C19_append_rejected c s id vec e h]
  · rw [(C19_del_absent c s id h).1]

/-! ## non-vacuity -/

def c0 : Cfg := { index := 7, metric := .euclidean, dims := 2 }
def s0 : Store := [(⟨7, 3, 4⟩, .leaf [0] [1, 2]), (⟨8, 0, 0⟩, .unit)]

example : Store.Sorted s0 := by simp [s0, Store.Sorted, Key.lt]
example : ([1] : List Nat).length ≠ c0.dims := by decide
example : ([1, 2] : List Nat).length = c0.dims ∧ (∃ kv ∈ s0, (c0.itemKey 9).le kv.1 = true) :=
  ⟨rfl, (⟨8, 0, 0⟩, .unit), by simp [s0], by decide⟩
example : Writer.appendItem c0 s0 9 [1, 2] = .error .invalidAppend := rfl
example : ∃ s', Writer.appendItem c0 [(⟨7, 3, 4⟩, .leaf [0] [1, 2])] 9 [1, 2] = .ok s' := ⟨_, rfl⟩
example : Writer.containsItem c0 s0 5 = false := by decide

end Arroy.C19
