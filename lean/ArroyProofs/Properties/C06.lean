import ArroyProofs.WriterLaws
import ArroyProofs.Properties.C19
/-! # C06 — a stale or never-built index is never silently served

The parts that do not involve `Build.build`: the open-time checks and their order, the need-build
predicate, the updated mark written by every effective mutation, no-ops, `clear`, metric names. -/
namespace Arroy.C06
open Arroy Generated

/-- an updated mark of the index exists -/
def HasMark (c : Cfg) (s : Store) : Prop := ∃ id, (Store.get s (c.updatedKey id)).isSome = true

theorem marks_nonempty_iff {c : Cfg} {s : Store} (hw : Store.WF s) (hi : c.index < 65536) :
    (!(s.prefixIter c.index (some modeUpdated)).isEmpty) = true ↔ HasMark c s := by
  have h := Writer.marks_isEmpty_iff (c := c) hw hi
  unfold HasMark
  constructor
  · intro hne
    apply Classical.byContradiction
    intro hno
    have : ∀ id, Store.get s (c.updatedKey id) = none := by
      intro id
      cases hg : Store.get s (c.updatedKey id) with
      | none => rfl
      | some v => exact absurd ⟨id, by simp [hg]⟩ hno
    rw [h.2 this] at hne; cases hne
  · intro ⟨id, hid⟩
    cases he : (s.prefixIter c.index (some modeUpdated)).isEmpty with
    | false => rfl
    | true => rw [h.1 he id] at hid; cases hid

theorem marks_nonempty_of_mark {c : Cfg} {s : Store} (h : HasMark c s) :
    (!(s.prefixIter c.index (some modeUpdated)).isEmpty) = true := by
  obtain ⟨id, hid⟩ := h
  have := Store.prefixIter_ne_nil_of_get hid
  have e : (c.updatedKey id).index = c.index := rfl
  have e2 : (c.updatedKey id).mode = modeUpdated := rfl
  rw [e, e2] at this
  cases hp : s.prefixIter c.index (some modeUpdated) with
  | nil => exact absurd hp this
  | cons a r => rfl

/-- **`Reader::open`, the three checks in their order**: missing metadata first; then the metric name;
    then the updated marks; otherwise the reader opens with what the metadata says. -/
theorem C06_open_char (c : Cfg) (s : Store) (hw : Store.WF s) (hi : c.index < 65536) :
    (Reader.open c s = .error (.missingMetadata c.index) ↔ Store.get s c.metaKey = none) ∧
    (∀ name dims items roots, Store.get s c.metaKey = some (.metadata name dims items roots) →
      (Reader.open c s = .error (.unmatchingDistance name c.metric.nameBytes) ↔ name ≠ c.metric.nameBytes) ∧
      (name = c.metric.nameBytes →
        (Reader.open c s = .error (.needBuild c.index) ↔ HasMark c s) ∧
        (¬ HasMark c s → Reader.open c s = .ok ⟨roots, dims, items⟩) ∧
        (∀ r, Reader.open c s = .ok r → ¬ HasMark c s ∧ r = ⟨roots, dims, items⟩))) := by
  constructor
  · unfold Reader.open
    cases hg : Store.get s c.metaKey with
    | none => simp
    | some v =>
      cases v with
      | metadata name dims items roots =>
        simp only
        split
        · simp
        · split <;> simp
      | _ => simp
  · intro name dims items roots hg
    have hm := marks_nonempty_iff (c := c) hw hi
    unfold Reader.open
    rw [hg]
    simp only
    by_cases hn : c.metric.nameBytes = name
    · subst hn
      simp only [ne_eq, not_true_eq_false, if_false]
      refine ⟨?_, fun _ => ?_⟩
      · constructor
        · intro h; split at h <;> cases h
        · intro h; exact h.elim
      by_cases hk : HasMark c s
      · rw [if_pos (hm.2 hk)]
        exact ⟨by simp [hk], fun h => absurd hk h, fun r h => by cases h⟩
      · rw [if_neg (fun h => hk (hm.1 h))]
        refine ⟨by simp [hk], fun _ => rfl, fun r h => ⟨hk, ?_⟩⟩
        cases h; rfl
    · rw [if_pos hn]
      refine ⟨by simp [Ne.symm hn], fun e => absurd e.symm hn⟩

/-- the only errors `Reader::open` gives on well-typed metadata are these three -/
theorem C06_open_total (c : Cfg) (s : Store) (name : Bytes) (dims : Nat) (items roots : List Nat)
    (hg : Store.get s c.metaKey = some (.metadata name dims items roots)) :
    Reader.open c s = .error (.unmatchingDistance name c.metric.nameBytes) ∨
    Reader.open c s = .error (.needBuild c.index) ∨ Reader.open c s = .ok ⟨roots, dims, items⟩ := by
  unfold Reader.open
  rw [hg]
  simp only
  split
  · exact Or.inl rfl
  · split
    · exact Or.inr (Or.inl rfl)
    · exact Or.inr (Or.inr rfl)

/-- **`Writer::need_build`** answers true exactly when a mark exists or the metadata is missing -/
theorem C06_needBuild_char (c : Cfg) (s : Store) (hw : Store.WF s) (hi : c.index < 65536) :
    Writer.needBuild c s = true ↔ HasMark c s ∨ Store.get s c.metaKey = none := by
  unfold Writer.needBuild
  rw [Bool.or_eq_true, marks_nonempty_iff hw hi, Option.isNone_iff_eq_none]

/-- `need_build` is false exactly in the states where `open` can succeed (given the right metric name) -/
theorem C06_needBuild_vs_open (c : Cfg) (s : Store) (hw : Store.WF s) (hi : c.index < 65536)
    (dims : Nat) (items roots : List Nat)
    (hg : Store.get s c.metaKey = some (.metadata c.metric.nameBytes dims items roots)) :
    Writer.needBuild c s = false ↔ Reader.open c s = .ok ⟨roots, dims, items⟩ := by
  have h1 := C06_needBuild_char c s hw hi
  have h2 := ((C06_open_char c s hw hi).2 _ dims items roots hg).2 rfl
  constructor
  · intro hnb
    apply h2.2.1
    intro hk
    rw [h1.2 (Or.inl hk)] at hnb; cases hnb
  · intro hop
    cases hnb : Writer.needBuild c s with
    | false => rfl
    | true =>
      rcases h1.1 hnb with hk | hn
      · exact absurd hk (h2.2.2 _ hop).1
      · rw [hg] at hn; cases hn

/-- a mark makes the index stale, whatever else the store holds (no well-formedness needed) -/
theorem stale_of_mark {c : Cfg} {s : Store} (hk : HasMark c s) :
    Writer.needBuild c s = true ∧ (∀ r, Reader.open c s ≠ .ok r) ∧
    (Store.get s c.metaKey = none → Reader.open c s = .error (.missingMetadata c.index)) ∧
    (∀ dims items roots, Store.get s c.metaKey = some (.metadata c.metric.nameBytes dims items roots) →
      Reader.open c s = .error (.needBuild c.index)) := by
  have hm := marks_nonempty_of_mark hk
  refine ⟨?_, ?_, ?_, ?_⟩
  · unfold Writer.needBuild; rw [hm]; rfl
  · intro r
    unfold Reader.open
    cases hg : Store.get s c.metaKey with
    | none => simp
    | some v =>
      cases v with
      | metadata name dims items roots =>
        simp only [hm, if_true]
        split <;> simp
      | _ => simp
  · intro hg; unfold Reader.open; rw [hg]
  · intro dims items roots hg
    unfold Reader.open
    rw [hg]
    simp [hm]

theorem hasMark_add {c : Cfg} {s s' : Store} {id : Nat} {vec : List Nat}
    (h : Writer.addItem c s id vec = .ok s') : HasMark c s' :=
  ⟨id, by rw [Writer.get_addItem h, if_pos rfl]; rfl⟩

theorem meta_add {c c' : Cfg} {s s' : Store} {id : Nat} {vec : List Nat}
    (h : Writer.addItem c s id vec = .ok s') : Store.get s' c'.metaKey = Store.get s c'.metaKey := by
  rw [Writer.get_addItem h, if_neg (Cfg.metaKey_ne_updatedKey c c' id), if_neg (Cfg.metaKey_ne_itemKey c c' id)]

/-- **every effective mutation marks the index**: after a successful `add_item`, `need_build` is true and
    `open` fails — with `NeedBuild` if the metadata (untouched by the call) carries this metric's name,
    with `MissingMetadata` if there is none -/
theorem C06_marks_add (c : Cfg) (s s' : Store) (id : Nat) (vec : List Nat)
    (h : Writer.addItem c s id vec = .ok s') :
    Writer.needBuild c s' = true ∧ (∀ r, Reader.open c s' ≠ .ok r) ∧
    Store.get s' c.metaKey = Store.get s c.metaKey ∧
    (Store.get s c.metaKey = none → Reader.open c s' = .error (.missingMetadata c.index)) ∧
    (∀ dims items roots, Store.get s c.metaKey = some (.metadata c.metric.nameBytes dims items roots) →
      Reader.open c s' = .error (.needBuild c.index)) := by
  have hs := stale_of_mark (hasMark_add h)
  have hm := meta_add (c' := c) h
  refine ⟨hs.1, hs.2.1, hm, fun hg => hs.2.2.1 (hm.trans hg), fun d i r hg => hs.2.2.2 d i r (hm.trans hg)⟩

/-- the same for a successful `append_item` -/
theorem C06_marks_append (c : Cfg) (s s' : Store) (hs : Store.Sorted s) (id : Nat) (vec : List Nat)
    (h : Writer.appendItem c s id vec = .ok s') :
    Writer.needBuild c s' = true ∧ (∀ r, Reader.open c s' ≠ .ok r) ∧
    Store.get s' c.metaKey = Store.get s c.metaKey ∧
    (Store.get s c.metaKey = none → Reader.open c s' = .error (.missingMetadata c.index)) ∧
    (∀ dims items roots, Store.get s c.metaKey = some (.metadata c.metric.nameBytes dims items roots) →
      Reader.open c s' = .error (.needBuild c.index)) :=
  C06_marks_add c s s' id vec (Writer.appendItem_ok_eq_addItem hs h)

/-- the same for a `del_item` that deleted something -/
theorem C06_marks_del (c : Cfg) (s : Store) (id : Nat) (h : (Writer.delItem c s id).2 = true) :
    Writer.needBuild c (Writer.delItem c s id).1 = true ∧
    (∀ r, Reader.open c (Writer.delItem c s id).1 ≠ .ok r) ∧
    Store.get (Writer.delItem c s id).1 c.metaKey = Store.get s c.metaKey ∧
    (Store.get s c.metaKey = none →
      Reader.open c (Writer.delItem c s id).1 = .error (.missingMetadata c.index)) ∧
    (∀ dims items roots, Store.get s c.metaKey = some (.metadata c.metric.nameBytes dims items roots) →
      Reader.open c (Writer.delItem c s id).1 = .error (.needBuild c.index)) := by
  rw [Writer.delItem_snd] at h
  have hk : HasMark c (Writer.delItem c s id).1 :=
    ⟨id, by rw [Writer.get_delItem, if_pos ⟨rfl, h⟩]; rfl⟩
  have hm : Store.get (Writer.delItem c s id).1 c.metaKey = Store.get s c.metaKey := by
    rw [Writer.get_delItem, if_neg (fun h => Cfg.metaKey_ne_updatedKey c c id h.1),
      if_neg (Cfg.metaKey_ne_itemKey c c id)]
  have hs := stale_of_mark hk
  refine ⟨hs.1, hs.2.1, hm, fun hg => hs.2.2.1 (hm.trans hg), fun d i r hg => hs.2.2.2 d i r (hm.trans hg)⟩

/-- the metadata entry is absent (never built / cleared) or carries this metric's name -/
def MetaFits (c : Cfg) (s : Store) : Prop :=
  Store.get s c.metaKey = none ∨
  ∃ dims items roots, Store.get s c.metaKey = some (.metadata c.metric.nameBytes dims items roots)

/-- **summary**: every effective mutation (`add_item` ok, `append_item` ok, `del_item` returning true) leaves
    `need_build = true` and makes `open` fail with `NeedBuild` or `MissingMetadata` -/
theorem C06_marks (c : Cfg) (s : Store) (hs : Store.Sorted s) (hf : MetaFits c s) (id : Nat) (vec : List Nat) :
    (∀ s', Writer.addItem c s id vec = .ok s' → Writer.needBuild c s' = true ∧
      (Reader.open c s' = .error (.needBuild c.index) ∨ Reader.open c s' = .error (.missingMetadata c.index))) ∧
    (∀ s', Writer.appendItem c s id vec = .ok s' → Writer.needBuild c s' = true ∧
      (Reader.open c s' = .error (.needBuild c.index) ∨ Reader.open c s' = .error (.missingMetadata c.index))) ∧
    ((Writer.delItem c s id).2 = true → Writer.needBuild c (Writer.delItem c s id).1 = true ∧
      (Reader.open c (Writer.delItem c s id).1 = .error (.needBuild c.index) ∨
       Reader.open c (Writer.delItem c s id).1 = .error (.missingMetadata c.index))) := by
  refine ⟨fun s' h => ?_, fun s' h => ?_, fun h => ?_⟩
  · have m := C06_marks_add c s s' id vec h
    refine ⟨m.1, ?_⟩
    rcases hf with hn | ⟨d, i, r, hg⟩
    · exact Or.inr (m.2.2.2.1 hn)
    · exact Or.inl (m.2.2.2.2 d i r hg)
  · have m := C06_marks_append c s s' hs id vec h
    refine ⟨m.1, ?_⟩
    rcases hf with hn | ⟨d, i, r, hg⟩
    · exact Or.inr (m.2.2.2.1 hn)
    · exact Or.inl (m.2.2.2.2 d i r hg)
  · have m := C06_marks_del c s id h
    refine ⟨m.1, ?_⟩
    rcases hf with hn | ⟨d, i, r, hg⟩
    · exact Or.inr (m.2.2.2.1 hn)
    · exact Or.inl (m.2.2.2.2 d i r hg)

/-- **operations that change nothing do not make the index stale**: an absent delete and the rejected
    calls leave `need_build` and the result of `open` (for every index) as they were -/
theorem C06_noop (c c' : Cfg) (s : Store) (id : Nat) (vec : List Nat) :
    ((Writer.delItem c s id).2 = false →
      Writer.needBuild c' (Writer.delItem c s id).1 = Writer.needBuild c' s ∧
      Reader.open c' (Writer.delItem c s id).1 = Reader.open c' s) ∧
    (∀ e, Writer.addItem c s id vec = .error e →
      Writer.needBuild c' (C19.after s (Writer.addItem c s id vec)) = Writer.needBuild c' s ∧
      Reader.open c' (C19.after s (Writer.addItem c s id vec)) = Reader.open c' s) ∧
    (∀ e, Writer.appendItem c s id vec = .error e →
      Writer.needBuild c' (C19.after s (Writer.appendItem c s id vec)) = Writer.needBuild c' s ∧
      Reader.open c' (C19.after s (Writer.appendItem c s id vec)) = Reader.open c' s) := by
  refine ⟨fun h => ?_, fun e h => ?_, fun e h => ?_⟩
  · rw [(C19.C19_del_absent c s id ((C19.C19_del_false_iff c s id).1 h)).1]; exact ⟨rfl, rfl⟩
  · rw [h]; exact ⟨rfl, rfl⟩
  · rw [h]; exact ⟨rfl, rfl⟩

/-- **`clear`** removes the metadata: the index must be built again before it can be opened -/
theorem C06_clear (c : Cfg) (s : Store) :
    Store.get (Writer.clear c s) c.metaKey = none ∧
    Reader.open c (Writer.clear c s) = .error (.missingMetadata c.index) ∧
    Writer.needBuild c (Writer.clear c s) = true := by
  have hg : Store.get (Writer.clear c s) c.metaKey = none := Writer.get_clear_same c s _ rfl
  refine ⟨hg, ?_, Writer.needBuild_of_noMeta hg⟩
  unfold Reader.open; rw [hg]

/-- mutations of one index never make *another* index stale, nor fresh -/
theorem C06_frame (c c' : Cfg) (s : Store) (hw : Store.WF s) (hi : c.index < 65536) (hi' : c'.index < 65536)
    (hne : c.index ≠ c'.index) (id : Nat) (hid : id < 4294967296) (vec : List Nat) :
    (∀ s', Writer.addItem c s id vec = .ok s' →
      Writer.needBuild c' s' = Writer.needBuild c' s ∧ Reader.open c' s' = Reader.open c' s) ∧
    (Store.Sorted s → ∀ s', Writer.appendItem c s id vec = .ok s' →
      Writer.needBuild c' s' = Writer.needBuild c' s ∧ Reader.open c' s' = Reader.open c' s) ∧
    (Writer.needBuild c' (Writer.delItem c s id).1 = Writer.needBuild c' s ∧
      Reader.open c' (Writer.delItem c s id).1 = Reader.open c' s) ∧
    (Writer.needBuild c' (Writer.clear c s) = Writer.needBuild c' s ∧
      Reader.open c' (Writer.clear c s) = Reader.open c' s) := by
  refine ⟨fun s' h => ?_, fun hs s' h => ?_, ?_, ?_⟩
  · have f := Writer.frame_addItem h hi hid hi' hne
    exact ⟨Writer.needBuild_congr f.1 f.2, Writer.open_congr f.1 f.2⟩
  · have f := Writer.frame_addItem (Writer.appendItem_ok_eq_addItem hs h) hi hid hi' hne
    exact ⟨Writer.needBuild_congr f.1 f.2, Writer.open_congr f.1 f.2⟩
  · have f := Writer.frame_delItem (c := c) (c' := c') s id hi hid hi' hne
    exact ⟨Writer.needBuild_congr f.1 f.2, Writer.open_congr f.1 f.2⟩
  · have f := Writer.frame_clear (c := c) (c' := c') hw hi hi' hne
    exact ⟨Writer.needBuild_congr f.1 f.2, Writer.open_congr f.1 f.2⟩

/-- the metric names are pairwise distinct -/
theorem C06_names_distinct : ∀ m1 ∈ Metric.all, ∀ m2 ∈ Metric.all, m1.nameBytes = m2.nameBytes → m1 = m2 := by
  decide

theorem C06_names_inj (m1 m2 : Metric) (h : m1.nameBytes = m2.nameBytes) : m1 = m2 := by
  have h1 : m1 ∈ Metric.all := by cases m1 <;> decide
  have h2 : m2 ∈ Metric.all := by cases m2 <;> decide
  exact C06_names_distinct m1 h1 m2 h2 h

/-- **opening under another metric than the stored one** fails with the distance error, before anything else -/
theorem C06_wrong_metric (c : Cfg) (s : Store) (built : Metric) (dims : Nat) (items roots : List Nat)
    (hg : Store.get s c.metaKey = some (.metadata built.nameBytes dims items roots)) (hne : c.metric ≠ built) :
    Reader.open c s = .error (.unmatchingDistance built.nameBytes c.metric.nameBytes) := by
  unfold Reader.open
  rw [hg]
  have : c.metric.nameBytes ≠ built.nameBytes := fun e => hne (C06_names_inj _ _ e)
  simp [this]

/-! ## non-vacuity -/

def c0 : Cfg := { index := 7, metric := .euclidean, dims := 2 }
def cCos : Cfg := { index := 7, metric := .cosine, dims := 2 }
/-- a built index 7 holding one item -/
def s0 : Store :=
  [(⟨7, 0, 0⟩, .metadata Metric.euclidean.nameBytes 2 [4] [0]), (⟨7, 2, 0⟩, .desc [4]), (⟨7, 3, 4⟩, .leaf [0] [1, 2])]

example : Store.WF s0 := by
  intro kv h
  simp only [s0, List.mem_cons, List.not_mem_nil, or_false] at h
  rcases h with h | h | h <;> subst h <;> decide
example : Store.Sorted s0 := by simp [s0, Store.Sorted, Key.lt]
example : Store.get s0 c0.metaKey = some (.metadata c0.metric.nameBytes 2 [4] [0]) := rfl
example : MetaFits c0 s0 := Or.inr ⟨2, [4], [0], rfl⟩
example : Reader.open c0 s0 = .ok ⟨[0], 2, [4]⟩ ∧ Writer.needBuild c0 s0 = false := ⟨rfl, rfl⟩
example : ∃ s', Writer.addItem c0 s0 5 [1, 2] = .ok s' ∧ Reader.open c0 s' = .error (.needBuild 7) := ⟨_, rfl, rfl⟩
example : (Writer.delItem c0 s0 4).2 = true ∧ (Writer.delItem c0 s0 9).2 = false := ⟨rfl, rfl⟩
example : cCos.metric ≠ Metric.euclidean ∧
    Reader.open cCos s0 = .error (.unmatchingDistance Metric.euclidean.nameBytes Metric.cosine.nameBytes) :=
  ⟨by decide, rfl⟩

end Arroy.C06
