import ArroyProofs.ForestDefs
/-! An id generator that hands out ANY given finite sequence of ids and then counts up:
`IdGen.ofSeq seq next` (`available := seq`, `sel := 0`, `look := true`, `current := next`). Its draws are
`seq` in order, then `next, next+1, …` (`ofSeq_nextN`), and it is a fresh supply (`GenOK`) as soon as `seq` is
duplicate-free, unused, and `next` lies above everything (`genOK_ofSeq`). -/
namespace Arroy

namespace IdGen
/-- the generator that hands out `seq` in order, then `next, next+1, …`. The request counter `used`
    starts at `next - seq.length`, i.e. every id below `next` that is not in `seq` counts as in use, so
    that `DatabaseFull` is reported exactly when the counter would leave the `u32` range. -/
def ofSeq (seq : List Nat) (next : Nat) : IdGen :=
  { available := seq, sel := 0, look := true, current := next, used := next - seq.length }
end IdGen

/-- the `j`-th id (counting from 0) of the supply `seq, next, next+1, …` -/
def supplyAt (seq : List Nat) (next j : Nat) : Nat :=
  seq.getD j (next + (j - seq.length))

theorem supplyAt_lt {seq : List Nat} {next j : Nat} (h : j < seq.length) : supplyAt seq next j = seq[j] := by
  simp [supplyAt, h]

theorem supplyAt_ge {seq : List Nat} {next j : Nat} (h : seq.length ≤ j) :
    supplyAt seq next j = next + (j - seq.length) := by
  simp [supplyAt, List.getD_eq_getElem?_getD, List.getElem?_eq_none h]

/-- the state of `ofSeq seq next` after `j` draws -/
structure OfSeqAt (seq : List Nat) (next j : Nat) (g : IdGen) : Prop where
  avail : g.available = seq
  used : g.used = next - seq.length + j
  seqPhase : j ≤ seq.length → j < 4294967296 → g.look = true ∧ g.sel = j ∧ g.current = next
  ctrPhase : seq.length < j → g.look = false ∧ g.current = (next + (j - seq.length)) % 4294967296

theorem ofSeqAt_zero (seq : List Nat) (next : Nat) : OfSeqAt seq next 0 (IdGen.ofSeq seq next) :=
  ⟨rfl, rfl, fun _ _ => ⟨rfl, rfl, rfl⟩, fun h => absurd h (Nat.not_lt_zero _)⟩

/-- one draw: it succeeds iff the request counter is still a `u32` -/
theorem OfSeqAt.next_ok_iff {seq : List Nat} {next j : Nat} {g : IdGen} (h : OfSeqAt seq next j g) :
    (∃ id g', g.next = .ok (id, g')) ↔ next - seq.length + j < 4294967296 := by
  have hu := h.used
  unfold IdGen.next
  simp only [IdGen.u32Max]
  constructor
  · rintro ⟨id, g', e⟩
    split at e
    · cases e
    · omega
  · intro hlt
    have : ¬ g.used > 4294967295 := by omega
    simp only [this, if_false]
    split
    · split
      · exact ⟨_, _, rfl⟩
      · exact ⟨_, _, rfl⟩
    · exact ⟨_, _, rfl⟩

/-- one draw: the id is the `j`-th of the supply, and the state is the one after `j + 1` draws -/
theorem OfSeqAt.step {seq : List Nat} {next j : Nat} {g g' : IdGen} {id : Nat} (h : OfSeqAt seq next j g)
    (hlen : seq.length ≤ next) (hn : g.next = .ok (id, g')) :
    id = supplyAt seq next j ∧ next - seq.length + j < 4294967296 ∧ OfSeqAt seq next (j + 1) g' := by
  have hlt : next - seq.length + j < 4294967296 := h.next_ok_iff.1 ⟨id, g', hn⟩
  have hj : j < 4294967296 := by omega
  obtain ⟨ha, hu, hs, hc⟩ := h
  unfold IdGen.next at hn
  simp only [IdGen.u32Max] at hn
  have hnf : ¬ g.used > 4294967295 := by omega
  simp only [hnf, if_false] at hn
  rcases Nat.lt_or_ge seq.length j with hjl | hjl
  · -- the counter
    obtain ⟨hlook, hcur⟩ := hc hjl
    simp only [hlook, Bool.false_eq_true, if_false, Except.ok.injEq, Prod.mk.injEq] at hn
    obtain ⟨rfl, rfl⟩ := hn
    have hm : (next + (j - seq.length)) % 4294967296 = next + (j - seq.length) := Nat.mod_eq_of_lt (by omega)
    refine ⟨?_, hlt, ⟨ha, by simp only [hu]; omega, fun h1 => by omega, fun _ => ⟨rfl, ?_⟩⟩⟩
    · rw [supplyAt_ge (by omega), hcur, hm]
    · simp only [hcur, hm]
      congr 1; omega
  · obtain ⟨hlook, hsel, hcur⟩ := hs hjl hj
    simp only [hlook, if_true, hsel, ha] at hn
    rcases Nat.lt_or_ge j seq.length with hjl' | hjl'
    · -- inside the sequence
      rw [List.getElem?_eq_getElem hjl'] at hn
      simp only [Except.ok.injEq, Prod.mk.injEq] at hn
      obtain ⟨rfl, rfl⟩ := hn
      refine ⟨(supplyAt_lt hjl').symm, hlt, ⟨rfl, by simp only [hu]; omega, fun h1 h2 => ⟨rfl, ?_, hcur⟩,
        fun h1 => by omega⟩⟩
      exact Nat.mod_eq_of_lt h2
    · -- the sequence has just run out: `look_into_bitmap.store(false)`, first id of the counter
      rw [List.getElem?_eq_none hjl'] at hn
      simp only [Except.ok.injEq, Prod.mk.injEq] at hn
      obtain ⟨rfl, rfl⟩ := hn
      have hje : j = seq.length := by omega
      refine ⟨?_, hlt, ⟨rfl, by simp only [hu]; omega, fun h1 => by omega, fun _ => ⟨rfl, ?_⟩⟩⟩
      · rw [supplyAt_ge hjl', hcur]; omega
      · simp only [hcur]
        congr 1; omega

/-- `k` draws from the state after `j` draws: they succeed iff the request counter stays a `u32` -/
theorem OfSeqAt.nextN_ok_iff {seq : List Nat} {next : Nat} (hlen : seq.length ≤ next)
    (k : Nat) : ∀ {j : Nat} {g : IdGen}, OfSeqAt seq next j g →
    ((∃ ids g', nextN k g = .ok (ids, g')) ↔ (k = 0 ∨ next - seq.length + j + k ≤ 4294967296)) := by
  induction k with
  | zero => intro j g _; simp [nextN]
  | succ k ih =>
    intro j g h
    constructor
    · rintro ⟨ids, g', e⟩
      simp only [nextN] at e
      split at e
      · cases e
      · rename_i id g1 hn
        obtain ⟨_, hlt, h1⟩ := h.step hlen hn
        split at e
        · cases e
        · rename_i ids2 g2 hk
          rcases (ih h1).1 ⟨ids2, g2, hk⟩ with rfl | h2
          · right; omega
          · right; omega
    · intro hk
      have hlt : next - seq.length + j < 4294967296 := by omega
      obtain ⟨id, g1, hn⟩ := h.next_ok_iff.2 hlt
      obtain ⟨_, _, h1⟩ := h.step hlen hn
      obtain ⟨ids2, g2, hk2⟩ := (ih h1).2 (by omega)
      exact ⟨id :: ids2, g2, by simp only [nextN, hn, hk2]⟩

/-- `k` draws from the state after `j` draws return the ids number `j, …, j + k - 1` of the supply -/
theorem OfSeqAt.nextN_eq {seq : List Nat} {next : Nat} (hlen : seq.length ≤ next)
    (k : Nat) : ∀ {j : Nat} {g g' : IdGen} {ids : List Nat}, OfSeqAt seq next j g → nextN k g = .ok (ids, g') →
    ids = (List.range' j k).map (supplyAt seq next) ∧ (k = 0 ∨ next - seq.length + j + k ≤ 4294967296) ∧
      OfSeqAt seq next (j + k) g' := by
  induction k with
  | zero =>
    intro j g g' ids h e
    simp only [nextN, Except.ok.injEq, Prod.mk.injEq] at e
    obtain ⟨rfl, rfl⟩ := e
    exact ⟨rfl, Or.inl rfl, h⟩
  | succ k ih =>
    intro j g g' ids h e
    simp only [nextN] at e
    split at e
    · cases e
    · rename_i id g1 hn
      obtain ⟨hid, hlt, h1⟩ := h.step hlen hn
      split at e
      · cases e
      · rename_i ids2 g2 hk
        simp only [Except.ok.injEq, Prod.mk.injEq] at e
        obtain ⟨rfl, rfl⟩ := e
        obtain ⟨e1, e2, e3⟩ := ih h1 hk
        refine ⟨?_, Or.inr ?_, ?_⟩
        · rw [List.range'_succ, List.map_cons, hid, e1]
        · rcases e2 with rfl | e2 <;> omega
        · have hjk : j + (k + 1) = j + 1 + k := by omega
          rw [hjk]; exact e3

/-! ## the supply `seq, next, next+1, …` -/

theorem supplyAt_inj {seq : List Nat} {next : Nat} (hnd : seq.Nodup) (hlt : ∀ x ∈ seq, x < next) {a b : Nat}
    (h : supplyAt seq next a = supplyAt seq next b) : a = b := by
  have hp := List.pairwise_iff_getElem.1 (List.nodup_iff_pairwise_ne.1 hnd)
  rcases Nat.lt_or_ge a seq.length with ha | ha <;> rcases Nat.lt_or_ge b seq.length with hb | hb
  · rw [supplyAt_lt ha, supplyAt_lt hb] at h
    rcases Nat.lt_trichotomy a b with hab | hab | hab
    · exact absurd h (hp a b ha hb hab)
    · exact hab
    · exact absurd h.symm (hp b a hb ha hab)
  · rw [supplyAt_lt ha, supplyAt_ge hb] at h
    have := hlt _ (List.getElem_mem ha); omega
  · rw [supplyAt_ge ha, supplyAt_lt hb] at h
    have := hlt _ (List.getElem_mem hb); omega
  · rw [supplyAt_ge ha, supplyAt_ge hb] at h
    omega

/-- the first `k` ids of the supply, as a list: `seq`, then `next, next+1, …`, cut after `k` -/
theorem supply_take (seq : List Nat) (next k : Nat) :
    (List.range' 0 k).map (supplyAt seq next) = (seq ++ List.range' next (k - seq.length)).take k := by
  apply List.ext_getElem
  · simp only [List.length_map, List.length_range', List.length_take, List.length_append]; omega
  · intro i h1 h2
    simp only [List.length_map, List.length_range'] at h1
    rw [List.getElem_map, List.getElem_range', List.getElem_take, List.getElem_append]
    split
    · rename_i hi
      rw [supplyAt_lt (by omega)]; simp
    · rename_i hi
      rw [supplyAt_ge (by omega), List.getElem_range']; simp

/-- **the draws of `ofSeq seq next`**: `k` draws succeed iff the request counter stays a `u32`
    (`next - seq.length + k ≤ 2^32`: the ids below `next` outside `seq` count as in use) … -/
theorem ofSeq_nextN_ok_iff {seq : List Nat} {next : Nat} (hlen : seq.length ≤ next) (k : Nat) :
    (∃ ids g', nextN k (IdGen.ofSeq seq next) = .ok (ids, g')) ↔
      (k = 0 ∨ next - seq.length + k ≤ 4294967296) := by
  simpa using OfSeqAt.nextN_ok_iff hlen k (ofSeqAt_zero seq next)

/-- … and they return exactly `seq` in order, then `next, next+1, …` -/
theorem ofSeq_nextN {seq : List Nat} {next : Nat} (hlen : seq.length ≤ next) {k : Nat} {ids : List Nat} {g' : IdGen}
    (h : nextN k (IdGen.ofSeq seq next) = .ok (ids, g')) :
    ids = (seq ++ List.range' next (k - seq.length)).take k := by
  rw [← supply_take]
  exact (OfSeqAt.nextN_eq hlen k (ofSeqAt_zero seq next) h).1

/-- one draw of `ofSeq (x :: seq) next` returns `x` -/
theorem ofSeq_next_cons (x : Nat) (seq : List Nat) (next : Nat) (h : next - (seq.length + 1) ≤ 4294967295) :
    ∃ g', (IdGen.ofSeq (x :: seq) next).next = .ok (x, g') := by
  have hnf : ¬ next - (seq.length + 1) > 4294967295 := by omega
  simp only [IdGen.next, IdGen.ofSeq, IdGen.u32Max, List.length_cons, hnf, if_false, if_true,
    List.getElem?_cons_zero]
  exact ⟨_, rfl⟩

/-- **`ofSeq seq next` is a fresh supply**: if `seq` is duplicate-free, disjoint from the ids in use and made of
    `u32`s, and `next` lies above every id in use and every id of `seq`, every id it hands out is new, distinct
    from the others, and a `u32`. -/
theorem genOK_ofSeq {used seq : List Nat} {next : Nat} (hnd : seq.Nodup) (hdisj : ∀ x ∈ seq, x ∉ used)
    (hu32 : ∀ x ∈ seq, x < 4294967296) (hseq : ∀ x ∈ seq, x < next) (hused : ∀ x ∈ used, x < next) :
    GenOK used (IdGen.ofSeq seq next) := by
  have hlen : seq.length ≤ next := by
    have := List.Nodup.length_le_of_subset hnd (l₂ := List.range next)
      (fun x hx => List.mem_range.2 (hseq x hx))
    simpa using this
  have key : ∀ (k : Nat) (ids : List Nat) (g' : IdGen), nextN k (IdGen.ofSeq seq next) = .ok (ids, g') →
      ids.Nodup ∧ ∀ i ∈ ids, i ∉ used ∧ i < 4294967296 := by
    intro k ids g' e
    obtain ⟨rfl, hk, _⟩ := OfSeqAt.nextN_eq hlen k (ofSeqAt_zero seq next) e
    refine ⟨?_, ?_⟩
    · rw [List.nodup_iff_pairwise_ne]
      exact List.Pairwise.map _ (fun a b hab he => hab (supplyAt_inj hnd hseq he))
        (List.nodup_iff_pairwise_ne.1 (List.nodup_range' 1))
    · intro i hi
      obtain ⟨m, hm, rfl⟩ := List.mem_map.1 hi
      rw [List.mem_range'_1] at hm
      rcases Nat.lt_or_ge m seq.length with hml | hml
      · rw [supplyAt_lt hml]
        exact ⟨hdisj _ (List.getElem_mem hml), hu32 _ (List.getElem_mem hml)⟩
      · rw [supplyAt_ge hml]
        refine ⟨fun hin => ?_, ?_⟩
        · have := hused _ hin; omega
        · rcases hk with rfl | hk <;> omega
  exact ⟨fun k ids g' e => ⟨(key k ids g' e).1, fun i hi => ((key k ids g' e).2 i hi).1⟩,
    fun k ids g' e i hi => ((key k ids g' e).2 i hi).2⟩

/-- one above the largest element -/
def supNext (l : List Nat) : Nat := l.foldr (fun x m => max (x + 1) m) 0

theorem lt_supNext {l : List Nat} {x : Nat} (h : x ∈ l) : x < supNext l := by
  induction l with
  | nil => cases h
  | cons y ys ih =>
    simp only [supNext, List.foldr_cons]
    rcases List.mem_cons.1 h with rfl | h
    · omega
    · have := ih h
      simp only [supNext] at this
      omega

end Arroy
