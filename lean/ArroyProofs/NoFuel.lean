import ArroyProofs.MakeT
import ArroyProofs.DeleteForest
import ArroyProofs.TransparentBuild
/-! Termination of the bounded loops of the model: "never runs out of fuel where the fuel is the
model's own".

`NoFuelE x`    : the `Except Err` computation `x` is not `.error (.fuel _)`.
`NoFuelAt m st`: the run of `m` from `st` is not `.error (.fuel _)`.
`NoFuelErr m`  : the same from every state.

The predicates are closed under every construct of `ArroyModel/Build.lean`; the tree-level routines
(`insertT`, `sideSplit`, `chooseSplit`, `IdGen.next`) never report `.fuel`, `makeT` does not when its
fuel exceeds the number of normals left in the oracle stream (every split level consumes one), the
batch loop `insertItemsInCurrentTrees` does not when its fuel exceeds the number of items to insert
(every pass consumes `k ≥ 1` of them), and `reify` / `deleteTree` with fuel `s.length + 1` succeed on
a store that holds the tree with pairwise distinct node ids. -/
namespace Arroy
open BuildM Generated

/-- the `Except Err` computation does not report exhausted fuel -/
def NoFuelE {α : Type} (x : Except Err α) : Prop := ∀ w, x ≠ .error (.fuel w)

/-- the run of `m` from `st` does not report exhausted fuel -/
def NoFuelAt {α : Type} (m : BuildM α) (st : BState) : Prop := ∀ w, m st ≠ .error (.fuel w)

/-- `m` never reports exhausted fuel -/
def NoFuelErr {α : Type} (m : BuildM α) : Prop := ∀ st w, m st ≠ .error (.fuel w)

theorem NoFuelErr.at {α : Type} {m : BuildM α} (h : NoFuelErr m) (st : BState) : NoFuelAt m st := h st

theorem NoFuelE.ok {α : Type} (a : α) : NoFuelE (.ok a : Except Err α) := by intro w h; cases h

theorem NoFuelE.error {α : Type} {e : Err} (he : ∀ w, e ≠ .fuel w) : NoFuelE (.error e : Except Err α) := by
  intro w h; injection h with h; exact he w h

/-! ## closure under the constructs of `BuildM` -/

namespace NoFuelAt
variable {α β : Type}

theorem bind' {m : BuildM α} {f : α → BuildM β} {st : BState} (hm : NoFuelAt m st)
    (hf : ∀ a st1, m st = .ok (a, st1) → NoFuelAt (f a) st1) : NoFuelAt (BuildM.bind' m f) st := by
  intro w h
  cases hms : m st with
  | error e =>
    rw [Transp.bind'_err hms] at h
    injection h with h
    subst h
    exact hm w hms
  | ok r =>
    obtain ⟨a, st1⟩ := r
    rw [Transp.bind'_ok hms] at h
    exact hf a st1 hms w h

theorem bind {m : BuildM α} {f : α → BuildM β} {st : BState} (hm : NoFuelAt m st)
    (hf : ∀ a st1, m st = .ok (a, st1) → NoFuelAt (f a) st1) : NoFuelAt (m >>= f) st := bind' hm hf

/-- `let s ← getStore; f s` -/
theorem getStore_bind {f : Store → BuildM β} {st : BState} (h : NoFuelAt (f st.store) st) :
    NoFuelAt (BuildM.getStore >>= f) st := h

end NoFuelAt

namespace NoFuelErr
variable {α β : Type}

theorem of_ok {m : BuildM α} (h : ∀ st, ∃ r, m st = .ok r) : NoFuelErr m := by
  intro st w e
  obtain ⟨r, hr⟩ := h st
  rw [hr] at e; cases e

theorem pure' (a : α) : NoFuelErr (BuildM.pure' a) := of_ok fun _ => ⟨_, rfl⟩
theorem pure (a : α) : NoFuelErr (pure a : BuildM α) := pure' a

/-- failing with anything but `.fuel` -/
theorem fail {e : Err} (he : ∀ w, e ≠ .fuel w) : NoFuelErr (BuildM.fail e : BuildM α) := by
  intro st w h
  simp only [BuildM.fail] at h
  injection h with h
  exact he w h

theorem bind' {m : BuildM α} {f : α → BuildM β} (hm : NoFuelErr m) (hf : ∀ a, NoFuelErr (f a)) :
    NoFuelErr (BuildM.bind' m f) :=
  fun st => NoFuelAt.bind' (hm st) (fun a st1 _ => hf a st1)

theorem bind {m : BuildM α} {f : α → BuildM β} (hm : NoFuelErr m) (hf : ∀ a, NoFuelErr (f a)) :
    NoFuelErr (m >>= f) := bind' hm hf

theorem getStore : NoFuelErr BuildM.getStore := of_ok fun _ => ⟨_, rfl⟩
theorem setStore (s : Store) : NoFuelErr (BuildM.setStore s) := of_ok fun _ => ⟨_, rfl⟩
theorem modifyStore (f : Store → Store) : NoFuelErr (BuildM.modifyStore f) := of_ok fun _ => ⟨_, rfl⟩

/-- any state update that cannot fail (the state-peeking lambdas of `Build.lean`) -/
theorem update (g : BState → α) (u : BState → BState) : NoFuelErr (fun s => .ok (g s, u s) : BuildM α) :=
  of_ok fun _ => ⟨_, rfl⟩

theorem peek : NoFuelErr (fun s => .ok (s, s) : BuildM BState) := of_ok fun _ => ⟨_, rfl⟩
theorem setRands (r : List Bool) : NoFuelErr (fun s => .ok ((), { s with rands := r }) : BuildM Unit) :=
  of_ok fun _ => ⟨_, rfl⟩
theorem setNormalsRands (n : List (List Nat)) (r : List Bool) :
    NoFuelErr (fun s => .ok ((), { s with normals := n, rands := r }) : BuildM Unit) := of_ok fun _ => ⟨_, rfl⟩

/-- lifting a computation that never returns `.fuel` -/
theorem liftExcept {x : Except Err α} (hx : NoFuelE x) : NoFuelErr (BuildM.liftExcept x) := by
  intro st w h
  cases x with
  | ok a => cases h
  | error e =>
    simp only [BuildM.liftExcept] at h
    injection h with h
    subst h
    exact hx w rfl

/-- `poll` fails with `cancelled` only -/
theorem poll : NoFuelErr BuildM.poll := by
  intro st w h
  unfold BuildM.poll at h
  split at h
  · split at h <;> cases h
  · cases h

theorem pollN (k : Nat) : NoFuelErr (BuildM.pollN k) := by
  induction k with
  | zero => exact pure' ()
  | succ k ih => exact bind' poll (fun _ => ih)

/-- `nextBatch` fails with `oracle` only -/
theorem nextBatch : NoFuelErr BuildM.nextBatch := by
  intro st w h
  unfold BuildM.nextBatch at h
  split at h <;> cases h

theorem orDefault (m : BuildM α) (d : α) : NoFuelErr (BuildM.orDefault m d) := by
  intro st w h
  unfold BuildM.orDefault at h
  split at h <;> cases h

theorem forEach (l : List α) (f : α → BuildM Unit) (hf : ∀ a, NoFuelErr (f a)) :
    NoFuelErr (BuildM.forEach l f) := by
  induction l with
  | nil => exact pure' ()
  | cons x xs ih => exact bind' (hf x) (fun _ => ih)

theorem ite {p : Prop} [Decidable p] {a b : BuildM α} (ha : NoFuelErr a) (hb : NoFuelErr b) :
    NoFuelErr (if p then a else b) := by
  split <;> assumption

theorem usedTreeNode (c : Cfg) : NoFuelErr (Build.usedTreeNode c) := by
  intro st w h
  unfold Build.usedTreeNode at h
  dsimp only at h
  split at h
  · split at h <;> cases h
  · cases h

/-- `reifyRoot` fails with `panic` only (its fuel `s.length + 1` running out is reported as a panic:
    see `reifyRoot_ok_of_holds` for when it cannot) -/
theorem reifyRoot (c : Cfg) (s : Store) (root : Nat) : NoFuelErr (Build.reifyRoot c s root) := by
  unfold Build.reifyRoot
  split
  · exact pure _
  · exact fail (by intro w h; cases h)

end NoFuelErr

macro "nofuel_step" : tactic => `(tactic| with_reducible first
  | exact NoFuelErr.pure _
  | exact NoFuelErr.pure' _
  | exact NoFuelErr.fail (by intro w h; cases h)
  | exact NoFuelErr.poll
  | exact NoFuelErr.pollN _
  | exact NoFuelErr.getStore
  | exact NoFuelErr.setStore _
  | exact NoFuelErr.modifyStore _
  | exact NoFuelErr.nextBatch
  | exact NoFuelErr.peek
  | exact NoFuelErr.setRands _
  | exact NoFuelErr.setNormalsRands _ _
  | exact NoFuelErr.reifyRoot _ _ _
  | exact NoFuelErr.usedTreeNode _
  | assumption
  | refine NoFuelErr.forEach _ _ (fun _ => ?_)
  | refine NoFuelErr.bind ?_ (fun _ => ?_)
  | refine NoFuelErr.bind' ?_ (fun _ => ?_)
  | split
  | dsimp only)

macro "nofuel" : tactic => `(tactic| repeat nofuel_step)

/-! ## the tree-level routines never report `.fuel` -/

/-- `ConcurrentNodeIds::next` fails with `dbFull` only -/
theorem IdGen.next_noFuel (g : IdGen) : NoFuelE g.next := by
  intro w h
  unfold IdGen.next at h
  dsimp only at h
  split at h
  · cases h
  · split at h
    · split at h <;> cases h
    · cases h

/-- the random split wrapped as in `insertT` / `makeT`: fails with `oracle` only -/
theorem randomSplit_noFuel (xs : List Nat) (rs : List Bool) (what : String) :
    NoFuelE (match randomSplit xs rs with
      | some x => Except.ok x
      | none => Except.error (Err.oracle what)) := by
  intro w h
  split at h <;> cases h

/-- `sideSplit` fails with `panic` (leaf missing) or `oracle` (random bits exhausted) only -/
theorem sideSplit_noFuel (cx : TreeCtx) (n : List Nat) (xs : List Nat) (rs : List Bool) :
    NoFuelE (sideSplit cx n xs rs) := by
  induction xs generalizing rs with
  | nil => intro w h; cases h
  | cons x xs ih =>
    intro w h
    unfold sideSplit at h
    split at h
    · cases h
    · split at h
      · split at h <;> cases h
      · rename_i e he
        injection h with h
        subst h
        exact ih _ w he
    · split at h
      · cases h
      · split at h
        · split at h <;> cases h
        · rename_i e he
          injection h with h
          subst h
          exact ih _ w he

/-- `chooseSplit` fails with `oracle` (no normal left) or like `sideSplit` only -/
theorem chooseSplit_noFuel (cx : TreeCtx) (items : List Nat) (attempts : Nat) (normals : List (List Nat))
    (rs : List Bool) (polls : Nat) : NoFuelE (chooseSplit cx items attempts normals rs polls) := by
  induction attempts generalizing normals rs polls with
  | zero =>
    intro w h
    unfold chooseSplit at h
    split at h
    · cases h
    · split at h
      · rename_i e he
        injection h with h
        subst h
        exact sideSplit_noFuel _ _ _ _ w he
      · split at h <;> cases h
  | succ a ih =>
    intro w h
    unfold chooseSplit at h
    split at h
    · cases h
    · split at h
      · rename_i e he
        injection h with h
        subst h
        exact sideSplit_noFuel _ _ _ _ w he
      · split at h
        · cases h
        · exact ih _ _ _ w h

/-- every attempt consumes one normal of the oracle stream -/
theorem chooseSplit_normals {cx : TreeCtx} {items : List Nat} {attempts : Nat} {normals : List (List Nat)}
    {rs : List Bool} {polls : Nat} {n l r : List Nat} {normals' : List (List Nat)} {rs' : List Bool} {k : Nat}
    (h : chooseSplit cx items attempts normals rs polls = .ok (n, l, r, normals', rs', k)) :
    normals'.length + (k - polls) = normals.length ∧ polls + 1 ≤ k := by
  induction attempts generalizing normals rs polls with
  | zero =>
    unfold chooseSplit at h
    split at h
    · cases h
    · split at h
      · cases h
      · split at h <;> (cases h; simp only [List.length_cons]; omega)
  | succ a ih =>
    unfold chooseSplit at h
    split at h
    · cases h
    · split at h
      · cases h
      · split at h
        · cases h; simp only [List.length_cons]; omega
        · obtain ⟨h1, h2⟩ := ih h
          simp only [List.length_cons]; omega

/-- `insert_items_in_file` has no fuel: it recurses on the tree -/
theorem insertT_noFuel (cx : TreeCtx) (t : T) (ins : List Nat) (g : IdGen) (rs : List Bool) :
    NoFuelE (insertT cx t ins g rs) := by
  induction t generalizing ins g rs with
  | leaf i =>
    intro w h
    unfold insertT at h
    dsimp only at h
    split at h
    · split at h
      · rename_i e he
        injection h with h
        subst h
        exact IdGen.next_noFuel g w he
      · cases h
    · cases h
  | bucket id s =>
    intro w h
    unfold insertT at h
    dsimp only at h
    split at h <;> cases h
  | node id n l r ihl ihr =>
    intro w h
    unfold insertT at h
    dsimp only at h
    split at h
    · rename_i e he
      injection h with h
      subst h
      split at he
      · exact randomSplit_noFuel _ _ _ w he
      · exact sideSplit_noFuel _ _ _ _ w he
    · split at h
      · rename_i e he
        injection h with h
        subst h
        exact ihl _ _ _ w he
      · split at h
        · rename_i e he
          injection h with h
          subst h
          exact ihr _ _ _ w he
        · cases h

/-! ## `makeT`: every split level consumes a normal -/

/-- the stronger inversion of a split step of `makeT`, keeping track of the oracle stream of normals -/
theorem makeT_succ_ok_normals {cx : TreeCtx} {fuel : Nat} {items : List Nat} {g : IdGen} {normals : List (List Nat)}
    {rs : List Bool} {res : MakeRes} (h : makeT cx (fuel + 1) items g normals rs = .ok res) :
    (∃ x, items = [x] ∧ res = ⟨.leaf x, [], g, normals, rs, 1, 0⟩) ∨
    (∃ id g', res = ⟨.bucket id items, [(id, .desc items)], g', normals, rs, 1, 1⟩) ∨
    (∃ n l r normals1 rs2 k a b id g', normals1.length + 1 ≤ normals.length ∧
        makeT cx fuel l g normals1 rs2 = .ok a ∧ makeT cx fuel r a.gen a.normals a.rands = .ok b ∧
        res = ⟨.node id n a.tree b.tree, a.puts ++ b.puts ++ [(id, .split a.tree.ref b.tree.ref n)],
               g', b.normals, b.rands, 1 + k + a.polls + b.polls, a.nNew + b.nNew + 1⟩) := by
  simp only [makeT] at h
  split at h
  · cases h; exact Or.inl ⟨_, rfl, rfl⟩
  · right
    split at h
    · left
      split at h
      · cases h
      · cases h; exact ⟨_, _, rfl⟩
    · right
      split at h
      · cases h
      · rename_i n l r normals1 rs1 k hcs
        have hn := (chooseSplit_normals hcs).1
        have hk := (chooseSplit_normals hcs).2
        split at h
        · cases h
        · rename_i n' l' r' rs2 hdec
          split at h
          · cases h
          · rename_i a ha
            split at h
            · cases h
            · rename_i b hb
              split at h
              · cases h
              · rename_i id g' hnx
                cases h
                exact ⟨n', l', r', normals1, rs2, k, a, b, id, g', by omega, ha, hb, rfl⟩

/-- the normals left after `makeT` plus the split nodes made are at most the normals it started with -/
theorem makeT_normals_splits (cx : TreeCtx) (fuel : Nat) (items : List Nat) (g : IdGen) (normals : List (List Nat))
    (rs : List Bool) (res : MakeRes) (h : makeT cx fuel items g normals rs = .ok res) :
    res.normals.length + res.tree.splits ≤ normals.length := by
  induction fuel generalizing items g normals rs res with
  | zero => exact (makeT_zero h).elim
  | succ fuel ih =>
    rcases makeT_succ_ok_normals h with ⟨x, _, rfl⟩ | ⟨id, g', rfl⟩ |
      ⟨n, l, r, normals1, rs2, k, a, b, id, g', hn, ha, hb, rfl⟩
    · simp [T.splits]
    · simp [T.splits]
    · have A := ih _ _ _ _ _ ha
      have B := ih _ _ _ _ _ hb
      simp only [T.splits]
      omega

/-- the depth of a tree is at most its number of split nodes plus one -/
theorem T.depth_le_splits (t : T) : t.depth ≤ t.splits + 1 := by
  induction t with
  | leaf i => simp [T.depth, T.splits]
  | bucket id s => simp [T.depth, T.splits]
  | node id n l r ihl ihr => simp only [T.depth, T.splits]; omega

/-- `makeT` reports `.fuel` only if its fuel does not exceed the number of normals left -/
theorem makeT_noFuel (cx : TreeCtx) (fuel : Nat) (items : List Nat) (g : IdGen) (normals : List (List Nat))
    (rs : List Bool) (hf : normals.length < fuel) : NoFuelE (makeT cx fuel items g normals rs) := by
  induction fuel generalizing items g normals rs with
  | zero => omega
  | succ fuel ih =>
    intro w h
    simp only [makeT] at h
    split at h
    · cases h
    · split at h
      · split at h
        · rename_i e he
          injection h with h
          subst h
          exact IdGen.next_noFuel g w he
        · cases h
      · split at h
        · rename_i e he
          injection h with h
          subst h
          exact chooseSplit_noFuel _ _ _ _ _ _ w he
        · rename_i n l r normals1 rs1 k hcs
          have hn := (chooseSplit_normals hcs).1
          have hk := (chooseSplit_normals hcs).2
          split at h
          · rename_i e hdec
            injection h with h
            subst h
            split at hdec
            · split at hdec <;> cases hdec
            · cases hdec
          · rename_i n' l' r' rs2 hdec
            split at h
            · rename_i e he
              injection h with h
              subst h
              exact ih _ _ _ _ (by omega) w he
            · rename_i a ha
              have hA := makeT_normals_splits _ _ _ _ _ _ _ ha
              split at h
              · rename_i e he
                injection h with h
                subst h
                exact ih _ _ _ _ (by omega) w he
              · rename_i b hb
                split at h
                · rename_i e he
                  injection h with h
                  subst h
                  exact IdGen.next_noFuel _ w he
                · cases h

/-! ## the batch loop -/

theorem writeBack_noFuel (c : Cfg) (removed : List Nat) (puts : List (Nat × Val)) (remap : Nat → Nat) :
    NoFuelErr (Build.writeBack c removed puts remap) := by
  unfold Build.writeBack; nofuel

theorem insertRoots_noFuel (c : Cfg) (o : BuildOpts) (snap : Store) (batch roots : List Nat) (g : IdGen) :
    NoFuelErr (Build.insertRoots c o snap batch roots g) := by
  induction roots generalizing g with
  | nil => unfold Build.insertRoots; nofuel
  | cons r rest ih =>
    unfold Build.insertRoots
    repeat (first | exact ih _ | exact NoFuelErr.liftExcept (insertT_noFuel _ _ _ _ _) | nofuel_step)

/-- every pass of `insert_items_in_current_trees` consumes `k ≥ 1` items: a fuel larger than the number
    of items to insert is never exhausted -/
theorem insertItemsInCurrentTrees_noFuel (c : Cfg) (o : BuildOpts) (roots : List Nat) (fuel : Nat)
    (toInsert : List Nat) (g : IdGen) (hf : toInsert.length < fuel) :
    NoFuelErr (Build.insertItemsInCurrentTrees c o roots fuel toInsert g) := by
  induction fuel generalizing toInsert g with
  | zero => omega
  | succ fuel ih =>
    unfold Build.insertItemsInCurrentTrees
    split
    · exact NoFuelErr.pure _
    · refine NoFuelErr.bind NoFuelErr.poll (fun _ => ?_)
      refine NoFuelErr.bind NoFuelErr.getStore (fun snapshot => ?_)
      refine NoFuelErr.bind NoFuelErr.nextBatch (fun k => ?_)
      split
      · exact NoFuelErr.fail (by intro w h; cases h)
      · rename_i hk
        refine NoFuelErr.bind (insertRoots_noFuel _ _ _ _ _ _) (fun x => ?_)
        split
        refine NoFuelErr.bind (NoFuelErr.forEach _ _ (fun _ => writeBack_noFuel _ _ _ _)) (fun _ => ?_)
        refine NoFuelErr.bind (ih _ _ (by simp only [List.length_drop]; omega)) (fun y => ?_)
        split
        exact NoFuelErr.pure _

/-! ## `reify` and `deleteTree` with the model's fuel `s.length + 1` -/

/-- a held tree with distinct node ids is no deeper than the store is long -/
theorem depth_le_store_length (c : Cfg) (s : Store) (t : T) (h : Holds c s t) (hnd : t.ids.Nodup) :
    t.depth ≤ s.length + 1 := by
  have h1 := T.depth_le_ids t
  have h2 := length_le_of_distinct_keys c t.ids hnd s (by
    intro i hi
    rw [← cells_ids] at hi
    obtain ⟨cell, hc, rfl⟩ := List.mem_map.1 hi
    rw [h cell hc]; rfl)
  omega

/-- `reifyRoot` succeeds (no `.fuel`, no `.panic`, nothing else) on a store holding the tree -/
theorem reifyRoot_ok_of_holds (c : Cfg) (s : Store) (t : T) (root : Nat) (h : Holds c s t) (hnd : t.ids.Nodup)
    (hr : t.ref = NodeId.mkTree root) (st : BState) : Build.reifyRoot c s root st = .ok (t, st) := by
  apply reifyRoot_of_reify
  rw [← hr]
  exact reify_of_holds_nodup c s t h hnd

theorem deleteTree_key (c : Cfg) (id : Nat) :
    (⟨c.index, (NodeId.mkTree id).mode, (NodeId.mkTree id).item⟩ : Key) = c.treeKey id := rfl

/-- `delete_tree` on a held tree with distinct node ids and enough fuel for its depth: it succeeds, erases
    exactly the node ids of the tree, and leaves every other key alone -/
theorem deleteTree_ok_of_holds (c : Cfg) (t : T) : ∀ (fuel : Nat) (s : Store), Holds c s t → t.ids.Nodup →
    t.depth ≤ fuel →
    ∃ s', Build.deleteTree c fuel t.ref s = .ok s' ∧
      (∀ i ∈ t.ids, Store.get s' (c.treeKey i) = none) ∧
      (∀ k, (∀ i ∈ t.ids, k ≠ c.treeKey i) → Store.get s' k = Store.get s k) := by
  induction t with
  | leaf i =>
    intro fuel s _ _ hd
    cases fuel with
    | zero => simp [T.depth] at hd
    | succ f =>
      refine ⟨s, ?_, by simp [T.ids], fun _ _ => rfl⟩
      simp [Build.deleteTree, T.ref]
  | bucket id its =>
    intro fuel s hh _ hd
    cases fuel with
    | zero => simp [T.depth] at hd
    | succ f =>
      have hb : Store.get s (c.treeKey id) = some (.desc its) := hh.bucket
      refine ⟨Store.erase s (c.treeKey id), ?_, ?_, ?_⟩
      · show Build.deleteTree c (f + 1) (NodeId.mkTree id) s = _
        unfold Build.deleteTree
        rw [deleteTree_key, hb]
        simp
      · intro i hi
        simp only [T.ids, List.mem_singleton] at hi
        subst hi
        exact Store.get_erase_same _ _
      · intro k hk
        exact Store.get_erase_other _ _ _ (hk id (by simp [T.ids]))
  | node id n l r ihl ihr =>
    intro fuel s hh hnd hd
    cases fuel with
    | zero => simp [T.depth] at hd
    | succ f =>
      simp only [T.depth] at hd
      simp only [T.ids, List.nodup_cons, List.mem_append, not_or, List.nodup_append] at hnd
      obtain ⟨⟨hidl, hidr⟩, hndl, hndr, hdisj⟩ := hnd
      have hroot : Store.get s (c.treeKey id) = some (.split l.ref r.ref n) := hh.root
      obtain ⟨s1, e1, g1, f1⟩ := ihl f s hh.left hndl (by omega)
      have hr1 : Holds c s1 r := hh.right.frame (by
        intro i hi
        apply f1
        intro j hj e
        exact hdisj j hj i hi (Cfg.treeKey_inj.1 e).symm)
      obtain ⟨s2, e2, g2, f2⟩ := ihr f s1 hr1 hndr (by omega)
      refine ⟨Store.erase s2 (c.treeKey id), ?_, ?_, ?_⟩
      · show Build.deleteTree c (f + 1) (NodeId.mkTree id) s = _
        unfold Build.deleteTree
        rw [deleteTree_key, hroot]
        simp [e1, e2]
      · intro i hi
        simp only [T.ids, List.mem_cons, List.mem_append] at hi
        by_cases hid : i = id
        · subst hid; exact Store.get_erase_same _ _
        · rw [Store.get_erase_other _ _ _ (fun e => hid (Cfg.treeKey_inj.1 e))]
          rcases hi with hi | hi | hi
          · exact absurd hi hid
          · rw [f2 _ (by
              intro j hj e
              exact hdisj i hi j hj (Cfg.treeKey_inj.1 e))]
            exact g1 i hi
          · exact g2 i hi
      · intro k hk
        have hk0 : k ≠ c.treeKey id := hk id (by simp [T.ids])
        rw [Store.get_erase_other _ _ _ hk0, f2 k (fun i hi => hk i (by simp [T.ids, hi])),
          f1 k (fun i hi => hk i (by simp [T.ids, hi]))]

/-- `delete_tree` with the fuel `delete_extra_trees` passes succeeds on a held tree with distinct ids -/
theorem deleteTree_ok_of_holds_nodup (c : Cfg) (s : Store) (t : T) (h : Holds c s t) (hnd : t.ids.Nodup) :
    ∃ s', Build.deleteTree c (s.length + 1) t.ref s = .ok s' ∧
      (∀ i ∈ t.ids, Store.get s' (c.treeKey i) = none) ∧
      (∀ k, (∀ i ∈ t.ids, k ≠ c.treeKey i) → Store.get s' k = Store.get s k) :=
  deleteTree_ok_of_holds c t _ s h hnd (depth_le_store_length c s t h hnd)

/-! ## the re-split loop: only its own budget can run out -/

/-- every `.fuel` error of `m` carries a label satisfying `P` -/
def FuelOnly {α : Type} (P : String → Prop) (m : BuildM α) : Prop := ∀ st w, m st = .error (.fuel w) → P w

theorem NoFuelErr.fuelOnly {α : Type} {m : BuildM α} (h : NoFuelErr m) (P : String → Prop) : FuelOnly P m :=
  fun st w e => (h st w e).elim

theorem FuelOnly.noFuel {α : Type} {m : BuildM α} (h : FuelOnly (fun _ => False) m) : NoFuelErr m :=
  fun st w e => h st w e

theorem FuelOnly.bind {α β : Type} {P : String → Prop} {m : BuildM α} {f : α → BuildM β} (hm : FuelOnly P m)
    (hf : ∀ a, FuelOnly P (f a)) : FuelOnly P (m >>= f) := by
  intro st w h
  cases hms : m st with
  | error e =>
    have h' : BuildM.bind' m f st = .error (.fuel w) := h
    rw [Transp.bind'_err hms] at h'
    injection h' with h'
    subst h'
    exact hm st w hms
  | ok r =>
    obtain ⟨a, st1⟩ := r
    have h' : BuildM.bind' m f st = .error (.fuel w) := h
    rw [Transp.bind'_ok hms] at h'
    exact hf a st1 w h'

theorem FuelOnly.fail_fuel {α : Type} {P : String → Prop} {w : String} (h : P w) :
    FuelOnly P (BuildM.fail (.fuel w) : BuildM α) := by
  intro st w' e
  simp only [BuildM.fail] at e
  injection e with e
  injection e with e
  subst e
  exact h

/-- inside `incremental_index_large_descendants` every inner loop runs on the model's own fuel and never
    exhausts it: a `.fuel` error can only be the budget `loopFuel` of the (probabilistically terminating)
    outer loop -/
theorem incrementalIndexLargeDescendants_fuelOnly (c : Cfg) (o : BuildOpts) (fuel : Nat) (large : List Nat)
    (g : IdGen) :
    FuelOnly (fun w => w = "incremental_index_large_descendants")
      (Build.incrementalIndexLargeDescendants c o fuel large g) := by
  induction fuel generalizing large g with
  | zero =>
    unfold Build.incrementalIndexLargeDescendants
    split
    · exact (NoFuelErr.pure _).fuelOnly _
    · exact FuelOnly.fail_fuel rfl
  | succ fuel ih =>
    unfold Build.incrementalIndexLargeDescendants
    split
    · exact (NoFuelErr.pure _).fuelOnly _
    · refine FuelOnly.bind (NoFuelErr.poll.fuelOnly _) (fun _ => ?_)
      refine FuelOnly.bind (NoFuelErr.getStore.fuelOnly _) (fun s => ?_)
      split
      · refine FuelOnly.bind (NoFuelErr.nextBatch.fuelOnly _) (fun k => ?_)
        split
        · exact (NoFuelErr.fail (by intro w h; cases h)).fuelOnly _
        · dsimp only
          refine FuelOnly.bind (NoFuelErr.peek.fuelOnly _) (fun st0 => ?_)
          refine FuelOnly.bind ((NoFuelErr.liftExcept (makeT_noFuel _ _ _ _ _ _ (by omega))).fuelOnly _) (fun r => ?_)
          refine FuelOnly.bind ((NoFuelErr.setNormalsRands _ _).fuelOnly _) (fun _ => ?_)
          refine FuelOnly.bind ((NoFuelErr.pollN _).fuelOnly _) (fun _ => ?_)
          refine FuelOnly.bind ((writeBack_noFuel _ _ _ _).fuelOnly _) (fun _ => ?_)
          refine FuelOnly.bind ((insertItemsInCurrentTrees_noFuel _ _ _ _ _ _ (by omega)).fuelOnly _) (fun x => ?_)
          exact ih _ _
      · exact (NoFuelErr.fail (by intro w h; cases h)).fuelOnly _

/-! ## the whole `build`: which fuel labels can be reported at all -/

theorem FuelOnly.bind' {α β : Type} {P : String → Prop} {m : BuildM α} {f : α → BuildM β} (hm : FuelOnly P m)
    (hf : ∀ a, FuelOnly P (f a)) : FuelOnly P (BuildM.bind' m f) := FuelOnly.bind hm hf

theorem FuelOnly.mono {α : Type} {P Q : String → Prop} {m : BuildM α} (h : FuelOnly P m) (hPQ : ∀ w, P w → Q w) :
    FuelOnly Q m := fun st w e => hPQ w (h st w e)

theorem FuelOnly.liftExcept {α : Type} {P : String → Prop} {x : Except Err α}
    (hx : ∀ w, x = .error (.fuel w) → P w) : FuelOnly P (BuildM.liftExcept x) := by
  intro st w h
  cases x with
  | ok a => cases h
  | error e =>
    simp only [BuildM.liftExcept] at h
    injection h with h
    subst h
    exact hx w rfl

/-- the only fuel `delete_tree` can report is its own -/
theorem deleteTree_fuel_label (c : Cfg) : ∀ (fuel : Nat) (ref : NodeId) (s : Store) (w : String),
    Build.deleteTree c fuel ref s = .error (.fuel w) → w = "delete_tree" := by
  intro fuel
  induction fuel with
  | zero =>
    intro ref s w h
    simp only [Build.deleteTree] at h
    injection h with h
    injection h with h
    exact h.symm
  | succ f ih =>
    intro ref s w h
    unfold Build.deleteTree at h
    split at h
    · cases h
    · split at h
      · cases h
      · split at h
        · rename_i e he
          injection h with h
          subst h
          exact ih _ _ _ he
        · split at h
          · rename_i e he
            injection h with h
            subst h
            exact ih _ _ _ he
          · cases h
      · cases h
      · cases h

theorem deleteExtraTrees_fuelOnly (c : Cfg) (k : Nat) (roots : List Nat) :
    FuelOnly (fun w => w = "delete_tree") (Build.deleteExtraTrees c k roots) := by
  induction k generalizing roots with
  | zero => unfold Build.deleteExtraTrees; exact (NoFuelErr.pure _).fuelOnly _
  | succ k ih =>
    unfold Build.deleteExtraTrees
    refine FuelOnly.bind (NoFuelErr.poll.fuelOnly _) (fun _ => ?_)
    split
    · exact (NoFuelErr.pure _).fuelOnly _
    · refine FuelOnly.bind (NoFuelErr.getStore.fuelOnly _) (fun s => ?_)
      refine FuelOnly.bind (FuelOnly.liftExcept (fun w h => deleteTree_fuel_label c _ _ _ w h)) (fun s' => ?_)
      refine FuelOnly.bind ((NoFuelErr.setStore _).fuelOnly _) (fun _ => ?_)
      exact ih _

theorem deleteLoop_noFuel (c : Cfg) (o : BuildOpts) (D : List Nat) (s : Store) (roots : List Nat) :
    NoFuelErr (Build.deleteLoop c o D s roots) := by
  induction roots with
  | nil => unfold Build.deleteLoop; nofuel
  | cons r rest ih =>
    unfold Build.deleteLoop
    repeat (first | exact ih | nofuel_step)

theorem deleteItemsFromTrees_noFuel (c : Cfg) (o : BuildOpts) (roots D : List Nat) :
    NoFuelErr (Build.deleteItemsFromTrees c o roots D) := by
  unfold Build.deleteItemsFromTrees
  repeat (first | exact deleteLoop_noFuel _ _ _ _ _ | exact writeBack_noFuel _ _ _ _ | nofuel_step)

theorem newTrees_noFuel (c : Cfg) (items : List Nat) (k : Nat) (roots large : List Nat) (g : IdGen) :
    NoFuelErr (Build.newTrees c items k roots large g) := by
  induction k generalizing roots large g with
  | zero => unfold Build.newTrees; nofuel
  | succ k ih =>
    unfold Build.newTrees
    repeat (first | exact ih _ _ _ | exact NoFuelErr.liftExcept (IdGen.next_noFuel _) | nofuel_step)

theorem preProcessItems_noFuel (c : Cfg) : NoFuelErr (Build.preProcessItems c) := by
  unfold Build.preProcessItems; nofuel

theorem itemIndices_noFuel (c : Cfg) : NoFuelErr (Build.itemIndices c) := by
  unfold Build.itemIndices; nofuel

theorem resetUpdated_noFuel (c : Cfg) : NoFuelErr (Build.resetUpdated c) := by
  unfold Build.resetUpdated; nofuel

theorem writeMetadata_noFuel (c : Cfg) (a b : List Nat) : NoFuelErr (Build.writeMetadata c a b) := by
  unfold Build.writeMetadata; nofuel

theorem singleLeaf_noFuel (c : Cfg) (items : List Nat) : NoFuelErr (Build.singleLeaf c items) := by
  unfold Build.singleLeaf
  repeat (first | exact writeMetadata_noFuel _ _ _ | nofuel_step)

/-- the labels of the two fuels that can be reported by `build`: the budget of the re-split loop, and
    `delete_tree` (only on a store whose trees are not trees: see `deleteTree_ok_of_holds_nodup`) -/
def buildFuelLabel (w : String) : Prop := w = "incremental_index_large_descendants" ∨ w = "delete_tree"

theorem afterUsed_fuelOnly (c : Cfg) (o : BuildOpts) (fuel : Nat) (items updated roots used : List Nat) :
    FuelOnly buildFuelLabel (Transp.afterUsed c o fuel items updated roots used) := by
  unfold Transp.afterUsed
  dsimp only
  refine FuelOnly.bind ((deleteExtraTrees_fuelOnly _ _ _).mono (fun w h => Or.inr h)) (fun roots1 => ?_)
  refine FuelOnly.bind ((deleteItemsFromTrees_noFuel _ _ _ _).fuelOnly _) (fun roots2 => ?_)
  refine FuelOnly.bind ((insertItemsInCurrentTrees_noFuel _ _ _ _ _ _ (Nat.lt_succ_self _)).fuelOnly _) (fun x => ?_)
  refine FuelOnly.bind ((newTrees_noFuel _ _ _ _ _ _).fuelOnly _) (fun y => ?_)
  refine FuelOnly.bind ((incrementalIndexLargeDescendants_fuelOnly _ _ _ _ _).mono (fun w h => Or.inl h)) (fun _ => ?_)
  exact (writeMetadata_noFuel _ _ _).fuelOnly _

/-- `build` can only report the budget of the re-split loop or `delete_tree` as exhausted -/
theorem build_fuelOnly (c : Cfg) (o : BuildOpts) (loopFuel : Nat) :
    FuelOnly buildFuelLabel (Build.build c o loopFuel) := by
  rw [Transp.build_eq]
  refine FuelOnly.bind' ((preProcessItems_noFuel c).fuelOnly _) (fun _ => ?_)
  refine FuelOnly.bind' ((itemIndices_noFuel c).fuelOnly _) (fun items => ?_)
  refine FuelOnly.bind' ((resetUpdated_noFuel c).fuelOnly _) (fun updated => ?_)
  split
  · exact (singleLeaf_noFuel c items).fuelOnly _
  · refine FuelOnly.bind' (NoFuelErr.getStore.fuelOnly _) (fun s => ?_)
    refine FuelOnly.bind' ((NoFuelErr.usedTreeNode c).fuelOnly _) (fun used => ?_)
    exact afterUsed_fuelOnly c o loopFuel items updated _ used

/-! ## helpers for the re-split round (C14) -/

open IdSet in
theorem union_take_drop (ids : List Nat) (k : Nat) (hs : Sorted ids) :
    IdSet.union (ids.take k) (ids.drop k) = ids := by
  apply sorted_ext (sorted_union (hs.sublist (List.take_sublist _ _)) (hs.sublist (List.drop_sublist _ _))) hs
  intro x
  rw [mem_union, ← List.mem_append, List.take_append_drop]


/-- `makeT` on a batch that fits (and is not a single item) makes one bucket -/
theorem makeT_fitting (cx : TreeCtx) (fuel : Nat) (items : List Nat) (g g' : IdGen) (id : Nat)
    (normals : List (List Nat)) (rs : List Bool) (hne : ∀ x, items ≠ [x])
    (hfit : fits cx.cap items.length = true) (hn : g.next = .ok (id, g')) :
    makeT cx (fuel + 1) items g normals rs =
      .ok ⟨.bucket id items, [(id, .desc items)], g', normals, rs, 1, 1⟩ := by
  rcases items with _ | ⟨x, _ | ⟨y, ys⟩⟩
  · simp only [makeT, hfit, hn, if_true]
  · exact absurd rfl (hne x)
  · simp only [makeT, hfit, hn, if_true]


/-! ## `BuildOpts.availableMemory` is never read -/

section memory
variable (c : Cfg) (o : BuildOpts) (m : Option Nat)

theorem deleteLoop_mem (D : List Nat) (s : Store) (roots : List Nat) :
    Build.deleteLoop c { o with availableMemory := m } D s roots = Build.deleteLoop c o D s roots := by
  induction roots with
  | nil => rfl
  | cons r rest ih => simp only [Build.deleteLoop, ih]; rfl

theorem insertRoots_mem (snap : Store) (batch roots : List Nat) (g : IdGen) :
    Build.insertRoots c { o with availableMemory := m } snap batch roots g =
      Build.insertRoots c o snap batch roots g := by
  induction roots generalizing g with
  | nil => rfl
  | cons r rest ih => simp only [Build.insertRoots, ih]; rfl

theorem insertItemsInCurrentTrees_mem (roots : List Nat) (fuel : Nat) (toInsert : List Nat) (g : IdGen) :
    Build.insertItemsInCurrentTrees c { o with availableMemory := m } roots fuel toInsert g =
      Build.insertItemsInCurrentTrees c o roots fuel toInsert g := by
  induction fuel generalizing toInsert g with
  | zero => rfl
  | succ fuel ih => simp only [Build.insertItemsInCurrentTrees, ih, insertRoots_mem]

theorem incrementalIndexLargeDescendants_mem (fuel : Nat) (large : List Nat) (g : IdGen) :
    Build.incrementalIndexLargeDescendants c { o with availableMemory := m } fuel large g =
      Build.incrementalIndexLargeDescendants c o fuel large g := by
  induction fuel generalizing large g with
  | zero => rfl
  | succ fuel ih =>
    cases large with
    | nil => rfl
    | cons b large' => simp only [Build.incrementalIndexLargeDescendants, ih, insertItemsInCurrentTrees_mem]; rfl

end memory


end Arroy
