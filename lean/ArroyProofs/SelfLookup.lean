import ArroyModel.Check
import ArroyProofs.InsT
import ArroyProofs.Nns
import ArroyProofs.PqLemmas
/-! Self-lookup (C04): on a routed forest, a query equal to a stored item's own vector reaches that item with
the smallest budget whenever one tree separates it by non-degenerate planes with decisive margins only. -/
namespace Arroy

/-- the split-plane normals of a tree -/
def T.normals : T → List (List Nat)
  | .leaf _ => []
  | .bucket _ _ => []
  | .node _ n l r => n :: (l.normals ++ r.normals)

namespace Reader
open Generated

/-- the margin the reader uses at a split node: 0 for a zeroed normal (random split) and for a NaN margin -/
def readerMargin (c : Cfg) (qv normal : List Nat) : Nat :=
  let margin0 := if c.metric.isZero normal then F32.zero else c.metric.margin c.host normal qv
  if F32.isNaN margin0 then F32.zero else margin0

/-- one step of the loop at a split node, in terms of `readerMargin` -/
theorem traverse_split_step (c : Cfg) (s : Store) (qv : List Nat) (q : QueryOpts) (k fuel : Nat)
    (queue queue' : List (Nat × NodeId)) (nns : List Nat) (dist : Nat) (node l r : NodeId) (normal : List Nat)
    (hk : ¬ nns.length ≥ k) (hp : popMax queue = some ((dist, node), queue'))
    (hg : s.get ⟨c.index, node.mode, node.item⟩ = some (.split l r normal)) :
    traverse c s qv q k (fuel + 1) queue nns =
      traverse c s qv q k fuel
        ((Metric.pqDistance dist (readerMargin c qv normal) true, r) ::
          (Metric.pqDistance dist (readerMargin c qv normal) false, l) :: queue') nns := by
  rw [traverse]
  simp only [hk, if_false, hp, hg]
  rfl

theorem readerMargin_notNaN (c : Cfg) (qv normal : List Nat) : F32.isNaN (readerMargin c qv normal) = false := by
  unfold readerMargin
  simp only
  generalize (if c.metric.isZero normal = true then F32.zero else c.metric.margin c.host normal qv) = m0
  split
  · exact F32.isNaN_zero
  · rename_i h; simpa using h

/-- a non-zero reader margin is the true margin against a non-degenerate normal -/
theorem readerMargin_decisive (c : Cfg) (qv normal : List Nat)
    (h : F32.lt F32.zero (readerMargin c qv normal) = true ∨ F32.lt (readerMargin c qv normal) F32.zero = true) :
    c.metric.isZero normal = false ∧ readerMargin c qv normal = c.metric.margin c.host normal qv := by
  unfold readerMargin at h ⊢
  simp only at h ⊢
  cases hz : c.metric.isZero normal
  · simp only [hz, Bool.false_eq_true, if_false] at h ⊢
    refine ⟨trivial, ?_⟩
    split
    · rename_i hn
      simp only [hn, if_true, F32.lt_irrefl] at h
      rcases h with h | h <;> cases h
    · rfl
  · simp only [hz, if_true, F32.isNaN_zero, Bool.false_eq_true, if_false, F32.lt_irrefl] at h
    rcases h with h | h <;> cases h

/-- conversely a decisive true margin against a non-degenerate normal is what the reader uses -/
theorem readerMargin_eq (c : Cfg) (qv normal : List Nat) (hz : c.metric.isZero normal = false)
    (h : F32.lt F32.zero (c.metric.margin c.host normal qv) = true ∨
      F32.lt (c.metric.margin c.host normal qv) F32.zero = true) :
    readerMargin c qv normal = c.metric.margin c.host normal qv := by
  have hn : F32.isNaN (c.metric.margin c.host normal qv) = false := by
    rcases h with h | h
    · exact (F32.lt_notNaN h).2
    · exact (F32.lt_notNaN h).1
  simp [readerMargin, hz, hn]

/-- priorities of the children of a popped node -/
theorem pq_notNaN (d m : Nat) (right : Bool) (hd : F32.isNaN d = false) (hm : F32.isNaN m = false) :
    F32.isNaN (Metric.pqDistance d m right) = false := by
  unfold Metric.pqDistance
  split
  · exact F32.min_notNaN hm hd
  · exact F32.min_notNaN (by rw [F32.isNaN_neg]; exact hm) hd

theorem pq_pos_right (d m : Nat) (hd : F32.isNaN d = false) (hm : F32.isNaN m = false) :
    F32.lt F32.zero (Metric.pqDistance d m true) = true ↔ (F32.lt F32.zero m = true ∧ F32.lt F32.zero d = true) := by
  simp only [Metric.pqDistance, if_true]
  exact F32.pos_min hm hd

theorem pq_pos_left (d m : Nat) (hd : F32.isNaN d = false) (hm : F32.isNaN m = false) :
    F32.lt F32.zero (Metric.pqDistance d m false) = true ↔ (F32.lt m F32.zero = true ∧ F32.lt F32.zero d = true) := by
  simp only [Metric.pqDistance, Bool.false_eq_true, if_false]
  rw [F32.pos_min (by rw [F32.isNaN_neg]; exact hm) hd, F32.pos_neg hm]

/-- a good path ends at the item -/
theorem goodPath_mem (c : Cfg) (s : Store) (x : Nat) (t : T) (h : Check.goodPath c s x t = true) : x ∈ t.items := by
  induction t with
  | leaf i => simp only [Check.goodPath, beq_iff_eq] at h; subst h; simp [T.items]
  | bucket id its => simpa [Check.goodPath, T.items] using h
  | node id n l r ihl ihr =>
    simp only [Check.goodPath] at h
    split at h
    · cases h
    · split at h
      · simp [T.items, ihr h]
      · simp [T.items, ihl h]
      · cases h

/-- the side of a stored item against a normal, in terms of the margin -/
theorem sideOf_stored (c : Cfg) (s : Store) (n : List Nat) (x : Nat) (h v : List Nat)
    (hx : s.get (c.itemKey x) = some (.leaf h v)) :
    Build.sideOf c s n x =
      some (if F32.lt F32.zero (c.metric.margin c.host v n) = true then some true
            else if F32.lt (c.metric.margin c.host v n) F32.zero = true then some false else none) := by
  simp only [Build.sideOf, Writer.itemLeaf, hx]
  rfl

theorem size_pos (t : T) : 0 < t.size := by cases t <;> simp [T.size] <;> omega

/-- **the loop invariant of self-lookup** (budget 1, no filter, query vector = the stored vector `v` of `x`):
the pending subtrees are held and routed, no priority is NaN, every pending subtree of positive priority
contains `x`, and one of them has a good path to `x`. Then the loop returns a list containing `x`. -/
theorem traverse_selfLookup (c : Cfg) (o : BuildOpts) (s : Store)
    (x : Nat) (h v : List Nat) (hx : s.get (c.itemKey x) = some (.leaf h v))
    (q : QueryOpts) (hq : q.candidates = none) :
    ∀ (fuel : Nat) (tq : List (Nat × T)),
    (∀ p ∈ tq, ∀ n ∈ p.2.normals, c.metric.margin c.host v n = c.metric.margin c.host n v) →
    (∀ p ∈ tq, Holds c s p.2) →
    (∀ p ∈ tq, RoutedT (Build.treeCtx c o s) p.2) →
    (∀ p ∈ tq, F32.isNaN p.1 = false) →
    (∀ p ∈ tq, F32.lt F32.zero p.1 = true → x ∈ p.2.items) →
    (∃ p ∈ tq, F32.lt F32.zero p.1 = true ∧ Check.goodPath c s x p.2 = true) →
    (tq.map (fun p => p.2.size)).sum < fuel →
    ∃ out, traverse c s v q 1 fuel (qOf tq) [] = .ok out ∧ x ∈ out := by
  intro fuel
  induction fuel with
  | zero => intro tq _ _ _ _ _ _ hf; omega
  | succ n ih =>
    intro tq hsy hh hr hn hc hgood hf
    rcases popMax_map (fun p : Nat × T => (p.1, p.2.ref)) tq with ⟨rfl, _⟩ | ⟨⟨d, t⟩, tq', hp, hperm⟩
    · obtain ⟨p, hp, _⟩ := hgood; cases hp
    · have hmem : ∀ p, p ∈ tq ↔ p ∈ (d, t) :: tq' := fun p => hperm.mem_iff
      have hsz : (tq.map (fun p => p.2.size)).sum = t.size + (tq'.map (fun p => p.2.size)).sum := by
        rw [(hperm.map _).sum_nat]; rfl
      have hin : (d, t) ∈ tq := (hmem _).2 List.mem_cons_self
      have hsub : ∀ p ∈ tq', p ∈ tq := fun p hp' => (hmem p).2 (List.mem_cons_of_mem _ hp')
      obtain ⟨g, hg, hgpos, hgood'⟩ := hgood
      -- the popped entry is a maximum, hence positive, hence contains `x`
      have hmax := popMax_max _ _ _ hp (g.1, g.2.ref) (List.mem_map.2 ⟨g, hg, rfl⟩)
      have hdn : F32.isNaN d = false := hn _ hin
      have hdpos : F32.lt F32.zero d = true := pos_of_max (m := (d, t.ref)) (g := (g.1, g.2.ref)) hdn hgpos hmax
      have hxt : x ∈ t.items := hc _ hin hdpos
      have ht : Holds c s t := hh _ hin
      have hrt := hr _ hin
      cases t with
      | leaf i =>
        simp only [T.items, List.mem_singleton] at hxt
        subst hxt
        have hg' : s.get ⟨c.index, (T.leaf x).ref.mode, (T.leaf x).ref.item⟩ = some (.leaf h v) := hx
        rw [traverse]
        simp only [qOf, hp, hg', inCandidates, hq]
        have hn1 : 0 < n := by simp only [T.size] at hsz; omega
        obtain ⟨n', rfl⟩ : ∃ n', n = n' + 1 := ⟨n - 1, by omega⟩
        rw [traverse]
        have hi : (T.leaf x).ref.item = x := rfl
        simp only [hi]
        exact ⟨[x], by simp, by simp⟩
      | bucket id ids =>
        have hg' : s.get ⟨c.index, (T.bucket id ids).ref.mode, (T.bucket id ids).ref.item⟩ = some (.desc ids) :=
          ht.bucket
        rw [traverse]
        simp only [qOf, hp, hg', hq]
        have hn1 : 0 < n := by simp only [T.size] at hsz; omega
        obtain ⟨n', rfl⟩ : ∃ n', n = n' + 1 := ⟨n - 1, by omega⟩
        rw [traverse]
        simp only [T.items] at hxt
        have hlen : ([] ++ ids).length ≥ 1 := by
          simp only [List.nil_append]; exact List.length_pos_of_mem hxt
        rw [if_pos hlen]
        exact ⟨[] ++ ids, rfl, by simpa using hxt⟩
      | node id nrm l r =>
        have hg' : s.get ⟨c.index, (T.node id nrm l r).ref.mode, (T.node id nrm l r).ref.item⟩ =
            some (.split l.ref r.ref nrm) := ht.root
        have hstep := traverse_split_step c s v q 1 n (qOf tq) (tq'.map fun p => (p.1, p.2.ref)) [] d
          (T.node id nrm l r).ref l.ref r.ref nrm (by simp) hp hg'
        rw [hstep]
        generalize hM : readerMargin c v nrm = M
        have hMn : F32.isNaN M = false := by rw [← hM]; exact readerMargin_notNaN c v nrm
        have hdec := readerMargin_decisive c v nrm
        rw [hM] at hdec
        -- the side of `x` against this normal, as the builder computes it
        have hsymm : c.metric.margin c.host v nrm = c.metric.margin c.host nrm v :=
          hsy _ hin nrm (by simp [T.normals])
        have hside := sideOf_stored c s nrm x h v hx
        rw [hsymm] at hside
        obtain ⟨hrz, hrl, hrr⟩ := hrt
        simp only [T.items, List.mem_append] at hxt
        simp only [T.size] at hsz
        apply ih ((Metric.pqDistance d M true, r) :: (Metric.pqDistance d M false, l) :: tq')
        · intro p hp'
          rcases List.mem_cons.1 hp' with rfl | hp'
          · intro n' hn'; exact hsy _ hin n' (by simp [T.normals, hn'])
          rcases List.mem_cons.1 hp' with rfl | hp'
          · intro n' hn'; exact hsy _ hin n' (by simp [T.normals, hn'])
          · exact hsy p (hsub p hp')
        · intro p hp'
          rcases List.mem_cons.1 hp' with rfl | hp'
          · exact ht.right
          rcases List.mem_cons.1 hp' with rfl | hp'
          · exact ht.left
          · exact hh p (hsub p hp')
        · intro p hp'
          rcases List.mem_cons.1 hp' with rfl | hp'
          · exact hrr
          rcases List.mem_cons.1 hp' with rfl | hp'
          · exact hrl
          · exact hr p (hsub p hp')
        · intro p hp'
          rcases List.mem_cons.1 hp' with rfl | hp'
          · exact pq_notNaN d M true hdn hMn
          rcases List.mem_cons.1 hp' with rfl | hp'
          · exact pq_notNaN d M false hdn hMn
          · exact hn p (hsub p hp')
        · intro p hp' hpos
          rcases List.mem_cons.1 hp' with rfl | hp'
          · -- right child positive: the margin is positive, `x` is not on the left
            have hMpos := ((pq_pos_right d M hdn hMn).1 hpos).1
            obtain ⟨hz, hMeq⟩ := hdec (Or.inl hMpos)
            rw [← hMeq] at hside
            have hs : Build.sideOf c s nrm x = some (some true) := by rw [hside]; simp [hMpos]
            rcases hxt with hxl | hxr
            · exact absurd hs ((hrz hz).1 x hxl)
            · exact hxr
          rcases List.mem_cons.1 hp' with rfl | hp'
          · have hMneg := ((pq_pos_left d M hdn hMn).1 hpos).1
            obtain ⟨hz, hMeq⟩ := hdec (Or.inr hMneg)
            rw [← hMeq] at hside
            have hs : Build.sideOf c s nrm x = some (some false) := by
              rw [hside]; simp [hMneg, F32.lt_asymm hMneg]
            rcases hxt with hxl | hxr
            · exact hxl
            · exact absurd hs ((hrz hz).2 x hxr)
          · exact hc p (hsub p hp') hpos
        · -- a good entry remains
          rcases List.mem_cons.1 ((hmem g).1 hg) with rfl | hg'
          · simp only [Check.goodPath] at hgood'
            split at hgood'
            · cases hgood'
            · rename_i hz
              have hz' : c.metric.isZero nrm = false := by simpa using hz
              simp only [Check.decisive, sideOf_stored c s nrm x h v hx, hsymm] at hgood'
              by_cases h1 : F32.lt F32.zero (c.metric.margin c.host nrm v) = true
              · have hMe : M = c.metric.margin c.host nrm v := by
                  rw [← hM]; exact readerMargin_eq c v nrm hz' (Or.inl h1)
                simp only [h1, if_true] at hgood'
                refine ⟨_, List.mem_cons_self, ?_, hgood'⟩
                exact (pq_pos_right d M hdn hMn).2 ⟨by rw [hMe]; exact h1, hdpos⟩
              · by_cases h2 : F32.lt (c.metric.margin c.host nrm v) F32.zero = true
                · have hMe : M = c.metric.margin c.host nrm v := by
                    rw [← hM]; exact readerMargin_eq c v nrm hz' (Or.inr h2)
                  simp only [h1, h2, if_true] at hgood'
                  refine ⟨_, List.mem_cons_of_mem _ List.mem_cons_self, ?_, hgood'⟩
                  exact (pq_pos_left d M hdn hMn).2 ⟨by rw [hMe]; exact h2, hdpos⟩
                · simp [h1, h2] at hgood'
          · exact ⟨g, List.mem_cons_of_mem _ (List.mem_cons_of_mem _ hg'), hgpos, hgood'⟩
        · simp only [List.map_cons, List.sum_cons]; omega

/-- the initial queue of `nnsByLeaf` as a queue of trees -/
theorem forest_queue_eq {c : Cfg} {s : Store} {rd : ReaderState} {ts : List T} (F : ForestWith c s rd ts) :
    (rd.roots.map fun r => (F32.inf, NodeId.mkTree r)) = qOf (ts.map fun t => (F32.inf, t)) := by
  have : (rd.roots.map fun r => (F32.inf, NodeId.mkTree r)) =
      (rd.roots.map NodeId.mkTree).map (fun n => (F32.inf, n)) := by simp [List.map_map]
  rw [this, ← F.refs]; simp [qOf, List.map_map]

/-- **self-lookup through `nns_by_leaf`**: on a valid, routed forest in which some tree has a good path to
the stored item `x`, querying with `x`'s own leaf, any budget ≥ 1, no filter and `count ≥ #items` returns `x` -/
theorem nnsByLeaf_selfLookup {c : Cfg} {s : Store} {rd : ReaderState} {ts : List T} (F : ForestWith c s rd ts)
    (o : BuildOpts) (hrouted : ∀ t ∈ ts, RoutedT (Build.treeCtx c o s) t)
    (x : Nat) (h v : List Nat) (hx : s.get (c.itemKey x) = some (.leaf h v))
    (hsymm : ∀ t ∈ ts, ∀ n ∈ t.normals, c.metric.margin c.host v n = c.metric.margin c.host n v)
    (t₀ : T) (ht₀ : t₀ ∈ ts) (hgood : Check.goodPath c s x t₀ = true)
    (q : QueryOpts) (hq : q.candidates = none) (hb : 1 ≤ budget c.metric rd.roots.length q)
    (hcount : rd.items.length ≤ q.count) :
    ∃ ans, nnsByLeaf c s rd h v q = .ok ans ∧ x ∈ ans.map (·.1) := by
  have hxi : x ∈ rd.items := (F.reach t₀ ht₀ x).1 (goodPath_mem c s x t₀ hgood)
  have hne : rd.items ≠ [] := List.ne_nil_of_mem hxi
  obtain ⟨nns, hn, hm⟩ := traverse_total F v q (budget c.metric rd.roots.length q)
  obtain ⟨out₁, h1, hpre⟩ := traverse_prefix c s v q 1 _ hb _ _ _ _ hn
  have hself := traverse_selfLookup c o s x h v hx q hq (2 * s.length + rd.roots.length + 2)
    (ts.map fun t => (F32.inf, t))
    (by intro p hp; obtain ⟨t, ht, rfl⟩ := List.mem_map.1 hp; exact hsymm t ht)
    (by intro p hp; obtain ⟨t, ht, rfl⟩ := List.mem_map.1 hp; exact F.holds t ht)
    (by intro p hp; obtain ⟨t, ht, rfl⟩ := List.mem_map.1 hp; exact hrouted t ht)
    (by intro p hp; obtain ⟨t, ht, rfl⟩ := List.mem_map.1 hp; exact F32.isNaN_inf)
    (by intro p hp _; obtain ⟨t, ht, rfl⟩ := List.mem_map.1 hp; exact (F.reach t ht x).2 hxi)
    ⟨(F32.inf, t₀), List.mem_map.2 ⟨t₀, ht₀, rfl⟩, F32.lt_zero_inf, hgood⟩
    (by
      have := forest_fuel F
      simpa [List.map_map, Function.comp_def] using this)
  rw [← forest_queue_eq F, h1] at hself
  obtain ⟨out, ho, hxo⟩ := hself
  cases ho
  have hxn : x ∈ nns := hpre.subset hxo
  have hl : ∀ id ∈ IdSet.ofList nns, IsLeaf c s id := fun id hid =>
    F.stored id (hm id ((IdSet.mem_ofListR nns id).1 hid)).1
  refine ⟨_, nnsByLeaf_of_traverse c s rd h v q nns hne hn hl, ?_⟩
  rw [exactOver_ids]
  have hlen : (IdSet.ofList nns).length ≤ rd.items.length :=
    length_le_of_nodup_subset rd.items _ (IdSet.ofList_nodup nns)
      (fun y hy => (hm y ((IdSet.mem_ofListR nns y).1 hy)).1)
  rw [List.take_of_length_le (by rw [List.length_map, sortedScored_length]; omega)]
  exact (sortedScored_ids_perm c s h v _).mem_iff.2 ((IdSet.mem_ofListR nns x).2 hxn)

/-! ### what `RoutedT` means for the reader -/

/-- the child the reader pops first below a split node when queried with `qv`: `some true` = right,
`some false` = left, `none` = the margin does not decide (zero, NaN, or a zeroed normal) -/
def readerFirst (c : Cfg) (qv normal : List Nat) : Option Bool :=
  if F32.lt F32.zero (readerMargin c qv normal) = true then some true
  else if F32.lt (readerMargin c qv normal) F32.zero = true then some false else none

/-- justification of the name: below a popped node of positive priority `d`, the child `readerFirst` names gets
a positive priority and its sibling does not, so it is popped first -/
theorem readerFirst_spec (c : Cfg) (qv normal : List Nat) (d : Nat) (hd : F32.lt F32.zero d = true) (b : Bool)
    (h : readerFirst c qv normal = some b) :
    F32.lt F32.zero (Metric.pqDistance d (readerMargin c qv normal) b) = true ∧
    F32.lt F32.zero (Metric.pqDistance d (readerMargin c qv normal) (!b)) = false ∧
    F32.ordLt (Metric.pqDistance d (readerMargin c qv normal) (!b))
      (Metric.pqDistance d (readerMargin c qv normal) b) = true := by
  have hdn := (F32.lt_notNaN hd).2
  have hMn := readerMargin_notNaN c qv normal
  unfold readerFirst at h
  generalize readerMargin c qv normal = M at *
  have key : ∀ b', F32.lt F32.zero (Metric.pqDistance d M b') = true →
      F32.lt F32.zero (Metric.pqDistance d M (!b')) = false →
      F32.ordLt (Metric.pqDistance d M (!b')) (Metric.pqDistance d M b') = true := by
    intro b' h1 h2
    have n1 := pq_notNaN d M b' hdn hMn
    have n2 := pq_notNaN d M (!b') hdn hMn
    rw [F32.ordLt_eq_lt n2 n1, F32.lt_iff_key n2 n1]
    rw [F32.pos_iff_key n1] at h1
    have h2' : ¬ (F32.lt F32.zero (Metric.pqDistance d M (!b')) = true) := by simp [h2]
    rw [F32.pos_iff_key n2] at h2'
    unfold SF.klt; omega
  split at h
  · rename_i hp
    cases h
    have h1 := (pq_pos_right d M hdn hMn).2 ⟨hp, hd⟩
    have h2 : F32.lt F32.zero (Metric.pqDistance d M false) = false := by
      cases e : F32.lt F32.zero (Metric.pqDistance d M false)
      · rfl
      · have := ((pq_pos_left d M hdn hMn).1 e).1
        rw [F32.lt_asymm this] at hp; cases hp
    exact ⟨h1, h2, key true h1 h2⟩
  · split at h
    · rename_i hnp hp
      cases h
      have h1 := (pq_pos_left d M hdn hMn).2 ⟨hp, hd⟩
      have h2 : F32.lt F32.zero (Metric.pqDistance d M true) = false := by
        cases e : F32.lt F32.zero (Metric.pqDistance d M true)
        · rfl
        · exact absurd ((pq_pos_right d M hdn hMn).1 e).1 hnp
      exact ⟨h1, h2, key false h1 h2⟩
    · cases h

/-- the builder's side of a stored item is the child the reader pops first for the item's own vector -/
theorem sideOf_eq_readerFirst (c : Cfg) (s : Store)
    (n : List Nat) (hz : c.metric.isZero n = false) (y : Nat) (hy vy : List Nat)
    (hs : s.get (c.itemKey y) = some (.leaf hy vy))
    (hsymm : c.metric.margin c.host vy n = c.metric.margin c.host n vy) :
    Build.sideOf c s n y = some (readerFirst c vy n) := by
  rw [sideOf_stored c s n y hy vy hs, hsymm]
  unfold readerFirst
  by_cases h1 : F32.lt F32.zero (c.metric.margin c.host n vy) = true
  · rw [readerMargin_eq c vy n hz (Or.inl h1)]
  · by_cases h2 : F32.lt (c.metric.margin c.host n vy) F32.zero = true
    · rw [readerMargin_eq c vy n hz (Or.inr h2)]
    · have hm := readerMargin_decisive c vy n
      have e1 : ¬ F32.lt F32.zero (readerMargin c vy n) = true := fun e => h1 (by rw [← (hm (Or.inl e)).2]; exact e)
      have e2 : ¬ F32.lt (readerMargin c vy n) F32.zero = true := fun e => h2 (by rw [← (hm (Or.inr e)).2]; exact e)
      simp [h1, h2, e1, e2]

/-- routing stated on the reader's side: below every non-degenerate plane no stored item is in the subtree the
reader would pop second for the item's own vector -/
def ReaderRouted (c : Cfg) (s : Store) : T → Prop
  | .leaf _ => True
  | .bucket _ _ => True
  | .node _ n l r =>
    (c.metric.isZero n = false →
      (∀ y ∈ l.items, ∀ hy vy, s.get (c.itemKey y) = some (.leaf hy vy) → readerFirst c vy n ≠ some true) ∧
      (∀ y ∈ r.items, ∀ hy vy, s.get (c.itemKey y) = some (.leaf hy vy) → readerFirst c vy n ≠ some false)) ∧
    ReaderRouted c s l ∧ ReaderRouted c s r

theorem sideOf_not_leaf (c : Cfg) (s : Store) (n : List Nat) (y : Nat)
    (h : ∀ hy vy, s.get (c.itemKey y) ≠ some (.leaf hy vy)) : Build.sideOf c s n y = none := by
  cases hg : s.get (c.itemKey y) with
  | none => simp [Build.sideOf, Writer.itemLeaf, hg]
  | some val =>
    cases val with
    | leaf h' v' => exact absurd hg (h h' v')
    | _ => simp [Build.sideOf, Writer.itemLeaf, hg]

theorem routedT_iff_readerRouted (c : Cfg) (o : BuildOpts) (s : Store) (t : T)
    (hsymm : ∀ n ∈ t.normals, ∀ y hy vy, s.get (c.itemKey y) = some (.leaf hy vy) →
      c.metric.margin c.host vy n = c.metric.margin c.host n vy) :
    RoutedT (Build.treeCtx c o s) t ↔ ReaderRouted c s t := by
  induction t with
  | leaf i => simp [RoutedT, ReaderRouted]
  | bucket id ids => simp [RoutedT, ReaderRouted]
  | node id n l r ihl ihr =>
    have ihl := ihl (fun n' hn' => hsymm n' (by simp [T.normals, hn']))
    have ihr := ihr (fun n' hn' => hsymm n' (by simp [T.normals, hn']))
    have hsn := hsymm n (by simp [T.normals])
    have e1 : (Build.treeCtx c o s).isZero = c.metric.isZero := rfl
    have e2 : (Build.treeCtx c o s).side = Build.sideOf c s := rfl
    simp only [RoutedT, ReaderRouted, ihl, ihr, e1, e2]
    have side : ∀ (y : Nat) (b : Bool), c.metric.isZero n = false →
        (Build.sideOf c s n y ≠ some (some b) ↔
          ∀ hy vy, s.get (c.itemKey y) = some (.leaf hy vy) → readerFirst c vy n ≠ some b) := by
      intro y b hz
      constructor
      · intro hne hy vy hs e
        apply hne
        rw [sideOf_eq_readerFirst c s n hz y hy vy hs (hsn y hy vy hs), e]
      · intro hall e
        by_cases hl : ∃ hy vy, s.get (c.itemKey y) = some (.leaf hy vy)
        · obtain ⟨hy, vy, hs⟩ := hl
          rw [sideOf_eq_readerFirst c s n hz y hy vy hs (hsn y hy vy hs)] at e
          exact hall hy vy hs (by simpa using e)
        · rw [sideOf_not_leaf c s n y (fun hy vy hs => hl ⟨hy, vy, hs⟩)] at e
          cases e
    constructor
    · rintro ⟨h0, hl, hr⟩
      refine ⟨fun hz => ?_, hl, hr⟩
      obtain ⟨a, b⟩ := h0 hz
      exact ⟨fun y hy => (side y true hz).1 (a y hy), fun y hy => (side y false hz).1 (b y hy)⟩
    · rintro ⟨h0, hl, hr⟩
      refine ⟨fun hz => ?_, hl, hr⟩
      obtain ⟨a, b⟩ := h0 hz
      exact ⟨fun y hy => (side y true hz).2 (a y hy), fun y hy => (side y false hz).2 (b y hy)⟩

end Reader
end Arroy
