import ArroyProofs.SoftFloatReal
import Mathlib.Tactic.LinearCombination
/-! Division and square root of the soft-float model satisfy the standard model: their quotient / root
digits plus the sticky bit describe the exact real result, which `roundPack_real` then rounds. -/
namespace Arroy
namespace SFR
open SF

theorem sgn_ne_zero (b : Bool) : sgn b ≠ 0 := by cases b <;> simp [sgn]
theorem sgn_inv (b : Bool) : (sgn b)⁻¹ = sgn b := by cases b <;> simp [sgn]

/-- **division** satisfies the standard model (divisor non-zero, exact quotient zero or in the normal range) -/
theorem div_std (a b : Nat) (ha : Finite a) (hb : Finite b) (hb0 : toReal b ≠ 0)
    (hN : NormalOrZero (toReal a / toReal b)) :
    Finite (F32.div a b) ∧ ∃ δ : ℝ, |δ| ≤ u ∧ toReal (F32.div a b) = toReal a / toReal b * (1 + δ) := by
  obtain ⟨s, m1, e1, hua⟩ := (finite_iff a).1 ha
  obtain ⟨t, m2, e2, hub⟩ := (finite_iff b).1 hb
  have hra := toReal_of_unpack hua
  have hrb := toReal_of_unpack hub
  have hm2 : m2 ≠ 0 := by
    intro h0; apply hb0; rw [hrb, h0]; simp
  have hb2 : (m2 == 0) = false := by simpa using hm2
  have hm2' : (0 : ℝ) < m2 := by exact_mod_cast Nat.pos_of_ne_zero hm2
  by_cases hm1 : m1 = 0
  · -- zero dividend
    have hdiv : F32.div a b = packBits f32 (s != t) 0 0 := by
      unfold F32.div SF.div
      show (match unpack f32 a, unpack f32 b with
        | .nan, _ | _, .nan => qnan f32
        | .inf _, .inf _ => qnan f32
        | .inf s, .fin t _ _ => infBits f32 (s != t)
        | .fin s _ _, .inf t => packBits f32 (s != t) 0 0
        | .fin s m1 e1, .fin t m2 e2 => _) = _
      rw [hua, hub]
      simp [hb2, hm1]
    have hu := unpack_packBits_zero (s != t)
    rw [hdiv]
    refine ⟨finite_of_unpack hu, 0, by simp [u_nonneg], ?_⟩
    rw [toReal_of_unpack hu, hra, hm1]; simp
  · have hb1 : (m1 == 0) = false := by simpa using hm1
    have hm1' : (0 : ℝ) < m1 := by exact_mod_cast Nat.pos_of_ne_zero hm1
    -- the quotient digits
    have hdiv : F32.div a b = roundPack f32 (s != t) (m1 * 2 ^ (24 + 3 + bitLen m2) / m2)
        (e1 - e2 - ((24 + 3 + bitLen m2 : Nat) : Int)) (m1 * 2 ^ (24 + 3 + bitLen m2) % m2 != 0) := by
      unfold F32.div SF.div
      show (match unpack f32 a, unpack f32 b with
        | .nan, _ | _, .nan => qnan f32
        | .inf _, .inf _ => qnan f32
        | .inf s, .fin t _ _ => infBits f32 (s != t)
        | .fin s _ _, .inf t => packBits f32 (s != t) 0 0
        | .fin s m1 e1, .fin t m2 e2 => _) = _
      rw [hua, hub]
      simp only [hb2, hb1, Bool.false_eq_true, if_false]
      rfl
    generalize hk : 24 + 3 + bitLen m2 = k at hdiv
    have hdm := Nat.div_add_mod (m1 * 2 ^ k) m2
    have hrl := Nat.mod_lt (m1 * 2 ^ k) (Nat.pos_of_ne_zero hm2)
    generalize hq : m1 * 2 ^ k / m2 = q at *
    generalize hr : m1 * 2 ^ k % m2 = r at *
    -- at least 25 quotient bits
    have hq24 : 2 ^ 24 ≤ q := by
      rw [← hq, Nat.le_div_iff_mul_le (Nat.pos_of_ne_zero hm2)]
      obtain ⟨_, _, hn2⟩ := bitLen_bounds (Nat.pos_of_ne_zero hm2)
      calc 2 ^ 24 * m2 ≤ 2 ^ 24 * 2 ^ bitLen m2 := Nat.mul_le_mul_left _ (Nat.le_of_lt hn2)
        _ = 2 ^ (24 + bitLen m2) := (Nat.pow_add _ _ _).symm
        _ ≤ 2 ^ k := Nat.pow_le_pow_right (by decide) (by omega)
        _ ≤ m1 * 2 ^ k := Nat.le_mul_of_pos_left _ (Nat.pos_of_ne_zero hm1)
    have hq0 : 0 < q := Nat.lt_of_lt_of_le (by decide) hq24
    -- the exact quotient
    have hnum : (m1 : ℝ) * (2 : ℝ) ^ k = (m2 : ℝ) * q + r := by exact_mod_cast hdm.symm
    have hexact : toReal a / toReal b
        = sgn (s != t) * (((q : ℝ) + (r : ℝ) / m2) * (2 : ℝ) ^ (e1 - e2 - (k : ℤ))) := by
      rw [hra, hrb, sgn_bne]
      have e : (2 : ℝ) ^ (e1 - e2 - (k : ℤ)) = (2 : ℝ) ^ e1 / (2 : ℝ) ^ e2 / (2 : ℝ) ^ k := by
        rw [zpow_sub₀ two_ne_zero, zpow_sub₀ two_ne_zero, zpow_natCast]
      have hq' : (q : ℝ) + (r : ℝ) / m2 = (m1 : ℝ) * (2 : ℝ) ^ k / m2 := by
        rw [hnum]; field_simp
      rw [e, hq']
      have h2 : (2 : ℝ) ^ e2 ≠ 0 := ne_of_gt (two_zpow_pos e2)
      have h3 : (2 : ℝ) ^ k ≠ 0 := by positivity
      have h4 := sgn_ne_zero t
      have h5 : sgn t ^ 2 = 1 := by rw [sq]; exact sgn_mul_sgn t
      field_simp
      rw [h5, mul_one]
    have hN' : NormalRange (toReal a / toReal b) := by
      rcases hN with hz | hN
      · exfalso
        rw [hra, hrb] at hz
        have : sgn s * (m1 : ℝ) * (2 : ℝ) ^ e1 / (sgn t * (m2 : ℝ) * (2 : ℝ) ^ e2) ≠ 0 := by
          have := sgn_ne_zero s; have := sgn_ne_zero t
          have := two_zpow_pos e1; have := two_zpow_pos e2
          positivity
        exact this hz
      · exact hN
    rw [hdiv, hexact] at *
    have ht0 : (0 : ℝ) ≤ (r : ℝ) / m2 := by positivity
    have ht1 : (r : ℝ) / m2 < 1 := by
      rw [div_lt_one hm2']; exact_mod_cast hrl
    exact roundPack_real (s != t) q _ (r != 0) ((r : ℝ) / m2) hq0 ht0 ht1
      (fun h => by
        have : r = 0 := by simpa using h
        rw [this]; simp)
      (fun _ => hq24) hN'

/-- **square root** satisfies the standard model: for the non-negative `y` with `y·y = toReal a`
(zero or in the normal range) the result is `y·(1+δ)` -/
theorem sqrt_std (a : Nat) (ha : Finite a) (y : ℝ) (hy0 : 0 ≤ y) (hy : y * y = toReal a)
    (hN : NormalOrZero y) :
    Finite (F32.sqrt a) ∧ ∃ δ : ℝ, |δ| ≤ u ∧ toReal (F32.sqrt a) = y * (1 + δ) := by
  obtain ⟨s, m, e, hua⟩ := (finite_iff a).1 ha
  have hra := toReal_of_unpack hua
  by_cases hm : m = 0
  · have hsq : F32.sqrt a = packBits f32 s 0 0 := by
      unfold F32.sqrt SF.sqrt
      show (match unpack f32 a with
        | .nan => qnan f32
        | .inf s => if s then qnan f32 else infBits f32 false
        | .fin s m e => _) = _
      rw [hua]; simp [hm]
    have hu := unpack_packBits_zero s
    have hy' : y = 0 := by
      rw [hra, hm] at hy
      have : y * y = 0 := by rw [hy]; simp
      exact mul_self_eq_zero.mp this
    rw [hsq]
    refine ⟨finite_of_unpack hu, 0, by simp [u_nonneg], ?_⟩
    rw [toReal_of_unpack hu, hy']; simp
  · have hmb : (m == 0) = false := by simpa using hm
    have hm' : (0 : ℝ) < m := by exact_mod_cast Nat.pos_of_ne_zero hm
    have hE := two_zpow_pos e
    -- the radicand is positive
    have hs : s = false := by
      cases s
      · rfl
      · exfalso
        have h1 : toReal a < 0 := by
          rw [hra]; simp only [sgn, if_true]
          have := mul_pos hm' hE
          linarith
        have := mul_self_nonneg y
        linarith
    subst hs
    have hval : y * y = (m : ℝ) * (2 : ℝ) ^ e := by rw [hy, hra]; simp [sgn]
    have hp : F32.fmt.p = 24 := rfl
    -- even exponent and scaled significand
    obtain ⟨M, h, hM52, hMe, hsq⟩ : ∃ (M : Nat) (h : Int), 2 ^ 52 ≤ M ∧
        (M : ℝ) * ((2 : ℝ) ^ h * (2 : ℝ) ^ h) = (m : ℝ) * (2 : ℝ) ^ e ∧
        F32.sqrt a = roundPack f32 false (Nat.sqrt M) h (Nat.sqrt M * Nat.sqrt M != M) := by
      by_cases hpar : (e - 52) % 2 = 0
      · refine ⟨m * 2 ^ 52, (e - 52) / 2, Nat.le_mul_of_pos_left _ (Nat.pos_of_ne_zero hm), ?_, ?_⟩
        · rw [← zpow_add₀ two_ne_zero]
          have : (e - 52) / 2 + (e - 52) / 2 = e + (-52) := by omega
          rw [this, zpow_add₀ two_ne_zero]
          push_cast
          have h52 : (2 : ℝ) ^ (52 : ℕ) * (2 : ℝ) ^ (-52 : ℤ) = 1 := by norm_num
          linear_combination ((m : ℝ) * (2 : ℝ) ^ e) * h52
        · unfold F32.sqrt SF.sqrt
          show (match unpack f32 a with
            | .nan => qnan f32
            | .inf s => if s then qnan f32 else infBits f32 false
            | .fin s m e => _) = _
          rw [hua]
          have hc : ((e - ((2 * (24 + 2) : Nat) : Int)) % 2 == 0) = true := by simp; omega
          simp only [hmb, Bool.false_eq_true, if_false, hp, hc, if_true]
          rfl
      · have hpar' : (e - 52) % 2 = 1 := by omega
        refine ⟨m * 2 ^ 53, (e - 53) / 2, Nat.le_trans (by decide : 2 ^ 52 ≤ 2 ^ 53)
          (Nat.le_mul_of_pos_left _ (Nat.pos_of_ne_zero hm)), ?_, ?_⟩
        · rw [← zpow_add₀ two_ne_zero]
          have : (e - 53) / 2 + (e - 53) / 2 = e + (-53) := by omega
          rw [this, zpow_add₀ two_ne_zero]
          push_cast
          have h53 : (2 : ℝ) ^ (53 : ℕ) * (2 : ℝ) ^ (-53 : ℤ) = 1 := by norm_num
          linear_combination ((m : ℝ) * (2 : ℝ) ^ e) * h53
        · unfold F32.sqrt SF.sqrt
          show (match unpack f32 a with
            | .nan => qnan f32
            | .inf s => if s then qnan f32 else infBits f32 false
            | .fin s m e => _) = _
          rw [hua]
          have hc : ((e - ((2 * (24 + 2) : Nat) : Int)) % 2 == 0) = false := by simp; omega
          simp only [hmb, Bool.false_eq_true, if_false, hp, hc]
          have e1 : e - ((2 * (24 + 2) : Nat) : Int) - 1 = e - 53 := by omega
          rw [e1]
    -- the root digits
    have hH := two_zpow_pos h
    have hr1 := Nat.sqrt_le M
    have hr2 : M < (Nat.sqrt M + 1) * (Nat.sqrt M + 1) := Nat.lt_succ_sqrt M
    have hr26 : 2 ^ 26 ≤ Nat.sqrt M := Nat.le_sqrt.mpr (Nat.le_trans (by decide) hM52)
    generalize Nat.sqrt M = r at *
    have hr0 : 0 < r := Nat.lt_of_lt_of_le (by decide) hr26
    -- `z = y / 2^h` is the exact root of `M`
    have hz2 : (y / (2 : ℝ) ^ h) * (y / (2 : ℝ) ^ h) = (M : ℝ) := by
      have : (2 : ℝ) ^ h * (2 : ℝ) ^ h ≠ 0 := by positivity
      rw [div_mul_div_comm, hval, ← hMe, mul_div_assoc, div_self this, mul_one]
    have hz0 : 0 ≤ y / (2 : ℝ) ^ h := div_nonneg hy0 (le_of_lt hH)
    generalize hz : y / (2 : ℝ) ^ h = z at *
    have hyz : y = z * (2 : ℝ) ^ h := by
      rw [← hz]; field_simp
    have c1 : (r : ℝ) * r ≤ M := by exact_mod_cast hr1
    have c2 : (M : ℝ) < ((r : ℝ) + 1) * ((r : ℝ) + 1) := by exact_mod_cast hr2
    have hr' : (0 : ℝ) ≤ r := Nat.cast_nonneg r
    have hzr : (r : ℝ) ≤ z := by
      by_contra hcon
      have : z < r := not_le.mp hcon
      nlinarith
    have hzr1 : z < (r : ℝ) + 1 := by
      by_contra hcon
      have : (r : ℝ) + 1 ≤ z := not_lt.mp hcon
      nlinarith
    have hy_ne : y ≠ 0 := by
      intro h0
      rw [h0] at hval
      have := mul_pos hm' hE
      linarith
    have hN' : NormalRange y := by
      rcases hN with h0 | hN
      · exact absurd h0 hy_ne
      · exact hN
    have hexact : y = sgn false * (((r : ℝ) + (z - r)) * (2 : ℝ) ^ h) := by
      rw [hyz]; simp [sgn]
    have hN'' : NormalRange (sgn false * (((r : ℝ) + (z - r)) * (2 : ℝ) ^ h)) := by
      rw [← hexact]; exact hN'
    rw [hsq]
    have R := roundPack_real false r h (r * r != M) (z - r) hr0 (by linarith) (by linarith)
      (fun hst => by
        have : r * r = M := by simpa using hst
        have hc : (r : ℝ) * r = M := by exact_mod_cast this
        have : z * z = (r : ℝ) * r := by rw [hz2, hc]
        have : z = r := by nlinarith
        linarith)
      (fun _ => Nat.le_trans (by decide) hr26) hN''
    rw [← hexact] at R
    exact R

end SFR
end Arroy
