import ArroyProofs.UpgradeLemmas
import ArroyProofs.WriterLaws
/-! Definitions and helper lemmas for C17: the decidable predicate `WellFormedDB` on current-layout databases,
the writes of `up04to05 ∘ down` against the original, `stamp05to06` as a list of writes. -/
namespace Arroy.C17
open Arroy Generated Store Upgrade

/-! ## well-formed current-layout databases (a decidable predicate) -/

/-- a child of a split node is a tree node or an item -/
def childOk (n : NodeId) : Bool := n.mode == modeTree || n.mode == modeItem

/-- the value under a key has the shape its kind prescribes -/
def entryOk (kv : Key × Val) : Bool :=
  decide kv.1.wf &&
  (if kv.1.mode = modeItem then
    (match kv.2 with | .leaf _ _ => true | _ => false)
  else if kv.1.mode = modeTree then
    (match kv.2 with | .desc _ => true | .split l r _ => childOk l && childOk r | _ => false)
  else if kv.1.mode = modeUpdated then
    (match kv.2 with | .unit => true | _ => false)
  else if kv.1.mode = metadataKeyMode then
    (if kv.1.item = metadataKeyItem then
      (match kv.2 with | .metadata nm _ _ _ => nm == cosineName | _ => false)
    else if kv.1.item = versionKeyItem then
      (match kv.2 with | .version _ _ _ => true | _ => false)
    else false)
  else false)

def wellFormedDB (s : Store) : Bool := sortedB s && s.all entryOk

/-- sorted by key; keys fit their fields and have one of the four kinds; metadata-kind keys are the metadata
    record (id 0) or the version record (id 1); item keys hold leaves, tree keys hold descendants or split nodes
    whose children are tree nodes or items, updated keys hold the unit value, the metadata record is a cosine
    metadata, the version record a version -/
def WellFormedDB (s : Store) : Prop := wellFormedDB s = true

instance (s : Store) : Decidable (WellFormedDB s) := by unfold WellFormedDB; infer_instance

theorem WellFormedDB.sorted {s : Store} (h : WellFormedDB s) : Sorted s := by
  unfold WellFormedDB wellFormedDB at h
  rw [Bool.and_eq_true] at h
  exact (sortedB_iff s).1 h.1

theorem WellFormedDB.entry {s : Store} (h : WellFormedDB s) {kv : Key × Val} (hm : kv ∈ s) : entryOk kv = true := by
  unfold WellFormedDB wellFormedDB at h
  rw [Bool.and_eq_true, List.all_eq_true] at h
  exact h.2 kv hm

theorem WellFormedDB.wf {s : Store} (h : WellFormedDB s) : Store.WF s := by
  intro kv hm
  have := h.entry hm
  unfold entryOk at this
  rw [Bool.and_eq_true] at this
  exact of_decide_eq_true this.1

theorem WellFormedDB.get {s : Store} (h : WellFormedDB s) {k : Key} {v : Val} (hg : Store.get s k = some v) :
    entryOk (k, v) = true := h.entry (mem_of_get hg)

/-- the kind of every key is one of the four -/
theorem entryOk_mode {k : Key} {v : Val} (h : entryOk (k, v) = true) :
    k.mode = modeItem ∨ k.mode = modeTree ∨ k.mode = modeUpdated ∨ k.mode = metadataKeyMode := by
  unfold entryOk at h
  rw [Bool.and_eq_true] at h
  have h := h.2
  simp only at h
  split at h
  · rename_i e; exact Or.inl e
  · split at h
    · rename_i e; exact Or.inr (Or.inl e)
    · split at h
      · rename_i e; exact Or.inr (Or.inr (Or.inl e))
      · split at h
        · rename_i e; exact Or.inr (Or.inr (Or.inr e))
        · cases h

theorem entryOk_item {k : Key} {v : Val} (h : entryOk (k, v) = true) (hm : k.mode = modeItem) :
    ∃ hdr vec, v = .leaf hdr vec := by
  unfold entryOk at h
  rw [Bool.and_eq_true] at h
  have h := h.2
  simp only at h
  rw [if_pos hm] at h
  cases v <;> first | exact ⟨_, _, rfl⟩ | cases h

theorem remap_unmap_child {n : NodeId} (h : childOk n = true) :
    (remapMode ((unmapMode n.mode).getD n.mode)).getD ((unmapMode n.mode).getD n.mode) = n.mode ∧
    (remapMode ((unmapMode n.mode).getD n.mode)).isSome = true := by
  unfold childOk at h
  rw [Bool.or_eq_true, beq_iff_eq, beq_iff_eq] at h
  rcases h with h | h <;> rw [h] <;> decide

theorem entryOk_tree {k : Key} {v : Val} (h : entryOk (k, v) = true) (hm : k.mode = modeTree) :
    upVal (downVal v) = v ∧
    ∀ l r n, downVal v = .split l r n → (remapMode l.mode).isSome = true ∧ (remapMode r.mode).isSome = true := by
  unfold entryOk at h
  rw [Bool.and_eq_true] at h
  have h := h.2
  simp only at h
  rw [if_neg (by rw [hm]; decide), if_pos hm] at h
  cases v with
  | split l r n =>
    simp only [Bool.and_eq_true] at h
    have hl := remap_unmap_child h.1
    have hr := remap_unmap_child h.2
    constructor
    · simp only [downVal, upVal, hl.1, hr.1]
    · intro l' r' n' e
      simp only [downVal, Val.split.injEq] at e
      rw [← e.1, ← e.2.1]
      exact ⟨hl.2, hr.2⟩
  | desc ids => exact ⟨rfl, fun l r n e => by cases e⟩
  | _ => cases h

theorem entryOk_updated {k : Key} {v : Val} (h : entryOk (k, v) = true) (hm : k.mode = modeUpdated) :
    v = .unit := by
  unfold entryOk at h
  rw [Bool.and_eq_true] at h
  have h := h.2
  simp only at h
  rw [if_neg (by rw [hm]; decide), if_neg (by rw [hm]; decide), if_pos hm] at h
  cases v <;> first | rfl | cases h

theorem entryOk_meta {k : Key} {v : Val} (h : entryOk (k, v) = true) (hm : k.mode = metadataKeyMode) :
    (k.item = metadataKeyItem ∧ ∃ d i r, v = .metadata cosineName d i r) ∨
    (k.item = versionKeyItem ∧ ∃ a b c, v = .version a b c) := by
  unfold entryOk at h
  rw [Bool.and_eq_true] at h
  have h := h.2
  simp only at h
  rw [if_neg (by rw [hm]; decide), if_neg (by rw [hm]; decide), if_neg (by rw [hm]; decide), if_pos hm] at h
  split at h
  · rename_i e
    left
    refine ⟨e, ?_⟩
    cases v with
    | metadata nm d i r =>
      simp only [beq_iff_eq] at h
      exact ⟨d, i, r, by rw [h]⟩
    | _ => cases h
  · split at h
    · rename_i e
      right
      refine ⟨e, ?_⟩
      cases v <;> first | exact ⟨_, _, _, rfl⟩ | cases h
    · cases h

/-- `entryOk` in words -/
def EntrySpec (k : Key) (v : Val) : Prop :=
  k.wf ∧
  ((k.mode = modeItem ∧ ∃ hdr vec, v = .leaf hdr vec) ∨
   (k.mode = modeTree ∧ ((∃ ids, v = .desc ids) ∨
      ∃ l r n, v = .split l r n ∧ (l.mode = modeTree ∨ l.mode = modeItem) ∧ (r.mode = modeTree ∨ r.mode = modeItem))) ∨
   (k.mode = modeUpdated ∧ v = .unit) ∨
   (k = Key.mkMetadata k.index ∧ ∃ dims items roots, v = .metadata cosineName dims items roots) ∨
   (k = Key.mkVersion k.index ∧ ∃ a b c, v = .version a b c))

theorem childOk_iff (n : NodeId) : childOk n = true ↔ (n.mode = modeTree ∨ n.mode = modeItem) := by
  unfold childOk; rw [Bool.or_eq_true, beq_iff_eq, beq_iff_eq]

theorem entryOk_iff (k : Key) (v : Val) : entryOk (k, v) = true ↔ EntrySpec k v := by
  unfold EntrySpec
  constructor
  · intro h
    have hwf : k.wf := by
      unfold entryOk at h
      rw [Bool.and_eq_true] at h
      exact of_decide_eq_true h.1
    refine ⟨hwf, ?_⟩
    rcases entryOk_mode h with hm | hm | hm | hm
    · exact Or.inl ⟨hm, entryOk_item h hm⟩
    · refine Or.inr (Or.inl ⟨hm, ?_⟩)
      unfold entryOk at h
      rw [Bool.and_eq_true] at h
      have h := h.2
      simp only at h
      rw [if_neg (by rw [hm]; decide), if_pos hm] at h
      cases v with
      | desc ids => exact Or.inl ⟨ids, rfl⟩
      | split l r n =>
        rw [Bool.and_eq_true, childOk_iff, childOk_iff] at h
        exact Or.inr ⟨l, r, n, rfl, h.1, h.2⟩
      | _ => cases h
    · exact Or.inr (Or.inr (Or.inl ⟨hm, entryOk_updated h hm⟩))
    · rcases entryOk_meta h hm with ⟨h0, hv⟩ | ⟨h1, hv⟩
      · exact Or.inr (Or.inr (Or.inr (Or.inl ⟨Key.eq_of_fields rfl hm h0, hv⟩)))
      · exact Or.inr (Or.inr (Or.inr (Or.inr ⟨Key.eq_of_fields rfl hm h1, hv⟩)))
  · rintro ⟨hwf, h⟩
    unfold entryOk
    rw [Bool.and_eq_true]
    refine ⟨decide_eq_true hwf, ?_⟩
    simp only
    rcases h with ⟨hm, hd, vec, rfl⟩ | ⟨hm, hv⟩ | ⟨hm, rfl⟩ | ⟨hk, d, i, r, rfl⟩ | ⟨hk, a, b, c, rfl⟩
    · rw [if_pos hm]
    · rw [if_neg (by rw [hm]; decide), if_pos hm]
      rcases hv with ⟨ids, rfl⟩ | ⟨l, r, n, rfl, hl, hr⟩
      · rfl
      · simp only [Bool.and_eq_true, childOk_iff]
        exact ⟨hl, hr⟩
    · rw [if_neg (by rw [hm]; decide), if_neg (by rw [hm]; decide), if_pos hm]
    · have hm : k.mode = metadataKeyMode := congrArg Key.mode hk
      have h0 : k.item = metadataKeyItem := congrArg Key.item hk
      rw [if_neg (by rw [hm]; decide), if_neg (by rw [hm]; decide), if_neg (by rw [hm]; decide), if_pos hm,
        if_pos h0]
      simp
    · have hm : k.mode = versionKeyMode := congrArg Key.mode hk
      have h1 : k.item = versionKeyItem := congrArg Key.item hk
      have hm' : k.mode = metadataKeyMode := hm
      rw [if_neg (by rw [hm]; decide), if_neg (by rw [hm]; decide), if_neg (by rw [hm]; decide), if_pos hm',
        if_neg (by rw [h1]; decide), if_pos h1]

theorem wellFormedDB_iff (s : Store) :
    WellFormedDB s ↔ Sorted s ∧ ∀ kv ∈ s, EntrySpec kv.1 kv.2 := by
  unfold WellFormedDB wellFormedDB
  rw [Bool.and_eq_true, sortedB_iff, List.all_eq_true]
  constructor
  · rintro ⟨h1, h2⟩
    exact ⟨h1, fun kv hkv => (entryOk_iff kv.1 kv.2).1 (h2 kv hkv)⟩
  · rintro ⟨h1, h2⟩
    exact ⟨h1, fun kv hkv => (entryOk_iff kv.1 kv.2).2 (h2 kv hkv)⟩

/-! ## up ∘ down -/

/-- the predicate selecting everything but the version records -/
def notVersion (k : Key) : Bool := !(k.mode == versionKeyMode && k.item == versionKeyItem)

/-- every write of the upgrade of `down s` is an entry of `s` that is not a version record -/
theorem of_mem_writes (oldName : Bytes) {s : Store} (hw : WellFormedDB s) {k : Key} {v : Val}
    (h : (k, v) ∈ (down oldName s).flatMap upWrites) : notVersion k = true ∧ Store.get s k = some v := by
  obtain ⟨⟨k', v'⟩, hmem, hwr⟩ := List.mem_flatMap.1 h
  rcases (mem_down_iff oldName hw.sorted k' v').1 hmem with
    ⟨h1, hg⟩ | ⟨h1, v0, hg, hv⟩ | ⟨h1, h0, nm, d, i, r, hg, hv⟩ | ⟨h1, h0, hm, hv⟩
  · rw [upWrites_item v' h1, List.mem_singleton, Prod.mk.injEq] at hwr
    rw [hwr.1, hwr.2]
    exact ⟨rfl, hg⟩
  · rw [upWrites_tree v' h1, List.mem_singleton, Prod.mk.injEq] at hwr
    rw [hwr.1, hwr.2, hv, (entryOk_tree (hw.get hg) rfl).1]
    exact ⟨rfl, hg⟩
  · subst hv
    rw [upWrites_meta _ _ _ _ h1 h0, List.mem_singleton, Prod.mk.injEq] at hwr
    rw [hwr.1, hwr.2]
    refine ⟨rfl, ?_⟩
    rcases entryOk_meta (hw.get hg) rfl with ⟨_, d', i', r', e⟩ | ⟨e, _⟩
    · rw [e] at hg
      cases e
      exact hg
    · exact absurd e (show ¬ metadataKeyItem = versionKeyItem by decide)
  · subst hv
    rw [upWrites_bitmap _ h1 h0] at hwr
    obtain ⟨id, hid, he⟩ := List.mem_map.1 hwr
    rw [Prod.mk.injEq] at he
    rw [← he.1, ← he.2]
    refine ⟨rfl, ?_⟩
    rw [mem_insertAll] at hid
    rcases hid with hid | hid
    · obtain ⟨v0, hv0⟩ := mem_marks_iff.1 hid
      have hg := (get_eq_some_iff hw.sorted _ _).2 hv0
      rw [hg, entryOk_updated (hw.get hg) rfl]
    · cases hid

/-- every entry of `s` that is not a version record is written by the upgrade of `down s` -/
theorem mem_writes_of (oldName : Bytes) {s : Store} (hw : WellFormedDB s) {k : Key} {v : Val}
    (hn : notVersion k = true) (hg : Store.get s k = some v) : (k, v) ∈ (down oldName s).flatMap upWrites := by
  rw [List.mem_flatMap]
  have he := hw.get hg
  rcases entryOk_mode he with hm | hm | hm | hm
  · have hk : k = ⟨k.index, modeItem, k.item⟩ := Key.eq_of_fields rfl hm rfl
    refine ⟨(⟨k.index, oldModeItem, k.item⟩, v), (mem_down_iff oldName hw.sorted _ _).2 (Or.inl ⟨rfl, ?_⟩), ?_⟩
    · rw [← hk]; exact hg
    · rw [upWrites_item v rfl, ← hk]; exact List.mem_singleton.2 rfl
  · have hk : k = ⟨k.index, modeTree, k.item⟩ := Key.eq_of_fields rfl hm rfl
    refine ⟨(⟨k.index, oldModeTree, k.item⟩, downVal v),
      (mem_down_iff oldName hw.sorted _ _).2 (Or.inr (Or.inl ⟨rfl, v, ?_, rfl⟩)), ?_⟩
    · rw [← hk]; exact hg
    · rw [upWrites_tree _ rfl, (entryOk_tree he hm).1, ← hk]; exact List.mem_singleton.2 rfl
  · have hk : k = ⟨k.index, modeUpdated, k.item⟩ := Key.eq_of_fields rfl hm rfl
    have hv : v = .unit := entryOk_updated he hm
    have hmk : k.item ∈ marks k.index s := mem_marks_iff.2 ⟨v, by rw [← hk]; exact mem_of_get hg⟩
    have hne : marks k.index s ≠ [] := fun e => by rw [e] at hmk; cases hmk
    refine ⟨(⟨k.index, oldModeMetadata, 1⟩, .desc (insertAll (marks k.index s) [])),
      (mem_down_iff oldName hw.sorted _ _).2 (Or.inr (Or.inr (Or.inr ⟨rfl, rfl, hne, rfl⟩))), ?_⟩
    rw [upWrites_bitmap _ rfl rfl, List.mem_map]
    exact ⟨k.item, mem_insertAll.2 (Or.inl hmk), by rw [hv, ← hk]⟩
  · rcases entryOk_meta he hm with ⟨h0, d, i, r, hv⟩ | ⟨h1, _⟩
    · have hk : k = ⟨k.index, metadataKeyMode, metadataKeyItem⟩ := Key.eq_of_fields rfl hm h0
      subst hv
      refine ⟨(⟨k.index, oldModeMetadata, 0⟩, .metadata oldName d i r),
        (mem_down_iff oldName hw.sorted _ _).2 (Or.inr (Or.inr (Or.inl ⟨rfl, rfl, cosineName, d, i, r, ?_, rfl⟩))), ?_⟩
      · rw [← hk]; exact hg
      · rw [upWrites_meta _ _ _ _ rfl rfl, List.mem_singleton]
        exact congrArg (fun x => (x, Val.metadata cosineName d i r)) hk
    · exfalso
      have hm' : k.mode = versionKeyMode := hm
      unfold notVersion at hn
      rw [hm', h1] at hn
      revert hn; decide

theorem functional_writes (oldName : Bytes) {s : Store} (hw : WellFormedDB s) :
    Functional ((down oldName s).flatMap upWrites) := by
  intro a ha b hb hab
  obtain ⟨ka, va⟩ := a
  obtain ⟨kb, vb⟩ := b
  simp only at hab
  subst hab
  have h1 := (of_mem_writes oldName hw ha).2
  have h2 := (of_mem_writes oldName hw hb).2
  rw [h1] at h2
  exact Option.some.inj h2

/-- every entry of `down s` is accepted by the upgrade -/
theorem down_good (oldName : Bytes) {s : Store} (hw : WellFormedDB s) : ∀ kv ∈ down oldName s, UpGood kv := by
  intro ⟨k', v'⟩ hmem
  rcases (mem_down_iff oldName hw.sorted k' v').1 hmem with
    ⟨h1, _⟩ | ⟨h1, v0, hg, hv⟩ | ⟨h1, h0, nm, d, i, r, _, hv⟩ | ⟨h1, h0, _, _⟩
  · exact Or.inl h1
  · refine Or.inr (Or.inl ⟨h1, ?_⟩)
    intro l r n e
    simp only at e
    rw [hv] at e
    exact (entryOk_tree (hw.get hg) rfl).2 l r n e
  · exact Or.inr (Or.inr (Or.inl ⟨h1, h0, oldName, d, i, r, hv⟩))
  · exact Or.inr (Or.inr (Or.inr ⟨h1, h0⟩))

/-- the upgraded database, explicitly -/
def upgraded (oldName : Bytes) (s : Store) : Store := putAll [] ((down oldName s).flatMap upWrites)

theorem up_down_ok (oldName : Bytes) {s : Store} (hw : WellFormedDB s) :
    up04to05 (down oldName s) = .ok (upgraded oldName s) := up04to05_good _ (down_good oldName hw)

theorem get_upgraded (oldName : Bytes) {s : Store} (hw : WellFormedDB s) (k : Key) :
    Store.get (upgraded oldName s) k = if notVersion k = true then Store.get s k else none := by
  apply Option.ext
  intro v
  unfold upgraded
  rw [get_putAll_nil (functional_writes oldName hw)]
  constructor
  · intro h
    have := of_mem_writes oldName hw h
    rw [if_pos this.1]; exact this.2
  · intro h
    by_cases hn : notVersion k = true
    · rw [if_pos hn] at h; exact mem_writes_of oldName hw hn h
    · rw [if_neg hn] at h; cases h

/-! ## the version stamp as a list of writes -/

def stampWrites (kv : Key × Val) : List (Key × Val) :=
  if kv.1.mode = metadataKeyMode ∧ kv.1.item = metadataKeyItem then
    [(Key.mkVersion kv.1.index, .version crateVersion.1 crateVersion.2.1 crateVersion.2.2)]
  else []

theorem stamp_eq (read write : Store) : stamp05to06 read write = putAll write (read.flatMap stampWrites) := by
  unfold stamp05to06
  rw [← foldl_putAll]
  congr 1
  funext w kv
  unfold stampWrites
  split <;> rfl

theorem mem_stampWrites {read : Store} {w : Key × Val} (h : w ∈ read.flatMap stampWrites) :
    ∃ v, (Key.mkMetadata w.1.index, v) ∈ read ∧
      w = (Key.mkVersion w.1.index, .version crateVersion.1 crateVersion.2.1 crateVersion.2.2) := by
  obtain ⟨⟨k, v⟩, hkv, hw⟩ := List.mem_flatMap.1 h
  unfold stampWrites at hw
  split at hw
  · rename_i hc
    simp only at hc
    rw [List.mem_singleton] at hw
    subst hw
    refine ⟨v, ?_, rfl⟩
    have : k = Key.mkMetadata k.index := Key.eq_of_fields rfl hc.1 hc.2
    show (Key.mkMetadata k.index, v) ∈ read
    rw [← this]; exact hkv
  · cases hw

end Arroy.C17
