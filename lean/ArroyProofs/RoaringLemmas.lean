import ArroyProofs.KeyLemmas
import ArroyProofs.SetLemmas
import ArroyModel.Roaring
/-! Helper lemmas for C16 (codec half): `chunks` of fixed-width encodings, the structure of
`Roaring.containers`, the bitmap-container words (`bitmapWords` / `wordBits`), the container decoder,
sizes and offsets of the portable roaring serialisation. -/
namespace Arroy
namespace Roaring
open IdSet

/-! ## `chunks` of a concatenation of fixed-width blocks -/

theorem chunks_nil' {α : Type} (k : Nat) : chunks k ([] : List α) = [] := by
  rw [chunks]; simp

theorem chunks_cons' {α : Type} {k : Nat} (hk : 0 < k) {l : List α} (hl : l ≠ []) :
    chunks k l = l.take k :: chunks k (l.drop k) := by
  rw [chunks]
  have : ¬ (k = 0 ∨ l = []) := by
    intro h; cases h with
    | inl h => omega
    | inr h => exact hl h
  simp [this]

theorem take_append_len {α} (a b : List α) (n : Nat) (h : a.length = n) : (a ++ b).take n = a := by
  subst h; simp

theorem drop_append_len {α} (a b : List α) (n : Nat) (h : a.length = n) : (a ++ b).drop n = b := by
  subst h; simp

theorem length_flatMap_const {α β : Type} (f : α → List β) (w : Nat) (l : List α)
    (h : ∀ x ∈ l, (f x).length = w) : (l.flatMap f).length = w * l.length := by
  induction l with
  | nil => simp
  | cons x xs ih =>
    simp only [List.flatMap_cons, List.length_append, List.length_cons]
    rw [ih (fun y hy => h y (by simp [hy])), h x (by simp), Nat.mul_succ]; omega

theorem chunks_flatMap_eq {α β : Type} (f : α → List β) {w : Nat} (hw : 0 < w) (l : List α)
    (h : ∀ x ∈ l, (f x).length = w) : chunks w (l.flatMap f) = l.map f := by
  induction l with
  | nil => simp [chunks_nil']
  | cons x xs ih =>
    have hx : (f x).length = w := h x (by simp)
    have hne : f x ++ xs.flatMap f ≠ [] := by
      intro e
      have := congrArg List.length e
      simp only [List.length_append, List.length_nil] at this; omega
    simp only [List.flatMap_cons, List.map_cons]
    rw [chunks_cons' hw hne, take_append_len _ _ _ hx, drop_append_len _ _ _ hx,
      ih (fun y hy => h y (by simp [hy]))]

theorem length_flatMap_le (w : Nat) (l : List Nat) : (l.flatMap (le w)).length = w * l.length :=
  length_flatMap_const _ w l (fun x _ => le_length w x)

theorem chunks_flatMap_le {w : Nat} (hw : 0 < w) (l : List Nat) :
    chunks w (l.flatMap (le w)) = l.map (le w) :=
  chunks_flatMap_eq _ hw l (fun x _ => le_length w x)

theorem map_ofLe_le (w : Nat) (l : List Nat) (h : ∀ x ∈ l, x < 256 ^ w) :
    (l.map (le w)).map ofLe = l := by
  induction l with
  | nil => rfl
  | cons x xs ih =>
    simp only [List.map_cons]
    rw [ofLe_le w x (h x (by simp)), ih (fun y hy => h y (by simp [hy]))]

/-- decoding a concatenation of `w`-byte little-endian words gives the words back -/
theorem ofLe_chunks_flatMap_le {w : Nat} (hw : 0 < w) (l : List Nat) (h : ∀ x ∈ l, x < 256 ^ w) :
    (chunks w (l.flatMap (le w))).map ofLe = l := by
  rw [chunks_flatMap_le hw, map_ofLe_le w l h]

/-! ## strictly increasing bounded lists are short -/

theorem sorted_length_le_aux (l : List Nat) (n : Nat) :
    ∀ lo, Sorted l → (∀ x ∈ l, lo ≤ x ∧ x < n) → l.length + lo ≤ max n lo := by
  induction l with
  | nil => intro lo _ _; simp; omega
  | cons a l ih =>
    intro lo hs hb
    have h1 := hs.head_lt
    have h2 := ih (a + 1) hs.tail (fun x hx => ⟨h1 x hx, (hb x (by simp [hx])).2⟩)
    have h3 := hb a (by simp)
    simp only [List.length_cons]
    omega

theorem sorted_length_le {l : List Nat} {n : Nat} (hs : Sorted l) (hb : ∀ x ∈ l, x < n) :
    l.length ≤ n := by
  have := sorted_length_le_aux l n 0 hs (fun x hx => ⟨Nat.zero_le _, hb x hx⟩)
  omega

/-! ## the structure of `containers` -/

/-- the ids a container list stands for -/
def unflat (cs : List (Nat × List Nat)) : List Nat :=
  cs.flatMap fun c => c.2.map fun v => c.1 * 65536 + v

/-- a well-formed container: 16-bit key, strictly increasing non-empty 16-bit lows -/
structure CWF (c : Nat × List Nat) : Prop where
  key_lt : c.1 < 65536
  sorted : Sorted c.2
  low_lt : ∀ v ∈ c.2, v < 65536
  ne : c.2 ≠ []

theorem containers_cons_nil (x : Nat) {xs : List Nat} (h : containers xs = []) :
    containers (x :: xs) = [(x / 65536, [x % 65536])] := by
  simp only [containers, h]

theorem containers_cons_cons (x : Nat) {xs : List Nat} {k : Nat} {lows : List Nat}
    {rest : List (Nat × List Nat)} (h : containers xs = (k, lows) :: rest) :
    containers (x :: xs) =
      if x / 65536 = k then (k, x % 65536 :: lows) :: rest
      else (x / 65536, [x % 65536]) :: (k, lows) :: rest := by
  simp only [containers, h]

/-- the first container starts with the first id -/
theorem containers_head (x : Nat) (xs : List Nat) :
    ∃ l rest, containers (x :: xs) = (x / 65536, x % 65536 :: l) :: rest := by
  match heq : containers xs with
  | [] => rw [containers_cons_nil x heq]; simp
  | (k, lows) :: rest =>
    rw [containers_cons_cons x heq]
    by_cases h : x / 65536 = k
    · subst h; simp
    · simp [h]

/-- flattening the containers gives the ids back (for every list) -/
theorem unflat_containers : ∀ s : List Nat, unflat (containers s) = s
  | [] => rfl
  | x :: xs => by
    have ih := unflat_containers xs
    have hx : x / 65536 * 65536 + x % 65536 = x := by omega
    match heq : containers xs with
    | (k, lows) :: rest =>
      rw [containers_cons_cons x heq]
      rw [heq] at ih
      by_cases h : x / 65536 = k
      · subst h
        simp only [if_true]
        simp only [unflat, List.flatMap_cons, List.map_cons, List.cons_append] at ih ⊢
        rw [hx, ih]
      · simp only [h, if_false]
        simp only [unflat, List.flatMap_cons, List.map_cons, List.cons_append, List.map_nil,
          List.nil_append] at ih ⊢
        rw [hx, ih]
    | [] =>
      rw [containers_cons_nil x heq]
      rw [heq] at ih
      simp only [unflat, List.flatMap_nil] at ih
      subst ih
      simp [unflat, hx]

theorem containers_wf : ∀ s : List Nat, Sorted s → (∀ x ∈ s, x < 2 ^ 32) →
    (∀ c ∈ containers s, CWF c) ∧ Sorted ((containers s).map (·.1))
  | [], _, _ => by simp [containers, Sorted]
  | [x], _, hb => by
    have hx : x < 2 ^ 32 := hb x (by simp)
    have : containers [x] = [(x / 65536, [x % 65536])] := by simp [containers]
    rw [this]
    refine ⟨?_, by simp [Sorted]⟩
    intro c hc
    simp only [List.mem_singleton] at hc
    subst hc
    exact ⟨by simp only; omega, by simp [Sorted], by simp; omega, by simp⟩
  | x :: y :: ys, hs, hb => by
    have hx : x < 2 ^ 32 := hb x (by simp)
    have hxy : x < y := hs.1
    obtain ⟨ihw, ihk⟩ := containers_wf (y :: ys) hs.2 (fun z hz => hb z (by simp [hz]))
    obtain ⟨l, rest, heq⟩ := containers_head y ys
    rw [containers_cons_cons x heq]
    rw [heq] at ihw ihk
    have hc0 : CWF (y / 65536, y % 65536 :: l) := ihw _ (by simp)
    by_cases h : x / 65536 = y / 65536
    · simp only [h, if_true]
      refine ⟨?_, by simpa using ihk⟩
      intro c hc
      rcases List.mem_cons.1 hc with rfl | hc
      · refine ⟨hc0.key_lt, ?_, ?_, by simp⟩
        · exact ⟨by omega, hc0.sorted⟩
        · intro v hv
          rcases List.mem_cons.1 hv with rfl | hv
          · omega
          · exact hc0.low_lt v hv
      · exact ihw c (by simp [hc])
    · simp only [h, if_false]
      refine ⟨?_, ?_⟩
      · intro c hc
        rcases List.mem_cons.1 hc with rfl | hc
        · exact ⟨by simp only; omega, by simp [Sorted], by simp; omega, by simp⟩
        · exact ihw c hc
      · simp only [List.map_cons] at ihk ⊢
        exact ⟨by omega, ihk⟩

theorem containers_length_le (s : List Nat) (hs : Sorted s) (hb : ∀ x ∈ s, x < 2 ^ 32) :
    (containers s).length ≤ 65536 := by
  obtain ⟨hw, hk⟩ := containers_wf s hs hb
  have := sorted_length_le hk (n := 65536) (by
    intro k hk'
    obtain ⟨c, hc, rfl⟩ := List.mem_map.1 hk'
    exact (hw c hc).key_lt)
  simpa using this

theorem CWF.length_le {c : Nat × List Nat} (h : CWF c) : c.2.length ≤ 65536 :=
  sorted_length_le h.sorted h.low_lt

theorem CWF.length_pos {c : Nat × List Nat} (h : CWF c) : 0 < c.2.length :=
  List.length_pos_iff.2 h.ne

/-! ## sums of distinct powers of two -/

theorem testBit_add_two_pow {acc e : Nat} (h : acc < 2 ^ e) (b : Nat) :
    (acc + 2 ^ e).testBit b = (acc.testBit b || decide (b = e)) := by
  rw [Nat.add_comm]
  rcases Nat.lt_trichotomy b e with hb | hb | hb
  · rw [Nat.testBit_two_pow_add_gt hb]
    have : b ≠ e := by omega
    simp [this]
  · subst hb
    rw [Nat.testBit_two_pow_add_eq, Nat.testBit_lt_two_pow h]; simp
  · have h1 : 2 ^ e + acc < 2 ^ b := by
      have : 2 ^ (e + 1) ≤ 2 ^ b := Nat.pow_le_pow_right (by decide) hb
      rw [Nat.pow_succ] at this; omega
    have h2 : acc < 2 ^ b := by omega
    have : b ≠ e := by omega
    rw [Nat.testBit_lt_two_pow h1, Nat.testBit_lt_two_pow h2]; simp [this]

theorem foldl_pow_bits (L : List Nat) :
    ∀ (m acc : Nat), L.Pairwise (· < ·) → acc < 2 ^ m → (∀ e ∈ L, m ≤ e) →
      (∀ b, (L.foldl (fun a e => a + 2 ^ e) acc).testBit b = (acc.testBit b || decide (b ∈ L))) ∧
      (∀ n, m ≤ n → (∀ e ∈ L, e < n) → L.foldl (fun a e => a + 2 ^ e) acc < 2 ^ n) := by
  induction L with
  | nil => 
    intro m acc _ hacc _
    refine ⟨by simp, ?_⟩
    intro n hn _
    exact Nat.lt_of_lt_of_le hacc (Nat.pow_le_pow_right (by decide) hn)
  | cons e L ih =>
    intro m acc hp hacc hm
    have hme : m ≤ e := hm e (by simp)
    have hacc' : acc < 2 ^ e := Nat.lt_of_lt_of_le hacc (Nat.pow_le_pow_right (by decide) hme)
    have hnew : acc + 2 ^ e < 2 ^ (e + 1) := by rw [Nat.pow_succ]; omega
    rw [List.pairwise_cons] at hp
    obtain ⟨ih1, ih2⟩ := ih (e + 1) (acc + 2 ^ e) hp.2 hnew (fun x hx => hp.1 x hx)
    simp only [List.foldl_cons]
    refine ⟨?_, ?_⟩
    · intro b
      rw [ih1 b, testBit_add_two_pow hacc' b]
      simp [Bool.or_assoc]
    · intro n hn hb
      exact ih2 n (hb e (by simp)) (fun x hx => hb x (by simp [hx]))

/-! ## bitmap containers -/

/-- the 64-bit word of block `w` of a bitmap container -/
def word (lows : List Nat) (w : Nat) : Nat :=
  (lows.filter (fun v => v / 64 = w)).foldl (fun acc v => acc + 2 ^ (v % 64)) 0

theorem bitmapWords_eq (lows : List Nat) : bitmapWords lows = (List.range 1024).map (word lows) := rfl

theorem word_spec (lows : List Nat) (hs : Sorted lows) (w : Nat) :
    (∀ b, b < 64 → (word lows w / 2 ^ b % 2 = 1 ↔ w * 64 + b ∈ lows)) ∧ word lows w < 2 ^ 64 := by
  have hw : word lows w =
      ((lows.filter (fun v => v / 64 = w)).map (· % 64)).foldl (fun a e => a + 2 ^ e) 0 := by
    rw [List.foldl_map]; rfl
  have hp : ((lows.filter (fun v => v / 64 = w)).map (· % 64)).Pairwise (· < ·) := by
    rw [List.pairwise_map]
    have h1 : (lows.filter (fun v => v / 64 = w)).Pairwise (· < ·) :=
      (sorted_iff_pairwise.1 hs).sublist List.filter_sublist
    refine h1.imp_of_mem ?_
    intro a b ha hb hab
    simp only [List.mem_filter, decide_eq_true_eq] at ha hb
    omega
  obtain ⟨h1, h2⟩ := foldl_pow_bits _ 0 0 hp (by simp) (by simp)
  rw [hw]
  refine ⟨?_, ?_⟩
  · intro b hb
    have := h1 b
    rw [Nat.testBit_eq_decide_div_mod_eq] at this
    simp only [Nat.zero_testBit, Bool.false_or, decide_eq_decide] at this
    rw [this]
    simp only [List.mem_map, List.mem_filter, decide_eq_true_eq]
    constructor
    · rintro ⟨v, ⟨hv, hvw⟩, hvb⟩
      have : v = w * 64 + b := by omega
      rw [← this]; exact hv
    · intro hm
      exact ⟨w * 64 + b, ⟨hm, by omega⟩, by omega⟩
  · refine h2 64 (by omega) ?_
    intro e he
    simp only [List.mem_map] at he
    obtain ⟨v, _, rfl⟩ := he
    omega

theorem mem_wordBits {w wd x : Nat} :
    x ∈ wordBits w wd ↔ ∃ b, b < 64 ∧ wd / 2 ^ b % 2 = 1 ∧ x = w * 64 + b := by
  simp only [wordBits, List.mem_filterMap, List.mem_range]
  constructor
  · rintro ⟨b, hb, h⟩
    by_cases hc : wd / 2 ^ b % 2 = 1
    · simp only [hc, if_true, Option.some.injEq] at h
      exact ⟨b, hb, hc, h.symm⟩
    · simp [hc] at h
  · rintro ⟨b, hb, hc, rfl⟩
    exact ⟨b, hb, by simp [hc]⟩

theorem sorted_wordBits (w wd : Nat) : (wordBits w wd).Pairwise (· < ·) := by
  unfold wordBits
  refine List.Pairwise.filterMap _ ?_ List.pairwise_lt_range
  intro a a' haa b hb b' hb'
  split at hb <;> simp at hb
  split at hb' <;> simp at hb'
  omega

theorem zip_map_self {α β : Type} (g : α → β) (l : List α) :
    l.zip (l.map g) = l.map (fun x => (x, g x)) := by
  induction l with
  | nil => rfl
  | cons x xs ih => simp [ih]

/-- `wordBits` reads back what `bitmapWords` wrote -/
theorem wordBits_bitmapWords (lows : List Nat) (hs : Sorted lows) (hb : ∀ v ∈ lows, v < 65536) :
    ((List.range 1024).zip (bitmapWords lows)).flatMap (fun (w, word) => wordBits w word) = lows := by
  rw [bitmapWords_eq, zip_map_self, List.flatMap_map]
  apply sorted_ext _ hs
  · intro x
    simp only [List.mem_flatMap, List.mem_range, mem_wordBits]
    constructor
    · rintro ⟨w, hw, b, hb64, hbit, rfl⟩
      exact ((word_spec lows hs w).1 b hb64).1 hbit
    · intro hx
      have := hb x hx
      refine ⟨x / 64, by omega, x % 64, by omega, ?_, by omega⟩
      rw [(word_spec lows hs (x / 64)).1 (x % 64) (by omega)]
      have : x / 64 * 64 + x % 64 = x := by omega
      rw [this]; exact hx
  · rw [sorted_iff_pairwise, List.pairwise_flatMap]
    refine ⟨fun w _ => sorted_wordBits _ _, ?_⟩
    refine List.pairwise_lt_range.imp ?_
    intro w1 w2 hw x hx y hy
    rw [mem_wordBits] at hx hy
    obtain ⟨b, hb, _, rfl⟩ := hx
    obtain ⟨b', hb', _, rfl⟩ := hy
    omega

theorem bitmapWords_length (lows : List Nat) : (bitmapWords lows).length = 1024 := by
  simp [bitmapWords]

theorem bitmapWords_lt (lows : List Nat) (hs : Sorted lows) : ∀ x ∈ bitmapWords lows, x < 256 ^ 8 := by
  intro x hx
  rw [bitmapWords_eq] at hx
  obtain ⟨w, _, rfl⟩ := List.mem_map.1 hx
  exact (word_spec lows hs w).2

/-! ## sizes -/

theorem containerData_length (lows : List Nat) : (containerData lows).length = containerSize lows := by
  unfold containerData containerSize
  split
  · rw [length_flatMap_le]
  · rw [length_flatMap_le, bitmapWords_length]

theorem offsets_length (st : Nat) (cs : List (Nat × List Nat)) : (offsets st cs).length = cs.length := by
  induction cs generalizing st with
  | nil => rfl
  | cons c cs ih => simp [offsets, ih]

theorem data_length (cs : List (Nat × List Nat)) :
    (cs.flatMap (fun c => containerData c.2)).length = (cs.map (fun c => containerSize c.2)).sum := by
  induction cs with
  | nil => rfl
  | cons c cs ih => simp [containerData_length, ih]

theorem descr_length (cs : List (Nat × List Nat)) :
    (cs.flatMap (fun c => le 2 c.1 ++ le 2 (c.2.length - 1))).length = 4 * cs.length :=
  length_flatMap_const _ 4 cs (fun c _ => by simp [le_length])

theorem offs_length (st : Nat) (cs : List (Nat × List Nat)) :
    ((offsets st cs).flatMap (le 4)).length = 4 * cs.length := by
  rw [length_flatMap_le, offsets_length]

/-! ## the container decoder -/

theorem decodeContainer_containerData (c : Nat × List Nat) (h : CWF c) (more : Bytes) :
    decodeContainer c.1 c.2.length (containerData c.2 ++ more)
      = some (c.2.map (fun v => c.1 * 65536 + v), more) := by
  unfold decodeContainer containerData
  by_cases hc : c.2.length ≤ arrayLimit
  · simp only [hc, if_true]
    have hl : (c.2.flatMap (le 2)).length = 2 * c.2.length := length_flatMap_le 2 c.2
    have h1 : ¬ ((c.2.flatMap (le 2) ++ more).length < 2 * c.2.length) := by
      rw [List.length_append, hl]; omega
    rw [if_neg h1, take_append_len _ _ _ hl, drop_append_len _ _ _ hl, chunks_flatMap_le (by decide),
      List.map_map]
    congr 2
    apply List.map_congr_left
    intro v hv
    simp only [Function.comp]
    rw [ofLe_le 2 v (h.low_lt v hv)]
  · simp only [hc, if_false]
    have hl : ((bitmapWords c.2).flatMap (le 8)).length = 8192 := by
      rw [length_flatMap_le, bitmapWords_length]
    have h1 : ¬ (((bitmapWords c.2).flatMap (le 8) ++ more).length < 8192) := by
      rw [List.length_append, hl]; omega
    rw [if_neg h1]
    rw [take_append_len _ _ _ hl, drop_append_len _ _ _ hl,
      ofLe_chunks_flatMap_le (by decide) _ (bitmapWords_lt c.2 h.sorted),
      wordBits_bitmapWords c.2 h.sorted h.low_lt]

theorem decodeContainers_data (cs : List (Nat × List Nat)) (h : ∀ c ∈ cs, CWF c) (more : Bytes) :
    decodeContainers (cs.map (fun c => (c.1, c.2.length)))
      (cs.flatMap (fun c => containerData c.2) ++ more) = some (unflat cs, more) := by
  induction cs with
  | nil => simp [decodeContainers, unflat]
  | cons c cs ih =>
    simp only [List.map_cons, List.flatMap_cons, List.append_assoc, decodeContainers]
    rw [decodeContainer_containerData c (h c (by simp))]
    simp only [Option.bind_eq_bind, Option.bind_some]
    rw [ih (fun d hd => h d (by simp [hd]))]
    simp [unflat]

/-- the descriptive header parses back to (key, cardinality) -/
theorem descr_parse (cs : List (Nat × List Nat)) (h : ∀ c ∈ cs, CWF c) :
    (chunks 4 (cs.flatMap (fun c => le 2 c.1 ++ le 2 (c.2.length - 1)))).map
        (fun c => (ofLe (c.take 2), ofLe (c.drop 2) + 1))
      = cs.map (fun c => (c.1, c.2.length)) := by
  rw [chunks_flatMap_eq _ (by decide) cs (fun c _ => by simp [le_length]), List.map_map]
  apply List.map_congr_left
  intro c hc
  have hw := h c hc
  simp only [Function.comp]
  rw [take_append_len _ _ 2 (le_length _ _), drop_append_len _ _ 2 (le_length _ _),
    ofLe_le 2 _ hw.key_lt, ofLe_le 2 _ (by have := hw.length_le; omega)]
  have := hw.length_pos
  congr 1; omega

/-! ## the whole bitmap -/

theorem decode_layout (A B D O X : Bytes) (n : Nat) (hA : A.length = 4) (hB : B.length = 4)
    (hD : D.length = 4 * n) (hO : O.length = 4 * n) (hc : ofLe A = cookieNoRun) (hn : ofLe B = n) :
    decode (A ++ (B ++ (D ++ (O ++ X)))) =
      decodeContainers ((chunks 4 D).map fun c => (ofLe (c.take 2), ofLe (c.drop 2) + 1)) X := by
  unfold decode
  have h1 : ¬ ((A ++ (B ++ (D ++ (O ++ X)))).length < 8) := by
    simp only [List.length_append, hA, hB]; omega
  have h2 : (A ++ (B ++ (D ++ (O ++ X)))).take 4 = A := take_append_len _ _ 4 hA
  have h3 : ((A ++ (B ++ (D ++ (O ++ X)))).drop 4).take 4 = B := by
    rw [drop_append_len _ _ 4 hA, take_append_len _ _ 4 hB]
  have h4 : (A ++ (B ++ (D ++ (O ++ X)))).drop 8 = D ++ (O ++ X) := by
    rw [← List.append_assoc]
    exact drop_append_len _ _ 8 (by simp [hA, hB])
  rw [if_neg h1, h2, hc]
  simp only [ne_eq, not_true_eq_false, if_false]
  rw [h3, hn, h4]
  have h5 : ¬ ((D ++ (O ++ X)).length < 8 * n) := by
    simp only [List.length_append, hD, hO]; omega
  have h6 : (D ++ (O ++ X)).take (4 * n) = D := take_append_len _ _ _ hD
  have h7 : (D ++ (O ++ X)).drop (8 * n) = X := by
    rw [← List.append_assoc]
    exact drop_append_len _ _ _ (by simp [hD, hO]; omega)
  rw [if_neg h5, h6, h7]

theorem encode_eq (s : List Nat) :
    encode s = le 4 cookieNoRun ++ (le 4 (containers s).length ++
      ((containers s).flatMap (fun c => le 2 c.1 ++ le 2 (c.2.length - 1)) ++
      ((offsets (8 + 8 * (containers s).length) (containers s)).flatMap (le 4) ++
      (containers s).flatMap (fun c => containerData c.2)))) := by
  simp [encode]

/-- the encoded length is the size announced by `serializedSize` (every list) -/
theorem encode_length (s : List Nat) : (encode s).length = serializedSize s := by
  rw [encode_eq]
  simp only [List.length_append, le_length, descr_length, offs_length, data_length, serializedSize]
  omega

/-- decoding what `encode` wrote gives the set back and leaves the trailing bytes untouched -/
theorem decode_encode (s : List Nat) (hs : Sorted s) (hb : ∀ x ∈ s, x < 2 ^ 32) (rest : Bytes) :
    decode (encode s ++ rest) = some (s, rest) := by
  obtain ⟨hw, _⟩ := containers_wf s hs hb
  have hn := containers_length_le s hs hb
  rw [encode_eq]
  simp only [List.append_assoc]
  rw [decode_layout _ _ _ _ _ (containers s).length (le_length _ _) (le_length _ _) (descr_length _)
    (offs_length _ _) (ofLe_le 4 _ (by decide)) (ofLe_le 4 _ (by omega)),
    descr_parse _ hw, decodeContainers_data _ hw, unflat_containers]

/-! ## offsets and the size bound -/

theorem offsets_getElem (cs : List (Nat × List Nat)) :
    ∀ (st i : Nat) (hi : i < (offsets st cs).length),
      (offsets st cs)[i] = st + ((cs.take i).map (fun c => containerSize c.2)).sum := by
  induction cs with
  | nil => intro st i hi; simp [offsets] at hi
  | cons c cs ih =>
    intro st i hi
    cases i with
    | zero => simp [offsets]
    | succ i =>
      simp only [offsets, List.getElem_cons_succ, List.take_succ_cons, List.map_cons, List.sum_cons]
      rw [ih]; omega

theorem getElem_flatMap_le (w : Nat) (l : List Nat) :
    ∀ (i : Nat) (hi : i < l.length), ((l.flatMap (le w)).drop (w * i)).take w = le w l[i] := by
  induction l with
  | nil => intro i hi; simp at hi
  | cons x xs ih =>
    intro i hi
    cases i with
    | zero => simp [take_append_len _ _ w (le_length w x)]
    | succ i =>
      simp only [List.flatMap_cons, List.getElem_cons_succ]
      have : w * (i + 1) = w + w * i := by rw [Nat.mul_succ]; omega
      rw [this, ← List.drop_drop, drop_append_len _ _ w (le_length w x)]
      exact ih i (by simpa using hi)

theorem sum_containerSize_le (cs : List (Nat × List Nat)) :
    (cs.map (fun c => containerSize c.2)).sum ≤ 8192 * cs.length := by
  induction cs with
  | nil => simp
  | cons c cs ih =>
    simp only [List.map_cons, List.sum_cons, List.length_cons]
    have : containerSize c.2 ≤ 8192 := by
      unfold containerSize arrayLimit; split <;> omega
    omega

theorem serializedSize_lt (s : List Nat) (hs : Sorted s) (hb : ∀ x ∈ s, x < 2 ^ 32) :
    serializedSize s < 2 ^ 32 := by
  have hn := containers_length_le s hs hb
  have := sum_containerSize_le (containers s)
  simp only [serializedSize]
  omega

theorem sum_take_le (l : List Nat) (i : Nat) : (l.take i).sum ≤ l.sum := by
  have : l.sum = (l.take i).sum + (l.drop i).sum := by
    rw [← List.sum_append, List.take_append_drop]
  omega

/-- every offset stored in the header is below the total size -/
theorem offsets_getElem_le (s : List Nat) (i : Nat)
    (hi : i < (offsets (8 + 8 * (containers s).length) (containers s)).length) :
    (offsets (8 + 8 * (containers s).length) (containers s))[i] ≤ serializedSize s := by
  rw [offsets_getElem]
  have := sum_take_le ((containers s).map (fun c => containerSize c.2)) i
  rw [← List.map_take] at this
  simp only [serializedSize]
  omega

/-- the `i`-th offset of the header is the byte position where the data of container `i` starts -/
theorem drop_offset (s : List Nat) (i : Nat)
    (hi : i < (offsets (8 + 8 * (containers s).length) (containers s)).length) :
    (encode s).drop (offsets (8 + 8 * (containers s).length) (containers s))[i]
      = ((containers s).drop i).flatMap (fun c => containerData c.2) := by
  rw [offsets_getElem, encode_eq]
  simp only [← List.append_assoc]
  have hsplit : (containers s).flatMap (fun c => containerData c.2)
      = ((containers s).take i).flatMap (fun c => containerData c.2)
        ++ ((containers s).drop i).flatMap (fun c => containerData c.2) := by
    rw [← List.flatMap_append, List.take_append_drop]
  rw [hsplit, ← List.append_assoc]
  apply drop_append_len
  simp only [List.length_append, le_length, descr_length, offs_length, data_length]
  omega

/-- where the header keeps the `i`-th offset -/
theorem header_offset (s : List Nat) (i : Nat)
    (hi : i < (offsets (8 + 8 * (containers s).length) (containers s)).length) :
    ((encode s).drop (8 + 4 * (containers s).length + 4 * i)).take 4
      = le 4 (offsets (8 + 8 * (containers s).length) (containers s))[i] := by
  rw [encode_eq]
  have h1 : ∀ X : Bytes, (le 4 cookieNoRun ++ (le 4 (containers s).length ++
      ((containers s).flatMap (fun c => le 2 c.1 ++ le 2 (c.2.length - 1)) ++ X))).drop
        (8 + 4 * (containers s).length + 4 * i) = X.drop (4 * i) := by
    intro X
    rw [← List.drop_drop]
    simp only [← List.append_assoc]
    rw [drop_append_len _ _ _ (by simp only [List.length_append, le_length, descr_length])]
  rw [h1, List.drop_append_of_le_length (by rw [offs_length]; rw [offsets_length] at hi; omega)]
  have h2 := getElem_flatMap_le 4 (offsets (8 + 8 * (containers s).length) (containers s)) i hi
  rw [List.take_append_of_le_length, h2]
  rw [List.length_drop, offs_length]; rw [offsets_length] at hi; omega

end Roaring
end Arroy
