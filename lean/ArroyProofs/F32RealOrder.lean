import ArroyProofs.SoftFloatRealDiv
import ArroyProofs.F32StdModel
import ArroyProofs.F32MonoOps
import ArroyProofs.BQCosine
import Mathlib.Tactic.NormNum
/-! `F32.lt` on finite values is `<` of the real values (`SFR.toReal`); small integers convert exactly;
strict monotonicity of the binary-quantised cosine distance `(1 − (D − 2h)/D)/2` in `h` for `D ≤ 2^21`
from the standard model of binary32 arithmetic (relative error `2^-24` per operation: two different `h`
change the exact value by at least `2/D ≥ 16·2^-24`, the three roundings by less). -/
namespace Arroy
namespace SFR
open SF

/-! ### the float order and the real order -/

theorem mag_real (q : Int) (n : Bool) (m : Nat) (e : Int) (h : q ≤ e) :
    ((V.mag q (.fin n m e) : Int) : ℝ) * (2 : ℝ) ^ q = sgn n * (m : ℝ) * (2 : ℝ) ^ e := by
  have hp := pow_toNat_mul e q h
  simp only [V.mag]
  cases n
  · simp only [Bool.false_eq_true, if_false, sgn]
    push_cast
    rw [← hp]; ring
  · simp only [if_true, sgn]
    push_cast
    rw [← hp]; ring

/-- on finite values `F32.lt` is `<` of the real values -/
theorem lt_iff_toReal (a b : Nat) (ha : Finite a) (hb : Finite b) :
    F32.lt a b = true ↔ toReal a < toReal b := by
  obtain ⟨s, m1, e1, hua⟩ := (finite_iff a).1 ha
  obtain ⟨t, m2, e2, hub⟩ := (finite_iff b).1 hb
  have e : F32.lt a b = ltV (unpack f32 a) (unpack f32 b) := rfl
  rw [e, hua, hub, ltV_fin (Min.min e1 e2) s m1 e1 t m2 e2 (by omega) (by omega),
    toReal_of_unpack hua, toReal_of_unpack hub,
    ← mag_real (Min.min e1 e2) s m1 e1 (by omega), ← mag_real (Min.min e1 e2) t m2 e2 (by omega)]
  have hE := two_zpow_pos (Min.min e1 e2)
  rw [mul_lt_mul_iff_of_pos_right hE]
  exact Int.cast_lt.symm

/-! ### exact conversions -/

theorem finite_zero : Finite 0 := by decide

theorem toReal_ofNat {n : Nat} (hn : n < 2 ^ 24) : Finite (F32.ofNat n) ∧ toReal (F32.ofNat n) = n := by
  rcases Nat.eq_zero_or_pos n with h | h0
  · subst h
    rw [F32L.ofNat_zero]
    refine ⟨finite_zero, ?_⟩
    show toReal F32.zero = ((0 : Nat) : ℝ)
    rw [toReal_zero]; simp
  · obtain ⟨h1, h2, h3⟩ := F32L.bitLen_spec h0
    have hL : bitLen n ≤ 24 := by
      have : 2 ^ (bitLen n - 1) < 2 ^ 24 := by omega
      have := (Nat.pow_lt_pow_iff_right (by decide : 1 < 2)).mp this
      omega
    have sb := F32L.sig_bounds h0
    have hs : F32L.sig n = n * 2 ^ (24 - bitLen n) := by simp [F32L.sig, hL]
    rw [hs] at sb
    have hT2 : n * 2 ^ (24 - bitLen n) < 2 ^ 24 := by
      have e2 : 2 ^ bitLen n * 2 ^ (24 - bitLen n) = 2 ^ 24 := by
        rw [← Nat.pow_add]; congr 1; omega
      rw [← e2]; exact Nat.mul_lt_mul_of_pos_right h3 (Nat.two_pow_pos _)
    rw [F32L.ofNat_small n h0 hL]
    have hu := F32L.unpack_fields (bitLen n + 126) (n * 2 ^ (24 - bitLen n)) (by omega) (by omega) sb.1 hT2
    have hu' : unpack f32 ((bitLen n + 126) * 2 ^ 23 + (n * 2 ^ (24 - bitLen n) - 2 ^ 23))
        = .fin false (n * 2 ^ (24 - bitLen n)) (((bitLen n + 126 : Nat) : Int) - 150) := hu
    refine ⟨finite_of_unpack hu', ?_⟩
    rw [toReal_of_unpack hu']
    simp only [sgn, Bool.false_eq_true, if_false, one_mul]
    push_cast
    rw [← zpow_natCast, mul_assoc, ← zpow_add₀ two_ne_zero]
    have : ((24 - bitLen n : Nat) : Int) + ((bitLen n : Int) + 126 - 150) = 0 := by omega
    rw [this]; simp

theorem vReal_negV (v : V) : vReal (negV v) = - vReal v := by
  cases v with
  | nan => simp [negV, vReal]
  | inf a => simp [negV, vReal]
  | fin n m e => simp only [negV, vReal, sgn_not]; ring

theorem toReal_neg (x : Nat) : toReal (F32.neg x) = - toReal x := by
  unfold toReal
  rw [F32M.unpack_neg, vReal_negV]

theorem finite_neg {x : Nat} (h : Finite x) : Finite (F32.neg x) := by
  obtain ⟨n, m, e, hu⟩ := (finite_iff x).1 h
  have : unpack f32 (F32.neg x) = .fin (!n) m e := by rw [F32M.unpack_neg, hu]; rfl
  exact finite_of_unpack this

theorem toReal_ofInt {i : Int} (hi : i.natAbs < 2 ^ 24) :
    Finite (F32.ofInt i) ∧ toReal (F32.ofInt i) = i := by
  obtain ⟨f1, f2⟩ := toReal_ofNat hi
  unfold F32.ofInt
  by_cases h : i < 0
  · rw [if_pos h]
    refine ⟨finite_neg f1, ?_⟩
    have e : SF.neg F32.fmt (SF.ofNat F32.fmt i.natAbs) = F32.neg (F32.ofNat i.natAbs) := rfl
    rw [e, toReal_neg, f2]
    have : ((i.natAbs : Nat) : ℝ) = -(i : ℝ) := by
      have h' : ((i.natAbs : Nat) : Int) = -i := by omega
      rw [← Int.cast_natCast, h', Int.cast_neg]
    rw [this]; ring
  · rw [if_neg h]
    refine ⟨f1, ?_⟩
    have e : SF.ofNat F32.fmt i.natAbs = F32.ofNat i.natAbs := rfl
    rw [e, f2]
    have h' : ((i.natAbs : Nat) : Int) = i := by omega
    rw [← Int.cast_natCast, h']

theorem toReal_one : Finite F32.one ∧ toReal F32.one = 1 := by
  refine ⟨finite_of_unpack unpack_one, ?_⟩
  rw [toReal_of_unpack unpack_one]
  simp only [sgn, Bool.false_eq_true, if_false, one_mul]
  rw [show ((-23 : Int)) = -((23 : Nat) : Int) from rfl, zpow_neg, zpow_natCast]
  norm_num

theorem toReal_two : Finite F32.two ∧ toReal F32.two = 2 := by
  refine ⟨finite_of_unpack unpack_two, ?_⟩
  rw [toReal_of_unpack unpack_two]
  simp only [sgn, Bool.false_eq_true, if_false, one_mul]
  rw [show ((-22 : Int)) = -((22 : Nat) : Int) from rfl, zpow_neg, zpow_natCast]
  norm_num

/-! ### numerics -/

theorem u_eq : u = 1 / 16777216 := by
  unfold u
  rw [show ((-24 : Int)) = -((24 : Nat) : Int) from rfl, zpow_neg, zpow_natCast]
  norm_num

/-- a real number between `2^-30` and `4` in absolute value is in the normal range -/
theorem normalRange_of_bounds {r : ℝ} (h1 : 1 / 1073741824 ≤ |r|) (h2 : |r| ≤ 4) : NormalRange r := by
  unfold NormalRange
  have a1 : (2 : ℝ) ^ (-126 : ℤ) ≤ 1 / 1073741824 := by
    have h : (2 : ℝ) ^ (-126 : ℤ) ≤ (2 : ℝ) ^ (-30 : ℤ) := zpow_le_zpow_right₀ (by norm_num) (by norm_num)
    have e : (2 : ℝ) ^ (-30 : ℤ) = 1 / 1073741824 := by norm_num
    rw [e] at h; exact h
  have b1 : (2 : ℝ) ^ (4 : ℤ) ≤ (2 : ℝ) ^ (128 : ℤ) := zpow_le_zpow_right₀ (by norm_num) (by norm_num)
  have b2 : (2 : ℝ) ^ (-25 : ℤ) ≤ (2 : ℝ) ^ (-1 : ℤ) := zpow_le_zpow_right₀ (by norm_num) (by norm_num)
  have b3 : (2 : ℝ) ^ (4 : ℤ) = 16 := by norm_num
  have b4 : (2 : ℝ) ^ (-1 : ℤ) = 1 / 2 := by norm_num
  rw [b3] at b1
  rw [b4] at b2
  generalize (2 : ℝ) ^ (-126 : ℤ) = A at *
  generalize (2 : ℝ) ^ (128 : ℤ) = X at *
  generalize (2 : ℝ) ^ (-25 : ℤ) = z at *
  have hY : (1 : ℝ) / 2 ≤ 1 - z := by linarith
  have := mul_le_mul b1 hY (by norm_num) (by linarith)
  constructor <;> linarith

/-! ### the cosine formula `(1 − (D − 2h)/D)/2` in real numbers -/

/-- the three roundings of `(1 − (D − 2h)/D)/2`, `1 ≤ h ≤ D ≤ 2^21`: the result is finite and within
`(1 ± u)²/2` of a real `t` that is within `u` of the exact `2h/D` -/
theorem cosine_stage (D h : Nat) (hD0 : 0 < D) (hD : D ≤ 2 ^ 21) (h1 : 1 ≤ h) (h2 : h ≤ D) :
    Finite (F32.div (F32.sub F32.one (F32.div (F32.ofInt ((D : Int) - 2 * (h : Int))) (F32.ofNat D))) F32.two)
    ∧ ∃ t : ℝ, |t - 2 * (h : ℝ) * (1 / (D : ℝ))| ≤ u
      ∧ t * ((1 - u) * (1 - u)) / 2 ≤
        toReal (F32.div (F32.sub F32.one (F32.div (F32.ofInt ((D : Int) - 2 * (h : Int))) (F32.ofNat D))) F32.two)
      ∧ toReal (F32.div (F32.sub F32.one (F32.div (F32.ofInt ((D : Int) - 2 * (h : Int))) (F32.ofNat D))) F32.two)
        ≤ t * ((1 + u) * (1 + u)) / 2 := by
  have hu := u_eq
  obtain ⟨fa, ra⟩ := toReal_ofInt (i := (D : Int) - 2 * (h : Int)) (by omega)
  obtain ⟨fb, rb⟩ := toReal_ofNat (n := D) (by omega)
  have hDr : (0 : ℝ) < D := by exact_mod_cast hD0
  have hDle : (D : ℝ) ≤ 2097152 := by exact_mod_cast hD
  have hh1 : (1 : ℝ) ≤ h := by exact_mod_cast h1
  have hh2 : (h : ℝ) ≤ D := by exact_mod_cast h2
  have hg : (0 : ℝ) < 1 / (D : ℝ) := by positivity
  have hgD : (D : ℝ) * (1 / (D : ℝ)) = 1 := by field_simp
  have hg8 : 8 * u ≤ 1 / (D : ℝ) := by
    rw [hu, le_div_iff₀ hDr]; linarith
  generalize hgdef : 1 / (D : ℝ) = g at *
  have ra' : toReal (F32.ofInt ((D : Int) - 2 * (h : Int))) = (D : ℝ) - 2 * h := by
    rw [ra]; push_cast; ring
  have hb0 : toReal (F32.ofNat D) ≠ 0 := by rw [rb]; exact ne_of_gt hDr
  -- the exact quotient
  have hx : toReal (F32.ofInt ((D : Int) - 2 * (h : Int))) / toReal (F32.ofNat D) = 1 - 2 * h * g := by
    rw [ra', rb, ← hgdef]; field_simp
  have hhg : (h : ℝ) * g ≤ 1 := by
    have := mul_le_mul_of_nonneg_right hh2 (le_of_lt hg); linarith
  have hhg1 : g ≤ (h : ℝ) * g := by
    have := mul_le_mul_of_nonneg_right hh1 (le_of_lt hg); linarith
  have hxabs : |1 - 2 * (h : ℝ) * g| ≤ 1 := by
    rw [abs_le]; constructor <;> linarith
  have hN1 : NormalOrZero (toReal (F32.ofInt ((D : Int) - 2 * (h : Int))) / toReal (F32.ofNat D)) := by
    rw [hx]
    by_cases hz : (D : Int) - 2 * (h : Int) = 0
    · left
      have : (D : ℝ) - 2 * h = 0 := by exact_mod_cast hz
      have : (D : ℝ) * g - 2 * h * g = 0 := by rw [← sub_mul, this, zero_mul]
      linarith
    · right
      apply normalRange_of_bounds _ (by linarith)
      -- `|D − 2h| ≥ 1`, so `|x| ≥ 1/D`
      have hi : (1 : ℝ) ≤ |(D : ℝ) - 2 * h| := by
        have : (1 : Int) ≤ |(D : Int) - 2 * (h : Int)| := Int.one_le_abs hz
        have := (Int.cast_le (R := ℝ)).2 this
        push_cast at this
        exact this
      have e : 1 - 2 * (h : ℝ) * g = ((D : ℝ) - 2 * h) * g := by rw [sub_mul]; linarith
      rw [e, abs_mul, abs_of_pos hg]
      have := mul_le_mul_of_nonneg_right hi (le_of_lt hg)
      rw [hu] at hg8
      linarith
  obtain ⟨fq, δ, hδ, rq⟩ := div_std _ _ fa fb hb0 hN1
  rw [hx] at rq
  obtain ⟨f1, r1⟩ := toReal_one
  obtain ⟨f2, r2⟩ := toReal_two
  -- `t = 1 − q`
  have hxd : |(1 - 2 * (h : ℝ) * g) * δ| ≤ u := by
    rw [abs_mul]
    have := mul_le_mul hxabs hδ (abs_nonneg _) (by norm_num)
    linarith
  obtain ⟨hxd1, hxd2⟩ := abs_le.mp hxd
  have ht : toReal F32.one - toReal (F32.div (F32.ofInt ((D : Int) - 2 * (h : Int))) (F32.ofNat D))
      = 2 * h * g - (1 - 2 * (h : ℝ) * g) * δ := by
    rw [r1, rq]; ring
  generalize htdef : 2 * (h : ℝ) * g - (1 - 2 * (h : ℝ) * g) * δ = t at *
  have ht_lo : 15 * u ≤ t := by rw [← htdef]; linarith
  have ht_hi : t ≤ 2 + u := by rw [← htdef]; linarith
  have hN2 : NormalOrZero (toReal F32.one - toReal (F32.div (F32.ofInt ((D : Int) - 2 * (h : Int))) (F32.ofNat D))) := by
    right; rw [ht]
    have : 0 < t := by rw [hu] at ht_lo; linarith
    apply normalRange_of_bounds <;> rw [abs_of_pos this] <;> rw [hu] at ht_lo ht_hi <;> linarith
  obtain ⟨fs, ε, hε, rs⟩ := sub_std _ _ f1 fq hN2
  rw [ht] at rs
  obtain ⟨hε1, hε2⟩ := abs_le.mp hε
  have htpos : 0 < t := by rw [hu] at ht_lo; linarith
  have hs_lo : t * (1 - u) ≤ t * (1 + ε) := mul_le_mul_of_nonneg_left (by linarith) (le_of_lt htpos)
  have hs_hi : t * (1 + ε) ≤ t * (1 + u) := mul_le_mul_of_nonneg_left (by linarith) (le_of_lt htpos)
  have hN3 : NormalOrZero (toReal (F32.sub F32.one (F32.div (F32.ofInt ((D : Int) - 2 * (h : Int))) (F32.ofNat D)))
      / toReal F32.two) := by
    right; rw [rs, r2]
    have hpos : 0 < t * (1 + ε) / 2 := by
      have : 0 < 1 + ε := by rw [hu] at hε1; linarith
      positivity
    have hu1 : u ≤ 1 / 2 := by rw [hu]; norm_num
    have hu0 : 0 ≤ u := u_nonneg
    have q1 : t * (1 - u) ≤ t * (1 + ε) := hs_lo
    have q2 : t * (1 + ε) ≤ t * (1 + u) := hs_hi
    have q3 : 15 * u * (1 / 2) ≤ t * (1 - u) := mul_le_mul ht_lo (by linarith) (by norm_num) (le_of_lt htpos)
    have q4 : t * (1 + u) ≤ (2 + u) * (1 + u) := mul_le_mul_of_nonneg_right ht_hi (by linarith)
    have q5 : (2 + u) * (1 + u) ≤ 4 := by rw [hu]; norm_num
    apply normalRange_of_bounds <;> rw [abs_of_pos hpos]
    · linarith [hu]
    · linarith
  have h20 : toReal F32.two ≠ 0 := by rw [r2]; norm_num
  obtain ⟨fc, η, hη, rc⟩ := div_std _ _ fs f2 h20 hN3
  rw [rs, r2] at rc
  obtain ⟨hη1, hη2⟩ := abs_le.mp hη
  have hu1 : u ≤ 1 / 2 := by rw [hu]; norm_num
  have hu0 : 0 ≤ u := u_nonneg
  have p1 : 0 ≤ 1 + ε := by linarith
  have p2 : 0 ≤ 1 + η := by linarith
  have p3 : 0 ≤ 1 - u := by linarith
  have p4 : 0 ≤ 1 + u := by linarith
  refine ⟨fc, t, ?_, ?_, ?_⟩
  · rw [← htdef]
    have : 2 * (h : ℝ) * g - (1 - 2 * (h : ℝ) * g) * δ - 2 * (h : ℝ) * g = -((1 - 2 * (h : ℝ) * g) * δ) := by ring
    rw [this, abs_neg]; exact hxd
  · rw [rc]
    have : t * (1 - u) * (1 - u) ≤ t * (1 + ε) * (1 + η) :=
      mul_le_mul hs_lo (by linarith) p3 (mul_nonneg (le_of_lt htpos) p1)
    linarith
  · rw [rc]
    have : t * (1 + ε) * (1 + η) ≤ t * (1 + u) * (1 + u) :=
      mul_le_mul hs_hi (by linarith) p2 (mul_nonneg (le_of_lt htpos) p4)
    linarith

/-- **strict monotonicity** of the three-rounding cosine formula in `h`, `D ≤ 2^21` -/
theorem cosine_strict (D h1 h2 : Nat) (hD0 : 0 < D) (hD : D ≤ 2 ^ 21) (h0 : 1 ≤ h1) (h : h1 < h2)
    (hh : h2 ≤ D) :
    F32.lt (F32.div (F32.sub F32.one (F32.div (F32.ofInt ((D : Int) - 2 * (h1 : Int))) (F32.ofNat D))) F32.two)
      (F32.div (F32.sub F32.one (F32.div (F32.ofInt ((D : Int) - 2 * (h2 : Int))) (F32.ofNat D))) F32.two)
      = true := by
  obtain ⟨f1, t1, a1, -, c1⟩ := cosine_stage D h1 hD0 hD h0 (by omega)
  obtain ⟨f2, t2, a2, b2, -⟩ := cosine_stage D h2 hD0 hD (by omega) hh
  rw [lt_iff_toReal _ _ f1 f2]
  have hu := u_eq
  have hDr : (0 : ℝ) < D := by exact_mod_cast hD0
  have hDle : (D : ℝ) ≤ 2097152 := by exact_mod_cast hD
  have hg : (0 : ℝ) < 1 / (D : ℝ) := by positivity
  have hg8 : 8 * u ≤ 1 / (D : ℝ) := by
    rw [hu, le_div_iff₀ hDr]; linarith
  have hgD : (D : ℝ) * (1 / (D : ℝ)) = 1 := by field_simp
  generalize 1 / (D : ℝ) = g at *
  have hh' : (h1 : ℝ) + 1 ≤ h2 := by exact_mod_cast h
  have hhD : (h1 : ℝ) ≤ D := by exact_mod_cast (show h1 ≤ D by omega)
  have k1 : (h1 : ℝ) * g + g ≤ (h2 : ℝ) * g := by
    have := mul_le_mul_of_nonneg_right hh' (le_of_lt hg); linarith
  have k2 : (h1 : ℝ) * g ≤ 1 := by
    have := mul_le_mul_of_nonneg_right hhD (le_of_lt hg); linarith
  obtain ⟨a11, a12⟩ := abs_le.mp a1
  obtain ⟨a21, a22⟩ := abs_le.mp a2
  rw [hu] at c1 b2 a11 a12 a21 a22 hg8
  -- everything is linear in `t1`, `t2` now
  have e1 : t1 * ((1 + 1 / 16777216) * (1 + 1 / 16777216)) / 2 < t2 * ((1 - 1 / 16777216) * (1 - 1 / 16777216)) / 2 := by
    norm_num
    linarith
  linarith

/-- the value at `h ≥ 1` is positive -/
theorem cosine_pos (D h : Nat) (hD0 : 0 < D) (hD : D ≤ 2 ^ 21) (h1 : 1 ≤ h) (h2 : h ≤ D) :
    F32.lt 0 (F32.div (F32.sub F32.one (F32.div (F32.ofInt ((D : Int) - 2 * (h : Int))) (F32.ofNat D))) F32.two)
      = true := by
  obtain ⟨f2, t2, a2, b2, -⟩ := cosine_stage D h hD0 hD h1 h2
  rw [lt_iff_toReal _ _ finite_zero f2]
  have hz : toReal 0 = 0 := toReal_zero
  rw [hz]
  have hu := u_eq
  have hDr : (0 : ℝ) < D := by exact_mod_cast hD0
  have hDle : (D : ℝ) ≤ 2097152 := by exact_mod_cast hD
  have hg : (0 : ℝ) < 1 / (D : ℝ) := by positivity
  have hg8 : 8 * u ≤ 1 / (D : ℝ) := by
    rw [hu, le_div_iff₀ hDr]; linarith
  generalize 1 / (D : ℝ) = g at *
  have hh1 : (1 : ℝ) ≤ h := by exact_mod_cast h1
  have k1 : g ≤ (h : ℝ) * g := by
    have := mul_le_mul_of_nonneg_right hh1 (le_of_lt hg); linarith
  obtain ⟨a21, a22⟩ := abs_le.mp a2
  rw [hu] at b2 a21 a22 hg8
  have e1 : 0 < t2 * ((1 - 1 / 16777216) * (1 - 1 / 16777216)) / 2 := by
    norm_num
    linarith
  linarith

end SFR
end Arroy
