import ArroyModel.Distance
import Mathlib.Data.Real.Basic
import Mathlib.Tactic.Linarith
import Mathlib.Tactic.Ring
/-! Rounding-error bound for the kernels in the standard model of floating-point arithmetic (C11_round). -/
namespace Arroy

/-- the standard model: every operation returns the exact result times `(1 + δ)`, `|δ| ≤ u`
(no overflow / underflow) -/
structure StdModel (A : Arith ℝ) (u : ℝ) : Prop where
  u_nonneg : 0 ≤ u
  sumInit : A.sumInit = 0
  zero : A.zero = 0
  add : ∀ x y, ∃ δ : ℝ, |δ| ≤ u ∧ A.add x y = (x + y) * (1 + δ)
  sub : ∀ x y, ∃ δ : ℝ, |δ| ≤ u ∧ A.sub x y = (x - y) * (1 + δ)
  mul : ∀ x y, ∃ δ : ℝ, |δ| ≤ u ∧ A.mul x y = (x * y) * (1 + δ)
  fma : ∀ x y z, ∃ δ : ℝ, |δ| ≤ u ∧ A.fma x y z = (x * y + z) * (1 + δ)

namespace KernelRound

/-- `(1+u)^k − 1` -/
noncomputable def E (u : ℝ) (k : Nat) : ℝ := (1 + u)^k - 1

theorem E_succ (u : ℝ) (k : Nat) : E u (k + 1) = E u k * (1 + u) + u := by
  unfold E; ring

theorem E_nonneg {u : ℝ} (hu : 0 ≤ u) (k : Nat) : 0 ≤ E u k := by
  induction k with
  | zero => simp [E]
  | succ k ih => rw [E_succ]; nlinarith

theorem E_le_succ {u : ℝ} (hu : 0 ≤ u) (k : Nat) : E u k ≤ E u (k + 1) := by
  rw [E_succ]; nlinarith [E_nonneg hu k]

theorem err_of_delta {r x δ u : ℝ} (hδ : |δ| ≤ u) (h : r = x * (1 + δ)) : |r - x| ≤ u * |x| := by
  have : r - x = x * δ := by rw [h]; ring
  rw [this, abs_mul, mul_comm]
  exact mul_le_mul_of_nonneg_right hδ (abs_nonneg x)

theorem sum_abs_nonneg (l : List ℝ) : 0 ≤ (l.map (fun x => |x|)).sum := by
  induction l with
  | nil => simp
  | cons x xs ih => simp only [List.map_cons, List.sum_cons]; linarith [abs_nonneg x]

/-- recursive summation: `|fl(a + Σ l) − (a + Σ l)| ≤ ((1+u)^|l| − 1)·(|a| + Σ|lᵢ|)` -/
theorem foldl_err {A : Arith ℝ} {u : ℝ} (hA : StdModel A u) :
    ∀ (l : List ℝ) (a : ℝ),
      |l.foldl A.add a - (a + l.sum)| ≤ E u l.length * (|a| + (l.map (fun x => |x|)).sum) := by
  intro l
  induction l with
  | nil => intro a; simp [E]
  | cons x xs ih =>
    intro a
    have hu := hA.u_nonneg
    obtain ⟨δ, hδ, hadd⟩ := hA.add a x
    have h1 : |A.add a x - (a + x)| ≤ u * |a + x| := err_of_delta hδ hadd
    have ih' := ih (A.add a x)
    simp only [List.foldl_cons, List.sum_cons, List.map_cons, List.length_cons]
    set F := xs.foldl A.add (A.add a x)
    set S := xs.sum
    set B := (xs.map (fun x => |x|)).sum
    set a' := A.add a x
    have hB : 0 ≤ B := sum_abs_nonneg xs
    have hE := E_nonneg hu xs.length
    have t1 : |F - (a + (x + S))| ≤ |F - (a' + S)| + |a' - (a + x)| := by
      have : F - (a + (x + S)) = (F - (a' + S)) + (a' - (a + x)) := by ring
      rw [this]; exact abs_add_le _ _
    have t2 : |a'| ≤ |a + x| + u * |a + x| := by
      have : a' = (a' - (a + x)) + (a + x) := by ring
      calc |a'| = |(a' - (a + x)) + (a + x)| := by rw [← this]
        _ ≤ |a' - (a + x)| + |a + x| := abs_add_le _ _
        _ ≤ |a + x| + u * |a + x| := by linarith
    have t3 : |a + x| ≤ |a| + |x| := abs_add_le _ _
    have hc : 0 ≤ |a + x| := abs_nonneg _
    rw [E_succ]
    have s1 : E u xs.length * (|a'| + B) ≤ E u xs.length * ((|a + x| + u * |a + x|) + B) :=
      mul_le_mul_of_nonneg_left (by linarith) hE
    have h0 : 0 ≤ E u xs.length * (1 + u) + u := by
      have := mul_nonneg hE (by linarith : (0:ℝ) ≤ 1 + u); linarith
    have s2 : (E u xs.length * (1 + u) + u) * |a + x| ≤ (E u xs.length * (1 + u) + u) * (|a| + |x|) :=
      mul_le_mul_of_nonneg_left t3 h0
    have s3 : E u xs.length * B ≤ (E u xs.length * (1 + u) + u) * B := by
      apply mul_le_mul_of_nonneg_right _ hB
      have := mul_nonneg hE hu; linarith
    have e1 : E u xs.length * (|a + x| + u * |a + x| + B) + u * |a + x|
        = (E u xs.length * (1 + u) + u) * |a + x| + E u xs.length * B := by ring
    have e2 : (E u xs.length * (1 + u) + u) * (|a| + (|x| + B))
        = (E u xs.length * (1 + u) + u) * (|a| + |x|) + (E u xs.length * (1 + u) + u) * B := by ring
    rw [e2]
    linarith

/-- accumulated relative error: `|p − 1| ≤ E k`, `|δ| ≤ u` ⟹ `|p(1+δ) − 1| ≤ E (k+1)` -/
theorem relerr_step {u p δ : ℝ} {k : Nat} (hu : 0 ≤ u) (hp : |p - 1| ≤ E u k) (hδ : |δ| ≤ u) :
    |p * (1 + δ) - 1| ≤ E u (k + 1) := by
  have e : p * (1 + δ) - 1 = (p - 1) * (1 + δ) + δ := by ring
  have h1 : |1 + δ| ≤ 1 + u := by
    calc |1 + δ| ≤ |(1:ℝ)| + |δ| := abs_add_le _ _
      _ ≤ 1 + u := by rw [abs_one]; linarith
  rw [e, E_succ]
  calc |(p - 1) * (1 + δ) + δ| ≤ |(p - 1) * (1 + δ)| + |δ| := abs_add_le _ _
    _ = |p - 1| * |1 + δ| + |δ| := by rw [abs_mul]
    _ ≤ E u k * (1 + u) + u := by
      have := mul_le_mul hp h1 (abs_nonneg _) (E_nonneg hu k)
      linarith

/-- per-term errors: if every computed term is within relative error `ε` of the exact term,
`|Σ fl − Σ ex| ≤ ε Σ|ex|` and `Σ|fl| ≤ (1+ε) Σ|ex|` -/
theorem terms_err (fl ex : ℝ → ℝ → ℝ) {ε : ℝ} (h : ∀ a b, |fl a b - ex a b| ≤ ε * |ex a b|) :
    ∀ (x y : List ℝ),
      |(List.zipWith fl x y).sum - (List.zipWith ex x y).sum| ≤ ε * ((List.zipWith ex x y).map (fun t => |t|)).sum ∧
      ((List.zipWith fl x y).map (fun t => |t|)).sum ≤ (1 + ε) * ((List.zipWith ex x y).map (fun t => |t|)).sum := by
  intro x
  induction x with
  | nil => intro y; simp
  | cons a x ih =>
    intro y
    cases y with
    | nil => simp
    | cons b y =>
      obtain ⟨i1, i2⟩ := ih y
      have hab := h a b
      simp only [List.zipWith_cons_cons, List.sum_cons, List.map_cons]
      constructor
      · have : fl a b + (List.zipWith fl x y).sum - (ex a b + (List.zipWith ex x y).sum)
            = (fl a b - ex a b) + ((List.zipWith fl x y).sum - (List.zipWith ex x y).sum) := by ring
        rw [this]
        have := abs_add_le (fl a b - ex a b) ((List.zipWith fl x y).sum - (List.zipWith ex x y).sum)
        rw [mul_add]; linarith
      · have : |fl a b| ≤ |fl a b - ex a b| + |ex a b| := by
          have := abs_add_le (fl a b - ex a b) (ex a b)
          rwa [sub_add_cancel] at this
        rw [mul_add]; linarith

/-- the scalar loop shape: terms within relative error `ε`, then recursive summation from `0` -/
theorem scalar_err {A : Arith ℝ} {u : ℝ} (hA : StdModel A u) (fl ex : ℝ → ℝ → ℝ) {ε : ℝ}
    (h : ∀ a b, |fl a b - ex a b| ≤ ε * |ex a b|) (x y : List ℝ) :
    |(List.zipWith fl x y).foldl A.add A.sumInit - (List.zipWith ex x y).sum|
      ≤ (E u (List.zipWith ex x y).length * (1 + ε) + ε) * ((List.zipWith ex x y).map (fun t => |t|)).sum := by
  obtain ⟨i1, i2⟩ := terms_err fl ex h x y
  have f := foldl_err hA (List.zipWith fl x y) A.sumInit
  rw [hA.sumInit, abs_zero, zero_add, zero_add] at f
  rw [hA.sumInit]
  have hl : (List.zipWith fl x y).length = (List.zipWith ex x y).length := by
    simp only [List.length_zipWith]
  rw [hl] at f
  set n := (List.zipWith ex x y).length
  set T := (List.zipWith fl x y).sum
  set P := (List.zipWith ex x y).sum
  set BT := ((List.zipWith fl x y).map (fun t => |t|)).sum
  set BP := ((List.zipWith ex x y).map (fun t => |t|)).sum
  set F := (List.zipWith fl x y).foldl A.add 0
  have hE := E_nonneg hA.u_nonneg n
  have t1 : |F - P| ≤ |F - T| + |T - P| := by
    have : F - P = (F - T) + (T - P) := by ring
    rw [this]; exact abs_add_le _ _
  have s1 : E u n * BT ≤ E u n * ((1 + ε) * BP) := mul_le_mul_of_nonneg_left i2 hE
  have e : (E u n * (1 + ε) + ε) * BP = E u n * ((1 + ε) * BP) + ε * BP := by ring
  rw [e]; linarith

theorem mul_term_err {A : Arith ℝ} {u : ℝ} (hA : StdModel A u) (a b : ℝ) :
    |A.mul a b - a * b| ≤ u * |a * b| := by
  obtain ⟨δ, hδ, h⟩ := hA.mul a b
  exact err_of_delta hδ h

/-- `|fl((a−b)·(a−b)) − (a−b)²| ≤ ((1+u)³ − 1)·(a−b)²` -/
theorem sq_term_err {A : Arith ℝ} {u : ℝ} (hA : StdModel A u) (a b : ℝ) :
    |A.mul (A.sub a b) (A.sub a b) - (a - b) * (a - b)| ≤ E u 3 * |(a - b) * (a - b)| := by
  have hu := hA.u_nonneg
  obtain ⟨δ1, hδ1, h1⟩ := hA.sub a b
  obtain ⟨δ2, hδ2, h2⟩ := hA.mul (A.sub a b) (A.sub a b)
  have e : A.mul (A.sub a b) (A.sub a b) - (a - b) * (a - b)
      = ((a - b) * (a - b)) * ((1 * (1 + δ1) * (1 + δ1)) * (1 + δ2) - 1) := by
    rw [h2, h1]; ring
  have r0 : |(1:ℝ) - 1| ≤ E u 0 := by simp [E]
  have r1 := relerr_step hu r0 hδ1
  have r2 := relerr_step hu r1 hδ1
  have r3 := relerr_step hu r2 hδ2
  rw [e, abs_mul, mul_comm]
  exact mul_le_mul_of_nonneg_right r3 (abs_nonneg _)

theorem E_combine (u : ℝ) (n k : Nat) : E u n * (1 + E u k) + E u k = E u (n + k) := by
  unfold E; rw [pow_add]; ring

/-- scalar dot product: `|fl(Σ xᵢyᵢ) − Σ xᵢyᵢ| ≤ ((1+u)^(n+1) − 1) · Σ|xᵢyᵢ|` -/
theorem dotScalar_round {A : Arith ℝ} {u : ℝ} (hA : StdModel A u) (x y : List ℝ) (n : Nat)
    (hx : x.length = n) (hy : y.length = n) :
    |Kernel.dotScalar A x y - (List.zipWith (· * ·) x y).sum|
      ≤ ((1 + u)^(n + 1) - 1) * ((List.zipWith (· * ·) x y).map (fun t => |t|)).sum := by
  have h := scalar_err hA A.mul (· * ·) (mul_term_err hA) x y
  have hl : (List.zipWith (fun a b : ℝ => a * b) x y).length = n := by
    rw [List.length_zipWith, hx, hy, Nat.min_self]
  rw [hl, ← E_succ] at h
  exact h

/-- scalar squared Euclidean distance: relative error `(1+u)^(n+3) − 1` (all terms are non-negative) -/
theorem euclidScalar_round {A : Arith ℝ} {u : ℝ} (hA : StdModel A u) (x y : List ℝ) (n : Nat)
    (hx : x.length = n) (hy : y.length = n) :
    |Kernel.euclidScalar A x y - (List.zipWith (fun a b => (a - b) * (a - b)) x y).sum|
      ≤ ((1 + u)^(n + 3) - 1) * ((List.zipWith (fun a b => (a - b) * (a - b)) x y).map (fun t => |t|)).sum := by
  have h := scalar_err hA (fun a b => A.mul (A.sub a b) (A.sub a b)) (fun a b => (a - b) * (a - b))
    (sq_term_err hA) x y
  have hl : (List.zipWith (fun a b : ℝ => (a - b) * (a - b)) x y).length = n := by
    rw [List.length_zipWith, hx, hy, Nat.min_self]
  rw [hl, E_combine] at h
  exact h

/-- scalar Manhattan distance with an exact `abs`: relative error `(1+u)^(n+1) − 1` -/
theorem manhattan_round {A : Arith ℝ} {u : ℝ} (hA : StdModel A u) (x y : List ℝ) (n : Nat)
    (hx : x.length = n) (hy : y.length = n) :
    |Kernel.manhattanWith A (fun t => |t|) x y - (List.zipWith (fun a b => |a - b|) x y).sum|
      ≤ ((1 + u)^(n + 1) - 1) * ((List.zipWith (fun a b => |a - b|) x y).map (fun t => |t|)).sum := by
  have ht : ∀ a b : ℝ, abs (abs (A.sub a b) - abs (a - b)) ≤ u * abs (abs (a - b)) := by
    intro a b
    obtain ⟨δ, hδ, h⟩ := hA.sub a b
    have := err_of_delta hδ h
    rw [abs_abs]
    exact (abs_abs_sub_abs_le_abs_sub _ _).trans this
  have h := scalar_err hA (fun a b => |A.sub a b|) (fun a b => |a - b|) ht x y
  have hl : (List.zipWith (fun a b : ℝ => |a - b|) x y).length = n := by
    rw [List.length_zipWith, hx, hy, Nat.min_self]
  rw [hl, ← E_succ] at h
  exact h

end KernelRound
end Arroy
