import ArroyProofs.StoreLaws
/-! Folds of `put` over a list of writes (`putAll`), `get` after such a fold, extensionality of sorted
stores, `get` after a key-preserving `map`. Used by C17 (upgrade) and C18 (metric change). -/
namespace Arroy
namespace Store

/-- apply a list of writes, in order -/
def putAll (acc : Store) (ws : List (Key × Val)) : Store := ws.foldl (fun s w => s.put w.1 w.2) acc

@[simp] theorem putAll_nil (acc : Store) : putAll acc [] = acc := rfl
@[simp] theorem putAll_cons (acc : Store) (w : Key × Val) (ws : List (Key × Val)) :
    putAll acc (w :: ws) = putAll (acc.put w.1 w.2) ws := rfl

theorem putAll_append (acc : Store) (a b : List (Key × Val)) :
    putAll acc (a ++ b) = putAll (putAll acc a) b := by
  unfold putAll; rw [List.foldl_append]

theorem foldl_putAll {α} (f : α → List (Key × Val)) (l : List α) (acc : Store) :
    l.foldl (fun acc x => putAll acc (f x)) acc = putAll acc (l.flatMap f) := by
  induction l generalizing acc with
  | nil => rfl
  | cons x rest ih => rw [List.foldl_cons, ih, List.flatMap_cons, putAll_append]

theorem putAll_sorted {acc : Store} (h : Sorted acc) (ws : List (Key × Val)) : Sorted (putAll acc ws) := by
  induction ws generalizing acc with
  | nil => exact h
  | cons w ws ih => exact ih (put_sorted h _ _)

theorem putAll_wf {acc : Store} (h : WF acc) {ws : List (Key × Val)} (hw : ∀ w ∈ ws, w.1.wf) :
    WF (putAll acc ws) := by
  induction ws generalizing acc with
  | nil => exact h
  | cons w ws ih =>
    exact ih (put_wf h (hw w (List.mem_cons_self ..)) _) (fun x hx => hw x (List.mem_cons_of_mem _ hx))

/-- writes to the same key agree on the value -/
def Functional (ws : List (Key × Val)) : Prop := ∀ a ∈ ws, ∀ b ∈ ws, a.1 = b.1 → a.2 = b.2

theorem Functional.tail {w : Key × Val} {ws : List (Key × Val)} (h : Functional (w :: ws)) : Functional ws :=
  fun a ha b hb => h a (List.mem_cons_of_mem _ ha) b (List.mem_cons_of_mem _ hb)

/-- a key nobody writes keeps its value -/
theorem get_putAll_of_not_mem (acc : Store) (ws : List (Key × Val)) (k : Key) (h : ∀ w ∈ ws, w.1 ≠ k) :
    Store.get (putAll acc ws) k = Store.get acc k := by
  induction ws generalizing acc with
  | nil => rfl
  | cons w ws ih =>
    rw [putAll_cons, ih _ (fun x hx => h x (List.mem_cons_of_mem _ hx)), get_put,
      if_neg (fun e => h w (List.mem_cons_self ..) e.symm)]

/-- `get` after a functional list of writes: the written value, or the old one if the key is not written -/
theorem get_putAll {ws : List (Key × Val)} (hf : Functional ws) (acc : Store) (k : Key) (v : Val) :
    Store.get (putAll acc ws) k = some v ↔
      (k, v) ∈ ws ∨ ((∀ w ∈ ws, w.1 ≠ k) ∧ Store.get acc k = some v) := by
  induction ws generalizing acc with
  | nil => simp
  | cons w ws ih =>
    rw [putAll_cons, ih hf.tail, get_put]
    constructor
    · rintro (h | ⟨hn, hg⟩)
      · exact Or.inl (List.mem_cons_of_mem _ h)
      · by_cases hk : k = w.1
        · rw [if_pos hk] at hg
          left
          have : w = (k, v) := by
            obtain ⟨a, b⟩ := w
            simp only [Option.some.injEq] at hg
            simp only at hk
            rw [hk, hg]
          rw [this]; exact List.mem_cons_self ..
        · rw [if_neg hk] at hg
          right
          refine ⟨?_, hg⟩
          intro x hx
          rcases List.mem_cons.1 hx with e | hx
          · rw [e]; exact fun e => hk e.symm
          · exact hn x hx
    · rintro (h | ⟨hn, hg⟩)
      · rcases List.mem_cons.1 h with e | h
        · by_cases hex : ∃ x ∈ ws, x.1 = k
          · obtain ⟨x, hx, hxk⟩ := hex
            left
            have hv : x.2 = v := by
              have := hf x (List.mem_cons_of_mem _ hx) w (List.mem_cons_self ..) (by rw [hxk, ← e])
              rw [this, ← e]
            have : x = (k, v) := by
              obtain ⟨a, b⟩ := x
              simp only at hxk hv
              rw [hxk, hv]
            rw [← this]; exact hx
          · right
            refine ⟨fun x hx hxk => hex ⟨x, hx, hxk⟩, ?_⟩
            rw [← e]; simp
        · exact Or.inl h
      · right
        have hk : k ≠ w.1 := fun e => hn w (List.mem_cons_self ..) e.symm
        rw [if_neg hk]
        exact ⟨fun x hx => hn x (List.mem_cons_of_mem _ hx), hg⟩

theorem get_putAll_nil {ws : List (Key × Val)} (hf : Functional ws) (k : Key) (v : Val) :
    Store.get (putAll [] ws) k = some v ↔ (k, v) ∈ ws := by
  rw [get_putAll hf]
  simp [get]

/-! ## sorted stores are determined by `get` -/

theorem get_none_of_head_lt {k : Key} {s : Store} (h : ∀ x ∈ s, k.lt x.1 = true) : Store.get s k = none := by
  rw [get_eq_none_iff]
  intro v hv
  have := h _ hv
  simp [Key.lt_irrefl] at this

/-- two sorted stores with the same `get` on all keys are the same list -/
theorem ext_of_sorted {a b : Store} (ha : Sorted a) (hb : Sorted b)
    (h : ∀ k, Store.get a k = Store.get b k) : a = b := by
  rw [sorted_iff_pairwise] at ha hb
  induction a generalizing b with
  | nil =>
    cases b with
    | nil => rfl
    | cons y b' =>
      have := h y.1
      simp [get] at this
  | cons x a' ih =>
    cases b with
    | nil =>
      have := h x.1
      simp [get] at this
    | cons y b' =>
      obtain ⟨kx, vx⟩ := x
      obtain ⟨ky, vy⟩ := y
      have ⟨hax, ha'⟩ := List.pairwise_cons.1 ha
      have ⟨hby, hb'⟩ := List.pairwise_cons.1 hb
      by_cases hk : kx = ky
      · subst hk
        have hv : vx = vy := by
          have := h kx
          simpa [get] using this
        subst hv
        congr 1
        apply ih ha' hb'
        intro k
        by_cases hkk : kx = k
        · subst hkk
          rw [get_none_of_head_lt (fun x hx => hax x hx), get_none_of_head_lt (fun x hx => hby x hx)]
        · have := h k
          simpa [get, hkk] using this
      · exfalso
        have h1 := h kx
        simp only [get, if_true, if_false, Ne.symm hk] at h1
        have h2 := h ky
        simp only [get, if_true, hk, if_false] at h2
        have m1 := hby _ (mem_of_get h1.symm)
        have m2 := hax _ (mem_of_get h2)
        simp only at m1 m2
        rw [Key.lt_asymm m1] at m2
        cases m2

/-! ## key-preserving maps -/

theorem get_map_val (s : Store) (f : Key → Val → Val) (k : Key) :
    Store.get (s.map (fun kv => (kv.1, f kv.1 kv.2))) k = (Store.get s k).map (f k) := by
  induction s with
  | nil => rfl
  | cons kv rest ih =>
    obtain ⟨k0, v0⟩ := kv
    by_cases hk : k0 = k
    · subst hk; simp [get]
    · simp only [List.map_cons, get, hk, if_false, ih]

theorem map_val_sorted {s : Store} (hs : Sorted s) (f : Key → Val → Val) :
    Sorted (s.map (fun kv => (kv.1, f kv.1 kv.2))) := by
  rw [sorted_iff_pairwise] at *
  rw [List.pairwise_map]
  exact hs

theorem map_val_wf {s : Store} (hs : WF s) (f : Key → Val → Val) :
    WF (s.map (fun kv => (kv.1, f kv.1 kv.2))) := by
  intro x hx
  obtain ⟨y, hy, rfl⟩ := List.mem_map.1 hx
  exact hs y hy

/-! ## a decidable form of `Sorted` -/

def sortedB : Store → Bool
  | [] => true
  | [_] => true
  | a :: b :: rest => a.1.lt b.1 && sortedB (b :: rest)

theorem sortedB_iff (s : Store) : sortedB s = true ↔ Sorted s := by
  induction s with
  | nil => simp [sortedB, Sorted]
  | cons a rest ih =>
    cases rest with
    | nil => simp [sortedB, Sorted]
    | cons b rest' => simp only [sortedB, Sorted, Bool.and_eq_true, ih]

instance instDecidableSortedB (s : Store) : Decidable (Sorted s) := decidable_of_iff _ (sortedB_iff s)

end Store
end Arroy
