import ArroyModel.Reader
import ArroyProofs.Heap
/-! The store-level forest predicate the reader theorems rest on. -/
namespace Arroy
open Generated

/-- `ts` are the trees of the index `(c, s, rd)`:
* `refs`: one tree per root, in the order of `rd.roots`;
* `holds`: every cell of every tree is in the store, exactly as given;
* `reach`: every tree reaches exactly the items of the metadata;
* `items_nodup`: no tree reaches an item twice;
* `ids_nodup`: no tree node is shared (inside a tree or between trees);
* `sorted`: the metadata item set is strictly increasing;
* `stored`: every item of the metadata is stored as a leaf;
* `roots_ne`: a non-empty index has at least one tree. -/
structure ForestWith (c : Cfg) (s : Store) (rd : ReaderState) (ts : List T) : Prop where
  refs : ts.map (·.ref) = rd.roots.map NodeId.mkTree
  holds : ∀ t ∈ ts, Holds c s t
  reach : ∀ t ∈ ts, ∀ x, x ∈ t.items ↔ x ∈ rd.items
  items_nodup : ∀ t ∈ ts, t.items.Nodup
  ids_nodup : (ts.flatMap T.ids).Nodup
  sorted : IdSet.Sorted rd.items
  stored : ∀ x ∈ rd.items, ∃ h v, Store.get s (c.itemKey x) = some (.leaf h v)
  roots_ne : rd.items ≠ [] → rd.roots ≠ []

/-- the index `(c, s, rd)` is a valid forest -/
def ForestOK (c : Cfg) (s : Store) (rd : ReaderState) : Prop := ∃ ts : List T, ForestWith c s rd ts

/-- every bucket stored in the index is a strictly increasing id list (it is a `RoaringBitmap`);
    only the theorems about filtered search need it (`IdSet.inter` is a merge of sorted lists) -/
def DescSorted (c : Cfg) (s : Store) : Prop :=
  ∀ id ids, Store.get s (c.treeKey id) = some (.desc ids) → IdSet.Sorted ids

theorem Cfg.treeKey_ne_itemKey (c : Cfg) (a b : Nat) : c.treeKey a ≠ c.itemKey b := by
  intro h
  have : (c.treeKey a).mode = (c.itemKey b).mode := by rw [h]
  revert this
  simp only [Cfg.treeKey, Cfg.itemKey, Key.mkTree, Key.mkItem]
  decide

theorem Cfg.treeKey_inj_of_eq (c : Cfg) {a b : Nat} (h : c.treeKey a = c.treeKey b) : a = b := by
  have : (c.treeKey a).item = (c.treeKey b).item := by rw [h]
  exact this

theorem Cfg.itemKey_inj (c : Cfg) {a b : Nat} (h : c.itemKey a = c.itemKey b) : a = b := by
  have : (c.itemKey a).item = (c.itemKey b).item := by rw [h]
  exact this

end Arroy
