import ArroyProofs.KernelRound
import ArroyProofs.KernelCover
/-! Rounding-error bound for the SSE/AVX-shaped kernels in the standard model: the computed run, the
exact run and the run on absolute values are related lane by lane by a graded relation
`Rel k c e b : |c − e| ≤ ((1+u)^k − 1)·b ∧ |e| ≤ b`; every rounded addition raises the grade by one. -/
namespace Arroy
namespace KernelRound
open Kernel

/-- `c` approximates the exact value `e` with `k` accumulated roundings relative to the bound `b` -/
def Rel (u : ℝ) (k : Nat) (c e b : ℝ) : Prop := |c - e| ≤ E u k * b ∧ |e| ≤ b

theorem E_mono {u : ℝ} (hu : 0 ≤ u) {k k' : Nat} (h : k ≤ k') : E u k ≤ E u k' := by
  induction h with
  | refl => exact le_refl _
  | step _ ih => exact ih.trans (E_le_succ hu _)

theorem Rel.b_nonneg {u : ℝ} {k : Nat} {c e b : ℝ} (h : Rel u k c e b) : 0 ≤ b :=
  (abs_nonneg e).trans h.2

theorem Rel.mono {u : ℝ} (hu : 0 ≤ u) {k k' : Nat} (hk : k ≤ k') {c e b : ℝ} (h : Rel u k c e b) :
    Rel u k' c e b :=
  ⟨h.1.trans (mul_le_mul_of_nonneg_right (E_mono hu hk) h.b_nonneg), h.2⟩

theorem Rel.zero (u : ℝ) (k : Nat) : Rel u k 0 0 0 := by
  constructor <;> simp

/-- one rounded addition of two related values -/
theorem Rel.addlike {u : ℝ} (hu : 0 ≤ u) {k : Nat} {c1 e1 b1 c2 e2 b2 r δ : ℝ}
    (h1 : Rel u k c1 e1 b1) (h2 : Rel u k c2 e2 b2) (hδ : |δ| ≤ u) (hr : r = (c1 + c2) * (1 + δ)) :
    Rel u (k + 1) r (e1 + e2) (b1 + b2) := by
  have hE := E_nonneg hu k
  have hb1 := h1.b_nonneg
  have hb2 := h2.b_nonneg
  refine ⟨?_, (abs_add_le _ _).trans (add_le_add h1.2 h2.2)⟩
  have d1 : |r - (c1 + c2)| ≤ u * |c1 + c2| := err_of_delta hδ hr
  have d2 : |c1 + c2| ≤ (b1 + b2) + E u k * (b1 + b2) := by
    have : c1 + c2 = (e1 + e2) + ((c1 - e1) + (c2 - e2)) := by ring
    calc |c1 + c2| = |(e1 + e2) + ((c1 - e1) + (c2 - e2))| := by rw [← this]
      _ ≤ |e1 + e2| + |(c1 - e1) + (c2 - e2)| := abs_add_le _ _
      _ ≤ (|e1| + |e2|) + (|c1 - e1| + |c2 - e2|) := add_le_add (abs_add_le _ _) (abs_add_le _ _)
      _ ≤ (b1 + b2) + E u k * (b1 + b2) := by
        have := h1.1; have := h2.1; have := h1.2; have := h2.2
        rw [mul_add]; linarith
  have d3 : |r - (e1 + e2)| ≤ |r - (c1 + c2)| + (|c1 - e1| + |c2 - e2|) := by
    have : r - (e1 + e2) = (r - (c1 + c2)) + ((c1 - e1) + (c2 - e2)) := by ring
    rw [this]
    exact (abs_add_le _ _).trans (add_le_add (le_refl _) (abs_add_le _ _))
  have d4 : u * |c1 + c2| ≤ u * ((b1 + b2) + E u k * (b1 + b2)) := mul_le_mul_of_nonneg_left d2 hu
  rw [E_succ]
  have e : (E u k * (1 + u) + u) * (b1 + b2)
      = u * ((b1 + b2) + E u k * (b1 + b2)) + (E u k * b1 + E u k * b2) := by ring
  rw [e]
  have := h1.1; have := h2.1
  linarith

theorem Rel.add {A : Arith ℝ} {u : ℝ} (hA : StdModel A u) {k : Nat} {c1 e1 b1 c2 e2 b2 : ℝ}
    (h1 : Rel u k c1 e1 b1) (h2 : Rel u k c2 e2 b2) :
    Rel u (k + 1) (A.add c1 c2) (e1 + e2) (b1 + b2) := by
  obtain ⟨δ, hδ, h⟩ := hA.add c1 c2
  exact Rel.addlike hA.u_nonneg h1 h2 hδ h

/-- a computed term within relative error `E k` of the exact term -/
theorem Rel.term {u : ℝ} {k : Nat} {c e : ℝ} (h : |c - e| ≤ E u k * |e|) : Rel u k c e |e| :=
  ⟨h, le_refl _⟩

/-! ### three parallel runs -/

inductive All3 (P : ℝ → ℝ → ℝ → Prop) : List ℝ → List ℝ → List ℝ → Prop
  | nil : All3 P [] [] []
  | cons {a b c : ℝ} {as bs cs : List ℝ} : P a b c → All3 P as bs cs → All3 P (a :: as) (b :: bs) (c :: cs)

theorem All3.mono {P Q : ℝ → ℝ → ℝ → Prop} (h : ∀ a b c, P a b c → Q a b c) :
    ∀ {as bs cs}, All3 P as bs cs → All3 Q as bs cs := by
  intro as bs cs H
  induction H with
  | nil => exact All3.nil
  | cons p _ ih => exact All3.cons (h _ _ _ p) ih

theorem All3.replicate {P : ℝ → ℝ → ℝ → Prop} {a b c : ℝ} (h : P a b c) :
    ∀ n, All3 P (List.replicate n a) (List.replicate n b) (List.replicate n c) := by
  intro n
  induction n with
  | zero => exact All3.nil
  | succ n ih => exact All3.cons h ih

theorem All3.cons_inv {P : ℝ → ℝ → ℝ → Prop} {x : ℝ} {xs e b : List ℝ} (h : All3 P (x :: xs) e b) :
    ∃ y ys z zs, e = y :: ys ∧ b = z :: zs ∧ P x y z ∧ All3 P xs ys zs := by
  cases h with
  | cons p t => exact ⟨_, _, _, _, rfl, rfl, p, t⟩

theorem All3.nil_inv {P : ℝ → ℝ → ℝ → Prop} {e b : List ℝ} (h : All3 P [] e b) : e = [] ∧ b = [] := by
  cases h; exact ⟨rfl, rfl⟩

theorem All3.length {P : ℝ → ℝ → ℝ → Prop} : ∀ {as bs cs}, All3 P as bs cs →
    bs.length = as.length ∧ cs.length = as.length := by
  intro as bs cs H
  induction H with
  | nil => exact ⟨rfl, rfl⟩
  | cons _ _ ih => simp [ih.1, ih.2]

theorem zipWith3_rel {P Q : ℝ → ℝ → ℝ → Prop} (s sE sB : ℝ → ℝ → ℝ → ℝ)
    (h : ∀ a b c e bb, P c e bb → Q (s a b c) (sE a b e) (sB a b bb)) :
    ∀ {acc eacc bacc}, All3 P acc eacc bacc → ∀ (xs ys : List ℝ),
      All3 Q (zipWith3 s xs ys acc) (zipWith3 sE xs ys eacc) (zipWith3 sB xs ys bacc) := by
  intro acc eacc bacc H
  induction H with
  | nil => intro xs ys; cases xs <;> cases ys <;> simp [zipWith3] <;> exact All3.nil
  | cons p _ ih =>
    intro xs ys
    cases xs with
    | nil => simp only [zipWith3]; exact All3.nil
    | cons x xs =>
      cases ys with
      | nil => simp only [zipWith3]; exact All3.nil
      | cons y ys => simp only [zipWith3]; exact All3.cons (h _ _ _ _ _ p) (ih xs ys)

/-- the three accumulator states, four accumulators each, related lane by lane -/
def Acc4 (P : ℝ → ℝ → ℝ → Prop) (accs eaccs baccs : List (List ℝ)) : Prop :=
  ∃ a0 a1 a2 a3 e0 e1 e2 e3 b0 b1 b2 b3 : List ℝ,
    accs = [a0, a1, a2, a3] ∧ eaccs = [e0, e1, e2, e3] ∧ baccs = [b0, b1, b2, b3] ∧
    All3 P a0 e0 b0 ∧ All3 P a1 e1 b1 ∧ All3 P a2 e2 b2 ∧ All3 P a3 e3 b3

theorem Acc4.mono {P Q : ℝ → ℝ → ℝ → Prop} (h : ∀ a b c, P a b c → Q a b c) {accs eaccs baccs}
    (H : Acc4 P accs eaccs baccs) : Acc4 Q accs eaccs baccs := by
  obtain ⟨a0, a1, a2, a3, e0, e1, e2, e3, b0, b1, b2, b3, r1, r2, r3, h0, h1, h2, h3⟩ := H
  exact ⟨a0, a1, a2, a3, e0, e1, e2, e3, b0, b1, b2, b3, r1, r2, r3,
    h0.mono h, h1.mono h, h2.mono h, h3.mono h⟩

theorem blockStep_rel {P Q : ℝ → ℝ → ℝ → Prop} (lanes : Nat) (s sE sB : ℝ → ℝ → ℝ → ℝ)
    (h : ∀ a b c e bb, P c e bb → Q (s a b c) (sE a b e) (sB a b bb))
    {accs eaccs baccs} (H : Acc4 P accs eaccs baccs) (bu bv : List ℝ) :
    Acc4 Q (blockStep lanes s accs bu bv) (blockStep lanes sE eaccs bu bv) (blockStep lanes sB baccs bu bv) := by
  obtain ⟨a0, a1, a2, a3, e0, e1, e2, e3, b0, b1, b2, b3, rfl, rfl, rfl, h0, h1, h2, h3⟩ := H
  simp only [blockStep_four]
  exact ⟨_, _, _, _, _, _, _, _, _, _, _, _, rfl, rfl, rfl,
    zipWith3_rel s sE sB h h0 _ _, zipWith3_rel s sE sB h h1 _ _,
    zipWith3_rel s sE sB h h2 _ _, zipWith3_rel s sE sB h h3 _ _⟩

theorem mainLoop_rel {u : ℝ} (hu : 0 ≤ u) (lanes : Nat) (s sE sB : ℝ → ℝ → ℝ → ℝ) (k0 : Nat)
    (h : ∀ k, k0 ≤ k → ∀ a b c e bb, Rel u k c e bb → Rel u (k + 1) (s a b c) (sE a b e) (sB a b bb)) :
    ∀ (us vs : List (List ℝ)) (k : Nat), k0 ≤ k → ∀ {accs eaccs baccs}, Acc4 (Rel u k) accs eaccs baccs →
      Acc4 (Rel u (k + us.length)) (mainLoop lanes s accs us vs) (mainLoop lanes sE eaccs us vs)
        (mainLoop lanes sB baccs us vs) := by
  intro us
  induction us with
  | nil => intro vs k _ accs eaccs baccs H; simpa [mainLoop] using H
  | cons bu us ih =>
    intro vs k hk accs eaccs baccs H
    cases vs with
    | nil =>
      simp only [mainLoop]
      exact H.mono (fun _ _ _ r => r.mono hu (by omega))
    | cons bv vs =>
      simp only [mainLoop, List.length_cons]
      have := ih vs (k + 1) (by omega) (blockStep_rel lanes s sE sB (h k hk) H bu bv)
      rwa [show k + 1 + us.length = k + (us.length + 1) by omega] at this

theorem foldl_rel {u : ℝ} (t tE tB : ℝ → ℝ → ℝ → ℝ) (k0 : Nat)
    (h : ∀ k, k0 ≤ k → ∀ a b c e bb, Rel u k c e bb → Rel u (k + 1) (t c a b) (tE e a b) (tB bb a b)) :
    ∀ (l : List (ℝ × ℝ)) (k : Nat), k0 ≤ k → ∀ c e bb, Rel u k c e bb →
      Rel u (k + l.length) (l.foldl (fun r (p : ℝ × ℝ) => t r p.1 p.2) c)
        (l.foldl (fun r (p : ℝ × ℝ) => tE r p.1 p.2) e) (l.foldl (fun r (p : ℝ × ℝ) => tB r p.1 p.2) bb) := by
  intro l
  induction l with
  | nil => intro k _ c e bb H; simpa using H
  | cons p l ih =>
    intro k hk c e bb H
    simp only [List.foldl_cons, List.length_cons]
    have := ih (k + 1) (by omega) _ _ _ (h k hk p.1 p.2 _ _ _ H)
    rwa [show k + 1 + l.length = k + (l.length + 1) by omega] at this

/-- the graded relation between the computed run, the exact run and the run on absolute values of a
kernel of the SSE/AVX shape -/
theorem simd_rel {A : Arith ℝ} {u : ℝ} (hA : StdModel A u) (lanes : Nat) (hl : 0 < lanes)
    (s sE sB : ℝ → ℝ → ℝ → ℝ) (hs hsE : List ℝ → ℝ) (t tE tB : ℝ → ℝ → ℝ → ℝ) (k0 hk : Nat)
    (hstep : ∀ k, k0 ≤ k → ∀ a b c e bb, Rel u k c e bb → Rel u (k + 1) (s a b c) (sE a b e) (sB a b bb))
    (hhsum : ∀ k a e b, All3 (Rel u k) a e b → Rel u (k + hk) (hs a) (hsE e) (hsE b))
    (htail : ∀ k, k0 ≤ k → ∀ a b c e bb, Rel u k c e bb → Rel u (k + 1) (t c a b) (tE e a b) (tB bb a b))
    (x y : List ℝ) :
    Rel u (k0 + x.length / (4 * lanes) + hk + 3 + x.length % (4 * lanes))
      (simd A lanes s hs t x y) (simd (ringArith ℝ) lanes sE hsE tE x y)
      (simd (ringArith ℝ) lanes sB hsE tB x y) := by
  have hu := hA.u_nonneg
  unfold simd
  simp only
  have hk4 : 0 < 4 * lanes := by omega
  have hm : (x.take (x.length - x.length % (4 * lanes))).length
      = (x.length / (4 * lanes)) * (4 * lanes) := by
    rw [List.length_take, ← prefix_len]; omega
  have hq : (chunks (4 * lanes) (x.take (x.length - x.length % (4 * lanes)))).length
      = x.length / (4 * lanes) := (chunks_mul hk4 _ _ hm).1
  have hz : (ringArith ℝ).zero = 0 := rfl
  have init : Acc4 (Rel u k0) (List.replicate 4 (List.replicate lanes A.zero))
      (List.replicate 4 (List.replicate lanes (0 : ℝ))) (List.replicate 4 (List.replicate lanes (0 : ℝ))) := by
    rw [hA.zero]
    exact ⟨_, _, _, _, _, _, _, _, _, _, _, _, rfl, rfl, rfl,
      All3.replicate (Rel.zero u k0) _, All3.replicate (Rel.zero u k0) _,
      All3.replicate (Rel.zero u k0) _, All3.replicate (Rel.zero u k0) _⟩
  have main := mainLoop_rel hu lanes s sE sB k0 hstep
    (chunks (4 * lanes) (x.take (x.length - x.length % (4 * lanes))))
    (chunks (4 * lanes) (y.take (x.length - x.length % (4 * lanes)))) k0 (le_refl _) init
  rw [hq] at main
  rw [hz]
  obtain ⟨a0, a1, a2, a3, e0, e1, e2, e3, b0, b1, b2, b3, r1, r2, r3, h0, h1, h2, h3⟩ := main
  rw [r1, r2, r3]
  simp only [List.map_cons, List.map_nil]
  set k1 := k0 + x.length / (4 * lanes)
  have g0 := hhsum k1 _ _ _ h0
  have g1 := hhsum k1 _ _ _ h1
  have g2 := hhsum k1 _ _ _ h2
  have g3 := hhsum k1 _ _ _ h3
  have s1 := Rel.add hA g0 g1
  have s2 := Rel.add hA s1 (g2.mono hu (Nat.le_succ _))
  have s3 := Rel.add hA s2 (g3.mono hu (by omega : k1 + hk ≤ k1 + hk + 1 + 1))
  have fin := foldl_rel t tE tB k0 htail
    (List.zip (x.drop (x.length - x.length % (4 * lanes))) (y.drop (x.length - x.length % (4 * lanes))))
    (k1 + hk + 1 + 1 + 1) (by omega) _ _ _ s3
  refine Rel.mono hu ?_ fin
  have : (List.zip (x.drop (x.length - x.length % (4 * lanes)))
      (y.drop (x.length - x.length % (4 * lanes)))).length ≤ x.length % (4 * lanes) := by
    rw [List.length_zip, List.length_drop]
    have := Nat.mod_le x.length (4 * lanes)
    omega
  omega

/-! ### horizontal sums -/

theorem hsum128_ne {α : Type} (A : Arith α) (a : List α) (h : a.length ≠ 4) : hsum128 A a = A.zero := by
  unfold hsum128
  split
  · simp at h
  · rfl

theorem hsum256_ne {α : Type} (A : Arith α) (a : List α) (h : a.length ≠ 8) : hsum256 A a = A.zero := by
  unfold hsum256
  split
  · simp at h
  · rfl

theorem hsum128_rel {A : Arith ℝ} {u : ℝ} (hA : StdModel A u) (k : Nat) (a e b : List ℝ)
    (H : All3 (Rel u k) a e b) :
    Rel u (k + 2) (hsum128 A a) (hsum128 (ringArith ℝ) e) (hsum128 (ringArith ℝ) b) := by
  by_cases hl : a.length = 4
  · match a, hl with
    | [x0, x1, x2, x3], _ =>
      obtain ⟨y0, e', z0, b', rfl, rfl, p0, H⟩ := H.cons_inv
      obtain ⟨y1, e', z1, b', rfl, rfl, p1, H⟩ := H.cons_inv
      obtain ⟨y2, e', z2, b', rfl, rfl, p2, H⟩ := H.cons_inv
      obtain ⟨y3, e', z3, b', rfl, rfl, p3, H⟩ := H.cons_inv
      obtain ⟨rfl, rfl⟩ := H.nil_inv
      exact Rel.add hA (Rel.add hA p0 p2) (Rel.add hA p1 p3)
  · have he : e.length ≠ 4 := by rw [H.length.1]; exact hl
    have hb : b.length ≠ 4 := by rw [H.length.2]; exact hl
    rw [hsum128_ne A a hl, hsum128_ne _ e he, hsum128_ne _ b hb, hA.zero]
    exact Rel.zero u _

theorem hsum256_rel {A : Arith ℝ} {u : ℝ} (hA : StdModel A u) (k : Nat) (a e b : List ℝ)
    (H : All3 (Rel u k) a e b) :
    Rel u (k + 3) (hsum256 A a) (hsum256 (ringArith ℝ) e) (hsum256 (ringArith ℝ) b) := by
  by_cases hl : a.length = 8
  · match a, hl with
    | [x0, x1, x2, x3, x4, x5, x6, x7], _ =>
      obtain ⟨y0, e', z0, b', rfl, rfl, p0, H⟩ := H.cons_inv
      obtain ⟨y1, e', z1, b', rfl, rfl, p1, H⟩ := H.cons_inv
      obtain ⟨y2, e', z2, b', rfl, rfl, p2, H⟩ := H.cons_inv
      obtain ⟨y3, e', z3, b', rfl, rfl, p3, H⟩ := H.cons_inv
      obtain ⟨y4, e', z4, b', rfl, rfl, p4, H⟩ := H.cons_inv
      obtain ⟨y5, e', z5, b', rfl, rfl, p5, H⟩ := H.cons_inv
      obtain ⟨y6, e', z6, b', rfl, rfl, p6, H⟩ := H.cons_inv
      obtain ⟨y7, e', z7, b', rfl, rfl, p7, H⟩ := H.cons_inv
      obtain ⟨rfl, rfl⟩ := H.nil_inv
      exact hsum128_rel hA (k + 1) _ _ _
        (All3.cons (Rel.add hA p4 p0) (All3.cons (Rel.add hA p5 p1) (All3.cons (Rel.add hA p6 p2)
          (All3.cons (Rel.add hA p7 p3) All3.nil))))
  · have he : e.length ≠ 8 := by rw [H.length.1]; exact hl
    have hb : b.length ≠ 8 := by rw [H.length.2]; exact hl
    rw [hsum256_ne A a hl, hsum256_ne _ e he, hsum256_ne _ b hb, hA.zero]
    exact Rel.zero u _

/-! ### the four vectorised kernels -/

theorem E_one (u : ℝ) : E u 1 = u := by simp [E]

theorem map_abs_zipWith (t : ℝ → ℝ → ℝ) (x y : List ℝ) :
    (List.zipWith (fun a b => |t a b|) x y) = (List.zipWith t x y).map (fun z => |z|) := by
  rw [List.map_zipWith]

/-- common last step: from the graded relation to the error bound against the exact sums -/
theorem bound_of_rel {A : Arith ℝ} {u : ℝ} (lanes : Nat) (hl : 0 < lanes)
    (s sE sB : ℝ → ℝ → ℝ → ℝ) (hs hsE : List ℝ → ℝ) (tl tE tB : ℝ → ℝ → ℝ → ℝ) (t : ℝ → ℝ → ℝ) (K : Nat)
    (x y : List ℝ) (hlen : x.length = y.length)
    (hE1 : ∀ a b c, sE a b c = t a b + c) (hE2 : ∀ r a b, tE r a b = r + t a b)
    (hB1 : ∀ a b c, sB a b c = |t a b| + c) (hB2 : ∀ r a b, tB r a b = r + |t a b|)
    (hh : ∀ a : List ℝ, a.length = lanes → hsE a = a.sum)
    (H : Rel u K (simd A lanes s hs tl x y) (simd (ringArith ℝ) lanes sE hsE tE x y)
      (simd (ringArith ℝ) lanes sB hsE tB x y)) :
    |simd A lanes s hs tl x y - (List.zipWith t x y).sum|
      ≤ ((1 + u)^K - 1) * ((List.zipWith t x y).map (fun z => |z|)).sum := by
  have e1 := KernelCover.simd_sum lanes hl sE hsE tE t hE1 hh hE2 x y hlen
  have e2 := KernelCover.simd_sum lanes hl sB hsE tB (fun a b => |t a b|) hB1 hh hB2 x y hlen
  rw [e1, e2, map_abs_zipWith] at H
  exact H.1

theorem mul_rel {A : Arith ℝ} {u : ℝ} (hA : StdModel A u) {k : Nat} (hk : 1 ≤ k) (a b : ℝ) :
    Rel u k (A.mul a b) (a * b) |a * b| := by
  have h := mul_term_err hA a b
  rw [← E_one u] at h
  exact (Rel.term h).mono hA.u_nonneg hk

theorem sq_rel {A : Arith ℝ} {u : ℝ} (hA : StdModel A u) {k : Nat} (hk : 3 ≤ k) (a b : ℝ) :
    Rel u k (A.mul (A.sub a b) (A.sub a b)) ((a - b) * (a - b)) |(a - b) * (a - b)| :=
  (Rel.term (sq_term_err hA a b)).mono hA.u_nonneg hk

theorem dotSse_round {A : Arith ℝ} {u : ℝ} (hA : StdModel A u) (x y : List ℝ) (hlen : x.length = y.length) :
    |dotSse A x y - (List.zipWith (· * ·) x y).sum|
      ≤ ((1 + u)^(x.length / 16 + x.length % 16 + 6) - 1)
        * ((List.zipWith (· * ·) x y).map (fun z => |z|)).sum := by
  have H := simd_rel hA 4 (by decide)
    (fun a b acc => A.add (A.mul a b) acc) (fun a b e => a * b + e) (fun a b bb => |a * b| + bb)
    (hsum128 A) (hsum128 (ringArith ℝ))
    (fun r a b => A.add r (A.mul a b)) (fun r a b => r + a * b) (fun r a b => r + |a * b|) 1 2
    (fun k hk a b c e bb h => Rel.add hA (mul_rel hA hk a b) h)
    (fun k a e b h => hsum128_rel hA k a e b h)
    (fun k hk a b c e bb h => Rel.add hA h (mul_rel hA hk a b)) x y
  have hK : 1 + x.length / (4 * 4) + 2 + 3 + x.length % (4 * 4) = x.length / 16 + x.length % 16 + 6 := by
    omega
  rw [hK] at H
  exact bound_of_rel 4 (by decide) _ _ _ _ _ _ _ _ (· * ·) _ x y hlen (fun _ _ _ => rfl) (fun _ _ _ => rfl)
    (fun _ _ _ => rfl) (fun _ _ _ => rfl) KernelCover.hsum128_sum H

theorem euclidSse_round {A : Arith ℝ} {u : ℝ} (hA : StdModel A u) (x y : List ℝ) (hlen : x.length = y.length) :
    |euclidSse A x y - (List.zipWith (fun a b => (a - b) * (a - b)) x y).sum|
      ≤ ((1 + u)^(x.length / 16 + x.length % 16 + 8) - 1)
        * ((List.zipWith (fun a b => (a - b) * (a - b)) x y).map (fun z => |z|)).sum := by
  have H := simd_rel hA 4 (by decide)
    (fun a b acc => A.add (A.mul (A.sub a b) (A.sub a b)) acc)
    (fun a b e => (a - b) * (a - b) + e) (fun a b bb => |(a - b) * (a - b)| + bb)
    (hsum128 A) (hsum128 (ringArith ℝ))
    (fun r a b => A.add r (A.mul (A.sub a b) (A.sub a b)))
    (fun r a b => r + (a - b) * (a - b)) (fun r a b => r + |(a - b) * (a - b)|) 3 2
    (fun k hk a b c e bb h => Rel.add hA (sq_rel hA hk a b) h)
    (fun k a e b h => hsum128_rel hA k a e b h)
    (fun k hk a b c e bb h => Rel.add hA h (sq_rel hA hk a b)) x y
  have hK : 3 + x.length / (4 * 4) + 2 + 3 + x.length % (4 * 4) = x.length / 16 + x.length % 16 + 8 := by
    omega
  rw [hK] at H
  exact bound_of_rel 4 (by decide) _ _ _ _ _ _ _ _ (fun a b => (a - b) * (a - b)) _ x y hlen
    (fun _ _ _ => rfl) (fun _ _ _ => rfl) (fun _ _ _ => rfl) (fun _ _ _ => rfl) KernelCover.hsum128_sum H

/-- `fma(a, b, c)` with exact product of its (already computed) arguments -/
theorem fma_rel {A : Arith ℝ} {u : ℝ} (hA : StdModel A u) {k : Nat} {p pe c e bb : ℝ} (a b : ℝ)
    (hp : a * b = p) (h1 : Rel u k p pe |pe|) (h2 : Rel u k c e bb) :
    Rel u (k + 1) (A.fma a b c) (pe + e) (|pe| + bb) := by
  obtain ⟨δ, hδ, h⟩ := hA.fma a b c
  rw [hp] at h
  exact Rel.addlike hA.u_nonneg h1 h2 hδ h

theorem exact_rel {u : ℝ} (hu : 0 ≤ u) (k : Nat) (p : ℝ) : Rel u k p p |p| := by
  constructor
  · rw [sub_self, abs_zero]; exact mul_nonneg (E_nonneg hu k) (abs_nonneg p)
  · exact le_refl _

theorem dotAvx_round {A : Arith ℝ} {u : ℝ} (hA : StdModel A u) (x y : List ℝ) (hlen : x.length = y.length) :
    |dotAvx A x y - (List.zipWith (· * ·) x y).sum|
      ≤ ((1 + u)^(x.length / 32 + x.length % 32 + 7) - 1)
        * ((List.zipWith (· * ·) x y).map (fun z => |z|)).sum := by
  have H := simd_rel hA 8 (by decide)
    (fun a b acc => A.fma a b acc) (fun a b e => a * b + e) (fun a b bb => |a * b| + bb)
    (hsum256 A) (hsum256 (ringArith ℝ))
    (fun r a b => A.add r (A.mul a b)) (fun r a b => r + a * b) (fun r a b => r + |a * b|) 1 3
    (fun k _ a b c e bb h => fma_rel hA a b rfl (exact_rel hA.u_nonneg k (a * b)) h)
    (fun k a e b h => hsum256_rel hA k a e b h)
    (fun k hk a b c e bb h => Rel.add hA h (mul_rel hA hk a b)) x y
  have hK : 1 + x.length / (4 * 8) + 3 + 3 + x.length % (4 * 8) = x.length / 32 + x.length % 32 + 7 := by
    omega
  rw [hK] at H
  exact bound_of_rel 8 (by decide) _ _ _ _ _ _ _ _ (· * ·) _ x y hlen (fun _ _ _ => rfl) (fun _ _ _ => rfl)
    (fun _ _ _ => rfl) (fun _ _ _ => rfl) KernelCover.hsum256_sum H

/-- the exact square of the computed difference, relative to `(a−b)²` -/
theorem dd_rel {A : Arith ℝ} {u : ℝ} (hA : StdModel A u) {k : Nat} (hk : 2 ≤ k) (a b : ℝ) :
    Rel u k (A.sub a b * A.sub a b) ((a - b) * (a - b)) |(a - b) * (a - b)| := by
  have hu := hA.u_nonneg
  obtain ⟨δ1, hδ1, h1⟩ := hA.sub a b
  have e : A.sub a b * A.sub a b - (a - b) * (a - b)
      = ((a - b) * (a - b)) * ((1 * (1 + δ1)) * (1 + δ1) - 1) := by rw [h1]; ring
  have r0 : |(1:ℝ) - 1| ≤ E u 0 := by simp [E]
  have r1 := relerr_step hu r0 hδ1
  have r2 := relerr_step hu r1 hδ1
  have : |A.sub a b * A.sub a b - (a - b) * (a - b)| ≤ E u 2 * |(a - b) * (a - b)| := by
    rw [e, abs_mul, mul_comm]
    exact mul_le_mul_of_nonneg_right r2 (abs_nonneg _)
  exact (Rel.term this).mono hu hk

theorem euclidAvx_round {A : Arith ℝ} {u : ℝ} (hA : StdModel A u) (x y : List ℝ) (hlen : x.length = y.length) :
    |euclidAvx A x y - (List.zipWith (fun a b => (a - b) * (a - b)) x y).sum|
      ≤ ((1 + u)^(x.length / 32 + x.length % 32 + 9) - 1)
        * ((List.zipWith (fun a b => (a - b) * (a - b)) x y).map (fun z => |z|)).sum := by
  have H := simd_rel hA 8 (by decide)
    (fun a b acc => A.fma (A.sub a b) (A.sub a b) acc)
    (fun a b e => (a - b) * (a - b) + e) (fun a b bb => |(a - b) * (a - b)| + bb)
    (hsum256 A) (hsum256 (ringArith ℝ))
    (fun r a b => A.add r (A.mul (A.sub a b) (A.sub a b)))
    (fun r a b => r + (a - b) * (a - b)) (fun r a b => r + |(a - b) * (a - b)|) 3 3
    (fun k hk a b c e bb h => fma_rel hA (A.sub a b) (A.sub a b) rfl (dd_rel hA (by omega) a b) h)
    (fun k a e b h => hsum256_rel hA k a e b h)
    (fun k hk a b c e bb h => Rel.add hA h (sq_rel hA hk a b)) x y
  have hK : 3 + x.length / (4 * 8) + 3 + 3 + x.length % (4 * 8) = x.length / 32 + x.length % 32 + 9 := by
    omega
  rw [hK] at H
  exact bound_of_rel 8 (by decide) _ _ _ _ _ _ _ _ (fun a b => (a - b) * (a - b)) _ x y hlen
    (fun _ _ _ => rfl) (fun _ _ _ => rfl) (fun _ _ _ => rfl) (fun _ _ _ => rfl) KernelCover.hsum256_sum H

end KernelRound
end Arroy
