import ArroyProofs.KernelRoundChk
/-! The seven kernels under a checked standard model (`ChkModel`): if the flag of the instrumented run
is set, the plain run is within the standard-model bound of the exact value. -/
namespace Arroy
namespace KernelRound
open Kernel
variable {α : Type} {A : Arith α} {val : α → ℝ} {C : Checks α} {u : ℝ}

/-! ### scalar kernels -/

theorem scalar_crel (hA : ChkModel A val C u) (tm : α × Bool → α × Bool → α × Bool) (t : ℝ → ℝ → ℝ)
    (k0 : Nat)
    (hterm : ∀ k, k0 ≤ k → ∀ a b, CRel val u k (tm a b) (t (val a.1) (val b.1)) |t (val a.1) (val b.1)|) :
    ∀ (x y : List (α × Bool)) (k : Nat), k0 ≤ k → ∀ c e b, CRel val u k c e b →
      CRel val u (k + (List.zipWith tm x y).length)
        ((List.zipWith tm x y).foldl (chkArith A C).add c)
        (e + (List.zipWith t (x.map (fun c => val c.1)) (y.map (fun c => val c.1))).sum)
        (b + ((List.zipWith t (x.map (fun c => val c.1)) (y.map (fun c => val c.1))).map
          (fun z => |z|)).sum) := by
  intro x
  induction x with
  | nil => intro y k _ c e b H; simpa using H
  | cons a x ih =>
    intro y k hk c e b H
    cases y with
    | nil => simpa using H
    | cons b' y =>
      simp only [List.map_cons, List.zipWith_cons_cons, List.foldl_cons, List.length_cons,
        List.sum_cons]
      have := ih y (k + 1) (by omega) _ _ _ (CRel.add hA H (hterm k hk a b'))
      rw [show k + 1 + (List.zipWith tm x y).length = k + ((List.zipWith tm x y).length + 1) by omega,
        add_assoc, add_assoc] at this
      exact this

/-- a scalar kernel `Σ tm(xᵢ, yᵢ)` with terms of grade `k0` -/
theorem scalar_round_chk (hA : ChkModel A val C u) (tm : α × Bool → α × Bool → α × Bool)
    (tm' : α → α → α) (htm : ∀ a b, (tm a b).1 = tm' a.1 b.1) (t : ℝ → ℝ → ℝ) (k0 : Nat)
    (hterm : ∀ k, k0 ≤ k → ∀ a b, CRel val u k (tm a b) (t (val a.1) (val b.1)) |t (val a.1) (val b.1)|)
    (x y : List α) (n : Nat) (hx : x.length = n) (hy : y.length = n)
    (hrun : ((List.zipWith tm (chkIn x) (chkIn y)).foldl (chkArith A C).add (chkArith A C).sumInit).2 = true) :
    |val ((List.zipWith tm' x y).foldl A.add A.sumInit)
        - (List.zipWith (fun a b => t (val a) (val b)) x y).sum|
      ≤ ((1 + u)^(n + k0) - 1)
        * ((List.zipWith (fun a b => t (val a) (val b)) x y).map (fun z => |z|)).sum := by
  have H := scalar_crel hA tm t k0 hterm (chkIn x) (chkIn y) k0 (le_refl _) (chkArith A C).sumInit 0 0
    (CRel.zero u k0 _ hA.sumInit)
  have hnat := scalar_map Prod.fst (chk_fst_hom A C) tm tm' htm (chkIn x) (chkIn y)
  rw [chkIn_fst, chkIn_fst] at hnat
  have hl : (List.zipWith tm (chkIn x) (chkIn y)).length = n := by
    rw [List.length_zipWith, chkIn_length, chkIn_length, hx, hy, Nat.min_self]
  rw [hl, chkIn_val, chkIn_val, zero_add, zero_add, List.zipWith_map] at H
  have := H.1 hrun
  rw [← hnat] at this
  rw [Nat.add_comm n k0]
  exact this

theorem dotScalar_round_chk (hA : ChkModel A val C u) (x y : List α) (n : Nat)
    (hx : x.length = n) (hy : y.length = n)
    (hrun : (dotScalar (chkArith A C) (chkIn x) (chkIn y)).2 = true) :
    |val (dotScalar A x y) - (List.zipWith (fun a b => val a * val b) x y).sum|
      ≤ ((1 + u)^(n + 1) - 1) * ((List.zipWith (fun a b => val a * val b) x y).map (fun z => |z|)).sum :=
  scalar_round_chk hA (chkArith A C).mul A.mul (fun _ _ => rfl) (fun a b => a * b) 1
    (fun _ hk a b => mul_crel hA hk a b) x y n hx hy hrun

theorem euclidScalar_round_chk (hA : ChkModel A val C u) (x y : List α) (n : Nat)
    (hx : x.length = n) (hy : y.length = n)
    (hrun : (euclidScalar (chkArith A C) (chkIn x) (chkIn y)).2 = true) :
    |val (euclidScalar A x y) - (List.zipWith (fun a b => (val a - val b) * (val a - val b)) x y).sum|
      ≤ ((1 + u)^(n + 3) - 1)
        * ((List.zipWith (fun a b => (val a - val b) * (val a - val b)) x y).map (fun z => |z|)).sum :=
  scalar_round_chk hA
    (fun a b => (chkArith A C).mul ((chkArith A C).sub a b) ((chkArith A C).sub a b))
    (fun a b => A.mul (A.sub a b) (A.sub a b)) (fun _ _ => rfl) (fun a b => (a - b) * (a - b)) 3
    (fun _ hk a b => sq_crel hA hk a b) x y n hx hy hrun

/-- Manhattan distance with an `abs` that is exact on every checked difference -/
theorem manhattan_round_chk (hA : ChkModel A val C u) (absf : α → α)
    (habs : ∀ a b, C.sub a b = true → val (absf (A.sub a b)) = |val (A.sub a b)|)
    (x y : List α) (n : Nat) (hx : x.length = n) (hy : y.length = n)
    (hrun : (manhattanWith (chkArith A C) (fun c => (absf c.1, c.2)) (chkIn x) (chkIn y)).2 = true) :
    |val (manhattanWith A absf x y) - (List.zipWith (fun a b => |val a - val b|) x y).sum|
      ≤ ((1 + u)^(n + 1) - 1)
        * ((List.zipWith (fun a b => |val a - val b|) x y).map (fun z => |z|)).sum := by
  refine scalar_round_chk hA
    (fun a b => ((absf ((chkArith A C).sub a b).1, ((chkArith A C).sub a b).2) : α × Bool))
    (fun a b => absf (A.sub a b)) (fun _ _ => rfl) (fun a b => |a - b|) 1
    (fun k hk a b => ?_) x y n hx hy hrun
  refine CRel.of_rel (le_refl _) ?_
  intro hc
  have hc' : ((chkArith A C).sub a b).2 = true := hc
  obtain ⟨_, _, f3⟩ := and3_true hc'
  obtain ⟨δ, hδ, h⟩ := hA.sub a.1 b.1 f3
  have e1 := err_of_delta hδ h
  have : |val (absf (A.sub a.1 b.1)) - (|val a.1 - val b.1|)| ≤ E u 1 * |(|val a.1 - val b.1|)| := by
    rw [habs _ _ f3, abs_abs, E_one]
    exact (abs_abs_sub_abs_le_abs_sub _ _).trans e1
  exact (Rel.term this).mono hA.u_nonneg hk

/-! ### the vectorised kernels -/

/-- common last step: from the graded relation to the error bound against the exact sums -/
theorem bound_of_crel (lanes : Nat) (hl : 0 < lanes)
    (sE sB : ℝ → ℝ → ℝ → ℝ) (hsE : List ℝ → ℝ) (tE tB : ℝ → ℝ → ℝ → ℝ) (t : ℝ → ℝ → ℝ) (K : Nat)
    (r : α × Bool) (r' : α) (hr : r.1 = r')
    (x y : List α) (hlen : x.length = y.length)
    (hE1 : ∀ a b c, sE a b c = t a b + c) (hE2 : ∀ r a b, tE r a b = r + t a b)
    (hB1 : ∀ a b c, sB a b c = |t a b| + c) (hB2 : ∀ r a b, tB r a b = r + |t a b|)
    (hh : ∀ a : List ℝ, a.length = lanes → hsE a = a.sum)
    (H : CRel val u K r
      (simd (ringArith ℝ) lanes sE hsE tE ((chkIn x).map (fun c => val c.1)) ((chkIn y).map (fun c => val c.1)))
      (simd (ringArith ℝ) lanes sB hsE tB ((chkIn x).map (fun c => val c.1)) ((chkIn y).map (fun c => val c.1))))
    (hflag : r.2 = true) :
    |val r' - (List.zipWith (fun a b => t (val a) (val b)) x y).sum|
      ≤ ((1 + u)^K - 1) * ((List.zipWith (fun a b => t (val a) (val b)) x y).map (fun z => |z|)).sum := by
  have hlen' : (x.map val).length = (y.map val).length := by simp [hlen]
  have e1 := KernelCover.simd_sum lanes hl sE hsE tE t hE1 hh hE2 (x.map val) (y.map val) hlen'
  have e2 := KernelCover.simd_sum lanes hl sB hsE tB (fun a b => |t a b|) hB1 hh hB2
    (x.map val) (y.map val) hlen'
  rw [chkIn_val, chkIn_val, e1, e2, map_abs_zipWith, List.zipWith_map] at H
  have := H.1 hflag
  rwa [hr] at this

theorem dotSse_round_chk (hA : ChkModel A val C u) (x y : List α) (hlen : x.length = y.length)
    (hrun : (dotSse (chkArith A C) (chkIn x) (chkIn y)).2 = true) :
    |val (dotSse A x y) - (List.zipWith (fun a b => val a * val b) x y).sum|
      ≤ ((1 + u)^(x.length / 16 + x.length % 16 + 6) - 1)
        * ((List.zipWith (fun a b => val a * val b) x y).map (fun z => |z|)).sum := by
  have H := simd_rel' hA 4 (by decide)
    (fun a b acc => (chkArith A C).add ((chkArith A C).mul a b) acc)
    (fun a b e => a * b + e) (fun a b bb => |a * b| + bb)
    (hsum128 (chkArith A C)) (hsum128 (ringArith ℝ))
    (fun r a b => (chkArith A C).add r ((chkArith A C).mul a b))
    (fun r a b => r + a * b) (fun r a b => r + |a * b|) 1 2
    (fun k hk a b c e bb h => CRel.add hA (mul_crel hA hk a b) h)
    (fun k a e b h => hsum128_rel' hA k a e b h)
    (fun k hk a b c e bb h => CRel.add hA h (mul_crel hA hk a b)) (chkIn x) (chkIn y)
  have hK : 1 + (chkIn x).length / (4 * 4) + 2 + 3 + (chkIn x).length % (4 * 4)
      = x.length / 16 + x.length % 16 + 6 := by
    rw [chkIn_length]; omega
  rw [hK] at H
  have hnat := dotSse_map Prod.fst (chk_fst_hom A C) (chkIn x) (chkIn y)
  rw [chkIn_fst, chkIn_fst] at hnat
  exact bound_of_crel 4 (by decide) _ _ _ _ _ (fun a b => a * b) _ _ _ hnat.symm x y hlen
    (fun _ _ _ => rfl) (fun _ _ _ => rfl) (fun _ _ _ => rfl) (fun _ _ _ => rfl) KernelCover.hsum128_sum H hrun

theorem euclidSse_round_chk (hA : ChkModel A val C u) (x y : List α) (hlen : x.length = y.length)
    (hrun : (euclidSse (chkArith A C) (chkIn x) (chkIn y)).2 = true) :
    |val (euclidSse A x y) - (List.zipWith (fun a b => (val a - val b) * (val a - val b)) x y).sum|
      ≤ ((1 + u)^(x.length / 16 + x.length % 16 + 8) - 1)
        * ((List.zipWith (fun a b => (val a - val b) * (val a - val b)) x y).map (fun z => |z|)).sum := by
  have H := simd_rel' hA 4 (by decide)
    (fun a b acc => (chkArith A C).add
      ((chkArith A C).mul ((chkArith A C).sub a b) ((chkArith A C).sub a b)) acc)
    (fun a b e => (a - b) * (a - b) + e) (fun a b bb => |(a - b) * (a - b)| + bb)
    (hsum128 (chkArith A C)) (hsum128 (ringArith ℝ))
    (fun r a b => (chkArith A C).add r
      ((chkArith A C).mul ((chkArith A C).sub a b) ((chkArith A C).sub a b)))
    (fun r a b => r + (a - b) * (a - b)) (fun r a b => r + |(a - b) * (a - b)|) 3 2
    (fun k hk a b c e bb h => CRel.add hA (sq_crel hA hk a b) h)
    (fun k a e b h => hsum128_rel' hA k a e b h)
    (fun k hk a b c e bb h => CRel.add hA h (sq_crel hA hk a b)) (chkIn x) (chkIn y)
  have hK : 3 + (chkIn x).length / (4 * 4) + 2 + 3 + (chkIn x).length % (4 * 4)
      = x.length / 16 + x.length % 16 + 8 := by
    rw [chkIn_length]; omega
  rw [hK] at H
  have hnat := euclidSse_map Prod.fst (chk_fst_hom A C) (chkIn x) (chkIn y)
  rw [chkIn_fst, chkIn_fst] at hnat
  exact bound_of_crel 4 (by decide) _ _ _ _ _ (fun a b => (a - b) * (a - b)) _ _ _ hnat.symm x y hlen
    (fun _ _ _ => rfl) (fun _ _ _ => rfl) (fun _ _ _ => rfl) (fun _ _ _ => rfl) KernelCover.hsum128_sum H hrun

theorem dotAvx_round_chk (hA : ChkModel A val C u) (x y : List α) (hlen : x.length = y.length)
    (hrun : (dotAvx (chkArith A C) (chkIn x) (chkIn y)).2 = true) :
    |val (dotAvx A x y) - (List.zipWith (fun a b => val a * val b) x y).sum|
      ≤ ((1 + u)^(x.length / 32 + x.length % 32 + 7) - 1)
        * ((List.zipWith (fun a b => val a * val b) x y).map (fun z => |z|)).sum := by
  have H := simd_rel' hA 8 (by decide)
    (fun a b acc => (chkArith A C).fma a b acc)
    (fun a b e => a * b + e) (fun a b bb => |a * b| + bb)
    (hsum256 (chkArith A C)) (hsum256 (ringArith ℝ))
    (fun r a b => (chkArith A C).add r ((chkArith A C).mul a b))
    (fun r a b => r + a * b) (fun r a b => r + |a * b|) 1 3
    (fun k _ a b c e bb h => fma_crel hA a b c (fun _ _ => exact_rel hA.u_nonneg k _) h)
    (fun k a e b h => hsum256_rel' hA k a e b h)
    (fun k hk a b c e bb h => CRel.add hA h (mul_crel hA hk a b)) (chkIn x) (chkIn y)
  have hK : 1 + (chkIn x).length / (4 * 8) + 3 + 3 + (chkIn x).length % (4 * 8)
      = x.length / 32 + x.length % 32 + 7 := by
    rw [chkIn_length]; omega
  rw [hK] at H
  have hnat := dotAvx_map Prod.fst (chk_fst_hom A C) (chkIn x) (chkIn y)
  rw [chkIn_fst, chkIn_fst] at hnat
  exact bound_of_crel 8 (by decide) _ _ _ _ _ (fun a b => a * b) _ _ _ hnat.symm x y hlen
    (fun _ _ _ => rfl) (fun _ _ _ => rfl) (fun _ _ _ => rfl) (fun _ _ _ => rfl) KernelCover.hsum256_sum H hrun

theorem euclidAvx_round_chk (hA : ChkModel A val C u) (x y : List α) (hlen : x.length = y.length)
    (hrun : (euclidAvx (chkArith A C) (chkIn x) (chkIn y)).2 = true) :
    |val (euclidAvx A x y) - (List.zipWith (fun a b => (val a - val b) * (val a - val b)) x y).sum|
      ≤ ((1 + u)^(x.length / 32 + x.length % 32 + 9) - 1)
        * ((List.zipWith (fun a b => (val a - val b) * (val a - val b)) x y).map (fun z => |z|)).sum := by
  have H := simd_rel' hA 8 (by decide)
    (fun a b acc => (chkArith A C).fma ((chkArith A C).sub a b) ((chkArith A C).sub a b) acc)
    (fun a b e => (a - b) * (a - b) + e) (fun a b bb => |(a - b) * (a - b)| + bb)
    (hsum256 (chkArith A C)) (hsum256 (ringArith ℝ))
    (fun r a b => (chkArith A C).add r
      ((chkArith A C).mul ((chkArith A C).sub a b) ((chkArith A C).sub a b)))
    (fun r a b => r + (a - b) * (a - b)) (fun r a b => r + |(a - b) * (a - b)|) 3 3
    (fun k hk a b c e bb h =>
      fma_crel hA ((chkArith A C).sub a b) ((chkArith A C).sub a b) c
        (fun f _ => dd_crel hA (by omega) a b f) h)
    (fun k a e b h => hsum256_rel' hA k a e b h)
    (fun k hk a b c e bb h => CRel.add hA h (sq_crel hA hk a b)) (chkIn x) (chkIn y)
  have hK : 3 + (chkIn x).length / (4 * 8) + 3 + 3 + (chkIn x).length % (4 * 8)
      = x.length / 32 + x.length % 32 + 9 := by
    rw [chkIn_length]; omega
  rw [hK] at H
  have hnat := euclidAvx_map Prod.fst (chk_fst_hom A C) (chkIn x) (chkIn y)
  rw [chkIn_fst, chkIn_fst] at hnat
  exact bound_of_crel 8 (by decide) _ _ _ _ _ (fun a b => (a - b) * (a - b)) _ _ _ hnat.symm x y hlen
    (fun _ _ _ => rfl) (fun _ _ _ => rfl) (fun _ _ _ => rfl) (fun _ _ _ => rfl) KernelCover.hsum256_sum H hrun

end KernelRound
end Arroy
