import ArroyProofs.F32MonoSqrt
import ArroyProofs.KernelLemmas
/-! The squared Euclidean distance of the model is never a negative number (core Lean only):
`NN x` — `x` is NaN or `0 ≤ x` — holds for `d*d`, is preserved by `+` and by `fma(d, d, ·)`, hence
holds for the result of each of the three kernels (`euclideanDistance_nn`), for all inputs. -/
namespace Arroy
namespace F32M
open SF F32L

/-- NaN or a non-negative number (`-0.0` included) -/
def NN (x : Nat) : Prop := F32.isNaN x = true ∨ F32.le F32.zero x = true

theorem nn_zero : NN F32.zero := Or.inr (by decide)
theorem nn_negZero : NN F32.negZero := Or.inr (by decide)

theorem nn_qnan : NN (qnan f32) := Or.inl (by decide)

theorem nn_of_le_inf {P : Nat} (h : P ≤ 0x7f800000) : NN P :=
  Or.inr (le_of_bits_le (Nat.zero_le _) h)

theorem nn_infBits : NN (infBits f32 false) := nn_of_le_inf (by decide)

theorem nn_roundPack (m : Nat) (e : Int) (st : Bool) : NN (roundPack f32 false m e st) :=
  nn_of_le_inf (RP_le_inf m e st)

theorem isNaN_unpack {x : Nat} (h : F32.isNaN x = false) : (unpack f32 x).notNaN :=
  (isNaN_false_iff f32 x).1 h

theorem unpack_of_isNaN {x : Nat} (h : F32.isNaN x = true) : unpack f32 x = .nan := by
  unfold F32.isNaN SF.isNaN at h
  cases hu : unpack f32 x <;> simp [show unpack F32.fmt x = unpack f32 x from rfl, hu] at h
  rfl

/-- `d * d` -/
theorem nn_mul_self (d : Nat) : NN (F32.mul d d) := by
  unfold F32.mul SF.mul
  cases unpack F32.fmt d with
  | nan => exact nn_qnan
  | inf s => simp only [bne_self_eq_false]; exact nn_infBits
  | fin s m e => simp only [bne_self_eq_false]; exact nn_roundPack _ _ _

theorem mag_nonneg {n : Bool} {m : Nat} {e : Int} (h : nonnegV (.fin n m e)) (q : Int) :
    0 ≤ V.mag q (.fin n m e) := by
  simp only [V.mag]
  rcases h with h | h
  · subst h; simp only [Bool.false_eq_true, if_false]; exact Int.natCast_nonneg _
  · subst h; simp

theorem rs_nonneg (E : Int) {z : Int} (h : 0 ≤ z) : 0 ≤ rs E z := by
  have := rs_mono E h
  rw [rs_zero] at this
  exact this

theorem out_plusZero : Out F32.zero 0 := ⟨false, 0, rfl, by omega, rfl⟩

/-- the sum of two non-negative unpacked values -/
theorem nn_addV {x y : V} (hx : nonnegV x) (hy : nonnegV y) : NN (addV f32 x y) := by
  cases x with
  | nan => exact absurd hx id
  | inf a =>
    have ha : a = false := hx
    subst ha
    cases y with
    | nan => exact absurd hy id
    | inf b =>
      have hb : b = false := hy
      subst hb
      exact nn_infBits
    | fin n m e => exact nn_infBits
  | fin n1 m1 e1 =>
    cases y with
    | nan => exact absurd hy id
    | inf b =>
      have hb : b = false := hy
      subst hb
      exact nn_infBits
    | fin n2 m2 e2 =>
      have ho := addV_out n1 m1 e1 n2 m2 e2 (Min.min e1 e2) (by omega) (by omega)
      right
      apply le_of_out out_plusZero ho
      apply rs_nonneg
      have := mag_nonneg hx (Min.min e1 e2)
      have := mag_nonneg hy (Min.min e1 e2)
      omega

theorem nonnegV_of_nn {x : Nat} (h : NN x) (hn : F32.isNaN x = false) : nonnegV (unpack f32 x) := by
  rcases h with h | h
  · rw [hn] at h; cases h
  · exact nonnegV_of_le h

/-- `x + y` -/
theorem nn_add {x y : Nat} (hx : NN x) (hy : NN y) : NN (F32.add x y) := by
  show NN (addV f32 (unpack f32 x) (unpack f32 y))
  by_cases h1 : F32.isNaN x = true
  · rw [unpack_of_isNaN h1]; exact nn_qnan
  · by_cases h2 : F32.isNaN y = true
    · rw [unpack_of_isNaN h2]
      cases unpack f32 x <;> exact nn_qnan
    · exact nn_addV (nonnegV_of_nn hx (by simpa using h1)) (nonnegV_of_nn hy (by simpa using h2))

/-- `fma(d, d, c)` -/
theorem nn_fma_self (d : Nat) {c : Nat} (hc : NN c) : NN (F32.fma d d c) := by
  unfold F32.fma SF.fma
  by_cases h2 : F32.isNaN c = true
  · rw [show unpack F32.fmt c = unpack f32 c from rfl, unpack_of_isNaN h2]
    cases unpack F32.fmt d <;> exact nn_qnan
  · have hv := nonnegV_of_nn hc (by simpa using h2)
    rw [show unpack F32.fmt c = unpack f32 c from rfl]
    cases hd : unpack F32.fmt d with
    | nan => exact nn_qnan
    | inf s =>
      cases hu : unpack f32 c with
      | nan => rw [hu] at hv; exact absurd hv id
      | inf t =>
        rw [hu] at hv
        have ht : t = false := hv
        subst ht
        simp only [bne_self_eq_false, beq_self_eq_true, if_true]
        exact nn_infBits
      | fin u m3 e3 =>
        simp only [bne_self_eq_false]
        exact nn_infBits
    | fin s m e =>
      cases hu : unpack f32 c with
      | nan => rw [hu] at hv; exact absurd hv id
      | inf t =>
        rw [hu] at hv
        have ht : t = false := hv
        subst ht
        exact nn_infBits
      | fin u m3 e3 =>
        rw [hu] at hv
        simp only [bne_self_eq_false]
        have : NN (addV f32 (.fin false (m * m) (e + e)) (.fin u m3 e3)) :=
          nn_addV (Or.inl rfl) hv
        exact this

end F32M

/-! ### kernels preserve a predicate on the accumulators -/
namespace Kernel
variable {α : Type}

theorem zipWith3_pred (P : α → Prop) (step : α → α → α → α) (hs : ∀ a b c, P c → P (step a b c)) :
    ∀ (xs ys acc : List α), (∀ c ∈ acc, P c) → ∀ r ∈ zipWith3 step xs ys acc, P r := by
  intro xs
  induction xs with
  | nil => intro ys acc _ r hr; simp [zipWith3] at hr
  | cons x xs ih =>
    intro ys acc hacc r hr
    cases ys with
    | nil => simp [zipWith3] at hr
    | cons y ys =>
      cases acc with
      | nil => simp [zipWith3] at hr
      | cons c cs =>
        simp only [zipWith3, List.mem_cons] at hr
        rcases hr with rfl | hr
        · exact hs _ _ _ (hacc c (by simp))
        · exact ih ys cs (fun c' hc' => hacc c' (by simp [hc'])) r hr

theorem blockStep_pred (P : α → Prop) (lanes : Nat) (step : α → α → α → α)
    (hs : ∀ a b c, P c → P (step a b c)) (accs : List (List α)) (bu bv : List α)
    (h : ∀ acc ∈ accs, ∀ c ∈ acc, P c) :
    ∀ acc ∈ blockStep lanes step accs bu bv, ∀ c ∈ acc, P c := by
  intro acc hacc
  unfold blockStep at hacc
  obtain ⟨⟨j, a⟩, hja, rfl⟩ := List.mem_map.mp hacc
  have ha : a ∈ accs := (List.of_mem_zip hja).2
  exact zipWith3_pred P step hs _ _ a (h a ha)

theorem mainLoop_pred (P : α → Prop) (lanes : Nat) (step : α → α → α → α)
    (hs : ∀ a b c, P c → P (step a b c)) :
    ∀ (us vs accs : List (List α)), (∀ acc ∈ accs, ∀ c ∈ acc, P c) →
      ∀ acc ∈ mainLoop lanes step accs us vs, ∀ c ∈ acc, P c := by
  intro us
  induction us with
  | nil => intro vs accs h; simpa [mainLoop] using h
  | cons bu us ih =>
    intro vs accs h
    cases vs with
    | nil => simpa [mainLoop] using h
    | cons bv vs =>
      simp only [mainLoop]
      exact ih vs _ (blockStep_pred P lanes step hs accs bu bv h)

theorem foldl_zip_pred (P : α → Prop) (tail : α → α → α → α) (ht : ∀ r a b, P r → P (tail r a b)) :
    ∀ (l : List (α × α)) (r0 : α), P r0 → P (l.foldl (fun r (p : α × α) => tail r p.1 p.2) r0) := by
  intro l
  induction l with
  | nil => intro r0 h; exact h
  | cons p l ih => intro r0 h; exact ih _ (ht _ _ _ h)

theorem simd_pred (A : Arith α) (P : α → Prop) (lanes : Nat) (step : α → α → α → α) (hsum : List α → α)
    (tail : α → α → α → α) (h0 : P A.zero) (hadd : ∀ x y, P x → P y → P (A.add x y))
    (hs : ∀ a b c, P c → P (step a b c)) (hh : ∀ l, (∀ c ∈ l, P c) → P (hsum l))
    (ht : ∀ r a b, P r → P (tail r a b)) (u v : List α) : P (simd A lanes step hsum tail u v) := by
  unfold simd
  simp only
  apply foldl_zip_pred P tail ht
  have hacc := mainLoop_pred P lanes step hs
    (chunks (4 * lanes) (u.take (u.length - u.length % (4 * lanes))))
    (chunks (4 * lanes) (v.take (u.length - u.length % (4 * lanes))))
    (List.replicate 4 (List.replicate lanes A.zero))
    (by
      intro acc ha c hc
      rw [List.eq_of_mem_replicate ha] at hc
      rw [List.eq_of_mem_replicate hc]; exact h0)
  generalize mainLoop lanes step _ _ _ = accs at hacc
  have hL : ∀ x ∈ accs.map hsum, P x := by
    intro x hx
    obtain ⟨a, ha, rfl⟩ := List.mem_map.mp hx
    exact hh a (hacc a ha)
  generalize accs.map hsum = L at hL
  split
  · rename_i h1 h2 h3 h4
    exact hadd _ _ (hadd _ _ (hadd _ _ (hL h1 (by simp)) (hL h2 (by simp))) (hL h3 (by simp))) (hL h4 (by simp))
  · exact h0

theorem hsum128_pred (A : Arith α) (P : α → Prop) (h0 : P A.zero) (hadd : ∀ x y, P x → P y → P (A.add x y))
    (l : List α) (h : ∀ c ∈ l, P c) : P (hsum128 A l) := by
  unfold hsum128
  split
  · rename_i x0 x1 x2 x3
    exact hadd _ _ (hadd _ _ (h x0 (by simp)) (h x2 (by simp))) (hadd _ _ (h x1 (by simp)) (h x3 (by simp)))
  · exact h0

theorem hsum256_pred (A : Arith α) (P : α → Prop) (h0 : P A.zero) (hadd : ∀ x y, P x → P y → P (A.add x y))
    (l : List α) (h : ∀ c ∈ l, P c) : P (hsum256 A l) := by
  unfold hsum256
  split
  · rename_i x0 x1 x2 x3 x4 x5 x6 x7
    apply hsum128_pred A P h0 hadd
    intro c hc
    simp only [List.mem_cons, List.not_mem_nil, or_false] at hc
    rcases hc with rfl | rfl | rfl | rfl
    · exact hadd _ _ (h x4 (by simp)) (h x0 (by simp))
    · exact hadd _ _ (h x5 (by simp)) (h x1 (by simp))
    · exact hadd _ _ (h x6 (by simp)) (h x2 (by simp))
    · exact hadd _ _ (h x7 (by simp)) (h x3 (by simp))
  · exact h0

theorem foldl_pred (P : α → Prop) (add : α → α → α) (Q : α → Prop) (hadd : ∀ x y, P x → Q y → P (add x y)) :
    ∀ (l : List α) (r0 : α), P r0 → (∀ x ∈ l, Q x) → P (l.foldl add r0) := by
  intro l
  induction l with
  | nil => intro r0 h _; exact h
  | cons p l ih =>
    intro r0 h hl
    exact ih _ (hadd _ _ h (hl p (by simp))) (fun x hx => hl x (by simp [hx]))

end Kernel

namespace F32M
open Kernel

theorem exists_of_mem_zipWith {β : Type} (f : Nat → Nat → β) :
    ∀ (u v : List Nat) (x : β), x ∈ List.zipWith f u v → ∃ a b, x = f a b := by
  intro u
  induction u with
  | nil => intro v x hx; simp at hx
  | cons a u ih =>
    intro v x hx
    cases v with
    | nil => simp at hx
    | cons b v =>
      simp only [List.zipWith_cons_cons, List.mem_cons] at hx
      rcases hx with rfl | hx
      · exact ⟨a, b, rfl⟩
      · exact ih v x hx

theorem euclidScalar_nn (u v : List Nat) : NN (euclidScalar f32Arith u v) := by
  unfold euclidScalar
  apply foldl_pred NN _ NN (fun x y hx hy => nn_add hx hy) _ _ nn_negZero
  intro x hx
  obtain ⟨a, b, rfl⟩ := exists_of_mem_zipWith _ u v x hx
  exact nn_mul_self _

theorem euclidSse_nn (u v : List Nat) : NN (euclidSse f32Arith u v) := by
  apply simd_pred f32Arith NN 4 _ _ _ nn_zero (fun x y hx hy => nn_add hx hy)
  · intro a b c hc; exact nn_add (nn_mul_self _) hc
  · intro l hl; exact hsum128_pred f32Arith NN nn_zero (fun x y hx hy => nn_add hx hy) l hl
  · intro r a b hr; exact nn_add hr (nn_mul_self _)

theorem euclidAvx_nn (u v : List Nat) : NN (euclidAvx f32Arith u v) := by
  apply simd_pred f32Arith NN 8 _ _ _ nn_zero (fun x y hx hy => nn_add hx hy)
  · intro a b c hc; exact nn_fma_self _ hc
  · intro l hl; exact hsum256_pred f32Arith NN nn_zero (fun x y hx hy => nn_add hx hy) l hl
  · intro r a b hr; exact nn_add hr (nn_mul_self _)

/-- **the squared Euclidean distance is NaN or non-negative**, for every host and all inputs -/
theorem euclideanDistance_nn (h : Host) (u v : List Nat) : NN (euclideanDistance h u v) := by
  unfold euclideanDistance
  split
  · exact euclidAvx_nn u v
  · split
    · exact euclidSse_nn u v
    · exact euclidScalar_nn u v

end F32M
end Arroy
