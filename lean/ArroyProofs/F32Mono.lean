import ArroyProofs.SoftFloatBits
import ArroyProofs.F32SqrtSq
/-! Monotonicity of binary32 rounding (`SF.roundPack`), core Lean only.

`RP m e st` is the bit pattern of the rounded positive value `(m + st·ε)·2^e`. It is a closed formula
`min (encOf m e st) +inf` (`RP_eq`), monotone in the key `2 m + st` at a fixed exponent (`RP_mono`),
invariant under rescaling `(m·2^d, e − d)` (`RP_scale`) and under moving low bits of the significand
into the sticky bit (`RP_coarsen`). The negative results are the same patterns with the sign bit set
(`roundPack_true`). -/
namespace Arroy
namespace F32M
open SF F32L

/-- the rounded positive value `(m + st·ε)·2^e`, as a bit pattern -/
def RP (m : Nat) (e : Int) (st : Bool) : Nat := roundPack f32 false m e st

/-! ### `roundMant` -/

theorem two_pow_pred {s : Nat} (hs : 0 < s) : 2 ^ s = 2 * 2 ^ (s - 1) := by
  have : s = (s - 1) + 1 := by omega
  rw (occs := .pos [1]) [this]; rw [Nat.pow_succ]; omega

/-- `roundMant` is monotone in the key `2 m + sticky` -/
theorem roundMant_mono (m1 m2 s : Nat) (st1 st2 : Bool) (hs : 0 < s)
    (hk : 2 * m1 + st1.toNat ≤ 2 * m2 + st2.toNat) :
    roundMant m1 s st1 ≤ roundMant m2 s st2 := by
  have hP := two_pow_pred hs
  have hH : 0 < 2 ^ (s - 1) := Nat.two_pow_pos _
  have hm : m1 ≤ m2 := by cases st1 <;> cases st2 <;> simp at hk <;> omega
  have hq : m1 / 2 ^ s ≤ m2 / 2 ^ s := Nat.div_le_div_right hm
  have ha := Nat.div_add_mod m1 (2 ^ s)
  have hb := Nat.div_add_mod m2 (2 ^ s)
  have ra := Nat.mod_lt m1 (Nat.two_pow_pos s)
  have rb := Nat.mod_lt m2 (Nat.two_pow_pos s)
  unfold roundMant
  generalize 2 ^ s = P at *
  generalize 2 ^ (s - 1) = H at *
  rcases Nat.lt_or_eq_of_le hq with hlt | heq
  · split <;> split <;> omega
  · rw [← heq] at hb ⊢
    generalize m1 / P = q at *
    generalize m1 % P = x at *
    generalize m2 % P = y at *
    by_cases c1 : (decide (x > H) || (x == H && (st1 || q % 2 == 1))) = true
    · have c2 : (decide (y > H) || (y == H && (st2 || q % 2 == 1))) = true := by
        simp only [Bool.or_eq_true, Bool.and_eq_true, decide_eq_true_eq, beq_iff_eq] at c1 ⊢
        cases st1 <;> cases st2 <;> simp at hk c1 ⊢ <;> omega
      rw [if_pos c1, if_pos c2]; omega
    · rw [if_neg c1]; split <;> omega

/-- the low `d` bits of the significand can be moved into the sticky bit -/
theorem roundMant_coarsen (n d s : Nat) (st : Bool) (hs : 0 < s) :
    roundMant n (s + d) st = roundMant (n / 2 ^ d) s (st || n % 2 ^ d != 0) := by
  have hP := two_pow_pred hs
  have hsd : s + d - 1 = (s - 1) + d := by omega
  have e1 : 2 ^ (s + d) = 2 ^ d * 2 ^ s := by rw [Nat.pow_add, Nat.mul_comm]
  have e2 : 2 ^ (s + d - 1) = 2 ^ (s - 1) * 2 ^ d := by rw [hsd, Nat.pow_add]
  have hdiv : n / 2 ^ (s + d) = n / 2 ^ d / 2 ^ s := by rw [e1, Nat.div_div_eq_div_mul]
  have hmod : n % 2 ^ (s + d) = (n / 2 ^ d % 2 ^ s) * 2 ^ d + n % 2 ^ d := by
    rw [e1, Nat.mod_mul, Nat.add_comm, Nat.mul_comm]
  have hr0 := Nat.mod_lt n (Nat.two_pow_pos d)
  have hr1 := Nat.mod_lt (n / 2 ^ d) (Nat.two_pow_pos s)
  unfold roundMant
  rw [hdiv, hmod, e2]
  generalize n / 2 ^ d / 2 ^ s = hi
  generalize n / 2 ^ d % 2 ^ s = r at *
  generalize n % 2 ^ d = r0 at *
  generalize 2 ^ (s - 1) = H at *
  generalize 2 ^ d = P at *
  have cmp : (r * P + r0 > H * P ↔ (r > H ∨ (r = H ∧ r0 ≠ 0))) ∧ (r * P + r0 = H * P ↔ (r = H ∧ r0 = 0)) := by
    rcases Nat.lt_trichotomy r H with h | h | h
    · have := Nat.mul_le_mul_right P (show r + 1 ≤ H from h)
      rw [Nat.add_mul] at this
      constructor <;> constructor <;> intro h' <;> omega
    · subst h
      constructor <;> constructor <;> intro h' <;> omega
    · have := Nat.mul_le_mul_right P (show H + 1 ≤ r from h)
      rw [Nat.add_mul] at this
      constructor <;> constructor <;> intro h' <;> omega
  have key : (decide (r * P + r0 > H * P) || (r * P + r0 == H * P && (st || hi % 2 == 1)))
      = (decide (r > H) || (r == H && ((st || r0 != 0) || hi % 2 == 1))) := by
    rw [Bool.eq_iff_iff]
    simp only [Bool.or_eq_true, Bool.and_eq_true, decide_eq_true_eq, beq_iff_eq, bne_iff_ne, ne_eq]
    rw [cmp.1, cmp.2]
    constructor
    · rintro (h | ⟨⟨h1, h2⟩, h3⟩)
      · rcases h with h | ⟨h1, h2⟩
        · exact Or.inl h
        · exact Or.inr ⟨h1, Or.inl (Or.inr h2)⟩
      · rcases h3 with h3 | h3
        · exact Or.inr ⟨h1, Or.inl (Or.inl h3)⟩
        · exact Or.inr ⟨h1, Or.inr h3⟩
    · rintro (h | ⟨h1, h2⟩)
      · exact Or.inl (Or.inl h)
      · by_cases h0 : r0 = 0
        · right
          refine ⟨⟨h1, h0⟩, ?_⟩
          rcases h2 with (h2 | h2) | h2
          · exact Or.inl h2
          · exact absurd h0 h2
          · exact Or.inr h2
        · exact Or.inl (Or.inr ⟨h1, h0⟩)
  rw [key]

/-- rounding an exact multiple of the rounding unit -/
theorem roundMant_exact (a s : Nat) : roundMant (a * 2 ^ s) s false = a := by
  have hH : 0 < 2 ^ (s - 1) := Nat.two_pow_pos _
  unfold roundMant
  rw [Nat.mul_mod_left, Nat.mul_div_cancel _ (Nat.two_pow_pos s)]
  have c : ¬ ((decide (0 > 2 ^ (s - 1)) || ((0 : Nat) == 2 ^ (s - 1) && (false || a % 2 == 1))) = true) := by
    simp only [Bool.or_eq_true, Bool.and_eq_true, decide_eq_true_eq, beq_iff_eq, not_or, not_and]
    omega
  rw [if_neg c]

/-! ### the closed formula -/

/-- the significand after rounding at the position `qOf` (may be `2^24`: carry) -/
def mantOf (m : Nat) (e : Int) (st : Bool) : Nat :=
  if qOf f32 m e - e ≤ 0 then m * 2 ^ ((qOf f32 m e - e).natAbs)
  else roundMant m (qOf f32 m e - e).toNat st

/-- exponent and significand laid out as a number; not below the pattern of `+inf` on overflow -/
def encOf (m : Nat) (e : Int) (st : Bool) : Nat := (qOf f32 m e + 149).toNat * 2 ^ 23 + mantOf m e st

theorem finish_enc (mant : Nat) (q : Int) (hq : -149 ≤ q) (hm : mant ≤ 2 ^ 24)
    (hsub : mant < 2 ^ 23 → q = -149) :
    finish f32 false mant q = Min.min ((q + 149).toNat * 2 ^ 23 + mant) 0x7f800000 := by
  obtain ⟨c1, c2, c3, c4, c5⟩ := f32_consts
  unfold finish infBits packBits
  simp only [c1, c2, c3, Bool.false_eq_true, if_false]
  split
  · rename_i h
    have := hsub h
    subst this
    omega
  · split
    · omega
    · omega

theorem mantOf_bounds {m : Nat} (hm : 0 < m) (e : Int) (st : Bool) :
    mantOf m e st ≤ 2 ^ 24 ∧ (e + (bitLen m : Int) - 24 ≥ -149 → 2 ^ 23 ≤ mantOf m e st) := by
  obtain ⟨hn0, hn1, hn2⟩ := bitLen_bounds hm
  unfold mantOf
  rw [qOf_f32]
  generalize hL : bitLen m = L at *
  by_cases hnorm : e + (L : Int) - 24 ≥ -149
  · have hq : Max.max (e + (L : Int) - 24) (-149) = e + (L : Int) - 24 := by omega
    rw [hq]
    by_cases hsh : e + (L : Int) - 24 - e ≤ 0
    · rw [if_pos hsh]
      have hna : (e + (L : Int) - 24 - e).natAbs = 24 - L := by omega
      rw [hna]
      have e1 : 2 ^ (L - 1) * 2 ^ (24 - L) = 2 ^ 23 := by
        rw [← Nat.pow_add]; congr 1; omega
      have e2 : 2 ^ L * 2 ^ (24 - L) = 2 ^ 24 := by
        rw [← Nat.pow_add]; congr 1; omega
      have a1 := Nat.mul_le_mul_right (2 ^ (24 - L)) hn1
      have a2 := Nat.mul_lt_mul_of_pos_right hn2 (Nat.two_pow_pos (24 - L))
      omega
    · rw [if_neg hsh]
      have hna : (e + (L : Int) - 24 - e).toNat = L - 24 := by omega
      rw [hna]
      have := roundMant_range m (L - 24) st
        (by have : 23 + (L - 24) = L - 1 := by omega
            rw [this]; exact hn1)
        (by have : 24 + (L - 24) = L := by omega
            rw [this]; exact hn2)
      omega
  · have hq : Max.max (e + (L : Int) - 24) (-149) = -149 := by omega
    rw [hq]
    refine ⟨?_, fun h => absurd h hnorm⟩
    by_cases hsh : (-149 : Int) - e ≤ 0
    · rw [if_pos hsh]
      have : m * 2 ^ ((-149 - e).natAbs) < 2 ^ L * 2 ^ ((-149 - e).natAbs) :=
        Nat.mul_lt_mul_of_pos_right hn2 (Nat.two_pow_pos _)
      rw [← Nat.pow_add] at this
      have h2 : 2 ^ (L + (-149 - e).natAbs) ≤ 2 ^ 24 := Nat.pow_le_pow_right (by decide) (by omega)
      omega
    · rw [if_neg hsh]
      have h1 := roundMant_le_succ m ((-149 - e).toNat) st
      have h2 : m / 2 ^ ((-149 - e).toNat) < 2 ^ 23 := by
        rw [Nat.div_lt_iff_lt_mul (Nat.two_pow_pos _), ← Nat.pow_add]
        exact Nat.lt_of_lt_of_le hn2 (Nat.pow_le_pow_right (by decide) (by omega))
      omega

/-- **closed formula** for the rounded pattern -/
theorem RP_eq {m : Nat} (hm : 0 < m) (e : Int) (st : Bool) :
    RP m e st = Min.min (encOf m e st) 0x7f800000 := by
  obtain ⟨c1, c2, c3, c4, c5⟩ := f32_consts
  have hm0 : (m == 0 && !st) = false := by
    have : m ≠ 0 := by omega
    simp [this]
  obtain ⟨b1, b2⟩ := mantOf_bounds hm e st
  have hq0 : -149 ≤ qOf f32 m e := by rw [qOf_f32]; omega
  have hsub : mantOf m e st < 2 ^ 23 → qOf f32 m e = -149 := by
    intro h
    rw [qOf_f32]
    by_cases hn : e + (bitLen m : Int) - 24 ≥ -149
    · have := b2 hn; omega
    · omega
  unfold RP encOf
  rw [roundPack_eq f32 false m e st hm0]
  unfold mantOf at *
  generalize qOf f32 m e = q at *
  by_cases hsh : q - e ≤ 0
  · rw [if_pos hsh] at b1 hsub ⊢
    rw [if_pos hsh]
    exact finish_enc _ _ hq0 b1 hsub
  · rw [if_neg hsh] at b1 hsub ⊢
    rw [if_neg hsh, c1]
    generalize roundMant m (q - e).toNat st = r at *
    by_cases hc : r = 2 ^ 24
    · have hb : (r == 2 ^ 24) = true := by rw [beq_iff_eq]; exact hc
      have h23 : (2 : Nat) ^ (24 - 1) = 8388608 := by decide
      rw [if_pos hb, h23, finish_enc 8388608 (q + 1) (by omega) (by omega) (fun h => by omega)]
      have h24 : r = 16777216 := hc
      have : (q + 1 + 149).toNat = (q + 149).toNat + 1 := by omega
      rw [this, h24]
      clear b1 hsub hb hc h24 this b2
      generalize (q + 149).toNat = a
      omega
    · have hb : (r == 2 ^ 24) = false := by rw [beq_eq_false_iff_ne]; exact hc
      simp only [hb, Bool.false_eq_true, if_false]
      exact finish_enc _ _ hq0 b1 hsub

theorem roundMant_zero (s : Nat) (st : Bool) : roundMant 0 s st = 0 := by
  have hH : 0 < 2 ^ (s - 1) := Nat.two_pow_pos _
  unfold roundMant
  rw [Nat.zero_mod, Nat.zero_div]
  have c : ¬ ((decide (0 > 2 ^ (s - 1)) || ((0 : Nat) == 2 ^ (s - 1) && (st || 0 % 2 == 1))) = true) := by
    simp only [Bool.or_eq_true, Bool.and_eq_true, decide_eq_true_eq, beq_iff_eq, not_or, not_and]
    omega
  rw [if_neg c]

theorem finish_zero (q : Int) : finish f32 false 0 q = 0 := by
  unfold finish packBits; simp [f32]

theorem RP_zero (e : Int) (st : Bool) : RP 0 e st = 0 := by
  cases st
  · unfold RP roundPack; simp [packBits]
  · unfold RP
    rw [roundPack_eq f32 false 0 e true (by simp)]
    rw [roundMant_zero, Nat.zero_mul]
    have : ((0 : Nat) == 2 ^ f32.p) = false := by decide
    simp only [this, Bool.false_eq_true, if_false, finish_zero, ite_self]

theorem RP_le_inf (m : Nat) (e : Int) (st : Bool) : RP m e st ≤ 0x7f800000 := by
  rcases Nat.eq_zero_or_pos m with h | h
  · subst h; rw [RP_zero]; omega
  · rw [RP_eq h]; omega

/-! ### monotonicity at a fixed exponent -/

theorem key_le {m1 m2 : Nat} {st1 st2 : Bool} (hk : 2 * m1 + st1.toNat ≤ 2 * m2 + st2.toNat) : m1 ≤ m2 := by
  cases st1 <;> cases st2 <;> simp at hk <;> omega

/-- **rounding is monotone**: at a fixed exponent the rounded pattern is monotone in the key
`2 m + sticky` (the exact values `(m + st·ε)·2^e`, `0 < ε < 1`, are ordered like their keys) -/
theorem RP_mono (e : Int) (m1 m2 : Nat) (st1 st2 : Bool)
    (hk : 2 * m1 + st1.toNat ≤ 2 * m2 + st2.toNat) : RP m1 e st1 ≤ RP m2 e st2 := by
  have hm := key_le hk
  rcases Nat.eq_zero_or_pos m1 with h | h
  · subst h; rw [RP_zero]; omega
  · have h2 : 0 < m2 := by omega
    rw [RP_eq h, RP_eq h2]
    suffices encOf m1 e st1 ≤ encOf m2 e st2 by omega
    have hL := bitLen_mono h hm
    obtain ⟨a1, a2⟩ := mantOf_bounds h e st1
    obtain ⟨b1, b2⟩ := mantOf_bounds h2 e st2
    have hq1 := qOf_f32 m1 e
    have hq2 := qOf_f32 m2 e
    unfold encOf
    by_cases hq : qOf f32 m1 e = qOf f32 m2 e
    · have : mantOf m1 e st1 ≤ mantOf m2 e st2 := by
        unfold mantOf
        rw [hq]
        split
        · exact Nat.mul_le_mul_right _ hm
        · exact roundMant_mono _ _ _ _ _ (by omega) hk
      rw [hq]; omega
    · have hlt : qOf f32 m1 e < qOf f32 m2 e := by omega
      have := b2 (by omega)
      generalize qOf f32 m1 e = q1 at *
      generalize qOf f32 m2 e = q2 at *
      have e1 : (q1 + 149).toNat + 1 ≤ (q2 + 149).toNat := by omega
      generalize (q1 + 149).toNat = x at *
      generalize (q2 + 149).toNat = y at *
      omega

/-! ### rescaling -/

theorem bitLen_mul_pow {m : Nat} (hm : 0 < m) (d : Nat) : bitLen (m * 2 ^ d) = bitLen m + d := by
  obtain ⟨h0, h1, h2⟩ := bitLen_bounds hm
  apply bitLen_eq (by omega)
  · have : bitLen m + d - 1 = (bitLen m - 1) + d := by omega
    rw [this, Nat.pow_add]; exact Nat.mul_le_mul_right _ h1
  · rw [Nat.pow_add]; exact Nat.mul_lt_mul_of_pos_right h2 (Nat.two_pow_pos _)

theorem bitLen_div_pow {n : Nat} (d : Nat) (hm : 0 < n / 2 ^ d) : bitLen n = bitLen (n / 2 ^ d) + d := by
  obtain ⟨h0, h1, h2⟩ := bitLen_bounds hm
  have hd := Nat.div_add_mod n (2 ^ d)
  have hr := Nat.mod_lt n (Nat.two_pow_pos d)
  apply bitLen_eq (by omega)
  · have : bitLen (n / 2 ^ d) + d - 1 = (bitLen (n / 2 ^ d) - 1) + d := by omega
    rw [this, Nat.pow_add]
    have := Nat.mul_le_mul_right (2 ^ d) h1
    rw [Nat.mul_comm (n / 2 ^ d)] at this
    omega
  · rw [Nat.pow_add]
    have : (n / 2 ^ d + 1) * 2 ^ d ≤ 2 ^ bitLen (n / 2 ^ d) * 2 ^ d := Nat.mul_le_mul_right _ h2
    rw [Nat.add_mul, Nat.mul_comm (n / 2 ^ d)] at this
    omega

/-- **coarsening**: the low `d` bits of a significand with at least `25 + d` bits can be moved into
the sticky bit (the rounding position is above them) -/
theorem RP_coarsen (n d : Nat) (e : Int) (st : Bool) (h : 2 ^ 24 ≤ n / 2 ^ d) :
    RP n e st = RP (n / 2 ^ d) (e + d) (st || n % 2 ^ d != 0) := by
  have hm : 0 < n / 2 ^ d := by omega
  have hn : 0 < n := by
    rcases Nat.eq_zero_or_pos n with h0 | h0
    · subst h0; simp at hm
    · exact h0
  have hL := bitLen_div_pow d hm
  obtain ⟨h0, h1, h2⟩ := bitLen_bounds hm
  have hL25 : 25 ≤ bitLen (n / 2 ^ d) := by
    have : 2 ^ 24 < 2 ^ bitLen (n / 2 ^ d) := by omega
    have := (Nat.pow_lt_pow_iff_right (by decide : 1 < 2)).mp this
    omega
  rw [RP_eq hn, RP_eq hm]
  unfold encOf mantOf
  have hq : qOf f32 n e = qOf f32 (n / 2 ^ d) (e + d) := by
    rw [qOf_f32, qOf_f32, hL]; omega
  rw [hq]
  have hq' := qOf_f32 (n / 2 ^ d) (e + d)
  generalize qOf f32 (n / 2 ^ d) (e + d) = q at *
  have c1 : ¬ (q - e ≤ 0) := by omega
  have c2 : ¬ (q - (e + d) ≤ 0) := by omega
  rw [if_neg c1, if_neg c2]
  have : (q - e).toNat = (q - (e + (d : Int))).toNat + d := by omega
  rw [this, roundMant_coarsen _ _ _ _ (by omega)]

/-- **rescaling**: `(m·2^d)·2^(e−d)` rounds like `m·2^e` -/
theorem RP_scale (m d : Nat) (e : Int) : RP (m * 2 ^ d) (e - d) false = RP m e false := by
  rcases Nat.eq_zero_or_pos m with h | h
  · subst h; rw [Nat.zero_mul, RP_zero, RP_zero]
  · have hmd : 0 < m * 2 ^ d := Nat.mul_pos h (Nat.two_pow_pos _)
    have hL := bitLen_mul_pow h d
    rw [RP_eq hmd, RP_eq h]
    unfold encOf mantOf
    have hq : qOf f32 (m * 2 ^ d) (e - d) = qOf f32 m e := by
      rw [qOf_f32, qOf_f32, hL]; omega
    rw [hq]
    generalize qOf f32 m e = q at *
    congr 2
    by_cases c1 : q - e ≤ 0
    · rw [if_pos c1]
      by_cases c2 : q - (e - d) ≤ 0
      · rw [if_pos c2, Nat.mul_assoc, ← Nat.pow_add]
        congr 2; omega
      · rw [if_neg c2]
        have e1 : m * 2 ^ d = (m * 2 ^ ((q - e).natAbs)) * 2 ^ ((q - (e - (d : Int))).toNat) := by
          rw [Nat.mul_assoc, ← Nat.pow_add]; congr 2; omega
        rw [e1, roundMant_exact]
    · rw [if_neg c1]
      have c2 : ¬ (q - (e - d) ≤ 0) := by omega
      rw [if_neg c2]
      have : (q - (e - (d : Int))).toNat = (q - e).toNat + d := by omega
      rw [this, roundMant_coarsen _ _ _ _ (by omega), Nat.mul_div_cancel _ (Nat.two_pow_pos _),
        Nat.mul_mod_left]
      rfl

/-- rescaling, in the form the operations need it: any exponent below -/
theorem RP_scale' (m : Nat) (e e' : Int) (h : e' ≤ e) :
    RP m e false = RP (m * 2 ^ ((e - e').toNat)) e' false := by
  have := RP_scale m (e - e').toNat e
  have h2 : e - ((e - e').toNat : Int) = e' := by omega
  rw [h2] at this
  exact this.symm

/-! ### the sign -/

theorem roundPack_true (m : Nat) (e : Int) (st : Bool) :
    roundPack f32 true m e st = RP m e st + 2 ^ 31 := by
  obtain ⟨ex, frac, h⟩ := roundPack_shape f32 m e st
  unfold RP
  rw [h true, h false, packBits_true]
  rfl

end F32M
end Arroy
