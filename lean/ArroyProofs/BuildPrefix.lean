import ArroyProofs.ForestDefs
import ArroyProofs.TransparentBuild
/-! The first three steps of `build` (`pre_process_items`, `item_indices`,
`reset_and_retrieve_updated_items`): they keep every tree key, the metadata, the presence and the
vector of every item; the second returns the stored item ids, the third returns and erases the marks. -/
namespace Arroy
open BuildM Generated Transp

/-! ## folds of puts -/

theorem foldl_put_step (c : Cfg) {β : Type} (L : List (Key × β)) (g : Key × β → Val)
    (hL : ∀ x ∈ L, x.1.wf ∧ (x.1.index = c.index → x.1.mode = modeItem → C05.isLeaf (g x) = true))
    {s0 s : Store} (h : StoreStep c s0 s) : StoreStep c s0 (L.foldl (fun st kv => st.put kv.1 (g kv)) s) := by
  induction L generalizing s with
  | nil => exact h
  | cons x xs ih =>
    simp only [List.foldl_cons]
    exact ih (fun y hy => hL y (List.mem_cons_of_mem _ hy)) (.put _ _ (hL x (by simp)).1 (hL x (by simp)).2 h)

theorem foldl_put_get_of_not {β : Type} (L : List (Key × β)) (g : Key × β → Val) (s : Store) (k : Key)
    (h : ∀ x ∈ L, x.1 ≠ k) : Store.get (L.foldl (fun st kv => st.put kv.1 (g kv)) s) k = Store.get s k := by
  induction L generalizing s with
  | nil => rfl
  | cons x xs ih =>
    simp only [List.foldl_cons]
    rw [ih _ (fun y hy => h y (List.mem_cons_of_mem _ hy)), Store.get_put_other _ _ _ _ (Ne.symm (h x (by simp)))]

theorem foldl_put_get_of_mem {β : Type} (L : List (Key × β)) (g : Key × β → Val) (s : Store) (k : Key)
    (h : ∃ x ∈ L, x.1 = k) :
    ∃ x ∈ L, x.1 = k ∧ Store.get (L.foldl (fun st kv => st.put kv.1 (g kv)) s) k = some (g x) := by
  induction L generalizing s with
  | nil => obtain ⟨x, hx, _⟩ := h; cases hx
  | cons x xs ih =>
    simp only [List.foldl_cons]
    by_cases hxs : ∃ y ∈ xs, y.1 = k
    · obtain ⟨y, hy, hk, hg⟩ := ih (s.put x.1 (g x)) hxs
      exact ⟨y, List.mem_cons_of_mem _ hy, hk, hg⟩
    · have hx : x.1 = k := by
        obtain ⟨y, hy, hk⟩ := h
        rcases List.mem_cons.1 hy with rfl | hy
        · exact hk
        · exact absurd ⟨y, hy, hk⟩ hxs
      refine ⟨x, by simp, hx, ?_⟩
      rw [foldl_put_get_of_not _ _ _ _ (fun y hy e => hxs ⟨y, hy, e⟩), ← hx, Store.get_put_same]

/-! ## what the item-level part of a build keeps -/

/-- `s'` has the same keys outside the item keys of index `c`, the same items, and the same item
    vectors as `s` (only the headers of the leaves may differ) -/
structure ItemsKept (c : Cfg) (s s' : Store) : Prop where
  step : StoreStep c s s'
  other : ∀ k : Key, (k.index ≠ c.index ∨ k.mode ≠ modeItem) → Store.get s' k = Store.get s k
  vec : ∀ id, vecOf c s' id = vecOf c s id
  present : ∀ id, (Store.get s' (c.itemKey id)).isSome = (Store.get s (c.itemKey id)).isSome

theorem ItemsKept.refl (c : Cfg) (s : Store) : ItemsKept c s s :=
  ⟨.refl s, fun _ _ => rfl, fun _ => rfl, fun _ => rfl⟩

theorem ItemsKept.tree {c : Cfg} {s s' : Store} (h : ItemsKept c s s') (i : Nat) :
    Store.get s' (c.treeKey i) = Store.get s (c.treeKey i) :=
  h.other _ (Or.inr (c.treeKey_mode i))

theorem Cfg.metaKey_mode (c : Cfg) : c.metaKey.mode ≠ modeItem := by
  simp [Cfg.metaKey, Key.mkMetadata, metadataKeyMode, modeMetadata, modeItem]

theorem Cfg.updatedKey_mode (c : Cfg) (id : Nat) : (c.updatedKey id).mode ≠ modeItem := by
  simp [Cfg.updatedKey, Key.mkUpdated, modeUpdated, modeItem]

theorem ItemsKept.meta {c : Cfg} {s s' : Store} (h : ItemsKept c s s') :
    Store.get s' c.metaKey = Store.get s c.metaKey := h.other _ (Or.inr c.metaKey_mode)

theorem ItemsKept.updated {c : Cfg} {s s' : Store} (h : ItemsKept c s s') (id : Nat) :
    Store.get s' (c.updatedKey id) = Store.get s (c.updatedKey id) := h.other _ (Or.inr (c.updatedKey_mode id))

theorem keysOf_congr {s s' : Store} (hs : Store.Sorted s) (hw : Store.WF s) (hs' : Store.Sorted s') (hw' : Store.WF s')
    (i m : Nat) (hi : i < 65536) (hm : m < 256)
    (h : ∀ id, (Store.get s' ⟨i, m, id⟩).isSome = (Store.get s ⟨i, m, id⟩).isSome) :
    Store.keysOf s' i m = Store.keysOf s i m := by
  apply IdSet.sorted_ext (Store.keysOf_sorted hs' hw' i m hi hm) (Store.keysOf_sorted hs hw i m hi hm)
  intro id
  rw [Store.mem_keysOf_iff hw' i m id hi hm, Store.mem_keysOf_iff hw i m id hi hm, h]

theorem ItemsKept.keysOf_item {c : Cfg} {s s' : Store} (h : ItemsKept c s s') (hs : Store.Sorted s) (hw : Store.WF s)
    (hi : c.index < 65536) : Store.keysOf s' c.index modeItem = Store.keysOf s c.index modeItem :=
  keysOf_congr hs hw (h.step.sorted hs) (h.step.wf hw) _ _ hi (by decide) (fun id => h.present id)

theorem ItemsKept.keysOf_updated {c : Cfg} {s s' : Store} (h : ItemsKept c s s') (hs : Store.Sorted s) (hw : Store.WF s)
    (hi : c.index < 65536) : Store.keysOf s' c.index modeUpdated = Store.keysOf s c.index modeUpdated :=
  keysOf_congr hs hw (h.step.sorted hs) (h.step.wf hw) _ _ hi (by decide) (fun id => by
    have := h.updated id
    simp only [Cfg.updatedKey, Key.mkUpdated] at this
    rw [this])

/-! ## `preprocessDot` -/

/-- the leaves `preprocessDot` rewrites -/
def dotLeaves (c : Cfg) (s : Store) : List (Key × List Nat) :=
  (s.prefixIter c.index (some modeItem)).filterMap fun kv =>
    match kv.2 with | .leaf _ v => some (kv.1, v) | _ => none

/-- the new value of a rewritten leaf -/
def dotVal (c : Cfg) (s : Store) (kv : Key × List Nat) : Val :=
  let maxNorm := (dotLeaves c s).foldl (fun mx kv => F32.max mx (c.metric.normNoHeader c.host kv.2)) F32.zero
  let nn := c.metric.normNoHeader c.host kv.2
  let diff := F32.sub (F32.mul maxNorm maxNorm) (F32.mul nn nn)
  let hdr := c.metric.header.map fun
    | .norm => F32.mul maxNorm maxNorm
    | .extraDim => F32.sqrt diff
    | _ => F32.zero
  .leaf hdr kv.2

theorem preprocessDot_eq (c : Cfg) (s : Store) :
    Build.preprocessDot c s = (dotLeaves c s).foldl (fun st kv => st.put kv.1 (dotVal c s kv)) s := rfl

theorem preprocessDot_kept (c : Cfg) (s : Store) (hs : Store.Sorted s) (hw : Store.WF s) (hi : c.index < 65536) :
    ItemsKept c s (Build.preprocessDot c s) := by
  -- the entries the fold rewrites
  have hL : ∀ x ∈ dotLeaves c s,
      x.1.wf ∧ x.1.index = c.index ∧ x.1.mode = modeItem ∧ ∃ h, Store.get s x.1 = some (.leaf h x.2) := by
    intro x hx
    obtain ⟨kv, hkv, hm⟩ := List.mem_filterMap.1 hx
    rw [Store.mem_prefixIter_iff hw _ _ hi (by decide)] at hkv
    obtain ⟨hmem, h1, h2⟩ := hkv
    obtain ⟨k, v⟩ := kv
    cases v with
    | leaf h v =>
      simp only [Option.some.injEq] at hm
      subst hm
      exact ⟨hw _ hmem, h1, h2, h, (Store.get_eq_some_iff hs _ _).2 hmem⟩
    | _ => simp at hm
  rw [preprocessDot_eq]
  refine ⟨?_, ?_, ?_, ?_⟩
  · apply foldl_put_step
    · intro x hx
      exact ⟨(hL x hx).1, fun _ _ => rfl⟩
    · exact .refl s
  · intro k hk
    apply foldl_put_get_of_not
    intro x hx e
    obtain ⟨_, h1, h2, _⟩ := hL x hx
    subst e
    rcases hk with hk | hk
    · exact hk h1
    · exact hk h2
  · intro id
    by_cases hex : ∃ x ∈ dotLeaves c s, x.1 = c.itemKey id
    · obtain ⟨x, hx, hk, hg⟩ := foldl_put_get_of_mem _ (dotVal c s) s _ hex
      obtain ⟨_, _, _, h, hget⟩ := hL x hx
      rw [hk] at hget
      simp only [vecOf]
      rw [hg, hget]
      rfl
    · simp only [vecOf]
      rw [foldl_put_get_of_not _ _ _ _ (fun x hx e => hex ⟨x, hx, e⟩)]
  · intro id
    by_cases hex : ∃ x ∈ dotLeaves c s, x.1 = c.itemKey id
    · obtain ⟨x, hx, hk, hg⟩ := foldl_put_get_of_mem _ (dotVal c s) s _ hex
      obtain ⟨_, _, _, h, hget⟩ := hL x hx
      rw [hk] at hget
      rw [hg, hget]; rfl
    · rw [foldl_put_get_of_not _ _ _ _ (fun x hx e => hex ⟨x, hx, e⟩)]

/-! ## the three steps -/

theorem preProcessItems_spec (c : Cfg) {st st' : BState} (h : Build.preProcessItems c st = .ok ((), st'))
    (hs : Store.Sorted st.store) (hw : Store.WF st.store) (hi : c.index < 65536) :
    ItemsKept c st.store st'.store ∧ st'.cancelAt = st.cancelAt := by
  refine ⟨?_, ((preProcessItems_tr c st).ok _ _ h).2.2.1⟩
  unfold Build.preProcessItems at h
  obtain ⟨u, st1, h1, h⟩ := bind_ok_inv h
  have e1 := poll_store h1
  simp only at e1
  split at h
  · have := modifyStore_ok h
    cases this
    simp only [e1]
    exact preprocessDot_kept c st.store hs hw hi
  · have := pure_ok_inv h
    cases this
    rw [e1]
    exact ItemsKept.refl c st.store

theorem itemIndices_spec (c : Cfg) {st st' : BState} {ids : List Nat} (h : Build.itemIndices c st = .ok (ids, st')) :
    ids = st.store.keysOf c.index modeItem ∧ st'.store = st.store ∧ st'.cancelAt = st.cancelAt := by
  refine ⟨?_, ?_, ((itemIndices_tr c st).ok _ _ h).2.2.1⟩
  · unfold Build.itemIndices at h
    obtain ⟨s, st1, h1, h⟩ := bind_ok_inv h
    cases getStore_ok h1
    obtain ⟨u, st2, h2, h⟩ := bind_ok_inv h
    cases pure_ok_inv h
    rfl
  · unfold Build.itemIndices at h
    obtain ⟨s, st1, h1, h⟩ := bind_ok_inv h
    cases getStore_ok h1
    obtain ⟨u, st2, h2, h⟩ := bind_ok_inv h
    cases pure_ok_inv h
    exact pollN_store h2

/-- erasing the marks `ids` of index `c` -/
def eraseMarks (c : Cfg) (s : Store) (ids : List Nat) : Store :=
  ids.foldl (fun st id => st.erase (c.updatedKey id)) s

theorem get_eraseMarks_of_not (c : Cfg) (s : Store) (ids : List Nat) (k : Key)
    (h : ∀ i ∈ ids, k ≠ c.updatedKey i) : Store.get (eraseMarks c s ids) k = Store.get s k := by
  induction ids generalizing s with
  | nil => rfl
  | cons i ids ih =>
    simp only [eraseMarks, List.foldl_cons]
    have := ih (s.erase (c.updatedKey i)) (fun j hj => h j (List.mem_cons_of_mem _ hj))
    simp only [eraseMarks] at this
    rw [this, Store.get_erase_other _ _ _ (h i (by simp))]

theorem get_eraseMarks_of_mem (c : Cfg) (s : Store) (ids : List Nat) (i : Nat) (h : i ∈ ids) :
    Store.get (eraseMarks c s ids) (c.updatedKey i) = none := by
  induction ids generalizing s with
  | nil => cases h
  | cons j ids ih =>
    simp only [eraseMarks, List.foldl_cons]
    by_cases hm : i ∈ ids
    · exact ih _ hm
    · have hij : i = j := by
        rcases List.mem_cons.1 h with e | e
        · exact e
        · exact absurd e hm
      subst hij
      have := get_eraseMarks_of_not c (s.erase (c.updatedKey i)) ids (c.updatedKey i) (by
        intro j hj e
        have := (Cfg.updatedKey_eq_iff c c j i).1 e
        exact hm (by rw [this.2]; exact hj))
      simp only [eraseMarks] at this
      rw [this, Store.get_erase_same]

theorem eraseMarks_step (c : Cfg) {s0 s : Store} (h : StoreStep c s0 s) (ids : List Nat) :
    StoreStep c s0 (eraseMarks c s ids) := by
  induction ids generalizing s with
  | nil => exact h
  | cons i ids ih => exact ih (h.erase _)

theorem resetUpdated_spec (c : Cfg) {st st' : BState} {ids : List Nat} (h : Build.resetUpdated c st = .ok (ids, st')) :
    ids = st.store.keysOf c.index modeUpdated ∧ st'.store = eraseMarks c st.store ids ∧
    st'.cancelAt = st.cancelAt := by
  refine ⟨?_, ?_, ((resetUpdated_tr c st).ok _ _ h).2.2.1⟩
  · unfold Build.resetUpdated at h
    obtain ⟨s, st1, h1, h⟩ := bind_ok_inv h
    cases getStore_ok h1
    obtain ⟨u, st2, h2, h⟩ := bind_ok_inv h
    cases pure_ok_inv h
    rfl
  · unfold Build.resetUpdated at h
    obtain ⟨s, st1, h1, h⟩ := bind_ok_inv h
    cases getStore_ok h1
    obtain ⟨u, st2, h2, h⟩ := bind_ok_inv h
    cases pure_ok_inv h
    have := forEach_poll_modify (fun id st => st.erase (c.updatedKey id)) _ h2
    rw [this]
    rfl

/-- after `resetUpdated`: no mark of the index is left, everything else is as before -/
theorem eraseMarks_all (c : Cfg) (s : Store) (hw : Store.WF s) (hi : c.index < 65536) :
    (∀ id, Store.get (eraseMarks c s (s.keysOf c.index modeUpdated)) (c.updatedKey id) = none) ∧
    (∀ k, (∀ id, k ≠ c.updatedKey id) → Store.get (eraseMarks c s (s.keysOf c.index modeUpdated)) k = Store.get s k) := by
  refine ⟨?_, fun k hk => get_eraseMarks_of_not c s _ k (fun i _ => hk i)⟩
  intro id
  by_cases hm : id ∈ s.keysOf c.index modeUpdated
  · exact get_eraseMarks_of_mem c s _ id hm
  · rw [get_eraseMarks_of_not c s _ _ (by
      intro j hj e
      have := (Cfg.updatedKey_eq_iff c c j id).1 e
      exact hm (by rw [this.2]; exact hj))]
    rw [Store.mem_keysOf_iff hw _ _ _ hi (by decide)] at hm
    simp only [Cfg.updatedKey, Key.mkUpdated]
    cases hg : Store.get s ⟨c.index, modeUpdated, id⟩ with
    | none => rfl
    | some v => rw [hg] at hm; simp at hm

end Arroy
