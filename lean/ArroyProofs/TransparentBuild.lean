import ArroyProofs.Transparent
import ArroyProofs.TreeView
/-! Transparency of every routine of `ArroyModel/Build.lean`, the swallowed cancellation of
`used_tree_node`, and the store facts needed to carry `RootsPresent` to that point. -/
namespace Arroy
open BuildM Generated
namespace Transp

macro "transp_step" : tactic => `(tactic| with_reducible first
  | exact Transparent.pure _
  | exact Transparent.pure' _
  | exact Transparent.fail _
  | exact Transparent.poll
  | exact Transparent.pollN _
  | exact Transparent.getStore
  | exact Transparent.setStore _
  | exact Transparent.modifyStore _
  | exact Transparent.liftExcept _
  | exact Transparent.nextBatch
  | exact Transparent.setRands _
  | exact Transparent.setNormalsRands _ _
  | assumption
  | refine Transparent.forEach _ _ (fun _ => ?_)
  | refine Transparent.peek (fun _ => ?_) (fun _ => rfl)
  | refine Transparent.bind ?_ (fun _ => ?_)
  | refine Transparent.bind' ?_ (fun _ => ?_)
  | split
  | dsimp only)

macro "transp" : tactic => `(tactic| repeat transp_step)

open Build

theorem preProcessItems_tr (c : Cfg) : Transparent (preProcessItems c) := by
  unfold preProcessItems; transp

theorem itemIndices_tr (c : Cfg) : Transparent (itemIndices c) := by
  unfold itemIndices; transp

theorem resetUpdated_tr (c : Cfg) : Transparent (resetUpdated c) := by
  unfold resetUpdated; transp

theorem writeMetadata_tr (c : Cfg) (a b) : Transparent (writeMetadata c a b) := by
  unfold writeMetadata; transp

theorem singleLeaf_tr (c : Cfg) (items) : Transparent (singleLeaf c items) := by
  unfold singleLeaf
  repeat (first | exact writeMetadata_tr _ _ _ | transp_step)

theorem reifyRoot_tr (c : Cfg) (s r) : Transparent (reifyRoot c s r) := by
  unfold reifyRoot; transp

theorem writeBack_tr (c : Cfg) (a b d) : Transparent (writeBack c a b d) := by
  unfold writeBack; transp


theorem deleteExtraTrees_tr (c : Cfg) (k roots) : Transparent (deleteExtraTrees c k roots) := by
  induction k generalizing roots with
  | zero => unfold deleteExtraTrees; transp
  | succ k ih =>
    unfold deleteExtraTrees
    repeat (first | exact ih _ | transp_step)

theorem deleteLoop_tr (c : Cfg) (o D s roots) : Transparent (deleteLoop c o D s roots) := by
  induction roots with
  | nil => unfold deleteLoop; transp
  | cons r rest ih =>
    unfold deleteLoop
    repeat (first | exact ih | exact reifyRoot_tr _ _ _ | transp_step)

theorem deleteItemsFromTrees_tr (c : Cfg) (o roots D) : Transparent (deleteItemsFromTrees c o roots D) := by
  unfold deleteItemsFromTrees
  repeat (first | exact deleteLoop_tr _ _ _ _ _ | exact writeBack_tr _ _ _ _ | transp_step)

theorem insertRoots_tr (c : Cfg) (o snap batch roots g) : Transparent (insertRoots c o snap batch roots g) := by
  induction roots generalizing g with
  | nil => unfold insertRoots; transp
  | cons r rest ih =>
    unfold insertRoots
    repeat (first | exact ih _ | exact reifyRoot_tr _ _ _ | transp_step)

theorem insertItemsInCurrentTrees_tr (c : Cfg) (o roots fuel toInsert g) :
    Transparent (insertItemsInCurrentTrees c o roots fuel toInsert g) := by
  induction fuel generalizing toInsert g with
  | zero => unfold insertItemsInCurrentTrees; transp
  | succ k ih =>
    unfold insertItemsInCurrentTrees
    repeat (first | exact ih _ _ | exact insertRoots_tr _ _ _ _ _ _ | exact writeBack_tr _ _ _ _ | transp_step)

theorem newTrees_tr (c : Cfg) (items k roots large g) : Transparent (newTrees c items k roots large g) := by
  induction k generalizing roots large g with
  | zero => unfold newTrees; transp
  | succ k ih =>
    unfold newTrees
    repeat (first | exact ih _ _ _ | transp_step)

theorem incrementalIndexLargeDescendants_tr (c : Cfg) (o fuel large g) :
    Transparent (incrementalIndexLargeDescendants c o fuel large g) := by
  induction fuel generalizing large g with
  | zero => unfold incrementalIndexLargeDescendants; transp
  | succ k ih =>
    unfold incrementalIndexLargeDescendants
    repeat (first | exact ih _ _ | exact insertItemsInCurrentTrees_tr _ _ _ _ _ _ | exact writeBack_tr _ _ _ _ | transp_step)


/-- what `build` does after `used_tree_node` -/
def afterUsed (c : Cfg) (o : BuildOpts) (loopFuel : Nat) (items updated roots used : List Nat) : BuildM Unit := do
  let toDelete := updated
  let toInsert := IdSet.inter items updated
  let g := IdGen.new used
  let target := targetNTrees o c.dims items.length roots.length
  let roots ← deleteExtraTrees c (roots.length - target) roots
  let roots ← deleteItemsFromTrees c o roots toDelete
  let (large, g) ← insertItemsInCurrentTrees c o roots (toInsert.length + 1) toInsert g
  let (roots, large, g) ← newTrees c items (target - roots.length) roots large g
  incrementalIndexLargeDescendants c o loopFuel large g
  writeMetadata c items roots

theorem build_eq (c : Cfg) (o : BuildOpts) (fuel : Nat) :
    build c o fuel =
      bind' (preProcessItems c) (fun _ => bind' (itemIndices c) (fun items => bind' (resetUpdated c) (fun updated =>
        if fits (cap c o) items.length then singleLeaf c items else
        bind' getStore (fun s => bind' (usedTreeNode c) (afterUsed c o fuel items updated (rootsOf c s)))))) := rfl

theorem afterUsed_tr (c : Cfg) (o fuel items updated roots used) :
    Transparent (afterUsed c o fuel items updated roots used) := by
  unfold afterUsed
  repeat (first
    | exact deleteExtraTrees_tr _ _ _ | exact deleteItemsFromTrees_tr _ _ _ _
    | exact insertItemsInCurrentTrees_tr _ _ _ _ _ _ | exact newTrees_tr _ _ _ _ _ _
    | exact incrementalIndexLargeDescendants_tr _ _ _ _ _ | exact writeMetadata_tr _ _ _ | transp_step)


theorem deleteItemsFromTrees_doomed (c : Cfg) (o : BuildOpts) (roots D : List Nat) {st : BState}
    (hd : Doomed st) (hr : roots ≠ []) : ∃ k, deleteItemsFromTrees c o roots D st = .error (.cancelled k) := by
  obtain ⟨k, hk⟩ := poll_doomed hd
  refine ⟨k, ?_⟩
  cases roots with
  | nil => exact absurd rfl hr
  | cons r rest =>
    unfold deleteItemsFromTrees deleteLoop
    simp only [bind, BuildM.bind', getStore, hk]

theorem deleteExtraTrees_doomed (c : Cfg) (k : Nat) (roots : List Nat) {st : BState}
    (hd : Doomed st) : ∃ j, deleteExtraTrees c (k+1) roots st = .error (.cancelled j) := by
  obtain ⟨j, hj⟩ := poll_doomed hd
  refine ⟨j, ?_⟩
  unfold deleteExtraTrees
  simp only [bind, BuildM.bind', hj]

/-- after a swallowed cancellation, with at least one root, the rest of `build` fails with `cancelled` -/
theorem afterUsed_doomed (c : Cfg) (o : BuildOpts) (fuel : Nat) (items updated roots used : List Nat)
    {st : BState} (hd : Doomed st) (hr : roots ≠ []) :
    ∃ k, afterUsed c o fuel items updated roots used st = .error (.cancelled k) := by
  unfold afterUsed
  dsimp only
  cases hk : roots.length - targetNTrees o c.dims items.length roots.length with
  | zero =>
    obtain ⟨j, hj⟩ := deleteItemsFromTrees_doomed c o roots updated hd hr
    refine ⟨j, ?_⟩
    simp only [deleteExtraTrees, bind, BuildM.bind', pure, BuildM.pure', hj]
  | succ k =>
    obtain ⟨j, hj⟩ := deleteExtraTrees_doomed c k roots hd
    exact ⟨j, by simp only [bind, BuildM.bind', hj]⟩


/-- the cancel schedule fires inside `used_tree_node` (where it is swallowed) -/
def Swallows (c : Cfg) (st : BState) : Prop :=
  ∃ n, st.cancelAt = some n ∧ (st.store.keysOf c.index modeTree).length ≠ 0 ∧
    n < st.polls + (st.store.keysOf c.index modeTree).length

theorem usedTreeNode_erase (c : Cfg) (st : BState) :
    usedTreeNode c (erase st) =
      .ok (st.store.keysOf c.index modeTree,
        erase { st with polls := st.polls + (st.store.keysOf c.index modeTree).length }) := rfl

theorem usedTreeNode_noswallow (c : Cfg) {st : BState} (h : ¬ Swallows c st) :
    usedTreeNode c st =
      .ok (st.store.keysOf c.index modeTree,
        { st with polls := st.polls + (st.store.keysOf c.index modeTree).length }) := by
  unfold usedTreeNode
  cases hc : st.cancelAt with
  | none => rfl
  | some n =>
    have : ¬ ((st.store.keysOf c.index modeTree).length ≠ 0 ∧
        n < st.polls + (st.store.keysOf c.index modeTree).length) := fun hh => h ⟨n, hc, hh.1, hh.2⟩
    simp only [this, if_false]

theorem usedTreeNode_swallow (c : Cfg) {st : BState} {n : Nat} (hc : st.cancelAt = some n)
    (h1 : (st.store.keysOf c.index modeTree).length ≠ 0)
    (h2 : n < st.polls + (st.store.keysOf c.index modeTree).length) :
    usedTreeNode c st = .ok ([], { st with polls := Nat.max n st.polls + 1 }) := by
  unfold usedTreeNode
  simp only [hc, h1, h2, ne_eq, not_false_eq_true, and_self, if_true]

theorem usedTreeNode_at (c : Cfg) {st : BState} (h : ¬ Swallows c st) :
    TransparentAt (usedTreeNode c) st := by
  constructor
  · intro a st' hm
    rw [usedTreeNode_noswallow c h] at hm
    cases hm
    refine ⟨usedTreeNode_erase c st, Nat.le_add_right _ _, rfl, ?_⟩
    intro hs n hn
    have h1 := hs n hn
    have hn' : st.cancelAt = some n := hn
    show st.polls + _ ≤ n
    by_cases h0 : (st.store.keysOf c.index modeTree).length = 0
    · omega
    · by_cases h2 : n < st.polls + (st.store.keysOf c.index modeTree).length
      · exact absurd ⟨n, hn', h0, h2⟩ h
      · omega
  · intro e hm
    rw [usedTreeNode_noswallow c h] at hm
    cases hm

/-- `used_tree_node` followed by a transparent continuation which, should the cancellation be
    swallowed, fails with `cancelled` from every doomed state -/
theorem usedThen_at (c : Cfg) {f : List Nat → BuildM β} {st : BState} (hf : ∀ u, Transparent (f u))
    (hd : Swallows c st → ∀ st1, Doomed st1 → ∃ k, f [] st1 = .error (.cancelled k)) :
    TransparentAt (bind' (usedTreeNode c) f) st := by
  by_cases hs : Swallows c st
  · obtain ⟨n, hc, h1, h2⟩ := hs
    have hu := usedTreeNode_swallow c hc h1 h2
    have hdoom : Doomed { st with polls := Nat.max n st.polls + 1 } :=
      ⟨n, hc, by show n < max n st.polls + 1; omega⟩
    obtain ⟨k, hk⟩ := hd ⟨n, hc, h1, h2⟩ _ hdoom
    have hrun : bind' (usedTreeNode c) f st = .error (.cancelled k) := by
      rw [bind'_ok hu]; exact hk
    constructor
    · intro a st' hm; rw [hrun] at hm; cases hm
    · intro e hm
      rw [hrun] at hm
      injection hm with hm
      subst hm
      refine Or.inl ⟨k, rfl, ?_⟩
      intro n' b st2 hc' hb
      rw [hc] at hc'; cases hc'
      rw [bind'_ok (usedTreeNode_erase c st)] at hb
      have := ((hf _ _).ok b st2 hb).2.1
      simp only [erase_polls] at this
      omega
  · exact TransparentAt.bind' (usedTreeNode_at c hs) (fun a st1 _ => hf a st1) (fun a st1 _ => hf a st1)


/-! ## the first steps of `build` do not change what `used_tree_node` and the metadata lookup see -/

def KeepsView (c : Cfg) (m : BuildM α) : Prop :=
  ∀ st a st', m st = .ok (a, st') → TreeView c st'.store = TreeView c st.store

theorem KeepsView.bind' {c : Cfg} {m : BuildM α} {f : α → BuildM β} (hm : KeepsView c m)
    (hf : ∀ a, KeepsView c (f a)) : KeepsView c (bind' m f) := by
  intro st b st2 h
  cases hms : m st with
  | error e => rw [bind'_err hms] at h; cases h
  | ok r =>
    obtain ⟨a, st1⟩ := r
    rw [bind'_ok hms] at h
    rw [hf a st1 b st2 h, hm st a st1 hms]

theorem KeepsView.of_store_eq {c : Cfg} {m : BuildM α}
    (h : ∀ st a st', m st = .ok (a, st') → st'.store = st.store) : KeepsView c m := by
  intro st a st' hm; rw [h st a st' hm]

theorem KeepsView.pure' (c : Cfg) (a : α) : KeepsView c (pure' a) :=
  KeepsView.of_store_eq (by intro st a st' h; cases h; rfl)

theorem KeepsView.getStore (c : Cfg) : KeepsView c getStore :=
  KeepsView.of_store_eq (by intro st a st' h; cases h; rfl)

theorem KeepsView.poll (c : Cfg) : KeepsView c poll := by
  apply KeepsView.of_store_eq
  intro st a st' h
  unfold BuildM.poll at h
  split at h
  · split at h
    · cases h
    · cases h; rfl
  · cases h; rfl

theorem KeepsView.pollN (c : Cfg) (k : Nat) : KeepsView c (pollN k) := by
  induction k with
  | zero => exact KeepsView.pure' c ()
  | succ k ih => exact KeepsView.bind' (KeepsView.poll c) (fun _ => ih)

theorem KeepsView.modifyStore (c : Cfg) (f : Store → Store) (hf : ∀ s, TreeView c (f s) = TreeView c s) :
    KeepsView c (modifyStore f) := by
  intro st a st' h
  cases h
  exact hf st.store

theorem KeepsView.forEach (c : Cfg) (xs : List α) (f : α → BuildM Unit) (hf : ∀ a, KeepsView c (f a)) :
    KeepsView c (forEach xs f) := by
  induction xs with
  | nil => exact KeepsView.pure' c ()
  | cons x xs ih => exact KeepsView.bind' (hf x) (fun _ => ih)

theorem preProcessItems_keeps (c : Cfg) : KeepsView c (preProcessItems c) := by
  unfold preProcessItems
  refine KeepsView.bind' (KeepsView.poll c) (fun _ => ?_)
  split
  · exact KeepsView.modifyStore c _ (treeView_preprocessDot c)
  · exact KeepsView.pure' c ()

theorem itemIndices_keeps (c : Cfg) : KeepsView c (itemIndices c) := by
  unfold itemIndices
  refine KeepsView.bind' (KeepsView.getStore c) (fun s => ?_)
  exact KeepsView.bind' (KeepsView.pollN c _) (fun _ => KeepsView.pure' c _)

theorem resetUpdated_keeps (c : Cfg) : KeepsView c (resetUpdated c) := by
  unfold resetUpdated
  refine KeepsView.bind' (KeepsView.getStore c) (fun s => ?_)
  refine KeepsView.bind' (KeepsView.forEach c _ _ (fun id => ?_)) (fun _ => KeepsView.pure' c _)
  exact KeepsView.bind' (KeepsView.poll c)
    (fun _ => KeepsView.modifyStore c _ (fun s => treeView_erase_updated c s id))

theorem KeepsView.post {c : Cfg} {m : BuildM α} (h : KeepsView c m) :
    StorePost (RootsPresent c) (RootsPresent c) m := by
  intro st a st' hP hm
  exact (rootsPresent_of_view (h st a st' hm)).2 hP

/-! ## `build` -/

theorem TransparentAt.getStore_bind {f : Store → BuildM β} {st : BState}
    (h : TransparentAt (f st.store) st) : TransparentAt (BuildM.bind' BuildM.getStore f) st :=
  ⟨fun a st' hm => h.ok a st' hm, fun e hm => h.err e hm⟩

theorem build_transparentOn (c : Cfg) (o : BuildOpts) (fuel : Nat) :
    TransparentOn (RootsPresent c) (build c o fuel) := by
  rw [build_eq]
  refine TransparentOn.bind' ((preProcessItems_tr c).on _) (preProcessItems_keeps c).post (fun _ => ?_)
  refine TransparentOn.bind' ((itemIndices_tr c).on _) (itemIndices_keeps c).post (fun items => ?_)
  refine TransparentOn.bind' ((resetUpdated_tr c).on _) (resetUpdated_keeps c).post (fun updated => ?_)
  intro st hP
  split
  · exact singleLeaf_tr c items st
  · apply TransparentAt.getStore_bind
    refine usedThen_at c (fun u => afterUsed_tr c o fuel items updated _ u) ?_
    intro hs st1 hd
    refine afterUsed_doomed c o fuel items updated _ [] hd (hP ?_)
    obtain ⟨n, _, h0, _⟩ := hs
    intro e
    rw [e] at h0
    exact h0 rfl

end Transp
end Arroy
